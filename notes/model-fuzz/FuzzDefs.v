From MQ Require Import Base RetryCore RetrySys CheckRetry RetryProps.
Open Scope nat_scope.
Section F.
Variable cfg : config. Variable fp : fplan.
Fixpoint run_skip (s : sys) (ls : list label) (applied : list label) : sys * list label :=
  match ls with
  | [] => (s, rev applied)
  | l :: r => match step cfg fp s l with Some s' => run_skip s' r (l :: applied) | None => run_skip s r applied end
  end.
End F.
Definition closing_only_b (l : list (nat*nat*fkind)) := forallb (fun e => match snd e with FSilentReq | FSilentAck => false | _ => true end) l.
Definition quiescent_b (s : sys) : bool :=
  match w_retryq (s_w s), s_taskq s, s_pc s, s_cur s with
  | [], [], RRun k, Some k' => (k =? k') && cur_alive s && negb (w_hung (s_w s))
  | _, _, _, _ => false end.
Definition uids := seq 1 14.
Definition check (c : config * list (nat*nat*fkind) * list label) : list nat :=
  let '(cfg, fl, ls) := c in
  let fp := fp_of_list fl in
  let '(s, app) := run_skip cfg fp sys0 ls [] in
  let w := wire_of s in
  let wf := increasing_from 0 (map uop_uid (submits app)) in
  if negb wf then [99] else
  (if forallb (fun u => faithful (pub_entries u w)) uids then [] else [121]) ++
  (if forallb (fun u => no_publish_after_rel u w) uids then [] else [122]) ++
  (if forallb (fun k => nondecreasing_from 0 (publishes_on k w)) (seq 0 12) then [] else [31]) ++ (if forallb (fun k => increasing_from 0 (publishes_on k w)) (seq 0 12) then [] else [310]) ++
  (if increasing_from 0 (first_occurrences [] (request_tx w)) then [] else [32]) ++
  (if negb (closing_only_b fl) || increasing_from 0 (first_occurrences [] (filter (fun u => mem u (q1plus_submitted s)) (b_delivered (broker_of s)))) then [] else [33]) ++
  (if w_hung (s_w s) || forallb (fun o => negb (needs_ack o) || mem (uop_uid o) (final_acked w) || mem (uop_uid o) (pending_uids s)) (s_submitted s) then [] else [11]) ++
  (if increasing_from 0 (pending_uids s) then [] else [12]) ++
  (if forallb (fun o => negb (needs_ack o) || negb (mem (uop_uid o) (w_dropped (s_w s)))) (s_submitted s) then [] else [13]) ++
  (if negb (forallb (fun sp => sp) (tl (accepts app))) || forallb (fun o => negb (is_q2 o) || (count (uop_uid o) (b_delivered (broker_of s)) <=? 1)) (s_submitted s) then [] else [21]) ++
  (if negb (forallb (fun sp => sp) (tl (accepts app))) || forallb (fun o => negb (is_q2 o) || negb (mem (uop_uid o) (final_acked w)) || (count (uop_uid o) (b_delivered (broker_of s)) =? 1)) (s_submitted s) then [] else [22]) ++
  (if forallb (fun u => silent_after_comp u w) uids then [] else [23]) ++
  (if negb (closing_only_b fl && quiescent_b s) || subs_equiv (b_subs (broker_of s)) (net_effect (s_submitted s)) then [] else [81]) ++
  (if negb (closing_only_b fl && quiescent_b s) || subs_equiv (w_subest (s_w s)) (net_effect (s_submitted s)) then [] else [82]) ++
  (if forallb (fun e => match snd (fst e) with PSubscribe 0 ss => s_initialized s && forallb (fun x => ever_subscribed (fst x) (s_submitted s)) ss | _ => true end) w then [] else [84]) ++
  (if negb (c_timeout cfg) || negb (w_hung (s_w s)) then [] else [181]).
Definition qcount (cs : list (config * list (nat*nat*fkind) * list label)) : nat :=
  length (filter (fun c => let '(cfg, fl, ls) := c in quiescent_b (fst (run_skip cfg (fp_of_list fl) sys0 ls []))) cs).
