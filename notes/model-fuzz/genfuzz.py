import random, sys
seed=int(sys.argv[1]); n=int(sys.argv[2]); random.seed(seed)
topics=['[97]','[98]','[99]']
def pub(u): return "UPub {| p_uid := %d; p_qos := %d%%N; p_retain := false; p_topic := [116%%N]; p_payload := [%d%%N] |}"%(u,random.choice([0,1,1,2,2]),u)
def sub(u): return "USub %d [%s]"%(u,"; ".join("(%s%%N, %d%%N)"%(random.choice(topics).replace(']','%N]').replace('%N%N','%N'),random.randint(0,2)) for _ in range(random.randint(1,3))))
def unsub(u): return "UUnsub %d [%s]"%(u,"; ".join(random.choice(topics).replace(']','%N]') for _ in range(random.randint(1,2))))
cases=[]
def onecase():
    cfg="{| c_method_b := %s; c_always_resub := %s; c_timeout := %s |}"%tuple(random.choice(['true','false']) for _ in range(3))
    silent = random.random()<0.3
    kinds=['FWriteFail','FLostAfter','FAckLost']+(['FSilentReq','FSilentAck'] if silent else [])
    fl="; ".join("(%d,%d,%s)"%(random.randint(0,5),random.randint(0,6),random.choice(kinds)) for _ in range(random.randint(0,5)))
    global u, ls, gen
    u=0; ls=[]
    keep = random.random()<0.5
    gen=0
    def noise():
        global u
        x=random.random()
        if x<0.35 and u<13:
            u+=1; ls.append("LSubmit (%s)"%random.choice([pub,pub,pub,sub,unsub])(u))
        elif x<0.5: ls.append("LTask")
        elif x<0.55: ls.append("LObserve %d"%random.randint(0,gen))
        elif x<0.58: ls.append(random.choice(["LIdleCut","LDetectEnd","LBackoff","LSetClient","LPushRetry"]))
    for cyc in range(random.randint(1,5)):
        ok = random.random()<0.85
        ls.append("LDial %s"%('true' if ok else 'false')); noise()
        if ok:
            ls.append("LSetClient"); gen+=1; noise()
            ls.append("LConnBegin"); noise()
            o=random.choice(['CoAccept true']*(6 if keep else 3)+(['CoAccept true'] if keep else ['CoAccept false']*2)+['CoRefused','CoClosed','CoNoAck'])
            ls.append("LConnEnd (%s)"%o); noise()
            if o.startswith('CoAccept'):
                ls.append("LPushResub"); noise(); ls.append("LPushRetry")
                for t in range(random.randint(0,14)):
                    noise(); ls.append("LObserve %d"%gen); ls.append("LTask")
                if cyc<4 and random.random()<0.8:
                    ls.append("LIdleCut")
                for t in range(random.randint(0,4)):
                    noise(); ls.append("LObserve %d"%gen); ls.append("LTask")
                ls.append("LDetectEnd")
            else:
                for t in range(random.randint(0,3)):
                    noise(); ls.append("LObserve %d"%gen); ls.append("LTask")
                ls.append("LCloseFailed")
        ls.append("LBackoff")
    for t in range(random.randint(0,20)):
        ls.append("LObserve %d"%gen); ls.append("LTask")
    cases.append("(%s, [%s], [%s])"%(cfg,fl,"; ".join(ls)))
for c in range(n): onecase()
print("From MQ Require Import Base RetryCore RetrySys CheckRetry RetryProps.\nRequire Import FuzzDefs.\nOpen Scope nat_scope.\nDefinition cs : list (config * list (nat*nat*fkind) * list label) := [\n%s].\nDefinition R := Eval vm_compute in (flat_map check cs, qcount cs).\nPrint R."%(";\n".join(cases)))
