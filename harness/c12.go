package main

func init() { register("C12", runC12) }

func runC12(cfg *runCfg) error {
	c12bCfg = cfg // the base-client retry-handle family (c12_base.go) is run through the rsExtra hook
	n := 350
	depth := 1
	if cfg.tier == "thorough" {
		n, depth = 3000, 2
	}
	if cfg.tier == "search" {
		n = 1200
	}
	var enum []*rsScenario
	for wi, w := range rsWorkloads {
		if wi > 3 {
			continue
		}
		_ = wi
		for _, c := range [][3]bool{{false, false, false}, {true, false, false}} {
			d := depth
			if cfg.tier == "thorough" && rsPacketsBound(w.Ops) <= 3 {
				d = 3 // every placement of three consecutive faults for the small workloads
			}
			rsEnumerate(w, d, c[0], c[1], c[2], func(sc *rsScenario) { enum = append(enum, sc) })
		}
	}
	// a transport whose failing Write returns exactly io.EOF: the library hands that error back bare, without a
	// retry handle, and the RetryClient gives the request up; whatever IS transmitted must still be faithful
	var eof []*rsScenario
	onlyWriteFail := func(sc *rsScenario) bool {
		for _, f := range sc.Faults {
			if f.Kind != fWriteFail {
				return false
			}
		}
		return len(sc.Faults) > 0
	}
	for wi, w := range rsWorkloads {
		if wi > 3 {
			continue
		}
		rsEnumerate(w, 2, false, false, false, func(sc *rsScenario) {
			if onlyWriteFail(sc) {
				sc.EOFWrites = true
				eof = append(eof, sc)
			}
		})
	}
	for _, sc := range rsRandomFamily(cfg.seed+77, n/2, [5]int{2, 4, 4, 1, 0}, false, false) {
		for _, f := range sc.Faults {
			if f.Kind == fWriteFail {
				sc.EOFWrites = true
				eof = append(eof, sc)
				break
			}
		}
	}
	rsPredOnly["eof"] = true
	fams := []rsFamily{
		{"corpus", rsCorpus()},
		{"enum", enum},
		{"random", rsRandomFamily(cfg.seed, n, [5]int{2, 4, 4, 1, 0}, false, false)},
		{"eof", eof},
	}
	rule := "publish workloads x every placement of closing faults on every packet; random scenarios of 1-4 connections, identifiers chosen by the library and by the caller; judged on all PUBLISH/PUBREL packets of each message across connections: same identifier/topic/payload/QoS/retain, DUP=0 first then 1, QoS0 never retransmitted, no PUBLISH after a PUBREL was handed to the transport; family eof (predicate only, not compared with the model): the same with a transport whose failing Write returns exactly io.EOF; non-trivial = distinct scenario in which some message was transmitted at least twice. Family handle (real BaseClients, no RetryClient): Publish QoS1/QoS2 interrupted at every point (PUBLISH write fails / closed / ctx done while waiting, the same at the PUBREL step), the ErrorWithRetry retried on a fresh client, the same client or a never-connected one, with no other request or with other requests blocked un-acknowledged under the SAME packet identifier (Publish waiting PUBACK / PUBREC / PUBCOMP, Subscribe, Unsubscribe; identifier given by the caller or drawn by the library), each second attempt under every environment, plus random chains of 3-4 attempts; identifiers caller-provided, library-chosen, at the 16-bit wrap; judged on every PUBLISH/PUBREL written during each call and on Message.ID after it"
	return rsRunProperty(cfg, "C12", "c12_ok", fams, rule, func(sc *rsScenario, o *rsObs) bool {
		cnt := map[string]int{}
		for _, w := range o.Wire {
			if len(w.Desc) > 8 && w.Desc[:8] == "PUBLISH(" {
				k := w.Desc[:12]
				cnt[k]++
				if cnt[k] > 1 {
					return true
				}
			}
		}
		return false
	})
}
