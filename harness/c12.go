package main

func init() { register("C12", runC12) }

func runC12(cfg *runCfg) error {
	n := 350
	depth := 1
	if cfg.tier == "thorough" {
		n, depth = 3000, 2
	}
	if cfg.tier == "search" {
		n = 1200
	}
	var enum []*rsScenario
	for wi, w := range rsWorkloads {
		if wi > 3 {
			continue
		}
		_ = wi
		for _, c := range [][3]bool{{false, false, false}, {true, false, false}} {
			rsEnumerate(w, depth, c[0], c[1], c[2], func(sc *rsScenario) { enum = append(enum, sc) })
		}
	}
	fams := []rsFamily{
		{"corpus", rsCorpus()},
		{"enum", enum},
		{"random", rsRandomFamily(cfg.seed, n, [5]int{2, 4, 4, 1, 0}, false, false)},
	}
	rule := "publish workloads x every placement of closing faults on every packet; random scenarios of 1-4 connections, identifiers chosen by the library and by the caller; judged on all PUBLISH/PUBREL packets of each message across connections: same identifier/topic/payload/QoS/retain, DUP=0 first then 1, QoS0 never retransmitted, no PUBLISH after a PUBREL was handed to the transport; non-trivial = distinct scenario in which some message was transmitted at least twice"
	return rsRunProperty(cfg, "C12", "c12_ok", fams, rule, func(sc *rsScenario, o *rsObs) bool {
		cnt := map[string]int{}
		for _, w := range o.Wire {
			if len(w.Desc) > 8 && w.Desc[:8] == "PUBLISH(" {
				k := w.Desc[:12]
				cnt[k]++
				if cnt[k] > 1 {
					return true
				}
			}
		}
		return false
	})
}
