package main

// C17 — the registered handler keeps receiving messages on every later connection.
//
// Three families, all against the real library over in-memory transports, no sleeps:
//   seq   a bare RetryClient driven label by label (Handle / Dial / SetClient / Connect split at its
//         gates / CONNACK / inbound PUBLISH / connection end) exactly in the order of a schedule of
//         the Coq model HandlerSys.v (including SetClient while an older connection still lives);
//   loop  the real ReconnectClient: the library decides Dial/SetClient/Connect, the harness places
//         Handle calls at the gates user code gets (Dialer, ConnectOption, write of CONNECT,
//         ConnState(Active) callback, after Connect) and forces reconnects by peer close / refused
//         connection attempts;
//   race  a Handle call truly concurrent with a window of steps (messages or a whole reconnect).
// Observable: which handler instance (tag) received which message (tag in the payload).

import (
	"context"
	"errors"
	"fmt"
	"math/rand"
	"os"
	"runtime"
	"sort"
	"sync"
	"sync/atomic"
	"time"

	mqtt "github.com/at-wat/mqtt-go"
)

func init() { register("C17", runC17) }

// Every wait for the library is limited: 8 s for the first expiries (the quick tier must survive a
// 10x slowdown; the awaited events normally take microseconds), 1 s once two waits have expired
// (the verdict is a violation by then), and after six expiries the remaining cases are skipped.
// An expired wait is an observation ("stuck" = violation), never a hang of the harness.
const c17Wait = 8 * time.Second
const c17Park = 60 * time.Second // library goroutines parked in a gate until the scenario releases them

var c17Expired int32

func c17Limit() time.Duration {
	if atomic.LoadInt32(&c17Expired) >= 2 {
		return time.Second
	}
	return c17Wait
}

func c17GiveUp() bool { return atomic.LoadInt32(&c17Expired) >= 6 }

// c17Call runs a call into the library on its own goroutine and waits for it with the limit.
func c17Call(f func()) bool {
	done := make(chan struct{})
	go func() {
		defer close(done)
		f()
	}()
	return c17WaitCh(done)
}

// ---------------------------------------------------------------- labels

type c17Label struct {
	Op string // uh dl sc cb cs csc ca ib cr en qp qr qu
	K  int    // client index (sc cs ca ib cr en)
	M  int    // message tag (ib), also its packet identifier
	H  int    // handler tag (uh dl); 0 = nil
	Q  byte   // QoS of the inbound message (ib)
	Re bool   // ib: the handler that is called for this message calls Handle(H) before it returns
	Dup bool   // ib / qp: the PUBLISH carries DUP=1 (a broker's retransmission for a resumed session)
	Fail bool  // ib(q1)/qp/qr: the transport fails the client's write of the acknowledgement of this packet
	           // (PUBACK / PUBREC / PUBCOMP) and cuts the connection; must be the last message of its send
	Auto bool  // en: the connection ends by itself (write fault above), the scenario does not close it
	Via string // uh (loop family): "" / "the returned ReconnectClient" / "the application's own RetryClient"
}

// coq renders the label; reentered: the handler did make the Handle call this message asks for.
// A write fault is no label of its own in the model: "hand-over, then the acknowledgement write fails and
// the reader ends" is the hand-over label followed by R_end; a QoS 2 PUBLISH whose PUBREC write fails is
// not stored (serve.go: the write comes first), i.e. only R_end.
func (l c17Label) coq(reentered bool) string {
	if l.Op == "qp" && l.Fail {
		return ""
	}
	if l.Op == "ib" && l.Re && reentered {
		return fmt.Sprintf("ih %d %d %d", l.K, l.M, l.H)
	}
	switch l.Op {
	case "qp":
		d := 0
		if l.Dup {
			d = 1
		}
		return fmt.Sprintf("qp %d %d %d", l.K, l.M, d)
	case "qr", "qu":
		return fmt.Sprintf("%s %d %d", l.Op, l.K, l.M)
	case "uh", "dl":
		return fmt.Sprintf("%s %d", l.Op, l.H)
	case "cb":
		return "cb"
	case "ib":
		return fmt.Sprintf("ib %d %d", l.K, l.M)
	}
	return fmt.Sprintf("%s %d", l.Op, l.K)
}

func (l c17Label) desc() string {
	if l.Fail {
		l2 := l
		l2.Fail = false
		return l2.desc() + map[string]string{"ib": "[the write of its PUBACK fails: connection cut]",
			"qp": "[the write of its PUBREC fails: connection cut]", "qr": "[the write of its PUBCOMP fails: connection cut]"}[l.Op]
	}
	if l.Op == "en" && l.Auto {
		return fmt.Sprintf("End(#%d) by the write fault", l.K)
	}
	h := func(x int) string {
		if x == 0 {
			return "nil"
		}
		return fmt.Sprintf("h%d", x)
	}
	switch l.Op {
	case "uh":
		if l.Via != "" {
			return "Handle(" + h(l.H) + ") through " + l.Via
		}
		return "Handle(" + h(l.H) + ")"
	case "dl":
		if l.H == 0 {
			return "Dial"
		}
		return "Dial[dialer left " + h(l.H) + " on the client]"
	case "sc":
		return fmt.Sprintf("SetClient(#%d)", l.K)
	case "cb":
		return "RetryClient.Connect:install-section"
	case "cs":
		return fmt.Sprintf("BaseClient.Connect(#%d):CONNECT-written", l.K)
	case "csc":
		return fmt.Sprintf("BaseClient.Connect(#%d,CleanSession):CONNECT-written", l.K)
	case "qu":
		return fmt.Sprintf("PUBREL(#%d,m%d)[nothing stored under that identifier]", l.K, l.M)
	case "ca":
		return fmt.Sprintf("CONNACK(#%d)", l.K)
	case "qp":
		if l.Dup {
			return fmt.Sprintf("PUBLISH(#%d,m%d,q2,DUP) alone: stored, PUBREC", l.K, l.M)
		}
		return fmt.Sprintf("PUBLISH(#%d,m%d,q2) alone: stored, PUBREC", l.K, l.M)
	case "qr":
		return fmt.Sprintf("PUBREL(#%d,m%d)", l.K, l.M)
	case "ib":
		if l.Dup {
			return fmt.Sprintf("PUBLISH(#%d,m%d,q%d,DUP)", l.K, l.M, l.Q)
		}
		if l.Re {
			return fmt.Sprintf("PUBLISH(#%d,m%d,q%d)[the handler called for it calls Handle(%s)]", l.K, l.M, l.Q, h(l.H))
		}
		return fmt.Sprintf("PUBLISH(#%d,m%d,q%d)", l.K, l.M, l.Q)
	case "cr":
		return fmt.Sprintf("Connect-returns(#%d)", l.K)
	case "en":
		return fmt.Sprintf("End(#%d)", l.K)
	}
	return l.Op
}

func c17Coq(ls []c17Label, g *c17Log) string {
	var s []string
	for _, l := range ls {
		if x := l.coq(g != nil && g.didReenter(l.M)); x != "" {
			s = append(s, x)
		}
	}
	return cListInline(s)
}

func c17Desc(ls []c17Label) []string {
	var s []string
	for _, l := range ls {
		s = append(s, l.desc())
	}
	return s
}

// ---------------------------------------------------------------- handler log

type c17Hand struct{ H, K, M int }

type c17Log struct {
	mu        sync.Mutex
	hands     []c17Hand
	reenter   func(h int)  // RetryClient.Handle / ReconnectClient.Handle of the scenario
	reentered map[int]bool // message tag -> the Handle call made from inside the callback returned
}

func (g *c17Log) didReenter(m int) bool {
	g.mu.Lock()
	defer g.mu.Unlock()
	return g.reentered[m]
}

func (g *c17Log) handler(h int) mqtt.Handler {
	if h == 0 {
		return nil
	}
	return mqtt.HandlerFunc(func(msg *mqtt.Message) {
		k, m := -1, -1
		if len(msg.Payload) >= 3 {
			k = int(msg.Payload[0])
			m = int(msg.Payload[1])<<8 | int(msg.Payload[2])
		}
		g.mu.Lock()
		g.hands = append(g.hands, c17Hand{h, k, m})
		g.mu.Unlock()
		if len(msg.Payload) == 5 && msg.Payload[3] == 1 && g.reenter != nil {
			// replace the handler from inside the callback, on the reader goroutine
			g.reenter(int(msg.Payload[4]))
			g.mu.Lock()
			if g.reentered == nil {
				g.reentered = map[int]bool{}
			}
			g.reentered[m] = true
			g.mu.Unlock()
		}
	})
}

func (g *c17Log) snapshot() []c17Hand {
	g.mu.Lock()
	defer g.mu.Unlock()
	return append([]c17Hand{}, g.hands...)
}

func c17WaitCh(ch <-chan struct{}) bool {
	select {
	case <-ch:
		return true
	default:
	}
	t := time.NewTimer(c17Limit())
	defer t.Stop()
	select {
	case <-ch:
		return true
	case <-t.C:
		atomic.AddInt32(&c17Expired, 1)
		return false
	}
}

// c17ParkOn: a library goroutine waits in a gate for the scenario (not an observation)
func c17ParkOn(ch <-chan struct{}) {
	t := time.NewTimer(c17Park)
	defer t.Stop()
	select {
	case <-ch:
	case <-t.C:
	}
}

// ---------------------------------------------------------------- one connection (broker side + gates)

type c17Conn struct {
	k   int
	mc  *memConn
	cli *mqtt.BaseClient

	mu   sync.Mutex
	acks map[uint32]chan struct{} // packet type << 16 | packet identifier
	comp map[uint16]bool          // PUBCOMP written for this identifier
	failOn   uint32               // if non-zero: the write of this acknowledgement (type<<16|id) fails and cuts the connection
	faultHit chan struct{}        // closed when that write was attempted
	holdOut  bool                 // outbound QoS 1 PUBLISHes of the client are not acknowledged (request left in flight)
	outSeen  chan struct{}        // closed when an outbound PUBLISH of the client reached the broker
	outOnce  sync.Once

	optArrive, optRelease       chan struct{} // ConnectOption closure: inside BaseClient.Connect, before the reader starts
	connectWritten              chan struct{} // CONNECT reached the broker
	connGate                    chan struct{} // if non-nil the write of CONNECT returns only after it is closed
	activeArrive, activeRelease chan struct{} // ConnState(StateActive): CONNACK received, Connect not returned yet
	connectDone                 chan struct{} // the goroutine calling RetryClient.Connect finished (seq/race)
	optOnce, cwOnce, actOnce    sync.Once
	readerMayRun                bool
	autoAccept                  []byte          // if set: what the broker sends as soon as CONNECT arrives (stress family)
	done                        <-chan struct{} // BaseClient.Done() of this client, fetched once after CONNECT was written
}

// fetchDone: BaseClient.Done() takes the client's lock, so it is called once, early, and guarded
func (c *c17Conn) fetchDone() bool {
	return c17Call(func() { c.done = c.cli.Done() })
}

func c17NewConn(k int, g *c17Log, dialH int, gateWrite bool) *c17Conn {
	c := &c17Conn{k: k, acks: map[uint32]chan struct{}{},
		optArrive: make(chan struct{}), optRelease: make(chan struct{}),
		connectWritten: make(chan struct{}),
		activeArrive:   make(chan struct{}), activeRelease: make(chan struct{}),
		connectDone: make(chan struct{}), faultHit: make(chan struct{}), outSeen: make(chan struct{})}
	if gateWrite {
		c.connGate = make(chan struct{})
	}
	c.mc = newMemConn(k, func(_ *memConn, pkt []byte) error {
		switch pkt[0] & 0xF0 {
		case 0x10:
			c.cwOnce.Do(func() { close(c.connectWritten) })
			if c.autoAccept != nil {
				c.mc.send(c.autoAccept)
			}
			if c.connGate != nil {
				c17ParkOn(c.connGate)
			}
		case 0x40, 0x50, 0x70:
			if len(pkt) >= 4 {
				key := uint32(pkt[0]&0xF0)<<16 | uint32(pkt[2])<<8 | uint32(pkt[3])
				c.mu.Lock()
				fail := c.failOn != 0 && c.failOn == key
				c.mu.Unlock()
				if fail {
					// the transport breaks exactly at this write: nothing reaches the broker
					c.mc.Close()
					c17Close(c.faultHit)
					return errCut
				}
				c.ack(key)
			}
		case 0x30:
			// an outbound PUBLISH of the client (families with a request in flight): QoS 1 is acknowledged
			// at once unless the scenario holds it
			c.outOnce.Do(func() { close(c.outSeen) })
			if (pkt[0]>>1)&3 == 1 && len(pkt) >= 4 {
				tl := int(pkt[2])<<8 | int(pkt[3])
				if !c.holdOut && len(pkt) >= 6+tl {
					c.mc.send(encID(0x40, uint16(pkt[4+tl])<<8|uint16(pkt[5+tl])))
				}
			}
		}
		return nil
	})
	c.cli = &mqtt.BaseClient{Transport: c.mc}
	c.cli.ConnState = func(st mqtt.ConnState, err error) {
		if st == mqtt.StateActive {
			c.actOnce.Do(func() {
				close(c.activeArrive)
				c17ParkOn(c.activeRelease)
			})
		}
	}
	if dialH != 0 {
		c.cli.Handle(g.handler(dialH))
	}
	return c
}

// optGate is the ConnectOption the harness passes to Connect: user code running inside
// BaseClient.Connect, i.e. after RetryClient.Connect's install section and before the reader starts.
func (c *c17Conn) optGate() {
	c.optOnce.Do(func() {
		close(c.optArrive)
		c17ParkOn(c.optRelease)
	})
}

func (c *c17Conn) pubcompSeen(id uint16) bool {
	c.mu.Lock()
	defer c.mu.Unlock()
	return c.comp[id]
}

func (c *c17Conn) ack(id uint32) {
	c.mu.Lock()
	if id>>16 == 0x70 {
		if c.comp == nil {
			c.comp = map[uint16]bool{}
		}
		c.comp[uint16(id)] = true
	}
	ch := c.acks[id]
	delete(c.acks, id)
	c.mu.Unlock()
	if ch != nil {
		close(ch)
	}
}

func (c *c17Conn) expect(id uint32) chan struct{} {
	ch := make(chan struct{})
	c.mu.Lock()
	c.acks[id] = ch
	c.mu.Unlock()
	return ch
}

func c17Payload(l c17Label) []byte {
	p := []byte{byte(l.K), byte(l.M >> 8), byte(l.M)}
	if l.Re {
		p = append(p, 1, byte(l.H))
	}
	return p
}

// sendGroup sends (optionally the CONNACK and) the messages in ONE send, so that they are what the
// reader sees next, back to back; returns per message whether the reader is known to have processed
// it (its own acknowledgement, or that of a later message of the group, reached the broker).
func (c *c17Conn) sendGroup(connack bool, msgs []c17Label) []bool {
	var b []byte
	if connack {
		b = append(b, connackOK...)
	}
	waits := make([]chan struct{}, len(msgs))
	for i, m := range msgs {
		switch m.Op {
		case "qp": // QoS 2 PUBLISH alone; processed when its PUBREC reaches the broker
			b = append(b, encPublish(inMsg{Topic: []byte("t"), ID: uint16(m.M), QoS: 2, Dup: m.Dup, Payload: c17Payload(m)})...)
			waits[i] = c.expect(0x50<<16 | uint32(m.M))
		case "qr", "qu": // a PUBREL; witnessed by the acknowledgement of the message behind it (PUBCOMP is not awaited)
			b = append(b, encID(0x62, uint16(m.M))...)
		default:
			b = append(b, encPublish(inMsg{Topic: []byte("t"), ID: uint16(m.M), QoS: m.Q, Dup: m.Dup, Payload: c17Payload(m)})...)
			if m.Q == 1 {
				waits[i] = c.expect(0x40<<16 | uint32(m.M))
			}
			if m.Q == 2 {
				waits[i] = c.expect(0x70<<16 | uint32(m.M))
				b = append(b, encID(0x62, uint16(m.M))...)
			}
		}
	}
	if n := len(msgs); n > 0 && msgs[n-1].Fail {
		// the acknowledgement write of the last message fails: evidence of processing is the attempt itself
		f := msgs[n-1]
		key := map[string]uint32{"ib": 0x40, "qp": 0x50, "qr": 0x70}[f.Op]<<16 | uint32(f.M)
		c.mu.Lock()
		c.failOn = key
		delete(c.acks, key)
		c.mu.Unlock()
		waits[n-1] = c.faultHit
	}
	c.mc.send(b)
	done := make([]bool, len(msgs))
	later := false
	for i := len(msgs) - 1; i >= 0; i-- {
		if waits[i] != nil {
			done[i] = c.waitAck(waits[i])
			if done[i] {
				later = true
			}
		} else {
			// QoS 0: witnessed by the acknowledgement of a later message of the same stream
			done[i] = later
		}
	}
	return done
}

// waitAck waits for an acknowledgement; gives up when the reader has finished (nothing can be
// acknowledged any more) or the time limit expires.
// readerGone: the client's reader has finished (non-blocking)
func (c *c17Conn) readerGone() bool {
	select {
	case <-c.done:
		return c.done != nil
	default:
		return false
	}
}

func (c *c17Conn) waitAck(ch chan struct{}) bool {
	select {
	case <-ch:
		return true
	default:
	}
	t := time.NewTimer(c17Limit())
	defer t.Stop()
	select {
	case <-ch:
		return true
	case <-c.done: // nil (blocks) if it could not be fetched
		select {
		case <-ch:
			return true
		default:
			return false
		}
	case <-t.C:
		atomic.AddInt32(&c17Expired, 1)
		return false
	}
}

func (c *c17Conn) releaseAll() {
	c17Close(c.optRelease)
	c17Close(c.activeRelease)
	if c.connGate != nil {
		c17Close(c.connGate)
	}
	c.mc.Close()
}

func c17Close(ch chan struct{}) {
	defer func() { _ = recover() }()
	select {
	case <-ch:
	default:
		close(ch)
	}
}

// ---------------------------------------------------------------- bare RetryClient, label by label

type c17Bare struct {
	rc        *mqtt.RetryClient
	log       *c17Log
	conns     []*c17Conn
	cur       int // index of the client given to the latest SetClient, -1 = none
	processed map[int]bool
	comp      map[int]bool // message tag -> PUBCOMP was written in answer to its PUBREL
	problem   string
}

func c17NewBare() *c17Bare {
	b := &c17Bare{rc: &mqtt.RetryClient{}, log: &c17Log{}, cur: -1, processed: map[int]bool{}, comp: map[int]bool{}}
	b.log.reenter = func(h int) { b.rc.Handle(b.log.handler(h)) }
	return b
}

// exec runs the labels in order; every label is complete (its effect has happened) before the next
// one starts. Returns false when a wait expired (problem says where).
func (b *c17Bare) exec(ls []c17Label) bool {
	ctx := context.Background()
	for i := 0; i < len(ls); i++ {
		l := ls[i]
		switch l.Op {
		case "uh":
			if !c17Call(func() { b.rc.Handle(b.log.handler(l.H)) }) {
				b.problem = fmt.Sprintf("label %d (%s): Handle did not return", i, l.desc())
				return false
			}
		case "dl":
			b.conns = append(b.conns, c17NewConn(len(b.conns), b.log, l.H, false))
		case "sc":
			if !c17Call(func() { b.rc.SetClient(ctx, b.conns[l.K].cli) }) {
				b.problem = fmt.Sprintf("label %d (%s): SetClient did not return", i, l.desc())
				return false
			}
			b.cur = l.K
		case "cb":
			c := b.conns[b.cur]
			opts := []mqtt.ConnectOption{func(o *mqtt.ConnectOptions) error {
				c.optGate()
				return nil
			}}
			for _, n := range ls[i+1:] {
				if (n.Op == "cs" || n.Op == "csc") && n.K == b.cur {
					if n.Op == "csc" {
						opts = append(opts, mqtt.WithCleanSession(true))
					}
					break
				}
			}
			go func() {
				defer close(c.connectDone)
				defer func() { _ = recover() }()
				_, _ = b.rc.Connect(ctx, "c17", opts...)
			}()
			if !c17WaitCh(c.optArrive) {
				b.problem = fmt.Sprintf("label %d (%s): RetryClient.Connect did not reach BaseClient.Connect", i, l.desc())
				return false
			}
		case "cs", "csc":
			c := b.conns[l.K]
			c.readerMayRun = true
			c17Close(c.optRelease)
			if !c17WaitCh(c.connectWritten) {
				b.problem = fmt.Sprintf("label %d (%s): CONNECT was not written", i, l.desc())
				return false
			}
			if !c.fetchDone() {
				b.problem = fmt.Sprintf("label %d (%s): BaseClient.Done did not return", i, l.desc())
				return false
			}
		case "ca", "ib", "qp", "qr", "qu":
			c := b.conns[l.K]
			j := i
			if l.Op == "ca" {
				j = i + 1
			}
			e := j
			for e < len(ls) && c17IsMsg(ls[e]) && ls[e].K == l.K {
				e++
			}
			done := c.sendGroup(l.Op == "ca", ls[j:e])
			for x, d := range done {
				if ls[j+x].Op == "qu" {
					continue
				}
				b.processed[ls[j+x].M] = d
				if ls[j+x].Op == "qr" {
					b.comp[ls[j+x].M] = c.pubcompSeen(uint16(ls[j+x].M))
				}
				if !d && !c.readerGone() {
					b.problem = fmt.Sprintf("label %d (%s): the reader never got past this message (no acknowledgement)", j+x, ls[j+x].desc())
					return false
				}
			}
			i = e - 1
		case "cr":
			c := b.conns[l.K]
			if !c17WaitCh(c.activeArrive) {
				b.problem = fmt.Sprintf("label %d (%s): ConnState(Active) was not reported", i, l.desc())
				return false
			}
			c17Close(c.activeRelease)
			if !c17WaitCh(c.connectDone) {
				b.problem = fmt.Sprintf("label %d (%s): Connect did not return", i, l.desc())
				return false
			}
		case "en":
			c := b.conns[l.K]
			if !l.Auto {
				c.mc.Close()
			}
			if c.readerMayRun && !c17WaitCh(c.done) {
				b.problem = fmt.Sprintf("label %d (%s): reader did not finish", i, l.desc())
				return false
			}
		}
	}
	return true
}

// c17IsMsg: a label that is (part of) an inbound message of the broker
func c17IsMsg(l c17Label) bool { return l.Op == "ib" || l.Op == "qp" || l.Op == "qr" || l.Op == "qu" }

func (b *c17Bare) cleanup() {
	for _, c := range b.conns {
		c.releaseAll()
	}
}

// c17Obs renders, per inbound label in schedule order, what was observed.
func c17Obs(ls []c17Label, hands []c17Hand, processed map[int]bool, comp map[int]bool) (coq []string, desc []string, orderOK bool) {
	by := map[int][]int{}
	for _, h := range hands {
		by[h.M] = append(by[h.M], h.H)
	}
	var want []int
	for _, l := range ls {
		if l.Op != "ib" && l.Op != "qr" {
			continue
		}
		hs := by[l.M]
		if l.Fail && l.Op == "qr" && len(hs) == 1 {
			// released and handed over; the PUBCOMP write was the injected fault
			coq = append(coq, fmt.Sprintf("oh %d %d %d", l.K, l.M, hs[0]))
			desc = append(desc, fmt.Sprintf("m%d(#%d)->h%d", l.M, l.K, hs[0]))
			want = append(want, l.M)
			continue
		}
		switch {
		case len(hs) == 1 && l.Op == "qr" && !comp[l.M]:
			coq = append(coq, fmt.Sprintf("on %d %d %d", l.K, l.M, hs[0]))
			desc = append(desc, fmt.Sprintf("m%d(#%d)->h%d but NO PUBCOMP", l.M, l.K, hs[0]))
			want = append(want, l.M)
		case len(hs) == 1:
			coq = append(coq, fmt.Sprintf("oh %d %d %d", l.K, l.M, hs[0]))
			desc = append(desc, fmt.Sprintf("m%d(#%d)->h%d", l.M, l.K, hs[0]))
			want = append(want, l.M)
		case len(hs) > 1:
			coq = append(coq, fmt.Sprintf("om %d %d", l.K, l.M))
			desc = append(desc, fmt.Sprintf("m%d(#%d)->%v (more than once)", l.M, l.K, hs))
		case processed[l.M]:
			coq = append(coq, fmt.Sprintf("od %d %d", l.K, l.M))
			desc = append(desc, fmt.Sprintf("m%d(#%d) dropped: processed, no handler call", l.M, l.K))
		default:
			coq = append(coq, fmt.Sprintf("os %d %d", l.K, l.M))
			desc = append(desc, fmt.Sprintf("m%d(#%d) never processed", l.M, l.K))
		}
	}
	// a hand-over of something no hand-over label stands for (e.g. for a PUBREL that should find nothing)
	evl := map[int]bool{}
	for _, l := range ls {
		if l.Op == "ib" || l.Op == "qr" {
			evl[l.M] = true
		}
	}
	for _, h := range hands {
		if !evl[h.M] {
			coq = append(coq, fmt.Sprintf("om %d %d", h.K, h.M))
			desc = append(desc, fmt.Sprintf("m%d(#%d)->h%d: unexpected hand-over", h.M, h.K, h.H))
			evl[h.M] = true
		}
	}
	// handler calls happen in the order the messages were sent (per connection a stream; across
	// connections the harness waits for each group)
	orderOK = true
	var got []int
	for _, h := range hands {
		if len(by[h.M]) == 1 {
			got = append(got, h.M)
		}
	}
	if len(got) == len(want) {
		for i := range got {
			if got[i] != want[i] {
				orderOK = false
			}
		}
	}
	return
}

// ---------------------------------------------------------------- schedule generation for seq/race

type c17Gen struct {
	r      *rand.Rand
	phase  []int // 0 Fresh 1 Installed 2 Reading 3 Acked 4 Ended
	ret    []bool
	cur    int
	nextM  int
	nextH  int
	labels []c17Label
	// mirror of the model's inbound stores: which store object a client uses, what each store holds
	cstore   []int
	stores   []map[int]bool
	released []int // identifiers released earlier (a repeated PUBREL must find nothing)
}

func (g *c17Gen) storeOf(k int) map[int]bool {
	for len(g.cstore) <= k { // loop family: every client of the session uses store 0
		g.cstore = append(g.cstore, 0)
	}
	for len(g.stores) <= g.cstore[k] {
		g.stores = append(g.stores, map[int]bool{})
	}
	return g.stores[g.cstore[k]]
}

func (g *c17Gen) pending(k int) []int {
	var out []int
	for m := range g.storeOf(k) {
		out = append(out, m)
	}
	sort.Ints(out)
	return out
}

func c17NewGen(r *rand.Rand) *c17Gen {
	return &c17Gen{r: r, cur: -1, nextM: 1, nextH: 1}
}

func (g *c17Gen) add(l c17Label) {
	switch l.Op {
	case "dl":
		g.phase = append(g.phase, 0)
		g.ret = append(g.ret, false)
		g.cstore = append(g.cstore, len(g.stores))
		g.stores = append(g.stores, map[int]bool{})
	case "sc":
		if g.cur >= 0 && g.cur != l.K {
			g.cstore[l.K] = g.cstore[g.cur] // the new client continues with the store of the one it replaces
		}
		g.cur = l.K
	case "csc":
		g.phase[l.K] = 2
		g.stores[g.cstore[l.K]] = map[int]bool{} // clean session: forget
	case "qp":
		if !l.Fail { // PUBREC write failed: serve returns before storing
			g.storeOf(l.K)[l.M] = true
		}
	case "qr":
		delete(g.storeOf(l.K), l.M)
		g.released = append(g.released, l.M)
	case "cb":
		g.phase[g.cur] = 1
	case "cs":
		g.phase[l.K] = 2
	case "ca":
		g.phase[l.K] = 3
	case "cr":
		g.ret[l.K] = true
	case "en":
		g.phase[l.K] = 4
	}
	g.labels = append(g.labels, l)
}

func (g *c17Gen) handle() c17Label {
	x := g.r.Intn(10)
	switch {
	case x == 0:
		return c17Label{Op: "uh", H: 0}
	case x <= 2 && g.nextH > 1:
		return c17Label{Op: "uh", H: 1 + g.r.Intn(g.nextH-1)}
	}
	g.nextH++
	return c17Label{Op: "uh", H: g.nextH - 1}
}

// msgs: a group of 1..n inbound messages on connection k; a QoS 0 message is never the last one of
// a group (its processing is witnessed by the acknowledgement of the message behind it)
func (g *c17Gen) msgs(k, n int) {
	cnt := 1 + g.r.Intn(n)
	for i := 0; i < cnt; i++ {
		// QoS 2 exchanges whose PUBLISH and PUBREL are separate steps (anything may come between them)
		// (the store is session state: the PUBLISH may have arrived on an earlier connection)
		if p := g.pending(k); len(p) > 0 && g.r.Intn(3) == 0 {
			g.add(c17Label{Op: "qr", K: k, M: p[g.r.Intn(len(p))]})
			g.add(c17Label{Op: "ib", K: k, M: g.nextM, Q: 1})
			g.nextM++
			continue
		}
		if len(g.released) > 0 && g.r.Intn(12) == 0 {
			// a repeated PUBREL for a message that was released already: nothing may happen
			if m := g.released[g.r.Intn(len(g.released))]; !g.storeOf(k)[m] {
				g.add(c17Label{Op: "qu", K: k, M: m})
				g.add(c17Label{Op: "ib", K: k, M: g.nextM, Q: 1})
				g.nextM++
				continue
			}
		}
		if g.r.Intn(6) == 0 {
			g.add(c17Label{Op: "qp", K: k, M: g.nextM, Dup: g.r.Intn(3) == 0})
			g.nextM++
			continue
		}
		q := byte(1)
		switch x := g.r.Intn(10); {
		case x < 3 && i < cnt-1:
			q = 0
		case x < 5:
			q = 2
		}
		l := c17Label{Op: "ib", K: k, M: g.nextM, Q: q, Dup: q == 1 && g.r.Intn(8) == 0}
		if !l.Dup && g.r.Intn(8) == 0 {
			// the handler that gets this message replaces the handler from inside its callback
			l.Re, l.H = true, g.handle().H
		}
		g.add(l)
		g.nextM++
	}
}

// fault: connection k ends because the write of an acknowledgement fails (PUBACK of a QoS 1 message, PUBREC of a
// QoS 2 PUBLISH, PUBCOMP of a release); returns the labels (the last one is the automatic end)
func (g *c17Gen) fault(k int, withEnd bool) {
	kind := g.r.Intn(3)
	switch {
	case kind == 0:
		g.add(c17Label{Op: "ib", K: k, M: g.nextM, Q: 1, Fail: true})
		g.nextM++
	case kind == 1:
		g.add(c17Label{Op: "qp", K: k, M: g.nextM, Fail: true})
		g.nextM++
	default:
		p := g.pending(k)
		if len(p) == 0 {
			g.add(c17Label{Op: "qp", K: k, M: g.nextM})
			p = []int{g.nextM}
			g.nextM++
		}
		g.add(c17Label{Op: "qr", K: k, M: p[g.r.Intn(len(p))], Fail: true})
	}
	if withEnd {
		g.add(c17Label{Op: "en", K: k, Auto: true})
	}
}

func (g *c17Gen) pick(cands []int) int { return cands[g.r.Intn(len(cands))] }

func (g *c17Gen) with(p int) []int {
	var out []int
	for k, ph := range g.phase {
		if ph == p {
			out = append(out, k)
		}
	}
	return out
}

// random walk over the labels the model enables
func (g *c17Gen) random(n int, overlap bool) {
	for len(g.labels) < n {
		type opt struct {
			w int
			f func()
		}
		var opts []opt
		opts = append(opts, opt{3, func() { g.add(g.handle()) }})
		live := len(g.with(1)) + len(g.with(2)) + len(g.with(3))
		fresh := g.with(0)
		if len(g.phase) < 7 && len(fresh) < 2 {
			opts = append(opts, opt{3, func() {
				h0 := 0
				if g.r.Intn(5) == 0 {
					h0 = 90 + g.r.Intn(3)
				}
				g.add(c17Label{Op: "dl", H: h0})
			}})
		}
		if len(fresh) > 0 && (overlap || live == 0) {
			opts = append(opts, opt{4, func() { g.add(c17Label{Op: "sc", K: g.pick(fresh)}) }})
		}
		if g.cur >= 0 && g.phase[g.cur] == 0 {
			opts = append(opts, opt{6, func() { g.add(c17Label{Op: "cb"}) }})
		}
		if ks := g.with(1); len(ks) > 0 {
			opts = append(opts, opt{6, func() {
				o := "cs"
				if g.r.Intn(6) == 0 {
					o = "csc"
				}
				g.add(c17Label{Op: o, K: g.pick(ks)})
			}})
		}
		if ks := g.with(2); len(ks) > 0 {
			opts = append(opts, opt{6, func() {
				k := g.pick(ks)
				g.add(c17Label{Op: "ca", K: k})
				if g.r.Intn(4) > 0 {
					g.msgs(k, 3)
				}
			}})
			if g.r.Intn(6) == 0 {
				opts = append(opts, opt{1, func() { g.msgs(g.pick(ks), 2) }}) // broker sends before CONNACK
			}
		}
		if ks := g.with(3); len(ks) > 0 {
			opts = append(opts, opt{6, func() { g.msgs(g.pick(ks), 3) }})
			opts = append(opts, opt{1, func() { g.fault(g.pick(ks), true) }})
			var nr []int
			for _, k := range ks {
				if !g.ret[k] {
					nr = append(nr, k)
				}
			}
			if len(nr) > 0 {
				opts = append(opts, opt{3, func() { g.add(c17Label{Op: "cr", K: g.pick(nr)}) }})
			}
		}
		var notEnded []int
		for k, ph := range g.phase {
			if ph != 4 && !(ph == 0 && g.r.Intn(4) > 0) {
				notEnded = append(notEnded, k)
			}
		}
		if len(notEnded) > 0 {
			opts = append(opts, opt{2, func() { g.add(c17Label{Op: "en", K: g.pick(notEnded)}) }})
		}
		tot := 0
		for _, o := range opts {
			tot += o.w
		}
		x := g.r.Intn(tot)
		for _, o := range opts {
			if x < o.w {
				o.f()
				break
			}
			x -= o.w
		}
	}
}

// fixed skeletons into which Handle calls are inserted at every position
func c17Skeleton(which int) []c17Label {
	ib := func(k, m int, q byte) c17Label { return c17Label{Op: "ib", K: k, M: m, Q: q} }
	op := func(o string, k int) c17Label { return c17Label{Op: o, K: k} }
	switch which {
	case 0: // two consecutive connections, messages right behind each CONNACK and later
		return []c17Label{{Op: "dl"}, op("sc", 0), {Op: "cb"}, op("cs", 0), op("ca", 0), ib(0, 1, 0), ib(0, 2, 1), op("cr", 0), ib(0, 3, 1),
			op("en", 0), {Op: "dl"}, op("sc", 1), {Op: "cb"}, op("cs", 1), op("ca", 1), ib(1, 4, 1), op("cr", 1), ib(1, 5, 2)}
	case 2: // handlers that replace the handler from inside their callback (new one, the same one again, nil)
		re := func(k, m int, q byte, h int) c17Label { return c17Label{Op: "ib", K: k, M: m, Q: q, Re: true, H: h} }
		return []c17Label{{Op: "dl"}, op("sc", 0), {Op: "cb"}, op("cs", 0), op("ca", 0), ib(0, 1, 1), re(0, 2, 1, 5), ib(0, 3, 1), op("cr", 0),
			re(0, 4, 2, 5), ib(0, 5, 1), op("en", 0), {Op: "dl"}, op("sc", 1), {Op: "cb"}, op("cs", 1), op("ca", 1), ib(1, 6, 0), re(1, 7, 1, 6),
			ib(1, 8, 1), op("cr", 1), re(1, 9, 1, 0), ib(1, 10, 1)}
	case 3: // QoS 2 exchanges with PUBLISH and PUBREL apart; connection 0 is cut between them; the broker
		// redelivers behind the next CONNACK (QoS 1 DUP, QoS 2 PUBLISH DUP then PUBREL) in the same send
		qp := func(k, m int, dup bool) c17Label { return c17Label{Op: "qp", K: k, M: m, Dup: dup} }
		qr := func(k, m int) c17Label { return c17Label{Op: "qr", K: k, M: m} }
		return []c17Label{{Op: "dl"}, op("sc", 0), {Op: "cb"}, op("cs", 0), op("ca", 0), ib(0, 1, 1), op("cr", 0), qp(0, 2, false), qr(0, 2), ib(0, 3, 1),
			qp(0, 4, false), op("en", 0), {Op: "dl"}, op("sc", 1), {Op: "cb"}, op("cs", 1), op("ca", 1), {Op: "ib", K: 1, M: 5, Q: 1, Dup: true}, qp(1, 6, true), qr(1, 6),
			ib(1, 7, 1), op("cr", 1), qp(1, 8, false), qr(1, 8), ib(1, 9, 1)}
	case 4: // received QoS 2 state is SESSION state: PUBLISH stored on connection 0 (PUBREC sent), cut; the broker
		// sends only PUBREL: behind the next CONNACK in the same send (m2), after other messages and across
		// TWO reconnects (m3), then repeated (must find nothing)
		qp := func(k, m int) c17Label { return c17Label{Op: "qp", K: k, M: m} }
		qr := func(k, m int) c17Label { return c17Label{Op: "qr", K: k, M: m} }
		return []c17Label{{Op: "dl"}, op("sc", 0), {Op: "cb"}, op("cs", 0), op("ca", 0), ib(0, 1, 1), op("cr", 0), qp(0, 2), qp(0, 3), op("en", 0),
			{Op: "dl"}, op("sc", 1), {Op: "cb"}, op("cs", 1), op("ca", 1), qr(1, 2), ib(1, 4, 1), op("cr", 1), op("en", 1),
			{Op: "dl"}, op("sc", 2), {Op: "cb"}, op("cs", 2), op("ca", 2), ib(2, 5, 1), op("cr", 2), qr(2, 3), ib(2, 6, 1),
			{Op: "qu", K: 2, M: 3}, ib(2, 7, 1), {Op: "qu", K: 2, M: 2}, ib(2, 8, 1)}
	case 5: // the transport fails the write of an acknowledgement: PUBACK (#0), PUBREC (#1), PUBCOMP (#2); the broker
		// redelivers per MQTT on the next connection: PUBLISH q1 DUP; PUBLISH q2 DUP + PUBREL; PUBREL only (finds nothing:
		// the message was handed over before the PUBCOMP write)
		auto := func(k int) c17Label { return c17Label{Op: "en", K: k, Auto: true} }
		return []c17Label{{Op: "dl"}, op("sc", 0), {Op: "cb"}, op("cs", 0), op("ca", 0), ib(0, 1, 1), op("cr", 0), {Op: "ib", K: 0, M: 2, Q: 1, Fail: true}, auto(0),
			{Op: "dl"}, op("sc", 1), {Op: "cb"}, op("cs", 1), op("ca", 1), {Op: "ib", K: 1, M: 3, Q: 1, Dup: true}, op("cr", 1), {Op: "qp", K: 1, M: 4, Fail: true}, auto(1),
			{Op: "dl"}, op("sc", 2), {Op: "cb"}, op("cs", 2), op("ca", 2), {Op: "qp", K: 2, M: 5, Dup: true}, {Op: "qr", K: 2, M: 5}, ib(2, 6, 1), op("cr", 2),
			{Op: "qp", K: 2, M: 7}, {Op: "qr", K: 2, M: 7, Fail: true}, auto(2),
			{Op: "dl"}, op("sc", 3), {Op: "cb"}, op("cs", 3), op("ca", 3), {Op: "qu", K: 3, M: 7}, ib(3, 8, 1)}
	default: // SetClient while connection 0 is still read (bare RetryClient only)
		return []c17Label{{Op: "dl"}, op("sc", 0), {Op: "cb"}, op("cs", 0), op("ca", 0), ib(0, 1, 1), op("cr", 0), {Op: "dl"}, op("sc", 1),
			ib(0, 2, 1), {Op: "cb"}, ib(0, 3, 1), op("cs", 1), op("ca", 1), ib(1, 4, 1), ib(0, 5, 1), op("cr", 1), op("en", 0), ib(1, 6, 1)}
	}
}

// c17Normalise: a QoS 0 message or a lone PUBREL must be followed, in the same send, by a message whose
// acknowledgement witnesses that the reader got past it: a QoS 0 message that ends its group is sent
// with QoS 1, a PUBREL that ends its group gets a QoS 1 message behind it.
func c17Normalise(ls []c17Label) []c17Label {
	var out []c17Label
	sync := 1000
	for i, l := range ls {
		last := i+1 >= len(ls) || !c17IsMsg(ls[i+1]) || ls[i+1].K != l.K
		if l.Fail {
			out = append(out, l)
			continue
		}
		if l.Op == "qu" && last {
			l2 := l
			out = append(out, l2)
			sync++
			out = append(out, c17Label{Op: "ib", K: l.K, M: sync, Q: 1})
			continue
		}
		if l.Op == "ib" && l.Q == 0 && last {
			l.Q = 1
		}
		out = append(out, l)
		if l.Op == "qr" && last {
			sync++
			out = append(out, c17Label{Op: "ib", K: l.K, M: sync, Q: 1})
		}
	}
	return out
}

func c17Insert(ls []c17Label, pos int, l c17Label) []c17Label {
	out := append([]c17Label{}, ls[:pos]...)
	out = append(out, l)
	return append(out, ls[pos:]...)
}

// ---------------------------------------------------------------- the real ReconnectClient

type c17Epoch struct {
	DialH                           int   // handler the Dialer leaves on the client
	AtDial, AtOpt, AtConn, AtActive []int // Handle(tag) calls made at the gate
	Refuse                          bool  // broker closes instead of CONNACK
	SendFirst                       bool  // CONNACK+burst queued before the write of CONNECT returns
	Burst                           []c17Label
	Later                           [][]c17Label // each: a single uh, or a group of ib
	EndByFault                      bool         // the last group of Later ends with a Fail label: the connection ends by that write fault
	Outbound                        bool         // before this connection is cut an outbound QoS 1 Publish is left in flight; the OnError
	                                             // callback of its failure is held until the NEXT connection is established
}

var errC17Stop = errors.New("c17: no further connection in this scenario")

// c17RunLoop plays the epochs against a real ReconnectClient; returns the schedule (labels) that
// the gates forced, the observation, and a problem description if a wait expired.
//
// own = 0: NewReconnectClient(dialer) with its default RetryClient, Handle through the returned value.
// own = 1, 2: the application creates its own RetryClient rc and passes it with WithRetryClient(rc):
// the ReconnectClient then drives rc ITSELF (reconnclient.go: WithRetryClient stores the pointer,
// NewReconnectClient embeds options.RetryClient), so a handler registered through rc — before
// NewReconnectClient, after it, while connected — is the registered handler of the model exactly like
// one registered through the returned value. own = 1: every Handle call goes through rc;
// own = 2: alternately through rc and through the returned ReconnectClient.
// clean: every Connect carries WithCleanSession(true) (label csc instead of cs).
func c17RunLoop(pre []int, eps []c17Epoch, own int, clean bool) (labels []c17Label, g *c17Log, processed map[int]bool, comp map[int]bool, problem string, note string) {
	g = &c17Log{}
	processed = map[int]bool{}
	comp = map[int]bool{}
	dialArrive := make(chan struct{})
	dialRelease := make(chan *c17Conn)
	stop := make(chan struct{})
	var curMu sync.Mutex
	var curConn *c17Conn
	dialer := mqtt.DialerFunc(func(ctx context.Context) (*mqtt.BaseClient, error) {
		select {
		case dialArrive <- struct{}{}:
		case <-stop:
			return nil, errC17Stop
		}
		select {
		case c := <-dialRelease:
			curMu.Lock()
			curConn = c
			curMu.Unlock()
			return c.cli, nil
		case <-stop:
			return nil, errC17Stop
		}
	})
	const viaCli, viaRC = "the returned ReconnectClient", "the application's own RetryClient"
	var rc *mqtt.RetryClient
	var cli mqtt.ReconnectClient
	var viaMu sync.Mutex
	nVia := 0
	via := func() string {
		viaMu.Lock()
		defer viaMu.Unlock()
		nVia++
		switch {
		case own == 0:
			return viaCli
		case own == 1 || cli == nil || nVia%2 == 1:
			return viaRC
		}
		return viaCli
	}
	doHandle := func(v string, h int) {
		if v == viaRC {
			rc.Handle(g.handler(h))
		} else {
			cli.Handle(g.handler(h))
		}
	}
	g.reenter = func(h int) { doHandle(via(), h) }
	handle := func(h int) bool {
		v := via()
		l := c17Label{Op: "uh", H: h}
		if own != 0 {
			l.Via = v
		}
		labels = append(labels, l)
		return c17Call(func() { doHandle(v, h) })
	}
	opts := []mqtt.ReconnectOption{mqtt.WithReconnectWait(50*time.Microsecond, 50*time.Microsecond)}
	onErrArrive, onErrRelease := make(chan struct{}), make(chan struct{})
	var onErrOnce sync.Once
	if own != 0 {
		rc = &mqtt.RetryClient{}
		for _, ep := range eps {
			if ep.Outbound {
				// user code on the task goroutine, inside the failed task (retryclient.go publish: c.onError(err))
				rc.OnError = func(error) {
					onErrOnce.Do(func() {
						close(onErrArrive)
						c17ParkOn(onErrRelease)
					})
				}
			}
		}
		opts = append(opts, mqtt.WithRetryClient(rc))
		// the handlers registered before Connect are registered on rc before the ReconnectClient exists
		for _, h := range pre {
			if !handle(h) {
				return labels, g, processed, comp, "Handle on the application's RetryClient did not return", ""
			}
		}
		pre = nil
	}
	var err error
	cli, err = mqtt.NewReconnectClient(dialer, opts...)
	if err != nil {
		return nil, g, processed, comp, "NewReconnectClient: " + err.Error(), ""
	}
	handles := func(hs []int, where string) bool {
		for _, h := range hs {
			if !handle(h) {
				problem = "Handle did not return (" + where + ")"
				return false
			}
		}
		return true
	}
	if !handles(pre, "before Connect") {
		return
	}
	opt := func(o *mqtt.ConnectOptions) error {
		curMu.Lock()
		c := curConn
		curMu.Unlock()
		if c != nil {
			c.optGate()
		}
		return nil
	}
	connectDone := make(chan struct{})
	go func() {
		defer close(connectDone)
		ctx, cancel := context.WithTimeout(context.Background(), 20*c17Wait)
		defer cancel()
		if clean {
			_, _ = cli.Connect(ctx, "c17", opt, mqtt.WithCleanSession(true))
		} else {
			_, _ = cli.Connect(ctx, "c17", opt)
		}
	}()
	var conns []*c17Conn
	disconnected := false
	defer func() {
		close(stop)
		for _, c := range conns {
			c.releaseAll()
		}
		if !disconnected {
			// a wait expired: try to stop the reconnect loop anyway (may block for ever: own goroutine)
			go func() {
				ctx, cancel := ctxTimeout(c17Wait)
				defer cancel()
				_ = cli.Disconnect(ctx)
			}()
		}
	}()
	firstOK := false
	var closedEarly []int
	sendGroup := func(c *c17Conn, connack bool, grp []c17Label) bool {
		done := c.sendGroup(connack, grp)
		for x, d := range done {
			if grp[x].Op == "qu" {
				continue
			}
			processed[grp[x].M] = d
			if grp[x].Op == "qr" {
				comp[grp[x].M] = c.pubcompSeen(uint16(grp[x].M))
			}
			if !d && !c.readerGone() {
				problem = fmt.Sprintf("%s: the reader never got past this message (no acknowledgement)", grp[x].desc())
				return false
			}
		}
		return true
	}
	heldOnError := false
	for k, ep := range eps {
		if !c17WaitCh(dialArrive) {
			problem = fmt.Sprintf("connection #%d: the reconnect loop did not dial", k)
			return
		}
		c := c17NewConn(k, g, ep.DialH, true)
		conns = append(conns, c)
		labels = append(labels, c17Label{Op: "dl", H: ep.DialH})
		if !handles(ep.AtDial, "inside the Dialer") {
			return
		}
		select {
		case dialRelease <- c:
		case <-time.After(c17Limit()):
			atomic.AddInt32(&c17Expired, 1)
			problem = fmt.Sprintf("connection #%d: dialer not waiting", k)
			return
		}
		if !c17WaitCh(c.optArrive) {
			problem = fmt.Sprintf("connection #%d: Connect was not called after SetClient", k)
			return
		}
		labels = append(labels, c17Label{Op: "sc", K: k}, c17Label{Op: "cb"})
		if !handles(ep.AtOpt, "inside the ConnectOption") {
			return
		}
		c.readerMayRun = true
		c17Close(c.optRelease)
		if !c17WaitCh(c.connectWritten) {
			problem = fmt.Sprintf("connection #%d: CONNECT was not written", k)
			return
		}
		if !c.fetchDone() {
			problem = fmt.Sprintf("connection #%d: BaseClient.Done did not return", k)
			return
		}
		if clean {
			labels = append(labels, c17Label{Op: "csc", K: k})
		} else {
			labels = append(labels, c17Label{Op: "cs", K: k})
		}
		if !handles(ep.AtConn, "CONNECT written, before CONNACK") {
			return
		}
		if ep.Refuse {
			c.mc.Close()
			c17Close(c.connGate)
			labels = append(labels, c17Label{Op: "en", K: k})
			if !c17WaitCh(c.done) {
				problem = fmt.Sprintf("connection #%d: reader did not finish after the refused attempt", k)
				return
			}
			continue
		}
		labels = append(labels, c17Label{Op: "ca", K: k})
		labels = append(labels, ep.Burst...)
		if !ep.SendFirst {
			c17Close(c.connGate)
		}
		okBurst := false
		sent := make(chan struct{})
		go func() {
			okBurst = sendGroup(c, true, ep.Burst)
			close(sent)
		}()
		if ep.SendFirst {
			// the reader may process CONNACK and the burst while the writer is still inside Write
			runtime.Gosched()
			c17Close(c.connGate)
		}
		<-sent
		if !okBurst {
			return
		}
		if !c17WaitCh(c.activeArrive) {
			problem = fmt.Sprintf("connection #%d: ConnState(Active) was not reported", k)
			return
		}
		if !handles(ep.AtActive, "inside ConnState(Active)") {
			return
		}
		c17Close(c.activeRelease)
		labels = append(labels, c17Label{Op: "cr", K: k})
		if !firstOK {
			firstOK = true
			if !c17WaitCh(connectDone) {
				problem = "ReconnectClient.Connect did not return after the first CONNACK"
				return
			}
		}
		if heldOnError {
			// the failed task of the previous connection finishes only now, after SetClient+Connect of this one
			heldOnError = false
			c17Close(onErrRelease)
			// past the failed task: the task goroutine retransmits on this connection (Retry task), or — wrongly — this
			// connection has been closed
			t := time.NewTimer(c17Limit())
			select {
			case <-c.outSeen:
			case <-c.done:
			case <-t.C:
				atomic.AddInt32(&c17Expired, 1)
				t.Stop()
				problem = fmt.Sprintf("connection #%d: the request interrupted on the previous connection was not retransmitted", k)
				return
			}
			t.Stop()
		}
		for _, grp := range ep.Later {
			if grp[0].Op == "uh" {
				if !handles([]int{grp[0].H}, "after Connect") {
					return
				}
				continue
			}
			labels = append(labels, grp...)
			if !sendGroup(c, false, grp) {
				return
			}
		}
		if c.mc.isClosed() && !ep.EndByFault {
			closedEarly = append(closedEarly, k)
		}
		if k == len(eps)-1 {
			break
		}
		if ep.Outbound {
			// leave an outbound QoS 1 request in flight: written, never acknowledged
			c.holdOut = true
			if !c17Call(func() {
				ctx, cancel := ctxTimeout(c17Wait)
				defer cancel()
				_ = cli.Publish(ctx, &mqtt.Message{Topic: "out", QoS: mqtt.QoS1, Payload: []byte{byte(k)}})
			}) || !c17WaitCh(c.outSeen) {
				problem = fmt.Sprintf("connection #%d: the outbound Publish was not written", k)
				return
			}
		}
		if ep.EndByFault {
			labels = append(labels, c17Label{Op: "en", K: k, Auto: true})
		} else {
			c.mc.Close() // peer closes: the loop reconnects by itself
			labels = append(labels, c17Label{Op: "en", K: k})
		}
		if ep.Outbound {
			if !c17WaitCh(onErrArrive) {
				problem = fmt.Sprintf("connection #%d: OnError was not called for the interrupted request", k)
				return
			}
			heldOnError = true
		}
		if !c17WaitCh(c.done) {
			problem = fmt.Sprintf("connection #%d: reader did not finish after peer close", k)
			return
		}
	}
	if len(closedEarly) > 0 {
		note = fmt.Sprintf("the client closed connection(s) %v although nothing was wrong with them", closedEarly)
	}
	disconnected = true
	if !c17Call(func() {
		ctx, cancel := ctxTimeout(c17Wait)
		defer cancel()
		_ = cli.Disconnect(ctx)
	}) {
		problem = "Disconnect did not return"
	}
	return
}

func (g *c17Gen) loopScenario(nEp int, clean bool, own int) (pre []int, eps []c17Epoch) {
	hs := func(p int) []int {
		var out []int
		for g.r.Intn(100) < p {
			out = append(out, g.handle().H)
			p /= 2
		}
		return out
	}
	pre = hs(70)
	for k := 0; k < nEp; k++ {
		ep := c17Epoch{AtDial: hs(30), AtOpt: hs(30), AtConn: hs(30), AtActive: hs(30), SendFirst: g.r.Intn(2) == 0}
		if g.r.Intn(6) == 0 {
			ep.DialH = 90 + g.r.Intn(3)
		}
		g.storeOf(k)
		if clean {
			g.stores[0] = map[int]bool{} // every Connect asks for a clean session: the store is emptied
		}
		if g.r.Intn(6) == 0 && k < nEp-1 {
			ep.Refuse = true
			eps = append(eps, ep)
			continue
		}
		if g.r.Intn(5) > 0 {
			g.labels = nil
			g.msgs(k, 3)
			ep.Burst = g.labels
		}
		for n := g.r.Intn(4); n > 0; n-- {
			if g.r.Intn(2) == 0 {
				ep.Later = append(ep.Later, []c17Label{g.handle()})
			} else {
				g.labels = nil
				g.msgs(k, 3)
				ep.Later = append(ep.Later, g.labels)
			}
		}
		if k < nEp-1 {
			switch x := g.r.Intn(10); {
			case x < 2:
				// the connection ends by a failing acknowledgement write
				g.labels = nil
				g.fault(k, false) // (the automatic end is added by the runner)
				for _, l := range g.labels {
					ep.Later = append(ep.Later, []c17Label{l})
				}
				ep.EndByFault = true
			case x < 4 && own != 0:
				ep.Outbound = true
			}
		}
		eps = append(eps, ep)
	}
	return
}

// ---------------------------------------------------------------- stress: Handle || RetryClient.Connect

// spin ranges (iterations of an atomic add) for the two racing goroutines
var c17StressSpinA, c17StressSpinB = 40, 400

var c17Sink int32

func c17Spin(n int) {
	for i := 0; i < n; i++ {
		atomic.AddInt32(&c17Sink, 1)
	}
}

// c17StressRound: Handle(h1); SetClient; then RetryClient.Connect (the broker accepts at once and sends m1
// right behind the CONNACK) on goroutine A, Handle(newH) on goroutine B, Stats() in a loop on goroutine C;
// A and B are released together (channel close) and then spin spinA / spinB iterations. After both calls
// returned, m2 is sent. On /repo, for every interleaving, Handle took effect at one label boundary of
// the Connect steps (both are critical sections of RetryClient.mu): m2 must go to newH.
func c17StressRound(newH, spinA, spinB int) (pre, win, post []c17Label, coq, desc []string, g *c17Log, problem string) {
	g = &c17Log{}
	m1 := c17Label{Op: "ib", K: 0, M: 1, Q: 1}
	m2 := c17Label{Op: "ib", K: 0, M: 2, Q: 1}
	pre = []c17Label{{Op: "uh", H: 1}, {Op: "dl"}, {Op: "sc", K: 0}}
	win = []c17Label{{Op: "cb"}, {Op: "cs", K: 0}, {Op: "ca", K: 0}, m1, {Op: "cr", K: 0}}
	post = []c17Label{m2}
	rc := &mqtt.RetryClient{}
	c := c17NewConn(0, g, 0, false)
	defer c.releaseAll()
	c17Close(c.activeRelease) // no gate in ConnState(Active)
	c.autoAccept = append(append([]byte{}, connackOK...), encPublish(inMsg{Topic: []byte("t"), ID: 1, QoS: 1, Payload: c17Payload(m1)})...)
	ack1 := c.expect(0x40<<16 | 1)
	ctx := context.Background()
	rc.Handle(g.handler(1))
	rc.SetClient(ctx, c.cli)
	var stopC int32
	start := make(chan struct{})
	aDone, bDone, cDone := make(chan struct{}), make(chan struct{}), make(chan struct{})
	hNew := g.handler(newH)
	go func() {
		defer close(aDone)
		<-start
		c17Spin(spinA)
		_, _ = rc.Connect(ctx, "c17")
	}()
	go func() {
		defer close(bDone)
		<-start
		c17Spin(spinB)
		rc.Handle(hNew)
	}()
	go func() {
		defer close(cDone)
		<-start
		for atomic.LoadInt32(&stopC) == 0 {
			_ = rc.Stats()
		}
	}()
	runtime.Gosched()
	close(start)
	okA, okB := c17WaitCh(aDone), c17WaitCh(bDone)
	atomic.StoreInt32(&stopC, 1)
	processed := map[int]bool{}
	switch {
	case !okA:
		problem = "RetryClient.Connect did not return"
	case !okB:
		problem = "Handle did not return"
	case !c.fetchDone():
		problem = "BaseClient.Done did not return"
	default:
		processed[1] = c.waitAck(ack1)
		if !processed[1] {
			problem = "the message behind the CONNACK was never acknowledged"
		} else if done := c.sendGroup(false, post); !done[0] {
			problem = "the message sent after Connect and Handle returned was never acknowledged"
		} else {
			processed[2] = true
		}
	}
	all := append(append(append([]c17Label{}, pre...), win...), post...)
	coq, desc, _ = c17Obs(all, g.snapshot(), processed, nil)
	return
}

// ---------------------------------------------------------------- driver

// c17Slow reports (C17_DEBUG=1) cases that took suspiciously long; diagnostics only.
func c17Slow(fam string, t0 time.Time, ls []c17Label, problem string) {
	if os.Getenv("C17_DEBUG") != "" && (time.Since(t0) > time.Second || problem != "") {
		fmt.Fprintf(os.Stderr, "c17 debug: %s case took %v problem=%q\n  %v\n", fam, time.Since(t0), problem, c17Desc(ls))
	}
}

type c17Family struct {
	cases []string
	fam   []interface{}
}

func runC17(cfg *runCfg) error {
	r := rand.New(rand.NewSource(cfg.seed))
	cf := newCasesFile("C17", "HandlerSys", "CheckC17")
	m := &meta{Property: "C17", Distribution: map[string]interface{}{}, Families: map[string][]interface{}{}}
	distinct := map[string]bool{}
	nontrivial := 0
	stats := map[string]int{}
	var seq, loop, race c17Family

	note := func(key string, ls []c17Label) {
		if distinct[key] {
			return
		}
		distinct[key] = true
		// non-trivial: a Handle call, at least two connections connected, and a message on a later one
		hasH, conn2, msg2 := false, 0, false
		for _, l := range ls {
			switch {
			case l.Op == "uh":
				hasH = true
			case l.Op == "ca":
				conn2++
			case l.Op == "ib" && l.K > 0:
				msg2 = true
			}
		}
		if hasH && conn2 >= 2 && msg2 {
			nontrivial++
		}
	}
	count := func(ls []c17Label) {
		for _, l := range ls {
			stats["label_"+l.Op]++
			if l.Op == "ib" {
				stats[fmt.Sprintf("msg_qos%d", l.Q)]++
				if l.Re {
					stats["msg_handler_calls_Handle"]++
				}
			}
			if l.Op == "uh" && l.H == 0 {
				stats["handle_nil"]++
			}
		}
	}

	addSeq := func(ls []c17Label, kind string) {
		if c17GiveUp() {
			stats["skipped_after_expired_waits"]++
			return
		}
		ls = c17Normalise(ls)
		b := c17NewBare()
		t0 := time.Now()
		ok := b.exec(ls)
		b.cleanup()
		c17Slow("seq", t0, ls, b.problem)
		if !ok {
			m.ImplViolations = append(m.ImplViolations, map[string]interface{}{"family": "seq", "kind": kind, "schedule": c17Desc(ls), "stuck": b.problem})
			return
		}
		coq, desc, ord := c17Obs(ls, b.log.snapshot(), b.processed, b.comp)
		c := map[string]interface{}{"kind": kind, "client": "bare RetryClient", "schedule": c17Desc(ls), "deliveries": desc}
		if !ord {
			m.ImplViolations = append(m.ImplViolations, map[string]interface{}{"family": "seq", "what": "handler calls out of order", "case": c})
		}
		seq.cases = append(seq.cases, cTuple(c17Coq(ls, b.log), cListInline(coq)))
		seq.fam = append(seq.fam, c)
		note(fmt.Sprint(c17Desc(ls)), ls)
		count(ls)
		stats["seq_"+kind]++
		if len(m.Samples) < 2 && kind == "random" && len(ls) > 20 {
			m.Samples = append(m.Samples, c)
		}
	}

	// ---- seq: Handle inserted at every position (and every pair of positions) of two skeletons
	for which := 0; which < 6; which++ {
		sk := c17Skeleton(which)
		for _, first := range []int{1, 0} { // with / without a handler registered before everything
			base := sk
			if first != 0 {
				base = c17Insert(sk, 0, c17Label{Op: "uh", H: 1})
			}
			for p := 0; p <= len(base); p++ {
				one := c17Insert(base, p, c17Label{Op: "uh", H: 2})
				addSeq(one, "enumerated-1")
				if cfg.tier == "quick" && (first == 0 || (p+which)%2 == 1 || (which >= 2 && p%4 != 0)) {
					continue
				}
				for q := p + 1; q <= len(one); q++ {
					h3 := 3
					if (p+q)%7 == 0 {
						h3 = 0 // the second call registers nil
					}
					addSeq(c17Insert(one, q, c17Label{Op: "uh", H: h3}), "enumerated-2")
				}
			}
		}
	}
	// ---- seq: random walks over the labels the model enables
	nRand := 350
	if cfg.tier == "thorough" {
		nRand = 10000
	} else if cfg.tier == "search" {
		nRand = 1500
	}
	for i := 0; i < nRand; i++ {
		g := c17NewGen(r)
		g.random(12+r.Intn(36), r.Intn(3) == 0)
		addSeq(g.labels, "random")
	}

	// ---- loop: the real ReconnectClient
	addLoop := func(pre []int, eps []c17Epoch, own int, clean bool, kind string) {
		if c17GiveUp() {
			stats["skipped_after_expired_waits"]++
			return
		}
		t0 := time.Now()
		ls, g, processed, comp, problem, remark := c17RunLoop(pre, eps, own, clean)
		if remark != "" {
			m.ImplViolations = append(m.ImplViolations, map[string]interface{}{"family": "loop", "kind": kind, "schedule": c17Desc(ls), "what": remark})
		}
		c17Slow("loop", t0, ls, problem)
		if problem != "" {
			m.ImplViolations = append(m.ImplViolations, map[string]interface{}{"family": "loop", "kind": kind, "with_retry_client_mode": own, "clean_session": clean, "schedule": c17Desc(ls), "stuck": problem})
			return
		}
		coq, desc, ord := c17Obs(ls, g.snapshot(), processed, comp)
		c := map[string]interface{}{"kind": kind, "client": []string{"ReconnectClient (default RetryClient)", "ReconnectClient built with WithRetryClient(rc); every Handle call through rc",
			"ReconnectClient built with WithRetryClient(rc); Handle calls alternately through rc and through the returned client"}[own], "schedule": c17Desc(ls), "deliveries": desc}
		if !ord {
			m.ImplViolations = append(m.ImplViolations, map[string]interface{}{"family": "loop", "what": "handler calls out of order", "case": c})
		}
		loop.cases = append(loop.cases, cTuple(c17Coq(ls, g), cListInline(coq)))
		loop.fam = append(loop.fam, c)
		note("loop"+fmt.Sprint(c17Desc(ls)), ls)
		count(ls)
		stats["loop_"+kind]++
		stats[fmt.Sprintf("loop_retryclient_mode%d", own)]++
		if clean {
			stats["loop_clean_session"]++
		}
		if len(m.Samples) < 4 && kind == "random" && len(eps) >= 3 {
			m.Samples = append(m.Samples, c)
		}
	}
	// every subset of the ten gate positions of two connections gets a Handle call
	// (before Connect, and per connection: dial, ConnectOption, CONNECT written, Active, after Connect)
	bits := 11
	step := 1
	if cfg.tier == "quick" {
		step = 3 // a third of the 2048 subsets, rotating with the seed
	}
	for mask := int(cfg.seed) % step; mask < 1<<bits; mask += step {
		h := 0
		next := func(bit int) []int {
			if mask&(1<<bit) == 0 {
				return nil
			}
			h++
			return []int{h}
		}
		pre := next(0)
		var eps []c17Epoch
		mm := 1
		clean := (mask/3)%5 == 4 // every Connect with CleanSession: the stored QoS 2 message is forgotten
		stored := 0              // identifier of the QoS 2 PUBLISH connection 0 stored and never released
		storedReleased := false
		variant := (mask / 3) % 7
		ownMode := (mask / 3) % 3
		if variant == 3 && ownMode == 0 {
			ownMode = 1 + (mask/3)%2 // OnError can only be set on a RetryClient the application owns
		}
		for k := 0; k < 2; k++ {
			ep := c17Epoch{AtDial: next(1 + 5*k), AtOpt: next(2 + 5*k), AtConn: next(3 + 5*k), SendFirst: mask%2 == 0}
			if k == 1 && (mask&0x7F == 0 || mask%5 == 0) {
				ep.DialH = 91 // the dialer leaves its own handler on the second client: Connect must replace it
			}
			ep.Burst = []c17Label{{Op: "ib", K: k, M: mm, Q: 0}, {Op: "ib", K: k, M: mm + 1, Q: 1}}
			if k == 1 {
				// the broker's retransmissions for the resumed session, in the same send as the CONNACK:
				// a QoS 1 PUBLISH with DUP=1 and the QoS 2 PUBLISH that connection 0 never released (DUP=1), then its PUBREL
				ep.Burst = append(ep.Burst, c17Label{Op: "ib", K: k, M: mm + 6, Q: 1, Dup: true},
					c17Label{Op: "qp", K: k, M: mm + 7, Dup: true}, c17Label{Op: "qr", K: k, M: mm + 7}, c17Label{Op: "ib", K: k, M: mm + 8, Q: 1})
				// ... and, for the QoS 2 PUBLISH whose PUBREC the broker got on connection 0, ONLY the PUBREL
				rel := "qr"
				if clean || storedReleased {
					rel = "qu" // forgotten by the clean-session connect: the PUBREL finds nothing
				}
				ep.Burst = append(ep.Burst, c17Label{Op: rel, K: k, M: stored}, c17Label{Op: "ib", K: k, M: mm + 9, Q: 1})
			}
			ep.AtActive = next(4 + 5*k)
			// after Connect: a message; a QoS 2 PUBLISH alone; the "after Connect" Handle call INSIDE that
			// exchange; its PUBREL and a further message
			ep.Later = [][]c17Label{{{Op: "ib", K: k, M: mm + 2, Q: 1}}, {{Op: "qp", K: k, M: mm + 4}}}
			if l := next(5 + 5*k); l != nil {
				ep.Later = append(ep.Later, []c17Label{{Op: "uh", H: l[0]}})
			}
			tail := []c17Label{{Op: "qr", K: k, M: mm + 4}, {Op: "ib", K: k, M: mm + 3, Q: byte(1 + k)}}
			if k == 0 && (mask/3)%2 == 0 {
				// the handler that receives the last message of connection 0 registers h20 from inside its
				// callback: every message of connection 1 before a newer Handle call must go to h20
				tail[1].Re, tail[1].H = true, 20
			}
			ep.Later = append(ep.Later, tail)
			if k == 0 {
				// ... and a QoS 2 PUBLISH whose PUBREL connection 0 never gets (cut): redelivered on connection 1
				ep.Later = append(ep.Later, []c17Label{{Op: "qp", K: k, M: mm + 5}})
				stored = mm + 5
			}
			if k == 0 && variant == 3 {
				// an outbound QoS 1 request is in flight when connection 0 is cut; its OnError is held until
				// connection 1 is established
				ep.Outbound = true
			}
			if k == 0 && variant == 5 {
				// connection 0 ends by a failing acknowledgement write
				switch (mask / 21) % 3 {
				case 0: // PUBCOMP of the stored message: released and handed over, then the write fails
					ep.Later = append(ep.Later, []c17Label{{Op: "qr", K: k, M: stored, Fail: true}})
					storedReleased = true
				case 1: // PUBACK
					ep.Later = append(ep.Later, []c17Label{{Op: "ib", K: k, M: mm + 11, Q: 1, Fail: true}})
				default: // PUBREC: that PUBLISH is not stored
					ep.Later = append(ep.Later, []c17Label{{Op: "qp", K: k, M: mm + 12, Fail: true}})
				}
				ep.EndByFault = true
			}
			if k == 1 {
				// the PUBREL once more: nothing may be handed over twice
				ep.Later = append(ep.Later, []c17Label{{Op: "qu", K: k, M: stored}, {Op: "ib", K: k, M: mm + 10, Q: 1}})
			}
			if k == 1 && (mask/3)%4 == 1 {
				// ... and the one that receives the QoS 1 message right behind the second CONNACK registers h21
				// (the reconnect loop is still inside Connect)
				ep.Burst[1].Re, ep.Burst[1].H = true, 21
			}
			mm += 13
			eps = append(eps, ep)
		}
		addLoop(pre, eps, ownMode, clean, "enumerated")
	}
	nLoop := 200
	if cfg.tier == "thorough" {
		nLoop = 6000
	} else if cfg.tier == "search" {
		nLoop = 800
	}
	for i := 0; i < nLoop; i++ {
		g := c17NewGen(r)
		clean := r.Intn(6) == 0
		own := r.Intn(3)
		pre, eps := g.loopScenario(1+r.Intn(6), clean, own)
		addLoop(pre, eps, own, clean, "random")
	}

	// ---- race: Handle truly concurrent with a window of steps on a bare RetryClient
	nRace := 210
	if cfg.tier == "thorough" {
		nRace = 8000
	} else if cfg.tier == "search" {
		nRace = 600
	}
	for i := 0; i < nRace; i++ {
		if c17GiveUp() {
			stats["skipped_after_expired_waits"]++
			continue
		}
		ib := func(k, mm int) c17Label { return c17Label{Op: "ib", K: k, M: mm, Q: 1} }
		pre := []c17Label{{Op: "uh", H: 1}, {Op: "dl"}, {Op: "sc", K: 0}, {Op: "cb"}, {Op: "cs", K: 0}, {Op: "ca", K: 0}, ib(0, 1), {Op: "cr", K: 0}}
		var win, post []c17Label
		kind := "messages"
		switch i % 3 {
		case 0, 1:
			for x := 0; x < 1+r.Intn(3); x++ {
				win = append(win, ib(0, 2+x))
			}
			post = []c17Label{ib(0, 9)}
		default:
			kind = "reconnect"
			win = []c17Label{{Op: "en", K: 0}, {Op: "dl"}, {Op: "sc", K: 1}, {Op: "cb"}, {Op: "cs", K: 1}, {Op: "ca", K: 1}, ib(1, 2), {Op: "cr", K: 1}}
			post = []c17Label{ib(1, 9)}
		}
		newH := 2
		if r.Intn(8) == 0 {
			newH = 0
		}
		b := c17NewBare()
		ok := b.exec(pre)
		var racerDone chan struct{}
		if ok {
			racerDone = make(chan struct{})
			start := make(chan struct{})
			spins := r.Intn(4)
			go func() {
				defer close(racerDone)
				<-start
				for s := 0; s < spins; s++ {
					runtime.Gosched()
				}
				b.rc.Handle(b.log.handler(newH))
			}()
			close(start)
			// each message of the window is its own send, so Handle can fall between any two labels
			for _, l := range win {
				if ok {
					ok = b.exec([]c17Label{l})
				}
			}
			if ok && !c17WaitCh(racerDone) {
				ok = false
				b.problem = "the concurrent Handle call did not return"
			}
			if ok {
				ok = b.exec(post)
			}
		}
		b.cleanup()
		all := append(append(append([]c17Label{}, pre...), win...), post...)
		if !ok {
			m.ImplViolations = append(m.ImplViolations, map[string]interface{}{"family": "race", "kind": kind, "schedule": c17Desc(all), "concurrent": c17Label{Op: "uh", H: newH}.desc(), "stuck": b.problem})
			continue
		}
		coq, desc, _ := c17Obs(all, b.log.snapshot(), b.processed, b.comp)
		c := map[string]interface{}{"kind": kind, "client": "bare RetryClient", "before": c17Desc(pre), "concurrent_with_window": c17Label{Op: "uh", H: newH}.desc(),
			"window": c17Desc(win), "after": c17Desc(post), "deliveries": desc}
		race.cases = append(race.cases, cTuple(c17Coq(pre, b.log), fmt.Sprint(newH), c17Coq(win, b.log), c17Coq(post, b.log), cListInline(coq)))
		race.fam = append(race.fam, c)
		stats["race_"+kind]++
		stats["race_outcome_"+fmt.Sprint(desc)]++
		if i == 2 {
			m.Samples = append(m.Samples, c)
		}
	}
	// summarise how many distinct outcomes the racing family produced (scheduler dependent)
	outcomes := 0
	for k := range stats {
		if len(k) > 13 && k[:13] == "race_outcome_" {
			outcomes++
			delete(stats, k)
		}
	}
	stats["race_distinct_outcomes"] = outcomes

	// ---- stress: Handle racing with RetryClient.Connect itself (no gate can sit between Connect's
	// lock section and its install; bounded sampling of real interleavings)
	budget := 2500 * time.Millisecond
	maxRounds := 30000
	if cfg.tier == "thorough" {
		budget, maxRounds = 25*time.Second, 400000
	} else if cfg.tier == "search" {
		budget, maxRounds = 6*time.Second, 80000
	}
	var stress c17Family
	type stressAgg struct {
		n   int
		coq string
		c   map[string]interface{}
	}
	agg := map[string]*stressAgg{}
	var aggOrder []string
	rounds := 0
	tStress := time.Now()
	for rounds < maxRounds && (time.Since(tStress) < budget || rounds < 1500) && !c17GiveUp() {
		newH := 2
		if r.Intn(8) == 0 {
			newH = 0
		}
		spinA, spinB := r.Intn(c17StressSpinA), r.Intn(c17StressSpinB)
		pre, win, post, coq, desc, g, problem := c17StressRound(newH, spinA, spinB)
		rounds++
		all := append(append(append([]c17Label{}, pre...), win...), post...)
		if problem != "" {
			m.ImplViolations = append(m.ImplViolations, map[string]interface{}{"family": "stress", "schedule": c17Desc(all), "concurrent": c17Label{Op: "uh", H: newH}.desc()+" || RetryClient.Connect", "stuck": problem})
			break
		}
		key := fmt.Sprint(newH, desc)
		a := agg[key]
		if a == nil {
			a = &stressAgg{coq: cTuple(c17Coq(pre, g), fmt.Sprint(newH), c17Coq(win, g), c17Coq(post, g), cListInline(coq)),
				c: map[string]interface{}{"kind": "stress", "client": "bare RetryClient", "before": c17Desc(pre),
					"concurrent": c17Label{Op: "uh", H: newH}.desc()+" on one goroutine, RetryClient.Connect on another, Stats() on a third",
					"connect_steps": c17Desc(win), "after_both_returned": c17Desc(post), "deliveries": desc}}
			agg[key] = a
			aggOrder = append(aggOrder, key)
		}
		a.n++
	}
	for _, key := range aggOrder {
		a := agg[key]
		a.c["rounds_with_this_outcome"] = a.n
		stress.cases = append(stress.cases, a.coq)
		stress.fam = append(stress.fam, a.c)
		stats["stress_outcome_"+key] = a.n
	}
	stats["stress_rounds"] = rounds
	if len(stress.fam) > 0 {
		m.Samples = append(m.Samples, stress.fam[0])
	}

	cf.def("stress_cases", "list c17_race_case", cList(stress.cases))
	cf.result("V_stress", "c17_race_prop_violations stress_cases")
	cf.result("M_stress", "c17_race_model_mismatches stress_cases")
	m.Families["stress"] = stress.fam
	cf.def("seq_cases", "list c17_case", cList(seq.cases))
	cf.result("V_seq", "c17_prop_violations seq_cases")
	cf.result("M_seq", "c17_model_mismatches seq_cases")
	cf.def("loop_cases", "list c17_case", cList(loop.cases))
	cf.result("V_loop", "c17_loop_prop_violations loop_cases")
	cf.result("M_loop", "c17_loop_model_mismatches loop_cases")
	cf.def("race_cases", "list c17_race_case", cList(race.cases))
	cf.result("V_race", "c17_race_prop_violations race_cases")
	cf.result("M_race", "c17_race_model_mismatches race_cases")
	m.Families["seq"] = seq.fam
	m.Families["loop"] = loop.fam
	m.Families["race"] = race.fam
	m.Evaluations = len(seq.cases) + len(loop.cases) + len(race.cases) + rounds
	m.DistinctNontrivial = nontrivial
	m.Rule = "seq: a bare RetryClient executes a schedule of the model label by label (Handle inserted at every position / pair of positions of four skeleton schedules: two consecutive connections; SetClient while the older connection is still read; handlers calling Handle from their callback; QoS 2 exchanges with PUBLISH and PUBREL sent apart, a cut between them and the broker's DUP retransmissions (QoS 1, QoS 2 PUBLISH then PUBREL) in the same send as the next CONNACK; random walks over enabled labels, 12-47 labels, up to 7 clients); loop: a real ReconnectClient (a third each: default RetryClient; the application's own RetryClient passed with WithRetryClient and every Handle call, also those before NewReconnectClient, made through that object; the same with calls alternating between that object and the returned client) with Handle calls at the subsets of the eleven gate positions of two connections and random scenarios of 1-6 connections with refused attempts, bursts behind CONNACK, dialer-set handlers; race: Handle concurrent with 1-3 messages or with a whole reconnect; stress: time-bounded rounds of Handle concurrent with an ungated RetryClient.Connect (spin offsets, Stats() contention), a message sent after both returned, rounds aggregated by outcome before the Coq evaluation. Acknowledgement-write faults (the transport fails the client's PUBACK / PUBREC / PUBCOMP write and cuts) with the broker's MQTT redelivery on the next connection (PUBLISH DUP, or PUBREL only), and, for a RetryClient the application owns, an outbound QoS 1 request in flight at the cut whose OnError callback is held until the next connection is established. Messages whose handler calls Handle from inside the callback (new handler, same handler, nil) in seq (third skeleton, 1 in 8 random messages) and loop (enumerated: last message of connection 0, QoS 1 message right behind the second CONNACK). Every CONNACK is followed in the same send by the burst; QoS 0/1/2. Non-trivial = distinct forced schedule with a Handle call, two or more connected connections and a message on a later connection."
	m.Distribution["counts"] = stats
	m.Distribution["seq_cases"] = len(seq.cases)
	m.Distribution["loop_cases"] = len(loop.cases)
	m.Distribution["race_cases"] = len(race.cases)
	m.Distribution["distinct_schedules"] = len(distinct)
	m.Exhaustive = false
	if err := cf.write(cfg.outDir); err != nil {
		return err
	}
	return m.write(cfg.outDir)
}
