package main

// C06, family "hostile acknowledgements for requests in flight": a connected BaseClient has 1-3
// blocking calls in flight (Subscribe with n filters, Unsubscribe, Publish QoS 1 / QoS 2, Ping);
// the peer has read their packet identifiers off the wire and answers with hostile variants of
// the acknowledgements. The callers run as plain goroutines of the child process: a panic in any
// of them (or in the reader) kills the child and is attributed to the scenario.
//
// Schedule (gates, no sleeps): callers are started one after the other, each only after the
// previous request is on the wire; the answer is sent packet by packet, and after a packet that
// wakes a caller the peer waits for that caller's next step (return, or PUBREL written) before
// the next packet; after ErrInvalidSubAck it waits for the link to be down. This is the schedule
// of ParsePending.v.

import (
	"context"
	"fmt"
	"math/rand"
	"time"

	mqtt "github.com/at-wat/mqtt-go"
)

type c06Req struct {
	Kind string `json:"kind"` // sub, unsub, pub1, pub2, ping
	QoS  []byte `json:"qos,omitempty"`
}

// one packet of the answer. IDRef: caller index (>= 0), foreign identifier number k as -2-k,
// -1 = no identifier bytes.
type c06Pkt struct {
	Hdr     byte   `json:"hdr"`
	IDRef   int    `json:"idref"`
	IDBytes int    `json:"idbytes"` // how many of the two identifier bytes are present
	Tail    []byte `json:"tail,omitempty"`
	Trunc   int    `json:"trunc,omitempty"` // bytes cut off the end of the frame (last packet only)
	Label   string `json:"label"`
}

type c06Scenario struct {
	Mode        string    `json:"mode,omitempty"` // "" = in flight, "exit", "alloc"
	Stream      []byte    `json:"stream,omitempty"`
	BodyLen     int       `json:"body_len,omitempty"`
	Mpl         int       `json:"mpl,omitempty"`
	WithConnack bool      `json:"with_connack,omitempty"` // the stream arrives in the same burst as CONNACK
	Workers     int       `json:"workers,omitempty"`
	Budget      int       `json:"budget_ms,omitempty"`
	Cfg         int       `json:"cfg,omitempty"`
	Ops         []c06RsOp `json:"ops,omitempty"`
	Inflight    bool      `json:"inflight"`
	Handler     bool      `json:"handler"`
	Reqs        []c06Req  `json:"reqs"`
	Burst       []c06Pkt  `json:"burst"`
	Label       string    `json:"label"`
}

type c06InflightObs struct {
	Survived bool     `json:"survived"`
	Stuck    []string `json:"stuck"`
	Err      string   `json:"err"`
	States   []string `json:"states"`
	Done     bool     `json:"done"`
	Events   []string `json:"events"`
	Desc     []string `json:"desc"`
	Results  []string `json:"results"` // Coq terms
	ResDesc  []string `json:"res_desc"`
	Rels     []int    `json:"rels"`
	Canon    []byte   `json:"canon"` // the answer with identifiers renamed (caller j -> j+1)
	Wire     []byte   `json:"wire"`  // the answer as sent
	Crash    string   `json:"crash,omitempty"`
}

func (p c06Pkt) body(id func(ref int) uint16) []byte {
	var body []byte
	if p.IDRef != -1 {
		v := id(p.IDRef)
		b := []byte{byte(v >> 8), byte(v)}
		body = append(body, b[:p.IDBytes]...)
	}
	return append(body, p.Tail...)
}

func (p c06Pkt) render(id func(ref int) uint16) []byte {
	f := encFrame(p.Hdr, p.body(id))
	if p.Trunc > 0 && p.Trunc < len(f) {
		f = f[:len(f)-p.Trunc]
	}
	return f
}

func c06CanonID(ref int) uint16 {
	if ref >= 0 {
		return uint16(ref + 1)
	}
	return uint16(1000 + (-2 - ref))
}

// ---- what the peer needs to know to pace the answer (not a verdict: only whom to wait for) ----

func c06WellFormedAck(hdr byte, body []byte) bool {
	switch hdr & 0xF0 {
	case 0x40, 0x50, 0x70, 0x90, 0xB0:
		return hdr&0x0F == 0 && len(body) >= 2
	case 0xD0:
		return hdr&0x0F == 0
	}
	return false
}

func c06EndsLink(hdr byte, body []byte) bool {
	switch hdr & 0xF0 {
	case 0x20:
		return hdr&0x0F != 0 || len(body) != 2
	case 0x30: // only PUBLISH packets built by c06GoodInbound are used here
		return false
	case 0x60:
		return hdr&0x0F != 2 || len(body) < 2
	case 0x40, 0x50, 0x70, 0x90, 0xB0, 0xD0:
		return !c06WellFormedAck(hdr, body)
	}
	return true
}

type c06CallRes struct {
	granted []byte
	err     error
}

func c06RunInflight(sc *c06Scenario) c06InflightObs {
	o := c06InflightObs{Survived: true}
	wrote := make(chan []byte, 256)
	s, err := newSession(sc.Handler, func(s *session, pkt []byte) {
		switch pkt[0] & 0xF0 {
		case 0x80, 0xA0, 0x30, 0x60, 0xC0: // written by a calling goroutine, never by the reader
			wrote <- append([]byte{}, pkt...)
		}
	})
	if err != nil {
		return c06InflightObs{Crash: "connect: " + err.Error()}
	}
	wait := 5 * time.Second
	n := len(sc.Reqs)
	done := make([]chan c06CallRes, n)
	ids := make([]uint16, n)
	results := make([]*c06CallRes, n)
	ctx := context.Background()
	for j, rq := range sc.Reqs {
		done[j] = make(chan c06CallRes, 1)
		rq := rq
		ch := done[j]
		// no recover: a panic in the calling goroutine must kill this process
		go func() {
			switch rq.Kind {
			case "sub":
				subs := make([]mqtt.Subscription, len(rq.QoS))
				for i, q := range rq.QoS {
					subs[i] = mqtt.Subscription{Topic: fmt.Sprintf("f/%d", i), QoS: mqtt.QoS(q)}
				}
				got, err := s.cli.Subscribe(ctx, subs...)
				var g []byte
				for _, x := range got {
					g = append(g, byte(x.QoS))
				}
				ch <- c06CallRes{granted: g, err: err}
			case "unsub":
				ch <- c06CallRes{err: s.cli.Unsubscribe(ctx, "f/0")}
			case "pub1":
				ch <- c06CallRes{err: s.cli.Publish(ctx, &mqtt.Message{Topic: "p", QoS: mqtt.QoS1, Payload: []byte{1}})}
			case "pub2":
				ch <- c06CallRes{err: s.cli.Publish(ctx, &mqtt.Message{Topic: "p", QoS: mqtt.QoS2, Payload: []byte{2}})}
			case "ping":
				ch <- c06CallRes{err: s.cli.Ping(ctx)}
			}
		}()
		select {
		case pkt := <-wrote:
			body := pkt[2:] // requests are short: one length byte
			switch pkt[0] & 0xF0 {
			case 0x80, 0xA0:
				ids[j] = uint16(body[0])<<8 | uint16(body[1])
			case 0x30:
				tl := int(body[0])<<8 | int(body[1])
				ids[j] = uint16(body[2+tl])<<8 | uint16(body[3+tl])
			}
		case <-time.After(wait):
			o.Stuck = append(o.Stuck, fmt.Sprintf("request %d not written", j))
		}
	}
	// foreign identifiers: not one of the identifiers in flight, not zero
	foreign := func(k int) uint16 {
		v := ids[0] + 100
		for c := 0; ; v++ {
			clash := v == 0
			for _, x := range ids {
				if x == v {
					clash = true
				}
			}
			if !clash {
				if c == k {
					return v
				}
				c++
			}
		}
	}
	realID := func(ref int) uint16 {
		if ref >= 0 {
			return ids[ref]
		}
		return foreign(-2 - ref)
	}
	// the waiter table as the peer sees it: (acknowledgement type, identifier) -> caller
	type key struct {
		typ byte
		id  uint16
	}
	table := map[key]int{}
	for j, rq := range sc.Reqs {
		switch rq.Kind {
		case "sub":
			table[key{0x90, ids[j]}] = j
		case "unsub":
			table[key{0xB0, ids[j]}] = j
		case "pub1":
			table[key{0x40, ids[j]}] = j
		case "pub2":
			table[key{0x50, ids[j]}] = j
		case "ping":
			table[key{0xD0, 0}] = j
		}
	}
	dead := false
	waitDown := func() {
		if !s.waitDone(wait) {
			o.Stuck = append(o.Stuck, "link not down after ErrInvalidSubAck")
		}
	}
	for _, p := range sc.Burst {
		wire := p.render(realID)
		o.Wire = append(o.Wire, wire...)
		o.Canon = append(o.Canon, p.render(c06CanonID)...)
		s.conn.send(wire)
		if dead || p.Trunc > 0 {
			continue
		}
		body := p.body(realID)
		if c06EndsLink(p.Hdr, body) {
			dead = true
			continue
		}
		if !c06WellFormedAck(p.Hdr, body) {
			continue
		}
		k := key{p.Hdr & 0xF0, 0}
		if k.typ != 0xD0 {
			k.id = uint16(body[0])<<8 | uint16(body[1])
		}
		j, ok := table[k]
		if !ok {
			continue
		}
		delete(table, k)
		// the packet wakes caller j: wait for its next step
		select {
		case r := <-done[j]:
			results[j] = &r
			if r.err != nil {
				dead = true
				waitDown()
			}
		case pkt := <-wrote:
			if pkt[0] == 0x62 {
				o.Rels = append(o.Rels, j)
				table[key{0x70, k.id}] = j
			} else {
				o.Stuck = append(o.Stuck, fmt.Sprintf("unexpected packet %x from a caller", pkt))
			}
		case <-s.cli.Done():
			dead = true
		case <-time.After(wait):
			o.Stuck = append(o.Stuck, fmt.Sprintf("caller %d made no progress after %s", j, p.Label))
		}
	}
	s.conn.finish()
	if !s.waitDone(20 * time.Second) {
		o.Stuck = append(o.Stuck, "link did not end after the peer closed")
	} else {
		o.Done = true
	}
	for j := range sc.Reqs {
		if results[j] != nil {
			continue
		}
		select {
		case r := <-done[j]:
			results[j] = &r
		case <-time.After(wait):
			o.Stuck = append(o.Stuck, fmt.Sprintf("caller %d did not return", j))
		}
	}
	// PUBRELs nobody waited for
	for more := true; more; {
		select {
		case pkt := <-wrote:
			if pkt[0] == 0x62 && len(pkt) >= 4 {
				id := uint16(pkt[2])<<8 | uint16(pkt[3])
				for j, x := range ids {
					if x == id {
						o.Rels = append(o.Rels, j)
					}
				}
			}
		default:
			more = false
		}
	}
	for j := range sc.Reqs {
		r := results[j]
		switch {
		case r == nil:
			o.Results = append(o.Results, "OR_none")
			o.ResDesc = append(o.ResDesc, "did not return")
		case r.err == nil:
			o.Results = append(o.Results, "OR_ok "+cBytes(r.granted))
			o.ResDesc = append(o.ResDesc, fmt.Sprintf("nil %x", r.granted))
		default:
			cl := errClass(r.err)
			o.ResDesc = append(o.ResDesc, cl)
			switch cl {
			case "InvalidSubAck":
				o.Results = append(o.Results, "OR_invalid_suback")
			case "ClosedTransport":
				o.Results = append(o.Results, "OR_closed")
			default:
				o.Results = append(o.Results, "OR_other")
			}
		}
	}
	o.Err = errClass(s.cli.Err())
	s.mu.Lock()
	o.States = append([]string{}, s.states...)
	s.mu.Unlock()
	for _, e := range s.snapshot() {
		switch e.Kind {
		case "hand":
			o.Events = append(o.Events, "Hand "+cLibMsg(e.Msg))
			o.Desc = append(o.Desc, fmt.Sprintf("hand(q%d,id%d,topic=%x,payload=%x)", e.Msg.QoS, e.Msg.ID, e.Msg.Topic, e.Msg.Payload))
		case "write":
			id := 0
			if len(e.Pkt) >= 4 {
				id = int(e.Pkt[2])<<8 | int(e.Pkt[3])
			}
			switch e.Pkt[0] {
			case 0x40:
				o.Events = append(o.Events, fmt.Sprintf("WPubAck %d", id))
			case 0x50:
				o.Events = append(o.Events, fmt.Sprintf("WPubRec %d", id))
			case 0x70:
				o.Events = append(o.Events, fmt.Sprintf("WPubComp %d", id))
			default:
				continue // requests and PUBREL of the calling goroutines
			}
			o.Desc = append(o.Desc, fmt.Sprintf("write(%x)", e.Pkt))
		}
	}
	return o
}

// ---------- generators ----------

func c06ReqCoq(r c06Req) string {
	switch r.Kind {
	case "sub":
		return "WSub " + cBytes(r.QoS)
	case "unsub":
		return "WUnsub"
	case "pub1":
		return "WPub1"
	case "pub2":
		return "WPub2Rec"
	}
	return "WPing"
}

func c06AckHdr(kind string) byte {
	switch kind {
	case "sub":
		return 0x90
	case "unsub":
		return 0xB0
	case "pub1":
		return 0x40
	case "pub2":
		return 0x50
	}
	return 0xD0
}

func c06Codes(n int, pat []byte) []byte {
	out := make([]byte, n)
	for i := range out {
		out[i] = pat[i%len(pat)]
	}
	return out
}

func c06GoodAck(j int, rq c06Req) c06Pkt {
	switch rq.Kind {
	case "sub":
		return c06Pkt{Hdr: 0x90, IDRef: j, IDBytes: 2, Tail: c06Codes(len(rq.QoS), []byte{1, 0, 2, 0x80}), Label: "good-suback"}
	case "ping":
		return c06Pkt{Hdr: 0xD0, IDRef: -1, Label: "good-pingresp"}
	}
	return c06Pkt{Hdr: c06AckHdr(rq.Kind), IDRef: j, IDBytes: 2, Label: "good-ack"}
}

// hostile SUBACKs for caller j who asked for n filters
func c06HostileSubAcks(j, n int) []c06Pkt {
	var out []c06Pkt
	seen := map[int]bool{}
	for _, cnt := range []int{0, n - 1, n + 1, n + 5, 255} {
		if cnt < 0 || cnt == n || seen[cnt] {
			continue
		}
		seen[cnt] = true
		out = append(out, c06Pkt{Hdr: 0x90, IDRef: j, IDBytes: 2, Tail: c06Codes(cnt, []byte{0x80, 0x03, 0xFF, 0, 1, 2}), Label: fmt.Sprintf("suback-%d-codes-for-%d", cnt, n)})
	}
	for _, c := range []byte{0x80, 0x03, 0xFF} {
		out = append(out, c06Pkt{Hdr: 0x90, IDRef: j, IDBytes: 2, Tail: c06Codes(n, []byte{c}), Label: fmt.Sprintf("suback-codes-%02x", c)})
	}
	out = append(out,
		c06Pkt{Hdr: 0x91, IDRef: j, IDBytes: 2, Tail: c06Codes(n, []byte{0}), Label: "suback-flags-1"},
		c06Pkt{Hdr: 0x9F, IDRef: j, IDBytes: 2, Tail: c06Codes(n+1, []byte{0}), Label: "suback-flags-f-surplus"},
		c06Pkt{Hdr: 0x90, IDRef: j, IDBytes: 1, Label: "suback-half-id"},
		c06Pkt{Hdr: 0x90, IDRef: j, IDBytes: 0, Label: "suback-empty"},
	)
	return out
}

// hostile acknowledgements of the identifier-only kinds for caller j
func c06HostileIDAcks(j int, hdr byte) []c06Pkt {
	return []c06Pkt{
		{Hdr: hdr, IDRef: j, IDBytes: 2, Tail: []byte{0}, Label: "ack-long-1"},
		{Hdr: hdr, IDRef: j, IDBytes: 2, Tail: []byte{0xFF, 0, 0x80, 1}, Label: "ack-long-4"},
		{Hdr: hdr, IDRef: j, IDBytes: 1, Label: "ack-half-id"},
		{Hdr: hdr, IDRef: j, IDBytes: 0, Label: "ack-empty"},
		{Hdr: hdr | 1, IDRef: j, IDBytes: 2, Label: "ack-flags-1"},
		{Hdr: hdr | 2, IDRef: j, IDBytes: 2, Label: "ack-flags-2"},
		{Hdr: hdr | 15, IDRef: j, IDBytes: 2, Label: "ack-flags-f"},
		{Hdr: hdr, IDRef: -2, IDBytes: 2, Label: "ack-foreign-id"},
	}
}

func c06WrongKindAcks(j int) []c06Pkt {
	var out []c06Pkt
	for _, h := range []byte{0x40, 0x50, 0x70, 0xB0} {
		out = append(out, c06Pkt{Hdr: h, IDRef: j, IDBytes: 2, Label: fmt.Sprintf("other-kind-%02x", h)})
	}
	out = append(out, c06Pkt{Hdr: 0x90, IDRef: j, IDBytes: 2, Tail: []byte{0, 1}, Label: "other-kind-suback"})
	out = append(out, c06Pkt{Hdr: 0x62, IDRef: j, IDBytes: 2, Label: "pubrel-with-its-id"})
	return out
}

func c06ConnAcks() []c06Pkt {
	return []c06Pkt{
		{Hdr: 0x20, IDRef: -1, Tail: []byte{0, 0}, Label: "connack-again"},
		{Hdr: 0x20, IDRef: -1, Tail: []byte{1, 5}, Label: "connack-again-refused"},
		{Hdr: 0x20, IDRef: -1, Tail: []byte{0, 0, 0}, Label: "connack-long"},
		{Hdr: 0x21, IDRef: -1, Tail: []byte{0, 0}, Label: "connack-flags"},
	}
}

func c06GoodInbound(r *rand.Rand) c06Pkt {
	if r.Intn(2) == 0 {
		return c06Pkt{Hdr: 0x30, IDRef: -1, Tail: append(encStr([]byte("in/é")), byte(r.Intn(256))), Label: "inbound-q0"}
	}
	return c06Pkt{Hdr: 0x32, IDRef: -1, Tail: append(encStr([]byte("in")), 0, 77, 9), Label: "inbound-q1"}
}

func c06RandReq(r *rand.Rand, allowPing bool) c06Req {
	switch x := r.Intn(9); {
	case x < 4:
		n := 1 + r.Intn(4)
		q := make([]byte, n)
		for i := range q {
			q[i] = byte(r.Intn(3))
		}
		return c06Req{Kind: "sub", QoS: q}
	case x < 5:
		return c06Req{Kind: "unsub"}
	case x < 6:
		return c06Req{Kind: "pub1"}
	case x < 8 || !allowPing:
		return c06Req{Kind: "pub2"}
	}
	return c06Req{Kind: "ping"}
}

func c06InflightScenarios(r *rand.Rand, tier string) []*c06Scenario {
	var out []*c06Scenario
	add := func(label string, reqs []c06Req, burst ...c06Pkt) {
		out = append(out, &c06Scenario{Inflight: true, Handler: true, Reqs: reqs, Burst: burst, Label: label})
	}
	subReq := func(n int) c06Req { return c06Req{Kind: "sub", QoS: c06Codes(n, []byte{1, 2, 0})} }
	// corpus: the surplus-code SUBACK of seeded change C06-3 (one filter, two codes)
	add("corpus:suback-surplus", []c06Req{subReq(1)}, c06Pkt{Hdr: 0x90, IDRef: 0, IDBytes: 2, Tail: []byte{1, 0}, Label: "suback-2-codes-for-1"})
	// one Subscribe with n filters x every hostile SUBACK, alone and followed by the good one
	for n := 1; n <= 4; n++ {
		rq := subReq(n)
		add("sub-good", []c06Req{rq}, c06GoodAck(0, rq))
		add("sub-good-twice", []c06Req{rq}, c06GoodAck(0, rq), c06GoodAck(0, rq))
		for _, h := range c06HostileSubAcks(0, n) {
			add("sub:"+h.Label, []c06Req{rq}, h)
			add("sub:"+h.Label+"+good", []c06Req{rq}, h, c06GoodAck(0, rq))
		}
		tr := c06GoodAck(0, rq)
		tr.Trunc = 1
		tr.Label = "suback-truncated"
		add("sub:truncated", []c06Req{rq}, tr)
		tr2 := c06Pkt{Hdr: 0x90, IDRef: 0, IDBytes: 2, Tail: c06Codes(n+3, []byte{0}), Trunc: 2, Label: "suback-surplus-truncated"}
		add("sub:surplus-truncated", []c06Req{rq}, tr2)
	}
	// identifier-only acknowledgements
	for _, kind := range []string{"unsub", "pub1", "pub2"} {
		rq := c06Req{Kind: kind}
		hdr := c06AckHdr(kind)
		add(kind+"-good-twice", []c06Req{rq}, c06GoodAck(0, rq), c06GoodAck(0, rq))
		for _, h := range append(c06HostileIDAcks(0, hdr), c06WrongKindAcks(0)...) {
			if h.Hdr == hdr && h.IDRef == 0 && h.IDBytes == 2 && len(h.Tail) == 0 {
				continue // that is the good acknowledgement
			}
			add(kind+":"+h.Label, []c06Req{rq}, h)
			add(kind+":"+h.Label+"+good", []c06Req{rq}, h, c06GoodAck(0, rq))
		}
	}
	// QoS 2, second phase: PUBREC accepted, then hostile PUBCOMPs
	{
		rq := c06Req{Kind: "pub2"}
		rec := c06GoodAck(0, rq)
		comp := c06Pkt{Hdr: 0x70, IDRef: 0, IDBytes: 2, Label: "good-pubcomp"}
		add("pub2-complete", []c06Req{rq}, rec, comp)
		add("pub2-complete-dups", []c06Req{rq}, rec, rec, comp, comp, rec)
		add("pub2-comp-before-rec", []c06Req{rq}, comp, rec, comp)
		for _, h := range c06HostileIDAcks(0, 0x70) {
			add("pub2comp:"+h.Label, []c06Req{rq}, rec, h)
			add("pub2comp:"+h.Label+"+good", []c06Req{rq}, rec, h, comp)
		}
	}
	// Ping
	{
		rq := c06Req{Kind: "ping"}
		pr := c06GoodAck(0, rq)
		add("ping-good", []c06Req{rq}, pr)
		add("ping-thrice", []c06Req{rq}, pr, pr, pr)
		add("ping:flags", []c06Req{rq}, c06Pkt{Hdr: 0xD1, IDRef: -1, Label: "pingresp-flags"})
		add("ping:body", []c06Req{rq}, c06Pkt{Hdr: 0xD0, IDRef: -1, Tail: []byte{0, 0}, Label: "pingresp-with-body"})
		add("ping:body+good", []c06Req{rq}, c06Pkt{Hdr: 0xD0, IDRef: -1, Tail: []byte{0, 0}, Label: "pingresp-with-body"}, pr)
	}
	// CONNACK again, with one request of each kind in flight
	for _, ca := range c06ConnAcks() {
		for _, rq := range []c06Req{subReq(2), {Kind: "pub1"}, {Kind: "ping"}} {
			add("connack:"+ca.Label, []c06Req{rq}, ca, c06GoodAck(0, rq))
		}
	}
	// several requests in flight, random answers
	nRand := 150
	switch tier {
	case "thorough":
		nRand = 3000
	case "search":
		nRand = 600
	}
	for i := 0; i < nRand; i++ {
		k := 1 + r.Intn(3)
		var reqs []c06Req
		ping := false
		for j := 0; j < k; j++ {
			rq := c06RandReq(r, !ping)
			if rq.Kind == "ping" {
				ping = true
			}
			reqs = append(reqs, rq)
		}
		var burst []c06Pkt
		for m := 1 + r.Intn(5); m > 0; m-- {
			j := r.Intn(k)
			rq := reqs[j]
			var pool []c06Pkt
			switch x := r.Intn(10); {
			case x < 3:
				pool = []c06Pkt{c06GoodAck(j, rq)}
			case x < 7:
				switch rq.Kind {
				case "sub":
					pool = c06HostileSubAcks(j, len(rq.QoS))
				case "ping":
					pool = []c06Pkt{{Hdr: 0xD1, IDRef: -1, Label: "pingresp-flags"}, {Hdr: 0xD0, IDRef: -1, Tail: []byte{1}, Label: "pingresp-with-body"}}
				case "pub2":
					pool = append(c06HostileIDAcks(j, 0x50), c06HostileIDAcks(j, 0x70)...)
					pool = append(pool, c06Pkt{Hdr: 0x70, IDRef: j, IDBytes: 2, Label: "good-pubcomp"})
				default:
					pool = c06HostileIDAcks(j, c06AckHdr(rq.Kind))
				}
			case x < 8:
				pool = c06WrongKindAcks(j)
			case x < 9:
				pool = c06ConnAcks()
			default:
				pool = []c06Pkt{c06GoodInbound(r)}
			}
			burst = append(burst, pool[r.Intn(len(pool))])
		}
		if r.Intn(6) == 0 {
			burst[len(burst)-1].Trunc = 1
		}
		out = append(out, &c06Scenario{Inflight: true, Handler: r.Intn(4) > 0, Reqs: reqs, Burst: burst, Label: "random"})
	}
	return out
}
