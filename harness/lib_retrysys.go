package main

// Shared by the retry / reconnect properties (C01 C02 C03 C08 C12 C18): scenarios, a scripted
// conforming broker behind an in-memory gated Dialer, the scenario driver which realises the label
// sequences of RetrySys.run_scenario on a real ReconnectClient, and the Coq printers.

import (
	"context"
	"errors"
	"fmt"
	"io"
	"math/rand"
	"sort"
	"strings"
	"sync"
	"sync/atomic"
	"time"

	mqtt "github.com/at-wat/mqtt-go"
)

// ---------- scenario description (mirror of RetrySys.phase / attempt, RetryCore.uop) ----------

type rsSub struct {
	Topic string
	QoS   byte
}

type rsOp struct {
	Kind    byte // 'p', 's', 'u'
	UID     int
	QoS     byte
	Retain  bool
	Topic   string
	Payload []byte // without the 2-byte uid tag
	Subs    []rsSub
	Topics  []string
}

const (
	rsDialFail = iota
	rsAccept
	rsRefused
	rsClosed
	rsNoAck
	// rsNoAckClosed is never generated: resolve() turns a no-CONNACK attempt into it when the client's own Close
	// (reconnect loop, after the handshake deadline) won the race against the request that was waiting for the
	// handshake to end; the model then takes the schedule with the close first (its CoClosed outcome)
	rsNoAckClosed
	// the CONNECT write itself fails (the transport died between dial and CONNECT): CoClosed in the model
	rsConnWriteFail
)

type rsAttempt struct {
	Kind int
	SP   bool
	Mid  []rsOp
}

type rsPhase struct {
	Attempts []rsAttempt
	Ops      []rsOp
	IdleCut  bool
}

const (
	fNone = iota
	fWriteFail
	fLostAfter
	fAckLost
	fSilentReq
	fSilentAck
)

var rsFaultName = []string{"FNone", "FWriteFail", "FLostAfter", "FAckLost", "FSilentReq", "FSilentAck"}

type rsFault struct {
	Conn, Idx, Kind int
}

type rsScenario struct {
	MethodB   bool
	Always    bool
	Timeout   bool // ResponseTimeout configured
	CallerIDs bool // publishes carry caller-provided identifiers
	CancelCtx bool // the caller cancels the context it gave to Connect once Connect has returned
	CallerDup bool // the caller's Message structs arrive with Dup already set (a reused struct)
	CapQoS    int  // 0: the broker grants what was requested; 1,2: it grants min(requested, CapQoS-1) in SUBACK
	// how the deadline of the CONNACK wait is configured when some attempt never gets a CONNACK:
	// 0: WithTimeout(400ms); 1: only WithPingInterval(1s) (Timeout defaults to it); 2: only the CONNECT
	// keep-alive of 1 s (PingInterval defaults to it, Timeout to that)
	HsTimeoutVia int
	LateTimeout  bool // ResponseTimeout is assigned after the first connection is up (no request before that)
	// EOFWrites: a failing Write returns exactly io.EOF, the one error value the library passes through bare (so
	// the request comes back without a retry handle and the RetryClient drops it).  Outside the model's fault
	// alphabet: such scenarios are judged by the property predicate only (rsPredOnly), never compared with the model.
	EOFWrites bool
	// CleanSession: the client connects with WithCleanSession(true); a conforming broker then never reports a
	// kept session (every accept has SP = false and wipes the broker's state)
	CleanSession bool
	// StallWriter: when a silent fault fires the broker also stops READING: it sends one inbound QoS 1 message
	// and the client's PUBACK for it blocks inside Transport.Write until the client closes the transport.
	// Nothing the model describes changes (inbound traffic and its acknowledgements are not part of it).
	StallWriter bool
	// NoOnError: no OnError callback is installed (the zero value): the error classes cannot be observed, so these
	// scenarios are judged by a predicate without the "reported" clause and are not compared with the model
	NoOnError bool
	// LateAck: an acknowledgement withheld by a silent-ack fault is delivered after all, on the still open
	// connection, while the client is reporting the response timeout (inside OnError, i.e. after the request
	// was abandoned and before the client closes the connection). A late acknowledgement changes nothing.
	LateAck bool
	Phases  []rsPhase
	Faults  []rsFault
	Note    string
}

func (sc *rsScenario) fault(conn, idx int) int {
	for _, f := range sc.Faults {
		if f.Conn == conn && f.Idx == idx {
			return f.Kind
		}
	}
	return fNone
}

func (sc *rsScenario) usesSilent() bool {
	for _, f := range sc.Faults {
		if f.Kind == fSilentReq || f.Kind == fSilentAck {
			return true
		}
	}
	return false
}

func (sc *rsScenario) usesNoAck() bool {
	for _, p := range sc.Phases {
		for _, a := range p.Attempts {
			if a.Kind == rsNoAck || a.Kind == rsNoAckClosed {
				return true
			}
		}
	}
	return false
}

// resolve returns the scenario with the one scheduling choice the driver does not control fixed as observed:
// after a handshake deadline the reconnect loop closes the client while a request queued during the handshake
// is released (BaseClient.muConnecting); the request's packet is either written to the still open transport
// (WOk, the broker ignores it) or finds it closed (WDead).  Both are executions of the model (LTask before or
// after LCloseFailed); nothing else differs between them.
func (sc *rsScenario) resolve(o *rsObs) *rsScenario {
	if !sc.usesNoAck() {
		return sc
	}
	cp := *sc
	cp.Phases = nil
	conn := 0
	for _, p := range sc.Phases {
		q := p
		q.Attempts = append([]rsAttempt{}, p.Attempts...)
		for i, a := range q.Attempts {
			if a.Kind == rsDialFail {
				continue
			}
			if a.Kind == rsNoAck {
				for _, w := range o.Wire {
					if w.Conn == conn {
						if w.Res == "WDead" {
							q.Attempts[i].Kind = rsNoAckClosed
						}
						break
					}
				}
			}
			conn++
		}
		cp.Phases = append(cp.Phases, q)
	}
	return &cp
}

// ---------- observations ----------

type rsWire struct {
	Conn int
	Pkt  string // Coq term of RetryCore.pkt
	Res  string // WAck | WOk | WFail | WDead
	Desc string
}

type rsObs struct {
	Wire      []rsWire
	Delivered []int
	Acked     []int
	Subs      []rsSub // broker table at the end, sorted
	SubEst    []rsSub // RetryClient.subEstablished at the end (order kept)
	RetryQ    int
	TaskQ     int
	Errs      []string // ETimeout | EConn | ENotConnected | EOther
	Hung      bool
	Stuck     string // non-empty: the driver could not realise the scenario (where)
	Waits     int
	IDClash   bool
}

// ---------- the scripted broker ----------

type rsBroker struct {
	mu        sync.Mutex
	sc        *rsScenario
	conns     []*memConn
	accepted  []bool
	sent      []int
	subs      map[string]byte
	q2A       map[int]bool
	q2B       map[int]bool
	delivered []int
	acked     []int
	wire      []rsWire
	idOf      map[int]int // uid -> identifier of its first PUBLISH
	uidOf     map[int]int // identifier -> uid
	clash     bool
	// gates
	connectReached chan int
	connectGo      chan int // outcome kind for the CONNECT being written
	connectSP      bool
	quit           chan struct{}
	stall          map[int]bool   // connections on which the broker stopped reading (StallWriter)
	late           map[int][]byte // withheld acknowledgements to be delivered late (LateAck)
}

func newRsBroker(sc *rsScenario) *rsBroker {
	return &rsBroker{sc: sc, subs: map[string]byte{}, q2A: map[int]bool{}, q2B: map[int]bool{},
		idOf: map[int]int{}, uidOf: map[int]int{}, stall: map[int]bool{}, late: map[int][]byte{},
		connectReached: make(chan int, 1), connectGo: make(chan int, 1), quit: make(chan struct{})}
}

func rsCoqStr(s string) string { return cBytes([]byte(s)) }

func rsCoqSubs(ss []rsSub) string {
	var it []string
	for _, s := range ss {
		it = append(it, fmt.Sprintf("(%s,%d)", rsCoqStr(s.Topic), s.QoS))
	}
	return cListInline(it)
}

func rsCoqTopics(ts []string) string {
	var it []string
	for _, t := range ts {
		it = append(it, rsCoqStr(t))
	}
	return cListInline(it)
}

func rsCoqPub(uid int, qos byte, retain bool, topic string, payload []byte) string {
	return fmt.Sprintf("{| p_uid := %d%%nat; p_qos := %d; p_retain := %s; p_topic := %s; p_payload := %s |}",
		uid, qos, cBool(retain), rsCoqStr(topic), cBytes(payload))
}

func rsMarkerUID(first string) int {
	if strings.HasPrefix(first, "#") {
		n := 0
		if _, err := fmt.Sscanf(first, "#%d", &n); err == nil {
			return n
		}
	}
	return 0
}

// releaseLate delivers the acknowledgements withheld so far on connections that are still open (LateAck).
func (b *rsBroker) releaseLate() {
	b.mu.Lock()
	var cs []*memConn
	for k, bytes := range b.late {
		if len(bytes) > 0 && k < len(b.conns) && !b.conns[k].isClosed() {
			b.conns[k].send(bytes)
			cs = append(cs, b.conns[k])
		}
		delete(b.late, k)
	}
	b.mu.Unlock()
	for _, c := range cs {
		c.waitReaderIdle(2 * time.Second)
	}
}

// onWrite is called by memConn.Write on the writer's goroutine: the whole broker runs here.
func (b *rsBroker) onWrite(c *memConn, pkt []byte) error {
	k := c.n
	typ := pkt[0] & 0xF0
	if typ == 0x10 {
		// CONNECT: gate (the driver submits the "mid" requests now), then answer per outcome
		var out int
		select {
		case b.connectReached <- k:
		case <-b.quit:
			return errClosedConn
		}
		select {
		case out = <-b.connectGo:
		case <-b.quit:
			return errClosedConn
		}
		b.mu.Lock()
		defer b.mu.Unlock()
		switch out {
		case rsAccept:
			if !b.connectSP {
				b.subs = map[string]byte{}
				b.q2A = map[int]bool{}
				b.q2B = map[int]bool{}
			}
			b.accepted[k] = true
			sp := byte(0)
			if b.connectSP {
				sp = 1
			}
			c.send([]byte{0x20, 2, sp, 0})
		case rsRefused:
			c.send([]byte{0x20, 2, 0, 5})
			c.cut()
		case rsClosed:
			c.cut()
		case rsNoAck:
		case rsConnWriteFail:
			c.cut()
			return errCut
		}
		return nil
	}
	if typ == 0xC0 {
		c.send([]byte{0xD0, 0}) // keep-alive pings (configured in the no-CONNACK scenarios) are answered at once
		return nil
	}
	if typ == 0xE0 {
		return nil
	}
	if typ == 0x40 {
		// the client's PUBACK for the inbound message of a StallWriter scenario: the broker has stopped reading
		b.mu.Lock()
		st := b.stall[k]
		b.mu.Unlock()
		for st && !c.isClosed() {
			select {
			case <-b.quit:
				return errClosedConn
			case <-time.After(100 * time.Microsecond):
			}
		}
		if st {
			return errClosedConn
		}
		return nil
	}
	b.mu.Lock()
	defer b.mu.Unlock()
	dead := c.isClosed()
	// decode
	var coq, desc string
	var uid int
	var qos byte
	var subs []rsSub
	var topics []string
	var id int
	switch typ {
	case 0x30:
		qos = (pkt[0] >> 1) & 3
		dup := pkt[0]&8 != 0
		retain := pkt[0]&1 != 0
		i := 1
		for pkt[i]&0x80 != 0 {
			i++
		}
		i++
		tl := int(pkt[i])<<8 | int(pkt[i+1])
		topic := string(pkt[i+2 : i+2+tl])
		j := i + 2 + tl
		if qos > 0 {
			id = int(pkt[j])<<8 | int(pkt[j+1])
			j += 2
		}
		payload := pkt[j:]
		uid = int(payload[0])<<8 | int(payload[1])
		cu := uid
		if qos > 0 {
			if first, ok := b.idOf[uid]; !ok {
				if other, used := b.uidOf[id]; used && other != uid {
					b.clash = true
				}
				b.idOf[uid] = id
				b.uidOf[id] = uid
			} else if first != id {
				cu = 4000 + uid // identifier changed between transmissions: can never match the model
			}
			if b.sc.CallerIDs && id != 1000+uid {
				cu = 3000 + uid // caller-provided identifier not used unchanged
			}
		}
		coq = fmt.Sprintf("PPublish %s %s", rsCoqPub(cu, qos, retain, topic, payload[2:]), cBool(dup))
		desc = fmt.Sprintf("PUBLISH(u%d,q%d,dup=%v,id=%d)", uid, qos, dup, id)
	case 0x60:
		id = int(pkt[2])<<8 | int(pkt[3])
		u, ok := b.uidOf[id]
		if !ok {
			u = 4999
		}
		uid = u
		coq = fmt.Sprintf("PPubRel %d%%nat", u)
		desc = fmt.Sprintf("PUBREL(u%d,id=%d)", u, id)
	case 0x80, 0xA0:
		i := 1
		for pkt[i]&0x80 != 0 {
			i++
		}
		body := pkt[i+3:]
		for len(body) > 0 {
			l := int(body[0])<<8 | int(body[1])
			t := string(body[2 : 2+l])
			if typ == 0x80 {
				subs = append(subs, rsSub{t, body[2+l]})
				body = body[3+l:]
			} else {
				topics = append(topics, t)
				body = body[2+l:]
			}
		}
		id = int(pkt[i+1])<<8 | int(pkt[i+2])
		if typ == 0x80 {
			if len(subs) > 1 {
				uid = rsMarkerUID(subs[0].Topic)
			}
			coq = fmt.Sprintf("PSubscribe %d%%nat %s", uid, rsCoqSubs(subs))
			desc = fmt.Sprintf("SUBSCRIBE(u%d,%v)", uid, subs)
		} else {
			if len(topics) > 1 {
				uid = rsMarkerUID(topics[0])
			}
			coq = fmt.Sprintf("PUnsubscribe %d%%nat %s", uid, rsCoqTopics(topics))
			desc = fmt.Sprintf("UNSUBSCRIBE(u%d,%v)", uid, topics)
		}
	default:
		coq = "PPubRel 4777%nat"
		desc = fmt.Sprintf("unexpected(%x)", pkt)
	}
	// reserved flag bits (MQTT 3.1.1 table 2.2): a conforming broker closes the connection on a violation;
	// here the packet is logged as something the model never writes
	if (typ == 0x60 || typ == 0x80 || typ == 0xA0) && pkt[0]&0x0F != 0x02 {
		coq = "PPubRel 4777%nat"
		desc = fmt.Sprintf("bad-reserved-flags(%02x) %s", pkt[0], desc)
	}
	if dead {
		b.wire = append(b.wire, rsWire{k, coq, "WDead", desc})
		return errClosedConn
	}
	f := fLostAfter
	if b.accepted[k] {
		f = b.sc.fault(k, b.sent[k])
	}
	b.sent[k]++
	if f == fWriteFail {
		b.wire = append(b.wire, rsWire{k, coq, "WFail", desc + " cut"})
		c.cut()
		if b.sc.EOFWrites {
			return io.EOF
		}
		return errCut
	}
	res := "WOk"
	if f == fNone {
		res = "WAck"
	}
	b.wire = append(b.wire, rsWire{k, coq, res, desc + " " + rsFaultName[f]})
	if f == fLostAfter {
		if b.accepted[k] {
			c.cut()
		}
		return nil
	}
	if (f == fSilentReq || f == fSilentAck) && b.sc.StallWriter && !b.stall[k] {
		b.stall[k] = true
		c.send([]byte{0x32, 7, 0, 2, 'i', 'n', 0, 7, 'x'}) // inbound QoS 1 PUBLISH: its PUBACK will not be read
	}
	if f == fSilentReq {
		return nil
	}
	// process
	var resp []byte
	final := false
	switch typ {
	case 0x30:
		switch qos {
		case 0:
			b.delivered = append(b.delivered, uid)
		case 1:
			b.delivered = append(b.delivered, uid)
			resp = encID(0x40, uint16(id))
			final = true
		case 2:
			if b.sc.MethodB {
				b.q2B[uid] = true
			} else if !b.q2A[uid] {
				b.q2A[uid] = true
				b.delivered = append(b.delivered, uid)
			}
			resp = encID(0x50, uint16(id))
		}
	case 0x60:
		if b.sc.MethodB {
			if b.q2B[uid] {
				b.delivered = append(b.delivered, uid)
				delete(b.q2B, uid)
			}
		} else {
			delete(b.q2A, uid)
		}
		resp = encID(0x70, uint16(id))
		final = true
	case 0x80:
		var codes []byte
		for _, s := range subs {
			// the table records what was REQUESTED (the property compares requested QoS); the SUBACK may
			// grant less: nothing the client sends later may depend on the granted codes
			b.subs[s.Topic] = s.QoS
			g := s.QoS
			if b.sc.CapQoS > 0 && int(g) > b.sc.CapQoS-1 {
				g = byte(b.sc.CapQoS - 1)
			}
			codes = append(codes, g)
		}
		resp = append([]byte{0x90, byte(2 + len(codes)), byte(id >> 8), byte(id)}, codes...)
		final = true
	case 0xA0:
		for _, t := range topics {
			delete(b.subs, t)
		}
		resp = encID(0xB0, uint16(id))
		final = true
	}
	if f == fAckLost {
		c.cut()
		return nil
	}
	if f == fSilentAck {
		if b.sc.LateAck && resp != nil {
			b.late[k] = append(b.late[k], resp...)
		}
		return nil
	}
	if final {
		b.acked = append(b.acked, uid)
	}
	if resp != nil {
		c.send(resp)
		// zero-delay broker: the client's reader has consumed the acknowledgement before Write returns
		// (a waiter registered only after the write would miss it)
		b.mu.Unlock()
		c.waitReaderIdle(2 * time.Second)
		b.mu.Lock()
	}
	return nil
}

// ---------- the driver ----------

type rsDialResp struct {
	ok bool
}

// rsWait: how long the driver waits for the client before recording "stuck". Once several scenarios
// of a run were stuck (the verdict is a violation anyway) the remaining ones wait less.
var rsStuck int32

// rsBarrierPush queues the barrier task; queueing only takes the client's lock for a moment, so a call that
// does not return within the limit is reported instead of hanging the driver.
func rsBarrierPush(rc *mqtt.RetryClient, ch chan struct{}, limit time.Duration) error {
	done := make(chan error, 1)
	go func() { done <- rc.VerifBarrier(ch) }()
	select {
	case err := <-done:
		return err
	case <-time.After(limit):
		return errors.New("queueing a task did not return (client lock held?)")
	}
}

func rsWaitDur() time.Duration {
	if atomic.LoadInt32(&rsStuck) >= 3 {
		return 1500 * time.Millisecond
	}
	return 10 * time.Second
}

func rsRun(sc *rsScenario) rsObs {
	var obs rsObs
	if atomic.LoadInt32(&rsStuck) >= 40 {
		// the verdict of this run is settled (every stuck scenario is a violation): do not spend minutes on the rest
		obs.Stuck = "not run: 40 scenarios of this run got stuck already"
		return obs
	}
	b := newRsBroker(sc)
	dialReq := make(chan struct{}, 1)
	dialResp := make(chan rsDialResp, 1)
	quit := b.quit
	dialer := mqtt.DialerFunc(func(ctx context.Context) (*mqtt.BaseClient, error) {
		select {
		case dialReq <- struct{}{}:
		case <-quit:
			return nil, errors.New("scenario over")
		}
		select {
		case r := <-dialResp:
			if !r.ok {
				return nil, errors.New("dial failed")
			}
		case <-quit:
			return nil, errors.New("scenario over")
		}
		b.mu.Lock()
		k := len(b.conns)
		c := newMemConn(k, b.onWrite)
		c.localCloseErr = io.ErrClosedPipe // like net.Pipe: a Read after the client's own Close
		b.conns = append(b.conns, c)
		b.accepted = append(b.accepted, false)
		b.sent = append(b.sent, 0)
		b.mu.Unlock()
		return &mqtt.BaseClient{Transport: c}, nil
	})
	var errMu sync.Mutex
	var errs []string
	rc := &mqtt.RetryClient{}
	late := sc.Timeout && sc.LateTimeout && len(sc.Phases) > 0
	if late {
		for _, a := range sc.Phases[0].Attempts {
			if len(a.Mid) > 0 {
				late = false // a request runs before the point where the field is assigned
			}
		}
	}
	if sc.Timeout && !late {
		rc.ResponseTimeout = 150 * time.Millisecond
	}
	onError := func(err error) {
		var rte *mqtt.RequestTimeoutError
		cls := "EConn"
		switch {
		case errors.As(err, &rte):
			cls = "ETimeout"
		case errors.Is(err, mqtt.ErrNotConnected):
			cls = "ENotConnected"
		case errors.Is(err, mqtt.ErrClosedTransport), errors.Is(err, errCut), errors.Is(err, errClosedConn):
			cls = "EConn"
		default:
			cls = "EOther"
		}
		errMu.Lock()
		errs = append(errs, cls)
		errMu.Unlock()
		_ = rc.Stats() // a callback may look at the statistics
		if cls == "ETimeout" && sc.LateAck {
			b.releaseLate() // the acknowledgement arrives now, too late
		}
	}
	if !sc.NoOnError {
		rc.OnError = onError
	}
	opts := []mqtt.ReconnectOption{mqtt.WithReconnectWait(200*time.Microsecond, time.Millisecond),
		mqtt.WithRetryClient(rc), mqtt.WithAlwaysResubscribe(sc.Always)}
	connOpts := []mqtt.ConnectOption{mqtt.WithCleanSession(sc.CleanSession)}
	if sc.usesNoAck() {
		switch sc.HsTimeoutVia {
		case 1:
			opts = append(opts, mqtt.WithPingInterval(time.Second))
		case 2:
			connOpts = append(connOpts, mqtt.WithKeepAlive(1))
		default:
			opts = append(opts, mqtt.WithTimeout(400*time.Millisecond))
		}
	}
	cli, err := mqtt.NewReconnectClient(dialer, opts...)
	if err != nil {
		obs.Stuck = "new: " + err.Error()
		return obs
	}
	ctx, cancel := context.WithCancel(context.Background())
	defer cancel()
	connCtx, connCancel := context.WithCancel(context.Background())
	defer connCancel()
	connReturned := make(chan struct{})
	go func() {
		_, _ = cli.Connect(connCtx, "cid", connOpts...)
		close(connReturned)
	}()

	pushed := 0      // tasks pushed by the driver (requests + barriers)
	loopPushed := 0  // tasks the reconnect loop must have pushed by contract (Retry, Resubscribe)
	started := false // the task goroutine exists (a SetClient happened)
	initialized := false
	rsWait := rsWaitDur()
	hungWait := rsWait
	if sc.usesSilent() && !sc.Timeout {
		hungWait = 1500 * time.Millisecond
	}
	barrier := func(where string) bool {
		if obs.Hung {
			return false
		}
		ch := make(chan struct{})
		pushed++
		if err := rsBarrierPush(rc, ch, rsWaitDur()); err != nil {
			obs.Stuck = where + ": barrier rejected: " + err.Error()
			return false
		}
		select {
		case <-ch:
			return true
		case <-time.After(hungWait):
			if sc.usesSilent() && !sc.Timeout {
				obs.Hung = true
			} else {
				obs.Stuck = where + ": barrier not reached"
			}
			return false
		}
	}
	submitCall := func(op rsOp) string {
		// request-scoped context, ended as soon as the call has returned (the usual `defer cancel()`): an
		// accepted request must not depend on it any more
		ctx, rcancel := context.WithCancel(ctx)
		defer rcancel()
		res := ""
		switch op.Kind {
		case 'p':
			m := &mqtt.Message{Topic: op.Topic, QoS: mqtt.QoS(op.QoS), Retain: op.Retain,
				Payload: append([]byte{byte(op.UID >> 8), byte(op.UID)}, op.Payload...)}
			if sc.CallerIDs && op.QoS > 0 {
				m.ID = uint16(1000 + op.UID)
			}
			m.Dup = sc.CallerDup // a first transmission has DUP=0 whatever the caller's struct says
			if err := cli.Publish(ctx, m); err != nil {
				res = "publish rejected: " + err.Error()
			}
		case 's':
			var ss []mqtt.Subscription
			for _, s := range op.Subs {
				ss = append(ss, mqtt.Subscription{Topic: s.Topic, QoS: mqtt.QoS(s.QoS)})
			}
			if _, err := cli.Subscribe(ctx, ss...); err != nil {
				res = "subscribe rejected: " + err.Error()
			}
		case 'u':
			if err := cli.Unsubscribe(ctx, op.Topics...); err != nil {
				res = "unsubscribe rejected: " + err.Error()
			}
		}
		return res
	}
	// a call that accepts a request returns at once by contract (it only queues): one that does not return
	// is an observation, not a reason for the driver to hang
	submit := func(op rsOp) {
		pushed++
		done := make(chan string, 1)
		go func() { done <- submitCall(op) }()
		select {
		case s := <-done:
			if s != "" {
				obs.Stuck = s
			}
		case <-time.After(rsWaitDur()):
			obs.Stuck = "a request call (Publish/Subscribe/Unsubscribe) did not return"
		}
	}
	waitCh := func(ch chan struct{}, where string) bool {
		select {
		case <-ch:
			return true
		case <-time.After(rsWait):
			obs.Stuck = where
			return false
		}
	}
	done := func() bool { return obs.Stuck != "" || obs.Hung }

phases:
	for pi, ph := range sc.Phases {
		for ai, at := range ph.Attempts {
			where := fmt.Sprintf("phase %d attempt %d", pi, ai)
			if !waitCh(dialReq, where+": no dial") {
				break phases
			}
			obs.Waits++
			if at.Kind == rsDialFail {
				for _, op := range at.Mid {
					submit(op)
					if started && !barrier(where+" outage op") {
						break phases
					}
				}
				dialResp <- rsDialResp{ok: false}
				continue
			}
			dialResp <- rsDialResp{ok: true}
			select {
			case <-b.connectReached:
			case <-time.After(rsWait):
				obs.Stuck = where + ": CONNECT not written"
				break phases
			}
			started = true
			for _, op := range at.Mid {
				submit(op)
			}
			b.mu.Lock()
			b.connectSP = at.SP
			b.mu.Unlock()
			b.connectGo <- at.Kind
			if at.Kind == rsAccept {
				if sc.CancelCtx && !initialized {
					// the usual `defer cancel()`: the context given to Connect ends once Connect returned;
					// the reconnect loop must not depend on it afterwards
					select {
					case <-connReturned:
						connCancel()
					case <-time.After(rsWait):
						obs.Stuck = where + ": Connect did not return after the first CONNACK"
						break phases
					}
				}
				loopPushed++
				if initialized && (!at.SP || sc.Always) {
					loopPushed++
				}
				initialized = true
				// wait until the loop has pushed Resubscribe/Retry (monotone condition), then barrier
				deadline := time.Now().Add(rsWait)
				for {
					st, ok := rsStats(cli)
					if !ok {
						obs.Stuck = where + ": Stats() does not return"
						break phases
					}
					if st.TotalTasks+st.QueuedTasks >= pushed+loopPushed {
						break
					}
					if time.Now().After(deadline) {
						if sc.usesSilent() && !sc.Timeout {
							obs.Hung = true
						} else {
							obs.Stuck = where + fmt.Sprintf(": loop did not push its tasks (%+v, want %d)", st, pushed+loopPushed)
						}
						break phases
					}
					time.Sleep(50 * time.Microsecond)
				}
			}
			if !barrier(where + " after connect") {
				break phases
			}
			if at.Kind == rsAccept && late && rc.ResponseTimeout == 0 {
				// configured on the running client: the task goroutine is idle behind the barrier and reads
				// the field again for the next request
				rc.ResponseTimeout = 150 * time.Millisecond
			}
		}
		for oi, op := range ph.Ops {
			submit(op)
			if !barrier(fmt.Sprintf("phase %d op %d", pi, oi)) {
				break phases
			}
		}
		if ph.IdleCut {
			b.mu.Lock()
			c := b.conns[len(b.conns)-1]
			b.mu.Unlock()
			c.cut()
		}
		if done() {
			break
		}
	}
	if !done() {
		st, ok := rsStats(cli)
		if !ok {
			obs.Stuck = "Stats() does not return"
		}
		obs.RetryQ = st.QueuedRetries
		obs.TaskQ = st.QueuedTasks
		for _, s := range rc.VerifSubEstablished() {
			obs.SubEst = append(obs.SubEst, rsSub{s.Topic, byte(s.QoS)})
		}
	}
	b.mu.Lock()
	obs.Wire = append([]rsWire{}, b.wire...)
	obs.Delivered = append([]int{}, b.delivered...)
	obs.Acked = append([]int{}, b.acked...)
	for t, q := range b.subs {
		obs.Subs = append(obs.Subs, rsSub{t, q})
	}
	obs.IDClash = b.clash
	conns := append([]*memConn{}, b.conns...)
	b.mu.Unlock()
	sort.Slice(obs.Subs, func(i, j int) bool { return obs.Subs[i].Topic < obs.Subs[j].Topic })
	errMu.Lock()
	obs.Errs = append([]string{}, errs...)
	errMu.Unlock()
	// tear down: stop the loop, the task goroutine and every connection
	for _, c := range conns {
		c.Close()
	}
	close(quit)
	dwait := 3 * time.Second
	if obs.Stuck != "" {
		dwait = 200 * time.Millisecond
	}
	dctx, dcancel := context.WithTimeout(context.Background(), dwait)
	dd := make(chan struct{})
	go func() { _ = cli.Disconnect(dctx); close(dd) }()
	select {
	case <-dd:
	case <-time.After(5 * time.Second): // Disconnect stuck behind a lock: leave it behind
	}
	dcancel()
	cancel()
	for _, c := range conns {
		c.Close()
	}
	if obs.Stuck != "" {
		atomic.AddInt32(&rsStuck, 1)
	}
	return obs
}

// ---------- Coq printing ----------

func (op rsOp) coq() string {
	switch op.Kind {
	case 'p':
		return "UPub " + rsCoqPub(op.UID, op.QoS, op.Retain, op.Topic, op.Payload)
	case 's':
		return fmt.Sprintf("USub %d%%nat %s", op.UID, rsCoqSubs(op.Subs))
	}
	return fmt.Sprintf("UUnsub %d%%nat %s", op.UID, rsCoqTopics(op.Topics))
}

func rsCoqOps(ops []rsOp) string {
	var it []string
	for _, o := range ops {
		it = append(it, o.coq())
	}
	return cListInline(it)
}

func (sc *rsScenario) coq() string {
	var phs []string
	for _, p := range sc.Phases {
		var ats []string
		for _, a := range p.Attempts {
			kind := "ADialFail"
			switch a.Kind {
			case rsAccept:
				kind = fmt.Sprintf("AConn (CoAccept %s)", cBool(a.SP))
			case rsRefused:
				kind = "AConn CoRefused"
			case rsClosed:
				kind = "AConn CoClosed"
			case rsNoAck:
				kind = "AConn CoNoAck"
			case rsNoAckClosed, rsConnWriteFail:
				kind = "AConn CoClosed"
			}
			ats = append(ats, fmt.Sprintf("{| at_kind := %s; at_mid := %s |}", kind, rsCoqOps(a.Mid)))
		}
		phs = append(phs, fmt.Sprintf("{| ph_attempts := %s; ph_ops := %s; ph_idle_cut := %s |}",
			cListInline(ats), rsCoqOps(p.Ops), cBool(p.IdleCut)))
	}
	var fs []string
	for _, f := range sc.Faults {
		fs = append(fs, fmt.Sprintf("(%d%%nat,%d%%nat,%s)", f.Conn, f.Idx, rsFaultName[f.Kind]))
	}
	return fmt.Sprintf("{| sc_cfg := {| c_method_b := %s; c_always_resub := %s; c_timeout := %s |}; sc_faults := %s; sc_phases := %s |}",
		cBool(sc.MethodB), cBool(sc.Always), cBool(sc.Timeout), cListInline(fs), cListInline(phs))
}

func (o *rsObs) coq() string {
	var ws []string
	for _, w := range o.Wire {
		ws = append(ws, fmt.Sprintf("(%d%%nat,%s,%s)", w.Conn, w.Pkt, w.Res))
	}
	nats := func(l []int) string {
		var it []string
		for _, x := range l {
			it = append(it, fmt.Sprintf("%d%%nat", x))
		}
		return cListInline(it)
	}
	var es []string
	for _, e := range o.Errs {
		if e == "EOther" {
			e = "ENotConnected" // never produced by the model in a realisable scenario: shows as a mismatch
		}
		es = append(es, e)
	}
	return fmt.Sprintf("{| o_wire := %s; o_delivered := %s; o_acked := %s; o_subs := %s; o_subest := %s; o_retryq := %d%%nat; o_taskq := %d%%nat; o_errs := %s; o_hung := %s; o_stuck := %s |}",
		cListInline(ws), nats(o.Delivered), nats(o.Acked), rsCoqSubs(o.Subs), rsCoqSubs(o.SubEst), o.RetryQ, o.TaskQ,
		cListInline(es), cBool(o.Hung), cBool(o.Stuck != ""))
}

func (sc *rsScenario) describe() map[string]interface{} {
	var phs []interface{}
	for _, p := range sc.Phases {
		var ats []string
		for _, a := range p.Attempts {
			k := []string{"dial-fails", "accept", "refused", "closed-before-connack", "no-connack", "no-connack (own close ahead of the queued request)", "connect-write-fails"}[a.Kind]
			if a.Kind == rsAccept {
				k += fmt.Sprintf("(sessionPresent=%v)", a.SP)
			}
			if len(a.Mid) > 0 {
				k += " mid=" + rsDescOps(a.Mid)
			}
			ats = append(ats, k)
		}
		phs = append(phs, map[string]interface{}{"attempts": ats, "ops": rsDescOps(p.Ops), "idle_cut": p.IdleCut})
	}
	var fs []string
	for _, f := range sc.Faults {
		fs = append(fs, fmt.Sprintf("conn%d#%d:%s", f.Conn, f.Idx, rsFaultName[f.Kind]))
	}
	return map[string]interface{}{"methodB": sc.MethodB, "alwaysResubscribe": sc.Always, "responseTimeout": sc.Timeout,
		"connectContextCancelledAfterConnect": sc.CancelCtx, "callerStructHasDupSet": sc.CallerDup,
		"callerIDs": sc.CallerIDs, "brokerGrantsAtMostQoS": sc.CapQoS - 1,
		"connackDeadlineVia":          []string{"WithTimeout", "WithPingInterval only", "CONNECT keep-alive only"}[sc.HsTimeoutVia%3],
		"responseTimeoutAssignedLate": sc.LateTimeout, "failingWriteReturnsEOF": sc.EOFWrites, "cleanSession": sc.CleanSession, "brokerStopsReadingOnSilentFault": sc.StallWriter, "noOnErrorCallback": sc.NoOnError, "withheldAckDeliveredLate": sc.LateAck, "phases": phs, "faults": fs, "note": sc.Note}
}

func rsDescOps(ops []rsOp) string {
	var it []string
	for _, o := range ops {
		switch o.Kind {
		case 'p':
			it = append(it, fmt.Sprintf("Pub(u%d,q%d)", o.UID, o.QoS))
		case 's':
			it = append(it, fmt.Sprintf("Sub(u%d,%v)", o.UID, o.Subs))
		case 'u':
			it = append(it, fmt.Sprintf("Unsub(u%d,%v)", o.UID, o.Topics))
		}
	}
	return strings.Join(it, " ")
}

func (o *rsObs) describe() map[string]interface{} {
	var ws []string
	for _, w := range o.Wire {
		ws = append(ws, fmt.Sprintf("c%d %s %s", w.Conn, w.Desc, w.Res))
	}
	return map[string]interface{}{"wire": ws, "delivered": o.Delivered, "acked": o.Acked, "broker_subs": o.Subs,
		"sub_established": o.SubEst, "queued_retries": o.RetryQ, "queued_tasks": o.TaskQ, "on_error": o.Errs,
		"hung": o.Hung, "stuck": o.Stuck}
}

// ---------- generators ----------

type rsGen struct {
	r   *rand.Rand
	uid int
}

var rsTopics = []string{"a", "b", "c/d", "+/x", "s/#", "s/d", "s/+"}

func (g *rsGen) pub(qos byte) rsOp {
	g.uid++
	pl := make([]byte, g.r.Intn(3))
	for i := range pl {
		pl[i] = byte(g.r.Intn(256))
	}
	return rsOp{Kind: 'p', UID: g.uid, QoS: qos, Retain: g.r.Intn(4) == 0, Topic: []string{"t", "t/u", "x"}[g.r.Intn(3)], Payload: pl}
}

func (g *rsGen) sub() rsOp {
	g.uid++
	n := 1 + g.r.Intn(3)
	ss := []rsSub{{fmt.Sprintf("#%d", g.uid), 0}}
	for i := 0; i < n; i++ {
		ss = append(ss, rsSub{rsTopics[g.r.Intn(len(rsTopics))], byte(g.r.Intn(3))})
	}
	return rsOp{Kind: 's', UID: g.uid, Subs: ss}
}

func (g *rsGen) unsub() rsOp {
	g.uid++
	n := 1 + g.r.Intn(2)
	ts := []string{fmt.Sprintf("#%d", g.uid)}
	for i := 0; i < n; i++ {
		ts = append(ts, rsTopics[g.r.Intn(len(rsTopics))])
	}
	return rsOp{Kind: 'u', UID: g.uid, Topics: ts}
}

// op draws one request; weights select the workload flavour.
func (g *rsGen) op(wq0, wq1, wq2, wsub, wunsub int) rsOp {
	x := g.r.Intn(wq0 + wq1 + wq2 + wsub + wunsub)
	switch {
	case x < wq0:
		return g.pub(0)
	case x < wq0+wq1:
		return g.pub(1)
	case x < wq0+wq1+wq2:
		return g.pub(2)
	case x < wq0+wq1+wq2+wsub:
		return g.sub()
	}
	return g.unsub()
}

func (g *rsGen) ops(n int, w [5]int) []rsOp {
	var out []rsOp
	for i := 0; i < n; i++ {
		out = append(out, g.op(w[0], w[1], w[2], w[3], w[4]))
	}
	return out
}

// rsPacketsBound is an upper bound on the packets a list of requests can put on one connection.
func rsPacketsBound(ops []rsOp) int {
	n := 0
	for _, o := range ops {
		if o.Kind == 'p' && o.QoS == 2 {
			n += 2
		} else {
			n++
		}
	}
	return n
}

// random scenario: 0-3 connections each ended by a fault on one of its packets (or by an idle cut),
// then a final fault-free connection; failed attempts and "mid" requests sprinkled in.
func (g *rsGen) scenario(w [5]int, silent, keepSession bool) *rsScenario {
	r := g.r
	sc := &rsScenario{MethodB: r.Intn(2) == 0, Always: r.Intn(4) == 0, CallerIDs: r.Intn(2) == 0}
	if r.Intn(3) == 0 {
		sc.CapQoS = 1 + r.Intn(2) // broker grants at most QoS 0 or 1
	}
	sc.CancelCtx = r.Intn(2) == 0
	sc.CallerDup = r.Intn(4) == 0
	sc.LateTimeout = r.Intn(3) == 0
	sc.LateAck = silent && r.Intn(3) == 0
	sc.HsTimeoutVia = r.Intn(3)
	if silent {
		sc.Timeout = true
	} else {
		sc.Timeout = r.Intn(3) == 0
	}
	nPh := 1 + r.Intn(4)
	conn := 0
	pendingBound := 0
	for pi := 0; pi < nPh; pi++ {
		var ph rsPhase
		last := pi == nPh-1
		for r.Intn(4) == 0 && len(ph.Attempts) < 2 {
			kinds := []int{rsDialFail, rsRefused, rsClosed, rsConnWriteFail}
			at := rsAttempt{Kind: kinds[r.Intn(len(kinds))]}
			if r.Intn(8) == 0 {
				at.Kind = rsNoAck // the broker reads CONNECT and stays silent: costs one handshake timeout
			}
			if r.Intn(2) == 0 {
				at.Mid = g.ops(1+r.Intn(2), w)
				pendingBound += rsPacketsBound(at.Mid)
			}
			if at.Kind == rsNoAck && len(at.Mid) > 1 && at.Mid[0].Kind == 'p' && at.Mid[0].QoS == 0 {
				// the model lets a connection that never gets its CONNACK take ONE write (its client is dead to
				// the model afterwards); a QoS 0 publish does not wait, so a second request would be written to
				// the still open transport as well: keep to what the model can express
				at.Mid = at.Mid[:1]
			}
			if at.Kind != rsDialFail {
				conn++
			}
			ph.Attempts = append(ph.Attempts, at)
		}
		acc := rsAttempt{Kind: rsAccept, SP: pi > 0 && (keepSession || r.Intn(3) > 0)}
		if r.Intn(3) == 0 {
			acc.Mid = g.ops(1+r.Intn(2), w)
			pendingBound += rsPacketsBound(acc.Mid)
		}
		ph.Attempts = append(ph.Attempts, acc)
		ph.Ops = g.ops(r.Intn(4), w)
		if pi == 0 && len(ph.Ops) == 0 {
			ph.Ops = g.ops(1+r.Intn(3), w)
		}
		bound := pendingBound + rsPacketsBound(ph.Ops) + 3
		if !last {
			ph.IdleCut = true // the connection ends here at the latest
			if r.Intn(6) != 0 {
				kinds := []int{fWriteFail, fLostAfter, fAckLost}
				sc.Faults = append(sc.Faults, rsFault{conn, r.Intn(bound), kinds[r.Intn(3)]})
			}
			if silent && r.Intn(2) == 0 {
				kinds := []int{fSilentReq, fSilentAck}
				sc.Faults = append(sc.Faults, rsFault{conn, r.Intn(bound), kinds[r.Intn(2)]})
				if r.Intn(2) == 0 { // a second silent drop on the same connection (same Retry pass)
					sc.Faults = append(sc.Faults, rsFault{conn, r.Intn(bound), kinds[r.Intn(2)]})
				}
			}
		}
		pendingBound = bound // everything may still be pending on the next connection
		sc.Phases = append(sc.Phases, ph)
		conn++
	}
	if !keepSession && r.Intn(5) == 0 {
		sc.CleanSession = true
		for pi := range sc.Phases {
			for ai := range sc.Phases[pi].Attempts {
				sc.Phases[pi].Attempts[ai].SP = false
			}
		}
	}
	return sc
}

// ---------- fixed workloads and exhaustive fault placement ----------

func rsP(uid int, qos byte) rsOp {
	return rsOp{Kind: 'p', UID: uid, QoS: qos, Topic: "t", Payload: []byte{byte(uid)}}
}
func rsS(uid int, subs ...rsSub) rsOp {
	return rsOp{Kind: 's', UID: uid, Subs: append([]rsSub{{fmt.Sprintf("#%d", uid), 0}}, subs...)}
}
func rsU(uid int, topics ...string) rsOp {
	return rsOp{Kind: 'u', UID: uid, Topics: append([]string{fmt.Sprintf("#%d", uid)}, topics...)}
}

type rsWorkload struct {
	Name string
	Ops  []rsOp
}

var rsWorkloads = []rsWorkload{
	{"q2", []rsOp{rsP(1, 2)}},
	{"q1 q2 q1", []rsOp{rsP(1, 1), rsP(2, 2), rsP(3, 1)}},
	{"q2 q2", []rsOp{rsP(1, 2), rsP(2, 2)}},
	{"q1 q1 q0 q2", []rsOp{rsP(1, 1), rsP(2, 1), rsP(3, 0), rsP(4, 2)}},
	{"sub pub unsub", []rsOp{rsS(1, rsSub{"a", 1}), rsP(2, 1), rsU(3, "a")}},
	{"sub a sub a unsub a", []rsOp{rsS(1, rsSub{"a", 1}), rsS(2, rsSub{"a", 1}), rsU(3, "a"), rsP(4, 1)}},
	{"sub ab unsub bb", []rsOp{rsS(1, rsSub{"a", 1}, rsSub{"b", 1}), rsU(2, "b", "b"), rsP(3, 1)}},
	{"sub b a0 a1 unsub b", []rsOp{rsS(1, rsSub{"b", 0}), rsS(2, rsSub{"a", 0}), rsS(3, rsSub{"a", 1}), rsU(4, "b"), rsP(5, 1)}},
	{"unsub sub q2", []rsOp{rsS(1, rsSub{"a", 0}), rsU(2, "a"), rsS(3, rsSub{"a", 2}), rsP(4, 2)}},
	{"sub a sub b unsub a sub c", []rsOp{rsS(1, rsSub{"a", 1}), rsS(2, rsSub{"b", 2}), rsU(3, "a"), rsS(4, rsSub{"c", 0})}},
}

// rsEnumerate: the workload is submitted on connection 0; every placement of up to `depth` faults
// (one per connection, on consecutive connections) of the three closing kinds; then a clean connection.
// split = how many requests are submitted before the first fault can hit (the rest is submitted in
// the same phase, i.e. possibly during the outage).
func rsEnumerate(w rsWorkload, depth int, methodB, sessLost, always bool, emit func(*rsScenario)) {
	bound := rsPacketsBound(w.Ops) + 2
	kinds := []int{fWriteFail, fLostAfter, fAckLost}
	var rec func(d int, faults []rsFault)
	rec = func(d int, faults []rsFault) {
		sc := &rsScenario{MethodB: methodB, Always: always, Note: "enumerated " + w.Name, CancelCtx: len(faults)%2 == 1}
		sc.Phases = append(sc.Phases, rsPhase{Attempts: []rsAttempt{{Kind: rsAccept}}, Ops: w.Ops, IdleCut: len(faults) > 0})
		for i := range faults {
			sc.Phases = append(sc.Phases, rsPhase{Attempts: []rsAttempt{{Kind: rsAccept, SP: !sessLost}}, IdleCut: i < len(faults)-1})
		}
		sc.Faults = append([]rsFault{}, faults...)
		emit(sc)
		if d == depth {
			return
		}
		for i := 0; i < bound; i++ {
			for _, f := range kinds {
				rec(d+1, append(append([]rsFault{}, faults...), rsFault{len(faults), i, f}))
			}
		}
	}
	rec(0, nil)
}

// ---------- regression corpus: the histories of DESIGN.md section 6 ----------

func rsCorpus() []*rsScenario {
	acc := func(sp bool, mid ...rsOp) rsAttempt { return rsAttempt{Kind: rsAccept, SP: sp, Mid: mid} }
	var out []*rsScenario
	// F3: QoS 2 cut at PUBLISH on conn 0 and at PUBCOMP on conn 1
	out = append(out, &rsScenario{Note: "F3 retry requeues only unprocessed entries", Phases: []rsPhase{
		{Attempts: []rsAttempt{acc(false)}, Ops: []rsOp{rsP(1, 2), rsP(2, 1)}, IdleCut: true},
		{Attempts: []rsAttempt{acc(true)}, IdleCut: true},
		{Attempts: []rsAttempt{acc(true)}}},
		Faults: []rsFault{{0, 0, fLostAfter}, {1, 1, fAckLost}}})
	// F15: PUBLISH ok, PUBREL ok (PUBCOMP lost), PUBREL write fails, reconnect
	out = append(out, &rsScenario{Note: "F15 PUBREL write failure retried with PUBREL", MethodB: false, Phases: []rsPhase{
		{Attempts: []rsAttempt{acc(false)}, Ops: []rsOp{rsP(1, 2)}, IdleCut: true},
		{Attempts: []rsAttempt{acc(true)}, IdleCut: true},
		{Attempts: []rsAttempt{acc(true)}}},
		Faults: []rsFault{{0, 1, fAckLost}, {1, 0, fWriteFail}}})
	// F5: Sub a ok, Pub m (ack lost), Unsub a queued behind, reconnect without session
	out = append(out, &rsScenario{Note: "F5 resubscribe ahead of pending requests", Phases: []rsPhase{
		{Attempts: []rsAttempt{acc(false)}, Ops: []rsOp{rsS(1, rsSub{"a", 1}), rsP(2, 1), rsU(3, "a")}, IdleCut: true},
		{Attempts: []rsAttempt{acc(false)}}},
		Faults: []rsFault{{0, 1, fAckLost}}})
	// F4: the three bookkeeping histories followed by a session-losing reconnect
	out = append(out, &rsScenario{Note: "F4a sub a, sub a, unsub a", Phases: []rsPhase{
		{Attempts: []rsAttempt{acc(false)}, Ops: []rsOp{rsS(1, rsSub{"a", 1}), rsS(2, rsSub{"a", 1}), rsU(3, "a")}, IdleCut: true},
		{Attempts: []rsAttempt{acc(false)}}}})
	out = append(out, &rsScenario{Note: "F4b unsub(b,b) on {a,b}", Phases: []rsPhase{
		{Attempts: []rsAttempt{acc(false)}, Ops: []rsOp{rsS(1, rsSub{"a", 1}, rsSub{"b", 1}), rsU(2, "b", "b")}, IdleCut: true},
		{Attempts: []rsAttempt{acc(false)}}}})
	out = append(out, &rsScenario{Note: "F4c changed QoS of a repeated filter", Phases: []rsPhase{
		{Attempts: []rsAttempt{acc(false)}, Ops: []rsOp{rsS(1, rsSub{"b", 0}), rsS(2, rsSub{"a", 0}), rsS(3, rsSub{"a", 1}), rsU(4, "b")}, IdleCut: true},
		{Attempts: []rsAttempt{acc(false)}}}})
	// an interrupted re-subscription stays ahead of the pending requests
	out = append(out, &rsScenario{Note: "interrupted re-subscription keeps its place ahead of pending requests", Phases: []rsPhase{
		{Attempts: []rsAttempt{acc(false)}, Ops: []rsOp{rsS(1, rsSub{"a", 1}), rsP(2, 1), rsU(3, "a")}, IdleCut: true},
		{Attempts: []rsAttempt{acc(false)}, IdleCut: true},
		{Attempts: []rsAttempt{acc(true)}}},
		Faults: []rsFault{{0, 1, fAckLost}, {1, 0, fAckLost}}})
	out = append(out, &rsScenario{Note: "interrupted re-subscription (second filter) keeps its place", Always: true, Phases: []rsPhase{
		{Attempts: []rsAttempt{acc(false)}, Ops: []rsOp{rsS(1, rsSub{"a", 1}), rsP(2, 2), rsU(3, "a"), rsS(4, rsSub{"b", 2})}, IdleCut: true},
		{Attempts: []rsAttempt{acc(true)}, IdleCut: true},
		{Attempts: []rsAttempt{acc(true)}}},
		Faults: []rsFault{{0, 2, fLostAfter}, {1, 1, fWriteFail}}})
	// a broker that grants less than requested: re-subscription still asks for the requested QoS
	out = append(out, &rsScenario{Note: "broker grants at most QoS 1; session lost; re-subscription asks for the requested QoS", CapQoS: 2, Phases: []rsPhase{
		{Attempts: []rsAttempt{acc(false)}, Ops: []rsOp{rsS(1, rsSub{"a", 2}, rsSub{"b", 1})}, IdleCut: true},
		{Attempts: []rsAttempt{acc(false)}}}})
	out = append(out, &rsScenario{Note: "broker grants QoS 0 only; AlwaysResubscribe", CapQoS: 1, Always: true, Phases: []rsPhase{
		{Attempts: []rsAttempt{acc(false)}, Ops: []rsOp{rsS(1, rsSub{"a", 2}), rsS(2, rsSub{"b", 1}, rsSub{"a", 1})}, IdleCut: true},
		{Attempts: []rsAttempt{acc(true)}}}})
	// F9: retransmission whose acknowledgement is silently dropped (ResponseTimeout configured)
	out = append(out, &rsScenario{Note: "F9 timeout applies to retransmissions", Timeout: true, Phases: []rsPhase{
		{Attempts: []rsAttempt{acc(false)}, Ops: []rsOp{rsP(1, 1)}, IdleCut: true},
		{Attempts: []rsAttempt{acc(true)}, IdleCut: true},
		{Attempts: []rsAttempt{acc(true)}}},
		Faults: []rsFault{{0, 0, fAckLost}, {1, 0, fSilentAck}}})
	// two requests abandoned in one Retry pass: a deferred re-subscription times out, then a retry handle
	out = append(out, &rsScenario{Note: "two timeouts in one Retry pass: the handle queued by the deferred entry survives", Timeout: true, CancelCtx: true, Phases: []rsPhase{
		{Attempts: []rsAttempt{acc(false)}, Ops: []rsOp{rsS(1, rsSub{"a", 1}), rsP(2, 1)}},
		{Attempts: []rsAttempt{acc(false)}},
		{Attempts: []rsAttempt{acc(true)}},
		{Attempts: []rsAttempt{acc(true)}}},
		Faults: []rsFault{{0, 1, fSilentAck}, {1, 0, fSilentAck}, {2, 1, fSilentAck}, {2, 2, fSilentAck}}})
	// requests before the first connection, refused CONNACK, dial failure, requests during the outage
	out = append(out, &rsScenario{Note: "before first connection, refused, dial failure, outage requests", MethodB: true, Phases: []rsPhase{
		{Attempts: []rsAttempt{{Kind: rsDialFail, Mid: []rsOp{rsP(1, 1)}}, {Kind: rsRefused, Mid: []rsOp{rsS(2, rsSub{"a", 1})}}, acc(false, rsP(3, 2))},
			Ops: []rsOp{rsP(4, 1), rsP(5, 0), rsU(6, "a"), rsP(7, 2)}, IdleCut: true},
		{Attempts: []rsAttempt{{Kind: rsClosed}, {Kind: rsDialFail, Mid: []rsOp{rsP(8, 1)}}, acc(true)}}},
		Faults: []rsFault{{1, 3, fLostAfter}}})
	// clean session: a QoS 2 exchange interrupted after PUBREL was written is continued with PUBREL (never PUBLISH
	// again) also when the next connection starts a clean session
	for i, f := range []rsFault{{0, 1, fAckLost}, {0, 1, fLostAfter}, {0, 1, fWriteFail}, {0, 0, fAckLost}} {
		out = append(out, &rsScenario{Note: "QoS 2 interrupted, next connection with CleanSession", CleanSession: true, MethodB: i%2 == 1, Phases: []rsPhase{
			{Attempts: []rsAttempt{acc(false)}, Ops: []rsOp{rsP(1, 2), rsP(2, 1)}, IdleCut: true},
			{Attempts: []rsAttempt{acc(false)}}},
			Faults: []rsFault{f}})
	}
	// the transport dies between dial and CONNECT (the CONNECT write fails), on the first connection and on a
	// reconnection, with requests pending
	out = append(out, &rsScenario{Note: "CONNECT write fails on the first connection and on a reconnection", Phases: []rsPhase{
		{Attempts: []rsAttempt{{Kind: rsConnWriteFail, Mid: []rsOp{rsP(1, 1)}}, acc(false)}, Ops: []rsOp{rsP(2, 2), rsS(3, rsSub{"a", 1})}, IdleCut: true},
		{Attempts: []rsAttempt{{Kind: rsConnWriteFail}, {Kind: rsDialFail, Mid: []rsOp{rsP(4, 1)}}, {Kind: rsConnWriteFail}, acc(true)}, Ops: []rsOp{rsU(5, "a")}}},
		Faults: []rsFault{{1, 1, fAckLost}}})
	// CONNACK never sent: the broker reads CONNECT and stays silent, with requests pending; the deadline of the
	// CONNACK wait comes from WithTimeout, from WithPingInterval alone, or from the CONNECT keep-alive alone
	for via := 0; via < 3; via++ {
		out = append(out, &rsScenario{Note: fmt.Sprintf("CONNACK never sent with requests pending (deadline configured via %d)", via),
			HsTimeoutVia: via, MethodB: via == 1, Phases: []rsPhase{
				{Attempts: []rsAttempt{acc(false)}, Ops: []rsOp{rsP(1, 1), rsP(2, 2), rsS(3, rsSub{"a", 1})}, IdleCut: true},
				{Attempts: []rsAttempt{{Kind: rsNoAck, Mid: []rsOp{rsP(4, 1)}}, acc(true)}, Ops: []rsOp{rsU(5, "a")}}},
			Faults: []rsFault{{0, 0, fAckLost}}})
	}
	out = append(out, &rsScenario{Note: "CONNACK never sent on the first two connections, requests before and meanwhile", HsTimeoutVia: 0, Phases: []rsPhase{
		{Attempts: []rsAttempt{{Kind: rsNoAck, Mid: []rsOp{rsP(1, 2)}}, {Kind: rsNoAck, Mid: []rsOp{rsS(2, rsSub{"a", 2})}}, acc(false)},
			Ops: []rsOp{rsP(3, 1)}}}})
	// a Retry pass in which a deferred first transmission (submitted during the outage) times out while the
	// connection stays open: the pass goes on with the next entry on that connection, the abandoned one is
	// retransmitted on the NEXT connection, never behind a later message on the same one
	for i, q := range []byte{1, 2} {
		out = append(out, &rsScenario{Note: "deferred first transmission times out in the middle of a Retry pass", Timeout: true, MethodB: i == 1, Phases: []rsPhase{
			{Attempts: []rsAttempt{acc(false)}, Ops: []rsOp{rsP(1, 1)}, IdleCut: true},
			{Attempts: []rsAttempt{{Kind: rsDialFail, Mid: []rsOp{rsP(2, q), rsP(3, 1), rsP(4, 1)}}, acc(true)}, IdleCut: true},
			{Attempts: []rsAttempt{acc(true)}}},
			Faults: []rsFault{{0, 0, fAckLost}, {1, 1, fSilentAck}}})
	}
	// QoS 2 with a response timeout: PUBREC / PUBCOMP withheld on a connection that stays open; the client gives the
	// connection up itself and must come back (exactly one onward delivery, session kept)
	for i, fs := range [][]rsFault{{{0, 0, fSilentAck}}, {{0, 1, fSilentAck}}, {{0, 0, fSilentReq}}, {{0, 0, fSilentAck}, {1, 1, fSilentAck}}} {
		phs := []rsPhase{{Attempts: []rsAttempt{acc(false)}, Ops: []rsOp{rsP(1, 2)}, IdleCut: true}}
		for k := 1; k < len(fs); k++ {
			phs = append(phs, rsPhase{Attempts: []rsAttempt{acc(true)}, IdleCut: true})
		}
		phs = append(phs, rsPhase{Attempts: []rsAttempt{acc(true)}})
		out = append(out, &rsScenario{Note: "QoS 2 acknowledgement withheld, response timeout, own close, reconnect", Timeout: true, MethodB: i%2 == 0,
			Phases: phs, Faults: fs})
	}
	// an acknowledgement that arrives after the response timeout, on the still open connection
	for i, rq := range []struct {
		op  rsOp
		idx int
	}{{rsP(1, 2), 0}, {rsP(1, 2), 1}, {rsP(1, 1), 0}, {rsS(1, rsSub{"a", 1}), 0}, {rsP(1, 2), 0}, {rsP(1, 2), 1}} {
		out = append(out, &rsScenario{Note: "acknowledgement arrives late (after the response timeout, before the own close)", Timeout: true, LateAck: true, MethodB: i >= 4, Phases: []rsPhase{
			{Attempts: []rsAttempt{acc(false)}, Ops: []rsOp{rq.op, rsP(2, 1)}, IdleCut: true},
			{Attempts: []rsAttempt{acc(true)}}},
			Faults: []rsFault{{0, rq.idx, fSilentAck}}})
	}
	// the response timeout is assigned to the running client (after the first connection is up)
	for i, op := range []rsOp{rsP(1, 1), rsP(1, 2), rsS(1, rsSub{"a", 1}), rsU(1, "a")} {
		out = append(out, &rsScenario{Note: "ResponseTimeout configured on the running client, then an acknowledgement is withheld",
			Timeout: true, LateTimeout: true, MethodB: i%2 == 1, Phases: []rsPhase{
				{Attempts: []rsAttempt{acc(false)}, Ops: []rsOp{op}},
				{Attempts: []rsAttempt{acc(true)}}},
			Faults: []rsFault{{0, 0, fSilentAck}}})
	}
	return out
}

// ---------- the common runner ----------

type rsCase struct {
	sc  *rsScenario
	obs rsObs
}

func rsRunAll(scs []*rsScenario, workers int) []rsCase {
	out := make([]rsCase, len(scs))
	var wg sync.WaitGroup
	ch := make(chan int, len(scs))
	for i := range scs {
		ch <- i
	}
	close(ch)
	for w := 0; w < workers; w++ {
		wg.Add(1)
		go func() {
			defer wg.Done()
			for i := range ch {
				var o rsObs
				for try := 0; try < 4; try++ {
					o = rsRun(scs[i])
					if o.IDClash {
						continue // two messages drew the same random identifier: not a verdict, run again
					}
					if scs[i].usesNoAck() && try < 2 && o.Stuck != "" {
						continue // a handshake that missed its short deadline on an overloaded machine? run again
					}
					if scs[i].Timeout && try < 3 && rsSuspectTiming(scs[i], &o) {
						continue // a response timeout that no silent fault explains: scheduling delay? run again
					}
					break
				}
				out[i] = rsCase{scs[i].resolve(&o), o}
			}
		}()
	}
	wg.Wait()
	return out
}

// rsSuspectTiming: more timeouts reported than silent faults fired (possible on an overloaded machine).
func rsSuspectTiming(sc *rsScenario, o *rsObs) bool {
	n := 0
	for _, e := range o.Errs {
		if e == "ETimeout" {
			n++
		}
	}
	fired := 0
	for _, w := range o.Wire {
		if strings.HasSuffix(w.Desc, "FSilentReq") || strings.HasSuffix(w.Desc, "FSilentAck") {
			fired++
		}
	}
	return n > fired
}

// rsStats: Stats() with a limit (a client whose task goroutine deadlocks while holding the statistics lock
// must not hang the driver). ok=false: Stats did not return.
func rsStats(cli mqtt.ReconnectClient) (mqtt.RetryStats, bool) {
	ch := make(chan mqtt.RetryStats, 1)
	go func() { ch <- cli.Stats() }()
	select {
	case st := <-ch:
		return st, true
	case <-time.After(rsWaitDur()):
		return mqtt.RetryStats{}, false
	}
}

// rsExtra: additional families (written directly into the cases file) per property.
var rsExtra = map[string]func(cf *casesFile, m *meta) int{}

type rsFamily struct {
	name string
	scs  []*rsScenario
}

// rsPredOnly: families (by name) whose scenarios leave the model's fault alphabet; only V_<name> is computed.
var rsPredOnly = map[string]bool{}

// rsFamPred: families (by name) judged by another predicate than the property's main one.
var rsFamPred = map[string]string{}

// rsRunProperty runs the families for one property and writes cases_<pid>.v / meta.
func rsRunProperty(cfg *runCfg, pid string, pred string, fams []rsFamily, rule string, nontrivial func(*rsScenario, *rsObs) bool) error {
	cf := newCasesFile(pid, "RetryCore", "RetrySys", "CheckRetry")
	m := &meta{Property: pid, Distribution: map[string]interface{}{}, Families: map[string][]interface{}{}}
	workers := 12
	dist := map[string]int{}
	total, nt := 0, 0
	seen := map[string]bool{}
	for _, fam := range fams {
		cases := rsRunAll(fam.scs, workers)
		var items []string
		for i := range cases {
			c := &cases[i]
			items = append(items, cTuple(c.sc.coq(), c.obs.coq()))
			d := map[string]interface{}{"scenario": c.sc.describe(), "observed": c.obs.describe()}
			m.Families[fam.name] = append(m.Families[fam.name], d)
			key := c.sc.coq()
			if !seen[key] {
				seen[key] = true
				if nontrivial(c.sc, &c.obs) {
					nt++
					if len(m.Samples) < 4 {
						m.Samples = append(m.Samples, d)
					}
				}
			}
			for _, f := range c.sc.Faults {
				dist["fault_"+rsFaultName[f.Kind]]++
			}
			for _, p := range c.sc.Phases {
				dist["connections"]++
				for _, a := range p.Attempts {
					dist["attempt_"+[]string{"dialfail", "accept", "refused", "closed", "noack", "noack", "connect_write_fails"}[a.Kind]]++
					dist["requests_while_connecting"] += len(a.Mid)
				}
				for _, o := range p.Ops {
					dist["op_"+string(o.Kind)+fmt.Sprint(o.QoS)]++
				}
			}
			if c.sc.MethodB {
				dist["method_B"]++
			} else {
				dist["method_A"]++
			}
			if c.sc.Timeout {
				dist["response_timeout_on"]++
			}
			if c.obs.Stuck != "" {
				dist["stuck"]++
			}
			dist["wire_packets"] += len(c.obs.Wire)
		}
		total += len(cases)
		cf.def("cases_"+fam.name, "list (scenario * obs)", cList(items))
		fp := pred
		if p2, ok := rsFamPred[fam.name]; ok {
			fp = p2
		}
		cf.result("V_"+fam.name, fmt.Sprintf("failing %s cases_%s", fp, fam.name))
		if !rsPredOnly[fam.name] {
			cf.result("M_"+fam.name, fmt.Sprintf("failing model_ok cases_%s", fam.name))
		}
		m.Distribution["family_"+fam.name] = len(cases)
	}
	if extra, ok := rsExtra[pid]; ok {
		n := extra(cf, m)
		total += n
		nt += n
		m.Distribution["family_fine"] = n
	}
	for k, v := range dist {
		m.Distribution[k] = v
	}
	m.Evaluations = total
	m.DistinctNontrivial = nt
	m.Rule = rule
	if err := cf.write(cfg.outDir); err != nil {
		return err
	}
	return m.write(cfg.outDir)
}

func rsRandomFamily(seed int64, n int, w [5]int, silent, keepSession bool) []*rsScenario {
	g := &rsGen{r: rand.New(rand.NewSource(seed))}
	var out []*rsScenario
	for i := 0; i < n; i++ {
		g.uid = 0
		out = append(out, g.scenario(w, silent, keepSession))
	}
	return out
}
