package main

func init() {
	register("C03", runC03)
	rsExtra["C03"] = rsFineFamilyC03
}

func runC03(cfg *runCfg) error {
	n := 350
	depth := 1
	if cfg.tier == "thorough" {
		n, depth = 3000, 2
	}
	if cfg.tier == "search" {
		n = 1200
	}
	var enum []*rsScenario
	for wi, w := range rsWorkloads {
		if cfg.tier == "quick" && wi%2 == 0 {
			continue
		}
		_ = wi
		for _, c := range [][3]bool{{false, false, false}, {true, true, false}} {
			d := depth
			if cfg.tier == "thorough" && rsPacketsBound(w.Ops) <= 3 {
				d = 3 // every placement of three consecutive faults for the small workloads
			}
			rsEnumerate(w, d, c[0], c[1], c[2], func(sc *rsScenario) { enum = append(enum, sc) })
		}
	}
	fams := []rsFamily{
		{"corpus", rsCorpus()},
		{"enum", enum},
		{"random", rsRandomFamily(cfg.seed, n, [5]int{2, 3, 3, 1, 1}, false, false)},
		{"silent", rsRandomFamily(cfg.seed+5, n/5, [5]int{1, 4, 3, 1, 0}, true, false)},
	}
	rule := "fixed workloads x every placement of closing faults; random scenarios of 1-4 connections from one submitting goroutine with requests before/while connecting/connected/during outages, refused and failed connects (family silent: with acknowledgements withheld on open connections and a response timeout); every connection of the run is judged: PUBLISH packets of different messages in submission order on each connection, first transmissions in submission order, first deliveries of QoS>=1 in submission order; non-trivial = distinct scenario with >= 2 publishes and at least one fault"
	return rsRunProperty(cfg, "C03", "c03_ok'", fams, rule, func(sc *rsScenario, o *rsObs) bool {
		return len(sc.Faults) > 0 && len(o.Wire) > 2
	})
}
