package main

func init() { register("C02", runC02) }

func runC02(cfg *runCfg) error {
	n := 350
	depth := 1
	if cfg.tier == "thorough" {
		n, depth = 3000, 2
	}
	if cfg.tier == "search" {
		n = 1200
	}
	var enum []*rsScenario
	for wi, w := range rsWorkloads {
		if wi > 3 && wi != 8 {
			continue
		}
		_ = wi
		for _, c := range [][3]bool{{false, false, false}, {true, false, false}} {
			d := depth
			if cfg.tier == "thorough" && rsPacketsBound(w.Ops) <= 3 {
				d = 3 // every placement of three consecutive faults for the small workloads
			}
			rsEnumerate(w, d, c[0], c[1], c[2], func(sc *rsScenario) { enum = append(enum, sc) })
		}
	}
	fams := []rsFamily{
		{"corpus", rsCorpus()},
		{"enum", enum},
		{"random", rsRandomFamily(cfg.seed, n, [5]int{1, 2, 5, 1, 1}, false, true)},
	}
	rule := "corpus of the section-6 histories (F3, F15 first); QoS2 workloads x every placement of closing faults on every packet of PUBLISH/PUBREC/PUBREL/PUBCOMP, receiver methods A and B, session kept; random QoS2-heavy scenarios of 1-4 connections (session kept) incl. refused/closed CONNECT and dial failures; judged: delivered exactly once at the end and nothing written for a message after its PUBCOMP arrived; non-trivial = distinct scenario with a QoS 2 publish and at least one fault"
	return rsRunProperty(cfg, "C02", "c02_ok", fams, rule, func(sc *rsScenario, o *rsObs) bool {
		q2 := false
		for _, p := range sc.Phases {
			for _, a := range p.Attempts {
				for _, op := range a.Mid {
					q2 = q2 || (op.Kind == 'p' && op.QoS == 2)
				}
			}
			for _, op := range p.Ops {
				q2 = q2 || (op.Kind == 'p' && op.QoS == 2)
			}
		}
		return q2 && len(sc.Faults) > 0
	})
}
