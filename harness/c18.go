package main

import "strings"

func init() {
	register("C18", runC18)
	rsExtra["C18"] = rsFineFamily
}

func runC18(cfg *runCfg) error {
	n := 120
	depth := 1
	if cfg.tier == "thorough" {
		n, depth = 1200, 2
	}
	if cfg.tier == "search" {
		n = 400
	}
	var enum []*rsScenario
	for wi, w := range rsWorkloads {
		if true {
			continue
		}
		_ = wi
		for _, c := range [][3]bool{{false, false, false}} {
			rsEnumerate(w, depth, c[0], c[1], c[2], func(sc *rsScenario) { enum = append(enum, sc) })
		}
	}
	// the silent broker has also stopped reading: another writer on the connection (the reader goroutine's PUBACK
	// for an inbound message) is stuck inside Transport.Write when the response timeout fires
	var stall, noerr []*rsScenario
	for i, sc := range rsC18Enum() {
		if !sc.Timeout {
			continue
		}
		if i%3 == 0 || cfg.tier != "quick" {
			s2 := *sc
			s2.StallWriter = true
			s2.Note += " (broker stopped reading)"
			stall = append(stall, &s2)
		}
		if i%3 == 1 || cfg.tier != "quick" {
			s3 := *sc
			s3.NoOnError = true
			s3.Note += " (no OnError callback installed)"
			noerr = append(noerr, &s3)
		}
	}
	for _, sc := range rsRandomFamily(cfg.seed+9, n/3, [5]int{1, 3, 3, 2, 1}, true, false) {
		sc.NoOnError = true
		noerr = append(noerr, sc)
	}
	rsPredOnly["noerr"] = true
	rsFamPred["noerr"] = "c18_ok_noerr"
	fams := []rsFamily{
		{"corpus", rsCorpus()},
		{"enum", append(enum, rsC18Enum()...)},
		{"random", rsRandomFamily(cfg.seed, n, [5]int{1, 3, 3, 2, 1}, true, false)},
		{"stall", stall},
		{"noerr", noerr},
	}
	rule := "the F9 history; random scenarios with ResponseTimeout configured in which acknowledgements (or requests) are silently dropped on any connection, for first transmissions, deferred requests and retransmissions, QoS1, both QoS2 phases, subscribe, unsubscribe, combined with closing faults; judged: never stuck, one RequestTimeoutError through OnError per silent drop, every request acknowledged at the end; family stall: the same while the broker has also stopped reading (the reader goroutine's PUBACK for an inbound message is stuck in Transport.Write when the timeout fires); family noerr (predicate only, without the 'reported' clause): the same with no OnError callback installed; non-trivial = distinct scenario in which a silent fault fired"
	return rsRunProperty(cfg, "C18", "c18_ok'", fams, rule, func(sc *rsScenario, o *rsObs) bool {
		for _, w := range o.Wire {
			if strings.HasSuffix(w.Desc, "FSilentReq") || strings.HasSuffix(w.Desc, "FSilentAck") {
				return true
			}
		}
		return false
	})
}

// rsC18Enum: every request kind whose acknowledgement (or the request itself) is silently dropped as a
// first transmission, as a retransmission and as a deferred first transmission. The connection on
// which the drop happens is NOT cut by the broker: only the client's reaction (close, redial) lets the
// scenario continue, otherwise the driver records "stuck". Plus a few without ResponseTimeout (hang).
func rsC18Enum() []*rsScenario {
	acc := func(sp bool) rsAttempt { return rsAttempt{Kind: rsAccept, SP: sp} }
	type reqk struct {
		op  rsOp
		idx int // packet of the request to silence (0 = first packet, 1 = PUBREL)
	}
	reqs := []reqk{
		{rsP(1, 1), 0}, {rsP(1, 2), 0}, {rsP(1, 2), 1},
		{rsS(1, rsSub{"a", 1}), 0}, {rsU(1, "a"), 0},
	}
	var out []*rsScenario
	for _, rq := range reqs {
		for _, sk := range []int{fSilentReq, fSilentAck} {
			for _, mb := range []bool{false, true} {
				// first transmission
				out = append(out, &rsScenario{Note: "silent drop on a first transmission", Timeout: true, MethodB: mb, Phases: []rsPhase{
					{Attempts: []rsAttempt{acc(false)}, Ops: []rsOp{rq.op}},
					{Attempts: []rsAttempt{acc(true)}}},
					Faults: []rsFault{{0, rq.idx, sk}}})
				// retransmission: cut first, silence on the next connection
				cut := fAckLost
				ridx := 0
				if rq.idx == 1 {
					ridx = 0 // after PUBREC the retransmission starts with PUBREL
				}
				out = append(out, &rsScenario{Note: "silent drop on a retransmission", Timeout: true, MethodB: mb, Phases: []rsPhase{
					{Attempts: []rsAttempt{acc(false)}, Ops: []rsOp{rq.op}, IdleCut: true},
					{Attempts: []rsAttempt{acc(true)}},
					{Attempts: []rsAttempt{acc(true)}}},
					Faults: []rsFault{{0, rq.idx, cut}, {1, ridx, sk}}})
				// second retransmission: two cuts, silence on the third connection
				out = append(out, &rsScenario{Note: "silent drop on a second retransmission", Timeout: true, MethodB: mb, Phases: []rsPhase{
					{Attempts: []rsAttempt{acc(false)}, Ops: []rsOp{rq.op}, IdleCut: true},
					{Attempts: []rsAttempt{acc(true)}, IdleCut: true},
					{Attempts: []rsAttempt{acc(true)}},
					{Attempts: []rsAttempt{acc(true)}}},
					Faults: []rsFault{{0, rq.idx, cut}, {1, 0, fLostAfter}, {2, 0, sk}}})
				// ... and after a retransmission that itself timed out
				out = append(out, &rsScenario{Note: "silent drops on two consecutive retransmissions", Timeout: true, MethodB: mb, Phases: []rsPhase{
					{Attempts: []rsAttempt{acc(false)}, Ops: []rsOp{rq.op}, IdleCut: true},
					{Attempts: []rsAttempt{acc(true)}},
					{Attempts: []rsAttempt{acc(true)}},
					{Attempts: []rsAttempt{acc(true)}}},
					Faults: []rsFault{{0, rq.idx, cut}, {1, 0, sk}, {2, 0, sk}}})
				// deferred first transmission behind a failed request
				op2 := rq.op
				op2.UID = 2
				if op2.Kind == 'p' {
					op2.Payload = []byte{2}
				} else if op2.Kind == 's' {
					op2.Subs = append([]rsSub{{"#2", 0}}, op2.Subs[1:]...)
				} else {
					op2.Topics = append([]string{"#2"}, op2.Topics[1:]...)
				}
				out = append(out, &rsScenario{Note: "silent drop on a deferred first transmission", Timeout: true, MethodB: mb, Phases: []rsPhase{
					{Attempts: []rsAttempt{acc(false)}, Ops: []rsOp{rsP(1, 1), op2}, IdleCut: true},
					{Attempts: []rsAttempt{acc(true)}},
					{Attempts: []rsAttempt{acc(true)}}},
					Faults: []rsFault{{0, 0, fWriteFail}, {1, 1 + rq.idx, sk}}})
			}
		}
	}
	// silent drop on a re-subscription (session lost / AlwaysResubscribe): timeout, close, redial, re-subscribed later
	for _, sk := range []int{fSilentReq, fSilentAck} {
		for _, always := range []bool{false, true} {
			for idx := 0; idx < 3; idx++ {
				out = append(out, &rsScenario{Note: "silent drop on a re-subscription", Timeout: true, Always: always, CancelCtx: idx%2 == 0, Phases: []rsPhase{
					{Attempts: []rsAttempt{acc(false)}, Ops: []rsOp{rsS(1, rsSub{"a", 1}, rsSub{"b", 2})}, IdleCut: true},
					{Attempts: []rsAttempt{acc(always)}},
					{Attempts: []rsAttempt{acc(true)}}},
					Faults: []rsFault{{1, idx, sk}}})
			}
		}
	}
	// no ResponseTimeout: the task goroutine waits for ever (model: w_hung)
	for _, rq := range reqs[:3] {
		out = append(out, &rsScenario{Note: "silent drop without ResponseTimeout: hangs", Timeout: false, Phases: []rsPhase{
			{Attempts: []rsAttempt{acc(false)}, Ops: []rsOp{rq.op}}},
			Faults: []rsFault{{0, rq.idx, fSilentAck}}})
	}
	return out
}
