package main

func init() { register("C18", runC18) }

func runC18(cfg *runCfg) error {
	n := 120
	depth := 1
	if cfg.tier == "thorough" {
		n, depth = 1200, 2
	}
	if cfg.tier == "search" {
		n = 400
	}
	var enum []*rsScenario
	for wi, w := range rsWorkloads {
		if true {
			continue
		}
		_ = wi
		for _, c := range [][3]bool{{false, false, false}} {
			rsEnumerate(w, depth, c[0], c[1], c[2], func(sc *rsScenario) { enum = append(enum, sc) })
		}
	}
	fams := []rsFamily{
		{"corpus", rsCorpus()},
		{"enum", enum},
		{"random", rsRandomFamily(cfg.seed, n, [5]int{1, 3, 3, 2, 1}, true, false)},
	}
	rule := "the F9 history; random scenarios with ResponseTimeout configured in which acknowledgements (or requests) are silently dropped on any connection, for first transmissions, deferred requests and retransmissions, QoS1, both QoS2 phases, subscribe, unsubscribe, combined with closing faults; judged: never stuck, one RequestTimeoutError through OnError per silent drop, every request acknowledged at the end; non-trivial = distinct scenario in which a silent fault fired"
	return rsRunProperty(cfg, "C18", "c18_ok", fams, rule, func(sc *rsScenario, o *rsObs) bool {
		for _, w := range o.Wire {
			if len(w.Desc) > 7 && (w.Desc[len(w.Desc)-7:] == "ilentRe" || w.Desc[len(w.Desc)-10:] == "FSilentAck" || w.Desc[len(w.Desc)-10:] == "FSilentReq") {
				return true
			}
		}
		return false
	})
}
