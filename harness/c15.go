package main

// C15 — packet identifiers are non-zero and unique among outstanding requests.
//
// A real BaseClient over memConn; the scripted peer reads the identifier of every request off
// the wire, withholds or sends the acknowledgements as the scenario says, and the observed
// histories are judged inside Coq (CheckC15.v): V_* = property predicate false on what the
// implementation did, M_* = model (Ids.v) differs from the implementation.
//
// Families
//   seq    one caller: requests (QoS0/1/2 publish with or without a caller-provided identifier,
//          subscribe, unsubscribe) interleaved with acknowledgements; start counters at the
//          16-bit and 32-bit wrap, random, and the library's own initID value
//   conc   1-16 callers in parallel, every request stays outstanding until all are issued
//   bulk   thousands of goroutines released by one barrier (contention on the counter)
//   cycle  one request never acknowledged + ~70,000 sequential QoS1 publishes: a full cycle of
//          the identifier space; reproduces finding F13 (known), anything earlier is a violation
//
// All synchronisation is by channels; every wait has a generous timeout whose expiry is recorded.

import (
	"context"
	"fmt"
	"math/rand"
	"sort"
	"strings"
	"sync"
	"sync/atomic"
	"time"

	mqtt "github.com/at-wat/mqtt-go"
)

func init() { register("C15", runC15) }

const c15Wait = 30 * time.Second // expires only when something is really stuck

// Once a wait has expired the verdict is settled (every expiry is reported); later waits are short
// and after a few expiries the remaining scenarios are skipped, so that a broken tree is reported
// in a minute or two instead of half an hour.
var c15Expired int32

const c15MaxExpired = 4

func c15WaitDur() time.Duration {
	if atomic.LoadInt32(&c15Expired) > 0 {
		return 3 * time.Second
	}
	return c15Wait
}

func c15GiveUp() bool { return atomic.LoadInt32(&c15Expired) >= c15MaxExpired }

// ---------- requests ----------

type c15Req struct {
	Kind  byte // 'p' publish, 's' subscribe, 'u' unsubscribe
	QoS   byte
	Given uint16
}

func (r c15Req) coq() string {
	switch r.Kind {
	case 'p':
		return fmt.Sprintf("RPub %d %d", r.QoS, r.Given)
	case 's':
		return "RSub"
	}
	return "RUnsub"
}

func (r c15Req) desc() string {
	switch r.Kind {
	case 'p':
		if r.Given != 0 {
			return fmt.Sprintf("publish(q%d,id=%d)", r.QoS, r.Given)
		}
		return fmt.Sprintf("publish(q%d)", r.QoS)
	case 's':
		return "subscribe"
	}
	return "unsubscribe"
}

func (r c15Req) auto() bool    { return r.Kind != 'p' || r.Given == 0 }
func (r c15Req) tracked() bool { return r.Kind != 'p' || r.QoS != 0 }

// c15Nth is the k-th identifier (k = 1, 2, ...; k <= 0 counts backwards) after counter value s in
// the cyclic order 1..65535. It is used only to CHOOSE inputs (caller-provided identifiers away
// from the ones in use) and to PROPOSE schedules; nothing is judged with it.
func c15Nth(s uint32, k int) uint16 {
	v := (int(uint16(s)) + k - 1) % 65535
	if v < 0 {
		v += 65535
	}
	return uint16(v + 1)
}

// c15Pos: position (0-based) of identifier id in the sequence chosen after counter value s.
func c15Pos(s uint32, id uint16) int {
	v := (int(id) - 1 - int(uint16(s))%65535) % 65535
	if v < 0 {
		v += 65535
	}
	return v
}

// ---------- a connected client with a scripted peer ----------

type c15Rec struct {
	caller, idx int
	req         c15Req
	tag         string
	id          uint16
	seen        bool
	ord         int // ordinal in wire order
	wrote       chan struct{}
	done        chan error
	msg         *mqtt.Message
	finished    bool
	err         error
	cancel      context.CancelFunc
}

type c15World struct {
	s       *session
	mu      sync.Mutex
	byTag   map[string]*c15Rec
	order   []*c15Rec
	anomaly []string
	// cycle mode: every PUBLISH after the first is acknowledged at once, identifiers are logged
	cycle    bool
	cycleIDs []uint16
	cycleHit chan struct{} // closed when the first (blocked) request is on the wire
	sink     bool          // the peer ignores everything (family wrapc, path B)
	syncCh   chan string   // topics of inbound "sync/..." messages as the handler sees them
	syncN    int
	inject   []c15In // inbound packets the peer throws in between the requests (family conc)
}

// c15In: a packet from the broker carrying identifier ID: PUBLISH with QoS Q (0, 1, 2) or, Q = 3, PUBREL.
// The identifiers of the two directions are independent: whatever ID is, the client's own
// identifiers must not be affected.
type c15In struct {
	Q  byte
	ID uint16
}

func (in c15In) coq(ctor string) string { return fmt.Sprintf("%s %d %d", ctor, in.Q, in.ID) }
func (in c15In) desc() string {
	if in.Q == 3 {
		return fmt.Sprintf("inbound PUBREL(id=%d)", in.ID)
	}
	return fmt.Sprintf("inbound PUBLISH(q%d,id=%d)", in.Q, in.ID)
}
func (in c15In) bytes() []byte {
	if in.Q == 3 {
		return encID(0x62, in.ID)
	}
	return encPublish(inMsg{Topic: []byte("in"), ID: in.ID, QoS: in.Q, Payload: []byte{7}})
}

// handleInbound installs the handler that makes inbound traffic observable: a QoS 0 message on
// "sync/<n>" is the marker the scenario waits for (the reader handles packets in order, so everything
// sent before the marker has been processed when the handler sees it).
func (w *c15World) handleInbound() {
	w.syncCh = make(chan string, 64)
	w.s.cli.Handle(mqtt.HandlerFunc(func(m *mqtt.Message) {
		if strings.HasPrefix(m.Topic, "sync/") {
			select {
			case w.syncCh <- m.Topic:
			default:
			}
		}
	}))
}

// inbound delivers the packet to the client and waits until the client's reader is past it.
func (w *c15World) inbound(in c15In) bool {
	w.syncN++
	topic := fmt.Sprintf("sync/%d", w.syncN)
	w.s.conn.send(append(in.bytes(), encPublish(inMsg{Topic: []byte(topic), QoS: 0, Payload: []byte{1}})...))
	deadline := time.After(c15WaitDur())
	for {
		select {
		case t := <-w.syncCh:
			if t == topic {
				return true
			}
		case <-deadline:
			atomic.AddInt32(&c15Expired, 1)
			return false
		}
	}
}

func c15Varint(b []byte) (n, used int) {
	mul := 1
	for i := 0; i < len(b) && i < 4; i++ {
		n += int(b[i]&0x7F) * mul
		mul *= 128
		if b[i]&0x80 == 0 {
			return n, i + 1
		}
	}
	return n, 4
}

func (w *c15World) note(s string) {
	w.mu.Lock()
	if len(w.anomaly) < 20 {
		w.anomaly = append(w.anomaly, s)
	}
	w.mu.Unlock()
}

// onPkt runs on the writer's goroutine (under the client's write lock): it never blocks.
func (w *c15World) onPkt(s *session, pkt []byte) {
	if w.sink {
		return
	}
	typ := pkt[0] >> 4
	_, used := c15Varint(pkt[1:])
	body := pkt[1+used:]
	switch typ {
	case 3: // PUBLISH
		qos := (pkt[0] >> 1) & 3
		if len(body) < 2 {
			w.note("short PUBLISH")
			return
		}
		tl := int(body[0])<<8 | int(body[1])
		if len(body) < 2+tl {
			w.note("short PUBLISH topic")
			return
		}
		topic := string(body[2 : 2+tl])
		var id uint16
		if qos > 0 {
			if len(body) < 4+tl {
				w.note("PUBLISH without identifier")
				return
			}
			id = uint16(body[2+tl])<<8 | uint16(body[3+tl])
		}
		if w.cycle {
			w.mu.Lock()
			first := len(w.cycleIDs) == 0
			w.cycleIDs = append(w.cycleIDs, id)
			w.mu.Unlock()
			if first {
				close(w.cycleHit)
			} else {
				s.conn.send(encID(0x40, id))
			}
			return
		}
		if qos == 0 && topic == "b" { // bulk QoS 0 traffic: identifiers are read from Message.ID
			return
		}
		w.sawRequest(topic, id, 'p')
	case 8, 10: // SUBSCRIBE, UNSUBSCRIBE
		if len(body) < 4 {
			w.note("short SUBSCRIBE/UNSUBSCRIBE")
			return
		}
		id := uint16(body[0])<<8 | uint16(body[1])
		tl := int(body[2])<<8 | int(body[3])
		if len(body) < 4+tl {
			w.note("short topic filter")
			return
		}
		k := byte('s')
		if typ == 10 {
			k = 'u'
		}
		w.sawRequest(string(body[4:4+tl]), id, k)
	case 6: // PUBREL -> PUBCOMP
		if len(body) >= 2 {
			s.conn.send(encID(0x70, uint16(body[0])<<8|uint16(body[1])))
		}
	}
}

func (w *c15World) sawRequest(tag string, id uint16, kind byte) {
	w.mu.Lock()
	rec := w.byTag[tag]
	if rec == nil {
		w.mu.Unlock()
		w.note("packet for unknown request " + tag)
		return
	}
	if rec.seen {
		w.mu.Unlock()
		w.note("request written twice: " + tag)
		return
	}
	if rec.req.Kind != kind {
		w.anomaly = append(w.anomaly, "packet type does not match request "+tag)
	}
	rec.seen = true
	rec.id = id
	rec.ord = len(w.order)
	w.order = append(w.order, rec)
	var throw []byte
	if len(w.inject) > 0 && rec.ord%2 == 1 {
		throw = w.inject[0].bytes()
		w.inject = w.inject[1:]
	}
	w.mu.Unlock()
	if throw != nil {
		w.s.conn.send(throw)
	}
	close(rec.wrote)
}

func c15NewWorld(cycle bool) (*c15World, error) {
	w := &c15World{byTag: map[string]*c15Rec{}, cycle: cycle, cycleHit: make(chan struct{})}
	s, err := newSession(false, w.onPkt)
	if err != nil {
		return nil, err
	}
	w.s = s
	w.handleInbound()
	return w, nil
}

// close cuts the connection (releasing every request that is still waiting) and waits for the reader.
func (w *c15World) close() {
	w.s.conn.Close()
	w.s.waitDone(c15Wait)
}

func (w *c15World) newRec(caller, idx int, r c15Req) *c15Rec {
	rec := &c15Rec{caller: caller, idx: idx, req: r, tag: fmt.Sprintf("c%d/r%d", caller, idx),
		wrote: make(chan struct{}), done: make(chan error, 1)}
	w.mu.Lock()
	w.byTag[rec.tag] = rec
	w.mu.Unlock()
	return rec
}

// start launches the blocking API call of the request on its own goroutine.
func (w *c15World) start(parent context.Context, rec *c15Rec) {
	cli := w.s.cli
	ctx, cancel := context.WithCancel(parent) // every request can be abandoned on its own
	rec.cancel = cancel
	switch rec.req.Kind {
	case 'p':
		rec.msg = &mqtt.Message{Topic: rec.tag, QoS: mqtt.QoS(rec.req.QoS), ID: rec.req.Given, Payload: []byte{1}}
		go func() { rec.done <- cli.Publish(ctx, rec.msg) }()
	case 's':
		go func() {
			_, err := cli.Subscribe(ctx, mqtt.Subscription{Topic: rec.tag, QoS: mqtt.QoS1})
			rec.done <- err
		}()
	default:
		go func() { rec.done <- cli.Unsubscribe(ctx, rec.tag) }()
	}
}

func (w *c15World) waitWrote(rec *c15Rec) bool {
	select {
	case <-rec.wrote:
		return true
	case <-time.After(c15WaitDur()):
		atomic.AddInt32(&c15Expired, 1)
		return false
	}
}

// ack sends the acknowledgement that completes the request (QoS 2: PUBREC; the PUBCOMP follows
// the client's PUBREL from onPkt).
func (w *c15World) ack(rec *c15Rec) {
	switch {
	case rec.req.Kind == 'p' && rec.req.QoS == 1:
		w.s.conn.send(encID(0x40, rec.id))
	case rec.req.Kind == 'p' && rec.req.QoS == 2:
		w.s.conn.send(encID(0x50, rec.id))
	case rec.req.Kind == 's':
		w.s.conn.send([]byte{0x90, 3, byte(rec.id >> 8), byte(rec.id), 1})
	case rec.req.Kind == 'u':
		w.s.conn.send(encID(0xB0, rec.id))
	}
}

func (w *c15World) waitDone(rec *c15Rec) bool {
	if rec.finished {
		return true
	}
	select {
	case err := <-rec.done:
		rec.finished = true
		rec.err = err
		return true
	case <-time.After(c15WaitDur()):
		atomic.AddInt32(&c15Expired, 1)
		return false
	}
}

// observed identifier of a request: off the wire, for QoS 0 what Publish left in Message.ID
func (rec *c15Rec) obsID() uint16 {
	if rec.req.Kind == 'p' && rec.req.QoS == 0 && rec.msg != nil {
		return rec.msg.ID
	}
	return rec.id
}

func (rec *c15Rec) coqIssue() string {
	return fmt.Sprintf("OIssue %d%%nat (%s) %d", rec.caller, rec.req.coq(), rec.obsID())
}

// ---------- collected output ----------

type c15Out struct {
	m                  *meta
	impl               []interface{}
	seq                []string
	conc               []string
	bulk               []string
	cycle              []string
	kinds              map[string]int
	starts             map[string]int
	nontriv            map[string]bool
	requests           int
	skipped            int
	contended, dropped int
	wrapc, retry       []string
	nontrivN           int
	retrySamples       int
	handle             []string
	handleSamples      int
	fault              []string
	faultSamples       int
	faultNotRealised   int
}

func (o *c15Out) violation(kind string, detail interface{}) {
	if len(o.impl) < 10 {
		o.impl = append(o.impl, map[string]interface{}{"kind": kind, "detail": detail})
	}
}

func c15StartClass(s uint32) string {
	lo := uint16(s)
	switch {
	case s >= 0xFFFF0000 && (lo >= 0xFF00 || lo < 0x100):
		return "near 2^32 wrap"
	case lo >= 0xFF00 || lo < 0x100:
		return "near 2^16 wrap"
	}
	return "elsewhere"
}

// ---------- family seq ----------

// Ack: the peer acknowledges request J. Cancel: the caller abandons request J (its context is
// cancelled, the call returns, the acknowledgement never comes) — both end the request (HAck J).
// UseFrom: the publish carries, as the caller's identifier, the identifier request From was seen
// to use (a message published again after its first attempt was abandoned, or a caller's
// identifier that happens to equal the one of a pending SUBSCRIBE/UNSUBSCRIBE).
type c15Ev struct {
	Ack     bool
	Cancel  bool
	Req     c15Req
	J       int
	UseFrom bool
	From    int
	In      bool // an inbound packet (In1); with UseFrom its identifier is the one request From uses
	In1     c15In
}

func (e c15Ev) coq() string {
	if e.In {
		return e.In1.coq("HIn")
	}
	if e.Ack || e.Cancel {
		return fmt.Sprintf("HAck %d", e.J)
	}
	return "HReq (" + e.Req.coq() + ")"
}
func (e c15Ev) desc() string {
	if e.In {
		if e.UseFrom {
			return fmt.Sprintf("%s = that of #%d", e.In1.desc(), e.From)
		}
		return e.In1.desc()
	}
	if e.Cancel {
		return fmt.Sprintf("cancel#%d", e.J)
	}
	if e.Ack {
		return fmt.Sprintf("ack#%d", e.J)
	}
	if e.UseFrom {
		return fmt.Sprintf("publish(q%d,id=that of #%d)", e.Req.QoS, e.From)
	}
	return e.Req.desc()
}

func c15RandReq(r *rand.Rand) c15Req {
	switch x := r.Intn(10); {
	case x < 1:
		return c15Req{Kind: 'p', QoS: 0}
	case x < 4:
		return c15Req{Kind: 'p', QoS: 1}
	case x < 6:
		return c15Req{Kind: 'p', QoS: 2}
	case x < 8:
		return c15Req{Kind: 's'}
	}
	return c15Req{Kind: 'u'}
}

// c15GenHistory: n requests; pAck = chance (percent) of acknowledging an outstanding request after
// each step; pGiven = chance (percent) that a publish carries its own identifier. Caller-provided
// identifiers are taken behind the start position (so the library will not choose them during the
// history) or ahead of everything chosen so far and then acknowledged at once; they never equal
// an identifier that is in use — the environment assumption of the property.
// pCancel = chance (percent) that an outstanding request is abandoned by its caller instead of being
// acknowledged; an abandoned publish is, half of the time, published again with the identifier of
// its first attempt (what an application does after a timeout). Now and then a publish carries the
// identifier of a SUBSCRIBE/UNSUBSCRIBE that is still waiting (a different kind of request: the
// acknowledgements cannot be confused).
// c15AdvIn: an inbound packet with an identifier chosen to hurt: that of an outstanding request of the
// client, the top of the range, 1, around the position of the client's counter (autos = identifiers
// the client has chosen so far), just behind the start, or anything.
func c15AdvIn(r *rand.Rand, s uint32, autos int, outstanding []int) c15Ev {
	e := c15Ev{In: true, In1: c15In{Q: byte(r.Intn(4))}}
	switch x := r.Intn(10); {
	case x < 3 && len(outstanding) > 0:
		e.UseFrom = true
		e.From = outstanding[r.Intn(len(outstanding))]
		if r.Intn(2) == 0 {
			e.From = outstanding[0]
		}
	case x < 5:
		e.In1.ID = uint16(0xFFFF - r.Intn(4))
	case x < 6:
		e.In1.ID = uint16(1 + r.Intn(3))
	case x < 8:
		e.In1.ID = c15Nth(s, autos+r.Intn(5)-1)
	case x < 9:
		e.In1.ID = c15Nth(s, -r.Intn(4))
	default:
		e.In1.ID = uint16(r.Intn(65535) + 1)
	}
	if e.In1.Q == 0 || e.In1.Q == 3 {
		if r.Intn(2) == 0 {
			e.In1.Q = byte(1 + r.Intn(2)) // mostly the kinds that carry an identifier the client must answer
		}
	}
	return e
}

// pIn = chance (percent) of inbound packets after a request.
func c15GenHistoryIn(r *rand.Rand, s uint32, n, pAck, pGiven, pCancel, pIn int) []c15Ev {
	h := c15GenHistory(r, s, n, pAck, pGiven, pCancel)
	if pIn == 0 {
		return h
	}
	var out []c15Ev
	var outstanding []int
	total, autos := 0, 0
	for _, e := range h {
		out = append(out, e)
		switch {
		case e.Ack || e.Cancel:
			for i, j := range outstanding {
				if j == e.J {
					outstanding = append(outstanding[:i], outstanding[i+1:]...)
					break
				}
			}
		default:
			if e.Req.tracked() {
				outstanding = append(outstanding, total)
			}
			if e.Req.auto() && !e.UseFrom {
				autos++
			}
			total++
			for r.Intn(100) < pIn {
				out = append(out, c15AdvIn(r, s, autos, outstanding))
			}
		}
	}
	return out
}

func c15GenHistory(r *rand.Rand, s uint32, n, pAck, pGiven, pCancel int) []c15Ev {
	var h []c15Ev
	var outstanding []int
	var reqOf []c15Req
	total := 0
	behind := 0
	autos := 0
	for i := 0; i < n; i++ {
		rq := c15RandReq(r)
		ackNow := false
		if rq.Kind == 'p' && r.Intn(100) < pGiven {
			if r.Intn(3) == 0 && rq.QoS > 0 {
				rq.Given = c15Nth(s, autos+200+r.Intn(500)) // ahead; acknowledged at once
				ackNow = true
			} else {
				rq.Given = c15Nth(s, -behind)
				behind++
			}
		}
		h = append(h, c15Ev{Req: rq})
		reqOf = append(reqOf, rq)
		if rq.auto() {
			autos++
		}
		if rq.tracked() {
			if ackNow {
				h = append(h, c15Ev{Ack: true, J: total})
			} else {
				outstanding = append(outstanding, total)
			}
		}
		total++
		if pCancel > 0 && rq.Kind != 'p' && rq.tracked() && r.Intn(100) < pCancel {
			// a publish with the identifier of this pending SUBSCRIBE/UNSUBSCRIBE, acknowledged at once
			pq := c15Req{Kind: 'p', QoS: byte(1 + r.Intn(2))}
			h = append(h, c15Ev{Req: pq, UseFrom: true, From: total - 1}, c15Ev{Ack: true, J: total})
			reqOf = append(reqOf, pq)
			total++
		}
		for len(outstanding) > 0 && r.Intn(100) < pAck {
			k := r.Intn(len(outstanding))
			if r.Intn(2) == 0 {
				k = 0 // oldest first, half of the time
			}
			j := outstanding[k]
			outstanding = append(outstanding[:k], outstanding[k+1:]...)
			if r.Intn(100) >= pCancel {
				h = append(h, c15Ev{Ack: true, J: j})
				continue
			}
			h = append(h, c15Ev{Cancel: true, J: j})
			if reqOf[j].Kind == 'p' && r.Intn(2) == 0 {
				pq := c15Req{Kind: 'p', QoS: byte(1 + r.Intn(2))}
				h = append(h, c15Ev{Req: pq, UseFrom: true, From: j})
				reqOf = append(reqOf, pq)
				outstanding = append(outstanding, total)
				total++
			}
		}
	}
	// acknowledge most of what is left, in random order
	r.Shuffle(len(outstanding), func(i, j int) { outstanding[i], outstanding[j] = outstanding[j], outstanding[i] })
	keep := 0
	if len(outstanding) > 0 {
		keep = r.Intn(2)
	}
	for _, j := range outstanding[keep:] {
		h = append(h, c15Ev{Ack: true, J: j})
	}
	return h
}

// c15Exec runs a history on the world's client: returns the requests, the observations (Coq and
// readable), the history as executed (identifiers of UseFrom events resolved), and what got stuck.
func c15Exec(o *c15Out, w *c15World, ctx context.Context, h []c15Ev) (recs []*c15Rec, obs, desc, hin []string, stuck string) {
	for _, e := range h {
		if e.In {
			if e.UseFrom {
				e.In1.ID = recs[e.From].obsID()
			}
			hin = append(hin, e.coq())
			if !w.inbound(e.In1) {
				stuck = "the client did not get past " + e.In1.desc()
				break
			}
			desc = append(desc, e.In1.desc())
			o.kinds["inbound"]++
			continue
		}
		if e.Ack || e.Cancel {
			hin = append(hin, e.coq())
			rec := recs[e.J]
			if e.Cancel {
				rec.cancel()
				if !w.waitDone(rec) {
					stuck = fmt.Sprintf("request #%d (%s) did not return after its context was cancelled", e.J, rec.req.desc())
					break
				}
				obs = append(obs, fmt.Sprintf("OAck %d", e.J))
				desc = append(desc, fmt.Sprintf("cancel#%d", e.J))
				continue
			}
			w.ack(rec)
			if !w.waitDone(rec) {
				stuck = fmt.Sprintf("request #%d (%s, identifier %d on the wire) did not complete after its acknowledgement", e.J, rec.req.desc(), rec.id)
				break
			}
			if rec.err != nil {
				stuck = fmt.Sprintf("request #%d failed: %v", e.J, rec.err)
				break
			}
			obs = append(obs, fmt.Sprintf("OAck %d", e.J))
			desc = append(desc, fmt.Sprintf("ack#%d", e.J))
			continue
		}
		if e.UseFrom {
			e.Req.Given = recs[e.From].obsID()
		}
		hin = append(hin, e.coq())
		rec := w.newRec(0, len(recs), e.Req)
		recs = append(recs, rec)
		w.start(ctx, rec)
		if !w.waitWrote(rec) {
			stuck = fmt.Sprintf("request #%d (%s) never reached the wire", len(recs)-1, e.Req.desc())
			break
		}
		if !e.Req.tracked() {
			if !w.waitDone(rec) {
				stuck = fmt.Sprintf("QoS 0 publish #%d did not return", len(recs)-1)
				break
			}
		}
		if e.Req.Kind == 'p' && e.Req.Given != 0 && rec.msg.ID != e.Req.Given {
			// the packet is on the wire, so publishImpl is past the point where it touches Message.ID
			o.violation("caller's Message.ID overwritten", map[string]interface{}{"request": e.Req.desc(),
				"message_id_now": rec.msg.ID, "on_the_wire": rec.id})
		}
		obs = append(obs, rec.coqIssue())
		desc = append(desc, fmt.Sprintf("%s->%d", e.Req.desc(), rec.obsID()))
		o.kinds[e.Req.desc0()]++
	}
	return
}

// c15RunSeq executes a history on a fresh client. natural: keep the library's own start value.
func c15RunSeq(o *c15Out, s uint32, natural bool, h []c15Ev) error {
	if c15GiveUp() {
		o.skipped++
		return nil
	}
	w, err := c15NewWorld(false)
	if err != nil {
		return err
	}
	defer w.close()
	if natural {
		s = w.s.cli.VerifIDLast()
		if s < 1 || s > 0xFFFE {
			o.violation("initID", fmt.Sprintf("start value %d outside 1..65534", s))
		}
	} else {
		w.s.cli.VerifSetIDLast(s)
	}
	ctx, cancel := ctxTimeout(5 * time.Minute)
	defer cancel()
	recs, obs, desc, hin, stuck := c15Exec(o, w, ctx, h)
	o.requests += len(recs)
	if stuck != "" {
		o.violation("stuck", map[string]interface{}{"start": s, "history": c15Descs(h), "what": stuck})
	}
	for _, a := range w.anomaly {
		o.violation("anomaly", a)
	}
	fin := w.s.cli.VerifIDLast()
	o.seq = append(o.seq, cTuple(cN(uint64(s)), cListInline(hin), cListInline(obs), cN(uint64(fin))))
	c := map[string]interface{}{"start_counter": s, "history": c15Descs(h), "observed": desc, "counter_afterwards": fin}
	o.m.Families["seq"] = append(o.m.Families["seq"], c)
	o.starts[c15StartClass(s)]++
	key := fmt.Sprint(s, c15Descs(h))
	if len(recs) >= 3 {
		o.nontriv[key] = true
	}
	if len(o.m.Samples) < 2 && len(recs) >= 4 && len(recs) <= 8 {
		o.m.Samples = append(o.m.Samples, c)
	}
	return nil
}

func (r c15Req) desc0() string {
	switch r.Kind {
	case 'p':
		if r.Given != 0 {
			return fmt.Sprintf("publish_q%d_given", r.QoS)
		}
		return fmt.Sprintf("publish_q%d", r.QoS)
	case 's':
		return "subscribe"
	}
	return "unsubscribe"
}

func c15Descs(h []c15Ev) []string {
	var out []string
	for _, e := range h {
		out = append(out, e.desc())
	}
	return out
}

// ---------- family conc ----------

func c15RunConc(o *c15Out, r *rand.Rand, s uint32, progs [][]c15Req) error {
	if c15GiveUp() {
		o.skipped++
		return nil
	}
	w, err := c15NewWorld(false)
	if err != nil {
		return err
	}
	defer w.close()
	w.s.cli.VerifSetIDLast(s)
	ctx, cancel := ctxTimeout(5 * time.Minute)
	defer cancel()
	recs := make([][]*c15Rec, len(progs))
	for k, p := range progs {
		for i, rq := range p {
			recs[k] = append(recs[k], w.newRec(k, i, rq))
		}
	}
	start := make(chan struct{})
	var wg sync.WaitGroup
	stuckCh := make(chan string, len(progs))
	for k := range progs {
		wg.Add(1)
		go func(k int) {
			defer wg.Done()
			<-start
			// a caller issues its requests in program order: the next one is started when the
			// previous one is on the wire; all of them stay outstanding
			for _, rec := range recs[k] {
				w.start(ctx, rec)
				if !w.waitWrote(rec) {
					stuckCh <- fmt.Sprintf("request %s (%s) never reached the wire", rec.tag, rec.req.desc())
					return
				}
			}
		}(k)
	}
	// the peer throws inbound packets with awkward identifiers in between the requests it sees
	var thrown []c15In
	if r.Intn(3) > 0 {
		for k := r.Intn(8); k > 0; k-- {
			in := c15In{Q: byte(1 + r.Intn(3))}
			switch r.Intn(5) {
			case 0:
				in.ID = uint16(0xFFFF - r.Intn(4))
			case 1:
				in.ID = uint16(1 + r.Intn(3))
			case 2:
				in.ID = uint16(r.Intn(65535) + 1)
			default:
				in.ID = c15Nth(s, 1+r.Intn(6)) // an identifier one of the callers is about to hold
			}
			thrown = append(thrown, in)
		}
		w.inject = append([]c15In{}, thrown...)
	}
	close(start)
	wg.Wait()
	close(stuckCh)
	stuck := ""
	for sck := range stuckCh {
		stuck = sck
	}
	// everything is on the wire and nothing has been acknowledged: acknowledge in random order
	w.mu.Lock()
	order := append([]*c15Rec{}, w.order...)
	w.mu.Unlock()
	var acks []int
	if stuck == "" {
		perm := r.Perm(len(order))
		for _, i := range perm {
			if order[i].req.tracked() {
				w.ack(order[i])
				acks = append(acks, i)
			}
		}
		for _, rec := range order {
			if !w.waitDone(rec) {
				stuck = fmt.Sprintf("request %s (%s, identifier %d on the wire) did not complete after its acknowledgement", rec.tag, rec.req.desc(), rec.id)
				break
			}
			if rec.err != nil {
				stuck = fmt.Sprintf("request %s failed: %v", rec.tag, rec.err)
				break
			}
		}
	}
	var wire, wdesc []string
	for _, rec := range order {
		wire = append(wire, rec.coqIssue())
		wdesc = append(wdesc, fmt.Sprintf("c%d:%s->%d", rec.caller, rec.req.desc(), rec.obsID()))
		o.kinds[rec.req.desc0()]++
	}
	for _, j := range acks {
		wire = append(wire, fmt.Sprintf("OAck %d", j))
	}
	// proposed schedule: callers in the order of the positions of the identifiers they received
	type ent struct {
		rec *c15Rec
		pos int
	}
	var ents []ent
	for _, rec := range order {
		if rec.req.auto() {
			ents = append(ents, ent{rec, c15Pos(s, rec.obsID())})
		}
	}
	sort.SliceStable(ents, func(i, j int) bool { return ents[i].pos < ents[j].pos })
	next := make([]int, len(progs))
	var sched []string
	tick := s
	step := func(k int) { sched = append(sched, fmt.Sprintf("LStep %d%%nat", k)) }
	for _, e := range ents {
		k := e.rec.caller
		for next[k] < e.rec.idx { // requests with their own identifier before this one
			step(k)
			next[k]++
		}
		tick++
		if uint16(tick) == 0 { // this caller hits the zero low half first and retries
			step(k)
			tick++
		}
		step(k)
		next[k]++
	}
	for k := range progs {
		for next[k] < len(progs[k]) {
			step(k)
			next[k]++
		}
	}
	var ps, pd []string
	total := 0
	for _, p := range progs {
		var one, oned []string
		for _, rq := range p {
			one = append(one, rq.coq())
			oned = append(oned, rq.desc())
		}
		total += len(p)
		ps = append(ps, cListInline(one))
		pd = append(pd, strings.Join(oned, ","))
	}
	o.requests += total
	if stuck != "" {
		o.violation("stuck", map[string]interface{}{"start": s, "programs": pd, "what": stuck})
	}
	for _, a := range w.anomaly {
		o.violation("anomaly", a)
	}
	var tdesc []string
	w.mu.Lock()
	sent := len(thrown) - len(w.inject)
	w.mu.Unlock()
	for _, in := range thrown[:sent] {
		sched = append(sched, in.coq("LIn")) // wherever they fell between the increments: the model ignores them
		tdesc = append(tdesc, in.desc())
		o.kinds["inbound"]++
	}
	o.conc = append(o.conc, cTuple(cN(uint64(s)), cListInline(ps), cListInline(sched), cListInline(wire)))
	c := map[string]interface{}{"start_counter": s, "callers": len(progs), "programs": pd, "wire_order": wdesc, "inbound_packets_thrown_in": tdesc}
	o.m.Families["conc"] = append(o.m.Families["conc"], c)
	o.starts[c15StartClass(s)]++
	if len(progs) >= 2 && total >= 4 {
		o.nontriv[fmt.Sprint("conc", s, pd)] = true
	}
	if len(o.m.Samples) < 4 && len(progs) >= 2 && total <= 8 {
		o.m.Samples = append(o.m.Samples, c)
	}
	return nil
}

// ---------- run-length coding ----------

func c15Runs(ids []uint16) [][2]int {
	var runs [][2]int
	for _, id := range ids {
		if n := len(runs); n > 0 && runs[n-1][0]+runs[n-1][1] == int(id) {
			runs[n-1][1]++
		} else {
			runs = append(runs, [2]int{int(id), 1})
		}
	}
	return runs
}

func c15CoqRuns(runs [][2]int) string {
	var it []string
	for _, r := range runs {
		it = append(it, fmt.Sprintf("(%d,%d)", r[0], r[1]))
	}
	return cListInline(it)
}

// ---------- family bulk ----------

// c15RunBulk: g goroutines are released by one barrier and issue per requests each.
// mode 1: QoS 1, one request each, all outstanding together (acknowledgements withheld until all
//
//	are on the wire);
//
// mode 0: QoS 0 on the connected client, publishes return at once, identifiers read from Message.ID;
// mode 2: QoS 0 on a client that was never connected: Publish takes an identifier and then fails
//
//	with ErrNotConnected without touching the transport — the counter is the only shared thing,
//	so the goroutines really contend on it.
//
// Every goroutine also bumps a deliberately NON-atomic control counter (load, then store) right
// before its first call: a lost update there proves that the goroutines of this burst did overlap
// (contended); a burst without such proof says little about atomicity and may be repeated by the
// caller. A burst that shows a duplicate or a zero itself is always kept.
type c15BulkRes struct {
	contended  bool
	suspicious bool
	skip       bool // mode 2 not applicable: no identifier is assigned before the connection check
	coq        string
	fam        map[string]interface{}
	n          int
	s          uint32
	key        string
	qos        byte
}

func c15RunBulk(o *c15Out, s uint32, g, per int, mode int) (*c15BulkRes, error) {
	n := g * per
	ids := make([]uint16, 0, n)
	stuck := ""
	var ctl uint32
	bump := func() {
		v := atomic.LoadUint32(&ctl) + 1
		atomic.StoreUint32(&ctl, v)
	}
	var fin uint32
	var anomalies []string
	qos := byte(0)
	if mode == 1 {
		qos = 1
	}
	if mode != 1 {
		var cli *mqtt.BaseClient
		var w *c15World
		if mode == 0 {
			var err error
			w, err = c15NewWorld(false)
			if err != nil {
				return nil, err
			}
			defer w.close()
			cli = w.s.cli
		} else {
			cli = &mqtt.BaseClient{}
		}
		cli.VerifSetIDLast(s)
		ctx, cancel := ctxTimeout(5 * time.Minute)
		defer cancel()
		start := make(chan struct{})
		res := make([][]uint16, g)
		var wg sync.WaitGroup
		for k := 0; k < g; k++ {
			wg.Add(1)
			go func(k int) {
				defer wg.Done()
				res[k] = make([]uint16, 0, per)
				<-start
				bump()
				for i := 0; i < per; i++ {
					m := &mqtt.Message{Topic: "b", QoS: mqtt.QoS0, Payload: []byte{1}}
					if err := cli.Publish(ctx, m); err != nil && mode == 0 {
						return
					}
					res[k] = append(res[k], m.ID)
				}
			}(k)
		}
		close(start)
		wg.Wait()
		for k := range res {
			ids = append(ids, res[k]...)
		}
		if len(ids) != n {
			stuck = fmt.Sprintf("%d of %d QoS 0 publishes failed", n-len(ids), n)
		}
		fin = cli.VerifIDLast()
		if w != nil {
			anomalies = w.anomaly
		}
		if mode == 2 {
			all0 := true
			for _, id := range ids {
				if id != 0 {
					all0 = false
					break
				}
			}
			if all0 && fin == s {
				return &c15BulkRes{skip: true}, nil
			}
		}
	} else {
		w, err := c15NewWorld(false)
		if err != nil {
			return nil, err
		}
		defer w.close()
		cli := w.s.cli
		cli.VerifSetIDLast(s)
		ctx, cancel := ctxTimeout(5 * time.Minute)
		defer cancel()
		recs := make([]*c15Rec, n)
		for i := range recs {
			recs[i] = w.newRec(i, 0, c15Req{Kind: 'p', QoS: 1})
		}
		start := make(chan struct{})
		var wg sync.WaitGroup
		for i := range recs {
			wg.Add(1)
			go func(rec *c15Rec) {
				defer wg.Done()
				rec.msg = &mqtt.Message{Topic: rec.tag, QoS: mqtt.QoS1, Payload: []byte{1}}
				<-start
				bump()
				rec.done <- cli.Publish(ctx, rec.msg)
			}(recs[i])
		}
		close(start)
		deadline := time.After(2 * c15WaitDur())
	waitAll:
		for _, rec := range recs {
			select {
			case <-rec.wrote:
			case <-deadline:
				atomic.AddInt32(&c15Expired, 1)
				stuck = fmt.Sprintf("request %s never reached the wire", rec.tag)
				break waitAll
			}
		}
		if stuck == "" {
			for _, rec := range recs {
				ids = append(ids, rec.id)
			}
			for _, rec := range recs {
				w.ack(rec)
			}
			for _, rec := range recs {
				if !w.waitDone(rec) {
					stuck = fmt.Sprintf("request %s (identifier %d on the wire) did not complete after its acknowledgement", rec.tag, rec.id)
					break
				}
			}
		}
		// release whatever is left before wg.Wait
		w.s.conn.Close()
		wg.Wait()
		fin = cli.VerifIDLast()
		anomalies = w.anomaly
	}
	sort.Slice(ids, func(i, j int) bool { return ids[i] < ids[j] })
	res := &c15BulkRes{n: n, s: s, qos: qos, key: fmt.Sprint("bulk", s, g, per, mode)}
	res.contended = int(atomic.LoadUint32(&ctl)) != g
	for i, id := range ids {
		if id == 0 || (i > 0 && ids[i-1] == id) {
			res.suspicious = true
		}
	}
	runs := c15Runs(ids)
	if len(runs) > 3000 {
		runs = runs[:3000] // enough to show the disagreement; keeps the Coq input small
	}
	if stuck != "" {
		res.suspicious = true
		o.violation("stuck", map[string]interface{}{"start": s, "goroutines": g, "each": per, "what": stuck})
	}
	for _, a := range anomalies {
		res.suspicious = true
		o.violation("anomaly", a)
	}
	res.coq = cTuple(cN(uint64(s)), cN(uint64(n)), cBool(mode == 1), c15CoqRuns(runs), cN(uint64(fin)))
	res.fam = map[string]interface{}{"start_counter": s, "goroutines": g, "requests_each": per,
		"kind":               []string{"QoS0 publishes, connected", "QoS1 publishes, all outstanding", "QoS0 publishes, never connected (ErrNotConnected after the identifier is taken)"}[mode],
		"counter_afterwards": fin, "overlap_proved_by_control_counter": res.contended,
		"identifiers_sorted_as_runs(first,length)": runs[:c15Min(len(runs), 12)], "runs": len(runs)}
	return res, nil
}

func (o *c15Out) keepBulk(b *c15BulkRes) {
	o.requests += b.n
	o.bulk = append(o.bulk, b.coq)
	o.m.Families["bulk"] = append(o.m.Families["bulk"], b.fam)
	o.starts[c15StartClass(b.s)]++
	o.kinds[fmt.Sprintf("publish_q%d", b.qos)] += b.n
	o.nontriv[b.key] = true
	if b.contended {
		o.contended++
	}
}

func c15Min(a, b int) int {
	if a < b {
		return a
	}
	return b
}

// ---------- family cycle (and the F13 probe) ----------

// c15RunCycle: one QoS1 publish whose PUBACK is withheld for ever, then n sequential QoS1
// publishes acknowledged at once. Returns whether finding F13 was reproduced: the identifier of the
// withheld request was chosen again exactly 65,535 requests later, and not before.
func c15RunCycle(o *c15Out, s uint32, n int) (bool, error) {
	w, err := c15NewWorld(true)
	if err != nil {
		return false, err
	}
	defer w.close()
	w.s.cli.VerifSetIDLast(s)
	ctx, cancel := ctxTimeout(20 * time.Minute)
	defer cancel()
	cli := w.s.cli
	go func() { _ = cli.Publish(ctx, &mqtt.Message{Topic: "blocked", QoS: mqtt.QoS1, Payload: []byte{1}}) }()
	stuck := ""
	select {
	case <-w.cycleHit:
	case <-time.After(c15WaitDur()):
		atomic.AddInt32(&c15Expired, 1)
		stuck = "the first request never reached the wire"
	}
	issued := 0
	if stuck == "" {
		// the publishes run on their own goroutine; a watchdog cuts the connection when no
		// publish has completed for a whole waiting period (a request that never completes)
		var progress int64
		res := make(chan string, 1)
		go func() {
			for i := 0; i < n; i++ {
				if err := cli.Publish(ctx, &mqtt.Message{Topic: "c", QoS: mqtt.QoS1, Payload: []byte{1}}); err != nil {
					res <- fmt.Sprintf("publish %d did not complete: %v", i+1, err)
					return
				}
				atomic.AddInt64(&progress, 1)
			}
			res <- ""
		}()
		last := int64(-1)
	watch:
		for {
			select {
			case stuck = <-res:
				break watch
			case <-time.After(c15WaitDur()):
				now := atomic.LoadInt64(&progress)
				if now == last {
					atomic.AddInt32(&c15Expired, 1)
					w.s.conn.Close() // releases the publish that hangs
					stuck = <-res
					stuck = fmt.Sprintf("no publish completed for a whole waiting period after %d publishes (%s)", now, stuck)
					break watch
				}
				last = now
			}
		}
		issued = int(atomic.LoadInt64(&progress))
	}
	w.mu.Lock()
	ids := append([]uint16{}, w.cycleIDs...)
	w.mu.Unlock()
	if stuck != "" {
		o.violation("stuck", map[string]interface{}{"start": s, "what": stuck})
	}
	if len(ids) != issued+1 && stuck == "" {
		o.violation("anomaly", fmt.Sprintf("%d PUBLISH packets for %d requests", len(ids), issued+1))
	}
	if len(ids) == 0 {
		return false, nil
	}
	o.requests += len(ids)
	reuse := -1
	for p := 1; p < len(ids); p++ {
		if ids[p] == ids[0] {
			reuse = p
			break
		}
	}
	runs := c15Runs(ids)
	cut := false
	if len(runs) > 3000 {
		runs = runs[:3000]
		cut = true
	}
	cnt := 0
	for _, r := range runs {
		cnt += r[1]
	}
	o.cycle = append(o.cycle, cTuple(cN(uint64(s)), cN(uint64(cnt-1)), c15CoqRuns(runs)))
	c := map[string]interface{}{"start_counter": s, "requests_after_the_blocked_one": cnt - 1,
		"identifiers_in_issue_order_as_runs(first,length)": runs[:c15Min(len(runs), 12)], "runs": len(runs),
		"blocked_identifier": ids[0], "blocked_identifier_chosen_again_at_request": reuse, "truncated": cut}
	o.m.Families["cycle"] = append(o.m.Families["cycle"], c)
	o.starts[c15StartClass(s)]++
	o.kinds["publish_q1"] += len(ids)
	o.nontriv[fmt.Sprint("cycle", s, n)] = true
	if len(o.m.Samples) < 6 {
		o.m.Samples = append(o.m.Samples, c)
	}
	return reuse == 65535, nil
}

// ---------- driver ----------

func c15Starts(r *rand.Rand) []uint32 {
	st := []uint32{0, 1, 0xFFFC, 0xFFFD, 0xFFFE, 0xFFFF, 0x10000, 0x10001, 0x1FFFD, 0x1FFFE, 0x1FFFF,
		0x7FFFFFFE, 0x7FFFFFFF, 0x80000000, 0xFFFEFFFE, 0xFFFEFFFF,
		0xFFFFFFF0, 0xFFFFFFFB, 0xFFFFFFFC, 0xFFFFFFFD, 0xFFFFFFFE, 0xFFFFFFFF}
	return st
}

func c15PickStart(r *rand.Rand) uint32 {
	switch r.Intn(6) {
	case 0: // a few steps below a 16-bit wrap
		return uint32(r.Intn(65536))<<16 | uint32(0xFFFF-r.Intn(40))
	case 1: // a few steps below the 32-bit wrap
		return 0xFFFFFFFF - uint32(r.Intn(40))
	case 2:
		return r.Uint32()
	case 3: // what initID produces
		return uint32(r.Intn(0xFFFE)) + 1
	case 4: // just after a wrap
		return uint32(r.Intn(65536))<<16 | uint32(r.Intn(3))
	}
	return uint32(r.Intn(4))<<30 | uint32(r.Intn(1<<16))
}

func runC15(cfg *runCfg) error {
	r := rand.New(rand.NewSource(cfg.seed))
	cf := newCasesFile("C15", "Ids", "CheckC15")
	m := &meta{Property: "C15", Distribution: map[string]interface{}{}, Families: map[string][]interface{}{}}
	o := &c15Out{m: m, kinds: map[string]int{}, starts: map[string]int{}, nontriv: map[string]bool{}}

	nSeq, nConc, maxLen := 220, 40, 24
	// bulk: (goroutines, requests each, mode) — see c15RunBulk; want = bursts with proved overlap
	// to collect per mode-1 entry (a burst without it is repeated, at most maxTry times in total)
	type bulkSpec struct {
		g, per, mode int
	}
	bulks := []bulkSpec{{2000, 1, 1}, {16, 600, 0}, {3000, 1, 1}, {16, 1000, 2}, {3000, 1, 1}, {64, 100, 0},
		{3000, 1, 1}, {4, 1500, 2}, {3000, 1, 1}, {3000, 1, 1}}
	maxTry := 60
	cycles := 1
	switch cfg.tier {
	case "thorough":
		nSeq, nConc, maxLen = 2000, 400, 60
		bulks = nil
		for i := 0; i < 12; i++ {
			bulks = append(bulks, bulkSpec{3000, 1, 1}, bulkSpec{16, 1000, 0}, bulkSpec{16, 1500, 2}, bulkSpec{4000, 1, 1})
		}
		maxTry = 400
		cycles = 3
	case "search":
		nSeq, nConc, maxLen = 400, 80, 40
		bulks = nil
		for i := 0; i < 10; i++ {
			bulks = append(bulks, bulkSpec{3000, 1, 1}, bulkSpec{3000, 1, 1}, bulkSpec{8, 1500, 2})
		}
		maxTry = 200
		cycles = 1
	}

	if cfg.extra == "only:fault" {
		// development aid: nothing but the fault family, many times over (looking for flakiness)
		for i := 0; i < 40; i++ {
			if err := c15Fault(o, r, cfg.tier); err != nil {
				return err
			}
		}
		cf.def("fault_cases", "list c15_seq_case", cList(o.fault))
		cf.result("V_fault", "c15_seq_violations fault_cases")
		cf.result("M_fault", "c15_seq_mismatches fault_cases")
		m.ImplViolations = o.impl
		m.Evaluations = len(o.fault)
		if err := cf.write(cfg.outDir); err != nil {
			return err
		}
		return m.write(cfg.outDir)
	}
	// --- seq: the fixed wrap-around starts, everything outstanding ---
	for _, s := range c15Starts(r) {
		var h []c15Ev
		for i, rq := range []c15Req{{Kind: 's'}, {Kind: 'p', QoS: 1}, {Kind: 'u'}, {Kind: 'p', QoS: 2}, {Kind: 'p', QoS: 0}, {Kind: 's'}} {
			h = append(h, c15Ev{Req: rq})
			_ = i
		}
		h = append(h, c15Ev{Ack: true, J: 1}, c15Ev{Req: c15Req{Kind: 'p', QoS: 1}}, c15Ev{Ack: true, J: 0})
		if err := c15RunSeq(o, s, false, h); err != nil {
			return err
		}
	}
	// the seeded-change shape: a request outstanding, then a publish carrying the identifier just
	// behind it, then further requests
	for _, s := range []uint32{99, 0xFFFE, 0xFFFF, 0xFFFFFFFE} {
		h := []c15Ev{{Req: c15Req{Kind: 's'}}, {Req: c15Req{Kind: 'p', QoS: 1, Given: c15Nth(s, 0)}},
			{Req: c15Req{Kind: 'u'}}, {Req: c15Req{Kind: 'p', QoS: 1}}, {Req: c15Req{Kind: 's'}},
			{Ack: true, J: 1}, {Ack: true, J: 0}}
		if err := c15RunSeq(o, s, false, h); err != nil {
			return err
		}
	}
	// round 4: a publish abandoned by its caller (stale waiter entry) and published again with the
	// same identifier — caller-provided, or filled in by the first attempt; and a caller's identifier
	// equal to that of a pending SUBSCRIBE / UNSUBSCRIBE: it must go out unchanged
	for _, s := range []uint32{99, 0xFFFD, 0xFFFFFFFE, 0x4D2FFFF} {
		for _, q := range []byte{1, 2} {
			x := c15Nth(s, -3)
			for _, h := range [][]c15Ev{
				{{Req: c15Req{Kind: 'p', QoS: q, Given: x}}, {Cancel: true, J: 0}, {Req: c15Req{Kind: 'p', QoS: q}, UseFrom: true, From: 0}, {Ack: true, J: 1}},
				{{Req: c15Req{Kind: 'p', QoS: q}}, {Cancel: true, J: 0}, {Req: c15Req{Kind: 's'}}, {Req: c15Req{Kind: 'p', QoS: 3 - q}, UseFrom: true, From: 0}, {Ack: true, J: 2}, {Ack: true, J: 1}},
				{{Req: c15Req{Kind: 's'}}, {Req: c15Req{Kind: 'p', QoS: q}, UseFrom: true, From: 0}, {Req: c15Req{Kind: 'u'}}, {Ack: true, J: 1}, {Req: c15Req{Kind: 'p', QoS: q}, UseFrom: true, From: 2}, {Ack: true, J: 0}, {Ack: true, J: 3}, {Ack: true, J: 2}},
			} {
				if err := c15RunSeq(o, s, false, h); err != nil {
					return err
				}
			}
		}
	}
	// round 7: inbound traffic. Requests outstanding across the 16-bit wrap, then a PUBLISH / PUBREL
	// from the broker carrying the identifier of the oldest outstanding request (or the top of the
	// range, or 1), then further requests: they must continue the client's own sequence
	for _, s := range []uint32{0xFFFC, 0xFFFD, 0x2FFFB, 0xFFFFFFFC, 500} {
		for _, q := range []byte{1, 2, 3, 0} {
			for v := 0; v < 3; v++ {
				in := c15Ev{In: true, In1: c15In{Q: q}}
				switch v {
				case 0:
					in.UseFrom, in.From = true, 0
				case 1:
					in.In1.ID = 0xFFFF
				default:
					in.In1.ID = c15Nth(s, 2)
				}
				h := []c15Ev{{Req: c15Req{Kind: 's'}}, {Req: c15Req{Kind: 'p', QoS: 1}}, {Req: c15Req{Kind: 'u'}},
					{Req: c15Req{Kind: 'p', QoS: 2}}, {Req: c15Req{Kind: 's'}}, in,
					{Req: c15Req{Kind: 'p', QoS: 1}}, {Req: c15Req{Kind: 'u'}}, {In: true, In1: c15In{Q: 2, ID: 1}}, {Req: c15Req{Kind: 's'}},
					{Ack: true, J: 0}, {Ack: true, J: 5}, {Ack: true, J: 1}}
				if err := c15RunSeq(o, s, false, h); err != nil {
					return err
				}
			}
		}
	}
	// the library's own start value
	for i := 0; i < 6; i++ {
		if err := c15RunSeq(o, 0, true, c15GenHistory(r, 30000, 3+r.Intn(10), 30, 0, 0)); err != nil {
			return err
		}
	}
	for i := 0; i < nSeq; i++ {
		s := c15PickStart(r)
		n := 1 + r.Intn(maxLen)
		pAck := []int{0, 10, 30, 60}[r.Intn(4)]
		pGiven := []int{0, 0, 25, 60}[r.Intn(4)]
		pCancel := []int{0, 0, 20, 40}[r.Intn(4)]
		if pCancel > 0 && pAck == 0 {
			pAck = 30
		}
		pIn := []int{0, 30, 50}[r.Intn(3)]
		if err := c15RunSeq(o, s, false, c15GenHistoryIn(r, s, n, pAck, pGiven, pCancel, pIn)); err != nil {
			return err
		}
	}
	// --- conc ---
	for i := 0; i < nConc; i++ {
		s := c15PickStart(r)
		g := 1 + r.Intn(16)
		if i < 16 {
			g = i + 1 // every caller count 1..16 at least once
		}
		progs := make([][]c15Req, g)
		behind := 0
		for k := range progs {
			n := 1 + r.Intn(12)
			if i%5 == 4 {
				n = 20 + r.Intn(10) // more than 255 outstanding with many callers
			}
			for j := 0; j < n; j++ {
				rq := c15RandReq(r)
				if rq.Kind == 'p' && r.Intn(8) == 0 {
					rq.Given = c15Nth(s, -behind)
					behind++
				}
				progs[k] = append(progs[k], rq)
			}
		}
		if err := c15RunConc(o, r, s, progs); err != nil {
			return err
		}
	}
	// --- bulk ---
	tries := 0
	for i, b := range bulks {
		for {
			s := c15PickStart(r)
			if i%3 == 0 || cfg.tier == "search" {
				s = 0xFFFFFFFF - uint32(r.Intn(b.g*b.per)) // the 32-bit wrap falls inside the burst
			} else if i%3 == 1 {
				s = uint32(r.Intn(65536))<<16 | uint32(0xFFFF-r.Intn(c15Min(b.g*b.per, 60000))) // a 16-bit wrap falls inside
			}
			res, err := c15RunBulk(o, s, b.g, b.per, b.mode)
			if err != nil {
				return err
			}
			tries++
			if res.skip {
				o.dropped++
				break
			}
			if b.mode != 1 || res.contended || res.suspicious || tries >= maxTry || c15GiveUp() {
				o.keepBulk(res)
				break
			}
			o.dropped++ // no overlap proved and nothing wrong seen: try again for a better burst
		}
	}
	// --- wrapc: the wrap-around under contention ---
	if err := c15Wrapc(o, r, cfg.tier); err != nil {
		return err
	}
	// --- retry: identifiers through RetryClient ---
	if err := c15Retry(o, r, cfg.tier); err != nil {
		return err
	}
	// --- handle: retry handles run on another client ---
	if err := c15Handle(o, r, cfg.tier); err != nil {
		return err
	}
	// --- fault: a rejected write while other callers hold later identifiers ---
	if err := c15Fault(o, r, cfg.tier); err != nil {
		return err
	}
	// --- cycle / F13 probe ---
	f13 := 0
	for i := 0; i < cycles; i++ {
		var s uint32
		switch (int(cfg.seed) + i) % 3 {
		case 0:
			s = 0xFFFFFFFF - uint32(20000+r.Intn(30000)) // 32-bit wrap inside the cycle
		case 1:
			s = uint32(r.Intn(0xFFFE)) + 1 // an initID value
		default:
			s = r.Uint32()
		}
		seen, err := c15RunCycle(o, s, 70000)
		if err != nil {
			return err
		}
		if seen {
			f13++
		}
	}
	if f13 > 0 {
		m.Known = append(m.Known, "F13")
	}

	cf.def("seq_cases", "list c15_seq_case", cList(o.seq))
	cf.result("V_seq", "c15_seq_violations seq_cases")
	cf.result("M_seq", "c15_seq_mismatches seq_cases")
	cf.def("conc_cases", "list c15_conc_case", cList(o.conc))
	cf.result("V_conc", "c15_conc_violations conc_cases")
	cf.result("M_conc", "c15_conc_mismatches conc_cases")
	cf.def("bulk_cases", "list c15_bulk_case", cList(o.bulk))
	cf.result("V_bulk", "c15_bulk_violations bulk_cases")
	cf.result("M_bulk", "c15_bulk_mismatches bulk_cases")
	cf.def("wrapc_cases", "list c15_bulk_case", cList(o.wrapc))
	cf.result("V_wrapc", "c15_wrapc_violations wrapc_cases")
	cf.result("M_wrapc", "c15_wrapc_mismatches wrapc_cases")
	cf.def("retry_cases", "list c15_retry_case", cList(o.retry))
	cf.result("V_retry", "c15_retry_violations retry_cases")
	cf.result("M_retry", "c15_retry_mismatches retry_cases")
	cf.def("handle_cases", "list c15_handle_case", cList(o.handle))
	cf.result("V_handle", "c15_handle_violations handle_cases")
	cf.result("M_handle", "c15_handle_mismatches handle_cases")
	cf.def("fault_cases", "list c15_seq_case", cList(o.fault))
	cf.result("V_fault", "c15_seq_violations fault_cases")
	cf.result("M_fault", "c15_seq_mismatches fault_cases")
	cf.def("cycle_cases", "list c15_cycle_case", cList(o.cycle))
	cf.result("V_cycle", "c15_cycle_violations cycle_cases")
	cf.result("M_cycle", "c15_cycle_mismatches cycle_cases")

	m.ImplViolations = o.impl
	m.Evaluations = len(o.seq) + len(o.conc) + len(o.bulk) + len(o.cycle) + len(o.wrapc) + len(o.retry) + len(o.handle) + len(o.fault)
	m.DistinctNontrivial = len(o.nontriv) + o.nontrivN
	m.Rule = "one evaluation = one scenario on a fresh connected BaseClient with the counter set by VerifSetIDLast (or left as initID chose it): seq = a history of requests and acknowledgements by one caller; conc = 1-16 callers in parallel, all requests outstanding; bulk = thousands of goroutines released together; cycle = one request never acknowledged + 70,000 acknowledged publishes (full cycle, reproduces F13); wrapc = one distinct outcome of the short contention trials at a wrap-around (thousands of trials, identical outcomes counted once); retry = one scenario of publishes, cuts and reconnections through a RetryClient; handle = a request interrupted on client A whose retry handle is run on client B with requests outstanding; fault = a request whose Transport.Write is held and then rejected (connection stays usable) while other callers take later identifiers, followed by further requests. non-trivial = distinct scenario with at least 3 requests (seq), at least 2 callers and 4 requests (conc), every bulk, cycle and wrapc entry, retry scenarios with at least 4 PUBLISH attempts"
	m.Distribution["scenarios"] = map[string]int{"seq": len(o.seq), "conc": len(o.conc), "bulk": len(o.bulk), "cycle": len(o.cycle), "wrapc": len(o.wrapc), "retry": len(o.retry), "handle": len(o.handle), "fault": len(o.fault)}
	m.Distribution["requests_issued"] = o.requests
	m.Distribution["request_kinds"] = o.kinds
	m.Distribution["start_counter"] = o.starts
	m.Distribution["f13_reproduced_in_cycles"] = f13
	m.Distribution["bursts_with_overlap_proved_by_control_counter"] = o.contended
	m.Distribution["bursts_repeated_for_lack_of_overlap"] = o.dropped
	m.Distribution["fault_family_interleaving_not_realisable"] = o.faultNotRealised
	m.Distribution["waits_expired"] = atomic.LoadInt32(&c15Expired)
	m.Distribution["scenarios_skipped_after_expired_waits"] = o.skipped
	if err := cf.write(cfg.outDir); err != nil {
		return err
	}
	return m.write(cfg.outDir)
}
