package main

// C12, base-client family "handle": the retry handle (ErrorWithRetry) of an interrupted Publish, run
// in isolation on real BaseClients over memConn.
//
// A scenario is a chain: Publish on client 0, interrupted at a scripted point (Write of PUBLISH
// fails / connection closed while waiting / ctx done while waiting / for QoS 2 the same at the PUBREL
// step); the returned ErrorWithRetry is Retry()ed on the next target — a fresh connected client, the
// same client again, or a client that never connected — on which OTHER requests may be blocked
// un-acknowledged under the SAME packet identifier (a Publish waiting for PUBACK / PUBREC / PUBCOMP, a
// Subscribe, an Unsubscribe; identifier given by the caller or drawn by the library from a counter
// placed with VerifSetIDLast), and so on for 2-4 attempts.
// Observed per attempt: every PUBLISH / PUBREL handed to the target's Transport.Write during the call
// (identifier, DUP, QoS, retain, topic, payload, whether Write succeeded), how the call ended,
// Message.ID afterwards; at the end, what became of each other request (does its acknowledgement still
// reach it?). V_handle judges the packets with RetryHandle.chain_faithful, M_handle compares
// everything with the model RetryHandle.v. All scheduling is by the transport's synchronous onWrite
// and channels; every wait has a 10 s timeout (recorded as "did not return").

import (
	"context"
	"errors"
	"fmt"
	"math/rand"
	"strings"
	"sync"
	"sync/atomic"
	"time"

	mqtt "github.com/at-wat/mqtt-go"
)

func init() { rsExtra["C12"] = c12bFamily }

// c12bCfg is set by runC12 (the rsExtra hook does not receive the run configuration).
var c12bCfg = &runCfg{tier: "quick", seed: 1}

// ---------------------------------------------------------------- packets as seen at the transport

type c12bPkt struct {
	Kind    string // publish, pubrel, subscribe, unsubscribe, puback, other
	ID      uint16
	QoS     byte
	Dup     bool
	Retain  bool
	Topic   []byte
	Payload []byte
	OK      bool // Write returned nil
	ByM     bool // written during an attempt of the message under test
	Idx     int  // position in the connection's log
}

func c12bDecode(pkt []byte) c12bPkt {
	p := c12bPkt{Kind: "other"}
	if len(pkt) < 2 {
		return p
	}
	i := 1
	for i < len(pkt) && pkt[i]&0x80 != 0 {
		i++
	}
	i++
	if i > len(pkt) {
		return p
	}
	body := pkt[i:]
	id16 := func(b []byte) uint16 {
		if len(b) < 2 {
			return 0
		}
		return uint16(b[0])<<8 | uint16(b[1])
	}
	switch pkt[0] & 0xF0 {
	case 0x30:
		p.Kind = "publish"
		p.QoS = (pkt[0] >> 1) & 3
		p.Dup = pkt[0]&8 != 0
		p.Retain = pkt[0]&1 != 0
		if len(body) < 2 {
			return p
		}
		tl := int(body[0])<<8 | int(body[1])
		if len(body) < 2+tl {
			return p
		}
		p.Topic = append([]byte{}, body[2:2+tl]...)
		rest := body[2+tl:]
		if p.QoS > 0 {
			p.ID = id16(rest)
			if len(rest) >= 2 {
				rest = rest[2:]
			}
		}
		p.Payload = append([]byte{}, rest...)
	case 0x60:
		p.Kind = "pubrel"
		p.ID = id16(body)
	case 0x40:
		p.Kind = "puback"
		p.ID = id16(body)
	case 0x80, 0xA0:
		p.Kind = "subscribe"
		if pkt[0]&0xF0 == 0xA0 {
			p.Kind = "unsubscribe"
		}
		p.ID = id16(body)
		if len(body) >= 4 {
			tl := int(body[2])<<8 | int(body[3])
			if len(body) >= 4+tl {
				p.Topic = append([]byte{}, body[4:4+tl]...)
			}
		}
	}
	return p
}

// ---------------------------------------------------------------- a BaseClient over a scripted memConn

type c12bConn struct {
	idx       int
	conn      *memConn
	cli       *mqtt.BaseClient
	connected bool
	mu        sync.Mutex
	log       []c12bPkt
	react     func(p *c12bPkt) error // runs on the writer's goroutine; its result is Write's result
	inAttempt bool
	notify    chan c12bPkt
	nOthers   int      // other requests started on this connection
	strayOps  []string // late acknowledgements delivered since the last attempt on it (for the model: MUnreg)
}

func (cc *c12bConn) onWrite(c *memConn, pkt []byte) error {
	if pkt[0]&0xF0 == 0x10 {
		c.send(connackOK)
		return nil
	}
	p := c12bDecode(pkt)
	dead := c.isClosed()
	cc.mu.Lock()
	react := cc.react
	p.ByM = cc.inAttempt
	cc.mu.Unlock()
	var err error
	if dead {
		err = errClosedConn // memConn.Write returns it itself; this call only logs the attempt
	} else if react != nil {
		err = react(&p)
	}
	p.OK = err == nil
	cc.mu.Lock()
	p.Idx = len(cc.log)
	cc.log = append(cc.log, p)
	cc.mu.Unlock()
	select {
	case cc.notify <- p:
	default:
	}
	if dead {
		return nil
	}
	return err
}

func (cc *c12bConn) setReact(f func(p *c12bPkt) error, inAttempt bool) {
	cc.mu.Lock()
	cc.react = f
	cc.inAttempt = inAttempt
	cc.mu.Unlock()
}

func (cc *c12bConn) logLen() int {
	cc.mu.Lock()
	defer cc.mu.Unlock()
	return len(cc.log)
}

func (cc *c12bConn) logFrom(i int) []c12bPkt {
	cc.mu.Lock()
	defer cc.mu.Unlock()
	return append([]c12bPkt{}, cc.log[i:]...)
}

// once a wait has expired the tree under test is broken anyway: do not spend 10 s on each later one
var c12bExpired int32

func c12bTimeout() time.Duration {
	if atomic.LoadInt32(&c12bExpired) > 0 {
		return 2 * time.Second
	}
	return 10 * time.Second
}

// waitPkt waits for a logged packet (index >= from) satisfying pred.
func (cc *c12bConn) waitPkt(from int, pred func(p *c12bPkt) bool) (c12bPkt, bool) {
	t := time.NewTimer(c12bTimeout())
	defer t.Stop()
	for {
		select {
		case p := <-cc.notify:
			if p.Idx >= from && pred(&p) {
				return p, true
			}
		case <-t.C:
			atomic.AddInt32(&c12bExpired, 1)
			return c12bPkt{}, false
		}
	}
}

func c12bNewConn(idx int, connect bool) (*c12bConn, error) {
	cc := &c12bConn{idx: idx, notify: make(chan c12bPkt, 256)}
	cc.conn = newMemConn(idx, cc.onWrite)
	cc.cli = &mqtt.BaseClient{Transport: cc.conn}
	if connect {
		ctx, cancel := ctxTimeout(10 * time.Second)
		defer cancel()
		if _, err := cc.cli.Connect(ctx, "c12b"); err != nil {
			return nil, err
		}
		cc.connected = true
	}
	return cc, nil
}

// what newID returns when the counter stands at last (uniqid.go:31-37)
func c12bNextID(last uint32) uint16 {
	id := uint16(last + 1)
	if id == 0 {
		id = uint16(last + 2)
	}
	return id
}

// ---------------------------------------------------------------- scenarios

const (
	c12bEnvW = 0 // Write fails
	c12bEnvC = 1 // connection closed while waiting
	c12bEnvX = 2 // ctx done while waiting
	c12bEnvA = 3 // acknowledged
)

var c12bEnvNames = []string{"write-fails", "closed-while-waiting", "ctx-done-while-waiting", "acknowledged"}
var c12bKindNames = []string{"Publish QoS1 waiting PUBACK", "Publish QoS2 waiting PUBREC", "Publish QoS2 waiting PUBCOMP", "Subscribe waiting SUBACK", "Unsubscribe waiting UNSUBACK"}

type c12bOtherSpec struct {
	Kind   int  // 0 PUBACK waiter, 1 PUBREC waiter, 2 PUBCOMP waiter, 3 SUBACK waiter, 4 UNSUBACK waiter
	ByLib  bool // identifier drawn by the library (counter placed with VerifSetIDLast) instead of Message.ID
	IDPlus int  // identifier = the message's identifier + IDPlus (skipping 0)
}

type c12bStepPlan struct {
	Target string // fresh, same, unconnected
	Others []c12bOtherSpec
	EP, ER int
	// Late: acknowledgements for the message's identifier which the (slow) peer delivers AFTER the call
	// has returned, on the connection the call ran on (0 PUBACK, 1 PUBREC, 2 PUBCOMP; duplicates
	// allowed). Only on a live connection without other requests.
	Late []int
}

type c12bScenario struct {
	QoS     byte
	Retain  bool
	Topic   string
	Payload []byte
	IDMode  int    // 0 caller-provided, 1 library-chosen from a placed counter, 2 library-chosen from initID's start
	GivenID uint16 // IDMode 0
	Start   uint32 // IDMode 1: idLast before Publish
	Steps   []c12bStepPlan
}

func (sc *c12bScenario) text() string {
	var sb strings.Builder
	switch sc.IDMode {
	case 0:
		fmt.Fprintf(&sb, "Publish(QoS%d retain=%v topic=%q payload=%v ID=%d given by the caller)", sc.QoS, sc.Retain, sc.Topic, sc.Payload, sc.GivenID)
	case 1:
		fmt.Fprintf(&sb, "Publish(QoS%d retain=%v topic=%q payload=%v ID=0, idLast placed at %#x)", sc.QoS, sc.Retain, sc.Topic, sc.Payload, sc.Start)
	default:
		fmt.Fprintf(&sb, "Publish(QoS%d retain=%v topic=%q payload=%v ID=0, counter as initID left it)", sc.QoS, sc.Retain, sc.Topic, sc.Payload)
	}
	for i, st := range sc.Steps {
		if i == 0 {
			sb.WriteString(" on a ")
		} else {
			sb.WriteString("; then Retry on ")
		}
		switch st.Target {
		case "fresh":
			sb.WriteString("fresh connected client")
		case "same":
			sb.WriteString("the same client")
		default:
			sb.WriteString("client that never connected")
		}
		for _, o := range st.Others {
			how := "Message.ID"
			if o.ByLib || o.Kind >= 3 {
				how = "library-chosen"
			}
			fmt.Fprintf(&sb, " [other: %s under id+%d (%s)]", c12bKindNames[o.Kind], o.IDPlus, how)
		}
		fmt.Fprintf(&sb, " PUBLISH:%s", c12bEnvNames[st.EP])
		if sc.QoS == 2 {
			fmt.Fprintf(&sb, " PUBREL:%s", c12bEnvNames[st.ER])
		}
		if len(st.Late) > 0 {
			sb.WriteString(" {after the call returned the peer delivers late:")
			for _, k := range st.Late {
				sb.WriteString(" " + []string{"PUBACK", "PUBREC", "PUBCOMP"}[k])
			}
			sb.WriteString("}")
		}
	}
	return sb.String()
}

// ---------------------------------------------------------------- running one scenario

type c12bOther struct {
	owner  int
	conn   *c12bConn
	kind   int
	id     uint16
	cancel context.CancelFunc
	done   chan error
	regIdx int
	ops    []string // how it changed the signaller, for the model
}

type c12bAtt struct {
	conn   int
	gap    []c12bPkt // PUBLISH / PUBREL written on the connection after the call, while late acks were delivered
	late   int       // late acknowledgements actually delivered
	pkts   []c12bPkt
	class  int
	cause  int
	id     uint16
	errTxt string
	stray  int // packets other than PUBLISH / PUBREL written during the call
}

type c12bExecStep struct {
	conn  int
	ops   []string
	fresh uint16
	ep    int
	er    int
}

type c12bCase struct {
	sc      *c12bScenario
	conns   []bool
	steps   []c12bExecStep
	atts    []c12bAtt
	others  []*c12bOther
	fates   []int
	natural bool
	err     error
}

func c12bClassify(err error, panicked bool, stuck bool) (int, int) {
	switch {
	case stuck:
		return 6, 0
	case panicked:
		return 5, 0
	case err == nil:
		return 0, 0
	}
	if _, ok := err.(mqtt.ErrorWithRetry); ok {
		switch {
		case errors.Is(err, mqtt.ErrClosedTransport):
			return 1, 2
		case errors.Is(err, context.Canceled), errors.Is(err, context.DeadlineExceeded):
			return 1, 3
		case errors.Is(err, errCut), errors.Is(err, errClosedConn):
			return 1, 1
		}
		return 1, 0
	}
	switch {
	case errors.Is(err, mqtt.ErrNotConnected):
		return 3, 0
	case errors.Is(err, mqtt.ErrInvalidQoS):
		return 4, 0
	case errors.Is(err, errCut), errors.Is(err, errClosedConn):
		return 2, 0
	}
	return 7, 0
}

type c12bResult struct {
	err      error
	panicked bool
	msg      string
}

// c12bCall runs f on its own goroutine, recovering a panic of the library as an observation.
func c12bCall(f func() error) chan c12bResult {
	ch := make(chan c12bResult, 1)
	go func() {
		defer func() {
			if r := recover(); r != nil {
				ch <- c12bResult{panicked: true, msg: fmt.Sprint(r)}
			}
		}()
		ch <- c12bResult{err: f()}
	}()
	return ch
}

func c12bAckFor(kind int, id uint16) []byte {
	switch kind {
	case 0:
		return encID(0x40, id)
	case 1:
		return encID(0x50, id)
	case 2:
		return encID(0x70, id)
	case 3:
		return encFrame(0x90, []byte{byte(id >> 8), byte(id), 1})
	default:
		return encID(0xB0, id)
	}
}

func c12bIDPlus(id uint16, plus int) uint16 {
	for i := 0; i < plus; i++ {
		id++
		if id == 0 {
			id = 1
		}
	}
	return id
}

// setUpOther starts another request on cc and returns once it is blocked waiting for its
// acknowledgement with its waiter registered (registration precedes the Write we wait for).
func c12bSetUpOther(cc *c12bConn, spec c12bOtherSpec, owner int, id uint16) (*c12bOther, error) {
	o := &c12bOther{owner: owner, conn: cc, kind: spec.Kind, id: id, done: make(chan error, 1)}
	ctx, cancel := context.WithCancel(context.Background())
	o.cancel = cancel
	topic := fmt.Sprintf("o%d", owner)
	from := cc.logLen()
	byLib := spec.ByLib || spec.Kind >= 3
	if byLib {
		cc.cli.VerifSetIDLast(uint32(id) - 1) // id >= 1; 0 -> newID gives 1
	}
	cc.setReact(func(p *c12bPkt) error {
		if spec.Kind == 2 && p.Kind == "publish" && string(p.Topic) == topic {
			cc.conn.send(encID(0x50, p.ID))
		}
		return nil
	}, false)
	switch spec.Kind {
	case 0, 1, 2:
		q := mqtt.QoS1
		if spec.Kind > 0 {
			q = mqtt.QoS2
		}
		m := &mqtt.Message{Topic: topic, QoS: q, Payload: []byte{0xEE}}
		if !byLib {
			m.ID = id
		}
		go func() {
			r := <-c12bCall(func() error { return cc.cli.Publish(ctx, m) })
			if r.panicked {
				o.done <- errors.New("panic: " + r.msg)
			} else {
				o.done <- r.err
			}
		}()
	case 3:
		go func() {
			r := <-c12bCall(func() error {
				_, err := cc.cli.Subscribe(ctx, mqtt.Subscription{Topic: topic, QoS: mqtt.QoS1})
				return err
			})
			if r.panicked {
				o.done <- errors.New("panic: " + r.msg)
			} else {
				o.done <- r.err
			}
		}()
	default:
		go func() {
			r := <-c12bCall(func() error { return cc.cli.Unsubscribe(ctx, topic) })
			if r.panicked {
				o.done <- errors.New("panic: " + r.msg)
			} else {
				o.done <- r.err
			}
		}()
	}
	want := []string{"publish", "publish", "publish", "subscribe", "unsubscribe"}[spec.Kind]
	p, ok := cc.waitPkt(from, func(p *c12bPkt) bool { return p.Kind == want && string(p.Topic) == topic })
	if !ok {
		return o, fmt.Errorf("other request %d (%s) did not write its packet", owner, c12bKindNames[spec.Kind])
	}
	o.id = p.ID // what it really went out under (the model is told the truth)
	if spec.Kind == 2 {
		if _, ok := cc.waitPkt(from, func(q *c12bPkt) bool { return q.Kind == "pubrel" && q.ID == p.ID }); !ok {
			return o, fmt.Errorf("other request %d did not reach its PUBREL", owner)
		}
	}
	o.regIdx = cc.logLen()
	switch spec.Kind {
	case 2:
		o.ops = []string{fmt.Sprintf("hbReg 1 %%d %d%%%%nat", owner), "hbUnreg 1 %d", fmt.Sprintf("hbReg 2 %%d %d%%%%nat", owner)}
	default:
		o.ops = []string{fmt.Sprintf("hbReg %d %%d %d%%%%nat", spec.Kind, owner)}
	}
	return o, nil
}

func c12bMapOf(p *c12bPkt) int {
	switch {
	case p.Kind == "publish" && p.QoS == 1:
		return 0
	case p.Kind == "publish" && p.QoS == 2:
		return 1
	case p.Kind == "pubrel":
		return 2
	}
	return -1
}

func c12bFate(err error, returned bool) int {
	if !returned {
		return 3
	}
	if err == nil {
		return 1
	}
	if _, ok := err.(mqtt.ErrorWithRetry); ok {
		return 2
	}
	return 3
}

func (o *c12bOther) wait() (error, bool) {
	tm := time.NewTimer(c12bTimeout())
	defer tm.Stop()
	select {
	case err := <-o.done:
		return err, true
	case <-tm.C:
		atomic.AddInt32(&c12bExpired, 1)
		return nil, false
	}
}

// resolve decides what became of an other request once the chain is over.
func (o *c12bOther) resolve() int {
	cc := o.conn
	if cc.conn.isClosed() {
		// the connection went down during an attempt: every blocked request returns by itself
		err, ok := o.wait()
		return c12bFate(err, ok)
	}
	overwritten := false
	for _, p := range cc.logFrom(o.regIdx) {
		if p.ByM && c12bMapOf(&p) == o.kind && p.ID == o.id {
			overwritten = true // the message under test registered in the same map under the same id afterwards
		}
	}
	if !overwritten {
		// its acknowledgement must still reach it
		cc.setReact(func(p *c12bPkt) error {
			if p.Kind == "pubrel" {
				cc.conn.send(encID(0x70, p.ID))
			}
			return nil
		}, false)
		cc.conn.send(c12bAckFor(o.kind, o.id))
		err, ok := o.wait()
		if !ok {
			o.cancel()
			o.wait()
		}
		return c12bFate(err, ok)
	}
	// its waiter was replaced: the acknowledgement must NOT reach it. Send it, make sure the reader
	// goroutine has processed it (an inbound QoS 1 PUBLISH behind it is answered with PUBACK), then
	// cancel the request: it returns its own ErrorWithRetry, not nil.
	cc.setReact(nil, false)
	from := cc.logLen()
	cc.conn.send(c12bAckFor(o.kind, o.id))
	cc.conn.send(encPublish(inMsg{Topic: []byte("b"), ID: 9, QoS: 1, Payload: []byte{1}}))
	if _, ok := cc.waitPkt(from, func(p *c12bPkt) bool { return p.Kind == "puback" && p.ID == 9 }); !ok {
		o.cancel()
		o.wait()
		return 3
	}
	o.cancel()
	err, ok := o.wait()
	return c12bFate(err, ok)
}

func c12bRun(sc *c12bScenario) *c12bCase {
	cs := &c12bCase{sc: sc, natural: sc.IDMode == 2}
	var conns []*c12bConn
	defer func() {
		for _, o := range cs.others {
			o.cancel()
		}
		for _, cc := range conns {
			cc.cli.Close()
		}
	}()
	msg := &mqtt.Message{Topic: sc.Topic, QoS: mqtt.QoS(sc.QoS), Retain: sc.Retain, Payload: append([]byte{}, sc.Payload...)}
	if sc.IDMode == 0 {
		msg.ID = sc.GivenID
	}
	var handle mqtt.ErrorWithRetry
	var cur *c12bConn
	owner := 10 // tags of other requests: 11, 12, ... (attempts of the message are tagged 0, 1, 2, ...; chains have at most 4)
	for i, st := range sc.Steps {
		st := st
		if i > 0 && handle == nil {
			break
		}
		var cc *c12bConn
		switch st.Target {
		case "same":
			cc = cur
		default:
			var err error
			cc, err = c12bNewConn(len(conns), st.Target == "fresh")
			if err != nil {
				cs.err = fmt.Errorf("connecting client %d: %v", len(conns), err)
				return cs
			}
			conns = append(conns, cc)
			cs.conns = append(cs.conns, cc.connected)
		}
		cur = cc
		if i == 0 && sc.IDMode == 1 {
			cc.cli.VerifSetIDLast(sc.Start)
		}
		ex := c12bExecStep{conn: cc.idx, ep: st.EP, er: st.ER}
		ex.ops = append(ex.ops, cc.strayOps...) // what the late acknowledgements did to this client's signaller
		cc.strayOps = nil
		if cc.connected && (i > 0 || sc.IDMode == 0) {
			for _, spec := range st.Others {
				owner++
				cc.nOthers++
				o, err := c12bSetUpOther(cc, spec, owner, c12bIDPlus(msg.ID, spec.IDPlus))
				cs.others = append(cs.others, o)
				if err != nil {
					cs.err = err
					return cs
				}
				for _, op := range o.ops {
					ex.ops = append(ex.ops, fmt.Sprintf(op, o.id))
				}
			}
		}
		ex.fresh = c12bNextID(cc.cli.VerifIDLast())
		cs.steps = append(cs.steps, ex)

		ctx, cancel := context.WithCancel(context.Background())
		react := func(p *c12bPkt) error {
			var e int
			switch p.Kind {
			case "publish":
				e = st.EP
			case "pubrel":
				e = st.ER
			default:
				return nil
			}
			switch e {
			case c12bEnvW:
				return errCut
			case c12bEnvC:
				cc.conn.Close()
			case c12bEnvX:
				cancel()
			default:
				switch {
				case p.Kind == "pubrel":
					cc.conn.send(encID(0x70, p.ID))
				case p.QoS == 1:
					cc.conn.send(encID(0x40, p.ID))
				case p.QoS == 2:
					cc.conn.send(encID(0x50, p.ID))
				}
			}
			return nil
		}
		start := cc.logLen()
		cc.setReact(react, true)
		var ch chan c12bResult
		if i == 0 {
			ch = c12bCall(func() error { return cc.cli.Publish(ctx, msg) })
		} else {
			h := handle
			ch = c12bCall(func() error { return h.Retry(ctx, cc.cli) })
		}
		var res c12bResult
		stuck := false
		tm := time.NewTimer(c12bTimeout())
		select {
		case res = <-ch:
		case <-tm.C:
			atomic.AddInt32(&c12bExpired, 1)
			stuck = true
		}
		tm.Stop()
		cc.setReact(nil, false)
		att := c12bAtt{conn: cc.idx}
		for _, p := range cc.logFrom(start) {
			if p.Kind == "publish" || p.Kind == "pubrel" {
				att.pkts = append(att.pkts, p)
			} else {
				att.stray++
			}
		}
		att.class, att.cause = c12bClassify(res.err, res.panicked, stuck)
		if res.err != nil {
			att.errTxt = res.err.Error()
		}
		if res.panicked {
			att.errTxt = "panic: " + res.msg
		}
		if stuck {
			// release the call; the message is not read while the call may still touch it
			cancel()
			cc.conn.Close()
			select {
			case <-ch:
			case <-time.After(c12bTimeout()):
			}
			cs.atts = append(cs.atts, att)
			handle = nil
			cancel()
			break
		}
		att.id = msg.ID
		cancel()
		if len(st.Late) > 0 && cc.connected && cc.nOthers == 0 && !cc.conn.isClosed() && msg.ID != 0 {
			// the slow peer answers now; a barrier (inbound QoS 1 PUBLISH, answered with PUBACK by the
			// reader goroutine behind them) proves the reader has processed every one of them
			from := cc.logLen()
			for _, k := range st.Late {
				cc.conn.send(c12bAckFor(k, msg.ID))
				cc.strayOps = append(cc.strayOps, fmt.Sprintf("hbUnreg %d %d", k, msg.ID))
				att.late++
			}
			cc.conn.send(encPublish(inMsg{Topic: []byte("b"), ID: 9, QoS: 1, Payload: []byte{1}}))
			if _, ok := cc.waitPkt(from, func(p *c12bPkt) bool { return p.Kind == "puback" && p.ID == 9 }); !ok {
				cs.err = fmt.Errorf("the reader did not answer the barrier after late acknowledgements (attempt %d)", i)
				cs.atts = append(cs.atts, att)
				return cs
			}
			for _, p := range cc.logFrom(from) {
				if p.Kind == "publish" || p.Kind == "pubrel" {
					att.gap = append(att.gap, p)
				}
			}
		}
		cs.atts = append(cs.atts, att)
		handle = nil
		if att.class == 1 {
			handle = res.err.(mqtt.ErrorWithRetry)
		}
	}
	for _, o := range cs.others {
		cs.fates = append(cs.fates, o.resolve())
	}
	return cs
}

// ---------------------------------------------------------------- printing

type c12bRen struct {
	on   bool
	seen map[uint16]uint64
}

// Identifiers are renamed by first appearance (1, 2, 3, ...; 0 stays 0): the model and the predicates
// use identifiers only through equality and through "is it 0", so an injective renaming changes no
// result; it makes the cases independent of initID's random start and keeps the numerals short
// (Coq interprets every numeral by computation: five-digit identifiers doubled the evaluation time).
// The real identifiers are in the replay description.
func (r *c12bRen) id(x uint16) uint64 {
	if !r.on || x == 0 {
		return uint64(x)
	}
	if v, ok := r.seen[x]; ok {
		return v
	}
	v := uint64(1 + len(r.seen))
	r.seen[x] = v
	return v
}

func (cs *c12bCase) coq() string {
	r := &c12bRen{on: true, seen: map[uint16]uint64{}}
	sc := cs.sc
	var cl []string
	for _, c := range cs.conns {
		cl = append(cl, cBool(c))
	}
	given := uint16(0)
	if sc.IDMode == 0 {
		given = sc.GivenID
	}
	msg := fmt.Sprintf("hbM %d %d %s %s %s", r.id(given), sc.QoS, cBool(sc.Retain), cStr(sc.Topic), cBytes(sc.Payload))
	var steps []string
	for _, ex := range cs.steps {
		ops := make([]string, len(ex.ops))
		for i, op := range ex.ops {
			ops[i] = c12bRenOp(op, r)
		}
		steps = append(steps, fmt.Sprintf("hbS %s %s %d %d %d", cNat(ex.conn), cListInline(ops), r.id(ex.fresh), ex.ep, ex.er))
	}
	var others []string
	for _, o := range cs.others {
		others = append(others, fmt.Sprintf("hbO %s %s %d %d", cNat(o.owner), cNat(o.conn.idx), o.kind, r.id(o.id)))
	}
	first, rest := "hbS 0%nat [] 1 3 3", []string{}
	if len(steps) > 0 {
		first, rest = steps[0], steps[1:]
	}
	scen := fmt.Sprintf("{| hc_clients := %s; hc_msg := %s; hc_first := %s; hc_rest := %s; hc_others := %s |}",
		cListInline(cl), msg, first, cListInline(rest), cListInline(others))
	var atts []string
	wevs := func(pkts []c12bPkt) string {
		var w []string
		for _, p := range pkts {
			if p.Kind == "publish" {
				w = append(w, fmt.Sprintf("hbP %d %d %s %s %s %s %s", r.id(p.ID), p.QoS, cBool(p.Retain), cBool(p.Dup), cBool(p.OK), cBytes(p.Topic), cBytes(p.Payload)))
			} else {
				w = append(w, fmt.Sprintf("hbR %d %s", r.id(p.ID), cBool(p.OK)))
			}
		}
		return cListInline(w)
	}
	for _, a := range cs.atts {
		atts = append(atts, fmt.Sprintf("hbA %s %s %d %d %d", wevs(a.pkts), wevs(a.gap), a.class, a.cause, r.id(a.id)))
	}
	var fates []string
	for _, f := range cs.fates {
		fates = append(fates, fmt.Sprint(f))
	}
	obs := fmt.Sprintf("{| ho_atts := %s; ho_fates := %s |}", cListInline(atts), cListInline(fates))
	return cTuple(scen, obs)
}

// ops are printed with the real identifier; rename it if needed ("hbReg k ID owner%nat" / "hbUnreg k ID")
func c12bRenOp(op string, r *c12bRen) string {
	if !r.on {
		return op
	}
	f := strings.Fields(op)
	if len(f) >= 3 {
		var id uint16
		fmt.Sscanf(f[2], "%d", &id)
		f[2] = fmt.Sprint(r.id(id))
	}
	return strings.Join(f, " ")
}

func (cs *c12bCase) describe() map[string]interface{} {
	var atts []string
	classes := []string{"nil", "ErrorWithRetry", "write error without handle", "ErrNotConnected", "ErrInvalidQoS", "PANIC", "DID NOT RETURN", "other error"}
	causes := []string{"", " (write error)", " (ErrClosedTransport)", " (context)"}
	txt := func(pkts []c12bPkt) []string {
		var w []string
		for _, p := range pkts {
			okTxt := ""
			if !p.OK {
				okTxt = " write-failed"
			}
			if p.Kind == "publish" {
				w = append(w, fmt.Sprintf("PUBLISH(id=%d dup=%v qos=%d retain=%v topic=%q payload=%v%s)", p.ID, p.Dup, p.QoS, p.Retain, string(p.Topic), p.Payload, okTxt))
			} else {
				w = append(w, fmt.Sprintf("PUBREL(id=%d%s)", p.ID, okTxt))
			}
		}
		return w
	}
	for i, a := range cs.atts {
		t := fmt.Sprintf("attempt %d on client %d wrote %v -> %s%s, Message.ID=%d %s", i, a.conn, txt(a.pkts), classes[a.class], causes[a.cause], a.id, a.errTxt)
		if a.late > 0 {
			t += fmt.Sprintf("; then %d late acknowledgement(s) delivered, meanwhile written on the connection: %v", a.late, txt(a.gap))
		}
		atts = append(atts, t)
	}
	var oth []string
	fateTxt := []string{"?", "acknowledged (returned nil)", "never signalled (returned its own ErrorWithRetry)", "UNEXPECTED"}
	for i, o := range cs.others {
		f := 0
		if i < len(cs.fates) {
			f = cs.fates[i]
		}
		oth = append(oth, fmt.Sprintf("other %d on client %d: %s under id %d -> %s", o.owner, o.conn.idx, c12bKindNames[o.kind], o.id, fateTxt[f]))
	}
	return map[string]interface{}{"scenario": cs.sc.text(), "attempts": atts, "others": oth}
}

// ---------------------------------------------------------------- generation

// target kinds of the enumerated second attempt, relative to the map the handle registers in
func c12bTargets(handleMap int) []c12bStepPlan {
	otherPub := map[int]int{0: 1, 1: 0, 2: 0}[handleMap]
	comp := 2
	if handleMap == 2 {
		comp = 1
	}
	same := c12bOtherSpec{Kind: handleMap}
	return []c12bStepPlan{
		{Target: "fresh"},
		{Target: "fresh", Others: []c12bOtherSpec{same}},
		{Target: "fresh", Others: []c12bOtherSpec{{Kind: handleMap, ByLib: true}}},
		{Target: "fresh", Others: []c12bOtherSpec{{Kind: otherPub}}},
		{Target: "fresh", Others: []c12bOtherSpec{{Kind: comp, ByLib: true}}},
		{Target: "fresh", Others: []c12bOtherSpec{{Kind: 3}}},
		{Target: "fresh", Others: []c12bOtherSpec{{Kind: 4}}},
		{Target: "fresh", Others: []c12bOtherSpec{{Kind: handleMap, IDPlus: 1}}},
		{Target: "same"},
		{Target: "unconnected"},
		{Target: "fresh", Others: []c12bOtherSpec{same, {Kind: 3}}},
	}
}

type c12bEnv struct{ ep, er int }

func c12bEnvs(qos byte, rel bool) []c12bEnv {
	if rel {
		return []c12bEnv{{3, 0}, {3, 1}, {3, 2}, {3, 3}}
	}
	if qos == 1 {
		return []c12bEnv{{0, 3}, {1, 3}, {2, 3}, {3, 3}}
	}
	return []c12bEnv{{0, 3}, {1, 3}, {2, 3}, {3, 0}, {3, 1}, {3, 2}, {3, 3}}
}

func c12bSetID(sc *c12bScenario, mode int, r *rand.Rand) {
	switch mode % 4 {
	case 0:
		sc.IDMode, sc.GivenID = 0, uint16(1+r.Intn(0xFFFF))
	case 1:
		sc.IDMode, sc.Start = 1, uint32(r.Intn(0xFFFE))+uint32(r.Intn(3))<<16
	case 2:
		// around the wrap of the 16-bit identifier: next is 0xFFFF (id+1 wraps to 1) or 1 (after skipping 0)
		sc.IDMode, sc.Start = 1, []uint32{0xFFFE, 0xFFFF, 0x1FFFF, 0xFFFFFFFF, 0}[r.Intn(5)]
	default:
		sc.IDMode, sc.GivenID = 0, []uint16{1, 0xFFFF, 0xFFFE, 2}[r.Intn(4)]
	}
}

func c12bEnumerate(r *rand.Rand, allModes bool) []*c12bScenario {
	var out []*c12bScenario
	n := 0
	for _, qos := range []byte{1, 2} {
		for _, first := range c12bEnvs(qos, false) {
			if first.ep == 3 && (qos == 1 || first.er == 3) {
				continue // not interrupted
			}
			handleMap := int(qos) - 1
			rel := first.ep == 3
			if rel {
				handleMap = 2
			}
			for _, tg := range c12bTargets(handleMap) {
				for _, e := range c12bEnvs(qos, rel) {
					modes := []int{n}
					if allModes {
						modes = []int{0, 1, 2, 3}
					}
					n++
					for _, mode := range modes {
						sc := &c12bScenario{QoS: qos, Retain: n%2 == 0, Topic: fmt.Sprintf("t%d", n%7), Payload: []byte{byte(n), byte(n >> 8)}[:1+n%2]}
						c12bSetID(sc, mode, r)
						st := tg
						st.EP, st.ER = e.ep, e.er
						sc.Steps = []c12bStepPlan{{Target: "fresh", EP: first.ep, ER: first.er}, st}
						out = append(out, sc)
					}
				}
			}
		}
	}
	// QoS 0, invalid QoS, first Publish on a client that never connected, others present at the first Publish
	for i, q := range []byte{0, 0, 0, 3, 1, 2, 1, 2} {
		sc := &c12bScenario{QoS: q, Retain: i%2 == 1, Topic: "z", Payload: []byte{7}}
		c12bSetID(sc, i, r)
		st := c12bStepPlan{Target: "fresh", EP: []int{0, 3, 1, 3, 3, 3, 2, 3}[i], ER: []int{3, 3, 3, 3, 3, 3, 3, 1}[i]}
		if i == 4 || i == 5 {
			st.Target = "unconnected"
		}
		if i >= 6 {
			sc.IDMode, sc.GivenID = 0, uint16(300+i)
			st.Others = []c12bOtherSpec{{Kind: int(q) - 1}, {Kind: 3}}
		}
		sc.Steps = []c12bStepPlan{st, {Target: "fresh", EP: 3, ER: 3}}
		out = append(out, sc)
	}
	return out
}

func c12bRandom(r *rand.Rand, n int) []*c12bScenario {
	var out []*c12bScenario
	for i := 0; i < n; i++ {
		qos := byte(1 + r.Intn(2))
		if r.Intn(25) == 0 {
			qos = 0
		}
		sc := &c12bScenario{QoS: qos, Retain: r.Intn(2) == 0, Topic: fmt.Sprintf("r%d", r.Intn(50)), Payload: make([]byte, r.Intn(4))}
		r.Read(sc.Payload)
		if r.Intn(10) == 0 {
			sc.IDMode = 2
		} else {
			c12bSetID(sc, r.Intn(4), r)
		}
		steps := 3 + r.Intn(2)
		for j := 0; j < steps; j++ {
			st := c12bStepPlan{Target: "fresh", EP: r.Intn(4), ER: r.Intn(4)}
			if j < steps-1 && r.Intn(3) > 0 {
				// keep the chain going: interrupt somewhere
				if qos == 2 && r.Intn(2) == 0 {
					st.EP, st.ER = 3, r.Intn(3)
				} else {
					st.EP = r.Intn(3)
				}
			}
			if j > 0 {
				switch k := r.Intn(10); {
				case k < 2:
					st.Target = "same"
				case k == 2 && j == steps-1:
					st.Target = "unconnected"
				}
			}
			if st.Target == "fresh" && j > 0 && r.Intn(4) > 0 {
				used := map[int]bool{}
				for c := 1 + r.Intn(3); c > 0; c-- {
					k := r.Intn(5)
					if used[k] || (k == 1 && used[2]) || (k == 2 && used[1]) {
						// two QoS 2 others under one identifier would collide with EACH OTHER when the
						// first one reaches its PUBREL step: not what this family is about
						continue
					}
					used[k] = true
					o := c12bOtherSpec{Kind: k, ByLib: r.Intn(2) == 0}
					if r.Intn(5) == 0 {
						o.IDPlus = 1
					}
					st.Others = append(st.Others, o)
				}
			}
			if r.Intn(3) == 0 {
				for c := r.Intn(4); c > 0; c-- {
					st.Late = append(st.Late, r.Intn(3))
				}
			}
			sc.Steps = append(sc.Steps, st)
		}
		out = append(out, sc)
	}
	return out
}

// same-client chains on ONE live connection with context-cancel (and write-failure) interruptions, the
// peer delivering the withheld acknowledgements late — after the call returned, duplicates included
func c12bLate(r *rand.Rand, all bool) []*c12bScenario {
	var out []*c12bScenario
	lates := [][]int{{}, {1}, {1, 1}, {1, 1, 1}, {2}, {2, 2}, {1, 2}, {2, 1, 1}, {0}, {0, 0, 1}}
	seconds := []c12bStepPlan{
		{Target: "same", EP: c12bEnvX, ER: 3, Late: []int{1, 1}},
		{Target: "same", EP: 3, ER: c12bEnvX, Late: []int{2, 1}},
		{Target: "same", EP: c12bEnvX, ER: 3},
		{Target: "fresh", EP: c12bEnvX, ER: 3, Late: []int{1, 1}},
	}
	n, g := 0, 0
	for _, qos := range []byte{1, 2} {
		firsts := []c12bEnv{{c12bEnvW, 3}, {c12bEnvX, 3}}
		if qos == 2 {
			firsts = append(firsts, c12bEnv{3, c12bEnvW}, c12bEnv{3, c12bEnvX})
		}
		for _, f := range firsts {
			for _, l := range lates {
				g++
				for si, sec := range seconds {
					n++
					if !all && si != g%len(seconds) && si != (g+1)%len(seconds) {
						continue
					}
					sc := &c12bScenario{QoS: qos, Retain: n%2 == 0, Topic: fmt.Sprintf("l%d", n%5), Payload: []byte{byte(n)}}
					c12bSetID(sc, n, r)
					sc.Steps = []c12bStepPlan{
						{Target: "fresh", EP: f.ep, ER: f.er, Late: l},
						sec,
						{Target: "same", EP: 3, ER: 3, Late: []int{1, 2}},
					}
					out = append(out, sc)
				}
			}
		}
	}
	return out
}

// c12bFamily is the rsExtra hook: runs the family and writes cases + V_handle / M_handle.
func c12bFamily(cf *casesFile, m *meta) int {
	cfg := c12bCfg
	r := rand.New(rand.NewSource(cfg.seed*7919 + 12))
	var scs []*c12bScenario
	nRandom := 150
	switch cfg.tier {
	case "thorough":
		scs = c12bEnumerate(r, true)
		nRandom = 3000
	case "search":
		scs = c12bEnumerate(r, false)
		nRandom = 600
	default:
		scs = c12bEnumerate(r, false)
	}
	nEnum := len(scs)
	late := c12bLate(r, cfg.tier == "thorough")
	scs = append(scs, late...)
	scs = append(scs, c12bRandom(r, nRandom)...)

	cases := make([]*c12bCase, len(scs))
	var wg sync.WaitGroup
	jobs := make(chan int)
	for w := 0; w < 8; w++ {
		wg.Add(1)
		go func() {
			defer wg.Done()
			for i := range jobs {
				cases[i] = c12bRun(scs[i])
			}
		}()
	}
	for i := range scs {
		jobs <- i
	}
	close(jobs)
	wg.Wait()

	var items []string
	retried, collided, chains3, lateDelivered := 0, 0, 0, 0
	for _, cs := range cases {
		if cs.err != nil {
			// the set-up itself did not work: with the unchanged library this never happens; report it as
			// a library-side observation rather than a crash of the harness
			m.ImplViolations = append(m.ImplViolations, map[string]interface{}{"family": "handle", "scenario": cs.sc.text(), "setup": cs.err.Error()})
			continue
		}
		items = append(items, cs.coq())
		d := cs.describe()
		m.Families["handle"] = append(m.Families["handle"], d)
		if len(cs.atts) > 1 {
			retried++
		}
		if len(cs.atts) > 2 {
			chains3++
		}
		for _, a := range cs.atts {
			if a.late > 0 {
				lateDelivered++
				break
			}
		}
		if len(cs.others) > 0 {
			collided++
			if len(m.Samples) < 6 && len(cs.atts) > 1 && retried%97 == 1 {
				m.Samples = append(m.Samples, d)
			}
		}
	}
	cf.imports = append(cf.imports, "RetryHandle", "CheckC12b")
	cf.def("cases_handle", "list (hscen * hobs)", cList(items))
	cf.result("V_handle", "hb_failing c12b_ok cases_handle")
	cf.result("M_handle", "hb_failing c12b_model_ok cases_handle")
	m.Distribution["family_handle"] = len(items)
	m.Distribution["handle_enumerated"] = nEnum
	m.Distribution["handle_late_ack_chains"] = len(late)
	m.Distribution["handle_with_late_acks_delivered"] = lateDelivered
	m.Distribution["handle_random_chains"] = nRandom
	m.Distribution["handle_with_retry"] = retried
	m.Distribution["handle_three_or_more_attempts"] = chains3
	m.Distribution["handle_with_other_requests_outstanding"] = collided
	return len(items)
}
