package main

// C06, family "resub" (child process): a RetryClient subscribes 1-3 times with 1-3 filters; the
// broker answers each SUBSCRIBE with return codes from {00,01,02,80,03,7F,FF} (for the last one
// optionally with a wrong number of codes); the link is lost; a fresh BaseClient is installed with
// SetClient, Connect reports no session, Resubscribe + Retry run against a well-behaved broker, then
// a Ping. A panic on the RetryClient's own task goroutine (e.g. "invalid QoS" in pktSubscribe.Pack
// when a byte of the SUBACK is requested again) kills the child and is attributed to the scenario.

import (
	"fmt"
	"math/rand"
	"time"

	mqtt "github.com/at-wat/mqtt-go"
)

type c06RsSub struct {
	T string `json:"t"`
	Q byte   `json:"q"`
}

type c06RsOp struct {
	Subs  []c06RsSub `json:"subs"`
	Codes []byte     `json:"codes"` // what the first broker answers (len != len(Subs): wrong count)
}

type c06ResubObs struct {
	Survived bool       `json:"survived"`
	Stuck    []string   `json:"stuck"`
	Err1     string     `json:"err_first_connection"`
	Wire2    [][]string `json:"subscribes_on_second_connection"`
	Wire2Coq []string   `json:"wire2_coq"`
	PingErr  string     `json:"ping_on_second_connection"`
	Err2     string     `json:"err_second_connection"`
	Crash    string     `json:"crash,omitempty"`
}

// filters and requested QoS of a SUBSCRIBE
func c06WalkSubscribe(pkt []byte) (id []byte, topics [][]byte, qos []byte) {
	i := 1
	for i < len(pkt) && pkt[i]&0x80 != 0 {
		i++
	}
	i++
	if i+2 > len(pkt) {
		return nil, nil, nil
	}
	id = pkt[i : i+2]
	body := pkt[i+2:]
	for len(body) >= 3 {
		l := int(body[0])<<8 | int(body[1])
		if 2+l+1 > len(body) {
			break
		}
		topics = append(topics, body[2:2+l])
		qos = append(qos, body[2+l])
		body = body[3+l:]
	}
	return id, topics, qos
}

func c06RunResub(ops []c06RsOp) c06ResubObs {
	o := c06ResubObs{Survived: true}
	wait := 10 * time.Second
	rc := &mqtt.RetryClient{}
	wrongCount := false
	for _, op := range ops {
		if len(op.Codes) != len(op.Subs) {
			wrongCount = true
		}
	}
	barrier := func(what string) {
		ch := make(chan struct{})
		if e := rc.VerifBarrier(ch); e != nil {
			o.Stuck = append(o.Stuck, fmt.Sprintf("barrier %s: %v", what, e))
			return
		}
		select {
		case <-ch:
		case <-time.After(wait):
			o.Stuck = append(o.Stuck, "the RetryClient did not finish its tasks "+what)
		}
	}
	ctx, cancel := ctxTimeout(120 * time.Second)
	defer cancel()

	// ---- first connection: hostile SUBACKs ----
	nSub := 0
	conn1 := newMemConn(1, func(c *memConn, pkt []byte) error {
		switch pkt[0] & 0xF0 {
		case 0x10:
			c.send(connackOK)
		case 0x80:
			id, _, _ := c06WalkSubscribe(pkt)
			if id != nil && nSub < len(ops) {
				c.send(encFrame(0x90, append([]byte{id[0], id[1]}, ops[nSub].Codes...)))
			}
			nSub++
		}
		return nil
	})
	cli1 := &mqtt.BaseClient{Transport: conn1}
	rc.SetClient(ctx, cli1)
	if _, e := rc.Connect(ctx, "cid"); e != nil {
		return c06ResubObs{Crash: "connect: " + e.Error()}
	}
	for _, op := range ops {
		var subs []mqtt.Subscription
		for _, s := range op.Subs {
			subs = append(subs, mqtt.Subscription{Topic: s.T, QoS: mqtt.QoS(s.Q)})
		}
		if _, e := rc.Subscribe(ctx, subs...); e != nil {
			o.Stuck = append(o.Stuck, fmt.Sprintf("RetryClient.Subscribe returned %v", e))
		}
	}
	barrier("on the first connection")
	if wrongCount {
		// ErrInvalidSubAck: the subscriber closed the transport; the link must go down by itself
		select {
		case <-cli1.Done():
		case <-time.After(wait):
			o.Stuck = append(o.Stuck, "link not down after a SUBACK with a wrong number of codes")
		}
	}
	o.Err1 = errClass(cli1.Err())
	conn1.finish() // the link is lost
	select {
	case <-cli1.Done():
	case <-time.After(wait):
		o.Stuck = append(o.Stuck, "first link did not end after the peer closed")
		cli1.Close()
	}

	// ---- second connection: no session present, well-behaved broker ----
	var subs2 [][]byte
	unexpected := ""
	conn2 := newMemConn(2, func(c *memConn, pkt []byte) error {
		switch pkt[0] & 0xF0 {
		case 0x10:
			c.send(connackOK)
		case 0x80:
			subs2 = append(subs2, append([]byte{}, pkt...))
			id, _, qos := c06WalkSubscribe(pkt)
			if id != nil {
				c.send(encFrame(0x90, append([]byte{id[0], id[1]}, qos...)))
			}
		case 0xC0:
			c.send([]byte{0xD0, 0})
		default:
			unexpected = fmt.Sprintf("%x", pkt)
		}
		return nil
	})
	cli2 := &mqtt.BaseClient{Transport: conn2}
	rc.SetClient(ctx, cli2)
	if _, e := rc.Connect(ctx, "cid"); e != nil {
		o.Stuck = append(o.Stuck, "second connect: "+e.Error())
		return o
	}
	rc.Resubscribe(ctx)
	rc.Retry(ctx)
	barrier("on the second connection")
	// the client still answers a later request
	pctx, pcancel := ctxTimeout(wait)
	o.PingErr = errClass(rc.Ping(pctx))
	pcancel()
	o.Err2 = errClass(cli2.Err())
	conn2.mu.Lock()
	pk := append([][]byte{}, subs2...)
	un := unexpected
	conn2.mu.Unlock()
	if un != "" {
		o.Stuck = append(o.Stuck, "unexpected packet on the second connection: "+un)
	}
	for _, p := range pk {
		_, topics, qos := c06WalkSubscribe(p)
		var d, cq []string
		for i, t := range topics {
			d = append(d, fmt.Sprintf("%s:%d", t, qos[i]))
			cq = append(cq, cTuple(cBytes(t), fmt.Sprint(qos[i])))
		}
		o.Wire2 = append(o.Wire2, d)
		o.Wire2Coq = append(o.Wire2Coq, cListInline(cq))
	}
	conn2.finish()
	select {
	case <-cli2.Done():
	case <-time.After(wait):
		o.Stuck = append(o.Stuck, "second link did not end after the peer closed")
		cli2.Close()
	}
	return o
}

var c06RsTopics = []string{"a", "b", "c/+", "d/#"}
var c06RsCodes = []byte{0, 1, 2, 0x80, 0x03, 0x7F, 0xFF}

func c06ResubScenarios(r *rand.Rand, tier string) [][]c06RsOp {
	var out [][]c06RsOp
	// one filter x every requested QoS x every return code
	for q := byte(0); q < 3; q++ {
		for _, c := range c06RsCodes {
			out = append(out, []c06RsOp{{Subs: []c06RsSub{{"a", q}}, Codes: []byte{c}}})
		}
	}
	// the same filter asked twice, refused in between
	out = append(out, []c06RsOp{{Subs: []c06RsSub{{"a", 2}}, Codes: []byte{0x80}}, {Subs: []c06RsSub{{"a", 1}}, Codes: []byte{0xFF}}})
	// wrong number of codes for the last Subscribe
	out = append(out,
		[]c06RsOp{{Subs: []c06RsSub{{"a", 1}}, Codes: []byte{0x80, 0x80}}},
		[]c06RsOp{{Subs: []c06RsSub{{"a", 1}, {"b", 2}}, Codes: []byte{0xFF}}},
		[]c06RsOp{{Subs: []c06RsSub{{"a", 0}}, Codes: []byte{0x80}}, {Subs: []c06RsSub{{"b", 2}, {"c/+", 1}}, Codes: nil}},
	)
	nRand := 40
	if tier == "thorough" {
		nRand = 600
	}
	for i := 0; i < nRand; i++ {
		var ops []c06RsOp
		n := 1 + r.Intn(3)
		for j := 0; j < n; j++ {
			var op c06RsOp
			for k, m := 0, 1+r.Intn(3); k < m; k++ {
				op.Subs = append(op.Subs, c06RsSub{c06RsTopics[r.Intn(len(c06RsTopics))], byte(r.Intn(3))})
				op.Codes = append(op.Codes, c06RsCodes[r.Intn(len(c06RsCodes))])
			}
			if j == n-1 && r.Intn(6) == 0 {
				if r.Intn(2) == 0 {
					op.Codes = append(op.Codes, c06RsCodes[r.Intn(len(c06RsCodes))])
				} else {
					op.Codes = op.Codes[:len(op.Codes)-1]
				}
			}
			ops = append(ops, op)
		}
		out = append(out, ops)
	}
	return out
}

func c06RsOpsCoq(ops []c06RsOp) (coq string, desc []string) {
	var items []string
	for _, op := range ops {
		var ss, ds []string
		for _, s := range op.Subs {
			ss = append(ss, cTuple(cStr(s.T), fmt.Sprint(s.Q)))
			ds = append(ds, fmt.Sprintf("%s:%d", s.T, s.Q))
		}
		items = append(items, cTuple(cListInline(ss), cBytes(op.Codes)))
		desc = append(desc, fmt.Sprintf("Subscribe(%v) answered with codes %x", ds, op.Codes))
	}
	return cListInline(items), desc
}
