package main

import (
	"fmt"
	"math/big"
	"math/rand"
	"reflect"
	"strings"

	mqtt "github.com/at-wat/mqtt-go"
)

func init() { register("C14", runC14) }

// same order as Filter.strings_upto
func stringsOfLen(alpha []byte, n int) []string {
	if n == 0 {
		return []string{""}
	}
	sub := stringsOfLen(alpha, n-1)
	var out []string
	for _, c := range alpha {
		for _, s := range sub {
			out = append(out, string(c)+s)
		}
	}
	return out
}

func stringsUpto(alpha []byte, n int) []string {
	if n == 0 {
		return []string{""}
	}
	return append(stringsUpto(alpha, n-1), stringsOfLen(alpha, n)...)
}

// muxProbe registers the filters in order and reports which registrations were accepted
// and which handlers were invoked, in order, for the topic.
func muxProbe(filters []string, topic string) (accepted []bool, called []int) {
	mux := &mqtt.ServeMux{}
	for i, f := range filters {
		i := i
		err := mux.Handle(f, mqtt.HandlerFunc(func(m *mqtt.Message) {
			called = append(called, i)
			// a handler owns the message it is given (e.g. a prefix-stripping router): rewriting it must
			// not change which of the later registered handlers are invoked
			if i%2 == 0 {
				m.Topic = "rewritten/by/handler"
			} else {
				m.Topic = ""
			}
		}))
		accepted = append(accepted, err == nil)
	}
	mux.Serve(&mqtt.Message{Topic: topic})
	return
}

var c14Levels = []string{"", "a", "b", "ab", "+", "#", "a+", "+a", "#b", "a#", "++", "é", "日本", "sensor", "x y", "0", "$", "$x", "$SYS", "a$",
	// white space is an ordinary character (round 8): whole levels, prefixes/suffixes, next to wildcards
	" ", "\t", "\n", "a ", " a", "b\n", "+ ", " +", " #", "# ", "\u00a0", "a\u00a0", "\u2028", "\u2028b"}
var c14TopicLevels = []string{"", "a", "b", "ab", "é", "日本", "sensor", "x y", "0", "a+", " ", "a ", " a", "\t", "\n", "\u00a0", "b\u2028"}

// levels beginning with (or containing) '$': used at NON-first positions of topics only, the
// property excludes topic names whose first character is '$'
var c14DollarLevels = []string{"$", "$x", "$SYS", "a$", "$$", "$aws"}

func c14TopicLevel(r *rand.Rand, pos int) string {
	if pos > 0 && r.Intn(4) == 0 {
		return c14DollarLevels[r.Intn(len(c14DollarLevels))]
	}
	return c14TopicLevels[r.Intn(len(c14TopicLevels))]
}

func c14RandFilter(r *rand.Rand) string {
	n := 1 + r.Intn(5)
	ls := make([]string, n)
	for i := range ls {
		switch {
		case r.Intn(4) == 0:
			ls[i] = "+"
		case i == n-1 && r.Intn(3) == 0:
			ls[i] = "#"
		default:
			ls[i] = c14Levels[r.Intn(len(c14Levels))]
		}
	}
	s := strings.Join(ls, "/")
	if r.Intn(20) == 0 {
		// raw byte mutation
		b := []byte(s)
		if len(b) > 0 {
			b[r.Intn(len(b))] = byte(r.Intn(256))
		}
		s = string(b)
	}
	return s
}

func c14RandTopic(r *rand.Rand, filter string) string {
	var ls []string
	if r.Intn(3) > 0 {
		// derive from the filter so that matches are frequent
		for _, l := range strings.Split(filter, "/") {
			switch l {
			case "+":
				ls = append(ls, c14TopicLevel(r, len(ls)))
			case "#":
				for k := r.Intn(3); k > 0; k-- {
					ls = append(ls, c14TopicLevel(r, len(ls)))
				}
			default:
				ls = append(ls, l)
			}
		}
		if r.Intn(4) == 0 && len(ls) > 0 {
			ls = ls[:len(ls)-1]
		}
		if r.Intn(6) == 0 {
			ls = append(ls, c14TopicLevel(r, len(ls)))
		}
	} else {
		for k := 1 + r.Intn(4); k > 0; k-- {
			ls = append(ls, c14TopicLevel(r, len(ls)))
		}
	}
	t := strings.Join(ls, "/")
	if strings.HasPrefix(t, "$") {
		// outside the property: make the first level an ordinary one (half of the time so that the
		// rest still lines up with a leading '+' of the filter)
		if r.Intn(2) == 0 {
			t = "x" + t
		} else {
			t = "x/" + t
		}
	}
	return t
}

// c14FilterFor derives a filter that is likely to match the topic: levels replaced by '+', a
// suffix replaced by '#', sometimes spoiled.
func c14FilterFor(r *rand.Rand, topic string) string {
	ls := strings.Split(topic, "/")
	if r.Intn(3) == 0 {
		cut := r.Intn(len(ls) + 1)
		ls = append(append([]string{}, ls[:cut]...), "#")
	}
	for i := range ls {
		if ls[i] != "#" && r.Intn(3) == 0 {
			ls[i] = "+"
		}
	}
	if r.Intn(8) == 0 {
		ls[r.Intn(len(ls))] = c14Levels[r.Intn(len(c14Levels))]
	}
	return strings.Join(ls, "/")
}

// ---- histories of Handle / Serve operations on several ServeMux values ----

type c14Op struct {
	Serve  bool   `json:"serve"`
	Inst   int    `json:"mux"`
	Filter string `json:"filter,omitempty"`
	Topic  string `json:"topic,omitempty"`
	H      int    `json:"handler"`
}

type c14Ev struct {
	Serve    bool  `json:"serve"`
	Accepted bool  `json:"accepted"`
	Called   []int `json:"called"`
}

// c14RunOps applies the operations in order to nInst fresh ServeMux values. Every handler
// records its number and then rewrites the topic of the message it was given.
func c14RunOps(nInst int, ops []c14Op) []c14Ev {
	muxes := make([]*mqtt.ServeMux, nInst)
	for i := range muxes {
		muxes[i] = &mqtt.ServeMux{}
	}
	var cur *[]int
	evs := make([]c14Ev, 0, len(ops))
	for k, op := range ops {
		if op.Serve {
			called := []int{}
			cur = &called
			muxes[op.Inst].Serve(&mqtt.Message{Topic: op.Topic, Payload: []byte{1}})
			cur = nil
			evs = append(evs, c14Ev{Serve: true, Called: called})
			continue
		}
		h := op.H
		fn := func(m *mqtt.Message) {
			if cur != nil {
				*cur = append(*cur, h)
			}
			if h%2 == 0 {
				m.Topic = "rewritten/by/handler"
			} else {
				m.Topic = ""
			}
		}
		var err error
		if k%2 == 0 {
			err = muxes[op.Inst].Handle(op.Filter, mqtt.HandlerFunc(fn))
		} else {
			err = muxes[op.Inst].HandleFunc(op.Filter, fn)
		}
		evs = append(evs, c14Ev{Accepted: err == nil, Called: []int{}})
	}
	return evs
}

// c14History renders a history for the replay file.
func c14History(ops []c14Op, evs []c14Ev) []string {
	var out []string
	for k, op := range ops {
		switch {
		case op.Serve:
			out = append(out, fmt.Sprintf("%d: mux%d.Serve(topic %q) invoked handlers %v", k, op.Inst, op.Topic, evs[k].Called))
		case evs[k].Accepted:
			out = append(out, fmt.Sprintf("%d: mux%d.Handle(%q, handler %d) accepted", k, op.Inst, op.Filter, op.H))
		default:
			out = append(out, fmt.Sprintf("%d: mux%d.Handle(%q, handler %d) rejected", k, op.Inst, op.Filter, op.H))
		}
	}
	return out
}

// c14OpsCoq prints a history; every distinct string is bound once by a let (numerals are the
// expensive part of parsing the cases file).
func c14OpsCoq(ops []c14Op, evs []c14Ev) string {
	names := map[string]string{}
	var lets strings.Builder
	name := func(x string) string {
		if n, ok := names[x]; ok {
			return n
		}
		n := fmt.Sprintf("s%d", len(names))
		names[x] = n
		fmt.Fprintf(&lets, "let %s : str := %s in ", n, cStr(x))
		return n
	}
	var os, es []string
	for k, op := range ops {
		if op.Serve {
			os = append(os, fmt.Sprintf("OpServe %s %s", cNat(op.Inst), name(op.Topic)))
		} else {
			os = append(os, fmt.Sprintf("OpHandle %s %s %s", cNat(op.Inst), name(op.Filter), cNat(op.H)))
		}
		es = append(es, c14EvCoq(evs[k]))
	}
	return "(" + lets.String() + cTuple(cListInline(os), cListInline(es)) + ")"
}

func c14EvCoq(e c14Ev) string {
	if !e.Serve {
		return "EvHandle " + cBool(e.Accepted)
	}
	var cs []string
	for _, c := range e.Called {
		cs = append(cs, cNat(c))
	}
	return "EvServe " + cListInline(cs)
}

// c14LateHandler reports whether some Serve invoked a handler that was registered after an
// earlier Serve of the same topic on the same instance (the situation a stale dispatch cache breaks).
func c14LateHandler(ops []c14Op, evs []c14Ev) bool {
	for k, op := range ops {
		if !op.Serve {
			continue
		}
		first := -1
		for j := 0; j < k; j++ {
			if ops[j].Serve && ops[j].Inst == op.Inst && ops[j].Topic == op.Topic {
				first = j
				break
			}
		}
		if first < 0 {
			continue
		}
		for _, h := range evs[k].Called {
			for j := first + 1; j < k; j++ {
				if !ops[j].Serve && ops[j].H == h && ops[j].Inst == op.Inst {
					return true
				}
			}
		}
	}
	return false
}

func c14RandOps(r *rand.Rand) (int, []c14Op) {
	nInst := 1 + r.Intn(3)
	// small pools so that topics repeat and filters match them
	var topics, filters []string
	for i := 2 + r.Intn(3); i > 0; i-- {
		topics = append(topics, c14RandTopic(r, c14RandFilter(r)))
	}
	for i := 2 + r.Intn(4); i > 0; i-- {
		switch r.Intn(4) {
		case 0:
			filters = append(filters, c14RandFilter(r))
		default:
			filters = append(filters, c14FilterFor(r, topics[r.Intn(len(topics))]))
		}
	}
	n := 3 + r.Intn(18)
	ops := make([]c14Op, n)
	for k := range ops {
		inst := 0
		if r.Intn(3) == 0 {
			inst = r.Intn(nInst)
		}
		if r.Intn(2) == 0 {
			ops[k] = c14Op{Serve: true, Inst: inst, Topic: topics[r.Intn(len(topics))]}
		} else {
			f := filters[r.Intn(len(filters))]
			if r.Intn(8) == 0 {
				f = []string{"", "a+", "#/a", "a/#/b", "+b/c", "a/b#"}[r.Intn(6)] // rejected in between
			}
			ops[k] = c14Op{Inst: inst, Filter: f, H: k}
		}
	}
	return nInst, ops
}

// the exhaustive histories: same 7 operations as CheckC14.exh_op
func c14ExhOp(pos int, c byte) c14Op {
	switch c {
	case 0:
		return c14Op{Inst: 0, Filter: "a", H: pos}
	case 1:
		return c14Op{Inst: 0, Filter: "+", H: pos}
	case 2:
		return c14Op{Inst: 0, Filter: "a+", H: pos}
	case 3:
		return c14Op{Serve: true, Inst: 0, Topic: "a"}
	case 4:
		return c14Op{Serve: true, Inst: 0, Topic: "b"}
	case 5:
		return c14Op{Inst: 1, Filter: "#", H: pos}
	default:
		return c14Op{Serve: true, Inst: 1, Topic: "a"}
	}
}

// same code as CheckC14.ev_code, of the last event (0 for the empty history)
func c14LastCode(evs []c14Ev) int64 {
	if len(evs) == 0 {
		return 0
	}
	e := evs[len(evs)-1]
	switch {
	case !e.Serve && !e.Accepted:
		return 1
	case !e.Serve:
		return 2
	}
	var d int64
	for j := len(e.Called) - 1; j >= 0; j-- {
		d = int64(e.Called[j]+1) + 8*d
	}
	return 3 + 4*d
}

// c14DefLongList defines a long list as the concatenation of chunks (coqc overflows its stack on
// a single literal list with more than some 10^5 elements).
func c14DefLongList(cf *casesFile, name, elem string, items []string) {
	const chunk = 4000
	if len(items) <= chunk {
		cf.def(name, "list "+elem, cListInline(items))
		return
	}
	var parts []string
	for i := 0; i < len(items); i += chunk {
		j := i + chunk
		if j > len(items) {
			j = len(items)
		}
		pn := fmt.Sprintf("%s_part%d", name, i/chunk)
		cf.def(pn, "list "+elem, cListInline(items[i:j]))
		parts = append(parts, pn)
	}
	cf.def(name, "list "+elem, "concat "+cListInline(parts))
}

func runC14(cfg *runCfg) error {
	r := rand.New(rand.NewSource(cfg.seed))
	cf := newCasesFile("C14", "Filter", "CheckC14")
	m := &meta{Property: "C14", Distribution: map[string]interface{}{}, Families: map[string][]interface{}{}}

	// ---- families sig, sigd: the exhaustive bounded spaces ----
	fl, tl := 5, 4
	if cfg.tier != "quick" {
		fl, tl = 6, 5
	}
	accepted, matched := 0, 0
	sigFamily := func(name, alphaF, alphaT, model string) (int, int) {
		filters := stringsUpto([]byte(alphaF), fl)
		var topics []string
		for _, t := range stringsUpto([]byte(alphaT), tl) {
			if !strings.HasPrefix(t, "$") { // outside the property; CheckC14.topics_upto drops them too
				topics = append(topics, t)
			}
		}
		var sigs []string
		for _, f := range filters {
			acc, _ := muxProbe([]string{f}, "")
			sig := new(big.Int)
			if len(acc) == 1 && acc[0] {
				accepted++
				sig.SetBit(sig, 0, 1)
				for k, t := range topics {
					_, called := muxProbe([]string{f}, t)
					if len(called) > 0 {
						sig.SetBit(sig, k+1, 1)
						matched++
					}
				}
			}
			sigs = append(sigs, sig.String())
			m.Families[name] = append(m.Families[name], map[string]interface{}{"filter": f, "signature": sig.String(),
				"signature_bits": "bit 0 = accepted, bit k+1 = matches the k-th topic of the enumeration over {" + alphaT + "} (topics starting with '$' skipped)"})
		}
		c14DefLongList(cf, name+"_obs", "N", sigs)
		cf.result("V_"+name, fmt.Sprintf("%s %s %s %s_obs", model, cNat(fl), cNat(tl), name))
		m.Evaluations += len(filters) * len(topics)
		m.Distribution[name+"_filters"] = len(filters)
		m.Distribution[name+"_topics"] = len(topics)
		return len(filters), len(topics)
	}
	sigFamily("sig", "/+#ab", "/ab", "sig_mismatches")
	sigFamily("sigd", "/+#a$", "/a$", "sigd_mismatches")
	sigFamily("sigw", "/+#a ", "/a ", "sigw_mismatches") // round 8: the space character
	m.Distribution["sig_filters_accepted"] = accepted
	m.Distribution["sig_pairs_matched"] = matched

	// informational only (topics STARTING with '$' are outside the property): what the code does there
	{
		_, c1 := muxProbe([]string{"#"}, "$SYS/x")
		_, c2 := muxProbe([]string{"+/x"}, "$SYS/x")
		_, c3 := muxProbe([]string{"$SYS/#"}, "$SYS/x")
		m.Distribution["outside_property_dollar_first_topic"] = map[string]interface{}{
			"'#' matches '$SYS/x'": len(c1) > 0, "'+/x' matches '$SYS/x'": len(c2) > 0, "'$SYS/#' matches '$SYS/x'": len(c3) > 0}
	}

	// ---- family rand: long / UTF-8 / mutated pairs ----
	nRand := 1400
	if cfg.tier != "quick" {
		nRand = 20000
	}
	var rc []string
	seen := map[string]bool{}
	rAcc, rMatch, rDollar, rDollarMatch := 0, 0, 0, 0
	for i := 0; i < nRand; i++ {
		f := c14RandFilter(r)
		t := c14RandTopic(r, f)
		acc, called := muxProbe([]string{f}, t)
		rc = append(rc, cTuple(cStr(f), cStr(t), cBool(acc[0]), cBool(len(called) > 0)))
		if acc[0] {
			rAcc++
		}
		if len(called) > 0 {
			rMatch++
		}
		if !seen[f+"\x00"+t] {
			seen[f+"\x00"+t] = true
		}
		if strings.Contains(t, "/$") {
			rDollar++
			if len(called) > 0 {
				rDollarMatch++
			}
		}
		c := map[string]interface{}{"filter": f, "topic": t, "accepted": acc[0], "matched": len(called) > 0}
		m.Families["rand"] = append(m.Families["rand"], c)
		if i < 3 {
			m.Samples = append(m.Samples, c)
		}
	}
	cf.def("rand_cases", "list (str * str * bool * bool)", cList(rc))
	cf.result("V_rand", "rand_mismatches rand_cases")
	m.Evaluations += nRand
	m.Distribution["rand_cases"] = nRand
	m.Distribution["rand_distinct"] = len(seen)
	m.Distribution["rand_accepted"] = rAcc
	m.Distribution["rand_matched"] = rMatch
	m.Distribution["rand_topics_with_inner_dollar_level"] = rDollar
	m.Distribution["rand_topics_with_inner_dollar_level_matched"] = rDollarMatch

	// ---- family mux: several registrations, order of invocation ----
	nMux := 300
	if cfg.tier != "quick" {
		nMux = 4000
	}
	var mc []string
	multi := 0
	for i := 0; i < nMux; i++ {
		k := 1 + r.Intn(6)
		fs := make([]string, k)
		for j := range fs {
			fs[j] = c14RandFilter(r)
			if j > 0 && r.Intn(3) == 0 {
				fs[j] = fs[r.Intn(j)]
			}
		}
		t := c14RandTopic(r, fs[r.Intn(k)])
		acc, called := muxProbe(fs, t)
		var regs, accs, cs []string
		for j, f := range fs {
			regs = append(regs, cTuple(cStr(f), cNat(j)))
			accs = append(accs, cBool(acc[j]))
		}
		for _, c := range called {
			cs = append(cs, cNat(c))
		}
		if len(called) > 1 {
			multi++
		}
		mc = append(mc, cTuple(cListInline(regs), cStr(t), cListInline(accs), cListInline(cs)))
		c := map[string]interface{}{"filters": fs, "topic": t, "accepted": acc, "called": called}
		m.Families["mux"] = append(m.Families["mux"], c)
		if i < 2 {
			m.Samples = append(m.Samples, c)
		}
	}
	cf.def("mux_cases", "list (list (str * nat) * str * list bool * list nat)", cList(mc))
	cf.result("V_mux", "mux_mismatches mux_cases")
	m.Evaluations += nMux
	m.Distribution["mux_cases"] = nMux
	m.Distribution["mux_cases_with_2plus_handlers_called"] = multi

	// ---- family ops: random histories of Handle / Serve on 1-3 ServeMux values ----
	nOps := 300
	if cfg.tier != "quick" {
		nOps = 4000
	}
	var oc []string
	late, opsServes, opsHandles, opsRejected := 0, 0, 0, 0
	lateSeen := map[string]bool{}
	for i := 0; i < nOps; i++ {
		nInst, ops := c14RandOps(r)
		evs := c14RunOps(nInst, ops)
		for k, op := range ops {
			switch {
			case op.Serve:
				opsServes++
			case evs[k].Accepted:
				opsHandles++
			default:
				opsRejected++
			}
		}
		if c14LateHandler(ops, evs) {
			late++
			lateSeen[strings.Join(c14History(ops, evs), ";")] = true
		}
		oc = append(oc, c14OpsCoq(ops, evs))
		c := map[string]interface{}{"history": c14History(ops, evs), "instances": nInst}
		m.Families["ops"] = append(m.Families["ops"], c)
		if i < 1 {
			m.Samples = append(m.Samples, c)
		}
	}
	cf.def("ops_cases", "list (list mux_op * list mux_ev)", cList(oc))
	cf.result("V_ops", "ops_violations ops_cases")
	cf.result("M_ops", "ops_mismatches ops_cases")
	m.Evaluations += opsServes + opsHandles + opsRejected
	m.Distribution["ops_histories"] = nOps
	m.Distribution["ops_serve_operations"] = opsServes
	m.Distribution["ops_handle_accepted"] = opsHandles
	m.Distribution["ops_handle_rejected"] = opsRejected
	m.Distribution["ops_histories_where_a_handler_registered_after_an_earlier_serve_of_the_same_topic_is_invoked"] = late

	// ---- family opsx: every history up to a length over 7 operations on 2 instances ----
	xl := 5
	if cfg.tier != "quick" {
		xl = 6
	}
	var xc []string
	xLate := 0
	xSeen := map[string][]c14Ev{}
	for _, code := range stringsUpto([]byte{0, 1, 2, 3, 4, 5, 6}, xl) {
		ops := make([]c14Op, len(code))
		for pos := range ops {
			ops[pos] = c14ExhOp(pos, code[pos])
		}
		evs := c14RunOps(2, ops)
		if c14LateHandler(ops, evs) {
			xLate++
		}
		// only the last event goes to Coq; the earlier ones must repeat what the prefix history did
		xSeen[code] = evs
		if len(code) > 0 {
			if pre, ok := xSeen[code[:len(code)-1]]; !ok || !reflect.DeepEqual(pre, evs[:len(evs)-1]) {
				m.ImplViolations = append(m.ImplViolations, map[string]interface{}{
					"what": "the same operations on fresh ServeMux values gave different events (dispatch is not a function of the history)",
					"ops":  ops, "events": evs, "events_of_prefix_run": pre})
			}
		}
		xc = append(xc, fmt.Sprint(c14LastCode(evs)))
		m.Families["opsx"] = append(m.Families["opsx"], map[string]interface{}{"history": c14History(ops, evs), "instances": 2})
		m.Evaluations += len(ops)
	}
	c14DefLongList(cf, "opsx_obs", "N", xc)
	cf.result("V_opsx", fmt.Sprintf("exh_violations %s opsx_obs", cNat(xl)))
	cf.result("M_opsx", fmt.Sprintf("exh_mismatches %s opsx_obs", cNat(xl)))
	m.Distribution["opsx_histories"] = len(xc)
	m.Distribution["opsx_max_length"] = xl
	m.Distribution["opsx_histories_with_late_handler_invoked"] = xLate

	// ---- round 4: deep topics/filters, re-entrant Serve, overlapping Serve calls (c14b.go) ----
	deepDistinct := c14DeepFamily(cfg, r, cf, m)
	nestDistinct := c14NestFamilies(cfg, r, cf, m)
	concDistinct := c14ConcFamily(cfg, r, cf, m)
	// ---- round 8: handlers that register and dispatch while being served (c14c.go) ----
	concDistinct += c14RegFamilies(cfg, r, cf, m)

	m.DistinctNontrivial = accepted + len(seen) + len(lateSeen) + xLate + deepDistinct + nestDistinct + concDistinct
	m.Rule = fmt.Sprintf("exhaustive (sig): every filter over {/,+,#,a,b} up to length %d against every topic over {/,a,b} up to length %d; "+
		"exhaustive (sigd): every filter over {/,+,#,a,$} up to length %d against every topic over {/,a,$} up to length %d not starting with '$'; "+
		"exhaustive (sigw): the same lengths over {/,+,#,a,SPACE} x {/,a,SPACE}; all through ServeMux.Handle/Serve; "+
		"random: level-structured filters (wildcards, UTF-8, '$' levels, mutated bytes) with topics derived from them ('$'-prefixed levels at non-first positions); "+
		"mux: 1-6 registrations then one Serve; ops: random histories of 3-20 Handle/Serve operations on 1-3 ServeMux values over small topic/filter pools "+
		"(repeated topics, Handle after Serve, rejected filters in between); opsx: every history up to length %d over 7 operations on 2 ServeMux values. "+
		"deep: topics of 1-40 levels (emphasis on 15-18, 31-33, powers of two) with 4-7 filters derived from them (literal, one level replaced by '+', prefix + '#', the topic's tail as a short filter, near misses, invalid) on one ServeMux; "+
		"nest/nestx: random and enumerated histories whose handlers dispatch another message through the same or another ServeMux before returning (nesting depth <= 2); "+
		"conc: 2-4 goroutines serving different topics on one ServeMux, every call parked inside its handlers until all calls overlap; "+
		"reg/regx: random and enumerated histories whose handlers call Handle (own or other ServeMux) and Serve while being served, every operation behind a 5 s watchdog. "+
		"distinct_nontrivial = accepted enumerated filters (each with a full topic sweep) + distinct random (filter,topic) pairs "+
		"+ distinct random histories and enumerated histories in which a Serve invoked a handler registered after an earlier Serve of the same topic "+
		"+ distinct deep cases + re-entrant histories in which the outer call invokes a handler after a nested dispatch + overlapping cases with >= 2 calls inside handlers at once + histories/serves during which a handler was registered", fl, tl, fl, tl, xl)
	m.Exhaustive = true
	if err := cf.write(cfg.outDir); err != nil {
		return err
	}
	return m.write(cfg.outDir)
}
