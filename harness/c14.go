package main

import (
	"fmt"
	"math/big"
	"math/rand"
	"strings"

	mqtt "github.com/at-wat/mqtt-go"
)

func init() { register("C14", runC14) }

// same order as Filter.strings_upto
func stringsOfLen(alpha []byte, n int) []string {
	if n == 0 {
		return []string{""}
	}
	sub := stringsOfLen(alpha, n-1)
	var out []string
	for _, c := range alpha {
		for _, s := range sub {
			out = append(out, string(c)+s)
		}
	}
	return out
}

func stringsUpto(alpha []byte, n int) []string {
	if n == 0 {
		return []string{""}
	}
	return append(stringsUpto(alpha, n-1), stringsOfLen(alpha, n)...)
}

// muxProbe registers the filters in order and reports which registrations were accepted
// and which handlers were invoked, in order, for the topic.
func muxProbe(filters []string, topic string) (accepted []bool, called []int) {
	mux := &mqtt.ServeMux{}
	for i, f := range filters {
		i := i
		err := mux.Handle(f, mqtt.HandlerFunc(func(m *mqtt.Message) {
			called = append(called, i)
			// a handler owns the message it is given (e.g. a prefix-stripping router): rewriting it must
			// not change which of the later registered handlers are invoked
			if i%2 == 0 {
				m.Topic = "rewritten/by/handler"
			} else {
				m.Topic = ""
			}
		}))
		accepted = append(accepted, err == nil)
	}
	mux.Serve(&mqtt.Message{Topic: topic})
	return
}

var c14Levels = []string{"", "a", "b", "ab", "+", "#", "a+", "+a", "#b", "a#", "++", "é", "日本", "sensor", "x y", "0"}
var c14TopicLevels = []string{"", "a", "b", "ab", "é", "日本", "sensor", "x y", "0", "a+"}

func c14RandFilter(r *rand.Rand) string {
	n := 1 + r.Intn(5)
	ls := make([]string, n)
	for i := range ls {
		switch {
		case r.Intn(4) == 0:
			ls[i] = "+"
		case i == n-1 && r.Intn(3) == 0:
			ls[i] = "#"
		default:
			ls[i] = c14Levels[r.Intn(len(c14Levels))]
		}
	}
	s := strings.Join(ls, "/")
	if r.Intn(20) == 0 {
		// raw byte mutation
		b := []byte(s)
		if len(b) > 0 {
			b[r.Intn(len(b))] = byte(r.Intn(256))
		}
		s = string(b)
	}
	return s
}

func c14RandTopic(r *rand.Rand, filter string) string {
	var ls []string
	if r.Intn(3) > 0 {
		// derive from the filter so that matches are frequent
		for _, l := range strings.Split(filter, "/") {
			switch l {
			case "+":
				ls = append(ls, c14TopicLevels[r.Intn(len(c14TopicLevels))])
			case "#":
				for k := r.Intn(3); k > 0; k-- {
					ls = append(ls, c14TopicLevels[r.Intn(len(c14TopicLevels))])
				}
			default:
				ls = append(ls, l)
			}
		}
		if r.Intn(4) == 0 && len(ls) > 0 {
			ls = ls[:len(ls)-1]
		}
		if r.Intn(6) == 0 {
			ls = append(ls, c14TopicLevels[r.Intn(len(c14TopicLevels))])
		}
	} else {
		for k := 1 + r.Intn(4); k > 0; k-- {
			ls = append(ls, c14TopicLevels[r.Intn(len(c14TopicLevels))])
		}
	}
	t := strings.Join(ls, "/")
	if strings.HasPrefix(t, "$") {
		t = "x" + t
	}
	return t
}

func runC14(cfg *runCfg) error {
	r := rand.New(rand.NewSource(cfg.seed))
	cf := newCasesFile("C14", "Filter", "CheckC14")
	m := &meta{Property: "C14", Distribution: map[string]interface{}{}, Families: map[string][]interface{}{}}

	// ---- family sig: the exhaustive bounded space ----
	fl, tl := 5, 4
	if cfg.tier != "quick" {
		fl, tl = 6, 5
	}
	filters := stringsUpto([]byte("/+#ab"), fl)
	topics := stringsUpto([]byte("/ab"), tl)
	var sigs []string
	accepted, matched := 0, 0
	for _, f := range filters {
		acc, _ := muxProbe([]string{f}, "")
		sig := new(big.Int)
		if len(acc) == 1 && acc[0] {
			accepted++
			sig.SetBit(sig, 0, 1)
			for k, t := range topics {
				_, called := muxProbe([]string{f}, t)
				if len(called) > 0 {
					sig.SetBit(sig, k+1, 1)
					matched++
				}
			}
		}
		sigs = append(sigs, sig.String())
		m.Families["sig"] = append(m.Families["sig"], map[string]interface{}{"filter": f, "signature": sig.String()})
	}
	cf.def("sig_obs", "list N", cListInline(sigs))
	cf.result("V_sig", fmt.Sprintf("sig_mismatches %s %s sig_obs", cNat(fl), cNat(tl)))
	m.Evaluations += len(filters) * len(topics)
	m.Distribution["sig_filters"] = len(filters)
	m.Distribution["sig_topics"] = len(topics)
	m.Distribution["sig_filters_accepted"] = accepted
	m.Distribution["sig_pairs_matched"] = matched

	// ---- family rand: long / UTF-8 / mutated pairs ----
	nRand := 2000
	if cfg.tier != "quick" {
		nRand = 20000
	}
	var rc []string
	seen := map[string]bool{}
	rAcc, rMatch := 0, 0
	for i := 0; i < nRand; i++ {
		f := c14RandFilter(r)
		t := c14RandTopic(r, f)
		acc, called := muxProbe([]string{f}, t)
		rc = append(rc, cTuple(cStr(f), cStr(t), cBool(acc[0]), cBool(len(called) > 0)))
		if acc[0] {
			rAcc++
		}
		if len(called) > 0 {
			rMatch++
		}
		if !seen[f+"\x00"+t] {
			seen[f+"\x00"+t] = true
		}
		c := map[string]interface{}{"filter": f, "topic": t, "accepted": acc[0], "matched": len(called) > 0}
		m.Families["rand"] = append(m.Families["rand"], c)
		if i < 3 {
			m.Samples = append(m.Samples, c)
		}
	}
	cf.def("rand_cases", "list (str * str * bool * bool)", cList(rc))
	cf.result("V_rand", "rand_mismatches rand_cases")
	m.Evaluations += nRand
	m.Distribution["rand_cases"] = nRand
	m.Distribution["rand_distinct"] = len(seen)
	m.Distribution["rand_accepted"] = rAcc
	m.Distribution["rand_matched"] = rMatch

	// ---- family mux: several registrations, order of invocation ----
	nMux := 400
	if cfg.tier != "quick" {
		nMux = 4000
	}
	var mc []string
	multi := 0
	for i := 0; i < nMux; i++ {
		k := 1 + r.Intn(6)
		fs := make([]string, k)
		for j := range fs {
			fs[j] = c14RandFilter(r)
			if j > 0 && r.Intn(3) == 0 {
				fs[j] = fs[r.Intn(j)]
			}
		}
		t := c14RandTopic(r, fs[r.Intn(k)])
		acc, called := muxProbe(fs, t)
		var regs, accs, cs []string
		for j, f := range fs {
			regs = append(regs, cTuple(cStr(f), cNat(j)))
			accs = append(accs, cBool(acc[j]))
		}
		for _, c := range called {
			cs = append(cs, cNat(c))
		}
		if len(called) > 1 {
			multi++
		}
		mc = append(mc, cTuple(cListInline(regs), cStr(t), cListInline(accs), cListInline(cs)))
		c := map[string]interface{}{"filters": fs, "topic": t, "accepted": acc, "called": called}
		m.Families["mux"] = append(m.Families["mux"], c)
		if i < 2 {
			m.Samples = append(m.Samples, c)
		}
	}
	cf.def("mux_cases", "list (list (str * nat) * str * list bool * list nat)", cList(mc))
	cf.result("V_mux", "mux_mismatches mux_cases")
	m.Evaluations += nMux
	m.Distribution["mux_cases"] = nMux
	m.Distribution["mux_cases_with_2plus_handlers_called"] = multi

	m.DistinctNontrivial = accepted + len(seen) // accepted enumerated filters (each with a full topic sweep) + distinct random pairs
	m.Rule = fmt.Sprintf("exhaustive: every filter over {/,+,#,a,b} up to length %d against every topic over {/,a,b} up to length %d through ServeMux.Handle/Serve; "+
		"random: level-structured filters (wildcards, UTF-8, mutated bytes) with topics derived from them; mux: 1-6 registrations. "+
		"distinct_nontrivial = accepted enumerated filters + distinct random (filter,topic) pairs", fl, tl)
	m.Exhaustive = true
	if err := cf.write(cfg.outDir); err != nil {
		return err
	}
	return m.write(cfg.outDir)
}
