package main

// C19 — returned errors keep their cause inspectable and their retry handle.
//
// Family "chain": error values are built from the REAL constructors (&mqtt.Error{}, fmt.Errorf %w,
// &mqtt.ConnectionError{}, foreign types) and from REAL failing library calls (a ConnectOption
// that fails, a Transport.Write that fails, a connection closed or a context done at a chosen
// wait point, an expiring ResponseTimeout, ...), nested to random depth; errors.Is against every
// documented sentinel and further targets, errors.As for the documented types, the direct type
// assertion to ErrorWithRetry and == io.EOF are recorded and compared inside Coq with the model
// (M_chain) and with the property (V_chain).
//
// Family "retry": QoS 1/2 publish, subscribe, unsubscribe on a real BaseClient, interrupted at each
// step with each kind of cause; the returned error's Retry is called on a FRESH connected client
// (which may be interrupted again, and so on); the packets written on each connection, the result
// of each attempt and stray writes on other connections are compared with the retransmission
// protocol (V_retry) and with the model (M_retry).
//
// All scheduling is done inside Transport.Write (it runs on the caller's goroutine): fail the
// write, close the connection, or complete a context there. No sleeps.

import (
	"context"
	"errors"
	"fmt"
	"io"
	"math/rand"
	"strings"
	"sync"
	"time"

	mqtt "github.com/at-wat/mqtt-go"
)

func init() { register("C19", runC19) }

// ---------------------------------------------------------------- foreign error types

type c19PtrErrField struct {
	Err error
	N   int
}

func (e *c19PtrErrField) Error() string { return fmt.Sprintf("pef%d", e.N) }

type c19PtrNoErr struct{ N int }

func (e *c19PtrNoErr) Error() string { return fmt.Sprintf("pnoerr%d", e.N) }

type c19PtrErrNotError struct {
	Err string
	N   int
}

func (e *c19PtrErrNotError) Error() string { return "perrnoterr" }

type c19Val struct{ K int }

func (e c19Val) Error() string { return fmt.Sprintf("val%d", e.K) }

// a comparable struct VALUE which holds a pointer: two separately made values have equal
// contents (reflect.DeepEqual) but are not == (different pointers)
type c19ValP struct{ P *int }

func (e c19ValP) Error() string { return "valp" }

func newC19ValP() c19ValP { x := 7; return c19ValP{P: &x} }

type c19PtrNonStruct int

func (e *c19PtrNonStruct) Error() string { return "pnonstruct" }

type c19Uncmp struct {
	K int
	S []int
}

func (e c19Uncmp) Error() string { return "uncmp" }

// ---------------------------------------------------------------- sentinels

type c19Sent struct {
	coq string
	err error
}

var c19Others = []error{errors.New("c19 other 0"), errors.New("c19 other 1"), errors.New("c19 other 2")}

var c19Sents = []c19Sent{
	{"SClosedTransport", mqtt.ErrClosedTransport},
	{"SInvalidPacket", mqtt.ErrInvalidPacket},
	{"SInvalidPacketLength", mqtt.ErrInvalidPacketLength},
	{"SPayloadLenExceeded", mqtt.ErrPayloadLenExceeded},
	{"SInvalidQoS", mqtt.ErrInvalidQoS},
	{"SNotConnected", mqtt.ErrNotConnected},
	{"SInvalidSubAck", mqtt.ErrInvalidSubAck},
	{"SConnectionFailed", mqtt.ErrConnectionFailed},
	{"SPingTimeout", mqtt.ErrPingTimeout},
	{"SClosedClient", mqtt.ErrClosedClient},
	{"SKeepAliveDisabled", mqtt.ErrKeepAliveDisabled},
	{"SInvalidRune", mqtt.ErrInvalidRune},
	{"SEOF", io.EOF},
	{"SCanceled", context.Canceled},
	{"SDeadlineExceeded", context.DeadlineExceeded},
	{"(SOther 0)", c19Others[0]},
	{"(SOther 1)", c19Others[1]},
	{"(SOther 2)", c19Others[2]},
}

const c19NDocumented = 15

// look-alikes: foreign errors.New values carrying exactly the text of each documented sentinel
// (Coq: twin_of s = SOther (100 + code s)); appended to c19Sents by init
func init() {
	for i := 0; i < c19NDocumented; i++ {
		c19Sents = append(c19Sents, c19Sent{fmt.Sprintf("(SOther %d)", 100+i), errors.New(c19Sents[i].err.Error())})
	}
}

const c19Twin0 = 18 // index of the first twin in c19Sents

// further foreign sentinels used as causes only (not among the standard targets): indices 33, 34
const c19NStdSents = 33

func init() {
	// runs after the init above (same file, textual order)
	c19Sents = append(c19Sents, c19Sent{"(SOther 3)", io.ErrUnexpectedEOF}, c19Sent{"(SOther 4)", io.ErrClosedPipe})
}

const (
	c19SEOF      = 12
	c19SCanceled = 13
	c19SDeadline = 14
	c19SOther0   = 15
	c19SClosedTr = 0
)

// ---------------------------------------------------------------- a context completed by the scenario

type c19Ctx struct {
	done chan struct{}
	err  error
	once sync.Once
}

func newC19Ctx(err error) *c19Ctx { return &c19Ctx{done: make(chan struct{}), err: err} }

func (c *c19Ctx) Deadline() (time.Time, bool) { return time.Time{}, false }
func (c *c19Ctx) Done() <-chan struct{}       { return c.done }
func (c *c19Ctx) Err() error {
	select {
	case <-c.done:
		return c.err
	default:
		return nil
	}
}
func (c *c19Ctx) Value(interface{}) interface{} { return nil }
func (c *c19Ctx) cancel()                       { c.once.Do(func() { close(c.done) }) }

// ---------------------------------------------------------------- packets as the harness decodes them

type c19Pkt struct {
	Kind    string // publish pubrel subscribe unsubscribe pingreq disconnect other
	ID      int
	Topic   string
	QoS     int
	Retain  bool
	Dup     bool
	Payload []byte
	Subs    []mqtt.Subscription
	Topics  []string
	Raw     []byte
}

func c19Varint(b []byte) (n int, used int) {
	mul := 1
	for i := 0; i < len(b) && i < 4; i++ {
		n += int(b[i]&0x7F) * mul
		mul *= 128
		if b[i]&0x80 == 0 {
			return n, i + 1
		}
	}
	return n, len(b)
}

func c19Decode(pkt []byte) c19Pkt {
	p := c19Pkt{Kind: "other", Raw: pkt}
	if len(pkt) < 2 {
		return p
	}
	_, used := c19Varint(pkt[1:])
	body := pkt[1+used:]
	str := func(b []byte) (string, []byte, bool) {
		if len(b) < 2 {
			return "", nil, false
		}
		l := int(b[0])<<8 | int(b[1])
		if len(b) < 2+l {
			return "", nil, false
		}
		return string(b[2 : 2+l]), b[2+l:], true
	}
	switch pkt[0] & 0xF0 {
	case 0x30:
		p.QoS = int(pkt[0]>>1) & 3
		p.Retain = pkt[0]&1 != 0
		p.Dup = pkt[0]&8 != 0
		t, rest, ok := str(body)
		if !ok {
			return p
		}
		p.Topic = t
		if p.QoS > 0 {
			if len(rest) < 2 {
				return p
			}
			p.ID = int(rest[0])<<8 | int(rest[1])
			rest = rest[2:]
		}
		p.Payload = append([]byte{}, rest...)
		p.Kind = "publish"
	case 0x60:
		if len(body) == 2 && pkt[0] == 0x62 {
			p.ID = int(body[0])<<8 | int(body[1])
			p.Kind = "pubrel"
		}
	case 0x80:
		if len(body) < 2 || pkt[0] != 0x82 {
			return p
		}
		p.ID = int(body[0])<<8 | int(body[1])
		rest := body[2:]
		for len(rest) > 0 {
			t, r2, ok := str(rest)
			if !ok || len(r2) < 1 {
				return p
			}
			p.Subs = append(p.Subs, mqtt.Subscription{Topic: t, QoS: mqtt.QoS(r2[0])})
			rest = r2[1:]
		}
		p.Kind = "subscribe"
	case 0xA0:
		if len(body) < 2 || pkt[0] != 0xA2 {
			return p
		}
		p.ID = int(body[0])<<8 | int(body[1])
		rest := body[2:]
		for len(rest) > 0 {
			t, r2, ok := str(rest)
			if !ok {
				return p
			}
			p.Topics = append(p.Topics, t)
			rest = r2
		}
		p.Kind = "unsubscribe"
	case 0xC0:
		p.Kind = "pingreq"
	case 0xE0:
		p.Kind = "disconnect"
	}
	return p
}

func (p c19Pkt) coq() string {
	switch p.Kind {
	case "publish":
		return "PPublish " + cMsg([]byte(p.Topic), uint16(p.ID), byte(p.QoS), p.Retain, p.Dup, p.Payload)
	case "pubrel":
		return fmt.Sprintf("PPubRel %d", p.ID)
	case "subscribe":
		return fmt.Sprintf("PSubscribe %d %s", p.ID, c19SubsCoq(p.Subs))
	case "unsubscribe":
		return fmt.Sprintf("PUnsubscribe %d %s", p.ID, c19TopicsCoq(p.Topics))
	}
	return "PPubRel 4242424242" // an unexpected packet: can never match
}

func (p c19Pkt) desc() string {
	switch p.Kind {
	case "publish":
		return fmt.Sprintf("PUBLISH(q%d,id%d,dup=%v,retain=%v,%q,%x)", p.QoS, p.ID, p.Dup, p.Retain, p.Topic, p.Payload)
	case "pubrel":
		return fmt.Sprintf("PUBREL(id%d)", p.ID)
	case "subscribe":
		return fmt.Sprintf("SUBSCRIBE(id%d,%v)", p.ID, p.Subs)
	case "unsubscribe":
		return fmt.Sprintf("UNSUBSCRIBE(id%d,%v)", p.ID, p.Topics)
	}
	return fmt.Sprintf("%s(%x)", p.Kind, p.Raw)
}

func c19SubsCoq(subs []mqtt.Subscription) string {
	var it []string
	for _, s := range subs {
		it = append(it, fmt.Sprintf("(%s, %d)", cStr(s.Topic), int(s.QoS)))
	}
	return cListInline(it)
}

func c19TopicsCoq(ts []string) string {
	var it []string
	for _, t := range ts {
		it = append(it, cStr(t))
	}
	return cListInline(it)
}

// ---------------------------------------------------------------- a BaseClient over a scripted memConn

type c19Conn struct {
	conn *memConn
	cli  *mqtt.BaseClient
	mu   sync.Mutex
	reqs []c19Pkt // request packets written (everything but CONNECT / DISCONNECT)
	// inject sees the n-th (1-based) request packet (for Connect scenarios: the CONNECT packet is
	// number 1); handled=true means: do not acknowledge, return err from Write.
	inject      func(cc *c19Conn, n int, p c19Pkt) (handled bool, err error)
	connackCode int // -1: CONNECT is passed to inject instead of being answered
	n           int
}

func (cc *c19Conn) onWrite(c *memConn, pkt []byte) error {
	if c.isClosed() {
		// an attempt on a dead connection: still a transmission attempt, keep it in the log
		cc.mu.Lock()
		cc.reqs = append(cc.reqs, c19Decode(pkt))
		cc.mu.Unlock()
		return nil
	}
	if pkt[0]&0xF0 == 0x10 {
		if cc.connackCode >= 0 {
			c.send([]byte{0x20, 2, 0, byte(cc.connackCode)})
			return nil
		}
		cc.mu.Lock()
		cc.n++
		n := cc.n
		cc.mu.Unlock()
		if cc.inject != nil {
			if handled, err := cc.inject(cc, n, c19Pkt{Kind: "connect", Raw: pkt}); handled {
				return err
			}
		}
		c.send(connackOK)
		return nil
	}
	p := c19Decode(pkt)
	if p.Kind == "disconnect" {
		return nil
	}
	cc.mu.Lock()
	cc.reqs = append(cc.reqs, p)
	cc.n++
	n := cc.n
	inject := cc.inject
	cc.mu.Unlock()
	if inject != nil {
		if handled, err := inject(cc, n, p); handled {
			return err
		}
	}
	cc.ack(p)
	return nil
}

func (cc *c19Conn) ack(p c19Pkt) {
	switch p.Kind {
	case "publish":
		if p.QoS == 1 {
			cc.conn.send(encID(0x40, uint16(p.ID)))
		} else if p.QoS == 2 {
			cc.conn.send(encID(0x50, uint16(p.ID)))
		}
	case "pubrel":
		cc.conn.send(encID(0x70, uint16(p.ID)))
	case "subscribe":
		body := []byte{byte(p.ID >> 8), byte(p.ID)}
		for _, s := range p.Subs {
			body = append(body, byte(s.QoS))
		}
		cc.conn.send(encFrame(0x90, body))
	case "unsubscribe":
		cc.conn.send(encID(0xB0, uint16(p.ID)))
	case "pingreq":
		cc.conn.send([]byte{0xD0, 0})
	}
}

func (cc *c19Conn) requests() []c19Pkt {
	cc.mu.Lock()
	defer cc.mu.Unlock()
	return append([]c19Pkt{}, cc.reqs...)
}

// A failing Write may report that it accepted some bytes before failing: (n > 0, err). The scenario
// asks for it by returning a *c19PartialErr from inject; c19Transport turns it into (n, err).
type c19PartialErr struct {
	n   int // bytes "accepted"; -1 = all but the last one
	err error
}

func (e *c19PartialErr) Error() string { return "c19: partial write marker" }

type c19Transport struct{ cc *c19Conn }

func (t *c19Transport) Read(p []byte) (int, error) { return t.cc.conn.Read(p) }
func (t *c19Transport) Close() error               { return t.cc.conn.Close() }
func (t *c19Transport) Write(p []byte) (int, error) {
	n, err := t.cc.conn.Write(p)
	if pe, ok := err.(*c19PartialErr); ok {
		k := pe.n
		if k < 0 || k >= len(p) {
			k = len(p) - 1
		}
		return k, pe.err
	}
	return n, err
}

// c19NewConn makes an unconnected BaseClient over a fresh memConn.
func c19NewConn(inject func(cc *c19Conn, n int, p c19Pkt) (bool, error)) *c19Conn {
	cc := &c19Conn{inject: inject}
	cc.conn = newMemConn(1, cc.onWrite)
	cc.cli = &mqtt.BaseClient{Transport: &c19Transport{cc}}
	return cc
}

// setInject installs the script of the next attempt on this (still open) connection; packet
// numbers start again at 1.
func (cc *c19Conn) setInject(inject func(cc *c19Conn, n int, p c19Pkt) (bool, error)) {
	cc.mu.Lock()
	cc.inject = inject
	cc.n = 0
	cc.mu.Unlock()
}

func (cc *c19Conn) connect() error {
	ctx, cancel := ctxTimeout(10 * time.Second)
	defer cancel()
	_, err := cc.cli.Connect(ctx, "c19")
	return err
}

var errC19Stuck = errors.New("c19: call did not return within the guard time")

// what a library call "returned" when it panicked
type c19Panicked struct{ msg string }

func (e *c19Panicked) Error() string { return "c19: the library call panicked: " + e.msg }

// c19Guard runs f on its own goroutine and waits for it generously.
func c19Guard(f func() error) (error, bool) {
	ch := make(chan error, 1)
	go func() {
		defer func() {
			// a panic inside a library call is an observation (the unchanged library never
			// panics here), not a crash of the harness
			if r := recover(); r != nil {
				ch <- &c19Panicked{msg: fmt.Sprint(r)}
			}
		}()
		ch <- f()
	}()
	select {
	case err := <-ch:
		return err, true
	case <-time.After(20 * time.Second):
		return errC19Stuck, false
	}
}

// ---------------------------------------------------------------- descriptions

const (
	c19KPub0 = iota
	c19KPub1
	c19KPub2
	c19KSub
	c19KUnsub
	c19KPing
	c19KConnect
)

var c19KNames = []string{"KPub0", "KPub1", "KPub2", "KSub", "KUnsub", "KPing", "KConnect"}

const (
	c19FWrite1 = iota
	c19FClosed1
	c19FCtx1
	c19FWrite2
	c19FClosed2
	c19FCtx2
)

var c19FNames = []string{"FWrite1", "FClosed1", "FCtx1", "FWrite2", "FClosed2", "FCtx2"}

type c19Call struct {
	// + retryretx: RetryClient with ResponseTimeout, request K interrupted once by the peer closing
	// (P2: at the PUBREL of a QoS 2 publish), then N timed-out retransmissions via SetClient+Connect+Retry
	P2    bool
	// req with FWrite*: the failing Transport.Write returns (Partial, cause); -1 = len-1. Not part of
	// the Coq description: BaseClient.write hands the error on whatever n is
	Partial int
	Kind    string // req connectopt retryconnectopt retryping retrytimeout notconnected validate closedclient connrefused subbadack willbadqos serve
	K     int
	F     int
	RT    bool
	Retry bool
	QoS   bool
	Code  int
	N     int
}

func (c *c19Call) usesCause() bool {
	switch c.Kind {
	case "req", "retryping":
		return c.F != c19FClosed1 && c.F != c19FClosed2
	case "connectopt", "retryconnectopt", "reconnconnect":
		return true
	case "keepalive":
		return c.N != 0
	}
	return false
}

func (c *c19Call) coq() string {
	switch c.Kind {
	case "req":
		return fmt.Sprintf("(CkReq %s %s)", c19KNames[c.K], c19FNames[c.F])
	case "connectopt":
		return "CkConnectOpt"
	case "retryconnectopt":
		return "CkRetryConnectOpt"
	case "retryping":
		return fmt.Sprintf("(CkRetryPing %s %s)", cBool(c.RT), c19FNames[c.F])
	case "retrytimeout":
		return fmt.Sprintf("(CkRetryTimeout %s)", c19KNames[c.K])
	case "notconnected":
		return fmt.Sprintf("(CkNotConnected %s)", c19KNames[c.K])
	case "validate":
		return fmt.Sprintf("(CkValidate %s %s)", cBool(c.Retry), cBool(c.QoS))
	case "closedclient":
		return "CkClosedClient"
	case "connrefused":
		return fmt.Sprintf("(CkConnRefused %d)", c.Code)
	case "subbadack":
		return "CkSubBadAck"
	case "willbadqos":
		return "CkWillBadQoS"
	case "serve":
		return fmt.Sprintf("(CkServe %d)", c.N)
	case "keepalive":
		return fmt.Sprintf("(CkKeepAlive %d)", c.N)
	case "retryretx":
		return fmt.Sprintf("(CkRetryRetx %s %s %d)", c19KNames[c.K], cBool(c.P2), c.N)
	case "retryclosed":
		return fmt.Sprintf("(CkRetryClosed %s %s)", c19KNames[c.K], cBool(c.P2))
	case "reconnconnect":
		return fmt.Sprintf("(CkReconnConnect %d)", c.N)
	}
	panic("c19: unknown call kind " + c.Kind)
}

type c19Desc struct {
	Kind  string // nil sent lib fmt conn pef pnoerr perrnoterr val pnonstruct uncmp call
	ID    int
	Sent  int
	Code  int
	K     int
	Call  *c19Call
	Child *c19Desc
}

func (d *c19Desc) coq() string {
	switch d.Kind {
	case "nil":
		return "DNil"
	case "sent":
		return "(DSent " + c19Sents[d.Sent].coq + ")"
	case "lib":
		return fmt.Sprintf("(DLib %s %s)", cNat(d.ID), d.Child.coq())
	case "fmt":
		return fmt.Sprintf("(DFmt %s %s)", cNat(d.ID), d.Child.coq())
	case "conn":
		return fmt.Sprintf("(DConn %s %d %s)", cNat(d.ID), d.Code, d.Child.coq())
	case "pef":
		return fmt.Sprintf("(DPtrErrField %s %s)", cNat(d.ID), d.Child.coq())
	case "pnoerr":
		return fmt.Sprintf("(DPtrNoErr %s)", cNat(d.ID))
	case "perrnoterr":
		return fmt.Sprintf("(DPtrErrNotError %s)", cNat(d.ID))
	case "val":
		return fmt.Sprintf("(DVal %d)", d.K)
	case "pnonstruct":
		return fmt.Sprintf("(DPtrNonStruct %s)", cNat(d.ID))
	case "uncmp":
		return fmt.Sprintf("(DUncmp %d)", d.K)
	case "call":
		return fmt.Sprintf("(DCall %s %s %s)", cNat(d.ID), d.Call.coq(), d.Child.coq())
	}
	panic("c19: unknown desc kind " + d.Kind)
}

func (d *c19Desc) text() string {
	switch d.Kind {
	case "nil":
		return "nil"
	case "sent":
		return strings.Trim(c19Sents[d.Sent].coq, "()")
	case "lib":
		return "&mqtt.Error{Err: " + d.Child.text() + "}"
	case "fmt":
		return "fmt.Errorf(%w: " + d.Child.text() + ")"
	case "conn":
		return "&mqtt.ConnectionError{Err: " + d.Child.text() + "}"
	case "pef":
		return "&foreignPtr{Err: " + d.Child.text() + "}"
	case "call":
		if d.Call.usesCause() {
			if d.Call.Kind == "reconnconnect" {
				return fmt.Sprintf("ReconnectClient.Connect[failed attempts before the caller's context ends: %v; ctx.Err(): %s]", c19ReconnHistories[d.Call.N], d.Child.text())
			}
			w := ""
			if d.Call.Partial != 0 {
				w = fmt.Sprintf(" returned by Write as (n=%d, err)", d.Call.Partial)
			}
			return "call" + d.Call.coq() + "[cause: " + d.Child.text() + w + "]"
		}
		if d.Call.Kind == "retryclosed" {
			return "call" + d.Call.coq() + []string{"[connection cut]", "[peer finished: EOF]", "[local Close()]"}[d.Call.N]
		}
		return "call" + d.Call.coq()
	}
	return d.Kind
}

func (d *c19Desc) shaped() bool {
	switch d.Kind {
	case "sent":
		return true
	case "lib", "fmt", "conn":
		return d.Child.shaped()
	case "call":
		if d.Call.usesCause() {
			return d.Child.shaped()
		}
		return true
	}
	return false
}

func (d *c19Desc) depth() int {
	if d.Child == nil {
		return 1
	}
	return 1 + d.Child.depth()
}

// ids of the nodes whose built value can serve as an errors.Is target
func (d *c19Desc) subIDs(out []int) []int {
	switch d.Kind {
	case "lib", "fmt", "conn", "pef", "call":
		out = append(out, d.ID)
		return d.Child.subIDs(out)
	case "pnoerr", "perrnoterr", "pnonstruct":
		return append(out, d.ID)
	}
	return out
}

// hand-made wrapper nodes whose whole subtree is hand-made from parts that a second build
// reproduces with equal content (no library call, no pointer-holding struct value)
func (d *c19Desc) rebuildable() bool {
	switch d.Kind {
	case "call":
		return false
	case "val":
		return d.K < 1000
	}
	if d.Child != nil {
		return d.Child.rebuildable()
	}
	return true
}

func (d *c19Desc) twinNodes(out []*c19Desc) []*c19Desc {
	switch d.Kind {
	case "lib", "fmt", "conn", "pef":
		if d.rebuildable() {
			out = append(out, d)
		}
	}
	if d.Child != nil {
		return d.Child.twinNodes(out)
	}
	return out
}

type c19PanicRec struct {
	call   string
	msg    string
	shaped bool
}

type c19Builder struct {
	reg    map[int]error
	calls  map[string]int
	stuck  []string
	panics []c19PanicRec
}

// build makes the real value the description stands for.
func (b *c19Builder) build(d *c19Desc) error {
	switch d.Kind {
	case "nil":
		return nil
	case "sent":
		return c19Sents[d.Sent].err
	case "lib":
		v := &mqtt.Error{Err: b.build(d.Child), Failure: fmt.Sprintf("hand%d", d.ID), File: "c19.go", Line: d.ID}
		b.reg[d.ID] = v
		return v
	case "fmt":
		v := fmt.Errorf("w%d: %w", d.ID, b.build(d.Child))
		b.reg[d.ID] = v
		return v
	case "conn":
		v := &mqtt.ConnectionError{Err: b.build(d.Child), Code: mqtt.ConnectionReturnCode(d.Code)}
		b.reg[d.ID] = v
		return v
	case "pef":
		v := &c19PtrErrField{Err: b.build(d.Child), N: d.ID}
		b.reg[d.ID] = v
		return v
	case "pnoerr":
		v := &c19PtrNoErr{N: d.ID}
		b.reg[d.ID] = v
		return v
	case "perrnoterr":
		v := &c19PtrErrNotError{Err: "x", N: d.ID}
		b.reg[d.ID] = v
		return v
	case "val":
		if d.K >= 1000 {
			return newC19ValP() // its own allocation: == to nothing else
		}
		return c19Val{K: d.K}
	case "pnonstruct":
		v := new(c19PtrNonStruct)
		*v = c19PtrNonStruct(d.ID)
		b.reg[d.ID] = v
		return v
	case "uncmp":
		return c19Uncmp{K: d.K, S: []int{d.K}}
	case "call":
		cause := b.build(d.Child)
		v, ok := c19DoCall(d.Call, cause)
		b.calls[d.Call.Kind]++
		if !ok {
			b.stuck = append(b.stuck, d.text())
		}
		if p, isPanic := v.(*c19Panicked); isPanic {
			b.panics = append(b.panics, c19PanicRec{call: d.text(), msg: p.msg, shaped: d.shaped()})
		}
		b.reg[d.ID] = v
		return v
	}
	panic("c19: unknown desc kind " + d.Kind)
}

// ---------------------------------------------------------------- the real calls

func c19Issue(cli mqtt.Client, ctx context.Context, k int) error {
	switch k {
	case c19KPub0, c19KPub1, c19KPub2:
		return cli.Publish(ctx, &mqtt.Message{Topic: "t", QoS: mqtt.QoS(k - c19KPub0), Payload: []byte{1}})
	case c19KSub:
		_, err := cli.Subscribe(ctx, mqtt.Subscription{Topic: "t", QoS: mqtt.QoS1})
		return err
	case c19KUnsub:
		return cli.Unsubscribe(ctx, "t")
	case c19KPing:
		return cli.Ping(ctx)
	}
	panic("c19: bad request kind")
}

// c19Injector interrupts the packet number target the way step f says.
func c19Injector(f int, cause error, ctx *c19Ctx) func(cc *c19Conn, n int, p c19Pkt) (bool, error) {
	return c19InjectorPartial(f, cause, ctx, 0)
}

// partial: how many bytes the failing Write claims to have accepted (0: none; -1: all but one)
func c19InjectorPartial(f int, cause error, ctx *c19Ctx, partial int) func(cc *c19Conn, n int, p c19Pkt) (bool, error) {
	target := 1
	if f >= c19FWrite2 {
		target = 2
	}
	return func(cc *c19Conn, n int, p c19Pkt) (bool, error) {
		if n != target {
			return false, nil
		}
		switch f {
		case c19FWrite1, c19FWrite2:
			if partial != 0 {
				return true, &c19PartialErr{n: partial, err: cause}
			}
			return true, cause
		case c19FClosed1, c19FClosed2:
			cc.conn.Close()
			return true, nil
		default:
			ctx.cancel()
			return true, nil
		}
	}
}

// a RetryClient over a connected BaseClient
func c19RetryClient(cc *c19Conn, responseTimeout time.Duration, onError func(error)) (*mqtt.RetryClient, error) {
	rc := &mqtt.RetryClient{ResponseTimeout: responseTimeout, OnError: onError}
	rc.SetClient(context.Background(), cc.cli)
	ctx, cancel := ctxTimeout(10 * time.Second)
	defer cancel()
	if _, err := rc.Connect(ctx, "c19"); err != nil {
		return nil, err
	}
	return rc, nil
}

func c19StopRetryClient(rc *mqtt.RetryClient, cc *c19Conn) {
	ctx, cancel := ctxTimeout(10 * time.Second)
	_ = rc.Disconnect(ctx)
	cancel()
	cc.cli.Close()
}

// c19RetxTimeout is the ResponseTimeout of the retransmission scenarios. Only its expiry matters,
// never when it happens: whichever arm ends the FIRST transmission (the peer's close, or under
// extreme load this timeout) the queued handle is the same kind of error, and every wait for an
// OnError call is 30 s.
const c19RetxTimeout = 200 * time.Millisecond

type c19RetxResult struct {
	err error
	ok  bool
}

var (
	c19RetxMu    sync.Mutex
	c19RetxCache = map[string]*c19RetxResult{}
)

// c19Retx: a request on a RetryClient with ResponseTimeout is interrupted once (the peer closes the
// connection instead of acknowledging), then n times: SetClient(new BaseClient) + Connect + Retry
// on a connection whose broker swallows the retransmission. Returns the error OnError received for
// the n-th retransmission. The result is computed once per run and scenario (it costs n x 200 ms)
// and the same error value is reused wherever the scenario occurs in a chain.
func c19Retx(c *c19Call) (error, bool) {
	key := c.coq()
	c19RetxMu.Lock()
	if r, ok := c19RetxCache[key]; ok {
		c19RetxMu.Unlock()
		return r.err, r.ok
	}
	c19RetxMu.Unlock()
	err, ok := c19RetxRun(c)
	c19RetxMu.Lock()
	c19RetxCache[key] = &c19RetxResult{err, ok}
	c19RetxMu.Unlock()
	return err, ok
}

func c19RetxRun(c *c19Call) (error, bool) {
	bg := context.Background()
	chErr := make(chan error, 64)
	next := func() (error, bool) {
		select {
		case err := <-chErr:
			return err, true
		case <-time.After(30 * time.Second):
			return errC19Stuck, false
		}
	}
	target := 1
	if c.P2 {
		target = 2
	}
	cc := c19NewConn(func(cc *c19Conn, n int, p c19Pkt) (bool, error) {
		if n == target {
			cc.conn.Close() // the peer goes away instead of acknowledging
			return true, nil
		}
		return false, nil
	})
	rc, err := c19RetryClient(cc, c19RetxTimeout, func(err error) {
		select {
		case chErr <- err:
		default:
		}
	})
	if err != nil {
		return err, false
	}
	conns := []*c19Conn{cc}
	defer func() {
		ctx, cancel := ctxTimeout(10 * time.Second)
		_ = rc.Disconnect(ctx)
		cancel()
		for _, x := range conns {
			x.cli.Close()
		}
	}()
	if err := c19Issue(rc, bg, c.K); err != nil {
		return fmt.Errorf("c19: RetryClient refused the request: %v", err), true
	}
	first, ok := next()
	if !ok {
		return first, false
	}
	if _, isRetry := first.(mqtt.ErrorWithRetry); !isRetry {
		// nothing was queued: there will be no retransmission to observe
		return fmt.Errorf("c19: the interrupted first transmission reported an error without retry handle: %w", first), true
	}
	last := first
	for round := 0; round < c.N; round++ {
		nc := c19NewConn(func(cc *c19Conn, n int, p c19Pkt) (bool, error) { return true, nil }) // never answers
		conns = append(conns, nc)
		rc.SetClient(bg, nc.cli)
		ctx, cancel := ctxTimeout(20 * time.Second)
		_, err := rc.Connect(ctx, "c19")
		cancel()
		if err != nil {
			return fmt.Errorf("c19: reconnecting: %v", err), false
		}
		rc.Retry(bg)
		last, ok = next()
		if !ok {
			return last, false
		}
	}
	return last, true
}

// histories of failed attempts of ReconnectClient.Connect before the caller's context ends
// (CkReconnConnect n): "dial" = the dialer fails; "refusedN" = CONNACK with return code N;
// "handshake-deadline" = CONNACK never sent, WithTimeout expires; "closed" = transport closed before CONNACK
var c19ReconnHistories = [][]string{
	{},
	{"dial"},
	{"dial", "dial", "dial"},
	{"refused1"}, {"refused2"}, {"refused3"}, {"refused4"}, {"refused5"},
	{"handshake-deadline"},
	{"closed"},
	{"dial", "refused2", "closed"},
	{"refused4", "handshake-deadline"},
	{"closed", "dial", "refused5"},
	{"handshake-deadline", "refused1"},
}

var errC19Dial = errors.New("c19: dial failed")

// c19ReconnConnect runs ReconnectClient.Connect with a caller context whose Err() is cause; the
// scripted dialer makes the attempts of the history fail one after the other and, when it is asked
// for the next connection, completes the caller's context (all recorded errors were stored before).
func c19ReconnConnect(hist []string, cause error) (error, bool) {
	ctx := newC19Ctx(cause)
	var mu sync.Mutex
	attempt := 0
	var conns []*c19Conn
	dialer := mqtt.DialerFunc(func(dctx context.Context) (*mqtt.BaseClient, error) {
		mu.Lock()
		defer mu.Unlock()
		i := attempt
		attempt++
		if i >= len(hist) {
			ctx.cancel()
			return nil, cause // == ctx.Err(): the loop does not record it
		}
		h := hist[i]
		if h == "dial" {
			return nil, errC19Dial
		}
		cc := c19NewConn(func(cc *c19Conn, n int, p c19Pkt) (bool, error) {
			if p.Kind != "connect" {
				return false, nil
			}
			if h == "closed" {
				cc.conn.Close()
			}
			return true, nil // no CONNACK
		})
		cc.connackCode = -1
		if strings.HasPrefix(h, "refused") {
			cc.connackCode = int(h[len("refused")] - '0')
		}
		conns = append(conns, cc)
		return cc.cli, nil
	})
	rc, err := mqtt.NewReconnectClient(dialer,
		mqtt.WithReconnectWait(time.Millisecond, 2*time.Millisecond),
		mqtt.WithTimeout(100*time.Millisecond)) // the library's own handshake deadline
	if err != nil {
		return err, false
	}
	res, ok := c19Guard(func() error { _, err := rc.Connect(ctx, "c19"); return err })
	ctx.cancel()
	_, _ = c19Guard(func() error {
		dctx, cancel := ctxTimeout(5 * time.Second)
		defer cancel()
		return rc.Disconnect(dctx)
	})
	mu.Lock()
	for _, cc := range conns {
		cc.cli.Close()
	}
	mu.Unlock()
	return res, ok
}

// c19DoCall performs the real library call and returns its error. ok=false: it did not return.
func c19DoCall(c *c19Call, cause error) (error, bool) {
	bg := context.Background()
	switch c.Kind {
	case "reconnconnect":
		return c19ReconnConnect(c19ReconnHistories[c.N], cause)
	case "retryretx":
		return c19Retx(c)
	case "retryclosed":
		// a RetryClient with ResponseTimeout (one hour: it never expires here) hands BaseClient its
		// request context, whose Err() is non-nil at all times; the connection ends while the request
		// waits for its acknowledgement: N = 0 cut, 1 the peer finishes (EOF), 2 local Close()
		target := 1
		if c.P2 {
			target = 2
		}
		cc := c19NewConn(func(cc *c19Conn, n int, p c19Pkt) (bool, error) {
			if n != target {
				return false, nil
			}
			switch c.N {
			case 0:
				cc.conn.Close()
			case 1:
				cc.conn.finish()
			default:
				cc.cli.Close()
			}
			return true, nil
		})
		chErr := make(chan error, 8)
		rc, err := c19RetryClient(cc, time.Hour, func(err error) {
			select {
			case chErr <- err:
			default:
			}
		})
		if err != nil {
			return err, false
		}
		err, ok := c19Guard(func() error {
			if err := c19Issue(rc, bg, c.K); err != nil {
				return fmt.Errorf("c19: RetryClient refused the request: %v", err)
			}
			select {
			case err := <-chErr:
				return err
			case <-time.After(30 * time.Second):
				return errC19Stuck
			}
		})
		if err == errC19Stuck {
			ok = false
		}
		c19StopRetryClient(rc, cc)
		return err, ok
	case "req":
		ctx := newC19Ctx(cause)
		if c.K == c19KConnect {
			cc := c19NewConn(c19InjectorPartial(c.F, cause, ctx, c.Partial))
			cc.connackCode = -1
			err, ok := c19Guard(func() error { _, err := cc.cli.Connect(ctx, "c19"); return err })
			cc.cli.Close()
			return err, ok
		}
		cc := c19NewConn(c19InjectorPartial(c.F, cause, ctx, c.Partial))
		if err := cc.connect(); err != nil {
			return err, false
		}
		err, ok := c19Guard(func() error { return c19Issue(cc.cli, ctx, c.K) })
		cc.cli.Close()
		return err, ok
	case "connectopt":
		cc := c19NewConn(nil)
		return c19Guard(func() error {
			_, err := cc.cli.Connect(bg, "c19", func(*mqtt.ConnectOptions) error { return cause })
			return err
		})
	case "retryconnectopt":
		cc := c19NewConn(nil)
		rc := &mqtt.RetryClient{}
		rc.SetClient(bg, cc.cli)
		err, ok := c19Guard(func() error {
			_, err := rc.Connect(bg, "c19", func(*mqtt.ConnectOptions) error { return cause })
			return err
		})
		c19StopRetryClient(rc, cc)
		return err, ok
	case "retryping":
		ctx := newC19Ctx(cause)
		cc := c19NewConn(c19InjectorPartial(c.F, cause, ctx, c.Partial))
		rt := time.Duration(0)
		if c.RT {
			rt = time.Hour
		}
		rc, err := c19RetryClient(cc, rt, nil)
		if err != nil {
			return err, false
		}
		err, ok := c19Guard(func() error { return rc.Ping(ctx) })
		c19StopRetryClient(rc, cc)
		return err, ok
	case "retrytimeout":
		// the broker never answers the request; ResponseTimeout expires
		cc := c19NewConn(func(cc *c19Conn, n int, p c19Pkt) (bool, error) { return true, nil })
		chErr := make(chan error, 8)
		rc, err := c19RetryClient(cc, 3*time.Millisecond, func(err error) {
			select {
			case chErr <- err:
			default:
			}
		})
		if err != nil {
			return err, false
		}
		var ok bool
		if c.K == c19KPing {
			err, ok = c19Guard(func() error { return rc.Ping(bg) })
		} else {
			err, ok = c19Guard(func() error {
				if err := c19Issue(rc, bg, c.K); err != nil {
					return fmt.Errorf("c19: RetryClient refused the request: %v", err)
				}
				select {
				case err := <-chErr:
					return err
				case <-time.After(15 * time.Second):
					return errC19Stuck
				}
			})
			if err == errC19Stuck {
				ok = false
			}
		}
		c19StopRetryClient(rc, cc)
		return err, ok
	case "notconnected":
		cc := c19NewConn(nil)
		return c19Guard(func() error { return c19Issue(cc.cli, bg, c.K) })
	case "validate":
		msg := &mqtt.Message{Topic: "t", QoS: mqtt.QoS1, Payload: []byte{1, 2}}
		cc := c19NewConn(nil)
		if c.QoS {
			msg.QoS = mqtt.QoS(3)
		} else {
			cc.cli.MaxPayloadLen = 1
		}
		if !c.Retry {
			return c19Guard(func() error { return cc.cli.Publish(bg, msg) })
		}
		rc, err := c19RetryClient(cc, 0, nil)
		if err != nil {
			return err, false
		}
		err, ok := c19Guard(func() error { return rc.Publish(bg, msg) })
		c19StopRetryClient(rc, cc)
		return err, ok
	case "closedclient":
		cc := c19NewConn(nil)
		rc, err := c19RetryClient(cc, 0, nil)
		if err != nil {
			return err, false
		}
		c19StopRetryClient(rc, cc)
		return c19Guard(func() error { return rc.Publish(bg, &mqtt.Message{Topic: "t", Payload: []byte{1}}) })
	case "connrefused":
		cc := c19NewConn(nil)
		cc.connackCode = c.Code
		err, ok := c19Guard(func() error { _, err := cc.cli.Connect(bg, "c19"); return err })
		cc.cli.Close()
		return err, ok
	case "subbadack":
		cc := c19NewConn(func(cc *c19Conn, n int, p c19Pkt) (bool, error) {
			if p.Kind == "subscribe" {
				cc.conn.send(encFrame(0x90, []byte{byte(p.ID >> 8), byte(p.ID), 0}))
				return true, nil
			}
			return false, nil
		})
		if err := cc.connect(); err != nil {
			return err, false
		}
		err, ok := c19Guard(func() error {
			_, err := cc.cli.Subscribe(bg, mqtt.Subscription{Topic: "a"}, mqtt.Subscription{Topic: "b"})
			return err
		})
		cc.cli.Close()
		return err, ok
	case "willbadqos":
		cc := c19NewConn(nil)
		return c19Guard(func() error {
			_, err := cc.cli.Connect(bg, "c19", mqtt.WithWill(&mqtt.Message{Topic: "w", QoS: mqtt.QoS(3)}))
			return err
		})
	case "serve":
		cc := c19NewConn(nil)
		if err := cc.connect(); err != nil {
			return err, false
		}
		switch c.N {
		case 0:
			cc.conn.finish()
		case 1:
			cc.conn.send([]byte{0x00, 0x00})
		case 2:
			cc.conn.send([]byte{0x30, 0x80, 0x80, 0x80, 0x80, 0x01})
		case 3:
			cc.conn.send([]byte{0x30, 0x03, 0x00, 0x01, 0x00})
		default:
			cc.conn.send([]byte{0x41, 0x02, 0x00, 0x01})
		}
		select {
		case <-cc.cli.Done():
		case <-time.After(20 * time.Second):
			cc.cli.Close()
			return errC19Stuck, false
		}
		return cc.cli.Err(), true
	case "keepalive":
		// 0: PINGRESP never comes and the per-ping timeout expires; 1: the parent context is
		// completed while the ping waits (per-ping timeout far away); 2: the ping's Write fails
		ctx := newC19Ctx(cause)
		cc := c19NewConn(func(cc *c19Conn, n int, p c19Pkt) (bool, error) {
			if p.Kind != "pingreq" {
				return false, nil
			}
			switch c.N {
			case 1:
				ctx.cancel()
			case 2:
				return true, cause
			}
			return true, nil
		})
		if err := cc.connect(); err != nil {
			return err, false
		}
		timeout := time.Hour
		if c.N == 0 {
			timeout = 3 * time.Millisecond
		}
		err, ok := c19Guard(func() error { return mqtt.KeepAlive(ctx, cc.cli, time.Millisecond, timeout) })
		cc.cli.Close()
		return err, ok
	}
	panic("c19: unknown call kind " + c.Kind)
}

// ---------------------------------------------------------------- observing a value

func c19Is(err, target error) (code int) {
	defer func() {
		if r := recover(); r != nil {
			code = 2
		}
	}()
	if errors.Is(err, target) {
		return 1
	}
	return 0
}

// c19ErrorText calls err.Error() under recover: "inspectable" includes the text.
func c19ErrorText(err error) (txt string, panicked bool) {
	if err == nil {
		return "", false
	}
	defer func() {
		if r := recover(); r != nil {
			txt, panicked = fmt.Sprintf("Error() panicked: %v", r), true
		}
	}()
	return err.Error(), false
}

func c19Flags(err error) []bool {
	var te *mqtt.RequestTimeoutError
	var re mqtt.ErrorWithRetry
	var ce *mqtt.ConnectionError
	var le *mqtt.Error
	_, direct := err.(mqtt.ErrorWithRetry)
	_, textPanics := c19ErrorText(err)
	return []bool{errors.As(err, &te), errors.As(err, &re), errors.As(err, &ce), errors.As(err, &le), direct, err == io.EOF, textPanics}
}

// the standard targets, in the order of CheckC19.std_targets
func c19StdTargets() []error {
	var ts []error
	for _, s := range c19Sents[:c19NStdSents] {
		ts = append(ts, s.err)
	}
	ts = append(ts, nil,
		&mqtt.Error{Err: errors.New("fresh"), Failure: "fresh"},
		fmt.Errorf("fresh: %w", errors.New("fresh")),
		&c19PtrNoErr{N: -1},
		c19Val{K: 99},
		&mqtt.ConnectionError{Err: mqtt.ErrConnectionFailed, Code: 1},
		newC19ValP(),
		c19Uncmp{K: 7, S: []int{7}})
	return ts
}

type c19ChainCase struct {
	d     *c19Desc
	std   []int
	subs  [][2]int
	flags []bool
	meth  []int // the value's own Is method against the standard targets (empty: it has none)
	twins [][2]int // errors.Is against a SECOND build of each hand-made wrapper node
}

func c19MethodIs(x interface{ Is(error) bool }, target error) (code int) {
	defer func() {
		if r := recover(); r != nil {
			code = 2
		}
	}()
	if x.Is(target) {
		return 1
	}
	return 0
}

func (c *c19ChainCase) coq() string {
	var std, subs, fl, meth []string
	for _, x := range c.std {
		std = append(std, fmt.Sprint(x))
	}
	for _, x := range c.meth {
		meth = append(meth, fmt.Sprint(x))
	}
	for _, x := range c.subs {
		subs = append(subs, fmt.Sprintf("(%s,%d)", cNat(x[0]), x[1]))
	}
	for _, x := range c.flags {
		fl = append(fl, cBool(x))
	}
	var twins []string
	for _, x := range c.twins {
		twins = append(twins, fmt.Sprintf("(%s,%d)", cNat(x[0]), x[1]))
	}
	return cTuple(c.d.coq(), cListInline(std), cListInline(subs), cListInline(fl), cListInline(meth), cListInline(twins))
}

func c19Observe(d *c19Desc, b *c19Builder) *c19ChainCase {
	b.reg = map[int]error{}
	v := b.build(d)
	c := &c19ChainCase{d: d}
	for _, t := range c19StdTargets() {
		c.std = append(c.std, c19Is(v, t))
	}
	for _, id := range d.subIDs(nil) {
		c.subs = append(c.subs, [2]int{id, c19Is(v, b.reg[id])})
	}
	// look-alike wrappers: build the hand-made wrapper nodes a second time (new allocations, same
	// fields, the same sentinel objects inside)
	for _, n := range d.twinNodes(nil) {
		b2 := &c19Builder{reg: map[int]error{}, calls: map[string]int{}}
		c.twins = append(c.twins, [2]int{n.ID, c19Is(v, b2.build(n))})
	}
	c.flags = c19Flags(v)
	if x, ok := v.(interface{ Is(error) bool }); ok {
		for _, t := range c19StdTargets() {
			c.meth = append(c.meth, c19MethodIs(x, t))
		}
	}
	return c
}

// ---------------------------------------------------------------- generators for family "chain"

var c19StepsOf = map[int][]int{
	c19KPub0:    {c19FWrite1},
	c19KPub1:    {c19FWrite1, c19FClosed1, c19FCtx1},
	c19KPub2:    {c19FWrite1, c19FClosed1, c19FCtx1, c19FWrite2, c19FClosed2, c19FCtx2},
	c19KSub:     {c19FWrite1, c19FClosed1, c19FCtx1},
	c19KUnsub:   {c19FWrite1, c19FClosed1, c19FCtx1},
	c19KPing:    {c19FWrite1, c19FClosed1, c19FCtx1},
	c19KConnect: {c19FWrite1, c19FClosed1, c19FCtx1},
}

// every call scenario that needs no cause
func c19CauselessCalls() []*c19Call {
	var out []*c19Call
	for k := c19KPub0; k <= c19KConnect; k++ {
		for _, f := range c19StepsOf[k] {
			if f == c19FClosed1 || f == c19FClosed2 {
				out = append(out, &c19Call{Kind: "req", K: k, F: f})
			}
		}
	}
	out = append(out, &c19Call{Kind: "retryping", F: c19FClosed1}, &c19Call{Kind: "retryping", F: c19FClosed1, RT: true})
	for _, k := range []int{c19KPub1, c19KPub2, c19KSub, c19KUnsub, c19KPing} {
		out = append(out, &c19Call{Kind: "retrytimeout", K: k})
	}
	for k := c19KPub0; k <= c19KPing; k++ {
		out = append(out, &c19Call{Kind: "notconnected", K: k})
	}
	for _, r := range []bool{false, true} {
		for _, q := range []bool{false, true} {
			out = append(out, &c19Call{Kind: "validate", Retry: r, QoS: q})
		}
	}
	out = append(out, &c19Call{Kind: "closedclient"}, &c19Call{Kind: "subbadack"}, &c19Call{Kind: "willbadqos"})
	for code := 1; code <= 5; code++ {
		out = append(out, &c19Call{Kind: "connrefused", Code: code})
	}
	for n := 0; n <= 4; n++ {
		out = append(out, &c19Call{Kind: "serve", N: n})
	}
	out = append(out, &c19Call{Kind: "keepalive", N: 0})
	for n := 1; n <= 2; n++ {
		for _, k := range []int{c19KPub1, c19KPub2, c19KSub, c19KUnsub} {
			out = append(out, &c19Call{Kind: "retryretx", K: k, N: n})
		}
		out = append(out, &c19Call{Kind: "retryretx", K: c19KPub2, P2: true, N: n})
	}
	for how := 0; how <= 2; how++ {
		for _, k := range []int{c19KPub1, c19KPub2, c19KSub, c19KUnsub} {
			out = append(out, &c19Call{Kind: "retryclosed", K: k, N: how})
		}
		out = append(out, &c19Call{Kind: "retryclosed", K: c19KPub2, P2: true, N: how})
	}
	return out
}

// every call scenario that wraps a cause
func c19CauseCalls() []*c19Call {
	var out []*c19Call
	for k := c19KPub0; k <= c19KConnect; k++ {
		for _, f := range c19StepsOf[k] {
			if f != c19FClosed1 && f != c19FClosed2 {
				out = append(out, &c19Call{Kind: "req", K: k, F: f})
			}
		}
	}
	out = append(out, &c19Call{Kind: "connectopt"}, &c19Call{Kind: "retryconnectopt"},
		&c19Call{Kind: "keepalive", N: 1}, &c19Call{Kind: "keepalive", N: 2})
	for _, rt := range []bool{false, true} {
		out = append(out, &c19Call{Kind: "retryping", F: c19FWrite1, RT: rt}, &c19Call{Kind: "retryping", F: c19FCtx1, RT: rt})
	}
	// ReconnectClient.Connect ended by the caller's context after a history of failed attempts (the
	// histories that wait for the library's 100 ms handshake deadline only run in the exhaustive part)
	for _, h := range []int{0, 1, 3, 5, 9, 10, 12} {
		out = append(out, &c19Call{Kind: "reconnconnect", N: h})
	}
	return out
}

type c19Gen struct {
	r         *rand.Rand
	nextID    int
	causeless []*c19Call
	withCause []*c19Call
}

func (g *c19Gen) id() int { g.nextID++; return g.nextID }

func (g *c19Gen) sentinel() *c19Desc {
	if g.r.Intn(6) == 0 {
		// a look-alike: foreign error with a documented sentinel's text
		return &c19Desc{Kind: "sent", Sent: c19Twin0 + g.r.Intn(c19NDocumented)}
	}
	x := g.r.Intn(20)
	if x < 15 {
		return &c19Desc{Kind: "sent", Sent: x}
	}
	if x < 17 {
		return &c19Desc{Kind: "sent", Sent: c19SEOF} // io.EOF more often: it is the special case
	}
	return &c19Desc{Kind: "sent", Sent: c19SOther0 + g.r.Intn(3)}
}

func (g *c19Gen) leaf(hostile bool) *c19Desc {
	x := g.r.Intn(100)
	switch {
	case hostile && x < 25:
		switch g.r.Intn(6) {
		case 0:
			return &c19Desc{Kind: "nil"}
		case 1:
			return &c19Desc{Kind: "pnoerr", ID: g.id()}
		case 2:
			return &c19Desc{Kind: "perrnoterr", ID: g.id()}
		case 3:
			if g.r.Intn(2) == 0 {
				return &c19Desc{Kind: "val", K: 1000 + g.id()}
			}
			return &c19Desc{Kind: "val", K: g.r.Intn(3)}
		case 4:
			return &c19Desc{Kind: "pnonstruct", ID: g.id()}
		default:
			return &c19Desc{Kind: "uncmp", K: g.r.Intn(3)}
		}
	case x < 45:
		c := g.causeless[g.r.Intn(len(g.causeless))]
		return &c19Desc{Kind: "call", ID: g.id(), Call: c, Child: &c19Desc{Kind: "nil"}}
	}
	return g.sentinel()
}

func (g *c19Gen) chain(depth int, hostile bool) *c19Desc {
	if depth <= 0 {
		return g.leaf(hostile)
	}
	id := g.id()
	child := g.chain(depth-1, hostile)
	x := g.r.Intn(100)
	switch {
	case x < 25:
		return &c19Desc{Kind: "lib", ID: id, Child: child}
	case x < 45:
		return &c19Desc{Kind: "fmt", ID: id, Child: child}
	case x < 52:
		return &c19Desc{Kind: "conn", ID: id, Code: 1 + g.r.Intn(5), Child: child}
	case hostile && x < 65:
		return &c19Desc{Kind: "pef", ID: id, Child: child}
	}
	if child.Kind == "nil" {
		// a failed Write / a done context / a failing option never hands nil to the library
		return &c19Desc{Kind: "lib", ID: id, Child: child}
	}
	c := g.withCause[g.r.Intn(len(g.withCause))]
	if c.Kind == "reconnconnect" && child.Kind == "uncmp" {
		// the reconnect loop compares errors with ctx.Err() by == (reconnclient.go:161,169): a context
		// whose Err() is a value of an uncomparable type makes that comparison panic on a library
		// goroutine. Foreign and outside the property; not generated (recorded in notes/C19.md).
		return &c19Desc{Kind: "lib", ID: id, Child: child}
	}
	if (c.Kind == "req" || c.Kind == "retryping") && (c.F == c19FWrite1 || c.F == c19FWrite2) {
		cp := *c
		cp.Partial = []int{0, 1, 2, -1}[g.r.Intn(4)]
		c = &cp
	}
	return &c19Desc{Kind: "call", ID: id, Call: c, Child: child}
}

// ---------------------------------------------------------------- family "retry"

type c19Request struct {
	Kind   string // publish subscribe unsubscribe
	Msg    mqtt.Message
	Subs   []mqtt.Subscription
	Topics []string
}

func (r *c19Request) coq() string {
	switch r.Kind {
	case "publish":
		return "RqPublish " + cMsg([]byte(r.Msg.Topic), r.Msg.ID, byte(r.Msg.QoS), r.Msg.Retain, r.Msg.Dup, r.Msg.Payload)
	case "subscribe":
		return "RqSubscribe " + c19SubsCoq(r.Subs)
	}
	return "RqUnsubscribe " + c19TopicsCoq(r.Topics)
}

func (r *c19Request) text() string {
	switch r.Kind {
	case "publish":
		return fmt.Sprintf("Publish(q%d,id%d,retain=%v,%q,%x)", r.Msg.QoS, r.Msg.ID, r.Msg.Retain, r.Msg.Topic, r.Msg.Payload)
	case "subscribe":
		return fmt.Sprintf("Subscribe(%v)", r.Subs)
	}
	return fmt.Sprintf("Unsubscribe(%v)", r.Topics)
}

type c19Plan struct {
	F       int // -1: everything is acknowledged
	Cause   *c19Desc
	Same    bool // run on the SAME, still connected client as the previous attempt (which was ended by its context or a failed write)
	Partial int  // FWrite*: the failing Write returns (Partial, cause); -1 = len-1
}

// client numbers of the attempts of a plan
func c19Clients(plan []c19Plan) []int {
	out := make([]int, len(plan))
	c := 0
	for i, p := range plan {
		if i == 0 || !p.Same {
			c++
		}
		out[i] = c
	}
	return out
}

type c19AttObs struct {
	textPanics bool
	client int
	nid    int
	plan   c19Plan
	pkts   []c19Pkt
	class  int
	stray  int
	errTxt string
}

func c19Class(err error, stuck bool) int {
	if stuck {
		return 5
	}
	if err == nil {
		return 0
	}
	if _, ok := err.(*c19Panicked); ok {
		return 4
	}
	if _, ok := err.(mqtt.ErrorWithRetry); ok {
		return 1
	}
	if err == io.EOF {
		return 2
	}
	return 3
}

// c19RunRetry issues the request on client 1 and calls Retry of each returned handle on the next,
// fresh, connected client, interrupting every attempt as planned.
func c19RunRetry(req *c19Request, plan []c19Plan) ([]c19AttObs, error) {
	var conns []*c19Conn
	defer func() {
		for _, cc := range conns {
			cc.cli.Close()
		}
	}()
	totalWrites := func(except int) int {
		n := 0
		for i, cc := range conns {
			if i != except {
				n += len(cc.requests())
			}
		}
		return n
	}
	var obs []c19AttObs
	var prev error
	msg := req.Msg // the library keeps and mutates the pointer it is given
	msg.Payload = append([]byte{}, req.Msg.Payload...)
	subs := append([]mqtt.Subscription{}, req.Subs...)
	topics := append([]string{}, req.Topics...)
	b := &c19Builder{reg: map[int]error{}, calls: map[string]int{}}
	for i, p := range plan {
		var cause error
		if p.F >= 0 && p.Cause != nil {
			cause = b.build(p.Cause)
		}
		ctx := newC19Ctx(cause)
		var inject func(cc *c19Conn, n int, p c19Pkt) (bool, error)
		if p.F >= 0 {
			inject = c19InjectorPartial(p.F, cause, ctx, p.Partial)
		}
		var cc *c19Conn
		if i > 0 && p.Same {
			// the previous attempt was ended by its context or a failed write: the connection is
			// still open, the client still connected; Retry is called on that same client
			cc = conns[len(conns)-1]
			cc.setInject(inject)
		} else {
			cc = c19NewConn(inject)
			if err := cc.connect(); err != nil {
				return nil, fmt.Errorf("connecting client %d: %v", len(conns)+1, err)
			}
			conns = append(conns, cc)
		}
		own := len(conns) - 1
		ownBefore := len(cc.requests())
		before := totalWrites(own)
		// a watchdog completes the context if the attempt does not come back by itself
		watchdog := newC19Ctx(errC19Stuck)
		done := make(chan struct{})
		go func() {
			select {
			case <-done:
			case <-time.After(6 * time.Second):
				watchdog.cancel()
			}
		}()
		attemptCtx := c19Either(ctx, watchdog, done)
		var err error
		var returned bool
		if i == 0 {
			err, returned = c19Guard(func() error {
				switch req.Kind {
				case "publish":
					return cc.cli.Publish(attemptCtx, &msg)
				case "subscribe":
					_, err := cc.cli.Subscribe(attemptCtx, subs...)
					return err
				default:
					return cc.cli.Unsubscribe(attemptCtx, topics...)
				}
			})
		} else {
			rerr := prev.(mqtt.ErrorWithRetry)
			err, returned = c19Guard(func() error { return rerr.Retry(attemptCtx, cc.cli) })
		}
		close(done)
		stuck := !returned || watchdog.Err() != nil
		o := c19AttObs{client: own + 1, plan: p, pkts: cc.requests()[ownBefore:], stray: totalWrites(own) - before, class: c19Class(err, stuck)}
		if err != nil {
			o.errTxt, o.textPanics = c19ErrorText(err)
		}
		o.nid = 1
		if len(o.pkts) > 0 && o.pkts[0].ID != 0 {
			o.nid = o.pkts[0].ID
		}
		obs = append(obs, o)
		if o.class != 1 {
			break
		}
		prev = err
	}
	return obs, nil
}

// c19Either is done when either context is; Err() is that of the one that finished first.
type c19EitherCtx struct {
	a, b *c19Ctx
	done chan struct{}
	mu   sync.Mutex
	err  error
}

func c19Either(a, b *c19Ctx, stop <-chan struct{}) context.Context {
	e := &c19EitherCtx{a: a, b: b, done: make(chan struct{})}
	go func() {
		select {
		case <-a.done:
			e.mu.Lock()
			e.err = a.err
			e.mu.Unlock()
		case <-b.done:
			e.mu.Lock()
			e.err = b.err
			e.mu.Unlock()
		case <-stop:
			return // the attempt is over; nobody looks at this context any more
		}
		close(e.done)
	}()
	return e
}

func (e *c19EitherCtx) Deadline() (time.Time, bool) { return time.Time{}, false }
func (e *c19EitherCtx) Done() <-chan struct{}       { return e.done }
func (e *c19EitherCtx) Err() error {
	select {
	case <-e.done:
		e.mu.Lock()
		defer e.mu.Unlock()
		return e.err
	default:
		return nil
	}
}
func (e *c19EitherCtx) Value(interface{}) interface{} { return nil }

type c19RetryCase struct {
	req  *c19Request
	plan []c19Plan
	obs  []c19AttObs
}

func (c *c19RetryCase) coq() string {
	var ats, obs []string
	clients := c19Clients(c.plan)
	for i, p := range c.plan {
		nid := 1
		if i < len(c.obs) {
			nid = c.obs[i].nid
		}
		f, cause := "None", "DNil"
		if p.F >= 0 {
			f = "(Some " + c19FNames[p.F] + ")"
			if p.Cause != nil {
				cause = p.Cause.coq()
			}
		}
		ats = append(ats, cTuple(cNat(clients[i]), fmt.Sprint(nid), f, cause))
	}
	for _, o := range c.obs {
		var ps []string
		for _, p := range o.pkts {
			ps = append(ps, p.coq())
		}
		obs = append(obs, cTuple(cListInline(ps), fmt.Sprint(o.class), fmt.Sprint(o.stray)))
	}
	return cTuple(c.req.coq(), cListInline(ats), cListInline(obs))
}

func (c *c19RetryCase) describe() map[string]interface{} {
	var plan, obs []string
	clients := c19Clients(c.plan)
	for i, p := range c.plan {
		s := "acknowledged"
		if p.F >= 0 {
			s = c19FNames[p.F]
			if p.Cause != nil && p.F != c19FClosed1 && p.F != c19FClosed2 {
				s += " cause=" + p.Cause.text()
			}
			if p.Partial != 0 && (p.F == c19FWrite1 || p.F == c19FWrite2) {
				s += fmt.Sprintf(" (Write returns n=%d with the error)", p.Partial)
			}
		}
		where := "a fresh connected client"
		if i > 0 && p.Same {
			where = "the SAME still connected client"
		}
		plan = append(plan, fmt.Sprintf("attempt %d on client %d (%s): %s", i+1, clients[i], where, s))
	}
	classes := []string{"nil", "ErrorWithRetry", "io.EOF", "other error (no handle)", "panic", "did not return"}
	for _, o := range c.obs {
		var ps []string
		for _, p := range o.pkts {
			ps = append(ps, p.desc())
		}
		obs = append(obs, fmt.Sprintf("client %d wrote %v -> %s %q; %d writes on other clients", o.client, ps, classes[o.class], o.errTxt, o.stray))
	}
	return map[string]interface{}{"request": c.req.text(), "plan": plan, "observed": obs}
}

var c19Topics = []string{"a", "a/b", "sensor/+/x", "#", ""}

func (g *c19Gen) request(kind int) *c19Request {
	switch kind {
	case 0, 1:
		m := mqtt.Message{Topic: c19Topics[g.r.Intn(3)], QoS: mqtt.QoS(1 + kind), Retain: g.r.Intn(3) == 0}
		n := g.r.Intn(5)
		for i := 0; i < n; i++ {
			m.Payload = append(m.Payload, byte(g.r.Intn(256)))
		}
		if g.r.Intn(3) == 0 {
			m.ID = uint16(1 + g.r.Intn(65535))
		}
		return &c19Request{Kind: "publish", Msg: m}
	case 2:
		r := &c19Request{Kind: "subscribe"}
		n := 1 + g.r.Intn(3)
		for i := 0; i < n; i++ {
			r.Subs = append(r.Subs, mqtt.Subscription{Topic: c19Topics[g.r.Intn(4)], QoS: mqtt.QoS(g.r.Intn(3))})
		}
		return r
	}
	r := &c19Request{Kind: "unsubscribe"}
	n := 1 + g.r.Intn(3)
	for i := 0; i < n; i++ {
		r.Topics = append(r.Topics, c19Topics[g.r.Intn(4)])
	}
	return r
}

// causes used in the retry matrix: a foreign error, a library-wrapped sentinel, an error that
// merely wraps io.EOF, the context errors; io.EOF itself is the excluded case and is sampled too
func (g *c19Gen) matrixCauses() []*c19Desc {
	return []*c19Desc{
		{Kind: "sent", Sent: c19SOther0},
		{Kind: "fmt", ID: g.id(), Child: &c19Desc{Kind: "sent", Sent: c19SEOF}},
		{Kind: "lib", ID: g.id(), Child: &c19Desc{Kind: "sent", Sent: c19SClosedTr}},
		{Kind: "sent", Sent: c19SCanceled},
		{Kind: "sent", Sent: c19SDeadline},
	}
}

func (g *c19Gen) randomCause() *c19Desc {
	switch x := g.r.Intn(20); {
	case x == 0:
		return &c19Desc{Kind: "sent", Sent: c19SEOF}
	case x < 4:
		return &c19Desc{Kind: "pnoerr", ID: g.id()}
	case x < 8:
		return &c19Desc{Kind: "fmt", ID: g.id(), Child: &c19Desc{Kind: "sent", Sent: c19SEOF}}
	default:
		return g.chainNoCalls(g.r.Intn(3))
	}
}

func (g *c19Gen) chainNoCalls(depth int) *c19Desc {
	if depth <= 0 {
		return g.sentinel()
	}
	child := g.chainNoCalls(depth - 1)
	switch g.r.Intn(3) {
	case 0:
		return &c19Desc{Kind: "lib", ID: g.id(), Child: child}
	case 1:
		return &c19Desc{Kind: "fmt", ID: g.id(), Child: child}
	}
	return &c19Desc{Kind: "conn", ID: g.id(), Code: 2, Child: child}
}

// steps at which an attempt can be interrupted: a QoS 2 publish which has not seen PUBREC yet
// writes two packets, everything else one
func c19StepsFor(req *c19Request, rel bool) []int {
	if req.Kind == "publish" && req.Msg.QoS == 2 && !rel {
		return []int{c19FWrite1, c19FClosed1, c19FCtx1, c19FWrite2, c19FClosed2, c19FCtx2}
	}
	return []int{c19FWrite1, c19FClosed1, c19FCtx1}
}

func c19IsBareEOF(d *c19Desc) bool { return d != nil && d.Kind == "sent" && d.Sent == c19SEOF }

// ---------------------------------------------------------------- main

func runC19(cfg *runCfg) error {
	r := rand.New(rand.NewSource(cfg.seed))
	g := &c19Gen{r: r, causeless: c19CauselessCalls(), withCause: c19CauseCalls()}
	// the retransmission scenarios wait for real timeouts (n x 200 ms each): run them once, all at the
	// same time, before anything else; c19Retx then serves the recorded errors
	{
		var wg sync.WaitGroup
		for _, c := range g.causeless {
			if c.Kind == "retryretx" {
				wg.Add(1)
				go func(c *c19Call) { defer wg.Done(); c19Retx(c) }(c)
			}
		}
		wg.Wait()
	}
	cf := newCasesFile("C19", "Codec", "Errors", "CheckC19")
	m := &meta{Property: "C19", Distribution: map[string]interface{}{}, Families: map[string][]interface{}{}}
	b := &c19Builder{reg: map[int]error{}, calls: map[string]int{}}

	nRandom, maxDepth, nRetryRandom, retryDepth := 700, 6, 250, 4
	switch cfg.tier {
	case "thorough":
		nRandom, maxDepth, nRetryRandom, retryDepth = 7000, 9, 3000, 6
	case "search":
		nRandom, maxDepth, nRetryRandom, retryDepth = 2500, 8, 800, 5
	}

	// ---- family chain
	var descs []*c19Desc
	fixedCauses := func() []*c19Desc {
		return []*c19Desc{
			{Kind: "sent", Sent: c19SOther0},
			{Kind: "sent", Sent: c19SEOF},
			{Kind: "sent", Sent: c19SCanceled},
			{Kind: "sent", Sent: c19SDeadline},
			{Kind: "fmt", ID: g.id(), Child: &c19Desc{Kind: "sent", Sent: c19SEOF}},
			{Kind: "lib", ID: g.id(), Child: &c19Desc{Kind: "sent", Sent: c19SClosedTr}},
			{Kind: "conn", ID: g.id(), Code: 3, Child: &c19Desc{Kind: "lib", ID: g.id(), Child: &c19Desc{Kind: "sent", Sent: 1}}},
			// look-alikes: the transport / context / option fails with its OWN errors.New("not connected"),
			// errors.New("context canceled"), errors.New("EOF"), errors.New("read/write on closed transport")
			{Kind: "sent", Sent: c19Twin0 + 5},
			{Kind: "sent", Sent: c19Twin0 + c19SCanceled},
			{Kind: "sent", Sent: c19Twin0 + c19SEOF},
			{Kind: "fmt", ID: g.id(), Child: &c19Desc{Kind: "sent", Sent: c19Twin0 + c19SClosedTr}},
		}
	}
	// exhaustive: every call scenario at top level, with every fixed cause where it takes one
	for _, c := range g.causeless {
		g.nextID = 0
		descs = append(descs, &c19Desc{Kind: "call", ID: g.id(), Call: c, Child: &c19Desc{Kind: "nil"}})
	}
	for _, c := range g.withCause {
		g.nextID = 0
		for _, cause := range fixedCauses() {
			descs = append(descs, &c19Desc{Kind: "call", ID: g.id(), Call: c, Child: cause})
		}
	}
	// ReconnectClient.Connect: every history of failed attempts x the caller cancelled / the caller's
	// deadline expired (the withCause loop above ran 7 of the histories with all 11 causes)
	for h := range c19ReconnHistories {
		for _, sent := range []int{c19SCanceled, c19SDeadline} {
			g.nextID = 0
			descs = append(descs, &c19Desc{Kind: "call", ID: g.id(), Call: &c19Call{Kind: "reconnconnect", N: h}, Child: &c19Desc{Kind: "sent", Sent: sent}})
		}
	}
	// a failing Transport.Write that reports n > 0 accepted bytes: every request kind x n in {1,2,len-1}
	// x {io.EOF, io.ErrUnexpectedEOF, io.ErrClosedPipe, a foreign error} (n = 0 is the default above)
	for _, c := range g.withCause {
		if (c.Kind != "req" && c.Kind != "retryping") || (c.F != c19FWrite1 && c.F != c19FWrite2) {
			continue
		}
		for _, partial := range []int{1, 2, -1} {
			for _, sent := range []int{c19SEOF, c19NStdSents, c19NStdSents + 1, c19SOther0} {
				g.nextID = 0
				cp := *c
				cp.Partial = partial
				descs = append(descs, &c19Desc{Kind: "call", ID: g.id(), Call: &cp, Child: &c19Desc{Kind: "sent", Sent: sent}})
			}
		}
	}
	// every sentinel bare and under each hand-made wrapper
	for s := range c19Sents[:c19NStdSents] {
		g.nextID = 0
		leaf := &c19Desc{Kind: "sent", Sent: s}
		descs = append(descs, leaf,
			&c19Desc{Kind: "lib", ID: g.id(), Child: leaf},
			&c19Desc{Kind: "fmt", ID: g.id(), Child: &c19Desc{Kind: "lib", ID: g.id(), Child: leaf}},
			&c19Desc{Kind: "lib", ID: g.id(), Child: &c19Desc{Kind: "pef", ID: g.id(), Child: leaf}})
	}
	nEnum := len(descs)
	for i := 0; i < nRandom; i++ {
		g.nextID = 0
		hostile := r.Intn(10) < 3
		descs = append(descs, g.chain(r.Intn(maxDepth+1), hostile))
	}
	var chainCases []string
	distinct := map[string]bool{}
	nontrivial, nShaped, nPanic := 0, 0, 0
	depths := map[int]int{}
	for _, d := range descs {
		c := c19Observe(d, b)
		chainCases = append(chainCases, c.coq())
		key := d.coq()
		found := 0
		for i := 0; i < 15; i++ {
			if c.std[i] == 1 {
				found++
			}
		}
		panicked := false
		for _, x := range c.std {
			if x == 2 {
				panicked = true
			}
		}
		if panicked {
			nPanic++
		}
		if d.shaped() {
			nShaped++
		}
		depths[d.depth()]++
		if !distinct[key] {
			distinct[key] = true
			if d.depth() >= 3 && found > 0 {
				nontrivial++
			}
		}
		fc := map[string]interface{}{"value": d.text(), "errors.Is(std targets: 15 documented sentinels, 3 foreign, 15 look-alikes with the sentinels' texts, nil, 6 fresh values, uncomparable)": c.std,
			"errors.Is(own nodes)": c.subs, "errors.Is(second build of own hand-made wrappers)": c.twins, "value.Is(std targets), if the value has an Is method": c.meth, "[As RequestTimeoutError, As ErrorWithRetry, As ConnectionError, As Error, .(ErrorWithRetry), ==io.EOF, Error() panics]": c.flags}
		m.Families["chain"] = append(m.Families["chain"], fc)
		if len(m.Samples) < 3 && d.depth() >= 4 && d.shaped() && d.Kind == "call" {
			m.Samples = append(m.Samples, fc)
		}
	}
	for _, p := range b.panics {
		// a panic on a foreign (non property-shaped) cause shows up as M_chain only
		if p.shaped {
			m.ImplViolations = append(m.ImplViolations, map[string]interface{}{"what": "a library call panicked instead of returning an error built from library wrappers, %w wrappers and sentinels", "call": p.call, "panic": p.msg})
		}
	}
	for _, s := range b.stuck {
		m.ImplViolations = append(m.ImplViolations, map[string]interface{}{"what": "a library call did not return within 20 s, so its error cannot be inspected", "call": s})
	}

	// ---- family retry
	type job struct {
		req  *c19Request
		plan []c19Plan
	}
	var jobs []job
	// exhaustive: each request kind x each first failure x each matrix cause, then Retry completes;
	// and each first failure (one cause) x each second failure x completion
	for kind := 0; kind < 4; kind++ {
		g.nextID = 0
		for _, f1 := range c19StepsFor(g.request(kind), false) {
			for _, cause := range g.matrixCauses() {
				if (f1 == c19FClosed1 || f1 == c19FClosed2) && cause.Sent != c19SOther0 {
					continue
				}
				jobs = append(jobs, job{g.request(kind), []c19Plan{{F: f1, Cause: cause}, {F: -1}}})
			}
			req := g.request(kind)
			rel := f1 >= c19FWrite2
			for _, f2 := range c19StepsFor(req, rel) {
				causes := g.matrixCauses()
				jobs = append(jobs, job{g.request(kind), []c19Plan{{F: f1, Cause: causes[0]}, {F: f2, Cause: causes[1]}, {F: -1}}})
			}
		}
		// the excluded case: Write fails with io.EOF itself
		jobs = append(jobs, job{g.request(kind), []c19Plan{{F: c19FWrite1, Cause: &c19Desc{Kind: "sent", Sent: c19SEOF}}, {F: -1}}})
		jobs = append(jobs, job{g.request(kind), []c19Plan{{F: -1}}})
		// the interruption leaves the connection open (context done / Write failed): Retry on the SAME,
		// still connected client - once, and twice in a row
		for _, f1 := range c19StepsFor(g.request(kind), false) {
			if f1 == c19FClosed1 || f1 == c19FClosed2 {
				continue
			}
			oth := &c19Desc{Kind: "sent", Sent: c19SOther0}
			can := &c19Desc{Kind: "sent", Sent: c19SCanceled}
			jobs = append(jobs, job{g.request(kind), []c19Plan{{F: f1, Cause: oth}, {F: -1, Same: true}}})
			jobs = append(jobs, job{g.request(kind), []c19Plan{{F: f1, Cause: can}, {F: c19FCtx1, Cause: can, Same: true}, {F: -1, Same: true}}})
			jobs = append(jobs, job{g.request(kind), []c19Plan{{F: f1, Cause: can}, {F: c19FCtx1, Cause: oth, Same: true}, {F: c19FWrite1, Cause: oth, Same: true}, {F: -1}}})
		}
		// a failing Write that reports n > 0 accepted bytes, with io.EOF and other transport errors
		for _, f1 := range c19StepsFor(g.request(kind), false) {
			if f1 != c19FWrite1 && f1 != c19FWrite2 {
				continue
			}
			for _, partial := range []int{1, 2, -1} {
				for _, sent := range []int{c19SEOF, c19NStdSents, c19NStdSents + 1, c19SOther0} {
					jobs = append(jobs, job{g.request(kind), []c19Plan{{F: f1, Cause: &c19Desc{Kind: "sent", Sent: sent}, Partial: partial}, {F: -1}}})
				}
			}
		}
	}
	nRetryEnum := len(jobs)
	for i := 0; i < nRetryRandom; i++ {
		g.nextID = 0
		req := g.request(r.Intn(4))
		n := 1 + r.Intn(retryDepth)
		var plan []c19Plan
		rel := false
		for j := 0; j < n; j++ {
			steps := c19StepsFor(req, rel)
			f := steps[r.Intn(len(steps))]
			pl := c19Plan{F: f, Cause: g.randomCause()}
			if f == c19FWrite1 || f == c19FWrite2 {
				pl.Partial = []int{0, 0, 1, 2, -1}[r.Intn(5)]
			}
			if j > 0 {
				pf := plan[j-1].F
				if pf != c19FClosed1 && pf != c19FClosed2 && r.Intn(3) == 0 {
					pl.Same = true
				}
			}
			plan = append(plan, pl)
			if f >= c19FWrite2 || (rel) {
				rel = true
			}
		}
		last := c19Plan{F: -1}
		if pf := plan[len(plan)-1].F; pf != c19FClosed1 && pf != c19FClosed2 && r.Intn(3) == 0 {
			last.Same = true
		}
		plan = append(plan, last)
		jobs = append(jobs, job{req, plan})
	}
	retry := make([]*c19RetryCase, len(jobs))
	errs := make([]error, len(jobs))
	var wg sync.WaitGroup
	sem := make(chan struct{}, 24)
	for i := range jobs {
		wg.Add(1)
		sem <- struct{}{}
		go func(i int) {
			defer wg.Done()
			defer func() { <-sem }()
			obs, err := c19RunRetry(jobs[i].req, jobs[i].plan)
			errs[i] = err
			retry[i] = &c19RetryCase{req: jobs[i].req, plan: jobs[i].plan, obs: obs}
		}(i)
	}
	wg.Wait()
	var retryCases []string
	reqKinds := map[string]int{}
	stepsHit := map[string]int{}
	retryNontrivial := 0
	attempts := 0
	for i, c := range retry {
		if errs[i] != nil {
			return fmt.Errorf("retry case %d: %v", i, errs[i])
		}
		retryCases = append(retryCases, c.coq())
		d := c.describe()
		m.Families["retry"] = append(m.Families["retry"], d)
		m.Families["retry_inputs"] = append(m.Families["retry_inputs"], d)
		k := c.req.Kind
		if k == "publish" {
			k = fmt.Sprintf("publish_q%d", c.req.Msg.QoS)
		}
		reqKinds[k]++
		for j, o := range c.obs {
			attempts++
			if c.plan[j].F >= 0 {
				stepsHit[c19FNames[c.plan[j].F]]++
			} else {
				stepsHit["acknowledged"]++
			}
			if o.textPanics {
				m.ImplViolations = append(m.ImplViolations, map[string]interface{}{"what": "Error() of the error an interrupted request returned panics: the error is not inspectable", "case": d})
			}
			if o.class == 5 {
				m.ImplViolations = append(m.ImplViolations, map[string]interface{}{"what": "an attempt did not return although everything it waits for happened", "case": d})
			}
		}
		if len(c.obs) >= 2 {
			retryNontrivial++
		}
		if len(m.Samples) < 6 && len(c.obs) >= 3 && c.req.Kind == "publish" && c.req.Msg.QoS == 2 {
			m.Samples = append(m.Samples, d)
		}
	}

	cf.def("chain_cases", "list chain_case", cList(chainCases))
	cf.result("V_chain", "c19_chain_violations chain_cases")
	cf.result("M_chain", "c19_chain_mismatches chain_cases")
	cf.def("retry_cases", "list retry_case", cList(retryCases))
	cf.result("V_retry", "c19_retry_violations retry_cases")
	cf.result("M_retry", "c19_retry_mismatches retry_cases")
	cf.result("M_retry_inputs", "c19_retry_bad_inputs retry_cases")

	m.Evaluations = len(chainCases) + len(retryCases)
	m.DistinctNontrivial = nontrivial + retryNontrivial
	m.Rule = fmt.Sprintf("chain: every real failing-call scenario (%d without cause, %d with each of 11 causes incl. look-alikes of sentinels) and every sentinel under 4 wrapper shapes, plus %d random nestings up to depth %d of &mqtt.Error / fmt %%w / ConnectionError / foreign types / real library calls (70%% property-shaped, 30%% with foreign or nil parts); each evaluated with errors.Is against 41 fixed targets (incl. look-alikes of every sentinel), its own nodes and second builds of its own wrappers, errors.As x4, .(ErrorWithRetry), ==io.EOF; non-trivial = distinct value of depth>=3 in which some documented sentinel is found. "+
		"retry: QoS1/QoS2 publish, subscribe, unsubscribe x every first failure step x 5 causes, x every second failure step, plus %d random plans of up to %d interrupted attempts; each Retry runs on a fresh connected BaseClient; non-trivial = at least one Retry was executed",
		len(g.causeless), len(g.withCause), nRandom, maxDepth, nRetryRandom, retryDepth)
	m.Distribution["chain_enumerated"] = nEnum
	m.Distribution["chain_random"] = nRandom
	m.Distribution["chain_distinct"] = len(distinct)
	m.Distribution["chain_property_shaped"] = nShaped
	m.Distribution["chain_with_a_panic_in_errors.Is (foreign types only)"] = nPanic
	m.Distribution["chain_depths"] = fmt.Sprint(depths)
	m.Distribution["real_library_calls_by_kind"] = b.calls
	m.Distribution["retry_enumerated"] = nRetryEnum
	m.Distribution["retry_random"] = nRetryRandom
	m.Distribution["retry_request_kinds"] = reqKinds
	m.Distribution["retry_attempts_executed"] = attempts
	m.Distribution["retry_attempt_steps"] = stepsHit
	m.Exhaustive = false
	if err := cf.write(cfg.outDir); err != nil {
		return err
	}
	return m.write(cfg.outDir)
}
