package main

// C07, families "ends" and "long" (round 6).
//
// ends: the connection ends while requests are pending — for every request kind and stage
//   (Publish QoS1, QoS2 waiting PUBREC, QoS2 waiting PUBCOMP, Subscribe, Unsubscribe) and every
//   way of ending (local Disconnect, local Close, peer close, cut): every pending caller must
//   return, never with success (its acknowledgement was never sent), with ErrClosedTransport.
// long: one request A stays pending (its acknowledgement is withheld) while N further requests
//   of the same and of other kinds are issued and acknowledged at once on the same connection
//   (identifiers chosen by the library and by the caller, among them identifiers congruent to
//   A's modulo 256/1024/4096/32768); then A's acknowledgement is sent: A must return success
//   then and not before.

import (
	"context"
	"fmt"
	"math/rand"
	"strings"
	"sync"
	"time"

	mqtt "github.com/at-wat/mqtt-go"
)

// ---------------------------------------------------------------- ends

var c07EndWays = []string{"Disconnect", "Close", "peer-close", "cut"}
var c07Stages = []string{"publish-q1", "publish-q2-waiting-PUBREC", "publish-q2-waiting-PUBCOMP", "subscribe", "unsubscribe"}

func c07MkCaller(rng *rand.Rand, idx int, stage int) *c07Caller {
	c := &c07Caller{idx: idx}
	switch stage {
	case 0:
		c.kind = c07Pub1
	case 1, 2:
		c.kind = c07Pub2
	case 3:
		c.kind = c07Sub
		nf := 1 + rng.Intn(3)
		for j := 0; j < nf; j++ {
			c.filters = append(c.filters, fmt.Sprintf("s%d%c", idx, 'a'+j))
			c.reqQoS = append(c.reqQoS, byte(rng.Intn(3)))
		}
	default:
		c.kind = c07Unsub
		c.filters = []string{fmt.Sprintf("u%d", idx)}
	}
	return c
}

// c07EndScript: cell (stage, way) plus 0-2 further pending callers of random stages and
// possibly one completed call; then the connection is ended from the script's goroutine.
func c07EndScript(rng *rand.Rand, stage, way int) (*c07Result, error) {
	r := &c07Run{byFilter: map[string]*c07Caller{}, notes: make(chan c07Note, 256), marker: make(chan int, 16), stale: map[[2]int]bool{}}
	s, err := newSession(false, func(_ *session, pkt []byte) { r.onPkt(pkt) })
	if err != nil {
		return nil, err
	}
	r.s = s
	s.cli.Handle(mqtt.HandlerFunc(func(m *mqtt.Message) {
		if m.Topic == "\x01mark" && len(m.Payload) == 2 {
			r.marker <- int(m.Payload[0])<<8 | int(m.Payload[1])
		}
	}))
	stages := []int{stage}
	for i := rng.Intn(3); i > 0; i-- {
		stages = append(stages, rng.Intn(5))
	}
	for i, st := range stages {
		c := c07MkCaller(rng, i, st)
		if len(c.filters) > 0 {
			r.byFilter[c.filters[0]] = c
		}
		r.callers = append(r.callers, c)
	}
	res := &c07Result{nCallers: len(stages), kinds: map[string]int{}}
	if !r.startWave(rng, r.callers) {
		return r.finish(res, false), nil
	}
	seq := 0
	sendAck := func(a c07Ack) bool {
		r.mu.Lock()
		r.events = append(r.events, c07Event{typ: "recv", ack: a, why: "genuine"})
		r.mu.Unlock()
		seq++
		s.conn.send(a.bytes())
		s.conn.send(encPublish(inMsg{Topic: []byte("\x01mark"), QoS: 0, Payload: []byte{byte(seq >> 8), byte(seq)}}))
		select {
		case <-r.marker:
			return true
		case <-time.After(c07Wait):
			r.impl = append(r.impl, "stuck: the reader did not process an acknowledgement and its marker within 5 s")
			return false
		}
	}
	// bring the QoS 2 callers of stage 2 to the PUBCOMP wait; complete one caller now and then
	for i, c := range r.callers {
		if stages[i] == 2 {
			if !sendAck(c07Ack{kind: 1, id: c.id}) {
				return r.finish(res, false), nil
			}
			c.phase = 2
			if !r.waitNote("resume", c.idx) {
				r.impl = append(r.impl, "stuck: PUBREL not written within 5 s after PUBREC")
				return r.finish(res, false), nil
			}
			c.phase = 3
		}
	}
	if len(r.callers) > 1 && rng.Intn(3) == 0 {
		c := r.callers[len(r.callers)-1]
		a := c07Ack{kind: c.awaited(), id: c.id}
		if a.kind == 3 {
			a.codes = c07Codes(rng, len(c.filters))
		}
		if !sendAck(a) {
			return r.finish(res, false), nil
		}
		if a.kind == 1 {
			c.phase = 2
			if r.waitNote("resume", c.idx) {
				c.phase = 3
			}
		} else {
			c.phase = 4
			c07WaitAll([]*c07Caller{c})
		}
	}
	// end the connection
	switch way {
	case 0:
		ctx, cancel := ctxTimeout(c07Wait)
		done := make(chan struct{})
		go func() { defer close(done); _ = s.cli.Disconnect(ctx) }()
		select {
		case <-done:
		case <-time.After(c07Wait):
			r.impl = append(r.impl, "stuck: Disconnect did not return within 5 s")
		}
		cancel()
	case 1:
		_ = s.cli.Close()
	case 2:
		s.conn.finish()
	default:
		s.conn.Close()
	}
	if !c07WaitAll(r.callers) {
		res.stuck = true
	}
	if !s.waitDone(c07Wait) {
		res.stuck = true
	}
	out := r.finish(res, false)
	out.desc["connection_ended_by"] = c07EndWays[way]
	out.desc["cell"] = c07Stages[stage] + " / " + c07EndWays[way]
	return out, nil
}

// ---------------------------------------------------------------- long

type c07Long struct {
	mu      sync.Mutex
	items   []string // Coq litem literals
	desc    []string
	count   int // number of events so far
	aKind   int
	aStage  int // 0 q1, 1 q2 held at PUBLISH, 2 q2 held at PUBREL, 3 sub, 4 unsub
	aID     uint16
	aSeen   bool
	aPubrel chan struct{}
	aStart  chan struct{}
	conn    *memConn
	nB      int
	firstB  int
	run     int
}

// addB records a further request (k, id, nf) as one number, collapsed into runs.
func (l *c07Long) addB(k int, id uint16, nf int, desc string, n int) {
	code := fmt.Sprintf("%d", k*524288+int(id)*8+nf)
	if len(l.items) > 0 && strings.HasPrefix(l.items[len(l.items)-1], "LBs [") && l.run < 2000 {
		l.run++
		last := l.items[len(l.items)-1]
		l.items[len(l.items)-1] = last[:len(last)-1] + ";" + code + "]"
	} else {
		l.run = 1
		l.items = append(l.items, "LBs ["+code+"]")
	}
	if l.firstB < 0 {
		l.firstB = int(id)
	}
	if len(l.desc) < 40 {
		l.desc = append(l.desc, desc)
	}
	l.count += n
}

func (l *c07Long) add(item, desc string, n int) {
	l.items = append(l.items, item)
	if len(l.desc) < 40 {
		l.desc = append(l.desc, desc)
	}
	l.count += n
}

// onPkt: the peer of the long family. A's awaited acknowledgement is withheld; everything else
// is acknowledged at once (queued inside Transport.Write).
func (l *c07Long) onPkt(pkt []byte) {
	if len(pkt) < 2 {
		return
	}
	_, n := c07Varint(pkt[1:])
	body := pkt[1+n:]
	l.mu.Lock()
	defer l.mu.Unlock()
	switch pkt[0] & 0xF0 {
	case 0x30:
		qos := int(pkt[0]>>1) & 3
		if qos == 0 || len(body) < 2 {
			return
		}
		tl := int(body[0])<<8 | int(body[1])
		if len(body) < 2+tl+2 {
			return
		}
		id := uint16(body[2+tl])<<8 | uint16(body[3+tl])
		isA := string(body[2:2+tl]) == "A"
		if isA {
			l.aID = id
			l.aSeen = true
			if qos == 1 {
				l.add(fmt.Sprintf("LE (Start 0%%nat RPub1 %d)", id), fmt.Sprintf("A:Publish(q1,id%d)", id), 1)
			} else {
				l.add(fmt.Sprintf("LE (Start 0%%nat RPub2 %d)", id), fmt.Sprintf("A:Publish(q2,id%d)", id), 1)
				if l.aStage == 2 {
					l.add(fmt.Sprintf("LE (Recv (mkAck KPubRec %d []))", id), fmt.Sprintf("PUBREC(id%d)", id), 1)
					l.conn.send(encID(0x50, id))
				}
			}
			close(l.aStart)
			return
		}
		l.nB++
		if qos == 1 {
			l.addB(0, id, 0, fmt.Sprintf("Publish(q1,id%d)+PUBACK", id), 2)
			l.conn.send(encID(0x40, id))
		} else {
			l.addB(1, id, 0, fmt.Sprintf("Publish(q2,id%d)+PUBREC+PUBREL+PUBCOMP", id), 2)
			l.conn.send(encID(0x50, id))
		}
	case 0x60:
		if len(body) < 2 {
			return
		}
		id := uint16(body[0])<<8 | uint16(body[1])
		if l.aKind == c07Pub2 && l.aSeen && id == l.aID {
			l.add("LE (Resume 0%nat)", "A:PUBREL", 1)
			close(l.aPubrel)
			return
		}
		l.count += 2
		l.conn.send(encID(0x70, id))
	case 0x80, 0xA0:
		if len(body) < 4 {
			return
		}
		id := uint16(body[0])<<8 | uint16(body[1])
		sub := pkt[0]&0xF0 == 0x80
		first := ""
		nf := 0
		for p := 2; p+2 <= len(body); {
			fl := int(body[p])<<8 | int(body[p+1])
			if p+2+fl > len(body) {
				break
			}
			if nf == 0 {
				first = string(body[p+2 : p+2+fl])
			}
			nf++
			p += 2 + fl
			if sub {
				p++
			}
		}
		if first == "A" {
			l.aID = id
			l.aSeen = true
			if sub {
				fs := make([]string, nf)
				for i := range fs {
					fs[i] = "([65],0)"
					if i > 0 {
						fs[i] = fmt.Sprintf("([65;%d],0)", 48+i)
					}
				}
				l.add(fmt.Sprintf("LE (Start 0%%nat (RSub [%s]) %d)", strings.Join(fs, ";"), id), fmt.Sprintf("A:Subscribe(id%d,%d filters)", id, nf), 1)
			} else {
				l.add(fmt.Sprintf("LE (Start 0%%nat RUnsub %d)", id), fmt.Sprintf("A:Unsubscribe(id%d)", id), 1)
			}
			close(l.aStart)
			return
		}
		l.nB++
		if sub {
			l.addB(2, id, nf, fmt.Sprintf("Subscribe(id%d)+SUBACK", id), 2)
			l.conn.send(encFrame(0x90, append([]byte{byte(id >> 8), byte(id)}, make([]byte, nf)...)))
		} else {
			l.addB(3, id, 0, fmt.Sprintf("Unsubscribe(id%d)+UNSUBACK", id), 2)
			l.conn.send(encID(0xB0, id))
		}
	}
}

type c07LongResult struct {
	coq   string
	desc  map[string]interface{}
	impl  []string
	stuck bool
	nB    int
}

// c07LongScript: see the head of this file. callerIDs: the further publishes start with
// caller-chosen identifiers congruent to A's modulo 256, 1024, 4096 and 32768.
func c07LongScript(rng *rand.Rand, aStage int, n int, sameKind bool) (*c07LongResult, error) {
	l := &c07Long{aStage: aStage, aPubrel: make(chan struct{}), aStart: make(chan struct{}), firstB: -1}
	l.aKind = []int{c07Pub1, c07Pub2, c07Pub2, c07Sub, c07Unsub}[aStage]
	s, err := newSession(false, func(_ *session, pkt []byte) { l.onPkt(pkt) })
	if err != nil {
		return nil, err
	}
	l.conn = s.conn
	res := &c07LongResult{}
	cli := s.cli
	bg := context.Background()
	// a probe tells where the library's identifier counter stands
	if err := cli.Unsubscribe(bg, "probe"); err != nil {
		return nil, fmt.Errorf("probe: %v", err)
	}
	l.mu.Lock()
	l0 := l.firstB
	l.mu.Unlock()
	// A: identifier chosen by the library, or by the caller outside the window the library is
	// going to allocate from
	var aID uint16
	libA := aStage >= 3 || n > 30000 || rng.Intn(2) == 0
	if !libA {
		aID = uint16((l0 + n + 100 + rng.Intn(65535-n-200)) % 65536)
		if aID == 0 {
			aID = uint16((l0 + n + 150) % 65536)
		}
	}
	type aOut struct {
		status  string
		granted []mqtt.Subscription
		stamp   int
	}
	aDone := make(chan aOut, 1)
	ctxA, cancelA := context.WithTimeout(bg, 300*time.Second)
	defer cancelA()
	go func() {
		var err error
		var granted []mqtt.Subscription
		func() {
			defer func() {
				if p := recover(); p != nil {
					err = fmt.Errorf("panic %v", p)
				}
			}()
			switch l.aKind {
			case c07Pub1, c07Pub2:
				err = cli.Publish(ctxA, &mqtt.Message{Topic: "A", QoS: mqtt.QoS(l.aKind + 1), ID: aID, Payload: []byte{1}})
			case c07Sub:
				granted, err = cli.Subscribe(ctxA, mqtt.Subscription{Topic: "A"}, mqtt.Subscription{Topic: "A1", QoS: mqtt.QoS1})
			default:
				err = cli.Unsubscribe(ctxA, "A")
			}
		}()
		st := "succ"
		if err != nil {
			st = "other:" + errClass(err)
		}
		l.mu.Lock()
		stamp := l.count
		l.mu.Unlock()
		aDone <- aOut{st, granted, stamp}
	}()
	select {
	case <-l.aStart:
	case <-time.After(c07Wait):
		res.impl = append(res.impl, "stuck: the long-lived request was not written within 5 s")
	}
	if aStage == 2 {
		select {
		case <-l.aPubrel:
		case <-time.After(c07Wait):
			res.impl = append(res.impl, "stuck: PUBREL not written within 5 s after PUBREC")
		}
	}
	l.mu.Lock()
	aid := l.aID
	l.mu.Unlock()
	// the further requests, one after the other on one goroutine; each is acknowledged at once
	congruent := []int{256, 1024, 4096, 32768}
	progress := make(chan int, 1)
	bErr := make(chan string, 1)
	go func() {
		for i := 0; i < n; i++ {
			kind := l.aKind
			if !sameKind || rng.Intn(4) == 0 {
				kind = rng.Intn(4)
			}
			var err error
			switch kind {
			case c07Pub1, c07Pub2:
				var id uint16 // 0: chosen by the library
				chosen := false
				switch {
				case i < len(congruent):
					id, chosen = aid+uint16(congruent[i]), true
				case rng.Intn(3) == 0:
					id, chosen = uint16(1+rng.Intn(65535)), true
				}
				for chosen && (id == 0 || id == aid) {
					id += 512
				}
				err = cli.Publish(bg, &mqtt.Message{Topic: "b", QoS: mqtt.QoS(kind + 1), ID: id, Payload: []byte{2}})
			case c07Sub:
				_, err = cli.Subscribe(bg, mqtt.Subscription{Topic: "b"})
			default:
				err = cli.Unsubscribe(bg, "b")
			}
			if err != nil {
				bErr <- fmt.Sprintf("further request %d failed: %s", i, errClass(err))
				return
			}
			if i%64 == 63 {
				select {
				case progress <- i:
				default:
				}
			}
		}
		bErr <- ""
	}()
	bok := true
	var early *aOut
wait:
	for {
		select {
		case e := <-bErr:
			if e != "" {
				bok = false
				res.impl = append(res.impl, e)
			}
			break wait
		case <-progress:
		case o := <-aDone:
			// A returned although its acknowledgement has not been sent: keep it, go on
			early = &o
		case <-time.After(c07Wait):
			bok = false
			res.stuck = true
			res.impl = append(res.impl, "stuck: a further request did not return within 5 s of its acknowledgement")
			break wait
		}
	}
	// now A's acknowledgement(s)
	ack := func(h byte, k string, extra ...byte) {
		l.mu.Lock()
		codes := "[]"
		if len(extra) > 0 {
			codes = cBytes(extra)
		}
		l.add(fmt.Sprintf("LE (Recv (mkAck %s %d %s))", k, aid, codes), fmt.Sprintf("%s(id%d) for A", k, aid), 1)
		l.mu.Unlock()
		if h == 0x90 {
			s.conn.send(encFrame(0x90, append([]byte{byte(aid >> 8), byte(aid)}, extra...)))
		} else {
			s.conn.send(encID(h, aid))
		}
	}
	var a aOut
	if early != nil {
		a = *early
	} else if bok {
		switch aStage {
		case 0:
			ack(0x40, "KPubAck")
		case 1:
			ack(0x50, "KPubRec")
			select {
			case <-l.aPubrel:
				ack(0x70, "KPubComp")
			case <-time.After(c07Wait):
				res.impl = append(res.impl, "stuck: PUBREL not written within 5 s after PUBREC")
			}
		case 2:
			ack(0x70, "KPubComp")
		case 3:
			ack(0x90, "KSubAck", 1, 2)
		default:
			ack(0xB0, "KUnsubAck")
		}
		select {
		case a = <-aDone:
		case <-time.After(c07Wait):
			a = aOut{status: "blocked"}
			res.stuck = true
		}
	} else {
		a = aOut{status: "blocked"}
	}
	s.conn.Close()
	if a.status == "blocked" {
		select {
		case <-aDone:
		case <-time.After(c07Wait):
			res.impl = append(res.impl, "stuck: the long-lived request did not return within 5 s after the transport was closed")
		}
	}
	s.waitDone(c07Wait)
	var ob, od string
	switch {
	case a.status == "blocked":
		ob, od = "(OBlocked, 0)", "A:blocked"
	case a.status == "succ":
		var g, gd []string
		for _, x := range a.granted {
			g = append(g, fmt.Sprintf("(%s,%d)", cStr(x.Topic), byte(x.QoS)))
			gd = append(gd, fmt.Sprintf("%s@%d", x.Topic, byte(x.QoS)))
		}
		// the model's filters of A are named [65], [65;49]
		ob = fmt.Sprintf("(OSucc %s, %d)", cListInline(g), a.stamp)
		od = fmt.Sprintf("A:ok[%s]@%d", strings.Join(gd, ","), a.stamp)
	default:
		ob, od = fmt.Sprintf("(OOther, %d)", a.stamp), fmt.Sprintf("A:%s@%d", a.status, a.stamp)
	}
	l.mu.Lock()
	defer l.mu.Unlock()
	res.nB = l.nB
	res.coq = cTuple("["+strings.Join(l.items, ";")+"]", ob, cBool(bok))
	res.desc = map[string]interface{}{
		"long_lived_request": c07Stages[aStage], "further_requests": l.nB, "first_items": l.desc,
		"A_identifier_chosen_by_library": libA, "further_requests_mostly_of_As_kind": sameKind,
		"outcome": od, "events": l.count, "further_requests_all_ok": bok,
	}
	return res, nil
}
