package main

// C14, round 8: handlers that register further handlers (Handle/HandleFunc) and dispatch (Serve)
// while they are being served; every operation of a history runs behind a watchdog.

import (
	"fmt"
	"math/big"
	"math/rand"
	"strings"
	"time"

	mqtt "github.com/at-wat/mqtt-go"
)

type c14Step struct {
	Serve  bool
	Inst   int
	Filter string
	Topic  string
	H      int
}

type c14Prog struct {
	Trig  string
	Steps []c14Step
}

type c14Item struct {
	Reg bool
	D   int
	H   int
	Acc bool
}

type c14REv struct {
	Serve    bool
	Accepted bool
	Stuck    bool
	Trace    []c14Item
}

const c14Watchdog = 5 * time.Second

// c14RunReg applies the operations in order on fresh ServeMux values, on a worker goroutine; the
// caller waits for every operation with a watchdog. Handler h records (depth, h); if it has a
// program, the topic of the message it was given equals the program's trigger and the nesting
// depth is below fuel, it runs the steps in order: Handle on some ServeMux (the outcome is
// recorded) or Serve on some ServeMux. Then it rewrites the topic of its own message.
// An operation that does not return in time is the event Stuck; the rest is not executed and the
// worker is abandoned.
func c14RunReg(nInst int, ops []c14Op, progs map[int]*c14Prog, fuel int) (evs []c14REv, stuck bool) {
	out := make(chan c14REv, len(ops))
	go func() {
		muxes := make([]*mqtt.ServeMux, nInst)
		for i := range muxes {
			muxes[i] = &mqtt.ServeMux{}
		}
		var trace []c14Item
		depth := 0
		nReg := 0
		var mk func(h int) func(*mqtt.Message)
		mk = func(h int) func(*mqtt.Message) {
			return func(m *mqtt.Message) {
				trace = append(trace, c14Item{D: depth, H: h})
				if p := progs[h]; p != nil && m.Topic == p.Trig && depth < fuel {
					for _, s := range p.Steps {
						if s.Serve {
							depth++
							muxes[s.Inst].Serve(&mqtt.Message{Topic: s.Topic, Payload: []byte{2}})
							depth--
							continue
						}
						var err error
						nReg++
						if nReg%2 == 0 {
							err = muxes[s.Inst].Handle(s.Filter, mqtt.HandlerFunc(mk(s.H)))
						} else {
							err = muxes[s.Inst].HandleFunc(s.Filter, mk(s.H))
						}
						trace = append(trace, c14Item{Reg: true, D: depth, Acc: err == nil})
					}
				}
				if h%2 == 0 {
					m.Topic = "rewritten/by/handler"
				} else {
					m.Topic = ""
				}
			}
		}
		for _, op := range ops {
			if op.Serve {
				trace = []c14Item{}
				depth = 0
				muxes[op.Inst].Serve(&mqtt.Message{Topic: op.Topic, Payload: []byte{1}})
				out <- c14REv{Serve: true, Trace: trace}
				continue
			}
			err := muxes[op.Inst].Handle(op.Filter, mqtt.HandlerFunc(mk(op.H)))
			out <- c14REv{Accepted: err == nil}
		}
	}()
	for range ops {
		select {
		case e := <-out:
			evs = append(evs, e)
		case <-time.After(c14Watchdog):
			evs = append(evs, c14REv{Stuck: true})
			return evs, true
		}
	}
	return evs, false
}

func c14StepText(s c14Step) string {
	if s.Serve {
		return fmt.Sprintf("mux%d.Serve(topic %q)", s.Inst, s.Topic)
	}
	return fmt.Sprintf("mux%d.Handle(%q, handler %d)", s.Inst, s.Filter, s.H)
}

func c14RegHistory(ops []c14Op, evs []c14REv, progs map[int]*c14Prog) []string {
	var out []string
	progText := func(h int) string {
		p := progs[h]
		if p == nil {
			return ""
		}
		var ss []string
		for _, s := range p.Steps {
			ss = append(ss, c14StepText(s))
		}
		return fmt.Sprintf(" [handler %d: given topic %q it calls, before returning: %s]", h, p.Trig, strings.Join(ss, "; "))
	}
	for k, op := range ops {
		var s string
		if op.Serve {
			s = fmt.Sprintf("%d: mux%d.Serve(topic %q)", k, op.Inst, op.Topic)
		} else {
			s = fmt.Sprintf("%d: mux%d.Handle(%q, handler %d)%s", k, op.Inst, op.Filter, op.H, progText(op.H))
		}
		switch {
		case k >= len(evs):
			s += " -- not executed"
		case evs[k].Stuck:
			s += fmt.Sprintf(" -- DID NOT RETURN within %v", c14Watchdog)
		case op.Serve:
			var is []string
			for _, it := range evs[k].Trace {
				if it.Reg {
					is = append(is, fmt.Sprintf("Handle@%d:%v", it.D, it.Acc))
				} else {
					is = append(is, fmt.Sprintf("h%d@%d", it.H, it.D))
				}
			}
			s += " -- in order (handler@depth, Handle@depth:accepted): " + strings.Join(is, " ")
		case evs[k].Accepted:
			s += " -- accepted"
		default:
			s += " -- rejected"
		}
		out = append(out, s)
	}
	for h, p := range progs {
		if h >= 50 && p != nil { // programs of handlers that are registered by handlers
			out = append(out, "program"+progText(h))
		}
	}
	return out
}

func c14RegCoq(ops []c14Op, evs []c14REv, progs map[int]*c14Prog, order []int, fuel int) string {
	names := map[string]string{}
	var lets strings.Builder
	name := func(x string) string {
		if n, ok := names[x]; ok {
			return n
		}
		n := fmt.Sprintf("s%d", len(names))
		names[x] = n
		fmt.Fprintf(&lets, "let %s : str := %s in ", n, cStr(x))
		return n
	}
	var os, es, ps []string
	for _, op := range ops {
		if op.Serve {
			os = append(os, fmt.Sprintf("OpServe %s %s", cNat(op.Inst), name(op.Topic)))
		} else {
			os = append(os, fmt.Sprintf("OpHandle %s %s %s", cNat(op.Inst), name(op.Filter), cNat(op.H)))
		}
	}
	for _, e := range evs {
		switch {
		case e.Stuck:
			es = append(es, "RvStuck")
		case e.Serve:
			var tr []string
			for _, it := range e.Trace {
				if it.Reg {
					tr = append(tr, fmt.Sprintf("TReg %s %s", cNat(it.D), cBool(it.Acc)))
				} else {
					tr = append(tr, fmt.Sprintf("TInv %s %s", cNat(it.D), cNat(it.H)))
				}
			}
			es = append(es, "RvServe "+cListInline(tr))
		default:
			es = append(es, "RvHandle "+cBool(e.Accepted))
		}
	}
	for _, h := range order {
		p := progs[h]
		var ss []string
		for _, s := range p.Steps {
			if s.Serve {
				ss = append(ss, fmt.Sprintf("HsServe %s %s", cNat(s.Inst), name(s.Topic)))
			} else {
				ss = append(ss, fmt.Sprintf("HsHandle %s %s %s", cNat(s.Inst), name(s.Filter), cNat(s.H)))
			}
		}
		ps = append(ps, cTuple(cNat(h), cTuple(name(p.Trig), cListInline(ss))))
	}
	return "(" + lets.String() + cTuple(cListInline(ps), cNat(fuel), cListInline(os), cListInline(es)) + ")"
}

func c14RandReg(r *rand.Rand) (nInst int, ops []c14Op, progs map[int]*c14Prog, order []int, fuel int) {
	nInst = 1 + r.Intn(2)
	var topics, filters, srcs []string
	for i := 2 + r.Intn(2); i > 0; i-- {
		topics = append(topics, c14RandTopic(r, c14RandFilter(r)))
	}
	for i := 3 + r.Intn(3); i > 0; i-- {
		if r.Intn(5) == 0 {
			filters = append(filters, c14RandFilter(r))
			srcs = append(srcs, "")
		} else {
			t := topics[r.Intn(len(topics))]
			filters = append(filters, c14FilterFor(r, t))
			srcs = append(srcs, t)
		}
	}
	fuel = 1 + r.Intn(2)
	progs = map[int]*c14Prog{}
	next := 50
	var mkProg func(own int, trig string, level int) *c14Prog
	mkProg = func(own int, trig string, level int) *c14Prog {
		p := &c14Prog{Trig: trig}
		for n := 1 + r.Intn(3); n > 0; n-- {
			inst := own // mostly the mux the handler itself is registered on
			if r.Intn(4) == 0 {
				inst = r.Intn(nInst) // a parent/child mux
			}
			if r.Intn(5) < 3 {
				fi := r.Intn(len(filters))
				f := filters[fi]
				if r.Intn(3) == 0 {
					f = c14FilterFor(r, trig) // likely to match the very message being served
				}
				h := next
				next++
				p.Steps = append(p.Steps, c14Step{Inst: inst, Filter: f, H: h})
				if level == 0 && r.Intn(4) == 0 {
					t := topics[r.Intn(len(topics))]
					if srcs[fi] != "" && r.Intn(2) == 0 {
						t = srcs[fi]
					}
					progs[h] = mkProg(inst, t, 1)
					order = append(order, h)
				}
			} else {
				p.Steps = append(p.Steps, c14Step{Serve: true, Inst: inst, Topic: topics[r.Intn(len(topics))]})
			}
		}
		return p
	}
	n := 3 + r.Intn(9)
	ops = make([]c14Op, n)
	for k := range ops {
		inst := 0
		if r.Intn(3) == 0 {
			inst = r.Intn(nInst)
		}
		if (k >= 1 && r.Intn(5) < 2) || k == n-1 {
			ops[k] = c14Op{Serve: true, Inst: inst, Topic: topics[r.Intn(len(topics))]}
			continue
		}
		fi := r.Intn(len(filters))
		ops[k] = c14Op{Inst: inst, Filter: filters[fi], H: k}
		if r.Intn(3) > 0 {
			trig := topics[r.Intn(len(topics))]
			if srcs[fi] != "" && r.Intn(4) > 0 {
				trig = srcs[fi]
			}
			progs[k] = mkProg(inst, trig, 0)
			order = append(order, k)
		}
	}
	return
}

// same 7 operations as CheckC14.rexh_op / rexh_prog
func c14RexhOp(pos int, c byte) (c14Op, *c14Prog) {
	switch c {
	case 0:
		return c14Op{Inst: 0, Filter: "a", H: pos}, &c14Prog{Trig: "a", Steps: []c14Step{{Inst: 0, Filter: "a", H: 8 + pos}}}
	case 1:
		return c14Op{Inst: 0, Filter: "+", H: pos}, nil
	case 2:
		return c14Op{Inst: 0, Filter: "a", H: pos}, &c14Prog{Trig: "a", Steps: []c14Step{{Inst: 0, Filter: "+", H: 8 + pos}, {Serve: true, Inst: 0, Topic: "a"}}}
	case 3:
		return c14Op{Serve: true, Inst: 0, Topic: "a"}, nil
	case 4:
		return c14Op{Serve: true, Inst: 0, Topic: "b"}, nil
	case 5:
		return c14Op{Inst: 1, Filter: "#", H: pos}, &c14Prog{Trig: "a", Steps: []c14Step{{Inst: 0, Filter: "a", H: 8 + pos}}}
	default:
		return c14Op{Serve: true, Inst: 1, Topic: "a"}, nil
	}
}

// same code as CheckC14.rev_code, of the last event
func c14RLastCode(evs []c14REv) string {
	if len(evs) == 0 {
		return "0"
	}
	e := evs[len(evs)-1]
	switch {
	case e.Stuck:
		return "0"
	case !e.Serve && !e.Accepted:
		return "1"
	case !e.Serve:
		return "2"
	}
	d := new(big.Int)
	for j := len(e.Trace) - 1; j >= 0; j-- {
		it := e.Trace[j]
		var c int64
		if it.Reg {
			c = int64(49 + it.D*2)
			if it.Acc {
				c++
			}
		} else {
			c = int64(1 + it.D*16 + it.H)
		}
		d.Mul(d, big.NewInt(64))
		d.Add(d, big.NewInt(c))
	}
	d.Mul(d, big.NewInt(4))
	d.Add(d, big.NewInt(3))
	return d.String()
}

func c14RegFamilies(cfg *runCfg, r *rand.Rand, cf *casesFile, m *meta) int {
	// ---- family reg: random histories whose handlers register and dispatch ----
	n := 150
	if cfg.tier != "quick" {
		n = 2500
	}
	var cs []string
	interesting := map[string]bool{}
	regsDuring, stuckN := 0, 0
	for i := 0; i < n; {
		nInst, ops, progs, order, fuel := c14RandReg(r)
		evs, stuck := c14RunReg(nInst, ops, progs, fuel)
		tooBig, hasReg := false, false
		for _, e := range evs {
			if len(e.Trace) > 60 {
				tooBig = true
			}
			for _, it := range e.Trace {
				if it.Reg && it.Acc {
					hasReg = true
				}
			}
		}
		if tooBig && !stuck {
			continue
		}
		i++
		hist := c14RegHistory(ops, evs, progs)
		if hasReg {
			regsDuring++
			interesting[strings.Join(hist, ";")] = true
		}
		cs = append(cs, c14RegCoq(ops, evs, progs, order, fuel))
		c := map[string]interface{}{"history": hist, "instances": nInst, "nesting_bound": fuel}
		m.Families["reg"] = append(m.Families["reg"], c)
		if i == 1 {
			m.Samples = append(m.Samples, c)
		}
		m.Evaluations += len(ops)
		if stuck {
			stuckN++
			break // every further history of this kind would wait for the watchdog again
		}
	}
	cf.def("reg_cases", "list reg_case", cList(cs))
	cf.result("V_reg", "reg_violations reg_cases")
	m.Distribution["reg_histories"] = len(cs)
	m.Distribution["reg_histories_with_a_handler_registered_during_a_serve"] = regsDuring
	m.Distribution["reg_histories_stuck"] = stuckN

	// ---- family regx: every such history up to a length over 7 operations ----
	xl := 4
	if cfg.tier != "quick" {
		xl = 5
	}
	var xc []string
	xReg := 0
	for _, code := range stringsUpto([]byte{0, 1, 2, 3, 4, 5, 6}, xl) {
		ops := make([]c14Op, len(code))
		progs := map[int]*c14Prog{}
		for pos := range ops {
			var p *c14Prog
			ops[pos], p = c14RexhOp(pos, code[pos])
			if p != nil {
				progs[pos] = p
			}
		}
		evs, stuck := c14RunReg(2, ops, progs, 1)
		for _, e := range evs {
			for _, it := range e.Trace {
				if it.Reg && it.Acc {
					xReg++
					break
				}
			}
		}
		xc = append(xc, c14RLastCode(evs))
		m.Families["regx"] = append(m.Families["regx"], map[string]interface{}{"history": c14RegHistory(ops, evs, progs), "instances": 2, "nesting_bound": 1})
		m.Evaluations += len(ops)
		if stuck {
			m.Distribution["regx_stuck_at_history"] = len(xc) - 1
			break
		}
	}
	c14DefLongList(cf, "regx_obs", "N", xc)
	cf.result("V_regx", fmt.Sprintf("rexh_violations %s regx_obs", cNat(xl)))
	m.Distribution["regx_histories"] = len(xc)
	m.Distribution["regx_max_length"] = xl
	m.Distribution["regx_serves_with_a_handler_registered_during_them"] = xReg
	return len(interesting) + xReg
}
