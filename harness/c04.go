package main

import (
	"fmt"
	"math/rand"
	"time"
)

func init() { register("C04", runC04) }

var c04Stuck int

// c04Noise[i]: bytes of stray acknowledgements sent right after inbound packet i (nil: none)
var c04Noise [][]byte

func c04RandNoise(r *rand.Rand, n int) [][]byte {
	out := make([][]byte, n)
	for i := range out {
		for r.Intn(3) == 0 {
			id := uint16(1 + r.Intn(3))
			switch r.Intn(6) {
			case 0:
				out[i] = append(out[i], encID(0x40, id)...) // PUBACK
			case 1:
				out[i] = append(out[i], encID(0x50, id)...) // PUBREC
			case 2:
				out[i] = append(out[i], encID(0x70, id)...) // PUBCOMP
			case 3:
				out[i] = append(out[i], 0x90, 3, byte(id>>8), byte(id), 0) // SUBACK
			case 4:
				out[i] = append(out[i], encID(0xB0, id)...) // UNSUBACK
			default:
				out[i] = append(out[i], 0xD0, 0) // PINGRESP
			}
		}
	}
	return out
}

// c04P0: first payload byte (the sequence tag the generators put there), -1 for an empty payload
func c04P0(b []byte) int {
	if len(b) == 0 {
		return -1
	}
	return int(b[0])
}

type c04Pkt struct {
	Rel bool
	Msg inMsg
	ID  uint16
}

func (p c04Pkt) coq() string {
	if p.Rel {
		return fmt.Sprintf("InPubRel %d", p.ID)
	}
	m := p.Msg
	return "InPublish " + cMsg(m.Topic, m.ID, m.QoS, m.Retain, m.Dup, m.Payload)
}

func (p c04Pkt) bytes() []byte {
	if p.Rel {
		return encID(0x62, p.ID)
	}
	return encPublish(p.Msg)
}

func (p c04Pkt) desc() string {
	if p.Rel {
		return fmt.Sprintf("PUBREL(%d)", p.ID)
	}
	d := ""
	if p.Msg.Dup {
		d = ",dup"
	}
	return fmt.Sprintf("PUBLISH(q%d,id%d%s,#%d)", p.Msg.QoS, p.Msg.ID, d, c04P0(p.Msg.Payload))
}

// c04Run feeds the packets to a connected BaseClient and returns the reader goroutine's
// timeline (handler calls and acknowledgement writes are both made by that goroutine).
// c04DiscPending: the stream arrives while a local Disconnect is in progress (its DISCONNECT write is held
// by the transport): what the broker sends in that window is still handed over.
var c04DiscPending bool

func c04Run(handler bool, pkts []c04Pkt) ([]string, []string, error) {
	var gate, reached chan struct{}
	var onPkt func(s *session, pkt []byte)
	if c04DiscPending {
		gate, reached = make(chan struct{}), make(chan struct{}, 1)
		onPkt = func(s *session, pkt []byte) {
			if pkt[0] == 0xE0 {
				reached <- struct{}{}
				<-gate
			}
		}
	}
	s, err := newSession(handler, onPkt)
	if err != nil {
		return nil, nil, err
	}
	if c04DiscPending {
		go func() {
			ctx, cancel := ctxTimeout(10 * time.Second)
			defer cancel()
			_ = s.cli.Disconnect(ctx)
		}()
		select {
		case <-reached:
		case <-time.After(8 * time.Second):
			close(gate)
			return nil, nil, fmt.Errorf("Disconnect did not reach its write")
		}
		defer func() {
			select {
			case <-gate:
			default:
				close(gate)
			}
		}()
	}
	var stream []byte
	for i, p := range pkts {
		stream = append(stream, p.bytes()...)
		// stray acknowledgements from the broker (identifiers from the same small pool) are not part of the
		// inbound flow: they must not change what the reader does with PUBLISH / PUBREL
		if c04Noise != nil && i < len(c04Noise) {
			stream = append(stream, c04Noise[i]...)
		}
	}
	s.conn.send(stream)
	if c04DiscPending {
		s.conn.waitReaderIdle(8 * time.Second)
		close(gate)
	}
	s.conn.finish()
	limit := 8 * time.Second
	if c04Stuck >= 3 {
		limit = 100 * time.Millisecond // the verdict is a violation already: do not wait long for the rest
	}
	stuck := !s.waitDone(limit)
	if stuck {
		c04Stuck++
	}
	var coq, desc []string
	if stuck {
		// the reader goroutine did not reach the end of the stream: an observation that can never match
		coq = append(coq, fmt.Sprintf("WPubComp %d", 99998))
		desc = append(desc, "reader-stuck(did not finish the stream within 8s)")
		s.conn.Close()
	}
	for _, e := range s.snapshot() {
		switch e.Kind {
		case "hand":
			coq = append(coq, "Hand "+cLibMsg(e.Msg))
			desc = append(desc, fmt.Sprintf("hand(q%d,id%d,#%d)", e.Msg.QoS, e.Msg.ID, c04P0(e.Msg.Payload)))
		case "write":
			if e.Pkt[0] == 0xE0 {
				continue // the held DISCONNECT of the "disconnect pending" family
			}
			id := int(e.Pkt[2])<<8 | int(e.Pkt[3])
			switch e.Pkt[0] {
			case 0x40:
				coq = append(coq, fmt.Sprintf("WPubAck %d", id))
				desc = append(desc, fmt.Sprintf("PUBACK(%d)", id))
			case 0x50:
				coq = append(coq, fmt.Sprintf("WPubRec %d", id))
				desc = append(desc, fmt.Sprintf("PUBREC(%d)", id))
			case 0x70:
				coq = append(coq, fmt.Sprintf("WPubComp %d", id))
				desc = append(desc, fmt.Sprintf("PUBCOMP(%d)", id))
			default:
				coq = append(coq, fmt.Sprintf("WPubAck %d", 99999)) // unexpected write: can never match
				desc = append(desc, fmt.Sprintf("unexpected-write(%x)", e.Pkt))
			}
		}
	}
	return coq, desc, nil
}

func c04Symbol(k int, seq int) c04Pkt {
	// 9-symbol alphabet used by the enumerated family
	pl := []byte{byte(seq)}
	switch k {
	case 0:
		return c04Pkt{Msg: inMsg{Topic: []byte("t"), QoS: 0, Payload: pl}}
	case 1:
		return c04Pkt{Msg: inMsg{Topic: []byte("t"), QoS: 1, ID: 1, Payload: pl}}
	case 2:
		return c04Pkt{Msg: inMsg{Topic: []byte("t"), QoS: 1, ID: 1, Dup: true, Payload: pl}}
	case 3:
		return c04Pkt{Msg: inMsg{Topic: []byte("t"), QoS: 2, ID: 1, Payload: pl}}
	case 4:
		return c04Pkt{Msg: inMsg{Topic: []byte("t"), QoS: 2, ID: 1, Dup: true, Payload: pl}}
	case 5:
		return c04Pkt{Msg: inMsg{Topic: []byte("u"), QoS: 2, ID: 2, Payload: pl}}
	case 6:
		return c04Pkt{Rel: true, ID: 1}
	case 7:
		return c04Pkt{Rel: true, ID: 2}
	default:
		return c04Pkt{Rel: true, ID: 3}
	}
}

func runC04(cfg *runCfg) error {
	r := rand.New(rand.NewSource(cfg.seed))
	cf := newCasesFile("C04", "Codec", "Inbound", "InboundH", "CheckC04")
	m := &meta{Property: "C04", Distribution: map[string]interface{}{}, Families: map[string][]interface{}{}}
	var cases []string
	distinct := map[string]bool{}
	nontrivial := 0
	kinds := map[string]int{}
	add := func(handler bool, pkts []c04Pkt) error {
		if c04Stuck >= 25 {
			return nil // the reader got stuck in 25 scenarios: the verdict is settled, skip the rest
		}
		coq, desc, err := c04Run(handler, pkts)
		if err != nil {
			return err
		}
		var ps, pd []string
		q2, rel := 0, 0
		for _, p := range pkts {
			ps = append(ps, p.coq())
			pd = append(pd, p.desc())
			if p.Rel {
				rel++
				kinds["pubrel"]++
			} else {
				kinds[fmt.Sprintf("publish_q%d", p.Msg.QoS)]++
				if p.Msg.QoS == 2 {
					q2++
				}
			}
		}
		cases = append(cases, cTuple(cBool(handler), cListInline(ps), cListInline(coq)))
		key := fmt.Sprint(handler, pd)
		if !distinct[key] {
			distinct[key] = true
			if q2 > 0 && rel > 0 {
				nontrivial++
			}
		}
		c := map[string]interface{}{"handler": handler, "inbound": pd, "reader_timeline": desc}
		m.Families["in"] = append(m.Families["in"], c)
		if len(m.Samples) < 4 && q2 > 0 && rel > 0 {
			m.Samples = append(m.Samples, c)
		}
		return nil
	}
	// enumerated: every sequence over the 9-symbol alphabet up to length L
	L := 3
	if cfg.tier != "quick" {
		L = 4
	}
	var rec func(prefix []int) error
	rec = func(prefix []int) error {
		if len(prefix) > 0 {
			var pkts []c04Pkt
			for i, k := range prefix {
				pkts = append(pkts, c04Symbol(k, i+1))
			}
			if err := add(true, pkts); err != nil {
				return err
			}
			if len(prefix) <= 2 {
				if err := add(false, pkts); err != nil {
					return err
				}
			}
		}
		if len(prefix) == L {
			return nil
		}
		for k := 0; k < 9; k++ {
			if err := rec(append(append([]int{}, prefix...), k)); err != nil {
				return err
			}
		}
		return nil
	}
	if err := rec(nil); err != nil {
		return err
	}
	nEnum := len(cases)
	// random longer sequences, ids from a pool of 3 to force collisions
	nRand := 700
	if cfg.tier != "quick" {
		nRand = 5000
	}
	for i := 0; i < nRand; i++ {
		n := 4 + r.Intn(12)
		var pkts []c04Pkt
		for j := 0; j < n; j++ {
			id := uint16(1 + r.Intn(3))
			if r.Intn(40) == 0 {
				id = uint16(r.Intn(65536))
			}
			switch x := r.Intn(10); {
			case x < 2:
				pkts = append(pkts, c04Pkt{Msg: inMsg{Topic: []byte("a/b"), QoS: 0, Retain: r.Intn(2) == 0, Payload: []byte{byte(j + 1), 7}}})
			case x < 4:
				pkts = append(pkts, c04Pkt{Msg: inMsg{Topic: []byte("q1"), QoS: 1, ID: id, Dup: r.Intn(3) == 0, Payload: []byte{byte(j + 1)}}})
			case x < 7:
				pkts = append(pkts, c04Pkt{Msg: inMsg{Topic: []byte("q2"), QoS: 2, ID: id, Dup: r.Intn(3) == 0, Retain: r.Intn(4) == 0, Payload: []byte{byte(j + 1)}}})
			default:
				pkts = append(pkts, c04Pkt{Rel: true, ID: id})
			}
		}
		// zero-length payloads (e.g. the message that clears a retained one) at every QoS
		for j := range pkts {
			if !pkts[j].Rel && r.Intn(6) == 0 {
				pkts[j].Msg.Payload = nil
			}
		}
		c04Noise = nil
		if i%2 == 1 {
			c04Noise = c04RandNoise(r, len(pkts))
		}
		if i%4 == 2 {
			sessMaxPayload = 1 // a limit for outbound publishes: inbound messages of any size are unaffected
		}
		err := add(r.Intn(5) > 0, pkts)
		c04Noise = nil
		sessMaxPayload = 0
		if err != nil {
			return err
		}
	}
	// a local Disconnect is in progress (DISCONNECT write held): QoS 0 messages arriving meanwhile are handed over
	nDisc := 12
	for i := 0; i < nDisc; i++ {
		n := 1 + r.Intn(5)
		var pkts []c04Pkt
		for j := 0; j < n; j++ {
			pkts = append(pkts, c04Pkt{Msg: inMsg{Topic: []byte("d/q0"), QoS: 0, Retain: r.Intn(2) == 0, Payload: []byte{byte(j + 1), byte(i)}}})
		}
		c04DiscPending = true
		err := add(true, pkts)
		c04DiscPending = false
		if err != nil {
			return err
		}
	}
	m.Distribution["disconnect_pending"] = nDisc
	cf.def("in_cases", "list (bool * list in_pkt * list in_event)", cList(cases))
	cf.result("V_in", "c04_spec_violations in_cases")
	cf.result("M_in", "c04_model_mismatches in_cases")
	nSeg, err := c04hFamily(cfg, r, cf, m)
	if err != nil {
		return err
	}
	nDup, err := c04DuplexFamily(cfg, r, cf, m)
	if err != nil {
		return err
	}
	m.Evaluations = len(cases) + nSeg + nDup
	m.DistinctNontrivial = nontrivial
	m.Rule = fmt.Sprintf("every sequence up to length %d over a 9-symbol alphabet (QoS0, QoS1 id1 fresh/dup, QoS2 id1 fresh/dup, QoS2 id2, PUBREL 1/2/3) with a handler (and without for length<=2), plus %d random sequences of 4-15 packets with ids from a pool of three; fed as one byte stream to a connected BaseClient; non-trivial = distinct sequence containing a QoS 2 PUBLISH and a PUBREL; family seg: %d histories in which the handler is registered late, removed or replaced between segments of the stream (BaseClient directly, and RetryClient with the first segment in the same burst as CONNACK while the ConnState callback is slow), hand-overs tagged with the receiving handler; family duplex: %d random inbound streams served while another goroutine publishes QoS 2 messages on the same client and every client write takes 100 us in the peer", L, nRand, nSeg, nDup)
	m.Distribution["enumerated"] = nEnum
	m.Distribution["random"] = nRand
	m.Distribution["packet_kinds"] = kinds
	m.Distribution["distinct_sequences"] = len(distinct)
	m.Exhaustive = true
	if err := cf.write(cfg.outDir); err != nil {
		return err
	}
	return m.write(cfg.outDir)
}
