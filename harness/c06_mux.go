package main

// C06, family "mux" (child process): byte streams into a connected BaseClient whose handler is one
// of the handlers the library itself offers — a ServeMux with literal-first, '+'-first, '#', '$' and
// '/'-only filters, a ServeMux nested in a ServeMux, ServeAsync{ServeMux} — with PUBLISH packets
// whose topic names are the boundary cases a broker can choose: empty, "/", "//", leading and
// trailing '/', '$'-topics, topics that are filter strings ("a/+", "#"), long, ill-formed UTF-8.
// A panic on the reader goroutine or on a delivery goroutine kills the child and is attributed to
// the stream.

import (
	"fmt"
	"math/rand"
	"strings"
	"sync"
	"time"

	mqtt "github.com/at-wat/mqtt-go"
)

type c06MuxObs struct {
	Survived   bool     `json:"survived"`
	Stuck      []string `json:"stuck"`
	Err        string   `json:"err"`
	States     []string `json:"states"`
	Done       bool     `json:"done"`
	Deliveries []string `json:"deliveries"` // Coq terms
	Desc       []string `json:"desc"`
	Crash      string   `json:"crash,omitempty"`
}

type c06Route struct {
	Filter string
	Leaf   int        // >= 0: application function number
	Sub    []c06Route // nested ServeMux
}

var c06MuxCfgs = [][]c06Route{
	{{"sensor/#", 0, nil}, {"+/temp", 1, nil}, {"#", 2, nil}, {"a/+", 3, nil}, {"$SYS/#", 4, nil}, {"/", 5, nil}, {"a/", 6, nil}, {"+", 7, nil}},
	{{"sensor/#", 0, nil}, {"n/#", -1, []c06Route{{"n/+/x", 1, nil}, {"+/a/#", 2, nil}, {"#", 3, nil}}}, {"+/+", 4, nil}},
}

// cfg 0, 1: the ServeMux trees above; cfg 2: ServeAsync{tree 0}
func c06MuxTree(cfg int) ([]c06Route, bool) {
	if cfg == 2 {
		return c06MuxCfgs[0], true
	}
	return c06MuxCfgs[cfg], false
}

func c06MuxCoq(rs []c06Route) string {
	var items []string
	for _, r := range rs {
		if r.Leaf >= 0 {
			items = append(items, cTuple(cStr(r.Filter), fmt.Sprintf("HLeaf %s", cNat(r.Leaf))))
		} else {
			items = append(items, cTuple(cStr(r.Filter), c06MuxCoq(r.Sub)))
		}
	}
	return "HMux " + cListInline(items)
}

func c06RunMux(cfg int, stream []byte) c06MuxObs {
	o := c06MuxObs{Survived: true}
	sessMaxPayload = 0
	s, err := newSession(false, nil)
	if err != nil {
		return c06MuxObs{Crash: "connect: " + err.Error()}
	}
	var mu sync.Mutex
	leaf := func(k int) mqtt.Handler {
		return mqtt.HandlerFunc(func(m *mqtt.Message) {
			cp := *m
			cp.Payload = append([]byte{}, m.Payload...)
			mu.Lock()
			o.Deliveries = append(o.Deliveries, cTuple(cNat(k), cLibMsg(&cp)))
			o.Desc = append(o.Desc, fmt.Sprintf("f%d(topic=%x,q%d,id%d,payload=%x)", k, cp.Topic, cp.QoS, cp.ID, cp.Payload))
			mu.Unlock()
		})
	}
	var build func(rs []c06Route) *mqtt.ServeMux
	build = func(rs []c06Route) *mqtt.ServeMux {
		mux := &mqtt.ServeMux{}
		for _, r := range rs {
			var h mqtt.Handler
			if r.Leaf >= 0 {
				h = leaf(r.Leaf)
			} else {
				h = build(r.Sub)
			}
			if e := mux.Handle(r.Filter, h); e != nil {
				o.Stuck = append(o.Stuck, "filter rejected: "+r.Filter)
			}
		}
		return mux
	}
	tree, async := c06MuxTree(cfg)
	mux := build(tree)
	var wg sync.WaitGroup
	if async {
		// the library's ServeAsync starts a goroutine per message; the wrappers around it only count
		// them so that the harness can wait for all deliveries (no recover anywhere)
		sa := &mqtt.ServeAsync{Handler: mqtt.HandlerFunc(func(m *mqtt.Message) {
			defer wg.Done()
			mux.Serve(m)
		})}
		s.cli.Handle(mqtt.HandlerFunc(func(m *mqtt.Message) {
			wg.Add(1)
			sa.Serve(m)
		}))
	} else {
		s.cli.Handle(mux)
	}
	s.conn.send(stream)
	s.conn.finish()
	if !s.waitDone(20 * time.Second) {
		o.Stuck = append(o.Stuck, "link did not end after the peer closed")
		return o
	}
	o.Done = true
	all := make(chan struct{})
	go func() { wg.Wait(); close(all) }()
	select {
	case <-all:
	case <-time.After(5 * time.Second):
		o.Stuck = append(o.Stuck, "asynchronous deliveries did not finish")
	}
	o.Err = errClass(s.cli.Err())
	s.mu.Lock()
	o.States = append([]string{}, s.states...)
	s.mu.Unlock()
	mu.Lock()
	o.Deliveries = append([]string{}, o.Deliveries...)
	mu.Unlock()
	return o
}

func c06MuxTopics(tier string) [][]byte {
	ts := []string{"", "/", "//", "/a", "a/", "a", "a/b", "sensor", "sensor/", "sensor/x/y", "sensors", "x/temp", "/temp",
		"$SYS/x", "$", "a/+", "#", "+", "+/temp", "sensor/#", "n/q/x", "n//x", "n/a/z", "q/a", "n",
		strings.Repeat("s", 1000), "sensor/" + strings.Repeat("x/", 300),
		"sensor/\xff", "\xc3/temp", "é/temp", "\xed\xa0\x80"}
	var out [][]byte
	for _, t := range ts {
		out = append(out, []byte(t))
	}
	if tier == "thorough" {
		out = append(out, []byte(strings.Repeat("/", 4000)), []byte("sensor/"+strings.Repeat("y", 8000)))
	}
	return out
}

type c06MuxScenario struct {
	cfg    int
	stream []byte
	label  string
}

func c06MuxPublish(topic []byte, q byte, id uint16, payload []byte) []byte {
	s := encPublish(inMsg{Topic: topic, QoS: q, ID: id, Payload: payload})
	if q == 2 {
		s = append(s, encID(0x62, id)...)
	}
	return s
}

func c06MuxScenarios(r *rand.Rand, tier string) []c06MuxScenario {
	var out []c06MuxScenario
	topics := c06MuxTopics(tier)
	for i, t := range topics {
		for cfg := 0; cfg < 3; cfg++ {
			q := byte((i + cfg) % 3)
			out = append(out, c06MuxScenario{cfg, c06MuxPublish(t, q, uint16(10+i), []byte{byte(i), 0xAB}), fmt.Sprintf("topic:%.20q", t)})
		}
	}
	nRand := 30
	if tier == "thorough" {
		nRand = 500
	}
	var short [][]byte // the long topics are enumerated above only: they make big literals
	for _, t := range topics {
		if len(t) <= 100 {
			short = append(short, t)
		}
	}
	for i := 0; i < nRand; i++ {
		var s []byte
		for k := 1 + r.Intn(4); k > 0; k-- {
			s = append(s, c06MuxPublish(short[r.Intn(len(short))], byte(r.Intn(3)), uint16(1+r.Intn(3)), c06Payload(r, r.Intn(6)))...)
		}
		label := "random"
		if r.Intn(3) == 0 {
			b, l := c06BadPacket(r)
			s = append(s, b...)
			label = "random+" + l
		}
		out = append(out, c06MuxScenario{r.Intn(3), s, label})
	}
	return out
}
