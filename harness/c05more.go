package main

// C05, round 7 families:
//   inread : broker streams whose packets are delivered to the client in chosen Read segments - two or more
//            packets in ONE Read (short acknowledgement + PUBLISH, CONNACK + PUBLISH, PUBREL + PUBLISH, three
//            short acknowledgements in a row), every packet in its own Read, a segment boundary inside a fixed
//            header, random boundaries. Hand-overs and acknowledgement writes are compared with the
//            independent decoder's reading of the stream (V_inread) and with the serve-loop model (M_inread).
//   parked : messages published through a RetryClient WHILE its retry queue is not empty (during the outage
//            and right after SetClient, before Retry() ran): the PUBLISH packets that eventually go out are
//            compared field by field / byte for byte with what the application asked (V_parked / M_parked).

import (
	"context"
	"fmt"
	"io"
	"math/rand"
	"sync"
	"time"

	mqtt "github.com/at-wat/mqtt-go"
)

// ---------------------------------------------------------------- inread

// c05SegConn is a Transport whose Read hands out the given segments: one Read call returns bytes of ONE
// segment only (all of it if the buffer is large enough), never more. The first segment is released when
// the client has written its CONNECT; io.EOF follows the last segment once the harness allows it.
type c05SegConn struct {
	mu      sync.Mutex
	segs    [][]byte
	started chan struct{} // closed at the first Write (CONNECT)
	once    sync.Once
	eof     chan struct{} // closed by the harness: the peer has nothing more to send
	closed  chan struct{}
	cOnce   sync.Once
	writes  [][]byte
	log     func(kind string, pkt []byte)
}

func newC05SegConn(segs [][]byte) *c05SegConn {
	return &c05SegConn{segs: segs, started: make(chan struct{}), eof: make(chan struct{}), closed: make(chan struct{})}
}

func (c *c05SegConn) Read(p []byte) (int, error) {
	select {
	case <-c.started:
	case <-c.closed:
		return 0, io.EOF
	}
	c.mu.Lock()
	if len(c.segs) > 0 {
		n := copy(p, c.segs[0])
		if n == len(c.segs[0]) {
			c.segs = c.segs[1:]
		} else {
			c.segs[0] = c.segs[0][n:]
		}
		c.mu.Unlock()
		return n, nil
	}
	c.mu.Unlock()
	select {
	case <-c.eof:
	case <-c.closed:
	}
	return 0, io.EOF
}

func (c *c05SegConn) Write(p []byte) (int, error) {
	select {
	case <-c.closed:
		return 0, errClosedConn
	default:
	}
	pkt := append([]byte{}, p...)
	c.mu.Lock()
	c.writes = append(c.writes, pkt)
	c.mu.Unlock()
	if pkt[0]&0xF0 != 0x10 && c.log != nil {
		c.log("write", pkt)
	}
	c.once.Do(func() { close(c.started) })
	return len(p), nil
}

func (c *c05SegConn) Close() error {
	c.cOnce.Do(func() { close(c.closed) })
	return nil
}

// segment plans over the stream CONNACK ++ packets
func c05Segmentations(r *rand.Rand, pkts [][]byte) map[string][][]byte {
	all := append([][]byte{connackOK}, pkts...)
	var stream []byte
	var ends []int // offsets of packet ends
	for _, p := range all {
		stream = append(stream, p...)
		ends = append(ends, len(stream))
	}
	cutAt := func(offs []int) [][]byte {
		var out [][]byte
		prev := 0
		for _, o := range offs {
			if o > prev && o < len(stream) {
				out = append(out, append([]byte{}, stream[prev:o]...))
				prev = o
			}
		}
		return append(out, append([]byte{}, stream[prev:]...))
	}
	plans := map[string][][]byte{}
	plans["everything in one Read"] = cutAt(nil)
	plans["CONNACK alone, the rest in one Read"] = cutAt([]int{4})
	plans["one packet per Read"] = cutAt(ends)
	var pairs, hdr1, hdr3 []int
	for i, e := range ends {
		if i%2 == 1 {
			pairs = append(pairs, e)
		}
		hdr1 = append(hdr1, e+1)
		if i%2 == 0 {
			hdr3 = append(hdr3, e+3)
		}
	}
	plans["two packets per Read"] = cutAt(pairs)
	plans["each Read ends after the first byte of the next fixed header"] = cutAt(hdr1)
	plans["Reads end three bytes into every other packet"] = cutAt(hdr3)
	var rnd []int
	for o := 1 + r.Intn(6); o < len(stream); o += 1 + r.Intn(9) {
		rnd = append(rnd, o)
	}
	plans["random boundaries"] = cutAt(rnd)
	return plans
}

var c05SegPlanOrder = []string{"everything in one Read", "CONNACK alone, the rest in one Read", "one packet per Read", "two packets per Read",
	"each Read ends after the first byte of the next fixed header", "Reads end three bytes into every other packet", "random boundaries"}

func c05InreadStreams(r *rand.Rand, nRand int) [][]c05InPkt {
	pub := func(q byte, id uint16, topic string, n, seq int) c05InPkt {
		return c05InPkt{kind: "pub", msg: inMsg{Topic: []byte(topic), QoS: q, ID: id, Retain: seq%2 == 0, Payload: c05Fill(n, seq)}}
	}
	ack := func(h byte, id uint16) c05InPkt { return c05InPkt{kind: "ack", hdr: h, id: id} }
	rel := func(id uint16) c05InPkt { return c05InPkt{kind: "rel", id: id} }
	ping := c05InPkt{kind: "ping"}
	out := [][]c05InPkt{
		{pub(0, 0, "t", 5, 1)}, // CONNACK + PUBLISH
		{ack(0x40, 9), pub(0, 0, "t/a", 6, 1)},
		{rel(77), pub(1, 5, "t/b", 3, 2)},
		{pub(2, 10, "t/A", 12, 0), rel(10), pub(0, 0, "t/c", 4, 3)},
		{ack(0x40, 1), ack(0x50, 2), ack(0x70, 3), pub(0, 0, "x", 9, 4)},
		{ping, pub(1, 6, "t", 1, 5)},
		{ack(0xB0, 4), ping, ping, pub(2, 11, "q2", 2, 6), rel(11)},
		{c05InPkt{kind: "suback", id: 8, codes: 1}, pub(0, 0, "s", 0, 7), pub(1, 12, "", 0, 8)},
		{pub(0, 0, "", 0, 9), pub(0, 0, "a", 0, 10), ack(0x40, 2), pub(1, 13, "b", 1, 11)},
	}
	for i := 0; i < nRand; i++ {
		out = append(out, c05SeqRandom(r))
	}
	return out
}

func c05Inread(cfg *runCfg, r *rand.Rand, cf *casesFile, m *meta, dist map[string]int, scale int) (int, error) {
	var cases []string
	streams := c05InreadStreams(r, 6*scale)
	for si, pkts := range streams {
		var raw [][]byte
		var pd []string
		for _, p := range pkts {
			raw = append(raw, p.bytes())
			pd = append(pd, p.desc())
		}
		plans := c05Segmentations(r, raw)
		for pi, name := range c05SegPlanOrder {
			if si >= 9 && pi != 0 && pi != 4 && pi != 6 {
				continue // random streams: three plans
			}
			if c05F.tooMany("inread") {
				continue
			}
			segs := plans[name]
			var lens []int
			var stream []byte
			for _, s := range segs {
				lens = append(lens, len(s))
				stream = append(stream, s...)
			}
			fc := map[string]interface{}{"broker_sends_after_CONNACK": pd, "read_segments": name, "segment_lengths": lens}
			var mu sync.Mutex
			var coq, desc []string
			conn := newC05SegConn(segs)
			conn.log = func(kind string, pkt []byte) {
				mu.Lock()
				defer mu.Unlock()
				id, nm, con := 99999, fmt.Sprintf("unexpected-write(%x)", pkt), "WPubAck"
				if len(pkt) == 4 && pkt[1] == 2 {
					switch pkt[0] {
					case 0x40:
						id, nm = int(pkt[2])<<8|int(pkt[3]), "PUBACK"
					case 0x50:
						id, nm, con = int(pkt[2])<<8|int(pkt[3]), "PUBREC", "WPubRec"
					case 0x70:
						id, nm, con = int(pkt[2])<<8|int(pkt[3]), "PUBCOMP", "WPubComp"
					}
				}
				coq = append(coq, fmt.Sprintf("%s %d", con, id))
				desc = append(desc, fmt.Sprintf("%s(%d)", nm, id))
			}
			cli := &mqtt.BaseClient{Transport: conn}
			cli.Handle(mqtt.HandlerFunc(func(msg *mqtt.Message) {
				mu.Lock()
				defer mu.Unlock()
				coq = append(coq, "Hand "+c05ZMsg(msg))
				desc = append(desc, fmt.Sprintf("hand(q%d,id%d,topic=%q,payload=%d bytes %x)", msg.QoS, msg.ID, msg.Topic, len(msg.Payload), c05Head(msg.Payload)))
			}))
			ctx, cancel := ctxTimeout(10 * time.Second)
			_, cerr := cli.Connect(ctx, "cid")
			cancel()
			if cerr != nil {
				c05F.add("inread", fmt.Sprintf("Connect failed although the broker sent an accepting CONNACK: %v", cerr), fc)
			}
			close(conn.eof)
			select {
			case <-cli.Done():
			case <-time.After(20 * time.Second):
				c05F.add("inread", "the reader did not finish within 20 s after the peer closed", fc)
				cli.Close()
			}
			mu.Lock()
			fc["reader_timeline"] = append([]string{}, desc...)
			cases = append(cases, cTuple(c05Z(stream), cListInline(coq)))
			mu.Unlock()
			m.Families["inread"] = append(m.Families["inread"], fc)
			if len(m.Families["inread"]) == 4 {
				m.Samples = append(m.Samples, fc)
			}
			dist["inread_"+name]++
		}
	}
	cf.def("inread_cases", "list (list N * list in_event)", cList(cases))
	cf.result("V_inread", "c05_inseq_violations inread_cases")
	cf.result("M_inread", "c05_inseq_mismatches inread_cases")
	return len(cases), nil
}

// ---------------------------------------------------------------- parked

func c05ParkMsgs(r *rand.Rand, n, base int) []*mqtt.Message {
	var out []*mqtt.Message
	for i := 0; i < n; i++ {
		topic := c05Strings[1+r.Intn(len(c05Strings)-1)]
		if r.Intn(4) == 0 {
			topic = string(c05AZ(r.Intn(26), []int{127, 128, 300}[r.Intn(3)]))
		}
		msg := &mqtt.Message{Topic: topic, QoS: mqtt.QoS(1 + r.Intn(2)), Retain: r.Intn(4) != 0, Dup: r.Intn(5) == 0}
		switch r.Intn(3) {
		case 0:
			msg.Payload = nil
		case 1:
			msg.Payload = c05Fill(1+r.Intn(12), base+i)
		default:
			msg.Payload = c05Fill([]int{100, 127, 128, 200}[r.Intn(4)], base+i)
		}
		if r.Intn(2) == 0 {
			msg.ID = uint16(1000 + 10*(base+i) + r.Intn(10)) // the caller's identifier
		}
		out = append(out, msg)
	}
	return out
}

func c05MsgDesc(ms []*mqtt.Message) []string {
	var out []string
	for _, m := range ms {
		out = append(out, fmt.Sprintf("Publish(topic=%q (%d bytes), payload=%s, QoS%d, retain=%v, id=%d)", c05Head([]byte(m.Topic)), len(m.Topic), c05Hex(m.Payload), m.QoS, m.Retain, m.ID))
	}
	return out
}

// runs one scenario; returns the Coq case, or a problem (an observation: the library did not do its part)
func c05ParkRun(r *rand.Rand, first string, nOut, nBefore int) (coq string, fc map[string]interface{}, problem string) {
	rc := &mqtt.RetryClient{}
	fc = map[string]interface{}{}
	// connection 1: the broker closes at the first request without answering
	conn1 := newMemConn(1, func(c *memConn, pkt []byte) error {
		if pkt[0]&0xF0 == 0x10 {
			c.send(connackOK)
			return nil
		}
		c.finish()
		return nil
	})
	cli1 := &mqtt.BaseClient{Transport: conn1}
	ctx, cancel := ctxTimeout(60 * time.Second)
	defer cancel()
	rc.SetClient(ctx, cli1)
	if _, err := rc.Connect(ctx, "cid"); err != nil {
		return "", fc, fmt.Sprintf("Connect on connection 1 failed: %v", err)
	}
	var firstCoq string
	switch first {
	case "pub1", "pub2":
		q := byte(1)
		if first == "pub2" {
			q = 2
		}
		m0 := &mqtt.Message{Topic: "first/" + first, QoS: mqtt.QoS(q), Retain: r.Intn(2) == 0, Payload: c05Fill(3+r.Intn(5), 99)}
		if r.Intn(2) == 0 {
			m0.ID = uint16(500 + r.Intn(100))
		}
		firstCoq = "RPub " + c05Msg([]byte(m0.Topic), m0.ID, q, m0.Retain, false, m0.Payload)
		fc["interrupted_request"] = c05MsgDesc([]*mqtt.Message{m0})[0]
		cp := *m0
		if err := rc.Publish(ctx, &cp); err != nil {
			return "", fc, fmt.Sprintf("RetryClient.Publish returned %v", err)
		}
	case "sub":
		firstCoq = "RSub [" + cTuple(cStr("s/a"), "2") + ";" + cTuple(cStr("s/b"), "1") + "]"
		fc["interrupted_request"] = "Subscribe(s/a:2, s/b:1)"
		if _, err := rc.Subscribe(ctx, mqtt.Subscription{Topic: "s/a", QoS: 2}, mqtt.Subscription{Topic: "s/b", QoS: 1}); err != nil {
			return "", fc, fmt.Sprintf("RetryClient.Subscribe returned %v", err)
		}
	default:
		firstCoq = "RUnsub [" + cStr("u/a") + "]"
		fc["interrupted_request"] = "Unsubscribe(u/a)"
		if err := rc.Unsubscribe(ctx, "u/a"); err != nil {
			return "", fc, fmt.Sprintf("RetryClient.Unsubscribe returned %v", err)
		}
	}
	select {
	case <-cli1.Done():
	case <-time.After(20 * time.Second):
		return "", fc, "connection 1 was not closed within 20 s after the peer closed"
	}
	// outage: the application keeps publishing; its messages wait behind the interrupted request
	outage := c05ParkMsgs(r, nOut, 0)
	before := c05ParkMsgs(r, nBefore, nOut)
	fc["published_during_the_outage"] = c05MsgDesc(outage)
	fc["published_on_the_new_connection_before_Retry"] = c05MsgDesc(before)
	var asked []string
	for _, msg := range append(append([]*mqtt.Message{}, outage...), before...) {
		asked = append(asked, c05Msg([]byte(msg.Topic), msg.ID, byte(msg.QoS), msg.Retain, false, msg.Payload))
	}
	for _, msg := range outage {
		cp := *msg
		cp.Payload = append([]byte{}, msg.Payload...)
		if err := rc.Publish(ctx, &cp); err != nil {
			return "", fc, fmt.Sprintf("RetryClient.Publish during the outage returned %v", err)
		}
	}
	// connection 2: an acknowledging broker
	var mu sync.Mutex
	var pkts [][]byte
	conn2 := newMemConn(2, func(c *memConn, pkt []byte) error {
		if pkt[0]&0xF0 == 0x10 {
			c.send(connackOK)
			return nil
		}
		mu.Lock()
		pkts = append(pkts, append([]byte{}, pkt...))
		mu.Unlock()
		func() {
			defer func() { _ = recover() }()
			if ack := c05AckBytes(pkt); ack != nil {
				c.send(ack)
			}
		}()
		return nil
	})
	cli2 := &mqtt.BaseClient{Transport: conn2}
	rc.SetClient(ctx, cli2)
	if _, err := rc.Connect(ctx, "cid"); err != nil {
		return "", fc, fmt.Sprintf("Connect on connection 2 failed: %v", err)
	}
	for _, msg := range before {
		cp := *msg
		cp.Payload = append([]byte{}, msg.Payload...)
		if err := rc.Publish(ctx, &cp); err != nil {
			return "", fc, fmt.Sprintf("RetryClient.Publish before Retry returned %v", err)
		}
	}
	rc.Retry(ctx)
	ch := make(chan struct{})
	if err := rc.VerifBarrier(ch); err != nil {
		return "", fc, fmt.Sprintf("the RetryClient refused a task: %v", err)
	}
	select {
	case <-ch:
	case <-time.After(30 * time.Second):
		problem = "the RetryClient did not finish its tasks on connection 2 within 30 s"
	}
	mu.Lock()
	var ws, hx []string
	for _, p := range pkts {
		ws = append(ws, c05Z(p))
		hx = append(hx, c05Hex(p))
	}
	mu.Unlock()
	fc["written_after_connect_on_connection_2"] = hx
	cli2.Close()
	return cTuple("("+firstCoq+")", cListInline(asked), cListInline(ws)), fc, problem
}

func c05Parked(cfg *runCfg, r *rand.Rand, cf *casesFile, m *meta, dist map[string]int, scale int) (int, error) {
	var cases []string
	type shape struct{ out, before int }
	shapes := []shape{{1, 0}, {0, 1}, {2, 1}, {1, 2}, {3, 3}}
	rounds := 2 * scale
	for round := 0; round < rounds; round++ {
		for _, first := range []string{"pub1", "pub2", "sub", "unsub"} {
			for _, sh := range shapes {
				if c05F.tooMany("parked") {
					continue
				}
				coq, fc, problem := c05ParkRun(r, first, sh.out, sh.before)
				if problem != "" {
					c05F.add("parked", problem, fc)
				}
				if coq == "" {
					continue
				}
				cases = append(cases, coq)
				m.Families["parked"] = append(m.Families["parked"], fc)
				if len(m.Families["parked"]) == 3 {
					m.Samples = append(m.Samples, fc)
				}
				dist["parked_scenarios"]++
				dist["parked_messages"] += sh.out + sh.before
			}
		}
	}
	cf.def("parked_cases", "list (rop * list message * list (list N))", cList(cases))
	cf.result("V_parked", "c05_parked_violations parked_cases")
	cf.result("M_parked", "c05_parked_mismatches parked_cases")
	_ = context.Background
	return len(cases), nil
}

// ---------------------------------------------------------------- intrunc

// Large inbound PUBLISH packets (remaining length above 64 KiB), complete or cut by the end of the stream
// inside the body, and complete ones around 65,535 / 65,536 / 65,537.
func c05Intrunc(cfg *runCfg, r *rand.Rand, cf *casesFile, m *meta, dist map[string]int) (int, error) {
	type tc struct {
		rl, cut int // remaining length; body bytes actually sent (= rl: complete)
		qos     byte
	}
	var tcs []tc
	for i, rl := range []int{65537, 100000, 300000} {
		for j, cut := range []int{1, 65536, rl - 1} {
			if cfg.tier == "quick" {
				tcs = append(tcs, tc{rl, cut, byte((i + j) % 3)})
			} else {
				for q := byte(0); q < 3; q++ {
					tcs = append(tcs, tc{rl, cut, q})
				}
			}
		}
	}
	for _, rl := range []int{65535, 65536, 65537} {
		for q := byte(0); q < 3; q++ {
			tcs = append(tcs, tc{rl, rl, q})
		}
	}
	tcs = append(tcs, tc{300000, 300000, 1})
	if cfg.tier != "quick" {
		for i := 0; i < 30; i++ {
			rl := 65537 + r.Intn(400000)
			tcs = append(tcs, tc{rl, 1 + r.Intn(rl-1), byte(r.Intn(3))})
		}
	}
	var cases []string
	for _, c := range tcs {
		if c05F.tooMany("intrunc") {
			break
		}
		topic := []byte("big/t")
		overhead := 2 + len(topic)
		if c.qos > 0 {
			overhead += 2
		}
		im := inMsg{Topic: topic, QoS: c.qos, Retain: c.rl%2 == 0, Dup: c.qos == 1, Payload: c05AZ(r.Intn(26), c.rl-overhead)}
		if c.qos > 0 {
			im.ID = uint16(1 + r.Intn(65535))
		}
		pkt := encPublish(im)
		hdr := len(pkt) - c.rl
		sent := pkt[:hdr+c.cut]
		if c.cut == c.rl && c.qos == 2 {
			sent = append(append([]byte{}, pkt...), encID(0x62, im.ID)...) // complete: released by its PUBREL
		}
		fc := map[string]interface{}{"broker_sends": fmt.Sprintf("PUBLISH(q%d,id%d,retain=%v,dup=%v,topic=%q) with remaining length %d", im.QoS, im.ID, im.Retain, im.Dup, im.Topic, c.rl),
			"body_bytes_sent_before_the_stream_ends": c.cut}
		s, err := newSession(true, nil)
		if err != nil {
			c05F.add("intrunc", fmt.Sprintf("session could not be established: %v", err), fc)
			continue
		}
		s.conn.send(sent)
		s.conn.finish()
		if !s.waitDone(30 * time.Second) {
			c05F.add("intrunc", "the reader did not finish within 30 s after the peer closed", fc)
			s.cli.Close()
		}
		obs := "None"
		handed := "nothing"
		for _, e := range s.snapshot() {
			if e.Kind == "hand" {
				obs = "(Some " + c05ZMsg(e.Msg) + ")"
				handed = fmt.Sprintf("q%d,id%d,topic=%q,payload of %d bytes", e.Msg.QoS, e.Msg.ID, e.Msg.Topic, len(e.Msg.Payload))
			}
		}
		class := errClass(s.cli.Err())
		code := map[string]int{"EOF": 1, "UnexpectedEOF": 2}[class]
		if code == 0 {
			code = 9
		}
		fc["handed_to_the_handler"] = handed
		fc["connection_error"] = class
		cases = append(cases, cTuple(c05Z(sent), obs, fmt.Sprint(code)))
		m.Families["trunc"] = append(m.Families["trunc"], fc)
		if c.cut < c.rl {
			dist["large_inbound_truncated"]++
		} else {
			dist["large_inbound_complete"]++
		}
	}
	cf.def("trunc_cases", "list (list N * option message * N)", cList(cases))
	cf.result("V_trunc", "c05_trunc_violations trunc_cases")
	cf.result("M_trunc", "c05_trunc_mismatches trunc_cases")
	return len(cases), nil
}
