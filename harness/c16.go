package main

// C16 — connection state, Err() and Done() report what really happened to the connection.
//
// Family "bc": a real BaseClient over a gated in-memory transport. Every point where the
// library runs user code (Transport.Write/Close/Read, the ConnState callback) is a parking
// spot; a controller goroutine executes a scenario (a list of macro steps: start Connect,
// let the CONNECT write return, the peer sends a CONNACK / closes / sends garbage, Close,
// start Disconnect, release a parked goroutine, cancel the context, ...), waits after each
// step until the affected goroutines are parked, blocked in a known wait or finished, and
// polls Err() and Done(). The scenario is emitted as ONE ordered list of items: the model
// labels realised (IStep) and the ground-truth events / observations (IT). Scenarios are
// enumerated exhaustively up to a depth (validity decided by the controller's own state)
// and continued at random beyond.
//
// Family "rc": the real ReconnectClient over an in-memory Dialer (keep-alive timeout, idle
// cut followed by a healthy connection, refused CONNACK, graceful Disconnect with and without
// a PINGREQ in flight). Time is used only as a lower bound ("the stale goroutine had at
// least 60 ms = 12 ping intervals to do damage").

import (
	"context"
	"encoding/json"
	"errors"
	"fmt"
	"io"
	"math/rand"
	"os"
	"path/filepath"
	"runtime"
	"sort"
	"strconv"
	"strings"
	"sync"
	"sync/atomic"
	"time"

	mqtt "github.com/at-wat/mqtt-go"
)

func init() { register("C16", runC16) }

var errC16Local = errors.New("c16conn: use of locally closed transport")
var errC16Write = errors.New("c16conn: write failed")

const c16Wait = 8 * time.Second // expires only when something is really stuck

// Every wait of this harness is limited. An expired wait is an observation ("stuck: <where>",
// item TStuck -> V_ violation), never a hang. Once a wait has expired the verdict is settled:
// later waits are short, and after a few expiries the remaining scenarios are skipped, so that
// a tree on which everything blocks is reported within a minute.
var c16Expired int32

const c16MaxExpired = 4

func c16Limit() time.Duration {
	if atomic.LoadInt32(&c16Expired) > 0 {
		return time.Second
	}
	return c16Wait
}

func c16GiveUp() bool { return atomic.LoadInt32(&c16Expired) >= c16MaxExpired }

// c16Guard runs a call into the library on a goroutine of its own and waits for it at most
// c16Limit(): a call that blocks (a lock held for ever) is reported, it cannot hang the harness.
func c16Guard(f func()) bool {
	ch := make(chan struct{})
	go func() {
		f()
		close(ch)
	}()
	select {
	case <-ch:
		return true
	case <-time.After(c16Limit()):
		atomic.AddInt32(&c16Expired, 1)
		return false
	}
}

func c16gid() int64 {
	var buf [64]byte
	n := runtime.Stack(buf[:], false)
	f := strings.Fields(string(buf[:n]))
	if len(f) < 2 {
		return -1
	}
	id, _ := strconv.ParseInt(f[1], 10, 64)
	return id
}

// c16Err maps an error to the model's error class (an [option errc] in Coq syntax).
func c16Err(err error) string {
	switch {
	case err == nil:
		return "None"
	case errors.Is(err, errC16Local):
		return "(Some ELocalClosed)"
	case errors.Is(err, errC16Write):
		return "(Some EWriteFail)"
	case errors.Is(err, mqtt.ErrPingTimeout):
		return "(Some EPingTimeout)"
	case errors.Is(err, mqtt.ErrClosedTransport):
		return "(Some EClosedTransport)"
	case errors.Is(err, context.Canceled), errors.Is(err, context.DeadlineExceeded):
		return "(Some ECtxCanceled)"
	case errors.Is(err, mqtt.ErrInvalidPacketLength):
		return "(Some EInvalidLength)"
	case errors.Is(err, mqtt.ErrInvalidPacket):
		return "(Some EInvalidPacket)"
	case errors.Is(err, io.ErrUnexpectedEOF):
		return "(Some EUnexpectedEOF)"
	case errors.Is(err, io.EOF):
		return "(Some EEOF)"
	}
	return "(Some EOther)"
}

func c16State(st mqtt.ConnState) string {
	switch st {
	case mqtt.StateNew:
		return "SNew"
	case mqtt.StateActive:
		return "SActive"
	case mqtt.StateClosed:
		return "SClosed"
	case mqtt.StateDisconnected:
		return "SDisconnected"
	}
	return "SNew"
}

func c16ConnRes(err error) string {
	var ce *mqtt.ConnectionError
	switch {
	case err == nil:
		return "ROk"
	case errors.As(err, &ce):
		return fmt.Sprintf("(RRefused %d)", int(ce.Code))
	case errors.Is(err, errC16Write), errors.Is(err, errC16Local):
		return "RWriteErr"
	case errors.Is(err, mqtt.ErrClosedTransport):
		return "RClosedTransport"
	case errors.Is(err, context.Canceled), errors.Is(err, context.DeadlineExceeded):
		return "RCtx"
	}
	return "RWriteErr"
}

// ---------------------------------------------------------------- timeline shared by both families

type c16Timeline struct {
	mu    sync.Mutex
	items []string // Coq items
	human []string
}

func (t *c16Timeline) add(item, human string) {
	t.mu.Lock()
	if item != "" {
		t.items = append(t.items, item)
	}
	if human != "" {
		t.human = append(t.human, human)
	}
	t.mu.Unlock()
}
func (t *c16Timeline) step(k int, l string) { t.add(fmt.Sprintf("IStep (On %d%%nat %s)", k, l), "") }
func (t *c16Timeline) sys(l string)         { t.add("IStep "+l, "") }
func (t *c16Timeline) tev(k int, e string) {
	t.add(fmt.Sprintf("IT %d%%nat %s", k, e), fmt.Sprintf("%d:%s", k, e))
}
func (t *c16Timeline) snapshot() ([]string, []string) {
	t.mu.Lock()
	defer t.mu.Unlock()
	return append([]string{}, t.items...), append([]string{}, t.human...)
}

func c16Closed(ch <-chan struct{}) bool {
	if ch == nil {
		return false
	}
	select {
	case <-ch:
		return true
	default:
		return false
	}
}

// c16Sample polls Err() and Done(). false: one of them blocked (recorded as TStuck).
func c16Sample(t *c16Timeline, k int, cli *mqtt.BaseClient) bool {
	var err error
	var done bool
	if !c16Guard(func() {
		err = cli.Err()
		done = c16Closed(cli.Done())
	}) {
		t.tev(k, "TStuck")
		t.add("", fmt.Sprintf("%d:stuck: Err()/Done() did not return", k))
		return false
	}
	t.tev(k, fmt.Sprintf("(TSample %s %s)", c16Err(err), cBool(done)))
	return true
}

// c16Look is what an observer does from inside its ConnState handler: a look at Err() and a
// non-blocking look at Done() of its own client (runs on the library's goroutine, unguarded: if
// the library deadlocks here, the controller's wait for this goroutine expires).
func c16Look(t *c16Timeline, k int, cli *mqtt.BaseClient) {
	err := cli.Err()
	done := c16Closed(cli.Done())
	t.tev(k, fmt.Sprintf("(TLook %s %s)", c16Err(err), cBool(done)))
}

// ---------------------------------------------------------------- gated transport + controller (family bc)

type c16Rel struct{ fail bool }

type c16Park struct {
	name string
	rel  chan c16Rel
}

type c16Ev struct {
	kind string // "park", "idle", "wrote", "done", "cret", "dret"
	park *c16Park
	err  error
	sp   bool // cret: the session-present value Connect returned
}

type c16Ctl struct {
	events  chan c16Ev
	gidMain int64
	gidD    int64 // atomic
	gidAux  int64 // atomic: a guarded call made on behalf of the controller
	held    map[string]*c16Park
	idle    int
	wrote   bool
	done    bool
	cret    bool
	cerr    error
	csp     bool
	dret    bool
	aux     bool // a further call made on a goroutine of its own returned
	auxErr  error
	derr    error
	unexp   []string
	stuck   string
}

func (c *c16Ctl) park(name string) c16Rel {
	p := &c16Park{name: name, rel: make(chan c16Rel, 1)}
	c.events <- c16Ev{kind: "park", park: p}
	select {
	case r := <-p.rel:
		return r
	case <-time.After(3 * c16Wait):
		return c16Rel{} // the controller gave up on this scenario
	}
}

// wait pumps events until cond holds. Parks whose name is in hold stay parked (recorded in
// c.held); any other park is unexpected here: it is recorded and released at once.
func (c *c16Ctl) wait(what string, hold []string, cond func() bool) bool {
	deadline := time.After(c16Limit())
	for !cond() {
		select {
		case ev := <-c.events:
			switch ev.kind {
			case "park":
				ok := false
				for _, h := range hold {
					if h == ev.park.name && c.held[h] == nil {
						ok = true
					}
				}
				if ok {
					c.held[ev.park.name] = ev.park
				} else {
					c.unexp = append(c.unexp, ev.park.name+" while "+what)
					ev.park.rel <- c16Rel{}
				}
			case "idle":
				c.idle++
			case "wrote":
				c.wrote = true
			case "done":
				c.done = true
			case "cret":
				c.cret, c.cerr, c.csp = true, ev.err, ev.sp
			case "dret":
				c.dret, c.derr = true, ev.err
			case "aux":
				c.aux, c.auxErr = true, ev.err
			}
		case <-deadline:
			atomic.AddInt32(&c16Expired, 1)
			c.stuck = what
			return false
		}
	}
	return true
}

func (c *c16Ctl) release(name string, r c16Rel) {
	if p := c.held[name]; p != nil {
		delete(c.held, name)
		p.rel <- r
	}
}

type c16Conn struct {
	mu       sync.Mutex
	cond     *sync.Cond
	in       []byte
	closed   bool
	eof      bool
	ctl      *c16Ctl // nil: no gating (family rc)
	failAcks int32   // atomic: the sending direction is broken for PUBACK/PUBREC/PUBCOMP (reads still work)
	// family rc
	onWrite func(c *c16Conn, typ byte)
	onPub   func(p []byte) // an outbound PUBLISH was written (the whole packet)
}

func newC16Conn(ctl *c16Ctl) *c16Conn {
	c := &c16Conn{ctl: ctl}
	c.cond = sync.NewCond(&c.mu)
	return c
}

func (c *c16Conn) Read(p []byte) (int, error) {
	c.mu.Lock()
	defer c.mu.Unlock()
	for len(c.in) == 0 && !c.closed && !c.eof {
		if c.ctl != nil {
			c.ctl.events <- c16Ev{kind: "idle"}
		}
		c.cond.Wait()
	}
	if len(c.in) > 0 {
		n := copy(p, c.in)
		c.in = c.in[n:]
		return n, nil
	}
	if c.closed {
		return 0, errC16Local
	}
	return 0, io.EOF
}

func (c *c16Conn) Write(p []byte) (int, error) {
	typ := p[0] & 0xF0
	if c.ctl != nil {
		switch typ {
		case 0x10:
			if r := c.ctl.park("CW"); r.fail {
				return 0, errC16Write
			}
		case 0xE0:
			if c16gid() != atomic.LoadInt64(&c.ctl.gidAux) { // a further Disconnect runs through ungated
				if r := c.ctl.park("DW"); r.fail {
					return 0, errC16Write
				}
			}
		}
	}
	if (typ == 0x40 || typ == 0x50 || typ == 0x70) && atomic.LoadInt32(&c.failAcks) == 1 {
		return 0, errC16Write
	}
	c.mu.Lock()
	closed := c.closed
	c.mu.Unlock()
	if c.ctl != nil && typ == 0x10 {
		c.ctl.events <- c16Ev{kind: "wrote"} // the outcome of the CONNECT write is decided
	}
	if closed {
		return 0, errC16Local
	}
	if c.onPub != nil && typ == 0x30 {
		c.onPub(p)
	}
	if c.onWrite != nil {
		c.onWrite(c, typ)
	}
	return len(p), nil
}

func (c *c16Conn) Close() error {
	if c.ctl != nil {
		switch gid := c16gid(); {
		case gid == c.ctl.gidMain, gid == atomic.LoadInt64(&c.ctl.gidAux):
		case gid == atomic.LoadInt64(&c.ctl.gidD):
			c.ctl.park("DC")
		default:
			c.ctl.park("SC") // the goroutine that runs when serve() returns (connect.go:120-132)
		}
	}
	c.mu.Lock()
	c.closed = true
	c.cond.Broadcast()
	c.mu.Unlock()
	return nil
}

func (c *c16Conn) isClosed() bool {
	c.mu.Lock()
	defer c.mu.Unlock()
	return c.closed
}

func (c *c16Conn) send(b []byte) {
	c.mu.Lock()
	c.in = append(c.in, b...)
	c.cond.Broadcast()
	c.mu.Unlock()
}

func (c *c16Conn) finish() {
	c.mu.Lock()
	c.eof = true
	c.cond.Broadcast()
	c.mu.Unlock()
}

// ---------------------------------------------------------------- family bc: scenarios

// macro steps
const c16EndKinds = 10 // ways PeerEnd makes serve() return

const (
	mStartConnect = iota
	mRelCWok
	mRelCWfail
	mPeerAccept
	mPeerRefuse
	mPeerEnd
	mLocalClose
	mRelSC
	mRelSU
	mRelCA
	mStartDisconnect
	mRelDU
	mRelDWok
	mRelDWfail
	mRelDC
	mCtxCancel
	mDisconnectAgain
	mCount
)

var c16MacroName = []string{"StartConnect", "RelConnectWrite(ok)", "RelConnectWrite(fail)", "PeerConnAck(accept)", "PeerConnAck(refuse)",
	"PeerEnd", "LocalClose", "RelServeClose", "RelClosedCallback", "RelActiveCallback", "StartDisconnect",
	"RelDisconnectedCallback", "RelDisconnectWrite(ok)", "RelDisconnectWrite(fail)", "RelDisconnectClose", "CancelConnectCtx", "DisconnectAgain"}

type c16Scn struct {
	tl   *c16Timeline
	ctl  *c16Ctl
	conn *c16Conn
	cli  *mqtt.BaseClient
	// the controller's knowledge of where the goroutines are
	cSt, sSt, dSt string // C: "", "CW", "sel", "CA", "ret" ; S: "", "rd", "SC", "SU", "fin" ; D: "", "DU", "DW", "DC", "ret"
	ack           bool   // a CONNACK is buffered in chConnAck
	ackCode       int
	ctxDone       bool
	nLocalClose   int
	nDisc2        int
	cancel        context.CancelFunc
	ctx           context.Context
	endKind       int  // which malformed/closing/ack-write-failure behaviour PeerEnd uses
	blocked       bool // a guarded call into the library did not return
	ackFlags      int  // acknowledge-flags byte of the CONNACKs the peer sends (bit 0 = session present)
	hmode         int  // 1: the handler also calls Handle(nil) on Closed/Disconnected
	refuseCode    int
	macros        []string
}

func newC16Scn(endKind, refuseCode, hmode, ackFlags int) *c16Scn {
	s := &c16Scn{tl: &c16Timeline{}, endKind: endKind, refuseCode: refuseCode, hmode: hmode, ackFlags: ackFlags}
	s.ctl = &c16Ctl{events: make(chan c16Ev, 4096), gidMain: c16gid(), held: map[string]*c16Park{}}
	s.conn = newC16Conn(s.ctl)
	s.cli = &mqtt.BaseClient{Transport: s.conn}
	s.cli.ConnState = func(st mqtt.ConnState, err error) {
		s.tl.tev(0, fmt.Sprintf("(TCb %s %s)", c16State(st), c16Err(err)))
		// the handler is an observer of its own client (legitimate: the callback is invoked
		// after the client lock was released, conn.go:43-45)
		c16Look(s.tl, 0, s.cli)
		if s.hmode == 1 && (st == mqtt.StateClosed || st == mqtt.StateDisconnected) {
			s.cli.Handle(nil)
		}
		switch st {
		case mqtt.StateActive:
			s.ctl.park("CA")
		case mqtt.StateClosed:
			s.ctl.park("SU")
		case mqtt.StateDisconnected:
			s.ctl.park("DU")
		default:
			s.ctl.park("X")
		}
		s.tl.tev(0, fmt.Sprintf("(TCbRet %s)", c16State(st)))
	}
	s.ctx, s.cancel = context.WithCancel(context.Background())
	return s
}

func (s *c16Scn) valid(m int) bool {
	if s.ctl.stuck != "" || s.blocked {
		return false
	}
	switch m {
	case mStartConnect:
		return s.cSt == "" && (s.dSt == "" || s.dSt == "ret")
	case mRelCWok, mRelCWfail:
		return s.cSt == "CW"
	case mPeerAccept, mPeerRefuse, mPeerEnd:
		return s.sSt == "rd"
	case mLocalClose:
		return s.nLocalClose < 2
	case mRelSC:
		return s.sSt == "SC"
	case mRelSU:
		return s.sSt == "SU"
	case mRelCA:
		return s.cSt == "CA"
	case mStartDisconnect:
		return s.dSt == "" && (s.cSt == "" || s.cSt == "ret")
	case mRelDU:
		return s.dSt == "DU"
	case mRelDWok, mRelDWfail:
		return s.dSt == "DW"
	case mRelDC:
		return s.dSt == "DC"
	case mCtxCancel:
		return !s.ctxDone && (s.cSt == "CW" || s.cSt == "sel")
	case mDisconnectAgain:
		// a further, complete call of Disconnect from another goroutine: after the first one has
		// updated the state (it may still be parked in its callback or before its Close, or have
		// returned). Not while the harness itself holds muWrite (a goroutine parked in Write) or
		// Connect holds muConnecting.
		return s.nDisc2 < 2 && s.dSt != "" && s.dSt != "DW" && (s.cSt == "" || s.cSt == "ret")
	}
	return false
}

// the reader has seen the end of the stream / a failed read: it must arrive at its Close
func (s *c16Scn) serveFails(errc string) bool {
	return s.serveFailsL(errc, "(LServeFail "+errc+")")
}

func (s *c16Scn) serveFailsL(errc, label string) bool {
	if !s.ctl.wait("reader reaches Transport.Close after "+errc, []string{"SC"}, func() bool { return s.ctl.held["SC"] != nil }) {
		return false
	}
	s.sSt = "SC"
	s.tl.step(0, label)
	return true
}

// Connect is in its select and something it waits for may be ready: see what it does
func (s *c16Scn) settleC() bool {
	if s.cSt != "sel" || !(s.ack || s.ctl.done || s.ctxDone) {
		return true
	}
	if !s.ctl.wait("Connect leaves its select", []string{"CA"}, func() bool { return s.ctl.held["CA"] != nil || s.ctl.cret }) {
		return false
	}
	if s.ctl.held["CA"] != nil {
		s.ack = false
		s.cSt = "CA"
		s.tl.step(0, "LConnSeeAck")
		s.tl.step(0, "LConnActive")
		return true
	}
	s.cSt = "ret"
	res := c16ConnRes(s.ctl.cerr)
	switch {
	case res == "ROk": // accepted, and the callback was not invoked (state did not change)
		s.ack = false
		s.tl.step(0, "LConnSeeAck")
		s.tl.step(0, "LConnActive")
	case strings.HasPrefix(res, "(RRefused"):
		s.ack = false
		s.tl.step(0, "LConnSeeAck")
	case res == "RClosedTransport":
		s.tl.step(0, "LConnSeeClosed")
	case res == "RCtx":
		s.tl.step(0, "LConnSeeCtx")
	}
	s.connRet()
	return true
}

// connRet records what Connect returned (and, on success, the session-present value).
func (s *c16Scn) connRet() {
	res := c16ConnRes(s.ctl.cerr)
	s.tl.tev(0, "(TConnRet "+res+")")
	if res == "ROk" {
		s.tl.tev(0, "(TConnSP "+cBool(s.ctl.csp)+")")
	}
}

func (s *c16Scn) do(m int) bool {
	s.macros = append(s.macros, c16MacroName[m])
	c := s.ctl
	switch m {
	case mStartConnect:
		s.tl.tev(0, "TCallConnect")
		n := c.idle
		go func() {
			sp, err := s.cli.Connect(s.ctx, "cid")
			c.events <- c16Ev{kind: "cret", err: err, sp: sp}
		}()
		if !c.wait("Connect reaches the CONNECT write", []string{"CW", "SC"}, func() bool { return c.held["CW"] != nil }) {
			return false
		}
		s.cSt = "CW"
		s.tl.step(0, "LConnStart")
		var done <-chan struct{}
		if !c16Guard(func() { done = s.cli.Done() }) {
			c.stuck = "Done() returns while Connect is writing CONNECT"
			return false
		}
		go func() {
			<-done
			s.tl.tev(0, "TDoneSeen")
			c.events <- c16Ev{kind: "done"}
		}()
		// the reader goroutine: blocked in Read, or (transport already closed) on its way out
		if s.conn.isClosed() {
			if !s.serveFails("ELocalClosed") {
				return false
			}
		} else {
			if !c.wait("reader blocks in Read", []string{"SC"}, func() bool { return c.idle > n || c.held["SC"] != nil }) {
				return false
			}
			s.sSt = "rd"
		}
	case mRelCWok, mRelCWfail:
		ok := m == mRelCWok && !s.conn.isClosed()
		s.tl.step(0, "(LConnWrite "+cBool(ok)+")")
		c.release("CW", c16Rel{fail: m == mRelCWfail})
		if m == mRelCWok {
			if !c.wait("CONNECT write returns", nil, func() bool { return c.wrote }) {
				return false
			}
		}
		if ok {
			s.cSt = "sel"
			return s.settleC()
		}
		if !c.wait("Connect returns after failed write", nil, func() bool { return c.cret }) {
			return false
		}
		s.cSt = "ret"
		s.connRet()
	case mPeerAccept, mPeerRefuse:
		code := 0
		if m == mPeerRefuse {
			code = s.refuseCode
		}
		s.tl.tev(0, fmt.Sprintf("(TPeerAck %d %d)", s.ackFlags, code))
		n := c.idle
		s.conn.send([]byte{0x20, 2, byte(s.ackFlags), byte(code)})
		// Connect (if it is in its select) may reach its Active callback before the reader is idle again
		var holdCA []string
		if s.cSt == "sel" {
			holdCA = []string{"CA"}
		}
		if !c.wait("reader consumes CONNACK", holdCA, func() bool { return c.idle > n }) {
			return false
		}
		// the label is computed inside Coq from the bytes sent (connack_parse: connack.go Parse)
		s.tl.step(0, fmt.Sprintf("(connack_label 0 [%d; %d])", s.ackFlags, code))
		if !s.ack {
			s.ack, s.ackCode = true, code
		}
		return s.settleC()
	case mPeerEnd:
		var errc string
		kind := s.endKind % c16EndKinds
		if kind >= 5 && kind <= 7 && (s.cSt == "CW" || s.dSt == "DW") {
			// a goroutine parked inside Transport.Write holds muWrite: the reader's acknowledgement
			// write would wait for the harness itself. Use a read-side ending here.
			kind = 0
		}
		switch kind {
		case 0:
			errc = "EEOF"
			s.tl.tev(0, "(TPeerEnd EEOF)")
			s.conn.finish()
		case 1:
			errc = "EInvalidPacket" // reserved packet type 15
			s.tl.tev(0, "(TPeerEnd EInvalidPacket)")
			s.conn.send([]byte{0xF0, 0})
		case 2:
			// CONNACK with non-zero header flags
			s.tl.tev(0, "(TPeerEnd EInvalidPacket)")
			s.conn.send([]byte{0x21, 2, 0, 0})
			return s.serveFailsL("EInvalidPacket", "(connack_label 1 [0; 0])")
		case 3:
			errc = "EUnexpectedEOF" // truncated packet, then the peer closes
			s.tl.tev(0, "(TPeerEnd EUnexpectedEOF)")
			s.conn.send([]byte{0x30, 5, 0})
			s.conn.finish()
		case 4:
			errc = "EInvalidLength" // five-byte remaining length
			s.tl.tev(0, "(TPeerEnd EInvalidLength)")
			s.conn.send([]byte{0x30, 0x80, 0x80, 0x80, 0x80, 0x01})
		case 5:
			// the sending direction breaks while receiving still works: the PUBACK write fails
			errc = "EWriteFail"
			s.tl.tev(0, "(TPeerEnd EWriteFail)")
			atomic.StoreInt32(&s.conn.failAcks, 1)
			s.conn.send(encPublish(inMsg{Topic: []byte("t"), ID: 7, QoS: 1, Payload: []byte{1}}))
		case 6:
			errc = "EWriteFail" // ... the PUBREC write fails
			s.tl.tev(0, "(TPeerEnd EWriteFail)")
			atomic.StoreInt32(&s.conn.failAcks, 1)
			s.conn.send(encPublish(inMsg{Topic: []byte("t"), ID: 7, QoS: 2, Payload: []byte{1}}))
		case 7:
			// inbound QoS 2: PUBLISH, PUBREC written, then the sending direction breaks, PUBREL:
			// the PUBCOMP write fails
			errc = "EWriteFail"
			n := c.idle
			s.conn.send(encPublish(inMsg{Topic: []byte("t"), ID: 7, QoS: 2, Payload: []byte{1}}))
			if !c.wait("reader answers PUBLISH QoS2 with PUBREC", nil, func() bool { return c.idle > n }) {
				return false
			}
			s.tl.tev(0, "(TPeerEnd EWriteFail)")
			atomic.StoreInt32(&s.conn.failAcks, 1)
			s.conn.send(encID(0x62, 7))
		case 8:
			// CONNACK with a three-byte variable header
			s.tl.tev(0, "(TPeerEnd EInvalidLength)")
			s.conn.send([]byte{0x20, 3, 0, 0, 0})
			return s.serveFailsL("EInvalidLength", "(connack_label 0 [0; 0; 0])")
		case 9:
			// CONNACK with a one-byte variable header
			s.tl.tev(0, "(TPeerEnd EInvalidLength)")
			s.conn.send([]byte{0x20, 1, 1})
			return s.serveFailsL("EInvalidLength", "(connack_label 0 [1])")
		}
		return s.serveFails(errc)
	case mLocalClose:
		s.nLocalClose++
		s.tl.tev(0, "TCallClose")
		if !c16Guard(func() {
			atomic.StoreInt64(&c.gidAux, c16gid())
			s.cli.Close()
		}) {
			c.stuck = "Close() returns"
			return false
		}
		s.tl.step(0, "LLocalClose")
		if s.sSt == "rd" {
			return s.serveFails("ELocalClosed")
		}
	case mRelSC:
		s.tl.step(0, "LExitClose")
		s.tl.step(0, "LExitStore")
		s.tl.step(0, "LExitUpdate")
		c.release("SC", c16Rel{})
		if !c.wait("exit path reports Closed or closes Done", []string{"SU"}, func() bool { return c.held["SU"] != nil || c.done }) {
			return false
		}
		if c.held["SU"] != nil {
			s.sSt = "SU"
			return true
		}
		s.sSt = "fin"
		s.tl.step(0, "LExitDone")
		return s.settleC()
	case mRelSU:
		s.tl.step(0, "LExitDone")
		c.release("SU", c16Rel{})
		if !c.wait("Done closes after the Closed callback", nil, func() bool { return c.done }) {
			return false
		}
		s.sSt = "fin"
		return s.settleC()
	case mRelCA:
		c.release("CA", c16Rel{})
		if !c.wait("Connect returns after the Active callback", nil, func() bool { return c.cret }) {
			return false
		}
		s.cSt = "ret"
		s.connRet()
	case mStartDisconnect:
		s.tl.tev(0, "TCallDisconnect")
		started := make(chan struct{})
		go func() {
			atomic.StoreInt64(&c.gidD, c16gid())
			close(started)
			err := s.cli.Disconnect(context.Background())
			c.events <- c16Ev{kind: "dret", err: err}
		}()
		<-started
		if !c.wait("Disconnect reports Disconnected or writes", []string{"DU", "DW"}, func() bool { return c.held["DU"] != nil || c.held["DW"] != nil || c.dret }) {
			return false
		}
		s.tl.step(0, "LDiscUpdate")
		switch {
		case c.held["DU"] != nil:
			s.dSt = "DU"
		case c.held["DW"] != nil:
			s.dSt = "DW"
		default:
			s.dSt = "ret"
		}
	case mRelDU:
		c.release("DU", c16Rel{})
		if !c.wait("Disconnect writes DISCONNECT", []string{"DW"}, func() bool { return c.held["DW"] != nil || c.dret }) {
			return false
		}
		s.dSt = "DW"
		if c.dret {
			s.dSt = "ret"
		}
	case mRelDWok, mRelDWfail:
		ok := m == mRelDWok && !s.conn.isClosed()
		s.tl.step(0, "(LDiscWrite "+cBool(ok)+")")
		c.release("DW", c16Rel{fail: m == mRelDWfail})
		if ok {
			if !c.wait("Disconnect reaches Transport.Close", []string{"DC"}, func() bool { return c.held["DC"] != nil || c.dret }) {
				return false
			}
			s.dSt = "DC"
			if c.dret {
				s.dSt = "ret"
			}
			return true
		}
		if !c.wait("Disconnect returns after failed write", nil, func() bool { return c.dret }) {
			return false
		}
		s.dSt = "ret"
		s.tl.tev(0, "(TDiscRet false)")
	case mRelDC:
		s.tl.tev(0, "TDiscClose")
		s.tl.step(0, "LDiscClose")
		c.release("DC", c16Rel{})
		if !c.wait("Disconnect returns", []string{"SC"}, func() bool { return c.dret }) {
			return false
		}
		s.dSt = "ret"
		s.tl.tev(0, "(TDiscRet "+cBool(c.derr == nil)+")")
		if s.sSt == "rd" {
			return s.serveFails("ELocalClosed")
		}
	case mCtxCancel:
		s.ctxDone = true
		s.cancel()
		return s.settleC()
	case mDisconnectAgain:
		s.nDisc2++
		s.tl.tev(0, "TCallDisconnect")
		willClose := !s.conn.isClosed()
		if willClose {
			s.tl.tev(0, "TDiscClose")
		}
		started := make(chan struct{})
		c.aux = false
		go func() {
			atomic.StoreInt64(&c.gidAux, c16gid()) // its Write/Close are not parking spots
			close(started)
			err := s.cli.Disconnect(context.Background())
			c.events <- c16Ev{kind: "aux", err: err}
		}()
		<-started
		// its Transport.Close makes the reader fail: the reader may arrive at its own Close (SC)
		// before this call has returned - that park is expected and kept
		var hold []string
		if s.sSt == "rd" {
			hold = []string{"SC"}
		}
		if !c.wait("a further Disconnect returns", hold, func() bool { return c.aux }) {
			return false
		}
		s.tl.step(0, "LXDiscUpdate")
		if willClose && c.auxErr == nil {
			s.tl.step(0, "LLocalClose") // the Transport.Close of that call
			if s.sSt == "rd" {
				return s.serveFails("ELocalClosed")
			}
		}
	}
	return true
}

func (s *c16Scn) sample() bool {
	if s.blocked {
		return false
	}
	if !c16Sample(s.tl, 0, s.cli) {
		s.blocked = true
		return false
	}
	return true
}

var errC16Probe = errors.New("c16: a later error")

// c16OnceProbe: when the connection already has an error, a further SetErrorOnce (exported,
// conn.go:25) must not replace it: Err() keeps returning the error reported with Closed.
func c16OnceProbe(t *c16Timeline, k int, cli *mqtt.BaseClient) {
	var has bool
	if !c16Guard(func() {
		if has = cli.Err() != nil; has {
			cli.SetErrorOnce(errC16Probe)
		}
	}) {
		t.tev(k, "TStuck")
		return
	}
	if has {
		c16Sample(t, k, cli)
	}
}

// drain releases everything that is parked, in the given preference order, until nothing is.
func (s *c16Scn) drain(order []int) bool {
	for i := 0; i < 40; i++ {
		progressed := false
		for _, m := range order {
			if s.valid(m) {
				if !s.do(m) || !s.sample() {
					return false
				}
				progressed = true
				break
			}
		}
		if !progressed {
			return true
		}
	}
	return true
}

// return codes and acknowledge-flags bytes used by the enumerated scenarios (the sweep family
// covers all 256 values of each)
var c16Codes = []int{5, 1, 2, 3, 4, 6, 0x10, 0x80, 0x84, 0xFF}
var c16Flags = []int{0, 1, 2, 3, 0x80, 0xFE, 0xFF}

var c16DrainOrders = [][]int{
	{mRelCWok, mRelCA, mRelSC, mRelSU, mRelDU, mRelDWok, mRelDC},
	{mRelDU, mRelDWok, mRelDC, mRelSC, mRelSU, mRelCWok, mRelCA},
	{mRelSC, mRelSU, mRelDC, mRelDWok, mRelDU, mRelCA, mRelCWok},
}

func (s *c16Scn) cleanup() {
	// not part of the observation: let every goroutine go
	s.cancel()
	s.conn.Close()
	for name, p := range s.ctl.held {
		delete(s.ctl.held, name)
		p.rel <- c16Rel{}
	}
	// late arrivals at a parking spot are waved through
	ev := s.ctl.events
	go func() {
		t := time.After(2 * time.Second)
		for {
			select {
			case e := <-ev:
				if e.kind == "park" {
					e.park.rel <- c16Rel{}
				}
			case <-t:
				return
			}
		}
	}()
}

type c16Result struct {
	items  []string
	human  []string
	macros []string
	next   []int // macros valid after the prefix (before draining)
	stuck  string
	unexp  []string
}

// c16RunBC executes the steps of prefix that are valid when their turn comes (the others are
// skipped), then up to extra further steps chosen by choose among the valid ones, then drains.
func c16RunBC(prefix []int, endKind, refuseCode, drainOrder int, hmode int, ackFlags int, extra int, choose func(valid []int) int) (res c16Result) {
	s := newC16Scn(endKind, refuseCode, hmode, ackFlags)
	defer s.cleanup()
	ok := s.sample()
	for _, m := range prefix {
		if !ok {
			break
		}
		if !s.valid(m) {
			continue
		}
		ok = s.do(m) && s.sample()
	}
	validNow := func() []int {
		var v []int
		for m := 0; m < mCount; m++ {
			if s.valid(m) {
				v = append(v, m)
			}
		}
		return v
	}
	for i := 0; ok && i < extra; i++ {
		v := validNow()
		if len(v) == 0 {
			break
		}
		ok = s.do(choose(v)) && s.sample()
	}
	if ok {
		res.next = validNow()
		if s.drain(c16DrainOrders[drainOrder%len(c16DrainOrders)]) && !s.blocked {
			s.tl.tev(0, "TEnd")
			if s.sample() {
				c16OnceProbe(s.tl, 0, s.cli)
			}
		}
	}
	if s.ctl.stuck != "" {
		// an expired wait is an observation: what the library was expected to do did not happen
		s.tl.tev(0, "TStuck")
		s.tl.add("", "0:stuck waiting for: "+s.ctl.stuck)
	}
	res.items, res.human = s.tl.snapshot()
	res.macros = s.macros
	res.stuck = s.ctl.stuck
	if res.stuck == "" && s.blocked {
		res.stuck = "Err()/Done() did not return"
	}
	res.unexp = s.ctl.unexp
	return
}

// ---------------------------------------------------------------- family rc: the reconnecting client

type c16Epoch struct {
	k       int
	conn    *c16Conn
	cli     *mqtt.BaseClient
	active  chan struct{}
	wrote   chan struct{} // CONNECT was written: init() has run, Done() is the channel of this connection
	ping    chan struct{}
	pubrec  chan struct{} // a PUBREC was written
	pub     chan uint16   // an outbound QoS 1 PUBLISH was written (its packet id); never acknowledged by the peer itself
	disc    int32         // atomic: a DISCONNECT was written
	answer  int32         // answer PINGREQ
	refuse  int32         // CONNACK return code
	closedE error
	mu      sync.Mutex
}

type c16RC struct {
	tl     *c16Timeline
	mu     sync.Mutex
	epochs []*c16Epoch
	plan   func(k int) (answerPing bool, refuse int)
	newEp  chan *c16Epoch
}

func (r *c16RC) dial(ctx context.Context) (*mqtt.BaseClient, error) {
	r.mu.Lock()
	k := len(r.epochs)
	ans, refuse := r.plan(k)
	ep := &c16Epoch{k: k, active: make(chan struct{}), wrote: make(chan struct{}), ping: make(chan struct{}, 64), pubrec: make(chan struct{}, 8), pub: make(chan uint16, 8)}
	var wroteOnce sync.Once
	if ans {
		ep.answer = 1
	}
	ep.refuse = int32(refuse)
	ep.conn = newC16Conn(nil)
	ep.conn.onPub = func(p []byte) {
		// fixed header (remaining length < 128 in these scenarios), topic, packet id
		if len(p) >= 4 && p[0]&0x06 != 0 && p[1] < 128 {
			n := 4 + int(p[2])<<8 + int(p[3])
			if len(p) >= n+2 {
				select {
				case ep.pub <- uint16(p[n])<<8 | uint16(p[n+1]):
				default:
				}
			}
		}
	}
	ep.conn.onWrite = func(c *c16Conn, typ byte) {
		switch typ {
		case 0xE0:
			atomic.StoreInt32(&ep.disc, 1)
		case 0x10:
			wroteOnce.Do(func() { close(ep.wrote) })
			r.tl.tev(k, fmt.Sprintf("(TPeerAck 0 %d)", refuse))
			if refuse != 0 {
				// the caller of a refused Connect closes the transport (reconnclient.go:156)
				r.tl.tev(k, "TCallClose")
			}
			c.send([]byte{0x20, 2, 0, byte(refuse)})
		case 0x50:
			select {
			case ep.pubrec <- struct{}{}:
			default:
			}
		case 0xC0:
			if atomic.LoadInt32(&ep.answer) == 1 {
				c.send([]byte{0xD0, 0})
			}
			select {
			case ep.ping <- struct{}{}:
			default:
			}
		}
	}
	ep.cli = &mqtt.BaseClient{Transport: ep.conn}
	var once sync.Once
	ep.cli.ConnState = func(st mqtt.ConnState, err error) {
		r.tl.tev(k, fmt.Sprintf("(TCb %s %s)", c16State(st), c16Err(err)))
		c16Look(r.tl, k, ep.cli)
		if k%2 == 1 && (st == mqtt.StateClosed || st == mqtt.StateDisconnected) {
			ep.cli.Handle(nil)
		}
		if st == mqtt.StateClosed {
			ep.mu.Lock()
			ep.closedE = err
			ep.mu.Unlock()
		}
		r.tl.tev(k, fmt.Sprintf("(TCbRet %s)", c16State(st)))
		if st == mqtt.StateActive {
			once.Do(func() { close(ep.active) })
		}
	}
	r.epochs = append(r.epochs, ep)
	r.mu.Unlock()
	if k > 0 {
		r.tl.sys("SDial")
	}
	r.tl.tev(k, "TCallConnect")
	r.newEp <- ep
	return ep.cli, nil
}

// waitDone waits until Done() of this connection is closed.
func (ep *c16Epoch) waitDone(what string) error {
	if err := c16WaitCh(ep.wrote, what+" (CONNECT not written)"); err != nil {
		return err
	}
	var done <-chan struct{}
	if !c16Guard(func() { done = ep.cli.Done() }) {
		return fmt.Errorf("stuck: Done() did not return (%s)", what)
	}
	return c16WaitCh(done, what)
}

func c16WaitCh(ch <-chan struct{}, what string) error {
	select {
	case <-ch:
		return nil
	case <-time.After(c16Limit()):
		atomic.AddInt32(&c16Expired, 1)
		return fmt.Errorf("stuck: %s", what)
	}
}

func (r *c16RC) nextEpoch(what string) (*c16Epoch, error) {
	select {
	case ep := <-r.newEp:
		return ep, nil
	case <-time.After(c16Limit()):
		atomic.AddInt32(&c16Expired, 1)
		return nil, fmt.Errorf("stuck: %s", what)
	}
}

func c16ConnectLabels(t *c16Timeline, k int, code int) {
	t.step(k, "LConnStart")
	t.step(k, "(LConnWrite true)")
	t.step(k, fmt.Sprintf("(connack_label 0 [0; %d])", code))
	t.step(k, "LConnSeeAck")
	if code == 0 {
		t.step(k, "LConnActive")
	}
}

func c16ExitLabels(t *c16Timeline, k int) {
	for _, l := range []string{"LExitClose", "LExitStore", "LExitUpdate", "LExitDone"} {
		t.step(k, l)
	}
}

type c16RCResult struct {
	items     []string
	human     []string
	stuck     string
	disturbed bool // more or fewer connections than the scenario plans (e.g. a spurious ping timeout on a stalled machine)
}

const c16Ping = 5 * time.Millisecond
const c16OptPing = 25 * time.Millisecond // kind "opts": its default Timeout is the same 25 ms

// c16RunRC runs one scenario of the reconnecting client. kind:
//
//	"ka_timeout"           connection 0: PINGREQ never answered -> keep-alive timeout; connection 1 healthy; Disconnect
//	"stale_ka"             connection 0 healthy, cut by the peer while idle; connection 1 healthy; sampled >= 60 ms later; Disconnect; sampled again
//	"refused"              connection 0: CONNACK refused (code); connection 1 healthy; Disconnect
//	"ack_write_fail"       connection 0 healthy; inbound QoS 2, the PUBCOMP write fails (reads still work); connection 1 healthy
//	"graceful_late"        healthy, Disconnect, sampled >= 60 ms (12 ping intervals) later
//	"opts"                 option-presence sweep (code = bits {CONNECT keep-alive, WithPingInterval, WithTimeout}) on a healthy peer, then Disconnect
//	"ka_graceful_inflight" PINGREQ in flight (never answered, long timeout) when Disconnect is called
//	"graceful_pub_inflight" a QoS 1 PUBLISH is in flight (PUBACK withheld) when Disconnect is called: the DISCONNECT is queued
//	                       behind it in the RetryClient; the peer sends the PUBACK only 1.5 s after the call of Disconnect
func c16RunRC(kind string, code int) (res c16RCResult) {
	tl := &c16Timeline{}
	r := &c16RC{tl: tl, newEp: make(chan *c16Epoch, 16)}
	timeout := 2 * time.Second
	switch kind {
	case "ka_timeout":
		r.plan = func(k int) (bool, int) { return k > 0, 0 }
		timeout = 2 * c16Ping
	case "refused":
		r.plan = func(k int) (bool, int) {
			if k == 0 {
				return true, code
			}
			return true, 0
		}
	case "ka_graceful_inflight":
		r.plan = func(k int) (bool, int) { return false, 0 }
	default:
		r.plan = func(k int) (bool, int) { return true, 0 }
	}
	ropts := []mqtt.ReconnectOption{mqtt.WithPingInterval(c16Ping), mqtt.WithTimeout(timeout), mqtt.WithReconnectWait(time.Millisecond, time.Millisecond)}
	var copts []mqtt.ConnectOption
	optPing := time.Duration(0) // kind "opts": the ping interval in effect (0: no keep-alive goroutine)
	if kind == "opts" {
		// presence sweep of {CONNECT keep-alive (1 s), WithPingInterval (25 ms), WithTimeout (2 s)} = bits 1, 2, 4 of code;
		// whatever is absent takes the library's default (reconnclient.go:70-75)
		ropts = []mqtt.ReconnectOption{mqtt.WithReconnectWait(time.Millisecond, time.Millisecond)}
		if code&1 != 0 {
			copts = append(copts, mqtt.WithKeepAlive(1))
			optPing = time.Second
		}
		if code&2 != 0 {
			ropts = append(ropts, mqtt.WithPingInterval(c16OptPing))
			optPing = c16OptPing
		}
		if code&4 != 0 {
			ropts = append(ropts, mqtt.WithTimeout(2*time.Second))
		}
	}
	rc, err := mqtt.NewReconnectClient(mqtt.DialerFunc(r.dial), ropts...)
	if err != nil {
		res.stuck = err.Error()
		return
	}
	ctx, cancel := ctxTimeout(3 * c16Wait)
	defer cancel()
	discCalled := false
	fail := func(e error) c16RCResult {
		tl.tev(0, "TStuck")
		tl.add("", e.Error())
		res.items, res.human = tl.snapshot()
		res.stuck = e.Error()
		if !discCalled { // a second ReconnectClient.Disconnect panics (close of a closed channel)
			go rc.Disconnect(ctx)
		}
		return res
	}
	connRes := make(chan error, 1)
	go func() {
		_, err := rc.Connect(ctx, "cid", copts...)
		connRes <- err
	}()
	ep0, err := r.nextEpoch("first dial")
	if err != nil {
		return fail(err)
	}
	last := ep0
	var pubID uint16
	switch kind {
	case "ka_timeout":
		tl.tev(0, "TKATimeout")
		if err := c16WaitCh(ep0.active, "connection 0 Active"); err != nil {
			return fail(err)
		}
		c16ConnectLabels(tl, 0, 0)
		tl.step(0, "LKAStart")
		if err := ep0.waitDone("connection 0 ends by keep-alive timeout"); err != nil {
			return fail(err)
		}
		tl.step(0, "(LKAFail EPingTimeout)")
		tl.step(0, "LKACheck")
		tl.step(0, "LKASet")
		tl.step(0, "LKAClose")
		tl.step(0, "(LServeFail ELocalClosed)")
		c16ExitLabels(tl, 0)
		if !c16Sample(tl, 0, ep0.cli) {
			return fail(errors.New("stuck: Err()/Done() did not return"))
		}
	case "refused":
		if err := ep0.waitDone("refused connection 0 is closed by the loop"); err != nil {
			return fail(err)
		}
		c16ConnectLabels(tl, 0, code)
		tl.step(0, "LLocalClose")
		tl.step(0, "(LServeFail ELocalClosed)")
		c16ExitLabels(tl, 0)
		if !c16Sample(tl, 0, ep0.cli) {
			return fail(errors.New("stuck: Err()/Done() did not return"))
		}
	case "stale_ka", "ack_write_fail":
		if err := c16WaitCh(ep0.active, "connection 0 Active"); err != nil {
			return fail(err)
		}
		c16ConnectLabels(tl, 0, 0)
		tl.step(0, "LKAStart")
		time.Sleep(3 * c16Ping)
		if !c16Sample(tl, 0, ep0.cli) {
			return fail(errors.New("stuck: Err()/Done() did not return"))
		}
		cause := "EEOF"
		if kind == "stale_ka" {
			tl.tev(0, "(TPeerEnd EEOF)")
			ep0.conn.finish()
		} else {
			// inbound QoS 2 exchange whose PUBCOMP cannot be written: the sending direction of
			// the transport breaks after PUBREC, receiving still works
			cause = "EWriteFail"
			ep0.conn.send(encPublish(inMsg{Topic: []byte("t"), ID: 7, QoS: 2, Payload: []byte{1}}))
			if err := c16WaitCh(ep0.pubrec, "PUBREC for the inbound QoS 2 PUBLISH"); err != nil {
				return fail(err)
			}
			tl.tev(0, "(TPeerEnd EWriteFail)")
			atomic.StoreInt32(&ep0.conn.failAcks, 1)
			ep0.conn.send(encID(0x62, 7))
		}
		if err := ep0.waitDone("connection 0 ends after " + cause); err != nil {
			return fail(err)
		}
		// the keep-alive of connection 0 may have failed on the closed transport before the
		// exit path stored EOF (narrow, legitimate): the Closed callback tells which
		ep0.mu.Lock()
		ce := ep0.closedE
		ep0.mu.Unlock()
		if c16Err(ce) == "(Some ELocalClosed)" {
			tl.step(0, "(LServeFail "+cause+")")
			tl.step(0, "LExitClose")
			tl.step(0, "(LKAFail ELocalClosed)")
			tl.step(0, "LKACheck")
			tl.step(0, "LKASet")
			tl.step(0, "LExitStore")
			tl.step(0, "LExitUpdate")
			tl.step(0, "LExitDone")
		} else {
			tl.step(0, "(LServeFail "+cause+")")
			c16ExitLabels(tl, 0)
		}
		if !c16Sample(tl, 0, ep0.cli) {
			return fail(errors.New("stuck: Err()/Done() did not return"))
		}
	}
	if kind == "ka_timeout" || kind == "refused" || kind == "stale_ka" || kind == "ack_write_fail" {
		ep1, err := r.nextEpoch("second dial")
		if err != nil {
			return fail(err)
		}
		if err := c16WaitCh(ep1.active, "connection 1 Active"); err != nil {
			return fail(err)
		}
		tl.step(0, "LCtxCancel")
		c16ConnectLabels(tl, 1, 0)
		tl.step(1, "LKAStart")
		if !c16Sample(tl, 1, ep1.cli) {
			return fail(errors.New("stuck: Err()/Done() did not return"))
		}
		// give the stale keep-alive goroutine of connection 0 ample time (lower bound only)
		time.Sleep(12 * c16Ping)
		if kind == "stale_ka" || kind == "ack_write_fail" {
			ep0.mu.Lock()
			ce := ep0.closedE
			ep0.mu.Unlock()
			if c16Err(ce) != "(Some ELocalClosed)" {
				tl.step(0, "(LKAFail ECtxCanceled)")
				tl.step(0, "LKACheck")
			}
		}
		if !c16Sample(tl, 1, ep1.cli) {
			return fail(errors.New("stuck: Err()/Done() did not return"))
		}
		c16Sample(tl, 0, ep0.cli)
		last = ep1
	} else {
		if err := c16WaitCh(ep0.active, "connection 0 Active"); err != nil {
			return fail(err)
		}
		c16ConnectLabels(tl, 0, 0)
		if kind != "opts" || optPing > 0 {
			tl.step(0, "LKAStart")
		}
		switch {
		case kind == "ka_graceful_inflight":
			if err := c16WaitCh(ep0.ping, "first PINGREQ"); err != nil {
				return fail(err)
			}
		case kind == "graceful_pub_inflight":
			var errPub error
			if !c16Guard(func() {
				errPub = rc.Publish(ctx, &mqtt.Message{Topic: "a", QoS: mqtt.QoS1, Payload: []byte("x")})
			}) {
				return fail(fmt.Errorf("stuck: ReconnectClient.Publish does not return"))
			}
			if errPub != nil {
				return fail(fmt.Errorf("ReconnectClient.Publish: %v", errPub))
			}
			select {
			case pubID = <-ep0.pub:
			case <-time.After(c16Limit()):
				atomic.AddInt32(&c16Expired, 1)
				return fail(fmt.Errorf("stuck: the QoS 1 PUBLISH is not written"))
			}
		case kind == "opts":
			// a healthy peer that answers every PINGREQ at once, watched for several ping
			// intervals: nothing may be reported, Err() nil, Done() open, one dial
			n, every := 4, c16OptPing
			if optPing == time.Second && cfgThorough {
				n, every = 9, 250*time.Millisecond // 2.25 s: two pings of the 1 s default
			}
			for i := 0; i < n; i++ {
				time.Sleep(every)
				if !c16Sample(tl, 0, ep0.cli) {
					return fail(errors.New("stuck: Err()/Done() did not return"))
				}
			}
		default:
			time.Sleep(3 * c16Ping)
		}
		if !c16Sample(tl, 0, ep0.cli) {
			return fail(errors.New("stuck: Err()/Done() did not return"))
		}
	}
	select {
	case err := <-connRes:
		if err != nil {
			return fail(fmt.Errorf("ReconnectClient.Connect: %v", err))
		}
	case <-time.After(c16Limit()):
		atomic.AddInt32(&c16Expired, 1)
		return fail(fmt.Errorf("stuck: ReconnectClient.Connect does not return"))
	}
	// graceful Disconnect of the current connection
	k := last.k
	tl.tev(k, "TCallDisconnect")
	discLabels := func() {
		tl.sys("SDiscRequest")
		tl.step(k, "LDiscUpdate")
		tl.step(k, "(LDiscWrite true)")
		tl.tev(k, "TDiscClose")
		tl.step(k, "LDiscClose")
	}
	if kind != "graceful_pub_inflight" {
		discLabels()
	}
	called := time.Now()
	discCalled = true
	var errDisc error
	if !c16Guard(func() { errDisc = rc.Disconnect(ctx) }) {
		return fail(fmt.Errorf("stuck: ReconnectClient.Disconnect does not return"))
	}
	if errDisc != nil {
		return fail(fmt.Errorf("ReconnectClient.Disconnect: %v", errDisc))
	}
	if kind == "graceful_pub_inflight" {
		// Disconnect of the reconnecting client has returned nil; BaseClient.Disconnect is still
		// queued behind the PUBLISH that waits for its PUBACK. The connection must stay as it is
		// (nothing reported, Err() nil, Done() open) until the peer acknowledges, 1.5 s after the
		// call; then the queued Disconnect runs: DISCONNECT written, Disconnected, Err() nil.
		for _, at := range []time.Duration{500 * time.Millisecond, 1200 * time.Millisecond, 1500 * time.Millisecond} {
			if d := at - time.Since(called); d > 0 {
				time.Sleep(d)
			}
			if !c16Sample(tl, k, last.cli) {
				return fail(errors.New("stuck: Err()/Done() did not return"))
			}
		}
		discLabels()
		last.conn.send(encID(0x40, pubID))
	}
	tl.tev(k, "(TDiscRet true)")
	if err := last.waitDone("Done after Disconnect"); err != nil {
		return fail(err)
	}
	if kind == "graceful_pub_inflight" && atomic.LoadInt32(&last.disc) == 0 {
		// an observation, not an expired wait: Disconnect was called and returned nil, the
		// connection has ended, and no DISCONNECT was written to the peer (it would publish the Will)
		return fail(errors.New("no DISCONNECT was written although Disconnect returned nil and Done() is closed"))
	}
	tl.step(k, "(LServeFail ELocalClosed)")
	c16ExitLabels(tl, k)
	if kind == "ka_graceful_inflight" {
		tl.step(k, "(LKAFail EClosedTransport)")
		tl.step(k, "LKACheck")
	}
	tl.step(k, "LCtxCancel")
	if !c16Sample(tl, k, last.cli) {
		return fail(errors.New("stuck: Err()/Done() did not return"))
	}
	if kind == "ka_graceful_inflight" {
		time.Sleep(4 * c16Ping)
	} else {
		time.Sleep(12 * c16Ping)
	}
	want := 1
	if kind == "ka_timeout" || kind == "refused" || kind == "stale_ka" || kind == "ack_write_fail" {
		want = 2
	}
	res.disturbed = len(r.epochs) != want
	for _, ep := range r.epochs {
		tl.tev(ep.k, "TEnd")
		if !c16Sample(tl, ep.k, ep.cli) {
			return fail(errors.New("stuck: Err()/Done() did not return"))
		}
		c16OnceProbe(tl, ep.k, ep.cli)
	}
	res.items, res.human = tl.snapshot()
	return
}

// ---------------------------------------------------------------- driver

var cfgThorough bool

func runC16(cfg *runCfg) error {
	cfgThorough = cfg.tier == "thorough"
	rnd := rand.New(rand.NewSource(cfg.seed))
	cf := newCasesFile("C16", "ConnState", "CheckC16")
	m := &meta{Property: "C16", Distribution: map[string]interface{}{}, Families: map[string][]interface{}{}}
	var bc, rcCases []string
	distinct := map[string]bool{}
	nontrivial := 0
	macroCount := map[string]int{}
	stuckN := 0
	// a bc scenario in which a wait expired is re-run (same steps, same parameters) before it is
	// believed: a real blockage repeats, a stall of the machine does not. If the re-run is clean
	// the expiries of the first run are not counted.
	reruns := 0
	runBC := func(prefix []int, endKind, refuseCode, drainOrder, hmode, ackFlags, extra int, choose func(valid []int) int) c16Result {
		before := atomic.LoadInt32(&c16Expired)
		res := c16RunBC(prefix, endKind, refuseCode, drainOrder, hmode, ackFlags, extra, choose)
		if res.stuck == "" {
			return res
		}
		var steps []int
		for _, name := range res.macros {
			for i, n := range c16MacroName {
				if n == name {
					steps = append(steps, i)
				}
			}
		}
		added := atomic.LoadInt32(&c16Expired) - before
		atomic.AddInt32(&c16Expired, -added) // full limit for the re-run
		reruns++
		res2 := c16RunBC(steps, endKind, refuseCode, drainOrder, hmode, ackFlags, 0, nil)
		if res2.stuck == "" && len(res2.macros) >= len(res.macros) {
			res2.next = nil
			return res2
		}
		atomic.AddInt32(&c16Expired, added)
		return res
	}
	addBC := func(res c16Result, fam string, managed bool) {
		key := strings.Join(res.items, ";")
		if !distinct[key] {
			distinct[key] = true
			// non-trivial: at least two goroutines of the client were made to interleave, or the connection ended
			if len(res.macros) >= 4 {
				nontrivial++
			}
		}
		for _, x := range res.macros {
			macroCount[x]++
		}
		desc := map[string]interface{}{"scenario": res.macros, "timeline": res.human}
		if len(res.unexp) > 0 {
			desc["unexpected_parks"] = res.unexp
		}
		if res.stuck != "" {
			stuckN++
			desc["stuck"] = res.stuck
		}
		bc = append(bc, cTuple(cBool(managed), cListInline(res.items)))
		m.Families[fam] = append(m.Families[fam], desc)
		if len(m.Samples) < 3 && len(res.macros) >= 9 {
			m.Samples = append(m.Samples, desc)
		}
	}

	// corpus first: the schedules of the seeded changes and of the findings
	corpus := [][]int{
		// C16-1: the peer closes in reaction to DISCONNECT while Disconnect is still inside Write
		{mStartConnect, mRelCWok, mPeerAccept, mRelCA, mStartDisconnect, mRelDU, mPeerEnd, mRelSC, mRelDWok, mRelDC},
		// C16-2: the connection ends during the handshake (state New)
		{mStartConnect, mRelCWok, mPeerEnd, mRelSC, mRelSU},
		{mStartConnect, mRelCWok, mPeerRefuse, mLocalClose, mRelSC, mRelSU},
		// CONNACK accepted and closed at once while Connect is still in Write: either order of callbacks
		{mStartConnect, mPeerAccept, mPeerEnd, mRelSC, mRelSU, mRelCWok},
		// Disconnect after the end / before Connect
		{mStartConnect, mRelCWok, mPeerAccept, mRelCA, mPeerEnd, mRelSC, mRelSU, mStartDisconnect},
		{mStartDisconnect, mRelDU, mRelDWok, mRelDC, mStartConnect, mRelCWok},
	}
	fileBC, fileRC := c16LoadCorpus()
	corpus = append(corpus, fileBC...)
	skipped := 0
	for i, p := range corpus {
		for ek := 0; ek < c16EndKinds; ek++ {
			if c16GiveUp() {
				skipped++
				continue
			}
			res := runBC(p, ek, c16Codes[(i+ek)%len(c16Codes)], i, (i+ek)%2, c16Flags[(i+2*ek)%len(c16Flags)], 0, nil)
			addBC(res, "bc", false)
		}
	}
	nCorpus := len(bc)
	// sweep: every CONNACK return code byte and every acknowledge-flags byte, one small scenario each:
	// Connect must succeed iff the code is 0 (then return session present = bit 0 of the flags byte),
	// otherwise fail with a ConnectionError carrying the code and report no Active; then the peer
	// closes / the client closes and Closed is reported exactly once
	nSweep := 0
	sweep := func(code, flags, variant int) {
		if c16GiveUp() {
			skipped++
			return
		}
		ack := mPeerRefuse
		if code == 0 {
			ack = mPeerAccept
		}
		var p []int
		switch variant % 3 {
		case 0:
			p = []int{mStartConnect, mRelCWok, ack, mRelCA, mPeerEnd, mRelSC, mRelSU}
		case 1:
			p = []int{mStartConnect, mRelCWok, ack, mRelCA, mLocalClose, mRelSC, mRelSU}
		default: // CONNACK arrives while Connect is still writing
			p = []int{mStartConnect, ack, mRelCWok, mRelCA, mPeerEnd, mRelSC, mRelSU}
		}
		res := runBC(p, 0, code, 0, variant%2, flags, 0, nil)
		addBC(res, "bc", false)
		nSweep++
	}
	for code := 0; code < 256; code++ {
		sweep(code, (code*7+1)%256, code)
	}
	for flags := 0; flags < 256; flags++ {
		code := 0
		if flags%4 == 3 {
			code = 0x84
		}
		sweep(code, flags, flags+1)
	}
	// exhaustive: every valid scenario up to depth D (the kind of PeerEnd, the refusal code and the
	// handler mode are functions of the scenario, so that all of them occur)
	depth, nRand, rcReps := 5, 600, 2
	switch cfg.tier {
	case "thorough":
		depth, nRand, rcReps = 7, 8000, 6
	case "search":
		depth, nRand, rcReps = 4, 1800, 3
	}
	budget := 2400
	if cfg.tier == "thorough" {
		budget = 30000
	}
	var rec func(prefix []int)
	rec = func(prefix []int) {
		if len(bc) >= budget || c16GiveUp() {
			return
		}
		sum := 0
		for _, x := range prefix {
			sum += x + 1
		}
		hm := 0
		if sum%4 == 1 {
			hm = 1
		}
		res := runBC(prefix, sum%c16EndKinds, c16Codes[sum%len(c16Codes)], len(prefix), hm, c16Flags[(sum/3)%len(c16Flags)], 0, nil)
		if len(prefix) > 0 {
			addBC(res, "bc", false)
		}
		if len(prefix) == depth || res.stuck != "" {
			return
		}
		for _, nx := range res.next {
			rec(append(append([]int{}, prefix...), nx))
		}
	}
	rec(nil)
	nEnum := len(bc)
	// random continuation: longer scenarios, all malformed kinds and refusal codes, random drain order
	for i := 0; i < nRand; i++ {
		if c16GiveUp() {
			skipped += nRand - i
			break
		}
		// a random walk over the steps that are valid when their turn comes
		hm := 0
		if rnd.Intn(4) == 0 {
			hm = 1
		}
		res := runBC(nil, rnd.Intn(c16EndKinds), 1+rnd.Intn(255), rnd.Intn(3), hm, rnd.Intn(256), 6+rnd.Intn(10), func(v []int) int { return v[rnd.Intn(len(v))] })
		addBC(res, "bc", false)
	}
	// family rc
	rcStuck := 0
	addRC := func(kind string, code int) {
		// a scenario disturbed by the machine (stall longer than the ping timeout, wait expired)
		// is re-run, up to three times, before it is believed
		if c16GiveUp() {
			skipped++
			return
		}
		var res c16RCResult
		for try := 0; try < 3; try++ {
			res = c16RunRC(kind, code)
			if (res.stuck == "" && !res.disturbed) || c16GiveUp() {
				break
			}
		}
		desc := map[string]interface{}{"scenario": kind, "refuse_code": code, "timeline": res.human}
		if res.stuck != "" {
			rcStuck++
			desc["stuck"] = res.stuck
		}
		rcCases = append(rcCases, cTuple("true", cListInline(res.items)))
		m.Families["rc"] = append(m.Families["rc"], desc)
		macroCount["rc:"+kind]++
		nontrivial++
		if len(m.Samples) < 5 && (kind == "stale_ka" || kind == "ka_timeout") {
			m.Samples = append(m.Samples, desc)
		}
	}
	// Disconnect with a QoS 1 PUBLISH in flight (1.5 s): runs beside the other rc scenarios, it
	// mostly sleeps; collected after them
	pubInflight := make(chan c16RCResult, 1)
	if !c16GiveUp() {
		go func() {
			var res c16RCResult
			for try := 0; try < 2; try++ {
				res = c16RunRC("graceful_pub_inflight", 0)
				if (res.stuck == "" && !res.disturbed) || c16GiveUp() {
					break
				}
			}
			pubInflight <- res
		}()
	} else {
		skipped++
		close(pubInflight)
	}
	for _, e := range fileRC {
		oldP := 0
		if e.GoMaxProcs > 0 {
			oldP = runtime.GOMAXPROCS(e.GoMaxProcs)
		}
		for i := 0; i < e.Repeat; i++ {
			addRC(e.Kind, e.Code)
		}
		if e.GoMaxProcs > 0 {
			runtime.GOMAXPROCS(oldP)
		}
	}
	for rep := 0; rep < rcReps; rep++ {
		if rep == 0 {
			for mask := 0; mask < 8; mask++ {
				addRC("opts", mask)
			}
		} else {
			addRC("opts", 2) // WithPingInterval alone: Timeout must default to the ping interval
		}
		addRC("ka_timeout", 0)
		addRC("ack_write_fail", 0)
		addRC("stale_ka", 0)
		addRC("graceful_late", 0)
		for code := 1; code <= 5; code++ {
			if rep == 0 || code == 1+rep%5 {
				addRC("refused", code)
			}
		}
	}
	// PINGREQ in flight at Disconnect: the losing order of the race is near-certain with one P
	old := runtime.GOMAXPROCS(1)
	for i := 0; i < 6*rcReps; i++ {
		addRC("ka_graceful_inflight", 0)
	}
	runtime.GOMAXPROCS(old)
	for i := 0; i < 2*rcReps; i++ {
		addRC("ka_graceful_inflight", 0)
	}
	if res, ok := <-pubInflight; ok {
		desc := map[string]interface{}{"scenario": "graceful_pub_inflight", "refuse_code": 0, "timeline": res.human,
			"replay": "ReconnectClient over an in-memory dialer; Connect; Publish QoS 1, the peer withholds the PUBACK; Disconnect (returns nil); the peer sends the PUBACK 1.5 s after the call; expected: callbacks Active, Disconnected; Err() nil after Done(); DISCONNECT written"}
		if res.stuck != "" {
			rcStuck++
			desc["stuck"] = res.stuck
		}
		rcCases = append(rcCases, cTuple("true", cListInline(res.items)))
		m.Families["rc"] = append(m.Families["rc"], desc)
		macroCount["rc:graceful_pub_inflight"]++
		nontrivial++
	}

	cf.def("bc_cases", "list c16_case", cList(bc))
	cf.def("rc_cases", "list c16_case", cList(rcCases))
	cf.result("V_bc", "c16_violations bc_cases")
	cf.result("M_bc", "c16_model_mismatches bc_cases")
	cf.result("V_rc", "c16_violations rc_cases")
	cf.result("M_rc", "c16_model_mismatches rc_cases")
	m.Evaluations = len(bc) + len(rcCases)
	m.DistinctNontrivial = nontrivial
	m.Rule = fmt.Sprintf("family bc: a real BaseClient over a gated in-memory transport; every valid scenario of up to %d macro steps over {start Connect, let the CONNECT write succeed/fail, peer sends accepting/refusing CONNACK, peer closes, Close(), release the reader's Transport.Close / the Closed, Active, Disconnected callbacks, start Disconnect, let the DISCONNECT write succeed/fail, let Disconnect close, cancel Connect's context}, each completed by releasing everything; plus %d random scenarios of 5-14 steps with all malformed-packet kinds and refusal codes 1-5 and three completion orders; Err() and Done() polled after every step (also inside callbacks). family rc: the real ReconnectClient with an in-memory dialer (ping 5 ms): keep-alive timeout, idle cut then healthy connection sampled >= 60 ms later, refused CONNACK codes 1-5, graceful Disconnect sampled >= 60 ms later, Disconnect with a PINGREQ in flight (GOMAXPROCS 1 and default), Disconnect with a QoS 1 PUBLISH in flight whose PUBACK the peer sends 1.5 s after the call (one case). non-trivial = distinct bc timeline with >= 4 macro steps, or any rc scenario", depth, nRand)
	m.Distribution["bc_corpus"] = nCorpus
	m.Distribution["bc_connack_sweep"] = nSweep
	m.Distribution["bc_enumerated"] = nEnum - nCorpus - nSweep
	m.Distribution["bc_random"] = len(bc) - nEnum
	m.Distribution["rc"] = len(rcCases)
	m.Distribution["distinct_bc_timelines"] = len(distinct)
	m.Distribution["macro_steps"] = macroCount
	m.Distribution["scenarios_in_which_a_wait_expired"] = stuckN + rcStuck
	m.Distribution["waits_expired"] = atomic.LoadInt32(&c16Expired)
	m.Distribution["bc_scenarios_rerun_after_an_expired_wait"] = reruns
	m.Distribution["scenarios_skipped_after_expired_waits"] = skipped
	m.Exhaustive = true
	if err := cf.write(cfg.outDir); err != nil {
		return err
	}
	return m.write(cfg.outDir)
}

// ---------------------------------------------------------------- committed corpus (corpus/C16/*.json)

type c16CorpusRC struct {
	Kind       string `json:"kind"`
	Code       int    `json:"code"`
	GoMaxProcs int    `json:"gomaxprocs"`
	Repeat     int    `json:"repeat"`
}

type c16CorpusFile struct {
	BC []struct {
		Name   string   `json:"name"`
		Macros []string `json:"macros"`
	} `json:"bc"`
	RC []c16CorpusRC `json:"rc"`
}

func c16LoadCorpus() (bc [][]int, rc []c16CorpusRC) {
	root := os.Getenv("VERIF_ROOT")
	if root == "" {
		return nil, nil
	}
	files, _ := filepath.Glob(filepath.Join(root, "corpus", "C16", "*.json"))
	sort.Strings(files)
	kinds := map[string]bool{"opts": true, "ack_write_fail": true, "ka_timeout": true, "stale_ka": true, "refused": true, "graceful_late": true, "ka_graceful_inflight": true}
	for _, f := range files {
		b, err := os.ReadFile(f)
		if err != nil {
			continue
		}
		var cf c16CorpusFile
		if json.Unmarshal(b, &cf) != nil {
			continue
		}
		for _, e := range cf.BC {
			var p []int
			for _, name := range e.Macros {
				for i, n := range c16MacroName {
					if n == name {
						p = append(p, i)
					}
				}
			}
			if len(p) > 0 {
				bc = append(bc, p)
			}
		}
		for _, e := range cf.RC {
			if kinds[e.Kind] {
				if e.Repeat <= 0 {
					e.Repeat = 1
				}
				if e.Kind == "opts" {
					e.Code &= 7
				}
				if e.Kind == "refused" && (e.Code < 1 || e.Code > 5) {
					e.Code = 5
				}
				rc = append(rc, e)
			}
		}
	}
	return
}
