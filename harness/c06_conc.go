package main

// C06 (child process):
//
//   burst — the placement "in the same burst as CONNACK": the broker's CONNECT handler queues
//           CONNACK + the stream + EOF at once, and the goroutine that called Connect is held right
//           after its CONNECT write (a context whose Done() blocks: Connect evaluates ctx.Done()
//           when it enters its select) until the reader has handled everything and the link is
//           down. Err(), the state callback and Done() are judged exactly as for streams sent later.
//
//   conc  — K goroutines keep issuing requests of every kind on one connected BaseClient while the
//           broker, for every packet the client writes, answers the solicited acknowledgement and a
//           handful of unsolicited acknowledgements of every kind: look-ups on the reader goroutine
//           overlap registrations on the calling goroutines for a fixed time budget. A runtime
//           fatal error (concurrent map access) kills the child and is attributed to the scenario.

import (
	"context"
	"fmt"
	"sync"
	"sync/atomic"
	"time"

	mqtt "github.com/at-wat/mqtt-go"
)

// c06HoldCtx: Done() blocks until released, then returns a channel that is never closed
type c06HoldCtx struct {
	entered chan struct{}
	release chan struct{}
	once    sync.Once
}

func newC06HoldCtx() *c06HoldCtx {
	return &c06HoldCtx{entered: make(chan struct{}), release: make(chan struct{})}
}
func (h *c06HoldCtx) Deadline() (time.Time, bool) { return time.Time{}, false }
func (h *c06HoldCtx) Done() <-chan struct{} {
	h.once.Do(func() { close(h.entered) })
	<-h.release
	return nil
}
func (h *c06HoldCtx) Err() error                        { return nil }
func (h *c06HoldCtx) Value(key interface{}) interface{} { return nil }

func c06RunStreamBurst(handler bool, mpl int, stream []byte) c06StreamObs {
	o := c06StreamObs{Survived: true}
	var mu sync.Mutex
	var states []string
	var events []sessEvent
	conn := newMemConn(1, nil)
	conn.onWrite = func(c *memConn, pkt []byte) error {
		if pkt[0]&0xF0 == 0x10 {
			c.send(append(append([]byte{}, connackOK...), stream...))
			c.finish()
			return nil
		}
		mu.Lock()
		events = append(events, sessEvent{Kind: "write", Pkt: pkt})
		mu.Unlock()
		return nil
	}
	cli := &mqtt.BaseClient{Transport: conn, MaxPayloadLen: mpl}
	cli.ConnState = func(st mqtt.ConnState, err error) {
		mu.Lock()
		states = append(states, fmt.Sprintf("%s:%s", st, errClass(err)))
		mu.Unlock()
	}
	if handler {
		cli.Handle(mqtt.HandlerFunc(func(m *mqtt.Message) {
			cp := *m
			cp.Payload = append([]byte{}, m.Payload...)
			mu.Lock()
			events = append(events, sessEvent{Kind: "hand", Msg: &cp})
			mu.Unlock()
		}))
	}
	hold := newC06HoldCtx()
	connRes := make(chan error, 1)
	go func() {
		_, err := cli.Connect(hold, "cid")
		connRes <- err
	}()
	// the caller of Connect is parked after its write, before it looks at CONNACK
	select {
	case <-hold.entered:
	case <-time.After(5 * time.Second):
		close(hold.release)
		return c06StreamObs{Crash: "connect: the caller of Connect did not reach its select"}
	}
	select {
	case <-cli.Done():
		o.Done = true
	case <-time.After(20 * time.Second):
		o.Hang = true
	}
	// sampled while the caller of Connect is still held: the link ended before it became Active
	o.MaxRead = conn.maxReadLen()
	o.Err = errClass(cli.Err())
	mu.Lock()
	o.States = append([]string{}, states...)
	evs := append([]sessEvent{}, events...)
	mu.Unlock()
	close(hold.release)
	select {
	case <-connRes:
	case <-time.After(5 * time.Second):
		o.Hang = true
	}
	for _, e := range evs {
		switch e.Kind {
		case "hand":
			o.Events = append(o.Events, "Hand "+cLibMsg(e.Msg))
			o.Desc = append(o.Desc, fmt.Sprintf("hand(q%d,id%d,topic=%x,payload=%x)", e.Msg.QoS, e.Msg.ID, e.Msg.Topic, e.Msg.Payload))
		case "write":
			id := 0
			if len(e.Pkt) >= 4 {
				id = int(e.Pkt[2])<<8 | int(e.Pkt[3])
			}
			switch e.Pkt[0] {
			case 0x40:
				o.Events = append(o.Events, fmt.Sprintf("WPubAck %d", id))
			case 0x50:
				o.Events = append(o.Events, fmt.Sprintf("WPubRec %d", id))
			case 0x70:
				o.Events = append(o.Events, fmt.Sprintf("WPubComp %d", id))
			default:
				o.Events = append(o.Events, "WPubAck 99999")
			}
			o.Desc = append(o.Desc, fmt.Sprintf("write(%x)", e.Pkt))
		}
	}
	return o
}

// ---------- conc ----------

type c06ConcObs struct {
	Survived    bool     `json:"survived"`
	Stuck       []string `json:"stuck"`
	Requests    int64    `json:"requests_returned"`
	Errors      int64    `json:"requests_returned_an_error"`
	Solicited   int64    `json:"solicited_acks_sent"`
	Unsolicited int64    `json:"unsolicited_acks_sent"`
	Err         string   `json:"err"`
	States      []string `json:"states"`
	Done        bool     `json:"done"`
	Crash       string   `json:"crash,omitempty"`
}

func c06RunConc(workers int, budgetMs int) c06ConcObs {
	o := c06ConcObs{Survived: true}
	var solicited, unsolicited int64
	var seq uint32
	sessMaxPayload = 0
	s, err := newSession(true, func(s *session, pkt []byte) {
		// the solicited acknowledgement ...
		body := pkt[1:]
		for len(body) > 0 && body[0]&0x80 != 0 {
			body = body[1:]
		}
		if len(body) > 0 {
			body = body[1:]
		}
		var ack []byte
		switch pkt[0] & 0xF0 {
		case 0x30:
			if q := (pkt[0] >> 1) & 3; q > 0 && len(body) >= 2 {
				tl := int(body[0])<<8 | int(body[1])
				if len(body) >= 4+tl {
					h := byte(0x40)
					if q == 2 {
						h = 0x50
					}
					ack = []byte{h, 2, body[2+tl], body[3+tl]}
				}
			}
		case 0x60:
			ack = []byte{0x70, 2, body[0], body[1]}
		case 0x80:
			_, topics, qos := c06WalkSubscribe(pkt)
			_ = topics
			ack = encFrame(0x90, append([]byte{body[0], body[1]}, qos...))
		case 0xA0:
			ack = []byte{0xB0, 2, body[0], body[1]}
		case 0xC0:
			ack = []byte{0xD0, 0}
		}
		// ... and unsolicited acknowledgements of every kind (identifiers nobody waits for, or
		// that somebody is just registering)
		n := atomic.AddUint32(&seq, 1)
		var burst []byte
		burst = append(burst, ack...)
		for k := uint32(0); k < 6; k++ {
			id := uint16(n*7 + k*131)
			switch (n + k) % 6 {
			case 0:
				burst = append(burst, 0x40, 2, byte(id>>8), byte(id))
			case 1:
				burst = append(burst, 0x50, 2, byte(id>>8), byte(id))
			case 2:
				burst = append(burst, 0x70, 2, byte(id>>8), byte(id))
			case 3:
				burst = append(burst, 0x90, 3, byte(id>>8), byte(id), byte(k%3))
			case 4:
				burst = append(burst, 0xB0, 2, byte(id>>8), byte(id))
			default:
				burst = append(burst, 0xD0, 0)
			}
		}
		if ack != nil {
			atomic.AddInt64(&solicited, 1)
		}
		atomic.AddInt64(&unsolicited, 6)
		s.conn.send(burst)
	})
	if err != nil {
		return c06ConcObs{Crash: "connect: " + err.Error()}
	}
	stop := make(chan struct{})
	var wg sync.WaitGroup
	var reqs, errs int64
	for w := 0; w < workers; w++ {
		w := w
		wg.Add(1)
		go func() {
			defer wg.Done()
			for i := 0; ; i++ {
				select {
				case <-stop:
					return
				default:
				}
				ctx, cancel := context.WithTimeout(context.Background(), 500*time.Millisecond)
				var e error
				switch (w + i) % 5 {
				case 0:
					e = s.cli.Publish(ctx, &mqtt.Message{Topic: "c", QoS: mqtt.QoS1, Payload: []byte{byte(i)}})
				case 1:
					e = s.cli.Publish(ctx, &mqtt.Message{Topic: "c", QoS: mqtt.QoS2, Payload: []byte{byte(i)}})
				case 2:
					_, e = s.cli.Subscribe(ctx, mqtt.Subscription{Topic: "f", QoS: mqtt.QoS(i % 3)})
				case 3:
					e = s.cli.Unsubscribe(ctx, "f")
				default:
					e = s.cli.Publish(ctx, &mqtt.Message{Topic: "c", QoS: mqtt.QoS0})
				}
				cancel()
				atomic.AddInt64(&reqs, 1)
				if e != nil {
					atomic.AddInt64(&errs, 1)
				}
			}
		}()
	}
	// the fixed time budget of the stress (the only timer that is not a failure limit)
	<-time.After(time.Duration(budgetMs) * time.Millisecond)
	close(stop)
	all := make(chan struct{})
	go func() { wg.Wait(); close(all) }()
	select {
	case <-all:
	case <-time.After(10 * time.Second):
		o.Stuck = append(o.Stuck, "a request did not return within 10 s after the stress stopped")
	}
	s.conn.finish()
	if s.waitDone(20 * time.Second) {
		o.Done = true
	} else {
		o.Stuck = append(o.Stuck, "link did not end after the peer closed")
	}
	o.Requests, o.Errors = atomic.LoadInt64(&reqs), atomic.LoadInt64(&errs)
	o.Solicited, o.Unsolicited = atomic.LoadInt64(&solicited), atomic.LoadInt64(&unsolicited)
	o.Err = errClass(s.cli.Err())
	s.mu.Lock()
	o.States = append([]string{}, s.states...)
	s.mu.Unlock()
	return o
}
