package main

// C11 — every blocking call returns when its context is cancelled or the connection ends.
//
// The matrix call × program point × cause of Calls.v is executed exhaustively on the real client on
// every run. Every scenario runs in a child process (a panic inside a library goroutine cannot be
// recovered in-process; it is attributed to the exact cell). Scheduling uses observations only: a call
// is known to be parked when its request packet has appeared on the wire (the scripted peer withholds
// exactly the answer the call waits for), a call is known to wait for the connect lock when a goroutine
// with library frames sits in sync.(*RWMutex).RLock. Every wait has a 5 s limit whose expiry is the
// observation "stuck".

import (
	"bufio"
	"context"
	"encoding/json"
	"errors"
	"fmt"
	"io"
	"math/rand"
	"net"
	"os"
	"os/exec"
	"regexp"
	"runtime"
	"sort"
	"strings"
	"sync"
	"sync/atomic"
	"syscall"
	"time"

	mqtt "github.com/at-wat/mqtt-go"
)

func init() {
	register("C11", runC11)
	register("C11child", runC11Child)
}

const c11Wait = 5 * time.Second

var c11WaitScale = 1 // raised by C11_WAIT_SCALE for experiments

// Hard budget. Every wait goes through c11Clamp: once two waits have run into their limit in this process
// (never on a healthy tree) the remaining ones are cut to c11ShortWait, so that a broken tree is reported in
// minutes. Expired waits are observations ("stuck"), never errors of the harness.
const c11ShortWait = time.Second

var c11Expiries int32

func c11Limit() time.Duration { return c11Clamp(c11Wait * time.Duration(c11WaitScale)) }

func c11Clamp(d time.Duration) time.Duration {
	if atomic.LoadInt32(&c11Expiries) >= 2 && d > c11ShortWait {
		return c11ShortWait
	}
	return d
}

func c11Expired(d time.Duration) {
	if d >= time.Second {
		atomic.AddInt32(&c11Expiries, 1)
	}
}

// c11CloseG calls cli.Close() without trusting it to return (or not to panic)
func c11CloseG(cli *mqtt.BaseClient, stuck *string) {
	r, ok := c11Await(c11Go(func() error { cli.Close(); return nil }), c11Limit())
	switch {
	case !ok:
		*stuck += "Close() did not return "
	case r.panicked != "":
		*stuck += "Close() panicked: " + r.panicked + " "
	}
}

// the retry handle under test in the current scenario (scenarios run one at a time in the child)
var c11Handle mqtt.ErrorWithRetry

var c11RetryCalls = map[string]string{"rpub1": "pub1", "rpub1x": "pub1", "rpub2": "pub2", "rpub2x": "pub2", "rrel": "rel", "rrelx": "rel",
	"rsub": "sub", "rsubx": "sub", "runsub": "unsub", "runsubx": "unsub"}

var c11LockWaitAbsent bool // no call was ever seen waiting in RWMutex.RLock (library changed its locking)

type c11Spec struct {
	Fam    string   `json:"fam"` // cell | seq | handler | stray | multi | reconn | cx
	Call   string   `json:"call,omitempty"`
	Point  string   `json:"point,omitempty"`
	Cause  string   `json:"cause,omitempty"`
	Calls  []string `json:"calls,omitempty"`  // multi: call@point
	Cancel []int    `json:"cancel,omitempty"` // multi: indices whose context is cancelled before the connection ends
	Phase  string   `json:"phase,omitempty"`
	Kind   string   `json:"kind,omitempty"` // stray: pingresp connack puback pubrec pubcomp suback unsuback
	IDs    string   `json:"ids,omitempty"`  // stray: consumed | unknown (pingresp: answered | timedout)
	K      int      `json:"k,omitempty"`    // stray: how many stray packets
}

type c11Res struct {
	Res    string `json:"res"` // nil ctx closed write other stuck panic
	Retry  bool   `json:"retry"`
	Detail string `json:"detail,omitempty"`
}

type c11Obs struct {
	c11Res
	Done     bool     `json:"done"`
	RExit    bool     `json:"rexit"`
	F14      bool     `json:"f14,omitempty"`              // blocked well past its own cancellation, came back only when the lock holder ended
	Leak     []string `json:"leak,omitempty"`             // goroutines with library frames left after cleanup
	LeakAt   string   `json:"leak_at,omitempty"`          // stack of the first of them
	AuxStuck string   `json:"aux_stuck,omitempty"`        // an auxiliary blocking call (lock holder, Disconnect used as cause) did not return
	All      []c11Res `json:"all,omitempty"`              // multi: every call
	LoopGone bool     `json:"loop_gone,omitempty"`        // reconn: loop goroutine gone after the scenario
	EndBad   string   `json:"end_bad,omitempty"`          // after a failed read: transport not closed by the client / Err() without the error
	TClosed  bool     `json:"tclosed,omitempty"`          // seq: the transport was closed at the end
	Mid      bool     `json:"mid,omitempty"`              // seq: the intermediate observation was as expected
	ExclRet  bool     `json:"excl_returned,omitempty"`    // handler: the exclusive-lock caller returned promptly
	HandRet  bool     `json:"handler_returned,omitempty"` // handler: the handler returned once released
	Marker   bool     `json:"marker,omitempty"`           // stray: the marker PUBLISH sent after the stray packets reached the handler
	Note     string   `json:"note,omitempty"`
	Crash    string   `json:"crash,omitempty"`
	Ms       int64    `json:"ms"` // wall time of the scenario including cleanup
}

// ---------------------------------------------------------------- goroutine inspection

const c11LibMark = "github.com/at-wat/mqtt-go."

var c11GoHdr = regexp.MustCompile(`^goroutine (\d+) \[`)

// c11LibGoroutines returns id -> stack of all goroutines having a frame of the library.
func c11LibGoroutines() map[string]string {
	buf := make([]byte, 1<<16)
	for {
		n := runtime.Stack(buf, true)
		if n < len(buf) {
			buf = buf[:n]
			break
		}
		buf = make([]byte, 2*len(buf))
	}
	out := map[string]string{}
	for _, g := range strings.Split(string(buf), "\n\n") {
		if !strings.Contains(g, c11LibMark) {
			continue
		}
		m := c11GoHdr.FindStringSubmatch(g)
		if m == nil {
			continue
		}
		out[m[1]] = g
	}
	return out
}

func c11TopLibFrame(stack string) string {
	for _, l := range strings.Split(stack, "\n") {
		if strings.HasPrefix(l, c11LibMark) {
			if i := strings.LastIndex(l, "("); i > 0 {
				return strings.TrimPrefix(l[:i], c11LibMark)
			}
			return l
		}
	}
	return "?"
}

type c11Scope struct{ base map[string]string }

func c11NewScope() *c11Scope { return &c11Scope{base: c11LibGoroutines()} }

// count goroutines started since the scope began whose stack satisfies pred
func (sc *c11Scope) find(pred func(string) bool) []string {
	var out []string
	for id, st := range c11LibGoroutines() {
		if _, old := sc.base[id]; old {
			continue
		}
		if pred == nil || pred(st) {
			out = append(out, c11TopLibFrame(st))
		}
	}
	sort.Strings(out)
	return out
}

// waitNone polls until no such goroutine exists (observation, not a sleep-based schedule)
func (sc *c11Scope) waitNone(pred func(string) bool, d time.Duration) (bool, []string) {
	d = c11Clamp(d)
	deadline := time.Now().Add(d)
	for {
		l := sc.find(pred)
		if len(l) == 0 {
			return true, nil
		}
		if time.Now().After(deadline) {
			c11Expired(d)
			return false, l
		}
		time.Sleep(time.Millisecond)
	}
}

// stackOfNew returns the stack of one goroutine born in the scope that has library frames
func (sc *c11Scope) stackOfNew() string {
	for id, st := range c11LibGoroutines() {
		if _, old := sc.base[id]; !old {
			var keep []string
			for _, l := range strings.Split(st, "\n") {
				if strings.HasPrefix(l, "\t") {
					// keep "file.go:line" of the frame
					l = strings.TrimSpace(l)
					if i := strings.LastIndex(l, "/"); i >= 0 {
						l = l[i+1:]
					}
					if i := strings.Index(l, " "); i >= 0 {
						l = l[:i]
					}
					l = "@" + l
				}
				keep = append(keep, l)
			}
			if len(keep) > 16 {
				keep = keep[:16]
			}
			return strings.Join(keep, " | ")
		}
	}
	return ""
}

func (sc *c11Scope) waitSome(pred func(string) bool, d time.Duration) bool {
	d = c11Clamp(d)
	deadline := time.Now().Add(d)
	for {
		if len(sc.find(pred)) > 0 {
			return true
		}
		if time.Now().After(deadline) {
			return false
		}
		time.Sleep(200 * time.Microsecond)
	}
}

func c11IsReader(st string) bool {
	return strings.Contains(st, "(*BaseClient).serve") || strings.Contains(st, "(*BaseClient).Connect.func1")
}

func c11IsLoop(st string) bool { return strings.Contains(st, "(*reconnectClient).Connect.func1") }

// the reconnect loop goroutine parked in a select of its own (not inside Dial / Connect / Done)
func c11LoopInBackoff(st string) bool {
	lines := strings.Split(st, "\n")
	return len(lines) >= 2 && strings.Contains(lines[0], "[select") &&
		strings.HasPrefix(lines[1], c11LibMark+"(*reconnectClient).Connect.func1(")
}

func c11InRLock(st string) bool {
	return strings.Contains(st, "sync.(*RWMutex).RLock") || strings.Contains(st, "sync.(*RWMutex).Lock")
}

// ---------------------------------------------------------------- transport whose Read can fail

// c11ErrConn is the memConn with a Read that can be made to fail once with a chosen error value while neither
// side has closed the stream (afterwards Read blocks again, as on a stream that is still open).
type c11ErrConn struct {
	*memConn
	readErr error
}

func (w *c11ErrConn) Read(p []byte) (int, error) {
	c := w.memConn
	c.mu.Lock()
	defer c.mu.Unlock()
	c.reads++
	if len(p) > c.maxRead {
		c.maxRead = len(p)
	}
	for len(c.in) == 0 && !c.closed && !c.eof && w.readErr == nil {
		c.cond.Wait()
	}
	if len(c.in) > 0 {
		n := copy(p, c.in)
		c.in = c.in[n:]
		return n, nil
	}
	if w.readErr != nil {
		err := w.readErr
		w.readErr = nil
		return 0, err
	}
	return 0, io.EOF
}

type c11TempErr struct{}

func (c11TempErr) Error() string   { return "transport: temporary failure" }
func (c11TempErr) Temporary() bool { return true }

type c11TimeoutErr struct{}

func (c11TimeoutErr) Error() string { return "transport: timed out" }
func (c11TimeoutErr) Timeout() bool { return true }

var c11ReadErrs = map[string]error{
	"readerr_plain":     errors.New("transport: read failed"),
	"readerr_unexpeof":  io.ErrUnexpectedEOF,
	"readerr_deadline":  os.ErrDeadlineExceeded,
	"readerr_etimedout": &net.OpError{Op: "read", Net: "tcp", Err: syscall.ETIMEDOUT},
	"readerr_temporary": c11TempErr{},
	"readerr_timeout":   c11TimeoutErr{},
}

var c11ReadErrNames = []string{"readerr_plain", "readerr_unexpeof", "readerr_deadline", "readerr_etimedout", "readerr_temporary", "readerr_timeout"}

// failRead: the pending (or next) Read of the client fails with the error of that class; no-op for other causes
func (p *c11Peer) failRead(cause string) {
	err, ok := c11ReadErrs[cause]
	if !ok {
		return
	}
	p.ended = true
	p.injected = err
	p.conn.mu.Lock()
	p.rw.readErr = err
	p.conn.cond.Broadcast()
	p.conn.mu.Unlock()
}

// ---------------------------------------------------------------- scripted peer

type c11Peer struct {
	rw          *c11ErrConn // what the client gets as its Transport
	injected    error       // the error a Read was made to fail with
	errOptional bool        // Err() need not carry it (the client was put into StateDisconnected before)
	conn        *memConn
	mu          sync.Mutex
	seen        map[byte]int
	wake        chan struct{}
	ackConn     bool
	ended       bool // the peer closed or sent a malformed packet
	answer      bool // answer every request (used for preludes); otherwise the answers are withheld
	lastID      map[byte]uint16
	usedIDs     map[uint16]bool
	// the peer stops reading: a Write of a packet of type stallType blocks until the transport is closed locally
	stallType byte
	// the transport reports an error for the next packet of type failType and stays open
	failType byte
	// what CONNECT is answered with when ackConn is false: "" (nothing), refuse, close, malformed
	connReply string
	// PUBLISH QoS 2 on topic "p2" is NOT answered either (first attempt of a retried publish)
	noP2 bool
}

func (p *c11Peer) note(t byte) {
	p.mu.Lock()
	p.seen[t]++
	p.mu.Unlock()
	select {
	case p.wake <- struct{}{}:
	default:
	}
}

func c11NewPeer(n int, ackConn bool) *c11Peer {
	p := &c11Peer{seen: map[byte]int{}, wake: make(chan struct{}, 1), ackConn: ackConn, lastID: map[byte]uint16{}, usedIDs: map[uint16]bool{}}
	p.conn = newMemConn(n, func(c *memConn, pkt []byte) error {
		t := pkt[0] & 0xF0
		p.mu.Lock()
		stall, fail := p.stallType == t && t != 0, p.failType == t && t != 0
		if fail {
			p.failType = 0
		}
		p.mu.Unlock()
		if stall {
			p.note(t) // the call is now inside Transport.Write
			c.mu.Lock()
			for !c.closed {
				c.cond.Wait()
			}
			c.mu.Unlock()
			return errClosedConn
		}
		if fail {
			p.note(t)
			return errCut
		}
		switch t {
		case 0x10:
			p.mu.Lock()
			ack, reply := p.ackConn, p.connReply
			p.mu.Unlock()
			switch {
			case ack:
				c.send(connackOK)
			case reply == "refuse":
				c.send([]byte{0x20, 2, 0, 5}) // not authorized
			case reply == "close":
				c.finish()
			case reply == "malformed":
				c.send(c11BadPacket)
			}
		case 0x30:
			// a QoS 2 PUBLISH on topic "p2" is answered with PUBREC: the call then parks waiting PUBCOMP
			if qos := (pkt[0] >> 1) & 3; qos > 0 && len(pkt) >= 4 {
				tl := int(pkt[2])<<8 | int(pkt[3])
				if len(pkt) >= 6+tl {
					id := uint16(pkt[4+tl])<<8 | uint16(pkt[5+tl])
					p.noteID(t, id)
					switch {
					case qos == 1 && p.answering():
						c.send(encID(0x40, id))
					case qos == 2 && (p.answering() || (string(pkt[4:4+tl]) == "p2" && !p.noP2)):
						c.send(encID(0x50, id))
					}
				}
			}
		case 0x60, 0x80, 0xA0:
			if len(pkt) >= 4 {
				id := uint16(pkt[2])<<8 | uint16(pkt[3])
				p.noteID(t, id)
				if p.answering() {
					switch t {
					case 0x60:
						c.send(encID(0x70, id))
					case 0x80:
						c.send(encFrame(0x90, []byte{pkt[2], pkt[3], 1}))
					case 0xA0:
						c.send(encID(0xB0, id))
					}
				}
			}
		case 0xC0:
			if p.answering() {
				c.send([]byte{0xD0, 0})
			}
		}
		p.note(t)
		return nil
	})
	p.rw = &c11ErrConn{memConn: p.conn}
	return p
}

func (p *c11Peer) setStall(t byte) {
	p.mu.Lock()
	p.stallType = t
	p.mu.Unlock()
}

func (p *c11Peer) setFail(t byte) {
	p.mu.Lock()
	p.failType = t
	p.mu.Unlock()
}

func (p *c11Peer) answering() bool {
	p.mu.Lock()
	defer p.mu.Unlock()
	return p.answer
}

func (p *c11Peer) setAnswer(b bool) {
	p.mu.Lock()
	p.answer = b
	p.mu.Unlock()
}

func (p *c11Peer) noteID(t byte, id uint16) {
	p.mu.Lock()
	p.lastID[t] = id
	p.usedIDs[id] = true
	p.mu.Unlock()
}

func (p *c11Peer) count(t byte) int {
	p.mu.Lock()
	defer p.mu.Unlock()
	return p.seen[t]
}

// waitSeen waits until n packets of type t were written, or stop is closed.
func (p *c11Peer) waitSeen(t byte, n int, stop <-chan struct{}, d time.Duration) bool {
	d = c11Clamp(d)
	timer := time.NewTimer(d)
	defer timer.Stop()
	for {
		if p.count(t) >= n {
			return true
		}
		select {
		case <-p.wake:
		case <-stop:
			return p.count(t) >= n
		case <-timer.C:
			return p.count(t) >= n
		}
	}
}

var c11BadPacket = []byte{0x36, 5, 0, 1, 't', 0, 1} // PUBLISH with QoS 3

// ---------------------------------------------------------------- invoking calls

type c11Pending struct {
	name string
	ch   chan c11Ret
}

type c11Ret struct {
	err      error
	panicked string
}

func c11Go(f func() error) chan c11Ret {
	ch := make(chan c11Ret, 1)
	go func() {
		defer func() {
			if r := recover(); r != nil {
				ch <- c11Ret{panicked: fmt.Sprint(r)}
			}
		}()
		ch <- c11Ret{err: f()}
	}()
	return ch
}

func c11Invoke(call string, wait2 bool, cli *mqtt.BaseClient, rc *mqtt.RetryClient, ctx context.Context) error {
	if _, ok := c11RetryCalls[call]; ok {
		// ErrorWithRetry.Retry(ctx2, cli2): the handle of the interrupted first attempt, a context of its own
		return c11Handle.Retry(ctx, cli)
	}
	switch call {
	case "connect":
		if rc != nil {
			_, err := rc.Connect(ctx, "cid")
			return err
		}
		_, err := cli.Connect(ctx, "cid")
		return err
	case "pub0":
		return cli.Publish(ctx, &mqtt.Message{Topic: "t", QoS: mqtt.QoS0, Payload: []byte{1}})
	case "pub1":
		return cli.Publish(ctx, &mqtt.Message{Topic: "t", QoS: mqtt.QoS1, Payload: []byte{1}})
	case "pub2":
		topic := "p1"
		if wait2 {
			topic = "p2"
		}
		return cli.Publish(ctx, &mqtt.Message{Topic: topic, QoS: mqtt.QoS2, Payload: []byte{2}})
	case "sub":
		_, err := cli.Subscribe(ctx, mqtt.Subscription{Topic: "a/b", QoS: mqtt.QoS1})
		return err
	case "unsub":
		return cli.Unsubscribe(ctx, "a/b")
	case "ping":
		return cli.Ping(ctx)
	case "disconnect":
		return cli.Disconnect(ctx)
	case "retryping":
		return rc.Ping(ctx)
	}
	return fmt.Errorf("harness: unknown call %q", call)
}

func c11ReqType(call string, wait2 bool) byte {
	switch c11RetryCalls[call] {
	case "pub1":
		return 0x30
	case "pub2":
		if wait2 {
			return 0x60
		}
		return 0x30
	case "rel":
		return 0x60
	case "sub":
		return 0x80
	case "unsub":
		return 0xA0
	}
	switch call {
	case "connect":
		return 0x10
	case "pub0", "pub1":
		return 0x30
	case "pub2":
		if wait2 {
			return 0x60
		}
		return 0x30
	case "sub":
		return 0x80
	case "unsub":
		return 0xA0
	case "ping", "retryping":
		return 0xC0
	}
	return 0xE0
}

// c11Classify maps a returned error to the enum the model uses. ctx is the context the caller passed.
func c11Classify(r c11Ret, ctx context.Context) c11Res {
	if r.panicked != "" {
		return c11Res{Res: "panic", Detail: r.panicked}
	}
	err := r.err
	if err == nil {
		return c11Res{Res: "nil"}
	}
	_, retry := err.(mqtt.ErrorWithRetry)
	out := c11Res{Retry: retry}
	switch {
	case ctx != nil && ctx.Err() != nil && errors.Is(err, ctx.Err()):
		out.Res = "ctx"
	case errors.Is(err, mqtt.ErrClosedTransport):
		out.Res = "closed"
	case errors.Is(err, errClosedConn), errors.Is(err, errCut):
		out.Res = "write"
	default:
		out.Res = "other"
		out.Detail = err.Error()
	}
	return out
}

func c11Await(ch chan c11Ret, d time.Duration) (c11Ret, bool) {
	d = c11Clamp(d)
	select {
	case r := <-ch:
		return r, true
	case <-time.After(d):
		c11Expired(d)
		return c11Ret{}, false
	}
}

func c11DoneClosed(cli *mqtt.BaseClient, d time.Duration) bool {
	// Done() takes the client lock: never trust it to return
	got := make(chan (<-chan struct{}), 1)
	go func() { got <- cli.Done() }()
	var ch <-chan struct{}
	lim := c11Limit()
	select {
	case ch = <-got:
	case <-time.After(lim):
		c11Expired(lim)
		return false
	}
	if ch == nil {
		return false
	}
	if d == 0 {
		select {
		case <-ch:
			return true
		default:
			return false
		}
	}
	d = c11Clamp(d)
	select {
	case <-ch:
		return true
	case <-time.After(d):
		c11Expired(d)
		return false
	}
}

// ---------------------------------------------------------------- retry handles

// c11PrepareHandle runs the first attempt of a request on a connection of its own, interrupts it — by ending
// that connection (the first context stays alive) or, for the "x" calls, by cancelling the first context — and
// leaves the ErrorWithRetry it returned in c11Handle. The returned function ends what is left of the first
// attempt (its context is cancelled only then).
func c11PrepareHandle(call string, wait2 bool) (func(), error) {
	kind := c11RetryCalls[call]
	origCancelled := strings.HasSuffix(call, "x")
	wait := c11Limit()
	firstConn := c11NewScope() // goroutines left over from earlier scenarios are not this one's
	peer := c11NewPeer(0, true)
	peer.noP2 = kind == "pub2" // interrupted before PUBREC
	cli := &mqtt.BaseClient{Transport: peer.rw}
	cctx, ccancel := ctxTimeout(wait)
	_, err := cli.Connect(cctx, "cid")
	ccancel()
	if err != nil {
		return func() {}, fmt.Errorf("first attempt: Connect: %v", err)
	}
	ctx1, cancel1 := context.WithCancel(context.Background())
	var stuck string
	cleanup := func() {
		cancel1()
		c11CloseG(cli, &stuck)
		c11DoneClosed(cli, wait)
	}
	var ret chan c11Ret
	var seen byte
	switch kind {
	case "pub1":
		ret, seen = c11Go(func() error {
			return cli.Publish(ctx1, &mqtt.Message{Topic: "t", QoS: mqtt.QoS1, Payload: []byte{1}})
		}), 0x30
	case "pub2":
		topic := "p1"
		if wait2 {
			topic = "p2" // the second connection's peer will answer the retransmitted PUBLISH with PUBREC
		}
		ret, seen = c11Go(func() error {
			return cli.Publish(ctx1, &mqtt.Message{Topic: topic, QoS: mqtt.QoS2, Payload: []byte{2}})
		}), 0x30
	case "rel":
		ret, seen = c11Go(func() error {
			return cli.Publish(ctx1, &mqtt.Message{Topic: "p2", QoS: mqtt.QoS2, Payload: []byte{2}})
		}), 0x60
	case "sub":
		ret, seen = c11Go(func() error {
			_, err := cli.Subscribe(ctx1, mqtt.Subscription{Topic: "a/b", QoS: mqtt.QoS1})
			return err
		}), 0x80
	case "unsub":
		ret, seen = c11Go(func() error { return cli.Unsubscribe(ctx1, "a/b") }), 0xA0
	}
	if !peer.waitSeen(seen, 1, nil, wait) {
		cleanup()
		return func() {}, fmt.Errorf("first attempt of %s never wrote its request", call)
	}
	if origCancelled {
		cancel1()
	} else {
		c11CloseG(cli, &stuck)
	}
	r, ok := c11Await(ret, wait)
	if !ok || r.panicked != "" {
		cleanup()
		return func() {}, fmt.Errorf("first attempt of %s did not return after its interruption (%s)", call, r.panicked)
	}
	h, isRetry := r.err.(mqtt.ErrorWithRetry)
	if !isRetry {
		cleanup()
		return func() {}, fmt.Errorf("first attempt of %s returned no retry handle: %v", call, r.err)
	}
	c11Handle = h
	// the first connection is ended completely now (its reader must not be mistaken for the second one's);
	// only the first context lives on — alive or cancelled — until the scenario is over
	c11CloseG(cli, &stuck)
	c11DoneClosed(cli, wait)
	firstConn.waitNone(c11IsReader, wait)
	return cancel1, nil
}

// ---------------------------------------------------------------- one matrix cell

func c11IsCtxCause(z string) bool { return z == "cancel" || z == "deadline" }

func c11RunCell(sp c11Spec) c11Obs {
	// a deadline cell is repeated with a longer deadline if the deadline passed before the call was
	// seen parked (possible on a loaded machine): the cell must be hit at its program point
	dl := []time.Duration{60 * time.Millisecond, 300 * time.Millisecond, 1500 * time.Millisecond}
	var o c11Obs
	for _, d := range dl {
		var early bool
		o, early = c11RunCellOnce(sp, d)
		if !early {
			return o
		}
	}
	o.Note = "deadline passed before the call was parked in all three attempts"
	return o
}

func c11RunCellOnce(sp c11Spec, deadline time.Duration) (obs c11Obs, deadlineEarly bool) {
	wait := c11Limit()
	sc := c11NewScope()
	call, point, cause := sp.Call, sp.Point, sp.Cause
	wait2 := point == "wait2"
	entry := point == "entry"
	bg := context.Background()

	if _, isRetry := c11RetryCalls[call]; isRetry {
		endFirst, err := c11PrepareHandle(call, wait2)
		defer endFirst()
		if err != nil {
			obs.c11Res = c11Res{Res: "other", Detail: "setup: " + err.Error()}
			return obs, false
		}
	}
	peer := c11NewPeer(1, call != "connect" && !entry)
	peer.errOptional = call == "disconnect"
	cli := &mqtt.BaseClient{Transport: peer.rw}
	var rc *mqtt.RetryClient
	if call == "retryping" {
		rc = &mqtt.RetryClient{ResponseTimeout: 60 * time.Second}
		rc.SetClient(bg, cli)
	}
	var cancels []context.CancelFunc
	var pending []c11Pending
	defer func() {
		// ---- cleanup: end everything the scenario started, then nothing of the library may be left
		for _, c := range cancels {
			c()
		}
		if rc != nil {
			ctx, cancel := ctxTimeout(wait)
			ch := c11Go(func() error { return rc.Disconnect(ctx) })
			c11Await(ch, wait)
			cancel()
		}
		c11CloseG(cli, &obs.AuxStuck)
		for _, p := range pending {
			if _, ok := c11Await(p.ch, wait); !ok {
				obs.AuxStuck += p.name + " "
			}
		}
		if ok, left := sc.waitNone(nil, wait); !ok {
			obs.Leak = left
			obs.LeakAt = sc.stackOfNew()
		}
	}()

	// ---- connection establishment / lock holder
	var holder chan c11Ret
	if entry {
		hctx, hcancel := context.WithCancel(bg)
		cancels = append(cancels, hcancel)
		holder = c11Go(func() error { return c11Invoke("connect", false, cli, rc, hctx) })
		pending = append(pending, c11Pending{"lock-holding Connect", holder})
		if !peer.waitSeen(0x10, 1, nil, wait) {
			obs.c11Res = c11Res{Res: "other", Detail: "setup: CONNECT never written"}
			return obs, false
		}
		// the F14 probe needs to end the holder explicitly
		return c11EntryCell(sp, sc, peer, cli, rc, hcancel, holder, &cancels, &pending, deadline, &obs), false
	}
	if call != "connect" {
		ctx, cancel := ctxTimeout(wait)
		err := c11Invoke("connect", false, cli, rc, ctx)
		cancel()
		if err != nil {
			obs.c11Res = c11Res{Res: "other", Detail: "setup: Connect failed: " + err.Error()}
			return obs, false
		}
	}

	// ---- the context of the call under test
	var ctx context.Context
	var cancel context.CancelFunc
	if cause == "deadline" {
		if point == "before" {
			ctx, cancel = context.WithTimeout(bg, time.Millisecond)
		} else {
			ctx, cancel = context.WithTimeout(bg, deadline)
		}
	} else {
		ctx, cancel = context.WithCancel(bg)
	}
	cancels = append(cancels, cancel)

	var aux chan c11Ret
	applyConnCause := func(sync bool) {
		switch cause {
		case "localclose":
			c11CloseG(cli, &obs.AuxStuck)
		case "localdisconnect":
			dctx, dcancel := ctxTimeout(wait)
			cancels = append(cancels, dcancel)
			aux = c11Go(func() error { return cli.Disconnect(dctx) })
			if sync {
				if _, ok := c11Await(aux, wait); !ok {
					pending = append(pending, c11Pending{"Disconnect used as cause", aux})
				}
			} else {
				pending = append(pending, c11Pending{"Disconnect used as cause", aux})
			}
		case "peerclose":
			peer.ended = true
			peer.conn.finish()
		case "malformed":
			peer.ended = true
			peer.conn.send(c11BadPacket)
		default:
			peer.failRead(cause)
		}
	}

	var ret chan c11Ret
	switch point {
	case "before":
		// the cause strikes completely before the call is issued
		if c11IsCtxCause(cause) {
			if cause == "cancel" {
				cancel()
			}
			<-ctx.Done()
		} else {
			applyConnCause(true)
			if call != "connect" {
				c11DoneClosed(cli, wait)
			}
		}
		ret = c11Go(func() error { return c11Invoke(call, false, cli, rc, ctx) })
	default: // wait1, wait2, inwrite
		if point == "inwrite" {
			peer.setStall(c11ReqType(call, false))
		}
		orig := c11Go(func() error { return c11Invoke(call, wait2, cli, rc, ctx) })
		returned := make(chan struct{})
		proxy := make(chan c11Ret, 1)
		go func() { r := <-orig; proxy <- r; close(returned) }()
		ret = proxy
		n := 1
		if call != "connect" && c11ReqType(call, wait2) == 0x10 {
			n = 2
		}
		parked := peer.waitSeen(c11ReqType(call, wait2), n, returned, wait)
		if cause == "deadline" && !parked {
			deadlineEarly = true
		}
		if !parked && cause != "deadline" {
			select {
			case <-returned:
				// returned without ever writing its request: classified below
			default:
				obs.Note = "request packet never seen on the wire"
			}
		}
		if cause == "deadline" && parked {
			deadlineEarly = c11DeadlineWasEarly(ctx, deadline)
		}
		switch {
		case cause == "cancel":
			cancel()
		case cause == "deadline":
		default:
			applyConnCause(false)
		}
	}

	r, ok := c11Await(ret, wait)
	if !ok {
		obs.c11Res = c11Res{Res: "stuck"}
		pending = append(pending, c11Pending{"the call under test", ret})
	} else {
		obs.c11Res = c11Classify(r, ctx)
	}
	c11ObserveEnd(&obs, sc, peer, cli, wait)
	return obs, deadlineEarly
}

// the parked observation of a deadline cell is valid only if the deadline had not yet passed when the
// request was seen: approximated by "at least 1/4 of the deadline was still left"
func c11DeadlineWasEarly(ctx context.Context, deadline time.Duration) bool {
	dl, ok := ctx.Deadline()
	if !ok {
		return false
	}
	return time.Until(dl) < deadline/4
}

// Done() and reader exit: waited for when the connection was ended by anyone, otherwise read at once
func c11ObserveEnd(obs *c11Obs, sc *c11Scope, peer *c11Peer, cli *mqtt.BaseClient, wait time.Duration) {
	defer func() {
		if peer.injected == nil {
			return
		}
		// a failed read ends the connection like any other cause: the client closes the transport and
		// Err() carries the error
		if !peer.conn.isClosed() {
			obs.EndBad += "the transport was not closed by the client; "
		}
		if !peer.errOptional && !errors.Is(cli.Err(), peer.injected) {
			obs.EndBad += fmt.Sprintf("Err() = %v does not carry the read error %v; ", cli.Err(), peer.injected)
		}
	}()
	ended := peer.conn.isClosed() || peer.ended
	if ended {
		obs.Done = c11DoneClosed(cli, wait)
		obs.RExit, _ = sc.waitNone(c11IsReader, wait)
	} else {
		obs.Done = c11DoneClosed(cli, 0)
		obs.RExit = len(sc.find(c11IsReader)) == 0
	}
}

// PEntry: a Connect waiting for CONNACK holds muConnecting; the call under test waits for it
func c11EntryCell(sp c11Spec, sc *c11Scope, peer *c11Peer, cli *mqtt.BaseClient, rc *mqtt.RetryClient,
	hcancel context.CancelFunc, holder chan c11Ret, cancels *[]context.CancelFunc, pending *[]c11Pending, deadline time.Duration, obs *c11Obs) c11Obs {
	wait := c11Limit()
	bg := context.Background()
	call, cause := sp.Call, sp.Cause
	var ctx context.Context
	var cancel context.CancelFunc
	if cause == "deadline" {
		ctx, cancel = context.WithTimeout(bg, 20*time.Millisecond)
	} else {
		ctx, cancel = context.WithCancel(bg)
	}
	*cancels = append(*cancels, cancel)
	ret := c11Go(func() error { return c11Invoke(call, false, cli, rc, ctx) })
	// observe the call waiting for the lock (if the library stops using an RWMutex this times out once;
	// later cells then only yield briefly)
	lim := 2 * time.Second
	if c11LockWaitAbsent {
		lim = 20 * time.Millisecond
	}
	inLock := sc.waitSome(func(st string) bool { return c11InRLock(st) && !c11IsReader(st) }, lim)
	if !inLock {
		c11LockWaitAbsent = true
		obs.Note = "call not seen in RWMutex.RLock"
	}
	if c11IsCtxCause(cause) {
		if cause == "cancel" {
			cancel()
		}
		<-ctx.Done()
		// F14 probe: sound lower bound only — the call is still blocked 300 ms after its own cancellation
		if r, ok := c11Await(ret, 300*time.Millisecond); ok {
			obs.c11Res = c11Classify(r, ctx)
		} else {
			obs.F14 = true
			hcancel() // the lock holder ends
			if r, ok := c11Await(ret, wait); ok {
				obs.c11Res = c11Classify(r, ctx)
			} else {
				obs.c11Res = c11Res{Res: "stuck"}
				*pending = append(*pending, c11Pending{"the call under test", ret})
			}
		}
	} else {
		switch cause {
		case "localclose":
			c11CloseG(cli, &obs.AuxStuck)
		case "peerclose":
			peer.ended = true
			peer.conn.finish()
		case "malformed":
			peer.ended = true
			peer.conn.send(c11BadPacket)
		default:
			peer.failRead(cause)
		}
		if r, ok := c11Await(ret, wait); ok {
			obs.c11Res = c11Classify(r, ctx)
		} else {
			obs.c11Res = c11Res{Res: "stuck"}
			*pending = append(*pending, c11Pending{"the call under test", ret})
		}
	}
	c11ObserveEnd(obs, sc, peer, cli, wait)
	return *obs
}

// ---------------------------------------------------------------- sequences ending with a local Close()

// c11RunSeq, sp.K: 0 = the call is parked inside Transport.Write (the peer stopped reading), its context is
// cancelled (it must stay blocked: the transport does not know the context), then cli.Close();
// 1 = Disconnect whose DISCONNECT write fails (the transport reports an error and stays open), then cli.Close();
// 2 = successful Disconnect, then cli.Close().
func c11RunSeq(sp c11Spec) (obs c11Obs) {
	wait := c11Limit()
	sc := c11NewScope()
	bg := context.Background()
	call := sp.Call
	if _, isRetry := c11RetryCalls[call]; isRetry {
		endFirst, err := c11PrepareHandle(call, false)
		defer endFirst()
		if err != nil {
			obs.c11Res = c11Res{Res: "other", Detail: "setup: " + err.Error()}
			return obs
		}
	}
	peer := c11NewPeer(1, call != "connect")
	cli := &mqtt.BaseClient{Transport: peer.rw}
	var rc *mqtt.RetryClient
	if call == "retryping" {
		rc = &mqtt.RetryClient{ResponseTimeout: 60 * time.Second}
		rc.SetClient(bg, cli)
	}
	var cancels []context.CancelFunc
	var pending []c11Pending
	defer func() {
		for _, c := range cancels {
			c()
		}
		if rc != nil {
			ctx, cancel := ctxTimeout(wait)
			c11Await(c11Go(func() error { return rc.Disconnect(ctx) }), wait)
			cancel()
		}
		c11CloseG(cli, &obs.AuxStuck)
		for _, p := range pending {
			if _, ok := c11Await(p.ch, wait); !ok {
				obs.AuxStuck += p.name + " "
			}
		}
		if ok, left := sc.waitNone(nil, wait); !ok {
			obs.Leak = left
			obs.LeakAt = sc.stackOfNew()
		}
	}()
	if call != "connect" {
		ctx, cancel := ctxTimeout(wait)
		err := c11Invoke("connect", false, cli, rc, ctx)
		cancel()
		if err != nil {
			obs.c11Res = c11Res{Res: "other", Detail: "setup: Connect failed: " + err.Error()}
			return obs
		}
	}
	ctx, cancel := context.WithCancel(bg)
	cancels = append(cancels, cancel)
	closeIt := func() {
		// Close must never panic, whatever happened before
		c11CloseG(cli, &obs.AuxStuck)
	}
	switch sp.K {
	case 0:
		t := c11ReqType(call, false)
		peer.setStall(t)
		ret := c11Go(func() error { return c11Invoke(call, false, cli, rc, ctx) })
		if !peer.waitSeen(t, 1, nil, wait) {
			obs.Note = "call never reached Transport.Write"
		}
		cancel()
		// sound lower bound only: still inside Write 50 ms after its cancellation
		if _, ok := c11Await(ret, 50*time.Millisecond); !ok {
			obs.Mid = true
		}
		closeIt()
		if r, ok := c11Await(ret, wait); ok {
			obs.c11Res = c11Classify(r, nil)
		} else {
			obs.c11Res = c11Res{Res: "stuck"}
			pending = append(pending, c11Pending{"the call under test", ret})
		}
	case 1, 2:
		if sp.K == 1 {
			peer.setFail(0xE0)
		}
		r, ok := c11Await(c11Go(func() error { return cli.Disconnect(ctx) }), wait)
		if !ok {
			obs.c11Res = c11Res{Res: "stuck"}
		} else {
			obs.c11Res = c11Classify(r, nil)
		}
		if sp.K == 1 {
			// the failed Disconnect leaves the connection up
			obs.Mid = obs.Res == "write" && !c11DoneClosed(cli, 0) && !peer.conn.isClosed()
		} else {
			obs.Mid = obs.Res == "nil" && c11DoneClosed(cli, wait)
		}
		closeIt()
	}
	c11ObserveEnd(&obs, sc, peer, cli, wait)
	obs.TClosed = peer.conn.isClosed()
	return obs
}

// ---------------------------------------------------------------- stray acknowledgements before the cause

// c11RunStray: after a prelude (a request that completed, or a Ping that gave up) the peer sends K
// acknowledgements nobody waits for — late, duplicated or for an identifier never used — followed by a marker
// PUBLISH. The marker reaching the handler shows that the reader has consumed them and is alive. Then the
// cause strikes as in a matrix cell (with one call parked, or none).
func c11RunStray(sp c11Spec) (obs c11Obs) {
	wait := c11Limit()
	sc := c11NewScope()
	bg := context.Background()
	peer := c11NewPeer(1, true)
	cli := &mqtt.BaseClient{Transport: peer.rw}
	markerCh := make(chan struct{}, 16)
	cli.Handle(mqtt.HandlerFunc(func(m *mqtt.Message) {
		if m.Topic == "marker" {
			select {
			case markerCh <- struct{}{}:
			default:
			}
		}
	}))
	var cancels []context.CancelFunc
	var pending []c11Pending
	wedged := false
	defer func() {
		for _, c := range cancels {
			c()
		}
		c11CloseG(cli, &obs.AuxStuck)
		if wedged {
			// the reader goroutine sits in a hand-off for ever: nothing to wait for
			obs.Leak = sc.find(nil)
			return
		}
		for _, p := range pending {
			if _, ok := c11Await(p.ch, wait); !ok {
				obs.AuxStuck += p.name + " "
			}
		}
		if ok, left := sc.waitNone(nil, wait); !ok {
			obs.Leak = left
			obs.LeakAt = sc.stackOfNew()
		}
	}()
	fail := func(msg string) c11Obs {
		obs.c11Res = c11Res{Res: "other", Detail: "setup: " + msg}
		return obs
	}
	cctx, ccancel := ctxTimeout(wait)
	_, err := cli.Connect(cctx, "cid")
	ccancel()
	if err != nil {
		return fail("Connect failed: " + err.Error())
	}
	// ---- prelude
	runAnswered := func(call string) error {
		peer.setAnswer(true)
		defer peer.setAnswer(false)
		ctx, cancel := ctxTimeout(wait)
		defer cancel()
		r, ok := c11Await(c11Go(func() error { return c11Invoke(call, false, cli, nil, ctx) }), wait)
		if !ok {
			return errors.New("prelude " + call + " did not return")
		}
		if r.panicked != "" {
			return errors.New("prelude panicked: " + r.panicked)
		}
		return r.err
	}
	var strayID uint16
	reqOf := map[string]struct {
		call string
		typ  byte
	}{"puback": {"pub1", 0x30}, "pubrec": {"pub2", 0x30}, "pubcomp": {"pub2", 0x60}, "suback": {"sub", 0x80}, "unsuback": {"unsub", 0xA0}}
	switch {
	case sp.Kind == "pingresp" && sp.IDs == "answered":
		if err := runAnswered("ping"); err != nil {
			return fail("answered Ping: " + err.Error())
		}
	case sp.Kind == "pingresp":
		ctx, cancel := context.WithCancel(bg)
		base := peer.count(0xC0)
		ch := c11Go(func() error { return cli.Ping(ctx) })
		peer.waitSeen(0xC0, base+1, nil, wait)
		cancel()
		if _, ok := c11Await(ch, wait); !ok {
			return fail("cancelled Ping did not return")
		}
	case sp.IDs == "consumed":
		rq := reqOf[sp.Kind]
		if err := runAnswered(rq.call); err != nil {
			return fail("answered " + rq.call + ": " + err.Error())
		}
		peer.mu.Lock()
		strayID = peer.lastID[rq.typ]
		peer.mu.Unlock()
	}
	// ---- the call that will be blocked when the cause strikes
	var ctx context.Context
	var ret chan c11Ret
	var cancel context.CancelFunc
	wait2 := sp.Point == "wait2"
	if sp.Call != "none" {
		ctx, cancel = context.WithCancel(bg)
		cancels = append(cancels, cancel)
		t := c11ReqType(sp.Call, wait2)
		base := peer.count(t)
		call := sp.Call
		ret = c11Go(func() error { return c11Invoke(call, wait2, cli, nil, ctx) })
		if !peer.waitSeen(t, base+1, nil, wait) {
			obs.Note = "request packet never seen on the wire"
		}
	}
	if sp.IDs == "unknown" {
		peer.mu.Lock()
		for strayID = 40000; peer.usedIDs[strayID]; strayID++ {
		}
		peer.mu.Unlock()
	}
	// ---- stray packets, then the marker
	var pkt []byte
	switch sp.Kind {
	case "pingresp":
		pkt = []byte{0xD0, 0}
	case "connack":
		pkt = connackOK
	case "puback":
		pkt = encID(0x40, strayID)
	case "pubrec":
		pkt = encID(0x50, strayID)
	case "pubcomp":
		pkt = encID(0x70, strayID)
	case "suback":
		pkt = encFrame(0x90, []byte{byte(strayID >> 8), byte(strayID), 0})
	case "unsuback":
		pkt = encID(0xB0, strayID)
	}
	var stream []byte
	for i := 0; i < sp.K; i++ {
		stream = append(stream, pkt...)
	}
	stream = append(stream, encPublish(inMsg{Topic: []byte("marker"), QoS: 0, Payload: []byte{1}})...)
	peer.conn.send(stream)
	select {
	case <-markerCh:
		obs.Marker = true
	case <-time.After(wait):
		// the connection is healthy and the reader does not read: nothing below can succeed
		wedged = true
		obs.c11Res = c11Res{Res: "stuck", Detail: "reader goroutine stopped reading after the stray packets: " + strings.Join(sc.find(c11IsReader), ",")}
		return obs
	}
	// ---- the cause
	switch sp.Cause {
	case "cancel":
		cancel()
	case "localclose":
		c11CloseG(cli, &obs.AuxStuck)
	case "localdisconnect":
		dctx, dcancel := ctxTimeout(wait)
		cancels = append(cancels, dcancel)
		dch := c11Go(func() error { return cli.Disconnect(dctx) })
		if ret != nil {
			pending = append(pending, c11Pending{"Disconnect used as cause", dch})
		} else if _, ok := c11Await(dch, wait); !ok {
			// nobody is blocked: the Disconnect itself is what has to come back before Done() is looked at
			obs.AuxStuck = "Disconnect used as cause "
		}
	case "peerclose":
		peer.ended = true
		peer.conn.finish()
	case "malformed":
		peer.ended = true
		peer.conn.send(c11BadPacket)
	default:
		peer.failRead(sp.Cause)
	}
	if ret == nil {
		obs.c11Res = c11Res{Res: "nil"}
	} else if r, ok := c11Await(ret, wait); ok {
		obs.c11Res = c11Classify(r, ctx)
	} else {
		obs.c11Res = c11Res{Res: "stuck"}
		pending = append(pending, c11Pending{"the call under test", ret})
	}
	c11ObserveEnd(&obs, sc, peer, cli, wait)
	return obs
}

// ---------------------------------------------------------------- a message handler in progress

// c11RunHandler: an inbound PUBLISH (QoS sp.K) is being handled: the handler is parked inside Serve on a gate
// the scenario holds. Meanwhile requests (sp.Calls) are issued, whose contexts are then cancelled / expire, and
// one caller of something that takes the client lock exclusively (sp.Kind: disconnect, done, handle, close, none)
// arrives before or after them (sp.IDs). Then the handler is released; with sp.Phase == "reentrant" it first
// publishes a QoS 0 reply itself.
func c11RunHandler(sp c11Spec) (obs c11Obs) {
	wait := c11Limit()
	sc := c11NewScope()
	bg := context.Background()
	peer := c11NewPeer(1, true)
	cli := &mqtt.BaseClient{Transport: peer.rw}
	entered := make(chan struct{}, 4)
	gate := make(chan struct{})
	handled := make(chan struct{}, 4)
	reentrant := sp.Phase == "reentrant"
	var cancels []context.CancelFunc
	released := false
	release := func() {
		if !released {
			released = true
			close(gate)
		}
	}
	var pending []c11Pending
	defer func() {
		release()
		for _, c := range cancels {
			c()
		}
		c11CloseG(cli, &obs.AuxStuck)
		for _, p := range pending {
			if _, ok := c11Await(p.ch, wait); !ok {
				obs.AuxStuck += p.name + " "
			}
		}
		if ok, left := sc.waitNone(nil, wait); !ok {
			obs.Leak = left
			obs.LeakAt = sc.stackOfNew()
		}
	}()
	cli.Handle(mqtt.HandlerFunc(func(m *mqtt.Message) {
		if m.Topic != "h" {
			return
		}
		entered <- struct{}{}
		<-gate
		if reentrant {
			ctx, cancel := ctxTimeout(c11Wait)
			_ = cli.Publish(ctx, &mqtt.Message{Topic: "reply", QoS: mqtt.QoS0, Payload: []byte{1}})
			cancel()
		}
		handled <- struct{}{}
	}))
	cctx, ccancel := ctxTimeout(wait)
	_, err := cli.Connect(cctx, "cid")
	ccancel()
	if err != nil {
		obs.c11Res = c11Res{Res: "other", Detail: "setup: Connect failed: " + err.Error()}
		return obs
	}
	in := encPublish(inMsg{Topic: []byte("h"), QoS: byte(sp.K), ID: 7, Payload: []byte{9}})
	if sp.K == 2 {
		in = append(in, encID(0x62, 7)...) // the handler of a QoS 2 message runs on PUBREL
	}
	peer.conn.send(in)
	select {
	case <-entered:
	case <-time.After(wait):
		obs.c11Res = c11Res{Res: "other", Detail: "setup: the handler was never called"}
		return obs
	}
	// ---- the caller that takes the client lock exclusively
	runExcl := func() {
		var ch chan c11Ret
		switch sp.Kind {
		case "none":
			obs.ExclRet = true
			return
		case "disconnect":
			dctx, dcancel := ctxTimeout(c11Wait)
			cancels = append(cancels, dcancel)
			ch = c11Go(func() error { return cli.Disconnect(dctx) })
		case "done":
			ch = c11Go(func() error { cli.Done(); return nil })
		case "handle":
			ch = c11Go(func() error { cli.Handle(mqtt.HandlerFunc(func(*mqtt.Message) {})); return nil })
		case "close":
			ch = c11Go(func() error { return cli.Close() })
		}
		if r, ok := c11Await(ch, wait); ok {
			obs.ExclRet = r.panicked == "" && (sp.Kind != "disconnect" || r.err == nil)
			if !obs.ExclRet {
				obs.Note = fmt.Sprintf("%s returned %v %s", sp.Kind, r.err, r.panicked)
			}
		} else {
			pending = append(pending, c11Pending{sp.Kind + " (takes the client lock)", ch})
		}
	}
	if sp.IDs == "before" {
		runExcl()
	}
	// ---- the requests
	n := len(sp.Calls)
	ctxs := make([]context.Context, n)
	rets := make([]chan c11Ret, n)
	need := map[byte]int{}
	for i, call := range sp.Calls {
		var ctx context.Context
		var cancel context.CancelFunc
		if sp.Cause == "deadline" {
			ctx, cancel = context.WithTimeout(bg, 60*time.Millisecond)
		} else {
			ctx, cancel = context.WithCancel(bg)
		}
		ctxs[i] = ctx
		cancels = append(cancels, cancel)
		need[c11ReqType(call, false)]++
		call := call
		rets[i] = c11Go(func() error { return c11Invoke(call, false, cli, nil, ctx) })
	}
	for t, k := range need {
		if !peer.waitSeen(t, k, nil, wait) {
			obs.Note += fmt.Sprintf("only %d of %d packets of type %x seen; ", peer.count(t), k, t)
		}
	}
	if sp.IDs != "before" {
		runExcl()
	}
	// ---- their contexts end while the handler is still parked
	if sp.Cause == "cancel" {
		for _, c := range cancels {
			c()
		}
	}
	obs.All = make([]c11Res, n)
	limit := time.After(c11Clamp(wait))
	for i := range rets {
		select {
		case r := <-rets[i]:
			obs.All[i] = c11Classify(r, ctxs[i])
		case <-limit:
			c11Expired(wait)
			obs.All[i] = c11Res{Res: "stuck"}
			limit = time.After(time.Millisecond)
			pending = append(pending, c11Pending{"request " + sp.Calls[i], rets[i]})
		}
	}
	// ---- the handler is released
	release()
	select {
	case <-handled:
		obs.HandRet = true
	case <-time.After(c11Clamp(wait)):
		c11Expired(wait)
	}
	c11CloseG(cli, &obs.AuxStuck)
	obs.Res = "n/a"
	c11ObserveEnd(&obs, sc, peer, cli, wait)
	return obs
}

// ---------------------------------------------------------------- several calls blocked at once

func c11RunMulti(sp c11Spec) (obs c11Obs) {
	wait := c11Limit()
	sc := c11NewScope()
	peer := c11NewPeer(1, true)
	cli := &mqtt.BaseClient{Transport: peer.rw}
	bg := context.Background()
	var auxCh chan c11Ret
	var rets []chan c11Ret
	defer func() {
		c11CloseG(cli, &obs.AuxStuck)
		if auxCh != nil {
			if _, ok := c11Await(auxCh, wait); !ok {
				obs.AuxStuck = "Disconnect used as cause"
			}
		}
		if ok, left := sc.waitNone(nil, wait); !ok {
			obs.Leak = left
			obs.LeakAt = sc.stackOfNew()
		}
	}()
	cctx, ccancel := ctxTimeout(wait)
	_, err := cli.Connect(cctx, "cid")
	ccancel()
	if err != nil {
		obs.c11Res = c11Res{Res: "other", Detail: "setup: Connect failed: " + err.Error()}
		return obs
	}
	need := map[byte]int{}
	ctxs := make([]context.Context, len(sp.Calls))
	cancels := make([]context.CancelFunc, len(sp.Calls))
	defer func() {
		for _, c := range cancels {
			c()
		}
	}()
	for i, cp := range sp.Calls {
		parts := strings.Split(cp, "@")
		call, w2 := parts[0], parts[1] == "wait2"
		need[c11ReqType(call, w2)]++
		if w2 {
			need[0x30]++
		}
		ctx, cancel := context.WithCancel(bg)
		ctxs[i], cancels[i] = ctx, cancel
		rets = append(rets, c11Go(func() error { return c11Invoke(call, w2, cli, nil, ctx) }))
	}
	for t, n := range need {
		if !peer.waitSeen(t, n, nil, wait) {
			obs.Note = fmt.Sprintf("only %d of %d packets of type %x seen", peer.count(t), n, t)
		}
	}
	obs.All = make([]c11Res, len(rets))
	got := make([]bool, len(rets))
	collect := func(idx []int) {
		limit := time.After(wait)
		for _, i := range idx {
			select {
			case r := <-rets[i]:
				obs.All[i] = c11Classify(r, ctxs[i])
			case <-limit:
				obs.All[i] = c11Res{Res: "stuck"}
				limit = time.After(time.Millisecond)
			}
			got[i] = true
		}
	}
	// some contexts are cancelled first: exactly those calls return, with their context's error
	for _, i := range sp.Cancel {
		cancels[i]()
	}
	collect(sp.Cancel)
	switch sp.Cause {
	case "localclose":
		c11CloseG(cli, &obs.AuxStuck)
	case "localdisconnect":
		dctx, dcancel := ctxTimeout(wait)
		defer dcancel()
		auxCh = c11Go(func() error { return cli.Disconnect(dctx) })
	case "peerclose":
		peer.ended = true
		peer.conn.finish()
	case "malformed":
		peer.ended = true
		peer.conn.send(c11BadPacket)
	default:
		peer.failRead(sp.Cause)
	}
	var others []int
	for i := range rets {
		if !got[i] {
			others = append(others, i)
		}
	}
	collect(others)
	obs.Res = "n/a"
	c11ObserveEnd(&obs, sc, peer, cli, wait)
	return obs
}

// ---------------------------------------------------------------- the reconnecting client

type c11Dialer struct {
	mu      sync.Mutex
	mode    string                            // fail | hang | ok | gate
	modes   []string                          // if set: the mode of the n-th dial (the last entry for all later ones)
	reply   string                            // what the peers answer CONNECT with when they do not accept: refuse | close | malformed
	onNew   func(n int, cli *mqtt.BaseClient) // called for every client the dialer creates, before it is returned
	gate    chan struct{}
	ackConn bool
	dials   int
	wake    chan struct{}
	peers   []*c11Peer
	clis    []*mqtt.BaseClient
}

func (d *c11Dialer) DialContext(ctx context.Context) (*mqtt.BaseClient, error) {
	d.mu.Lock()
	d.dials++
	mode, ack, gate := d.mode, d.ackConn, d.gate
	if len(d.modes) > 0 {
		i := d.dials - 1
		if i >= len(d.modes) {
			i = len(d.modes) - 1
		}
		mode = d.modes[i]
	}
	var cli *mqtt.BaseClient
	if mode == "ok" || mode == "gate" {
		// the peer exists before anybody can learn about this dial
		p := c11NewPeer(d.dials, ack)
		p.connReply = d.reply
		cli = &mqtt.BaseClient{Transport: p.rw}
		d.peers = append(d.peers, p)
		d.clis = append(d.clis, cli)
		if d.onNew != nil {
			d.onNew(d.dials, cli)
		}
	}
	d.mu.Unlock()
	select {
	case d.wake <- struct{}{}:
	default:
	}
	switch mode {
	case "hang":
		<-ctx.Done()
		return nil, ctx.Err()
	case "gate":
		// the dial is in progress until the scenario lets it succeed
		select {
		case <-gate:
			return cli, nil
		case <-ctx.Done():
			return nil, ctx.Err()
		}
	case "ok":
		return cli, nil
	}
	return nil, errors.New("dial refused")
}

func (d *c11Dialer) waitDials(n int, dur time.Duration) bool {
	timer := time.NewTimer(dur)
	defer timer.Stop()
	for {
		d.mu.Lock()
		k := d.dials
		d.mu.Unlock()
		if k >= n {
			return true
		}
		select {
		case <-d.wake:
		case <-timer.C:
			return false
		}
	}
}

func (d *c11Dialer) set(mode string) {
	d.mu.Lock()
	d.mode = mode
	d.mu.Unlock()
}

func (d *c11Dialer) lastPeer() *c11Peer {
	d.mu.Lock()
	defer d.mu.Unlock()
	if len(d.peers) == 0 {
		return nil
	}
	return d.peers[len(d.peers)-1]
}

func c11RunReconn(sp c11Spec) (obs c11Obs) {
	wait := c11Limit()
	sc := c11NewScope()
	bg := context.Background()
	d := &c11Dialer{wake: make(chan struct{}, 1)}
	switch sp.Phase {
	case "rc_dialfail", "rd_never", "rd_afterfailed", "rd_duringdialfail":
		d.mode = "fail"
	case "rc_dialhang":
		d.mode = "hang"
	case "rc_dialfailbackoff":
		d.mode = "fail"
	case "rc_refusedbackoff":
		d.mode, d.ackConn, d.reply = "ok", false, "refuse"
	case "rc_peerclosedbackoff":
		d.mode, d.ackConn, d.reply = "ok", false, "close"
	case "rc_malformedbackoff":
		d.mode, d.ackConn, d.reply = "ok", false, "malformed"
	case "rc_refusedthendialhang":
		d.modes, d.ackConn, d.reply = []string{"ok", "hang"}, false, "refuse"
	case "rc_ackwithheld", "rd_waitconnack":
		d.mode, d.ackConn = "ok", false
	case "rd_dialinflight":
		d.mode, d.ackConn, d.gate = "gate", true, make(chan struct{})
	default:
		d.mode, d.ackConn = "ok", true
	}
	waitBase, waitMax := time.Millisecond, 4*time.Millisecond
	longBackoff := strings.HasSuffix(sp.Phase, "backoff") && strings.HasPrefix(sp.Phase, "rc_")
	if longBackoff {
		// the loop must still be in its back-off wait when the context ends
		waitBase, waitMax = 30*time.Second, 30*time.Second
	}
	cli, err := mqtt.NewReconnectClient(d, mqtt.WithReconnectWait(waitBase, waitMax))
	if err != nil {
		obs.c11Res = c11Res{Res: "other", Detail: err.Error()}
		return obs
	}
	var cancels []context.CancelFunc
	var connCh chan c11Ret
	var connCtx context.Context
	disconnectCalled := false
	defer func() {
		for _, c := range cancels {
			c()
		}
		if !disconnectCalled {
			// the RetryClient's task goroutine lives until Disconnect: end it before looking for leftovers
			ctx, cancel := ctxTimeout(wait)
			c11Await(c11Go(func() error { return cli.Disconnect(ctx) }), wait)
			cancel()
		}
		d.mu.Lock()
		clis := append([]*mqtt.BaseClient{}, d.clis...)
		d.mu.Unlock()
		for _, c := range clis {
			c11CloseG(c, &obs.AuxStuck)
		}
		if connCh != nil {
			if _, ok := c11Await(connCh, wait); !ok {
				obs.AuxStuck += "pending Connect "
			}
		}
		leakWait := wait
		if sp.Phase == "rd_dialinflight" {
			leakWait = wait / 5 // probe of a known leak: do not spend the full limit on every run
		}
		if ok, left := sc.waitNone(nil, leakWait); !ok {
			obs.Leak = left
			obs.LeakAt = sc.stackOfNew()
		}
	}()
	mkctx := func(cause string, dl time.Duration) (context.Context, context.CancelFunc) {
		var ctx context.Context
		var cancel context.CancelFunc
		if cause == "deadline" {
			ctx, cancel = context.WithTimeout(bg, dl)
		} else {
			ctx, cancel = context.WithCancel(bg)
		}
		cancels = append(cancels, cancel)
		return ctx, cancel
	}
	startConnect := func(ctx context.Context) {
		connCtx = ctx
		connCh = c11Go(func() error { _, err := cli.Connect(ctx, "cid"); return err })
	}
	finish := func(r c11Ret, ok bool, ctx context.Context) {
		if !ok {
			obs.c11Res = c11Res{Res: "stuck"}
		} else {
			obs.c11Res = c11Classify(r, ctx)
		}
	}
	isConnect := strings.HasPrefix(sp.Phase, "rc_")
	if isConnect {
		dl := 80 * time.Millisecond
		if longBackoff {
			dl = 250 * time.Millisecond
		}
		ctx, cancel := mkctx(sp.Cause, dl)
		startConnect(ctx)
		switch sp.Phase {
		case "rc_dialfailbackoff", "rc_refusedbackoff", "rc_peerclosedbackoff", "rc_malformedbackoff":
			d.waitDials(1, wait)
			// the attempt has failed and the loop goroutine sits in its back-off select
			if !sc.waitSome(c11LoopInBackoff, wait) && sp.Cause != "deadline" {
				obs.Note = "loop not seen in its back-off wait"
			}
		case "rc_refusedthendialhang":
			if !d.waitDials(2, wait) && sp.Cause != "deadline" {
				obs.Note = "second dial not seen"
			}
		case "rc_dialfail":
			if !d.waitDials(3, wait) && sp.Cause != "deadline" {
				obs.Note = "fewer than 3 dials seen"
			}
		case "rc_dialhang":
			d.waitDials(1, wait)
		case "rc_ackwithheld":
			d.waitDials(1, wait)
			if p := d.lastPeer(); p != nil {
				p.waitSeen(0x10, 1, ctx.Done(), wait)
			}
		}
		if sp.Cause == "cancel" {
			cancel()
		}
		r, ok := c11Await(connCh, wait)
		finish(r, ok, ctx)
		if ok {
			connCh = nil
		}
		obs.LoopGone, _ = sc.waitNone(c11IsLoop, wait)
		return obs
	}
	// ---- Disconnect in each phase
	switch sp.Phase {
	case "rd_never":
	case "rd_afterfailed":
		ctx, cancel := mkctx("cancel", 0)
		startConnect(ctx)
		d.waitDials(2, wait)
		cancel()
		if _, ok := c11Await(connCh, wait); ok {
			connCh = nil
		}
		sc.waitNone(c11IsLoop, wait)
	case "rd_duringdialfail":
		ctx, _ := mkctx("cancel", 0)
		startConnect(ctx)
		d.waitDials(3, wait)
	case "rd_dialinflight":
		ctx, _ := mkctx("cancel", 0)
		startConnect(ctx)
		d.waitDials(1, wait)
	case "rd_waitconnack":
		ctx, _ := mkctx("cancel", 0)
		startConnect(ctx)
		d.waitDials(1, wait)
		if p := d.lastPeer(); p != nil {
			p.waitSeen(0x10, 1, nil, wait)
		}
	case "rd_connected", "rd_backoffafterloss":
		ctx, cancel := mkctx("cancel", 0)
		startConnect(ctx)
		r, ok := c11Await(connCh, wait)
		cancel() // after the first connection the loop no longer depends on this context
		if !ok || r.err != nil || r.panicked != "" {
			obs.c11Res = c11Res{Res: "other", Detail: fmt.Sprintf("setup: reconnecting Connect failed: %v %v", r.err, r.panicked)}
			return obs
		}
		connCh = nil
		if sp.Phase == "rd_backoffafterloss" {
			d.set("fail")
			p := d.lastPeer()
			p.ended = true
			p.conn.finish()
			d.waitDials(3, wait)
		}
	}
	dctx, dcancel := mkctx(sp.Cause, 30*time.Millisecond)
	if sp.Cause == "none" {
		dcancel()
		cancels = cancels[:len(cancels)-1]
		var c2 context.CancelFunc
		dctx, c2 = ctxTimeout(3 * wait) // far beyond the 5 s limit: expiry never explains a return
		cancels = append(cancels, c2)
	}
	disconnectCalled = true
	dch := c11Go(func() error { return cli.Disconnect(dctx) })
	if sp.Cause == "cancel" {
		dcancel()
	}
	if sp.Phase == "rd_dialinflight" {
		// Disconnect is past RetryClient.Disconnect once it is parked in its own select; only then may the
		// dial succeed
		if !sc.waitSome(func(st string) bool {
			return strings.Contains(st, "(*reconnectClient).Disconnect") && strings.Contains(strings.SplitN(st, "\n", 2)[0], "[select")
		}, wait) {
			obs.Note = "Disconnect not seen parked in its select"
		}
		close(d.gate)
	}
	r, ok := c11Await(dch, wait)
	finish(r, ok, dctx)
	if !ok {
		// let it go at cleanup
		go func() { <-dch }()
	}
	// whatever Connect is still pending is cancelled now; then the loop goroutine must be gone
	for _, c := range cancels {
		c()
	}
	if connCh != nil {
		if r, ok := c11Await(connCh, wait); ok {
			connCh = nil
			if c := c11Classify(r, connCtx); c.Res != "ctx" && c.Res != "nil" {
				obs.Note = "pending Connect returned " + c.Res + " " + c.Detail
			}
		}
	}
	obs.LoopGone, _ = sc.waitNone(c11IsLoop, wait)
	return obs
}

// ---------------------------------------------------------------- Connect's context ending at each point

// c11RunCx: the context given to reconnectClient.Connect ends at sp.Phase — beforedial, duringdial,
// aftersetclient (inside BaseClient.Connect, before CONNECT is written: through a ConnectOption), connackwait,
// inactivecb (inside the ConnState(StateActive) callback of the dialled client: CONNACK accepted, hand-off not yet
// done; the callback returns only after the outer Connect has returned), afterreturn — followed by sp.Kind:
// disconnect (generous deadline), peerclose (a redial must follow), nothing.
func c11RunCx(sp c11Spec) (obs c11Obs) {
	wait := c11Limit()
	sc := c11NewScope()
	bg := context.Background()
	d := &c11Dialer{wake: make(chan struct{}, 1), mode: "ok"}
	switch sp.Phase {
	case "duringdial":
		d.mode, d.gate = "gate", make(chan struct{})
	case "inactivecb", "afterreturn":
		d.ackConn = true
	}
	ctx, cancel := context.WithCancel(bg)
	connReturned := make(chan struct{})
	active := make(chan struct{}, 8)
	waitOuter := func() {
		select {
		case <-connReturned:
		case <-time.After(c11Wait):
		}
	}
	d.onNew = func(n int, c *mqtt.BaseClient) {
		c.ConnState = func(st mqtt.ConnState, err error) {
			if st != mqtt.StateActive {
				return
			}
			select {
			case active <- struct{}{}:
			default:
			}
			if n == 1 && sp.Phase == "inactivecb" {
				cancel()
				waitOuter() // the caller of Connect has left before the loop hands the result over
			}
		}
	}
	cli, err := mqtt.NewReconnectClient(d, mqtt.WithReconnectWait(time.Millisecond, 4*time.Millisecond))
	if err != nil {
		obs.c11Res = c11Res{Res: "other", Detail: err.Error()}
		return obs
	}
	var nOpt int32
	opt := func(*mqtt.ConnectOptions) error {
		// 1st call: reconnectClient.Connect reading the options; 2nd: BaseClient.Connect of the dialled client
		if atomic.AddInt32(&nOpt, 1) == 2 && sp.Phase == "aftersetclient" {
			cancel()
			waitOuter()
		}
		return nil
	}
	disconnectCalled := false
	var connCh chan c11Ret
	defer func() {
		cancel()
		if !disconnectCalled {
			dctx, dcancel := ctxTimeout(wait)
			if _, ok := c11Await(c11Go(func() error { return cli.Disconnect(dctx) }), wait); !ok {
				obs.AuxStuck += "final Disconnect "
			}
			dcancel()
		}
		d.mu.Lock()
		clis := append([]*mqtt.BaseClient{}, d.clis...)
		d.mu.Unlock()
		for _, c := range clis {
			c11CloseG(c, &obs.AuxStuck)
		}
		if connCh != nil {
			if _, ok := c11Await(connCh, wait); !ok {
				obs.AuxStuck += "Connect "
			}
		}
		if ok, left := sc.waitNone(nil, wait); !ok {
			obs.Leak = left
			obs.LeakAt = sc.stackOfNew()
		}
	}()
	if sp.Phase == "beforedial" {
		cancel()
	}
	connCh = c11Go(func() error { _, err := cli.Connect(ctx, "cid", opt); return err })
	switch sp.Phase {
	case "duringdial":
		d.waitDials(1, wait)
		cancel()
	case "connackwait":
		d.waitDials(1, wait)
		if p := d.lastPeer(); p != nil {
			p.waitSeen(0x10, 1, nil, wait)
		}
		cancel()
	}
	r, ok := c11Await(connCh, wait)
	if ok {
		connCh = nil
		obs.c11Res = c11Classify(r, ctx)
	} else {
		obs.c11Res = c11Res{Res: "stuck"}
	}
	close(connReturned)
	if sp.Phase == "afterreturn" {
		cancel() // too late to matter
	}
	established := sp.Phase == "inactivecb" || sp.Phase == "afterreturn"
	if established {
		select {
		case <-active:
			obs.Mid = true // the first connection was established
		case <-time.After(c11Clamp(wait)):
			c11Expired(wait)
		}
	} else {
		// no connection: the loop must go away by itself, its context has ended
		obs.LoopGone, _ = sc.waitNone(c11IsLoop, wait)
	}
	switch sp.Kind {
	case "disconnect":
		disconnectCalled = true
		dctx, dcancel := ctxTimeout(3 * c11Wait) // generous: its expiry never explains a return
		defer dcancel()
		dch := c11Go(func() error { return cli.Disconnect(dctx) })
		if r, ok := c11Await(dch, wait); ok {
			obs.ExclRet = r.err == nil && r.panicked == ""
			if !obs.ExclRet {
				obs.Note = fmt.Sprintf("Disconnect returned %v %s", r.err, r.panicked)
			}
		} else {
			obs.Note = "Disconnect did not return although the connection has ended"
			go func() { <-dch }()
		}
		obs.LoopGone, _ = sc.waitNone(c11IsLoop, wait)
	case "peerclose":
		if p := d.lastPeer(); p != nil {
			p.ended = true
			p.conn.finish()
		}
		obs.ExclRet = d.waitDials(2, wait) // the loop supervises the connection: a redial follows
		obs.LoopGone = true
	default:
		obs.ExclRet = true
		if established {
			// the loop goroutine supervises the established connection
			obs.LoopGone = len(sc.find(c11IsLoop)) > 0
		}
	}
	return obs
}

// ---------------------------------------------------------------- child process

func runC11Child(cfg *runCfg) error {
	if s := os.Getenv("C11_WAIT_SCALE"); s != "" {
		fmt.Sscan(s, &c11WaitScale)
	}
	in := bufio.NewReaderSize(os.Stdin, 1<<16)
	out := bufio.NewWriter(os.Stdout)
	for {
		line, err := in.ReadString('\n')
		line = strings.TrimSpace(line)
		if line != "" {
			var sp c11Spec
			if e := json.Unmarshal([]byte(line), &sp); e != nil {
				return e
			}
			fmt.Fprintf(os.Stderr, "CASE %s\n", line)
			var o c11Obs
			t0 := time.Now()
			switch sp.Fam {
			case "cell":
				o = c11RunCell(sp)
			case "cx":
				o = c11RunCx(sp)
			case "handler":
				o = c11RunHandler(sp)
			case "seq":
				o = c11RunSeq(sp)
			case "stray":
				o = c11RunStray(sp)
			case "multi":
				o = c11RunMulti(sp)
			case "reconn":
				o = c11RunReconn(sp)
			}
			o.Ms = time.Since(t0).Milliseconds()
			b, _ := json.Marshal(o)
			out.Write(b)
			out.WriteByte('\n')
			out.Flush()
		}
		if err != nil {
			return nil
		}
	}
}

type c11Child struct {
	cmd      *exec.Cmd
	stdin    io.WriteCloser
	stdout   *bufio.Reader
	stderr   *strings.Builder
	timedOut bool
}

func c11Spawn() (*c11Child, error) {
	cmd := exec.Command(os.Args[0], "C11child")
	stdin, err := cmd.StdinPipe()
	if err != nil {
		return nil, err
	}
	stdout, err := cmd.StdoutPipe()
	if err != nil {
		return nil, err
	}
	sb := &strings.Builder{}
	cmd.Stderr = sb
	if err := cmd.Start(); err != nil {
		return nil, err
	}
	return &c11Child{cmd: cmd, stdin: stdin, stdout: bufio.NewReaderSize(stdout, 1<<16), stderr: sb}, nil
}

func (c *c11Child) run(sp c11Spec) (c11Obs, bool) {
	b, _ := json.Marshal(sp)
	if _, err := fmt.Fprintf(c.stdin, "%s\n", b); err != nil {
		return c11Obs{}, false
	}
	type rd struct {
		line string
		err  error
	}
	ch := make(chan rd, 1)
	go func() { l, e := c.stdout.ReadString('\n'); ch <- rd{l, e} }()
	select {
	case r := <-ch:
		if r.err != nil {
			return c11Obs{}, false
		}
		var o c11Obs
		if json.Unmarshal([]byte(r.line), &o) != nil {
			return c11Obs{}, false
		}
		return o, true
	case <-time.After(75 * time.Second): // a scenario never needs more than ~50 s of limits
		c.timedOut = true
		return c11Obs{}, false
	}
}

func (c *c11Child) kill() string {
	c.stdin.Close()
	done := make(chan struct{})
	go func() { c.cmd.Wait(); close(done) }()
	select {
	case <-done:
	case <-time.After(3 * time.Second):
		c.cmd.Process.Kill()
		<-done
	}
	s := c.stderr.String()
	if i := strings.Index(s, "panic:"); i >= 0 {
		s = s[i:]
	} else if i := strings.Index(s, "fatal error:"); i >= 0 {
		s = s[i:]
	} else if len(s) > 300 {
		s = s[len(s)-300:]
	}
	if len(s) > 500 {
		s = s[:500]
	}
	return s
}

// ---------------------------------------------------------------- Coq encoding

var c11CallCode = map[string]int{"connect": 0, "pub0": 1, "pub1": 2, "pub2": 3, "sub": 4, "unsub": 5, "ping": 6, "disconnect": 7, "retryping": 8,
	"rpub1": 9, "rpub1x": 10, "rpub2": 11, "rpub2x": 12, "rrel": 13, "rrelx": 14, "rsub": 15, "rsubx": 16, "runsub": 17, "runsubx": 18}
var c11PointCode = map[string]int{"entry": 0, "before": 1, "wait1": 2, "wait2": 3, "inwrite": 4}
var c11CauseCode = map[string]int{"cancel": 0, "deadline": 1, "localclose": 2, "localdisconnect": 3, "peerclose": 4, "malformed": 5,
	"readerr_plain": 6, "readerr_unexpeof": 6, "readerr_deadline": 6, "readerr_etimedout": 6, "readerr_temporary": 6, "readerr_timeout": 6}

var c11Causes = append([]string{"cancel", "deadline", "localclose", "localdisconnect", "peerclose", "malformed"}, c11ReadErrNames...)
var c11ResCode = map[string]int{"stuck": 0, "nil": 1, "ctx": 2, "closed": 3, "write": 4, "other": 5, "panic": 6}
var c11PhaseCode = map[string]int{"rc_dialfail": 0, "rc_dialhang": 1, "rc_ackwithheld": 2, "rd_never": 3, "rd_afterfailed": 4,
	"rd_duringdialfail": 5, "rd_waitconnack": 6, "rd_connected": 7, "rd_backoffafterloss": 8,
	"rc_dialfailbackoff": 9, "rc_refusedbackoff": 10, "rc_peerclosedbackoff": 10, "rc_malformedbackoff": 10, "rc_refusedthendialhang": 11}

var c11Phases = []string{"rc_dialfail", "rc_dialhang", "rc_ackwithheld", "rc_dialfailbackoff", "rc_refusedbackoff", "rc_peerclosedbackoff",
	"rc_malformedbackoff", "rc_refusedthendialhang", "rd_never", "rd_afterfailed", "rd_duringdialfail", "rd_waitconnack", "rd_connected", "rd_backoffafterloss"}
var c11RCauseCode = map[string]int{"none": 0, "cancel": 1, "deadline": 2}

func c11Names(m map[string]int) []string {
	out := make([]string, len(m))
	for k, v := range m {
		out[v] = k
	}
	return out
}

func c11Valid(call, point, cause string) bool {
	nw := map[string]int{"pub0": 0, "disconnect": 0, "pub2": 2, "rpub2": 2, "rpub2x": 2}
	n, ok := nw[call]
	if !ok {
		n = 1
	}
	switch point {
	case "entry":
		// retryPublish2 (rrel) takes no lock
		return call != "connect" && call != "rrel" && call != "rrelx" && cause != "localdisconnect"
	case "before":
		return true
	case "wait1":
		return n >= 1 && !(call == "connect" && cause == "localdisconnect")
	case "inwrite":
		return cause == "localclose" || cause == "peerclose" || strings.HasPrefix(cause, "readerr")
	default:
		return n >= 2
	}
}

func c11RValid(phase, cause string) bool {
	switch phase {
	case "rc_dialfail", "rc_dialhang", "rc_ackwithheld", "rd_never", "rc_dialfailbackoff", "rc_refusedbackoff",
		"rc_peerclosedbackoff", "rc_malformedbackoff", "rc_refusedthendialhang":
		return cause != "none"
	}
	return cause == "none"
}

// c11Listed: is the signature in /verif/known_findings.json (any status)?
func c11Listed(sig string) bool {
	root := os.Getenv("VERIF_ROOT")
	if root == "" {
		root = "/verif"
	}
	b, err := os.ReadFile(root + "/known_findings.json")
	if err != nil {
		return false
	}
	var kf struct {
		Findings []struct {
			Property  string `json:"property"`
			Signature string `json:"signature"`
		} `json:"findings"`
	}
	if json.Unmarshal(b, &kf) != nil {
		return false
	}
	for _, f := range kf.Findings {
		if f.Signature == sig && f.Property == "C11" {
			return true
		}
	}
	return false
}

func c11CoqRes(r c11Res) string {
	return cTuple(fmt.Sprint(c11ResCode[r.Res]), cBool(r.Retry))
}

func runC11(cfg *runCfg) error {
	r := rand.New(rand.NewSource(cfg.seed))
	cf := newCasesFile("C11", "Calls", "CheckC11")
	m := &meta{Property: "C11", Distribution: map[string]interface{}{}, Families: map[string][]interface{}{}}
	dist := map[string]int{}

	child, err := c11Spawn()
	if err != nil {
		return err
	}
	crashes := 0
	// A scenario that hangs costs 10-20 s of limits. Once several have hung the verdict is settled
	// (each one is a V_ entry): the remaining scenarios are skipped so that a broken tree is reported
	// in minutes, not in a quarter of an hour.
	const maxHung = 6
	hung, skipped := 0, 0
	// ... and a hard limit for the whole run: past it everything left is skipped (and counted)
	budget := 150 * time.Second
	if cfg.tier == "thorough" {
		budget = 25 * time.Minute
	}
	runDeadline := time.Now().Add(budget)
	over := func() bool { return hung >= maxHung || time.Now().After(runDeadline) }
	exec1 := func(sp c11Spec) (c11Obs, error) {
		o, ok := child.run(sp)
		if !ok {
			timedOut := child.timedOut
			crash := child.kill()
			crashes++
			hung++
			if timedOut {
				o = c11Obs{c11Res: c11Res{Res: "stuck", Detail: "the scenario exceeded its budget of 75 s; its process was killed"}, AuxStuck: "scenario killed "}
				hung-- // counted below
			} else {
				o = c11Obs{c11Res: c11Res{Res: "panic", Detail: crash}, Crash: crash}
			}
			m.ImplViolations = append(m.ImplViolations, map[string]interface{}{"scenario": sp, "what": map[bool]string{true: "the scenario did not end within 75 s: its process was killed", false: "the process running this scenario died"}[timedOut], "crash": crash})
			var e error
			child, e = c11Spawn()
			if e != nil {
				return o, e
			}
		}
		isHung := o.Res == "stuck" || o.AuxStuck != "" || len(o.Leak) > 0
		for _, x := range o.All {
			if x.Res == "stuck" {
				isHung = true
			}
		}
		if isHung {
			hung++
		}
		return o, nil
	}
	rounds := 1
	nMulti := 60
	switch cfg.tier {
	case "thorough":
		rounds, nMulti = 20, 6000
	case "search":
		rounds, nMulti = 2, 200
	}

	// ---- the matrix, exhaustively, in a seed-dependent order
	var specs []c11Spec
	for _, c := range c11Names(c11CallCode) {
		for _, p := range c11Names(c11PointCode) {
			for _, z := range c11Causes {
				if c11Valid(c, p, z) {
					specs = append(specs, c11Spec{Fam: "cell", Call: c, Point: p, Cause: z})
				}
			}
		}
	}
	var cellCases []string
	sawF14 := false
	nontrivial := 0
	for round := 0; round < rounds; round++ {
		order := r.Perm(len(specs))
		for _, i := range order {
			sp := specs[i]
			if over() {
				skipped++
				continue
			}
			o, err := exec1(sp)
			if err != nil {
				return err
			}
			if o.F14 {
				sawF14 = true
			}
			cellCases = append(cellCases, cTuple(
				fmt.Sprint(c11CallCode[sp.Call]), fmt.Sprint(c11PointCode[sp.Point]), fmt.Sprint(c11CauseCode[sp.Cause]),
				fmt.Sprint(c11ResCode[o.Res]), cBool(o.Retry), cBool(o.Done), cBool(o.RExit),
				cBool(o.F14), cBool(len(o.Leak) > 0), cBool(o.AuxStuck != "" || o.EndBad != "")))
			fc := map[string]interface{}{"call": sp.Call, "point": sp.Point, "cause": sp.Cause, "observed": o}
			m.Families["cell"] = append(m.Families["cell"], fc)
			dist["cell_"+sp.Point+"_"+o.Res]++
			if sp.Point != "before" {
				nontrivial++
			}
			if len(m.Samples) < 3 && sp.Point == "wait2" {
				m.Samples = append(m.Samples, fc)
			}
		}
	}
	cf.def("cell_cases", "list c11_cell_case", cList(cellCases))
	cf.result("V_cell", "c11_cell_violations cell_cases")
	cf.result("M_cell", "c11_cell_mismatches cell_cases")

	// ---- sequences ending with Close(): stalled write + cancel + Close for every call; Disconnect (write failed /
	// succeeded) + Close
	var seqCases []string
	var seqSpecs []c11Spec
	for _, c := range c11Names(c11CallCode) {
		seqSpecs = append(seqSpecs, c11Spec{Fam: "seq", Call: c, K: 0})
	}
	seqSpecs = append(seqSpecs, c11Spec{Fam: "seq", Call: "disconnect", K: 1}, c11Spec{Fam: "seq", Call: "disconnect", K: 2})
	for round := 0; round < rounds; round++ {
		for _, sp := range seqSpecs {
			if over() {
				skipped++
				continue
			}
			o, err := exec1(sp)
			if err != nil {
				return err
			}
			seqCases = append(seqCases, cTuple(fmt.Sprint(sp.K), fmt.Sprint(c11CallCode[sp.Call]), fmt.Sprint(c11ResCode[o.Res]), cBool(o.Retry),
				cBool(o.Done), cBool(o.RExit), cBool(o.TClosed), cBool(o.Mid), cBool(len(o.Leak) > 0 || o.AuxStuck != "" || o.Crash != "")))
			kind := []string{"parked in Transport.Write, cancel, Close", "Disconnect whose write fails, Close", "Disconnect, Close"}[sp.K]
			m.Families["seq"] = append(m.Families["seq"], map[string]interface{}{"sequence": kind, "call": sp.Call, "observed": o})
			dist["seq_"+o.Res]++
			nontrivial++
		}
	}
	cf.def("seq_cases", "list c11_seq_case", cList(seqCases))
	cf.result("V_seq", "c11_seq_violations seq_cases")
	cf.result("M_seq", "c11_seq_mismatches seq_cases")

	// ---- stray acknowledgements consumed before the cause
	var straySpecs []c11Spec
	for _, cp := range []string{"none@wait1", "pub1@wait1", "pub2@wait1", "pub2@wait2", "sub@wait1", "unsub@wait1", "ping@wait1"} {
		parts := strings.Split(cp, "@")
		for _, z := range []string{"cancel", "localclose", "localdisconnect", "peerclose", "malformed"} {
			if parts[0] == "none" && z == "cancel" {
				continue
			}
			for _, kind := range []string{"pingresp", "connack", "puback", "pubrec", "pubcomp", "suback", "unsuback"} {
				if kind == "pingresp" && parts[0] == "ping" {
					continue // a PINGRESP would simply answer the parked Ping
				}
				modes := []string{"consumed", "unknown"}
				if kind == "pingresp" {
					modes = []string{"answered", "timedout"}
				}
				if kind == "connack" {
					modes = []string{"unsolicited"} // a repeated CONNACK: its one-slot channel was emptied by Connect
				}
				for _, ids := range modes {
					for k := 1; k <= 3; k++ {
						straySpecs = append(straySpecs, c11Spec{Fam: "stray", Call: parts[0], Point: parts[1], Cause: z, Kind: kind, IDs: ids, K: k})
					}
				}
			}
		}
	}
	var strayCases []string
	strayRun := 0
	strayRounds := 1
	if cfg.tier == "thorough" {
		strayRounds = 3
	}
	var strayOrder []int
	for round := 0; round < strayRounds; round++ {
		strayOrder = append(strayOrder, r.Perm(len(straySpecs))...)
	}
	for _, i := range strayOrder {
		sp := straySpecs[i]
		if over() {
			skipped++
			continue
		}
		o, err := exec1(sp)
		if err != nil {
			return err
		}
		strayRun++
		cc := 99
		if sp.Call != "none" {
			cc = c11CallCode[sp.Call]
		}
		strayCases = append(strayCases, cTuple(fmt.Sprint(cc), fmt.Sprint(c11PointCode[sp.Point]), fmt.Sprint(c11CauseCode[sp.Cause]),
			fmt.Sprint(sp.K), fmt.Sprint(c11ResCode[o.Res]), cBool(o.Retry), cBool(o.Done), cBool(o.RExit), cBool(o.Marker),
			cBool(len(o.Leak) > 0 || o.AuxStuck != "" || o.Crash != "")))
		fc := map[string]interface{}{"blocked_call": sp.Call, "point": sp.Point, "stray_kind": sp.Kind, "stray_ids": sp.IDs, "k": sp.K, "cause": sp.Cause, "observed": o}
		m.Families["stray"] = append(m.Families["stray"], fc)
		dist["stray_"+sp.Kind+"_"+o.Res]++
		nontrivial++
		if len(m.Samples) < 5 && sp.Kind == "pingresp" && sp.K == 2 && sp.Call == "sub" {
			m.Samples = append(m.Samples, fc)
		}
	}
	cf.def("stray_cases", "list c11_stray_case", cList(strayCases))
	cf.result("V_stray", "c11_stray_violations stray_cases")
	cf.result("M_stray", "c11_stray_mismatches stray_cases")

	// ---- a message handler in progress
	var hCases []string
	exclCode := map[string]int{"none": 0, "disconnect": 1, "done": 2, "handle": 3, "close": 4}
	reqKinds := []string{"ping", "pub1", "pub2", "sub", "unsub"}
	for round := 0; round < rounds; round++ {
		for q := 0; q <= 2; q++ {
			for _, excl := range []string{"none", "disconnect", "done", "handle", "close"} {
				for _, order := range []string{"before", "after"} {
					for _, z := range []string{"cancel", "deadline"} {
						for _, re := range []string{"", "reentrant"} {
							sp := c11Spec{Fam: "handler", K: q, Kind: excl, IDs: order, Cause: z, Phase: re}
							// one request alone or several at once
							nreq := 1 + r.Intn(4)
							for _, j := range r.Perm(len(reqKinds))[:nreq] {
								sp.Calls = append(sp.Calls, reqKinds[j])
							}
							if over() {
								skipped++
								continue
							}
							o, err := exec1(sp)
							if err != nil {
								return err
							}
							var cs, rs []string
							for _, c := range sp.Calls {
								cs = append(cs, fmt.Sprint(c11CallCode[c]))
							}
							for _, x := range o.All {
								rs = append(rs, c11CoqRes(x))
								dist["handler_"+x.Res]++
							}
							hCases = append(hCases, cTuple(fmt.Sprint(q), fmt.Sprint(exclCode[excl]), cBool(order == "before"), fmt.Sprint(c11CauseCode[z]),
								cBool(re != ""), cListInline(cs), cListInline(rs), cBool(o.ExclRet), cBool(o.HandRet), cBool(o.Done), cBool(o.RExit),
								cBool(len(o.Leak) > 0 || o.AuxStuck != "" || o.Crash != "")))
							m.Families["handler"] = append(m.Families["handler"], map[string]interface{}{"inbound_qos": q, "exclusive_lock_caller": excl, "arrives": order,
								"cause": z, "handler_reentrant": re != "", "requests": sp.Calls, "observed": o})
							nontrivial++
						}
					}
				}
			}
		}
	}
	cf.def("handler_cases", "list c11_handler_case", cList(hCases))
	cf.result("V_handler", "c11_handler_violations handler_cases")
	cf.result("M_handler", "c11_handler_mismatches handler_cases")

	// ---- several calls blocked at once, one connection end
	kinds := []string{"pub1@wait1", "pub2@wait1", "pub2@wait2", "sub@wait1", "unsub@wait1", "ping@wait1"}
	ends := append([]string{"localclose", "localdisconnect", "peerclose", "malformed"}, c11ReadErrNames...)
	var multiCases []string
	for i := 0; i < nMulti; i++ {
		n := 2 + r.Intn(5)
		sp := c11Spec{Fam: "multi", Cause: ends[i%len(ends)]}
		for j := 0; j < n; j++ {
			sp.Calls = append(sp.Calls, kinds[r.Intn(len(kinds))])
		}
		if i%3 == 2 {
			// every third scenario: the contexts of a random non-empty proper subset are cancelled first
			for _, j := range r.Perm(n)[:1+r.Intn(n-1)] {
				sp.Cancel = append(sp.Cancel, j)
			}
			sort.Ints(sp.Cancel)
		}
		if over() {
			skipped++
			continue
		}
		o, err := exec1(sp)
		if err != nil {
			return err
		}
		var cs, rs []string
		for _, cp := range sp.Calls {
			parts := strings.Split(cp, "@")
			cs = append(cs, cTuple(fmt.Sprint(c11CallCode[parts[0]]), fmt.Sprint(c11PointCode[parts[1]])))
		}
		for _, x := range o.All {
			rs = append(rs, c11CoqRes(x))
			dist["multi_"+x.Res]++
		}
		var cn []string
		for _, j := range sp.Cancel {
			cn = append(cn, fmt.Sprint(j))
		}
		multiCases = append(multiCases, cTuple(cListInline(cs), cListInline(cn), fmt.Sprint(c11CauseCode[sp.Cause]), cListInline(rs),
			cBool(o.Done), cBool(o.RExit), cBool(len(o.Leak) > 0 || o.AuxStuck != "" || o.Crash != "" || o.EndBad != "")))
		fc := map[string]interface{}{"calls": sp.Calls, "cancelled_first": sp.Cancel, "cause": sp.Cause, "observed": o}
		m.Families["multi"] = append(m.Families["multi"], fc)
		nontrivial++
		if i < 2 {
			m.Samples = append(m.Samples, fc)
		}
	}
	cf.def("multi_cases", "list c11_multi_case", cList(multiCases))
	cf.result("V_multi", "c11_multi_violations multi_cases")
	cf.result("M_multi", "c11_multi_mismatches multi_cases")

	// ---- the reconnecting client
	var rcCases []string
	for round := 0; round < rounds; round++ {
		for _, p := range c11Phases {
			for _, z := range c11Names(c11RCauseCode) {
				if !c11RValid(p, z) {
					continue
				}
				sp := c11Spec{Fam: "reconn", Phase: p, Cause: z}
				if over() {
					skipped++
					continue
				}
				o, err := exec1(sp)
				if err != nil {
					return err
				}
				rcCases = append(rcCases, cTuple(fmt.Sprint(c11PhaseCode[p]), fmt.Sprint(c11RCauseCode[z]),
					fmt.Sprint(c11ResCode[o.Res]), cBool(o.LoopGone), cBool(len(o.Leak) > 0 || o.AuxStuck != "")))
				fc := map[string]interface{}{"phase": p, "cause": z, "observed": o}
				m.Families["reconn"] = append(m.Families["reconn"], fc)
				dist["reconn_"+o.Res]++
				nontrivial++
				if o.Res == "panic" && o.Crash == "" {
					m.ImplViolations = append(m.ImplViolations, map[string]interface{}{"scenario": sp, "what": "panic in the calling goroutine", "panic": o.Detail})
				}
				if len(m.Samples) < 6 && p == "rd_backoffafterloss" {
					m.Samples = append(m.Samples, fc)
				}
			}
		}
	}
	// ---- the reconnecting Connect's context ending at each point of the first connection's establishment
	var cxCases []string
	cxPoints := []string{"beforedial", "duringdial", "aftersetclient", "connackwait", "inactivecb", "afterreturn"}
	cxFollows := []string{"disconnect", "peerclose", "nothing"}
	for round := 0; round < rounds; round++ {
		for pi, p := range cxPoints {
			for fi, f := range cxFollows {
				if f == "peerclose" && pi < 4 {
					continue // no connection was established
				}
				if over() {
					skipped++
					continue
				}
				sp := c11Spec{Fam: "cx", Phase: p, Kind: f}
				o, err := exec1(sp)
				if err != nil {
					return err
				}
				cxCases = append(cxCases, cTuple(fmt.Sprint(pi), fmt.Sprint(fi), fmt.Sprint(c11ResCode[o.Res]), cBool(o.Mid), cBool(o.ExclRet), cBool(o.LoopGone),
					cBool(len(o.Leak) > 0 || o.AuxStuck != "" || o.Crash != "")))
				m.Families["cx"] = append(m.Families["cx"], map[string]interface{}{"connect_context_ends": p, "then": f, "observed": o})
				dist["cx_"+o.Res]++
				nontrivial++
			}
		}
	}
	cf.def("cx_cases", "list c11_cx_case", cList(cxCases))
	cf.result("V_cx", "c11_cx_violations cx_cases")
	cf.result("M_cx", "c11_cx_mismatches cx_cases")

	// ---- probe (not a matrix cell): Disconnect while the FIRST dial is still in progress, the dial then
	// succeeds. RetryClient.Disconnect finds no task channel to close, SetClient afterwards starts the task
	// goroutine of a client that is already stopped: it can never end. Reported as signature F19 once the
	// coordinator has listed it in known_findings.json (as known or as fixed); until then only recorded.
	if hung < maxHung {
		sp := c11Spec{Fam: "reconn", Phase: "rd_dialinflight", Cause: "none"}
		o, err := exec1(sp)
		if err != nil {
			return err
		}
		shows := o.Res != "nil" || !o.LoopGone || len(o.Leak) > 0 || o.AuxStuck != ""
		m.Distribution["probe_disconnect_during_first_dial"] = map[string]interface{}{"shows_defect": shows, "observed": o}
		m.Families["probe_f19"] = append(m.Families["probe_f19"], map[string]interface{}{"phase": sp.Phase, "observed": o})
		if shows && c11Listed("F19") {
			m.Known = append(m.Known, "F19")
		}
	}
	cf.def("reconn_cases", "list c11_reconn_case", cList(rcCases))
	cf.result("V_reconn", "c11_reconn_violations reconn_cases")
	cf.result("M_reconn", "c11_reconn_mismatches reconn_cases")
	child.kill()

	if sawF14 {
		m.Known = append(m.Known, "F14")
	}
	for k, v := range dist {
		m.Distribution[k] = v
	}
	m.Distribution["matrix_cells"] = len(specs)
	m.Distribution["matrix_rounds"] = rounds
	m.Distribution["multi_scenarios"] = nMulti
	m.Distribution["reconn_scenarios"] = len(rcCases)
	m.Distribution["child_crashes"] = crashes
	m.Distribution["scenarios_hung"] = hung
	m.Distribution["run_budget_s"] = int(budget / time.Second)
	m.Distribution["run_budget_exhausted"] = time.Now().After(runDeadline)
	m.Distribution["scenarios_skipped_after_hangs"] = skipped
	m.Distribution["stray_scenarios"] = strayRun
	m.Distribution["stray_space"] = len(straySpecs)
	m.Distribution["seq_scenarios"] = len(seqCases)
	m.Distribution["handler_scenarios"] = len(hCases)
	m.Distribution["cx_scenarios"] = len(cxCases)
	m.Evaluations = len(cxCases) + len(hCases) + len(cellCases) + len(seqCases) + len(strayCases) + len(multiCases) + len(rcCases)
	m.DistinctNontrivial = nontrivial
	m.Exhaustive = skipped == 0
	m.Rule = fmt.Sprintf("the whole matrix of Calls.v (%d cells: 9 calls x {waiting for the connect lock, before the write, parked in the 1st select, parked in the 2nd select} x {cancel, deadline, Close, Disconnect, peer close, malformed packet}) executed %d time(s) on a real BaseClient over an in-memory transport whose scripted peer withholds exactly the awaited answer (parked = request seen on the wire); %d of the %d 'stray acknowledgement' scenarios ({no call, QoS1, QoS2 at PUBREC, QoS2 at PUBCOMP, Subscribe, Unsubscribe, Ping parked} x {cancel, Close, Disconnect, peer close, malformed} x {1,2,3} x {PINGRESP after an answered / a timed-out Ping; repeated CONNACK; PUBACK, PUBREC, PUBCOMP, SUBACK, UNSUBACK duplicating a completed exchange / for an identifier never used}; a marker PUBLISH handed to the handler shows the reader consumed them; then the cause); %d scenarios with 2-6 random calls parked on one connection (in every third one the contexts of a random subset are cancelled first) and one connection end; %d scenarios of the reconnecting client (Connect with failing/hanging dials or CONNACK withheld + cancel/deadline; Disconnect in six phases). distinct_nontrivial = scenarios in which a call is really blocked when the cause strikes (everything except the 'before the write' cells)", len(specs), rounds, strayRun, len(straySpecs), nMulti, len(rcCases))
	if err := cf.write(cfg.outDir); err != nil {
		return err
	}
	return m.write(cfg.outDir)
}
