package main

// C20 — saturation family: N asynchronous handlers parked on a gate (through one or several
// ServeAsync values; plain handler, ServeMux behind ServeAsync, ServeAsync registered in a ServeMux),
// then further messages through a ServeAsync whose handler mutates every field and keeps the
// message, while the caller rewrites its own buffer. Judged: content seen on entry, caller's message
// after Serve returned / after the handler's writes, kept message after the caller's rewrite, pointer
// identity, and whether the handler ran on the goroutine that called Serve (Serve must return
// without running or waiting for the handler).

import (
	"bytes"
	"fmt"
	"math/rand"
	"runtime"
	"strconv"
	"sync"
	"time"

	mqtt "github.com/at-wat/mqtt-go"
)

func c20Gid() int64 {
	var buf [64]byte
	b := buf[:runtime.Stack(buf[:], false)]
	b = bytes.TrimPrefix(b, []byte("goroutine "))
	if i := bytes.IndexByte(b, ' '); i > 0 {
		n, _ := strconv.ParseInt(string(b[:i]), 10, 64)
		return n
	}
	return -1
}

type c20SatObs struct {
	N                                   int
	Park, Target                        string
	D                                   c20Content
	Extra, CExtra                       int
	Cops, Hops, Cops2                   []*c20Op
	Seen, A1, Mine, A2, KExp, KAct      c20Content
	SamePtr, Inline                     bool
	Stuck                               string
}

func c20OpsCoq(ops []*c20Op) string {
	var l []string
	for _, o := range ops {
		l = append(l, o.coq())
	}
	return cListInline(l)
}

func (o *c20SatObs) coq() string {
	return cTuple(fmt.Sprint(o.N), o.D.coq(), fmt.Sprint(o.Extra), fmt.Sprint(o.CExtra), c20OpsCoq(o.Cops), c20OpsCoq(o.Hops), c20OpsCoq(o.Cops2),
		cTuple(o.Seen.coq(), o.A1.coq(), o.Mine.coq(), o.A2.coq(), o.KExp.coq(), o.KAct.coq(), cBool(o.SamePtr), cBool(o.Inline)))
}

func (o *c20SatObs) describe() map[string]interface{} {
	return map[string]interface{}{"parked_handlers": o.N, "parked_through": o.Park, "message_through": o.Target,
		"dispatched": o.D.String(), "seen_on_entry": o.Seen.String(), "caller_after_serve_returned": o.A1.String(),
		"caller_after_own_rewrite": o.Mine.String(), "caller_after_handler_wrote": o.A2.String(),
		"kept_after_handler_wrote": o.KExp.String(), "kept_after_caller_rewrote_again": o.KAct.String(),
		"handler_got_callers_pointer": o.SamePtr, "handler_ran_on_the_goroutine_calling_Serve": o.Inline, "stuck": o.Stuck}
}

// c20SatRun parks n handlers and then serves msgs further messages.
func c20SatRun(r *rand.Rand, n, nvals, parkShape, targetShape, msgs int) []*c20SatObs {
	release := make(chan struct{})
	var parked sync.WaitGroup
	arrived := make(chan struct{}, n+8)
	type keep struct {
		callerGid int64
		caller    *mqtt.Message
		entered   chan struct{}
		gate      chan struct{}
		done      chan struct{}
		obs       *c20SatObs
		kept      *mqtt.Message
	}
	mainGid := c20Gid()
	inlineParks := 0
	var cur *keep // set before Serve is called, read by the handler (happens-before through go / the call)
	handler := mqtt.HandlerFunc(func(m *mqtt.Message) {
		if m.Topic == "park" {
			defer parked.Done()
			arrived <- struct{}{}
			if c20Gid() == mainGid {
				// Serve runs the handler on the goroutine that called it: parking here would block the caller
				inlineParks++
				return
			}
			select {
			case <-release:
			case <-time.After(8 * c20Wait):
			}
			return
		}
		k := cur
		o := k.obs
		o.Inline = c20Gid() == k.callerGid
		o.SamePtr = m == k.caller
		o.Seen = c20Snap(m)
		o.CExtra = cap(m.Payload) - len(m.Payload)
		close(k.entered)
		if !o.Inline {
			select {
			case <-k.gate:
			case <-time.After(4 * c20Wait):
			}
		}
		o.Hops = c20Scribble(m, "handler/wrote")
		for _, op := range o.Hops {
			op.apply(m)
		}
		o.KExp = c20Snap(m)
		k.kept = m
		close(k.done)
	})
	// the values and shapes the parked dispatches go through
	var parkVia []mqtt.Handler
	parkName := ""
	for j := 0; j < nvals; j++ {
		switch parkShape {
		case 0:
			parkName = "ServeAsync{handler}"
			parkVia = append(parkVia, &mqtt.ServeAsync{Handler: handler})
		case 1:
			parkName = "ServeAsync{ServeMux{handler}}"
			mux := &mqtt.ServeMux{}
			mux.Handle("#", handler)
			parkVia = append(parkVia, &mqtt.ServeAsync{Handler: mux})
		default:
			parkName = "ServeMux{ServeAsync{handler}}"
			mux := &mqtt.ServeMux{}
			mux.Handle("#", &mqtt.ServeAsync{Handler: handler})
			parkVia = append(parkVia, mux)
		}
	}
	parkName = fmt.Sprintf("%d x %s", nvals, parkName)
	pm := &mqtt.Message{Topic: "park", Payload: []byte{0}}
	parked.Add(n)
	var out []*c20SatObs
	stuck := ""
	// the burst is made by a goroutine of its own so that a Serve that blocks cannot hang the harness
	burst := make(chan struct{})
	go func() {
		mainGid = c20Gid()
		for i := 0; i < n; i++ {
			parkVia[i%nvals].Serve(pm)
		}
		close(burst)
	}()
	select {
	case <-burst:
	case <-time.After(c20Wait):
		stuck = fmt.Sprintf("stuck: ServeAsync.Serve blocks its caller during a burst of %d messages with parked handlers", n)
		close(release)
		<-burst
		return []*c20SatObs{{N: n, Park: parkName, Stuck: stuck}}
	}
	if inlineParks > 0 {
		out = append(out, &c20SatObs{N: n, Park: parkName, Target: fmt.Sprintf("(%d of the %d parked dispatches)", inlineParks, n), Inline: true, SamePtr: true})
	}
	// all parked handlers are really running (entered and blocked) before the further messages
	dl := time.After(4 * c20Wait)
	for i := 0; i < n && stuck == ""; i++ {
		select {
		case <-arrived:
		case <-dl:
			stuck = fmt.Sprintf("stuck: only %d of %d handlers behind ServeAsync were started", i, n)
		}
	}
	for k := 0; k < msgs && stuck == ""; k++ {
		d := c20RandContent(r)
		if len(d.Payload) == 0 {
			d.Payload = []byte{byte(k + 1), 2}
		}
		if d.Topic == "park" {
			d.Topic = "a"
		}
		o := &c20SatObs{N: n, Park: parkName, D: d, Extra: r.Intn(3)}
		kp := &keep{entered: make(chan struct{}), gate: make(chan struct{}), done: make(chan struct{}), obs: o}
		m := &mqtt.Message{Topic: d.Topic, ID: d.ID, QoS: mqtt.QoS(d.QoS), Retain: d.Retain, Dup: d.Dup, Payload: make([]byte, len(d.Payload), len(d.Payload)+o.Extra)}
		copy(m.Payload, d.Payload)
		kp.caller = m
		var target mqtt.Handler
		switch targetShape {
		case 0:
			o.Target = "a fresh ServeAsync{handler}"
			target = &mqtt.ServeAsync{Handler: handler}
		case 1:
			o.Target = "a fresh ServeAsync{ServeMux{handler}}"
			mux := &mqtt.ServeMux{}
			mux.Handle("#", handler)
			target = &mqtt.ServeAsync{Handler: mux}
		default:
			if _, ok := parkVia[0].(*mqtt.ServeAsync); ok && parkShape == 0 {
				o.Target = "the ServeAsync value the handlers are parked behind"
				target = parkVia[0]
			} else {
				o.Target = "a fresh ServeAsync{handler}"
				target = &mqtt.ServeAsync{Handler: handler}
			}
		}
		cur = kp
		returned := make(chan struct{})
		go func() {
			kp.callerGid = c20Gid()
			target.Serve(m)
			close(returned)
		}()
		select {
		case <-returned:
		case <-time.After(c20Wait):
			stuck = fmt.Sprintf("stuck: ServeAsync.Serve did not return while %d handlers were running", n)
			o.Stuck = stuck
			close(kp.gate)
			out = append(out, o)
			continue
		}
		o.A1 = c20Snap(m)
		o.Cops = c20Scribble(m, "caller/changed")
		for _, op := range o.Cops {
			op.apply(m)
		}
		o.Mine = c20Snap(m)
		close(kp.gate)
		select {
		case <-kp.done:
		case <-time.After(c20Wait):
			stuck = "stuck: the handler behind ServeAsync was not invoked"
			o.Stuck = stuck
			out = append(out, o)
			continue
		}
		o.A2 = c20Snap(m)
		// the caller reuses its buffer for the next message
		for i := range m.Payload {
			o.Cops2 = append(o.Cops2, &c20Op{Kind: "write", I: i, V: byte(0x30 + i)})
		}
		o.Cops2 = append(o.Cops2, &c20Op{Kind: "topic", S: "next/message"}, &c20Op{Kind: "id", N: 4242})
		for _, op := range o.Cops2 {
			op.apply(m)
		}
		o.KAct = c20Snap(kp.kept)
		out = append(out, o)
	}
	close(release)
	ch := make(chan struct{})
	go func() { parked.Wait(); close(ch) }()
	select {
	case <-ch:
	case <-time.After(4 * c20Wait):
		if stuck == "" && len(out) > 0 {
			out[len(out)-1].Stuck = "stuck: parked handlers did not finish"
		}
	}
	if stuck != "" && len(out) == 0 {
		out = append(out, &c20SatObs{N: n, Park: parkName, Stuck: stuck})
	}
	return out
}
