package main

// C04, histories that register, remove or replace the handler while the connection is up (InboundH.v):
// the broker's stream arrives in segments; before each segment the application calls Handle with handler
// number i, or with nil / not at all.  Hand-overs are tagged with the handler that received them.
// Two ways of holding the client: a BaseClient used directly, and a RetryClient whose handler is registered
// before SetClient/Connect while the first segment arrives in the same burst as CONNACK (a broker that
// redelivers session messages right behind CONNACK) and the application's ConnState callback is slow.

import (
	"context"
	"fmt"
	"math/rand"
	"sync"
	"time"

	mqtt "github.com/at-wat/mqtt-go"
)

type c04Seg struct {
	H    int // 0: no handler (nil / never registered); i>0: handler number i
	Pkts []c04Pkt
}

type c04hEvent struct {
	tag int
	coq string
	dsc string
}

type c04hScenario struct {
	Retry     bool // RetryClient around the BaseClient; segment 0 arrives with CONNACK
	LateFirst bool // (BaseClient) the first Handle call is made after Connect returned, before segment 0
	Segs      []c04Seg
}

func c04hRun(sc *c04hScenario) ([][]c04hEvent, string) {
	var mu sync.Mutex
	var events []c04hEvent
	var cli *mqtt.BaseClient
	mkHandler := func(i int) mqtt.Handler {
		if i == 0 {
			return nil
		}
		return mqtt.HandlerFunc(func(m *mqtt.Message) {
			cp := *m
			cp.Payload = append([]byte{}, m.Payload...)
			mu.Lock()
			events = append(events, c04hEvent{i, "Hand " + cLibMsg(&cp), fmt.Sprintf("handler%d(q%d,id%d,#%d)", i, cp.QoS, cp.ID, c04P0(cp.Payload))})
			mu.Unlock()
			// the receiver owns the message
			m.ID ^= 0x5A5A
			m.Topic = "scribbled"
			for k := range m.Payload {
				m.Payload[k] ^= 0xFF
			}
			_ = cli.Err()
		})
	}
	var burst []byte // what the broker sends in the same burst as CONNACK
	conn := newMemConn(1, func(c *memConn, pkt []byte) error {
		if pkt[0]&0xF0 == 0x10 {
			c.send(append(append([]byte{}, connackOK...), burst...))
			return nil
		}
		id := 0
		if len(pkt) >= 4 {
			id = int(pkt[2])<<8 | int(pkt[3])
		}
		ev := c04hEvent{0, fmt.Sprintf("WPubAck %d", 99999), fmt.Sprintf("unexpected-write(%x)", pkt)}
		switch pkt[0] {
		case 0x40:
			ev = c04hEvent{0, fmt.Sprintf("WPubAck %d", id), fmt.Sprintf("PUBACK(%d)", id)}
		case 0x50:
			ev = c04hEvent{0, fmt.Sprintf("WPubRec %d", id), fmt.Sprintf("PUBREC(%d)", id)}
		case 0x70:
			ev = c04hEvent{0, fmt.Sprintf("WPubComp %d", id), fmt.Sprintf("PUBCOMP(%d)", id)}
		case 0xE0:
			return nil
		}
		mu.Lock()
		events = append(events, ev)
		mu.Unlock()
		return nil
	})
	defer conn.Close()
	cli = &mqtt.BaseClient{Transport: conn}
	var out [][]c04hEvent
	cutSeg := func() {
		mu.Lock()
		out = append(out, events)
		events = nil
		mu.Unlock()
	}
	segBytes := func(s c04Seg) []byte {
		var b []byte
		for _, p := range s.Pkts {
			b = append(b, p.bytes()...)
		}
		return b
	}
	idle := func(where string) string {
		if !conn.waitReaderIdle(8 * time.Second) {
			return where + ": the reader did not finish the segment within 8s"
		}
		return ""
	}
	ctx, cancel := ctxTimeout(10 * time.Second)
	defer cancel()
	var handle func(h mqtt.Handler)
	first := 0
	if sc.Retry {
		rc := &mqtt.RetryClient{}
		handle = rc.Handle
		gate, reached := make(chan struct{}), make(chan struct{}, 1)
		cli.ConnState = func(st mqtt.ConnState, err error) {
			if st == mqtt.StateActive {
				reached <- struct{}{}
				<-gate // a slow application callback: Connect has not returned yet
			}
		}
		if sc.Segs[0].H != 0 {
			rc.Handle(mkHandler(sc.Segs[0].H)) // registered before the client exists
		}
		burst = segBytes(sc.Segs[0])
		rc.SetClient(ctx, cli)
		connErr := make(chan error, 1)
		go func() {
			_, err := rc.Connect(ctx, "cid")
			connErr <- err
		}()
		select {
		case <-reached:
		case err := <-connErr:
			close(gate)
			return nil, fmt.Sprintf("Connect returned early: %v", err)
		case <-time.After(8 * time.Second):
			close(gate)
			return nil, "Connect did not reach StateActive"
		}
		if s := idle("segment 0 (behind CONNACK)"); s != "" {
			close(gate)
			return nil, s
		}
		close(gate)
		select {
		case err := <-connErr:
			if err != nil {
				return nil, "Connect: " + err.Error()
			}
		case <-time.After(8 * time.Second):
			return nil, "Connect did not return"
		}
		cutSeg()
		first = 1
		defer func() {
			dctx, dcancel := context.WithTimeout(context.Background(), 2*time.Second)
			_ = rc.Disconnect(dctx)
			dcancel()
		}()
	} else {
		handle = cli.Handle
		if sc.Segs[0].H != 0 && !sc.LateFirst {
			cli.Handle(mkHandler(sc.Segs[0].H))
		}
		if _, err := cli.Connect(ctx, "cid"); err != nil {
			return nil, "Connect: " + err.Error()
		}
		if sc.LateFirst {
			cli.Handle(mkHandler(sc.Segs[0].H))
		}
	}
	for i := first; i < len(sc.Segs); i++ {
		if i > 0 {
			handle(mkHandler(sc.Segs[i].H))
		}
		conn.send(segBytes(sc.Segs[i]))
		if s := idle(fmt.Sprintf("segment %d", i)); s != "" {
			return nil, s
		}
		cutSeg()
	}
	return out, ""
}

func (sc *c04hScenario) coq() string {
	var ss []string
	for _, s := range sc.Segs {
		var ps []string
		for _, p := range s.Pkts {
			ps = append(ps, p.coq())
		}
		h := "None"
		if s.H > 0 {
			h = fmt.Sprintf("Some %d%%nat", s.H)
		}
		ss = append(ss, cTuple(h, cListInline(ps)))
	}
	return cListInline(ss)
}

func (sc *c04hScenario) describe() map[string]interface{} {
	var ss []interface{}
	for _, s := range sc.Segs {
		var pd []string
		for _, p := range s.Pkts {
			pd = append(pd, p.desc())
		}
		h := "no handler"
		if s.H > 0 {
			h = fmt.Sprintf("Handle(handler%d)", s.H)
		}
		ss = append(ss, map[string]interface{}{"before": h, "inbound": pd})
	}
	return map[string]interface{}{"retry_client_first_segment_with_connack": sc.Retry, "first_handle_after_connect": sc.LateFirst, "segments": ss}
}

func c04hRandPkts(r *rand.Rand, n int, seq *int) []c04Pkt {
	var pkts []c04Pkt
	for j := 0; j < n; j++ {
		*seq++
		id := uint16(1 + r.Intn(3))
		switch x := r.Intn(10); {
		case x < 2:
			pkts = append(pkts, c04Pkt{Msg: inMsg{Topic: []byte("a/b"), QoS: 0, Retain: r.Intn(2) == 0, Payload: []byte{byte(*seq), 7}}})
		case x < 4:
			pkts = append(pkts, c04Pkt{Msg: inMsg{Topic: []byte("q1"), QoS: 1, ID: id, Dup: r.Intn(3) == 0, Payload: []byte{byte(*seq)}}})
		case x < 7:
			pkts = append(pkts, c04Pkt{Msg: inMsg{Topic: []byte("q2"), QoS: 2, ID: id, Dup: r.Intn(3) == 0, Payload: []byte{byte(*seq)}}})
		default:
			pkts = append(pkts, c04Pkt{Rel: true, ID: id})
		}
	}
	return pkts
}

// c04hFamily adds the family "seg" to the cases file; returns the number of scenarios.
func c04hFamily(cfg *runCfg, r *rand.Rand, cf *casesFile, m *meta) (int, error) {
	var scs []*c04hScenario
	q2 := func(id uint16, n byte) c04Pkt {
		return c04Pkt{Msg: inMsg{Topic: []byte("q2"), QoS: 2, ID: id, Payload: []byte{n}}}
	}
	q1 := func(id uint16, n byte) c04Pkt {
		return c04Pkt{Msg: inMsg{Topic: []byte("q1"), QoS: 1, ID: id, Payload: []byte{n}}}
	}
	q0 := func(n byte) c04Pkt { return c04Pkt{Msg: inMsg{Topic: []byte("q0"), QoS: 0, Payload: []byte{n}}} }
	rel := func(id uint16) c04Pkt { return c04Pkt{Rel: true, ID: id} }
	// systematic: a QoS 2 exchange split at the handler change, every combination of handler before / after,
	// each way of holding the client
	for _, retry := range []bool{false, true} {
		for h0 := 0; h0 <= 1; h0++ {
			for h1 := 0; h1 <= 2; h1++ {
				scs = append(scs, &c04hScenario{Retry: retry, Segs: []c04Seg{
					{h0, []c04Pkt{q0(1), q2(1, 2), q1(2, 3)}}, {h1, []c04Pkt{rel(1), q0(4), rel(1)}}}})
				// retransmission across the change, then the release
				scs = append(scs, &c04hScenario{Retry: retry, LateFirst: !retry && h0 == 1, Segs: []c04Seg{
					{h0, []c04Pkt{q2(1, 1)}}, {h1, []c04Pkt{{Msg: inMsg{Topic: []byte("q2"), QoS: 2, ID: 1, Dup: true, Payload: []byte{2}}}}},
					{2, []c04Pkt{rel(1), rel(1)}}}})
			}
		}
		// everything behind CONNACK / in the first segment, one handler throughout
		scs = append(scs, &c04hScenario{Retry: retry, Segs: []c04Seg{
			{1, []c04Pkt{q0(1), q1(1, 2), q2(2, 3), rel(2), q2(3, 4)}}, {1, []c04Pkt{rel(3)}}}})
	}
	n := 60
	if cfg.tier != "quick" {
		n = 600
	}
	for i := 0; i < n; i++ {
		sc := &c04hScenario{Retry: r.Intn(2) == 0}
		sc.LateFirst = !sc.Retry && r.Intn(3) == 0
		seq := 0
		for s, ns := 0, 1+r.Intn(4); s < ns; s++ {
			h := r.Intn(4) // 0: none
			if r.Intn(3) == 0 {
				h = 1
			}
			ps := c04hRandPkts(r, r.Intn(6), &seq)
			for j := range ps {
				if !ps[j].Rel && r.Intn(8) == 0 {
					ps[j].Msg.Payload = nil
				}
			}
			sc.Segs = append(sc.Segs, c04Seg{h, ps})
		}
		if sc.LateFirst && sc.Segs[0].H == 0 {
			sc.LateFirst = false
		}
		scs = append(scs, sc)
	}
	var cases []string
	changes := 0
	for _, sc := range scs {
		obs, stuck := c04hRun(sc)
		var segs []string
		var dsc []interface{}
		if stuck != "" {
			// an observation that can never match
			segs = append(segs, cListInline([]string{cTuple("0%nat", fmt.Sprintf("WPubComp %d", 99998))}))
			dsc = append(dsc, stuck)
		}
		for _, evs := range obs {
			var es, ds []string
			for _, e := range evs {
				es = append(es, cTuple(fmt.Sprintf("%d%%nat", e.tag), e.coq))
				ds = append(ds, e.dsc)
			}
			segs = append(segs, cListInline(es))
			dsc = append(dsc, ds)
		}
		cases = append(cases, cTuple(sc.coq(), cListInline(segs)))
		d := sc.describe()
		d["reader_timeline_per_segment"] = dsc
		m.Families["seg"] = append(m.Families["seg"], d)
		for i := 1; i < len(sc.Segs); i++ {
			if sc.Segs[i].H != sc.Segs[i-1].H {
				changes++
			}
		}
	}
	cf.def("seg_cases", "list (list seg * list (list (nat * in_event)))", cList(cases))
	cf.result("V_seg", "c04h_spec_violations seg_cases")
	cf.result("M_seg", "c04h_model_mismatches seg_cases")
	m.Distribution["handler_histories"] = len(scs)
	m.Distribution["handler_changes"] = changes
	return len(scs), nil
}

// ---- family "duplex": the inbound flow while the application publishes QoS 2 messages on the same client ----
// The reader goroutine's acknowledgement writes (PUBACK/PUBREC/PUBCOMP) and the publishing goroutine's
// PUBLISH/PUBREL writes share the transport; every client write takes a little time in the peer, so both
// goroutines are regularly waiting for the write lock with a packet already built. The inbound timeline
// (hand-overs and acknowledgement writes, by packet type) must be what the model says for the inbound
// stream alone.
func c04DuplexRun(pkts []c04Pkt, outbound int) ([]string, []string, string) {
	var mu sync.Mutex
	var coq, desc []string
	var cli *mqtt.BaseClient
	conn := newMemConn(1, func(c *memConn, pkt []byte) error {
		if pkt[0]&0xF0 == 0x10 {
			c.send(connackOK)
			return nil
		}
		time.Sleep(100 * time.Microsecond)
		id := 0
		if len(pkt) >= 4 {
			id = int(pkt[2])<<8 | int(pkt[3])
		}
		switch pkt[0] & 0xF0 {
		case 0x30: // outbound PUBLISH (QoS 2): identifier follows the topic
			tl := int(pkt[2])<<8 | int(pkt[3])
			oid := uint16(pkt[4+tl])<<8 | uint16(pkt[5+tl])
			c.send(encID(0x50, oid))
			return nil
		case 0x60: // outbound PUBREL
			c.send(encID(0x70, uint16(id)))
			return nil
		case 0xE0:
			return nil
		}
		mu.Lock()
		switch pkt[0] {
		case 0x40:
			coq, desc = append(coq, fmt.Sprintf("WPubAck %d", id)), append(desc, fmt.Sprintf("PUBACK(%d)", id))
		case 0x50:
			coq, desc = append(coq, fmt.Sprintf("WPubRec %d", id)), append(desc, fmt.Sprintf("PUBREC(%d)", id))
		case 0x70:
			coq, desc = append(coq, fmt.Sprintf("WPubComp %d", id)), append(desc, fmt.Sprintf("PUBCOMP(%d)", id))
		default:
			coq, desc = append(coq, fmt.Sprintf("WPubAck %d", 99999)), append(desc, fmt.Sprintf("unexpected-write(%x)", pkt))
		}
		mu.Unlock()
		return nil
	})
	defer conn.Close()
	cli = &mqtt.BaseClient{Transport: conn}
	cli.Handle(mqtt.HandlerFunc(func(m *mqtt.Message) {
		cp := *m
		cp.Payload = append([]byte{}, m.Payload...)
		mu.Lock()
		coq = append(coq, "Hand "+cLibMsg(&cp))
		desc = append(desc, fmt.Sprintf("hand(q%d,id%d,#%d)", cp.QoS, cp.ID, c04P0(cp.Payload)))
		mu.Unlock()
	}))
	ctx, cancel := ctxTimeout(20 * time.Second)
	defer cancel()
	if _, err := cli.Connect(ctx, "cid"); err != nil {
		return nil, nil, "Connect: " + err.Error()
	}
	pubDone := make(chan int, 1)
	go func() {
		bad := 0
		for i := 0; i < outbound; i++ {
			pctx, pcancel := ctxTimeout(3 * time.Second)
			// identifiers far away from the inbound pool (the two directions are independent anyway)
			if err := cli.Publish(pctx, &mqtt.Message{Topic: "out", QoS: mqtt.QoS2, ID: uint16(20000 + i), Payload: []byte{byte(i)}}); err != nil {
				bad++
			}
			pcancel()
		}
		pubDone <- bad
	}()
	// the inbound stream trickles in, so that the broker's PUBREC / PUBCOMP for the outbound publishes are
	// interleaved with it (the reader alternates between the two flows)
	for _, p := range pkts {
		conn.send(p.bytes())
		time.Sleep(120 * time.Microsecond)
	}
	stuck := ""
	select {
	case bad := <-pubDone:
		if bad > 0 {
			stuck = fmt.Sprintf("%d outbound QoS 2 publishes did not complete", bad)
		}
	case <-time.After(15 * time.Second):
		stuck = "outbound publishes did not finish"
	}
	if !conn.waitReaderIdle(8 * time.Second) {
		stuck = "the reader did not finish the inbound stream"
	}
	mu.Lock()
	defer mu.Unlock()
	if stuck != "" {
		coq = append(coq, fmt.Sprintf("WPubComp %d", 99998))
		desc = append(desc, stuck)
	}
	return append([]string{}, coq...), append([]string{}, desc...), ""
}

func c04DuplexFamily(cfg *runCfg, r *rand.Rand, cf *casesFile, m *meta) (int, error) {
	n := 12
	if cfg.tier != "quick" {
		n = 120
	}
	var cases []string
	for i := 0; i < n; i++ {
		seq := 0
		pkts := c04hRandPkts(r, 60+r.Intn(40), &seq)
		coq, desc, fatal := c04DuplexRun(pkts, 40+r.Intn(20))
		if fatal != "" {
			coq, desc = []string{fmt.Sprintf("WPubComp %d", 99998)}, []string{fatal}
		}
		var ps, pd []string
		for _, p := range pkts {
			ps = append(ps, p.coq())
			pd = append(pd, p.desc())
		}
		cases = append(cases, cTuple("true", cListInline(ps), cListInline(coq)))
		m.Families["duplex"] = append(m.Families["duplex"], map[string]interface{}{"inbound": pd, "reader_timeline": desc})
	}
	cf.def("duplex_cases", "list (bool * list in_pkt * list in_event)", cList(cases))
	cf.result("V_duplex", "c04_spec_violations duplex_cases")
	cf.result("M_duplex", "c04_model_mismatches duplex_cases")
	m.Distribution["duplex_runs"] = n
	return n, nil
}
