package main

// C10 — safe for concurrent use: no data races, packets never interleave on the wire.
//
// Parent process (runC10): (b) regenerates the access table from the source ($VERIF_REPO) with
// c10_lockset.go, enumerates the candidate conflicting pairs, then re-executes itself as a child
// (C10child) with GORACE="halt_on_error=0 log_path=…" for everything dynamic:
//   (a) wire runs: 8–32 goroutines on one real BaseClient (Publish QoS0/1/2, Subscribe,
//       Unsubscribe, Ping) plus inbound QoS1/QoS2 traffic acknowledged by the reader goroutine, on a
//       transport that puts every Write on the wire in two halves with a yield in between;
//   (a) overlap probes: one writer is held inside Transport.Write while another packet becomes due;
//       the second writer must be seen blocked on muWrite (goroutine dump), never inside Write;
//   (c) exploration under the race detector: the same plus Connect ∥ requests, and
//       RetryClient/ReconnectClient under Publish/Subscribe/Unsubscribe/Ping/Handle/Stats/Client/
//       Done/Err/Close callers with connection cuts and reconnects, randomised GOMAXPROCS.
// Race reports with a frame of the library in one of the two access stacks become ImplViolations
// (the report text is the replay); everything else is evaluated inside Coq (CheckC10.v).

import (
	"bytes"
	"context"
	"encoding/hex"
	"encoding/json"
	"errors"
	"fmt"
	"math/rand"
	"os"
	"os/exec"
	"path/filepath"
	"regexp"
	"runtime"
	"sort"
	"strings"
	"sync"
	"sync/atomic"
	"time"

	mqtt "github.com/at-wat/mqtt-go"
)

func init() {
	register("C10", runC10)
	register("C10child", runC10Child)
}

// ===================================================================== transport

var errC10Closed = errors.New("c10conn: closed")

// c10Conn is an in-memory transport whose Write is deliberately NOT atomic with respect to
// concurrent callers: the first half of p goes on the wire, then the gate/yield, then the rest.
// The peer (broker) runs synchronously on the writer's goroutine for every complete frame.
type c10Conn struct {
	mu          sync.Mutex
	cond        *sync.Cond
	in          []byte
	closed      bool
	emitted     [][]byte // what went on the wire, in order
	calls       [][]byte // argument of every Write call, in call order
	stream      []byte   // unparsed tail of the wire (broker side)
	broken      bool     // the broker could not frame the stream any more
	inFlight    int
	maxInFlight int
	yield       bool
	gate        func(p []byte)          // called between the halves, on the writer's goroutine
	onFrame     func(c *c10Conn, f []byte) // broker
	onBroken    func()                     // called once when the broker cannot frame the wire any more
}

func newC10Conn() *c10Conn {
	c := &c10Conn{}
	c.cond = sync.NewCond(&c.mu)
	return c
}

func (c *c10Conn) Read(p []byte) (int, error) {
	c.mu.Lock()
	defer c.mu.Unlock()
	for len(c.in) == 0 && !c.closed {
		c.cond.Wait()
	}
	if len(c.in) == 0 {
		return 0, errC10Closed
	}
	n := copy(p, c.in)
	c.in = c.in[n:]
	return n, nil
}

func (c *c10Conn) Write(p []byte) (int, error) {
	c.mu.Lock()
	if c.closed {
		c.mu.Unlock()
		return 0, errC10Closed
	}
	c.inFlight++
	if c.inFlight > c.maxInFlight {
		c.maxInFlight = c.inFlight
	}
	cp := append([]byte{}, p...)
	c.calls = append(c.calls, cp)
	h := len(cp) / 2
	c.emitted = append(c.emitted, cp[:h])
	c.stream = append(c.stream, cp[:h]...)
	gate, yield := c.gate, c.yield
	c.mu.Unlock()

	if gate != nil {
		gate(cp)
	}
	if yield {
		runtime.Gosched()
	}

	c.mu.Lock()
	c.emitted = append(c.emitted, cp[h:])
	c.stream = append(c.stream, cp[h:]...)
	var frames [][]byte
	justBroken := false
	for !c.broken {
		f, rest, st := c10SplitFrame(c.stream)
		if st == 0 {
			break
		}
		if st < 0 {
			c.broken = true
			justBroken = true
			break
		}
		frames = append(frames, f)
		c.stream = rest
	}
	c.inFlight--
	on, ob := c.onFrame, c.onBroken
	c.mu.Unlock()
	if justBroken && ob != nil {
		ob()
	}
	if on != nil {
		for _, f := range frames {
			on(c, f)
		}
	}
	return len(p), nil
}

func (c *c10Conn) Close() error {
	c.mu.Lock()
	c.closed = true
	c.cond.Broadcast()
	c.mu.Unlock()
	return nil
}

func (c *c10Conn) send(b []byte) {
	c.mu.Lock()
	c.in = append(c.in, b...)
	c.cond.Broadcast()
	c.mu.Unlock()
}

func (c *c10Conn) snapshot() (emitted, calls [][]byte, maxInFlight int, broken bool) {
	c.mu.Lock()
	defer c.mu.Unlock()
	return append([][]byte{}, c.emitted...), append([][]byte{}, c.calls...), c.maxInFlight, c.broken
}

// most goroutines ever inside Write at the same time (monotonic: a short overlap is not missed)
func (c *c10Conn) peakInFlight() int {
	c.mu.Lock()
	defer c.mu.Unlock()
	return c.maxInFlight
}

// c10SplitFrame: st = 1 one frame split off, 0 need more bytes, -1 not a frame.
func c10SplitFrame(b []byte) (frame, rest []byte, st int) {
	if len(b) < 2 {
		return nil, b, 0
	}
	n, mult, i := 0, 1, 1
	for {
		if i >= len(b) {
			return nil, b, 0
		}
		d := int(b[i])
		n += (d & 0x7f) * mult
		i++
		if d&0x80 == 0 {
			break
		}
		mult *= 128
		if i > 4 {
			return nil, b, -1
		}
	}
	if t := b[0] >> 4; t == 0 || t == 15 {
		return nil, b, -1
	}
	if len(b) < i+n {
		return nil, b, 0
	}
	return append([]byte{}, b[:i+n]...), b[i+n:], 1
}

func c10Body(f []byte) []byte {
	i := 1
	for i < len(f) && f[i]&0x80 != 0 {
		i++
	}
	if i+1 > len(f) {
		return nil
	}
	return f[i+1:]
}

// ===================================================================== broker

type c10Broker struct {
	mu       sync.Mutex
	acks     int // PUBACK + PUBCOMP received from the client (inbound flows completed)
	wantAcks int
	acksDone chan struct{}
	dropAcks bool // answer nothing but CONNECT (silent broker)
}

func (b *c10Broker) onFrame(c *c10Conn, f []byte) {
	// on a corrupted wire "frames" are garbage: never let the broker's own slicing crash the run
	defer func() {
		if r := recover(); r != nil {
			c.mu.Lock()
			c.broken = true
			ob := c.onBroken
			c.mu.Unlock()
			if ob != nil {
				ob()
			}
		}
	}()
	body := c10Body(f)
	id := func() []byte {
		if len(body) >= 2 {
			return body[:2]
		}
		return []byte{0, 0}
	}
	switch f[0] >> 4 {
	case 1:
		c.send(connackOK)
	case 3:
		qos := (f[0] >> 1) & 3
		if qos == 0 || len(body) < 2 {
			return
		}
		tl := int(body[0])<<8 | int(body[1])
		if len(body) < 2+tl+2 {
			return
		}
		pid := body[2+tl : 2+tl+2]
		if b.dropAcks {
			return
		}
		if qos == 1 {
			c.send([]byte{0x40, 2, pid[0], pid[1]})
		} else {
			c.send([]byte{0x50, 2, pid[0], pid[1]})
		}
	case 6:
		if !b.dropAcks {
			c.send([]byte{0x70, 2, id()[0], id()[1]})
		}
	case 8:
		if b.dropAcks {
			return
		}
		// one granted code per filter, equal to the requested QoS
		var codes []byte
		r := body[2:]
		for len(r) >= 3 {
			l := int(r[0])<<8 | int(r[1])
			if len(r) < 2+l+1 {
				break
			}
			codes = append(codes, r[2+l])
			r = r[2+l+1:]
		}
		c.send(encFrame(0x90, append([]byte{id()[0], id()[1]}, codes...)))
	case 10:
		if !b.dropAcks {
			c.send([]byte{0xB0, 2, id()[0], id()[1]})
		}
	case 12:
		if !b.dropAcks {
			c.send([]byte{0xD0, 0})
		}
	case 5: // PUBREC for an inbound QoS2 message: release it
		c.send([]byte{0x62, 2, id()[0], id()[1]})
	case 4, 7:
		b.mu.Lock()
		b.acks++
		if b.acksDone != nil && b.acks == b.wantAcks {
			close(b.acksDone)
			b.acksDone = nil
		}
		b.mu.Unlock()
	}
}

// ===================================================================== expected packets (harness-side encoder)

func c10EncConnect(clientID string) []byte {
	body := []byte{0, 4, 'M', 'Q', 'T', 'T', 4, 0, 0, 0}
	body = append(body, encStr([]byte(clientID))...)
	return encFrame(0x10, body)
}

func c10EncSubscribe(topic string, qos byte) []byte {
	body := []byte{0, 0}
	body = append(body, encStr([]byte(topic))...)
	body = append(body, qos)
	return encFrame(0x82, body)
}

func c10EncUnsubscribe(topic string) []byte {
	body := []byte{0, 0}
	body = append(body, encStr([]byte(topic))...)
	return encFrame(0xA2, body)
}

// ===================================================================== observations handed to the parent

type c10RunObs struct {
	Desc        string   `json:"desc"`
	Emitted     []string `json:"emitted"` // hex
	Calls       []string `json:"calls"`
	Expected    []string `json:"expected"`
	MaxInFlight int      `json:"max_in_flight"`
	OpErrors    []string `json:"op_errors,omitempty"`
	Stuck       bool     `json:"stuck,omitempty"`
}

type c10ProbeObs struct {
	c10RunObs
	Holder    string `json:"holder"`
	Contender string `json:"contender"`
	Blocked   bool   `json:"contender_seen_blocked_on_muWrite"`
	Entered   bool   `json:"contender_entered_write_while_held"`
}

type c10ChildOut struct {
	Runs       []c10RunObs            `json:"runs"`
	Probes     []c10ProbeObs          `json:"probes"`
	BigRuns    []c10RunObs            `json:"big_runs"`
	Trials     []c10Trial             `json:"disconnect_trials"`
	TwoConn    [][]int                `json:"two_conn_counts"`
	TwoNotes   []string               `json:"two_conn_notes"`
	Stress     map[string]interface{} `json:"stress"`
	StuckNotes []string               `json:"stuck_notes,omitempty"`
}

func c10Hex(bs [][]byte) []string {
	out := make([]string, len(bs))
	for i, b := range bs {
		out[i] = hex.EncodeToString(b)
	}
	return out
}

// ===================================================================== (a) wire runs

func c10Perturb() {
	for i := 0; i < 3; i++ {
		runtime.Gosched()
	}
}

func c10ConnectBase(conn *c10Conn, handler mqtt.Handler) (*mqtt.BaseClient, error) {
	cli := &mqtt.BaseClient{Transport: conn}
	cli.ConnState = func(mqtt.ConnState, error) { c10Perturb() }
	if handler != nil {
		cli.Handle(handler)
	}
	ctx, cancel := ctxTimeout(20 * time.Second)
	defer cancel()
	_, err := cli.Connect(ctx, "cid")
	return cli, err
}

func c10WireRun(rng *rand.Rand, nG, nOps, nInbound int, observers bool) c10RunObs {
	conn := newC10Conn()
	conn.yield = true
	br := &c10Broker{wantAcks: nInbound, acksDone: make(chan struct{})}
	if nInbound == 0 {
		close(br.acksDone)
		br.acksDone = nil
	}
	done := br.acksDone
	conn.onFrame = br.onFrame
	var handled int64
	cli, err := c10ConnectBase(conn, mqtt.HandlerFunc(func(m *mqtt.Message) {
		atomic.AddInt64(&handled, 1)
		c10Perturb()
	}))
	obs := c10RunObs{Desc: fmt.Sprintf("wire run: %d goroutines x %d ops, %d inbound QoS1/2 messages, observers=%v, GOMAXPROCS=%d", nG, nOps, nInbound, observers, runtime.GOMAXPROCS(0))}
	if err != nil {
		obs.OpErrors = append(obs.OpErrors, "connect: "+err.Error())
		obs.Stuck = true
		return obs
	}
	expected := [][]byte{c10EncConnect("cid")}
	var emu sync.Mutex
	var opErrors []string
	stuck := false
	// the whole run is abandoned as soon as the wire is corrupt or an operation fails (only
	// broken trees get there; it keeps their runs short)
	runCtx, cancelRun := context.WithCancel(context.Background())
	defer cancelRun()
	conn.mu.Lock()
	conn.onBroken = cancelRun
	conn.mu.Unlock()
	ctxTimeout := func(d time.Duration) (context.Context, context.CancelFunc) { return context.WithTimeout(runCtx, d) }
	addExp := func(p ...[]byte) {
		emu.Lock()
		expected = append(expected, p...)
		emu.Unlock()
	}
	opErr := func(s string) {
		emu.Lock()
		opErrors = append(opErrors, s)
		emu.Unlock()
		cancelRun()
	}
	// plan every goroutine's operations up front (deterministic from the seed)
	type op struct {
		kind    int // 0,1,2 publish qos; 3 subscribe; 4 unsubscribe
		topic   string
		payload []byte
		id      uint16
		retain  bool
	}
	plans := make([][]op, nG)
	for g := 0; g < nG; g++ {
		for k := 0; k < nOps; k++ {
			o := op{kind: rng.Intn(5), topic: fmt.Sprintf("t/%d/%d", g, k), id: uint16(1 + g*64 + k), retain: rng.Intn(4) == 0}
			o.payload = make([]byte, rng.Intn(48))
			for i := range o.payload {
				o.payload[i] = byte(rng.Intn(256))
			}
			plans[g] = append(plans[g], o)
		}
	}
	start := make(chan struct{})
	var wg sync.WaitGroup
	for g := 0; g < nG; g++ {
		wg.Add(1)
		go func(plan []op) {
			defer wg.Done()
			<-start
			for _, o := range plan {
				ctx, cancel := ctxTimeout(20 * time.Second)
				switch o.kind {
				case 0, 1, 2:
					m := &mqtt.Message{Topic: o.topic, Payload: o.payload, QoS: mqtt.QoS(o.kind), Retain: o.retain, ID: o.id}
					addExp(encPublish(inMsg{Topic: []byte(o.topic), ID: o.id, QoS: byte(o.kind), Retain: o.retain, Payload: o.payload}))
					if o.kind == 2 {
						addExp(encID(0x62, o.id))
					}
					if err := cli.Publish(ctx, m); err != nil {
						opErr("publish: " + errClass(err))
					}
				case 3:
					addExp(c10EncSubscribe(o.topic, byte(o.id%3)))
					if _, err := cli.Subscribe(ctx, mqtt.Subscription{Topic: o.topic, QoS: mqtt.QoS(o.id % 3)}); err != nil {
						opErr("subscribe: " + errClass(err))
					}
				case 4:
					addExp(c10EncUnsubscribe(o.topic))
					if err := cli.Unsubscribe(ctx, o.topic); err != nil {
						opErr("unsubscribe: " + errClass(err))
					}
				}
				cancel()
			}
		}(plans[g])
	}
	// one pinger (concurrent Pings share one waiter slot, a documented quirk outside C10)
	wg.Add(1)
	go func() {
		defer wg.Done()
		<-start
		for k := 0; k < nOps; k++ {
			ctx, cancel := ctxTimeout(20 * time.Second)
			addExp([]byte{0xC0, 0})
			if err := cli.Ping(ctx); err != nil {
				opErr("ping: " + errClass(err))
			}
			cancel()
		}
	}()
	// inbound traffic, acknowledged by the reader goroutine
	wg.Add(1)
	go func() {
		defer wg.Done()
		<-start
		for k := 0; k < nInbound; k++ {
			id := uint16(30000 + k)
			if k%2 == 0 {
				addExp(encID(0x40, id))
				conn.send(encPublish(inMsg{Topic: []byte("in/1"), ID: id, QoS: 1, Payload: []byte{byte(k)}}))
			} else {
				addExp(encID(0x50, id), encID(0x70, id))
				conn.send(encPublish(inMsg{Topic: []byte("in/2"), ID: id, QoS: 2, Payload: []byte{byte(k)}}))
			}
			runtime.Gosched()
		}
	}()
	stopObs := make(chan struct{})
	var owg sync.WaitGroup
	if observers {
		for i := 0; i < 3; i++ {
			owg.Add(1)
			go func(i int) {
				defer owg.Done()
				<-start
				for {
					select {
					case <-stopObs:
						return
					default:
					}
					switch i {
					case 0:
						_ = cli.Stats()
						_ = cli.Err()
					case 1:
						select {
						case <-cli.Done():
						default:
						}
					case 2:
						cli.Handle(mqtt.HandlerFunc(func(m *mqtt.Message) { atomic.AddInt64(&handled, 1); c10Perturb() }))
					}
					runtime.Gosched()
				}
			}(i)
		}
	}
	close(start)
	if !c10WaitGroup(&wg, 60*time.Second) {
		stuck = true
	}
	if done != nil {
		select {
		case <-done:
		case <-runCtx.Done():
		case <-time.After(20 * time.Second):
			stuck = true
		}
	}
	close(stopObs)
	owg.Wait()
	emitted, calls, maxIn, _ := conn.snapshot()
	cli.Close()
	select {
	case <-cli.Done():
	case <-time.After(20 * time.Second):
		stuck = true
	}
	emu.Lock()
	obs.Emitted, obs.Calls, obs.Expected, obs.MaxInFlight = c10Hex(emitted), c10Hex(calls), c10Hex(expected), maxIn
	obs.OpErrors = append([]string{}, opErrors...)
	obs.Stuck = stuck
	emu.Unlock()
	return obs
}

func c10WaitGroup(wg *sync.WaitGroup, d time.Duration) bool {
	ch := make(chan struct{})
	go func() { wg.Wait(); close(ch) }()
	select {
	case <-ch:
		return true
	case <-time.After(d):
		return false
	}
}

// ===================================================================== (a) overlap probes

var c10GoroutineHdr = regexp.MustCompile(`(?m)^goroutine \d+ \[([^\]]*)\]:$`)

// c10WritersBlockedOnMutex: how many goroutines are inside (*BaseClient).write waiting for a
// sync.Mutex (and not inside the transport)? Read from a dump of all goroutine stacks.
func c10WritersBlockedOnMutex() int {
	buf := make([]byte, 4<<20)
	n := runtime.Stack(buf, true)
	cnt := 0
	for _, g := range strings.Split(string(buf[:n]), "\n\n") {
		if !strings.Contains(g, "mqtt-go.(*BaseClient).write(") || strings.Contains(g, "(*c10Conn).Write(") {
			continue
		}
		m := c10GoroutineHdr.FindStringSubmatch(g)
		if (m != nil && strings.Contains(m[1], "sync.Mutex.Lock")) || strings.Contains(g, "sync.(*Mutex).Lock") || strings.Contains(g, "sync.(*Mutex).lockSlow") {
			cnt++
		}
	}
	return cnt
}

func c10WriterBlockedOnMutex() bool { return c10WritersBlockedOnMutex() > 0 }

type c10ProbeSpec struct {
	holder    string // "publish0", "publish1", "subscribe", "ping", "pubrel"
	contender string // "puback", "pubrec", "pubcomp", "publish0", "ping"
}

func c10Probe(sp c10ProbeSpec) c10ProbeObs {
	conn := newC10Conn()
	br := &c10Broker{}
	conn.onFrame = br.onFrame
	holderType := map[string]byte{"publish0": 3, "publish1": 3, "subscribe": 8, "ping": 12, "pubrel": 6}[sp.holder]
	inside := make(chan struct{})
	release := make(chan struct{})
	var once sync.Once
	cli, err := c10ConnectBase(conn, mqtt.HandlerFunc(func(*mqtt.Message) {}))
	po := c10ProbeObs{Holder: sp.holder, Contender: sp.contender}
	po.Desc = fmt.Sprintf("overlap probe: %s held inside Transport.Write while %s becomes due", sp.holder, sp.contender)
	if err != nil {
		po.OpErrors = append(po.OpErrors, "connect: "+err.Error())
		po.Stuck = true
		return po
	}
	expected := [][]byte{c10EncConnect("cid")}
	// preparation for the contender pubcomp: an inbound QoS2 message in state "PUBREC sent"
	const inID = 777
	if sp.contender == "pubcomp" {
		// the broker must not release it by itself: withhold PUBREL until the holder is inside
		conn.mu.Lock()
		conn.onFrame = func(c *c10Conn, f []byte) {
			if f[0]>>4 == 5 {
				return
			}
			br.onFrame(c, f)
		}
		conn.mu.Unlock()
		expected = append(expected, encID(0x50, inID), encID(0x70, inID))
		conn.send(encPublish(inMsg{Topic: []byte("in/2"), ID: inID, QoS: 2, Payload: []byte{1}}))
		if !c10Until(func() bool { _, calls, _, _ := conn.snapshot(); return len(calls) >= 2 }) {
			po.Stuck = true
			return po
		}
	}
	conn.mu.Lock()
	conn.gate = func(p []byte) {
		if p[0]>>4 == holderType {
			hit := false
			once.Do(func() { hit = true })
			if hit {
				close(inside)
				<-release
			}
		}
	}
	conn.mu.Unlock()
	var wg sync.WaitGroup
	var emu sync.Mutex
	var opErrors []string
	runCtx, cancelRun := context.WithCancel(context.Background())
	defer cancelRun()
	conn.mu.Lock()
	conn.onBroken = cancelRun
	conn.mu.Unlock()
	ctxTimeout := func(d time.Duration) (context.Context, context.CancelFunc) { return context.WithTimeout(runCtx, d) }
	opErr := func(s string) { emu.Lock(); opErrors = append(opErrors, s); emu.Unlock() }
	wg.Add(1)
	go func() {
		defer wg.Done()
		ctx, cancel := ctxTimeout(6 * time.Second)
		defer cancel()
		var err error
		switch sp.holder {
		case "publish0":
			err = cli.Publish(ctx, &mqtt.Message{Topic: "h", Payload: bytes.Repeat([]byte{0xAA}, 40), QoS: 0})
		case "publish1":
			err = cli.Publish(ctx, &mqtt.Message{Topic: "h", Payload: bytes.Repeat([]byte{0xAA}, 40), QoS: 1, ID: 11})
		case "pubrel":
			err = cli.Publish(ctx, &mqtt.Message{Topic: "h", Payload: bytes.Repeat([]byte{0xAA}, 40), QoS: 2, ID: 12})
		case "subscribe":
			_, err = cli.Subscribe(ctx, mqtt.Subscription{Topic: "h/#", QoS: 1})
		case "ping":
			err = cli.Ping(ctx)
		}
		if err != nil {
			opErr("holder: " + errClass(err))
		}
	}()
	switch sp.holder {
	case "publish0":
		expected = append(expected, encPublish(inMsg{Topic: []byte("h"), Payload: bytes.Repeat([]byte{0xAA}, 40)}))
	case "publish1":
		expected = append(expected, encPublish(inMsg{Topic: []byte("h"), Payload: bytes.Repeat([]byte{0xAA}, 40), QoS: 1, ID: 11}))
	case "pubrel":
		expected = append(expected, encPublish(inMsg{Topic: []byte("h"), Payload: bytes.Repeat([]byte{0xAA}, 40), QoS: 2, ID: 12}), encID(0x62, 12))
	case "subscribe":
		expected = append(expected, c10EncSubscribe("h/#", 1))
	case "ping":
		expected = append(expected, []byte{0xC0, 0})
	}
	select {
	case <-inside:
	case <-time.After(20 * time.Second):
		po.Stuck = true
		close(release)
		return po
	}
	// the contender becomes due while the holder is inside Transport.Write
	switch sp.contender {
	case "puback":
		expected = append(expected, encID(0x40, 555))
		conn.send(encPublish(inMsg{Topic: []byte("in/1"), ID: 555, QoS: 1, Payload: []byte{2}}))
	case "pubrec":
		expected = append(expected, encID(0x50, 556), encID(0x70, 556))
		conn.send(encPublish(inMsg{Topic: []byte("in/2"), ID: 556, QoS: 2, Payload: []byte{3}}))
	case "pubcomp":
		conn.send(encID(0x62, inID))
	case "publish0":
		expected = append(expected, encPublish(inMsg{Topic: []byte("c"), Payload: []byte{9, 9, 9}}))
		wg.Add(1)
		go func() {
			defer wg.Done()
			ctx, cancel := ctxTimeout(6 * time.Second)
			defer cancel()
			if err := cli.Publish(ctx, &mqtt.Message{Topic: "c", Payload: []byte{9, 9, 9}}); err != nil {
				opErr("contender: " + errClass(err))
			}
		}()
	case "ping":
		if sp.holder == "ping" {
			// two Pings share the waiter slot; use a QoS0 publish as the second writer instead
			expected = append(expected, encPublish(inMsg{Topic: []byte("c"), Payload: []byte{8}}))
			wg.Add(1)
			go func() {
				defer wg.Done()
				ctx, cancel := ctxTimeout(6 * time.Second)
				defer cancel()
				if err := cli.Publish(ctx, &mqtt.Message{Topic: "c", Payload: []byte{8}}); err != nil {
					opErr("contender: " + errClass(err))
				}
			}()
		} else {
			expected = append(expected, []byte{0xC0, 0})
			wg.Add(1)
			go func() {
				defer wg.Done()
				ctx, cancel := ctxTimeout(6 * time.Second)
				defer cancel()
				if err := cli.Ping(ctx); err != nil {
					opErr("contender: " + errClass(err))
				}
			}()
		}
	}
	// wait (no fixed delay) until the contender is either inside Write too, or parked on muWrite
	ok := c10Until(func() bool {
		if conn.peakInFlight() >= 2 {
			po.Entered = true
			return true
		}
		if c10WriterBlockedOnMutex() {
			po.Blocked = true
			return true
		}
		return false
	})
	if !ok {
		po.Stuck = true
	}
	close(release)
	if !c10WaitGroup(&wg, 15*time.Second) {
		po.Stuck = true
	}
	// let the reader finish its acknowledgements: all expected packets written, or timeout
	c10Until(func() bool {
		conn.mu.Lock()
		defer conn.mu.Unlock()
		return (len(conn.calls) >= len(expected) && conn.inFlight == 0) || conn.broken || runCtx.Err() != nil
	})
	emitted, calls, maxIn, _ := conn.snapshot()
	cli.Close()
	select {
	case <-cli.Done():
	case <-time.After(20 * time.Second):
		po.Stuck = true
	}
	po.Emitted, po.Calls, po.Expected, po.MaxInFlight = c10Hex(emitted), c10Hex(calls), c10Hex(expected), maxIn
	emu.Lock()
	po.OpErrors = append(po.OpErrors, opErrors...)
	emu.Unlock()
	return po
}

// c10Until polls a condition (yielding, with a tiny pause) for up to 8 s.
func c10Until(cond func() bool) bool {
	deadline := time.Now().Add(8 * time.Second)
	for i := 0; ; i++ {
		if cond() {
			return true
		}
		if time.Now().After(deadline) {
			return false
		}
		runtime.Gosched()
		if i > 20 {
			time.Sleep(200 * time.Microsecond)
		}
	}
}

// ===================================================================== (a) large packets under forced contention

type c10GateEvent struct {
	pkt     []byte
	release chan struct{}
}

// c10Contend: one large QoS1 publisher (payload of payloadLen bytes), one earlier waiter, two small
// QoS0 publishers and the reader's PUBACK all queue on muWrite behind a writer that is held inside
// Transport.Write; every waiter has waited longer than sync.Mutex's 1 ms starvation threshold when
// the gate opens. Before that, the holder goroutine (which publishes back to back) is used to
// barge in front of a woken waiter, which switches the mutex to starvation mode (FIFO hand-over):
// a writer that releases muWrite in the middle of its packet then gets its second half on the
// wire only after everybody who queued meanwhile. Nothing here is needed for soundness — the
// per-call log already shows a split packet — it only makes the interleaving itself likely.
func c10Contend(payloadLen int, fill byte) c10RunObs {
	conn := newC10Conn()
	br := &c10Broker{wantAcks: 1, acksDone: make(chan struct{})}
	acksDone := br.acksDone
	conn.onFrame = br.onFrame
	obs := c10RunObs{Desc: fmt.Sprintf("contention: PUBLISH QoS1 with a %d-byte payload queued on muWrite with 3 small writers and the reader's PUBACK behind a held Transport.Write", payloadLen)}
	cli, err := c10ConnectBase(conn, mqtt.HandlerFunc(func(*mqtt.Message) {}))
	if err != nil {
		obs.OpErrors = append(obs.OpErrors, "connect: "+err.Error())
		obs.Stuck = true
		return obs
	}
	var emu sync.Mutex
	var opErrors []string
	stuck := false
	runCtx, cancelRun := context.WithCancel(context.Background())
	defer cancelRun()
	events := make(chan c10GateEvent)
	conn.mu.Lock()
	conn.onBroken = cancelRun
	conn.gate = func(p []byte) {
		ev := c10GateEvent{pkt: p, release: make(chan struct{})}
		select {
		case events <- ev:
			select {
			case <-ev.release:
			case <-runCtx.Done():
			}
		case <-runCtx.Done():
		}
	}
	conn.mu.Unlock()
	opErr := func(s string) { emu.Lock(); opErrors = append(opErrors, s); emu.Unlock() }
	isA := func(p []byte) bool { return len(p) > 5 && p[0] == 0x30 && p[4] == 'A' }
	var stopA int32
	var nA int32
	var wg sync.WaitGroup
	wg.Add(1)
	go func() { // the holder: QoS0 publishes back to back
		defer wg.Done()
		for k := 0; k < 40 && atomic.LoadInt32(&stopA) == 0; k++ {
			ctx, cancel := context.WithTimeout(runCtx, 10*time.Second)
			atomic.AddInt32(&nA, 1)
			if err := cli.Publish(ctx, &mqtt.Message{Topic: "A", Payload: []byte{byte(k)}}); err != nil {
				opErr("holder: " + errClass(err))
				cancel()
				return
			}
			cancel()
		}
	}()
	small := func(topic string, k int) {
		wg.Add(1)
		go func() {
			defer wg.Done()
			ctx, cancel := context.WithTimeout(runCtx, 10*time.Second)
			defer cancel()
			if err := cli.Publish(ctx, &mqtt.Message{Topic: topic, Payload: []byte{byte(k)}}); err != nil {
				opErr(topic + ": " + errClass(err))
			}
		}()
	}
	next := func() (c10GateEvent, bool) {
		select {
		case ev := <-events:
			return ev, true
		case <-time.After(8 * time.Second):
			return c10GateEvent{}, false
		}
	}
	expected := [][]byte{c10EncConnect("cid")}
	held, ok := next() // the holder's first write
	barged := false
	noQueue := false
	nW := 0
	for attempt := 0; ok && attempt < 6 && !barged; attempt++ {
		want := c10WritersBlockedOnMutex() + 1
		small("W", nW)
		expected = append(expected, encPublish(inMsg{Topic: []byte("W"), Payload: []byte{byte(nW)}}))
		nW++
		if !c10Until(func() bool { return c10WritersBlockedOnMutex() >= want }) {
			noQueue = true // nobody parks on muWrite (or not in a way the dump shows): do not wait for queues below
			break
		}
		time.Sleep(2 * time.Millisecond) // the waiter must have waited > 1 ms
		close(held.release)
		var ev c10GateEvent
		if ev, ok = next(); !ok {
			break
		}
		if isA(ev.pkt) {
			barged = true // the holder re-acquired before the woken waiter: the waiter now starves
			held = ev
		} else {
			close(ev.release) // the waiter won; hold the holder's next write and try again
			held, ok = next()
			for ok && !isA(held.pkt) {
				close(held.release)
				held, ok = next()
			}
		}
	}
	if !ok {
		stuck = true
	} else {
		time.Sleep(2 * time.Millisecond) // let the starving waiter run and mark the mutex
		base := c10WritersBlockedOnMutex()
		payload := bytes.Repeat([]byte{fill}, payloadLen)
		wg.Add(1)
		go func() {
			defer wg.Done()
			ctx, cancel := context.WithTimeout(runCtx, 20*time.Second)
			defer cancel()
			if err := cli.Publish(ctx, &mqtt.Message{Topic: "L", Payload: payload, QoS: 1, ID: 4242}); err != nil {
				opErr("large: " + errClass(err))
			}
		}()
		expected = append(expected, encPublish(inMsg{Topic: []byte("L"), Payload: payload, QoS: 1, ID: 4242}))
		if !noQueue {
			c10Until(func() bool { return c10WritersBlockedOnMutex() >= base+1 })
		}
		small("S1", 1)
		small("S2", 2)
		expected = append(expected, encPublish(inMsg{Topic: []byte("S1"), Payload: []byte{1}}), encPublish(inMsg{Topic: []byte("S2"), Payload: []byte{2}}))
		conn.send(encPublish(inMsg{Topic: []byte("in/1"), ID: 909, QoS: 1, Payload: []byte{7}}))
		expected = append(expected, encID(0x40, 909))
		if noQueue {
			opErr("no writer was seen queued on muWrite behind the held Transport.Write")
		} else if !c10Until(func() bool { return c10WritersBlockedOnMutex() >= base+4 }) {
			opErr("not all writers were seen queued on muWrite")
		}
		time.Sleep(2 * time.Millisecond)
		atomic.StoreInt32(&stopA, 1)
		close(held.release)
	}
	// from here on every write passes the gate at once
	drainDone := make(chan struct{})
	go func() {
		defer close(drainDone)
		for {
			select {
			case ev := <-events:
				close(ev.release)
			case <-runCtx.Done():
				return
			}
		}
	}()
	if !c10WaitGroup(&wg, 40*time.Second) {
		stuck = true
	}
	select {
	case <-acksDone:
	case <-runCtx.Done():
	case <-time.After(10 * time.Second):
		stuck = true
	}
	c10Until(func() bool {
		conn.mu.Lock()
		defer conn.mu.Unlock()
		return conn.inFlight == 0
	})
	for k := 0; k < int(atomic.LoadInt32(&nA)); k++ {
		expected = append(expected, encPublish(inMsg{Topic: []byte("A"), Payload: []byte{byte(k)}}))
	}
	emitted, calls, maxIn, _ := conn.snapshot()
	cancelRun()
	<-drainDone
	cli.Close()
	select {
	case <-cli.Done():
	case <-time.After(10 * time.Second):
		stuck = true
	}
	emu.Lock()
	obs.OpErrors = append([]string{}, opErrors...)
	emu.Unlock()
	obs.Desc += fmt.Sprintf(" (mutex starvation established: %v)", barged)
	obs.Emitted, obs.Calls, obs.Expected, obs.MaxInFlight, obs.Stuck = c10Hex(emitted), c10Hex(calls), c10Hex(expected), maxIn, stuck
	return obs
}

// c10BigWireRun: concurrent publishers with payload sizes on both sides of plausible buffering
// thresholds, small writers and inbound traffic, on the yielding transport.
func c10BigWireRun(rng *rand.Rand, sizes []int, nSmall, nInbound int) c10RunObs {
	conn := newC10Conn()
	conn.yield = true
	br := &c10Broker{wantAcks: nInbound, acksDone: make(chan struct{})}
	done := br.acksDone
	conn.onFrame = br.onFrame
	obs := c10RunObs{Desc: fmt.Sprintf("large-packet wire run: payload sizes %v, %d small writers, %d inbound messages", sizes, nSmall, nInbound)}
	cli, err := c10ConnectBase(conn, mqtt.HandlerFunc(func(*mqtt.Message) { c10Perturb() }))
	if err != nil {
		obs.OpErrors = append(obs.OpErrors, "connect: "+err.Error())
		obs.Stuck = true
		return obs
	}
	var emu sync.Mutex
	var opErrors []string
	stuck := false
	runCtx, cancelRun := context.WithCancel(context.Background())
	defer cancelRun()
	conn.mu.Lock()
	conn.onBroken = cancelRun
	conn.mu.Unlock()
	opErr := func(s string) { emu.Lock(); opErrors = append(opErrors, s); emu.Unlock(); cancelRun() }
	expected := [][]byte{c10EncConnect("cid")}
	start := make(chan struct{})
	var wg sync.WaitGroup
	for i, n := range sizes {
		qos := byte(i % 3)
		id := uint16(500 + i)
		payload := bytes.Repeat([]byte{byte(0x41 + i%26)}, n)
		topic := fmt.Sprintf("big/%d", i)
		expected = append(expected, encPublish(inMsg{Topic: []byte(topic), ID: id, QoS: qos, Payload: payload}))
		if qos == 2 {
			expected = append(expected, encID(0x62, id))
		}
		wg.Add(1)
		go func() {
			defer wg.Done()
			<-start
			ctx, cancel := context.WithTimeout(runCtx, 30*time.Second)
			defer cancel()
			if err := cli.Publish(ctx, &mqtt.Message{Topic: topic, Payload: payload, QoS: mqtt.QoS(qos), ID: id}); err != nil {
				opErr("big publish: " + errClass(err))
			}
		}()
	}
	for g := 0; g < nSmall; g++ {
		for k := 0; k < 4; k++ {
			expected = append(expected, encPublish(inMsg{Topic: []byte(fmt.Sprintf("s/%d", g)), Payload: []byte{byte(k)}}))
		}
		wg.Add(1)
		go func(g int) {
			defer wg.Done()
			<-start
			for k := 0; k < 4; k++ {
				ctx, cancel := context.WithTimeout(runCtx, 30*time.Second)
				if err := cli.Publish(ctx, &mqtt.Message{Topic: fmt.Sprintf("s/%d", g), Payload: []byte{byte(k)}}); err != nil {
					opErr("small publish: " + errClass(err))
				}
				cancel()
				runtime.Gosched()
			}
		}(g)
	}
	for k := 0; k < nInbound; k++ {
		id := uint16(31000 + k)
		if k%2 == 0 {
			expected = append(expected, encID(0x40, id))
		} else {
			expected = append(expected, encID(0x50, id), encID(0x70, id))
		}
	}
	wg.Add(1)
	go func() {
		defer wg.Done()
		<-start
		for k := 0; k < nInbound; k++ {
			id := uint16(31000 + k)
			conn.send(encPublish(inMsg{Topic: []byte("in"), ID: id, QoS: byte(1 + k%2), Payload: []byte{byte(k)}}))
			runtime.Gosched()
		}
	}()
	close(start)
	if !c10WaitGroup(&wg, 90*time.Second) {
		stuck = true
	}
	if nInbound > 0 {
		select {
		case <-done:
		case <-runCtx.Done():
		case <-time.After(20 * time.Second):
			stuck = true
		}
	}
	c10Until(func() bool { conn.mu.Lock(); defer conn.mu.Unlock(); return conn.inFlight == 0 })
	emitted, calls, maxIn, _ := conn.snapshot()
	cli.Close()
	select {
	case <-cli.Done():
	case <-time.After(20 * time.Second):
		stuck = true
	}
	emu.Lock()
	obs.OpErrors = append([]string{}, opErrors...)
	emu.Unlock()
	obs.Emitted, obs.Calls, obs.Expected, obs.MaxInFlight, obs.Stuck = c10Hex(emitted), c10Hex(calls), c10Hex(expected), maxIn, stuck
	return obs
}

// ===================================================================== (c) exploration under the race detector

// Connect overlapping requests, with and without an early CONNACK already waiting in the transport.
func c10StressConnect(rng *rand.Rand, iters int) int {
	n := 0
	for it := 0; it < iters; it++ {
		runtime.GOMAXPROCS(1 + rng.Intn(8))
		conn := newC10Conn()
		br := &c10Broker{}
		conn.onFrame = br.onFrame
		if it%2 == 1 {
			conn.send(connackOK) // unsolicited early CONNACK: the reader handles it while Connect still runs
		}
		cli := &mqtt.BaseClient{Transport: conn}
		cli.ConnState = func(mqtt.ConnState, error) { c10Perturb() }
		start := make(chan struct{})
		connected := make(chan struct{})
		var wg sync.WaitGroup
		for k := 0; k < 4; k++ {
			wg.Add(1)
			go func(k int) {
				defer wg.Done()
				<-start
				for r := 0; r < 2; r++ {
					// round 0 overlaps Connect (a request that slips in between init and the connect
					// phase waits for its own deadline: keep it short); round 1 runs on the live connection
					d := 100 * time.Millisecond
					if r == 1 {
						<-connected
						d = 10 * time.Second
					}
					ctx, cancel := ctxTimeout(d)
					switch k {
					case 0:
						_ = cli.Ping(ctx)
					case 1:
						_ = cli.Publish(ctx, &mqtt.Message{Topic: "a", QoS: 1, Payload: []byte{1}})
					case 2:
						_, _ = cli.Subscribe(ctx, mqtt.Subscription{Topic: "a"})
						_ = cli.Stats()
					case 3:
						select {
						case <-cli.Done():
						default:
						}
						_ = cli.Err()
						cli.Handle(mqtt.HandlerFunc(func(*mqtt.Message) {}))
					}
					cancel()
					runtime.Gosched()
				}
			}(k)
		}
		wg.Add(1)
		go func() {
			defer wg.Done()
			defer close(connected)
			<-start
			ctx, cancel := ctxTimeout(10 * time.Second)
			defer cancel()
			_, _ = cli.Connect(ctx, "cid")
		}()
		close(start)
		c10WaitGroup(&wg, 40*time.Second)
		cli.Close()
		n++
	}
	return n
}

type c10Dialer struct {
	mu      sync.Mutex
	conns   []*c10Conn
	cutNext int32 // cut the connection (instead of answering) on the n-th publish seen
}

func (d *c10Dialer) DialContext(ctx context.Context) (*mqtt.BaseClient, error) {
	conn := newC10Conn()
	conn.yield = true
	br := &c10Broker{}
	conn.onFrame = func(c *c10Conn, f []byte) {
		if f[0]>>4 == 3 && (f[0]>>1)&3 > 0 {
			if atomic.AddInt32(&d.cutNext, -1) == 0 {
				c.Close() // the acknowledgement is lost with the connection
				return
			}
		}
		br.onFrame(c, f)
	}
	d.mu.Lock()
	d.conns = append(d.conns, conn)
	d.mu.Unlock()
	cli := &mqtt.BaseClient{Transport: conn}
	cli.ConnState = func(mqtt.ConnState, error) { c10Perturb() }
	return cli, nil
}

func (d *c10Dialer) current() *c10Conn {
	d.mu.Lock()
	defer d.mu.Unlock()
	if len(d.conns) == 0 {
		return nil
	}
	return d.conns[len(d.conns)-1]
}

// RetryClient + ReconnectClient under concurrent callers, cuts and reconnects.
func c10StressReconnect(rng *rand.Rand, iters, nG, nOps int) (reconnects int, notes []string) {
	for it := 0; it < iters; it++ {
		runtime.GOMAXPROCS(1 + rng.Intn(8))
		d := &c10Dialer{cutNext: int32(2 + rng.Intn(4))}
		rc := &mqtt.RetryClient{ResponseTimeout: 2 * time.Second}
		rc.OnError = func(error) { c10Perturb() }
		cli, err := mqtt.NewReconnectClient(d,
			mqtt.WithReconnectWait(time.Millisecond, 4*time.Millisecond),
			mqtt.WithPingInterval(15*time.Millisecond),
			mqtt.WithTimeout(2*time.Second),
			mqtt.WithRetryClient(rc))
		if err != nil {
			notes = append(notes, "NewReconnectClient: "+err.Error())
			continue
		}
		var handled int64
		cli.Handle(mqtt.HandlerFunc(func(*mqtt.Message) { atomic.AddInt64(&handled, 1); c10Perturb() }))
		start := make(chan struct{})
		stop := make(chan struct{})
		var wg, bg sync.WaitGroup
		// callers start before Connect returns: requests overlap the first SetClient
		for g := 0; g < nG; g++ {
			wg.Add(1)
			go func(g int) {
				defer wg.Done()
				<-start
				for k := 0; k < 400*nOps; k++ {
					select {
					case <-stop:
						return
					default:
					}
					ctx, cancel := ctxTimeout(10 * time.Second)
					switch (g + k) % 6 {
					case 0, 1:
						_ = cli.Publish(ctx, &mqtt.Message{Topic: fmt.Sprintf("r/%d", g), QoS: mqtt.QoS(1 + k%2), Payload: []byte{byte(k)}})
					case 2:
						_ = cli.Publish(ctx, &mqtt.Message{Topic: "r/0", QoS: 0, Payload: []byte{byte(k)}})
					case 3:
						_, _ = cli.Subscribe(ctx, mqtt.Subscription{Topic: fmt.Sprintf("s/%d", g), QoS: 1})
					case 4:
						_ = cli.Unsubscribe(ctx, fmt.Sprintf("s/%d", g))
					case 5:
						// RetryClient.Ping dereferences a nil client before the first SetClient (reported
						// separately, not a data race): ping only once a client exists
						if cli.Client() != nil {
							_ = cli.Ping(ctx)
						}
					}
					cancel()
					if k >= nOps {
						time.Sleep(200 * time.Microsecond) // keep the task queue short once warmed up
					}
					runtime.Gosched()
				}
			}(g)
		}
		// observers: Stats / Client / Done / Err / Handle
		for o := 0; o < 3; o++ {
			bg.Add(1)
			go func(o int) {
				defer bg.Done()
				<-start
				for {
					select {
					case <-stop:
						return
					default:
					}
					switch o {
					case 0:
						_ = cli.Stats()
					case 1:
						if b := cli.Client(); b != nil {
							_ = b.Stats()
							_ = b.Err()
							select {
							case <-b.Done():
							default:
							}
						}
					case 2:
						cli.Handle(mqtt.HandlerFunc(func(*mqtt.Message) { atomic.AddInt64(&handled, 1) }))
					}
					runtime.Gosched()
				}
			}(o)
		}
		// inbound traffic
		bg.Add(1)
		go func() {
			defer bg.Done()
			<-start
			for k := 0; ; k++ {
				select {
				case <-stop:
					return
				default:
				}
				if c := d.current(); c != nil {
					if k%2 == 0 {
						c.send(encPublish(inMsg{Topic: []byte("in/1"), ID: uint16(100 + k%50), QoS: 1, Payload: []byte{1}}))
					} else {
						c.send(encPublish(inMsg{Topic: []byte("in/2"), ID: uint16(200 + k%50), QoS: 2, Payload: []byte{2}}))
					}
				}
				time.Sleep(300 * time.Microsecond)
			}
		}()
		close(start)
		ctx, cancel := ctxTimeout(20 * time.Second)
		if _, err := cli.Connect(ctx, "cid", mqtt.WithKeepAlive(1)); err != nil {
			notes = append(notes, "reconnect Connect: "+err.Error())
		}
		cancel()
		// cuts: let some traffic through, kill the transport, wait for the redial — callers keep going
		for cut := 0; cut < 3; cut++ {
			d.mu.Lock()
			n0 := len(d.conns)
			d.mu.Unlock()
			cur := d.current()
			if cur == nil {
				break
			}
			c10Until(func() bool { cur.mu.Lock(); defer cur.mu.Unlock(); return len(cur.calls) >= 12 || cur.closed })
			cur.Close()
			if !c10Until(func() bool { d.mu.Lock(); defer d.mu.Unlock(); return len(d.conns) > n0 }) {
				notes = append(notes, "no redial within 10 s after a cut")
			}
		}
		close(stop)
		if !c10WaitGroup(&wg, 60*time.Second) {
			notes = append(notes, "reconnect stress: callers did not finish within 60 s")
		}
		// wait for the queue to drain (barrier task), bounded
		ch := make(chan struct{})
		if err := rc.VerifBarrier(ch); err == nil {
			select {
			case <-ch:
			case <-time.After(10 * time.Second):
			}
		}
		bg.Wait()
		ctx2, cancel2 := ctxTimeout(10 * time.Second)
		_ = cli.Disconnect(ctx2)
		cancel2()
		d.mu.Lock()
		reconnects += len(d.conns)
		for _, c := range d.conns {
			c.Close()
		}
		d.mu.Unlock()
	}
	return
}

// RetryClient driven directly (SetClient/Connect/Retry/Resubscribe by the application).
func c10StressRetry(rng *rand.Rand, iters int) {
	for it := 0; it < iters; it++ {
		runtime.GOMAXPROCS(1 + rng.Intn(8))
		rc := &mqtt.RetryClient{}
		start := make(chan struct{})
		var wg sync.WaitGroup
		for g := 0; g < 4; g++ {
			wg.Add(1)
			go func(g int) {
				defer wg.Done()
				<-start
				for k := 0; k < 6; k++ {
					ctx, cancel := ctxTimeout(10 * time.Second)
					switch g {
					case 0:
						_ = rc.Publish(ctx, &mqtt.Message{Topic: "x", QoS: 1, Payload: []byte{byte(k)}})
					case 1:
						_, _ = rc.Subscribe(ctx, mqtt.Subscription{Topic: "x", QoS: 1})
					case 2:
						_ = rc.Stats()
						rc.Handle(mqtt.HandlerFunc(func(*mqtt.Message) {}))
					case 3:
						_ = rc.Client()
						_ = rc.Stats()
					}
					cancel()
					runtime.Gosched()
				}
			}(g)
		}
		wg.Add(1)
		go func() {
			defer wg.Done()
			<-start
			for c := 0; c < 2; c++ {
				conn := newC10Conn()
				br := &c10Broker{}
				conn.onFrame = br.onFrame
				base := &mqtt.BaseClient{Transport: conn}
				ctx, cancel := ctxTimeout(10 * time.Second)
				rc.SetClient(ctx, base)
				_, _ = rc.Connect(ctx, "cid")
				rc.Resubscribe(ctx)
				rc.Retry(ctx)
				cancel()
				ch := make(chan struct{})
				if rc.VerifBarrier(ch) == nil {
					select {
					case <-ch:
					case <-time.After(10 * time.Second):
					}
				}
				if c == 0 {
					conn.Close()
					select {
					case <-base.Done():
					case <-time.After(10 * time.Second):
					}
				}
			}
		}()
		close(start)
		c10WaitGroup(&wg, 60*time.Second)
		ctx, cancel := ctxTimeout(10 * time.Second)
		_ = rc.Disconnect(ctx)
		cancel()
		if b := rc.Client(); b != nil {
			b.Close()
		}
	}
}

// K independent clients setting up (and re-establishing) connections at the same time: state
// shared by ALL clients of the process (package-level variables) is only exercised this way.
func c10StressMulti(rng *rand.Rand, k, rounds int) (connects int64) {
	runtime.GOMAXPROCS(2 + rng.Intn(7))
	start := make(chan struct{})
	var wg sync.WaitGroup
	for g := 0; g < k; g++ {
		wg.Add(1)
		go func(g int) {
			defer wg.Done()
			<-start
			for r := 0; r < rounds; r++ {
				conn := newC10Conn()
				br := &c10Broker{}
				conn.onFrame = br.onFrame
				cli := &mqtt.BaseClient{Transport: conn}
				ctx, cancel := ctxTimeout(10 * time.Second)
				if _, err := cli.Connect(ctx, fmt.Sprintf("m%d", g)); err == nil {
					atomic.AddInt64(&connects, 1)
					_ = cli.Ping(ctx)
					_ = cli.Publish(ctx, &mqtt.Message{Topic: "m", QoS: 1, Payload: []byte{byte(r)}})
				}
				cancel()
				cli.Close()
				runtime.Gosched()
			}
		}(g)
	}
	// and a few ReconnectClients that lose their connection at about the same time
	nRC := k / 2
	if nRC < 2 {
		nRC = 2
	}
	for g := 0; g < nRC; g++ {
		wg.Add(1)
		go func(g int) {
			defer wg.Done()
			<-start
			d := &c10Dialer{cutNext: 1 << 30}
			cli, err := mqtt.NewReconnectClient(d, mqtt.WithReconnectWait(time.Millisecond, 2*time.Millisecond), mqtt.WithTimeout(2*time.Second))
			if err != nil {
				return
			}
			ctx, cancel := ctxTimeout(20 * time.Second)
			_, _ = cli.Connect(ctx, fmt.Sprintf("rc%d", g))
			cancel()
			for cut := 0; cut < 1+rounds/8; cut++ {
				d.mu.Lock()
				n0 := len(d.conns)
				d.mu.Unlock()
				if cur := d.current(); cur != nil {
					cur.Close()
				}
				c10Until(func() bool { d.mu.Lock(); defer d.mu.Unlock(); return len(d.conns) > n0 })
				ctx, cancel := ctxTimeout(5 * time.Second)
				_ = cli.Publish(ctx, &mqtt.Message{Topic: "m", QoS: 1, Payload: []byte{byte(cut)}})
				cancel()
			}
			ctx2, cancel2 := ctxTimeout(10 * time.Second)
			_ = cli.Disconnect(ctx2)
			cancel2()
			d.mu.Lock()
			atomic.AddInt64(&connects, int64(len(d.conns)))
			for _, c := range d.conns {
				c.Close()
			}
			d.mu.Unlock()
		}(g)
	}
	close(start)
	c10WaitGroup(&wg, 120*time.Second)
	return atomic.LoadInt64(&connects)
}

type c10Trial struct {
	Calls  []string `json:"calls"`
	Codes  []int    `json:"codes"` // 0 nil, 1 ErrClosedClient, 2 other error, 3 panic
	Detail []string `json:"detail,omitempty"`
}

// Disconnect issued while 4-8 producers (Publish QoS0/1, Subscribe, Unsubscribe, Retry,
// Resubscribe) are still issuing requests on the same RetryClient. Every call must return nil
// or ErrClosedClient; nothing may panic.
func c10DisconnectTrials(rng *rand.Rand, n int) []c10Trial {
	var out []c10Trial
	for t := 0; t < n; t++ {
		runtime.GOMAXPROCS(2 + rng.Intn(7))
		conn := newC10Conn()
		br := &c10Broker{}
		conn.onFrame = br.onFrame
		base := &mqtt.BaseClient{Transport: conn}
		rc := &mqtt.RetryClient{}
		ctx, cancel := ctxTimeout(10 * time.Second)
		rc.SetClient(ctx, base)
		_, cerr := rc.Connect(ctx, "cid")
		cancel()
		var mu sync.Mutex
		tr := c10Trial{}
		if cerr != nil {
			tr.Calls, tr.Codes, tr.Detail = []string{"Connect"}, []int{2}, []string{cerr.Error()}
			out = append(out, tr)
			continue
		}
		note := func(call string, err error, pan interface{}) {
			code := 0
			detail := ""
			switch {
			case pan != nil:
				code, detail = 3, fmt.Sprintf("%s panicked: %v", call, pan)
			case err == nil:
			case errors.Is(err, mqtt.ErrClosedClient):
				code = 1
			default:
				code, detail = 2, call+": "+err.Error()
			}
			mu.Lock()
			tr.Calls = append(tr.Calls, call)
			tr.Codes = append(tr.Codes, code)
			if detail != "" {
				tr.Detail = append(tr.Detail, detail)
			}
			mu.Unlock()
		}
		do := func(call string, f func() error) {
			var err error
			var pan interface{}
			func() {
				defer func() { pan = recover() }()
				err = f()
			}()
			note(call, err, pan)
		}
		nProd := 4 + rng.Intn(5)
		start := make(chan struct{})
		var wg sync.WaitGroup
		for g := 0; g < nProd; g++ {
			kind := (g + t) % 6
			spin := rng.Intn(4)
			wg.Add(1)
			go func(g, kind, spin int) {
				defer wg.Done()
				<-start
				for i := 0; i < spin; i++ {
					runtime.Gosched()
				}
				for k := 0; k < 3; k++ {
					ctx, cancel := ctxTimeout(5 * time.Second)
					switch kind {
					case 0:
						do("Publish(QoS0)", func() error { return rc.Publish(ctx, &mqtt.Message{Topic: "d", Payload: []byte{byte(k)}}) })
					case 1:
						do("Publish(QoS1)", func() error { return rc.Publish(ctx, &mqtt.Message{Topic: "d", QoS: 1, Payload: []byte{byte(k)}}) })
					case 2:
						do("Subscribe", func() error { _, err := rc.Subscribe(ctx, mqtt.Subscription{Topic: "d", QoS: 1}); return err })
					case 3:
						do("Retry", func() error { rc.Retry(ctx); return nil })
					case 4:
						do("Resubscribe", func() error { rc.Resubscribe(ctx); return nil })
					case 5:
						do("Unsubscribe", func() error { return rc.Unsubscribe(ctx, "d") })
					}
					cancel()
				}
			}(g, kind, spin)
		}
		wg.Add(1)
		dspin := rng.Intn(6)
		go func() {
			defer wg.Done()
			<-start
			for i := 0; i < dspin; i++ {
				runtime.Gosched()
			}
			ctx, cancel := ctxTimeout(5 * time.Second)
			defer cancel()
			do("Disconnect", func() error { return rc.Disconnect(ctx) })
		}()
		close(start)
		if !c10WaitGroup(&wg, 30*time.Second) {
			mu.Lock()
			tr.Calls = append(tr.Calls, "(trial did not finish)")
			tr.Codes = append(tr.Codes, 2)
			mu.Unlock()
		}
		base.Close()
		mu.Lock()
		out = append(out, c10Trial{Calls: append([]string{}, tr.Calls...), Codes: append([]int{}, tr.Codes...), Detail: append([]string{}, tr.Detail...)})
		mu.Unlock()
	}
	return out
}

// A RetryClient driven by hand: the previous BaseClient's reader goroutine is still alive and
// receiving QoS 2 traffic when the next client is set and connected (the stock reconnect loop
// waits for Done() first); the second connection gets its own QoS 2 stream at the same time.
// The two readers work on the session's inbound QoS 2 store concurrently. Observed: how often
// each message reached the handler (must be exactly once).
func c10TwoConnTrial(rng *rand.Rand, perConn int) (counts []int, note string) {
	runtime.GOMAXPROCS(2 + rng.Intn(7))
	var mu sync.Mutex
	seen := map[string]int{}
	h := mqtt.HandlerFunc(func(m *mqtt.Message) {
		mu.Lock()
		seen[string(m.Payload)]++
		mu.Unlock()
		runtime.Gosched()
	})
	rc := &mqtt.RetryClient{}
	rc.Handle(h)
	mk := func() (*c10Conn, *c10Broker, *mqtt.BaseClient) {
		conn := newC10Conn()
		br := &c10Broker{wantAcks: perConn, acksDone: make(chan struct{})}
		conn.onFrame = br.onFrame
		return conn, br, &mqtt.BaseClient{Transport: conn}
	}
	conn1, br1, cli1 := mk()
	conn2, br2, cli2 := mk()
	done1, done2 := br1.acksDone, br2.acksDone
	ctx, cancel := ctxTimeout(20 * time.Second)
	defer cancel()
	rc.SetClient(ctx, cli1)
	if _, err := rc.Connect(ctx, "cid"); err != nil {
		return nil, "connect 1: " + err.Error()
	}
	stream := func(conn *c10Conn, tag byte, base int, started chan struct{}) {
		for k := 0; k < perConn; k++ {
			conn.send(encPublish(inMsg{Topic: []byte("in/2"), ID: uint16(base + k), QoS: 2, Payload: []byte{tag, byte(k >> 8), byte(k)}}))
			if k == perConn/4 && started != nil {
				close(started)
			}
			runtime.Gosched()
		}
	}
	flowing := make(chan struct{})
	var wg sync.WaitGroup
	wg.Add(1)
	go func() { defer wg.Done(); stream(conn1, 1, 100, flowing) }()
	<-flowing // connection 1's stream is under way: now the next client arrives
	rc.SetClient(ctx, cli2)
	wg.Add(1)
	go func() { defer wg.Done(); stream(conn2, 2, 20000, nil) }()
	if _, err := rc.Connect(ctx, "cid"); err != nil {
		note = "connect 2: " + err.Error()
	}
	wg.Wait()
	for _, d := range []chan struct{}{done1, done2} {
		select {
		case <-d:
		case <-time.After(15 * time.Second):
			note += " inbound flows did not complete;"
		}
	}
	cli1.Close()
	cli2.Close()
	for _, c := range []*mqtt.BaseClient{cli1, cli2} {
		select {
		case <-c.Done():
		case <-time.After(10 * time.Second):
			note += " reader did not stop;"
		}
	}
	ctx2, cancel2 := ctxTimeout(5 * time.Second)
	_ = rc.Disconnect(ctx2)
	cancel2()
	mu.Lock()
	defer mu.Unlock()
	for tag := byte(1); tag <= 2; tag++ {
		for k := 0; k < perConn; k++ {
			counts = append(counts, seen[string([]byte{tag, byte(k >> 8), byte(k)})])
		}
	}
	return counts, note
}

// ===================================================================== child

func runC10Child(cfg *runCfg) error {
	rng := rand.New(rand.NewSource(cfg.seed))
	out := &c10ChildOut{Stress: map[string]interface{}{}}
	type wr struct{ g, ops, inb int }
	var wires []wr
	connectIters, reconIters, reconG, reconOps, retryIters := 120, 6, 8, 10, 30
	switch cfg.tier {
	case "thorough":
		wires = []wr{{8, 8, 12}, {16, 8, 24}, {32, 6, 32}, {32, 10, 40}, {12, 12, 20}, {24, 8, 30}, {32, 12, 48}, {16, 16, 32}}
		connectIters, reconIters, reconG, reconOps, retryIters = 3000, 200, 12, 16, 600
	case "search":
		wires = []wr{{32, 8, 32}, {24, 8, 24}, {32, 6, 40}}
		connectIters, reconIters, reconG, reconOps, retryIters = 400, 20, 12, 12, 100
	default:
		wires = []wr{{8, 6, 10}, {16, 5, 16}, {32, 3, 20}, {24, 4, 24}}
	}
	procs := runtime.GOMAXPROCS(0)
	t0 := time.Now()
	lap := func(name string) {
		out.Stress["wall_s_"+name] = time.Since(t0).Seconds()
		if os.Getenv("C10_DEBUG") != "" {
			fmt.Fprintln(os.Stderr, "lap", name, time.Since(t0))
		}
		t0 = time.Now()
	}
	for i, w := range wires {
		runtime.GOMAXPROCS(2 + rng.Intn(7))
		out.Runs = append(out.Runs, c10WireRun(rng, w.g, w.ops, w.inb, i%2 == 1))
	}
	runtime.GOMAXPROCS(procs)
	lap("wire_runs")
	for _, h := range []string{"publish0", "publish1", "subscribe", "ping", "pubrel"} {
		for _, c := range []string{"puback", "pubrec", "pubcomp", "publish0", "ping"} {
			out.Probes = append(out.Probes, c10Probe(c10ProbeSpec{h, c}))
		}
	}
	lap("probes")
	bigSizes := []int{255, 256, 1023, 1024, 4095, 4096, 4097, 8192, 65535, 65536}
	convicted := 0
	for i, n := range bigSizes {
		if cfg.tier == "quick" && (n == 255 || n == 1023 || n == 4095 || n == 65535) && (int(cfg.seed)+i)%2 == 0 {
			continue // quick: the lower neighbour of each threshold on alternate seeds only
		}
		r := c10Contend(n, byte(0x61+i))
		out.BigRuns = append(out.BigRuns, r)
		if r.Stuck || len(r.OpErrors) > 0 {
			convicted++ // a broken tree makes these scenarios slow (they wait out their timeouts): two are enough
			if convicted >= 2 {
				break
			}
		}
	}
	runtime.GOMAXPROCS(2 + rng.Intn(7))
	if cfg.tier == "quick" {
		out.BigRuns = append(out.BigRuns, c10BigWireRun(rng, []int{256, 1024, 4096, 4097, 8192, 16384}, 6, 8))
	} else {
		out.BigRuns = append(out.BigRuns, c10BigWireRun(rng, bigSizes, 6, 8))
		out.BigRuns = append(out.BigRuns, c10BigWireRun(rng, []int{4096, 4097, 8192, 16384, 70000, 200000}, 12, 16))
		out.BigRuns = append(out.BigRuns, c10Contend(1<<20-1, 0x7a), c10Contend(300000, 0x79))
	}
	runtime.GOMAXPROCS(procs)
	lap("large_packets")
	out.Stress["connect_overlap_iterations"] = c10StressConnect(rng, connectIters)
	lap("connect_overlap")
	c10StressRetry(rng, retryIters)
	lap("retryclient")
	out.Stress["retryclient_iterations"] = retryIters
	multiK, multiRounds, nTrials := 8, 60, 400
	switch cfg.tier {
	case "thorough":
		multiK, multiRounds, nTrials = 12, 400, 6000
	case "search":
		multiK, multiRounds, nTrials = 8, 60, 800
	}
	out.Stress["multi_client_connects"] = c10StressMulti(rng, multiK, multiRounds)
	lap("multi_client")
	out.Trials = c10DisconnectTrials(rng, nTrials)
	lap("disconnect_trials")
	nTwo, perConn := 40, 80
	switch cfg.tier {
	case "thorough":
		nTwo, perConn = 400, 150
	case "search":
		nTwo, perConn = 60, 100
	}
	for i := 0; i < nTwo; i++ {
		cs, note := c10TwoConnTrial(rng, perConn)
		out.TwoConn = append(out.TwoConn, cs)
		out.TwoNotes = append(out.TwoNotes, note)
	}
	lap("two_connections")
	conns, notes := c10StressReconnect(rng, reconIters, reconG, reconOps)
	lap("reconnect")
	out.Stress["reconnect_iterations"] = reconIters
	out.Stress["connections_opened"] = conns
	out.StuckNotes = notes
	runtime.GOMAXPROCS(procs)
	b, err := json.Marshal(out)
	if err != nil {
		return err
	}
	return os.WriteFile(cfg.extra, b, 0o644)
}

// ===================================================================== race log

type c10Race struct {
	Text    string
	Library bool
	Key     string
}

var c10FrameFn = regexp.MustCompile(`^  (\S+)\(\)$`)

func c10ParseRaceLogs(glob string) ([]c10Race, error) {
	files, _ := filepath.Glob(glob)
	var out []c10Race
	for _, f := range files {
		b, err := os.ReadFile(f)
		if err != nil {
			return nil, err
		}
		for _, blk := range strings.Split(string(b), "==================") {
			if !strings.Contains(blk, "WARNING: DATA RACE") {
				continue
			}
			// the two access stacks: from "Read at/Write at/Previous ..." up to the next empty line
			var tops []string
			lines := strings.Split(blk, "\n")
			for i := 0; i < len(lines); i++ {
				l := lines[i]
				if strings.HasPrefix(l, "Read at ") || strings.HasPrefix(l, "Write at ") || strings.HasPrefix(l, "Previous read at ") ||
					strings.HasPrefix(l, "Previous write at ") || strings.HasPrefix(l, "Atomic ") || strings.HasPrefix(l, "Previous atomic ") {
					top := ""
					for j := i + 1; j < len(lines) && strings.TrimSpace(lines[j]) != ""; j++ {
						m := c10FrameFn.FindStringSubmatch(lines[j])
						if m == nil {
							continue
						}
						fn := m[1]
						// whose code made the access: the innermost frame that is library or harness
						// (standard-library frames above it, e.g. math/rand.(*Rand).Int31n, were called by it)
						if !strings.HasPrefix(fn, "github.com/at-wat/mqtt-go.") && !strings.HasPrefix(fn, "main.") {
							continue
						}
						loc := ""
						if j+1 < len(lines) {
							loc = strings.TrimSpace(lines[j+1])
							if k := strings.LastIndex(loc, " +0x"); k >= 0 {
								loc = loc[:k]
							}
							loc = filepath.Base(loc)
						}
						top = fn + " " + loc
						break
					}
					tops = append(tops, top)
				}
			}
			lib := false
			for _, t := range tops {
				if strings.HasPrefix(t, "github.com/at-wat/mqtt-go.") {
					lib = true
				}
			}
			sort.Strings(tops)
			out = append(out, c10Race{Text: strings.TrimSpace(blk), Library: lib, Key: strings.Join(tops, " | ")})
		}
	}
	return out, nil
}

// ===================================================================== parent

func c10DecodeHexList(hs []string) [][]byte {
	out := make([][]byte, len(hs))
	for i, h := range hs {
		out[i], _ = hex.DecodeString(h)
	}
	return out
}

func c10CoqByteLists(bs [][]byte) string {
	items := make([]string, len(bs))
	for i, b := range bs {
		items[i] = cBytes(b)
	}
	return cListInline(items)
}

func c10CoqRLE(b []byte) string {
	var runs []string
	for i := 0; i < len(b); {
		j := i
		for j < len(b) && b[j] == b[i] {
			j++
		}
		runs = append(runs, fmt.Sprintf("(%d,%d)", b[i], j-i))
		i = j
	}
	return cListInline(runs)
}

func c10CoqRLELists(bs [][]byte) string {
	items := make([]string, len(bs))
	for i, b := range bs {
		items[i] = c10CoqRLE(b)
	}
	return cListInline(items)
}

func c10CoqBigRun(r c10RunObs) string {
	return cTuple(c10CoqRLELists(c10DecodeHexList(r.Emitted)), c10CoqRLELists(c10DecodeHexList(r.Calls)), c10CoqRLELists(c10DecodeHexList(r.Expected)))
}

// first Transport.Write call that is not exactly one packet (for the replay text only)
func c10FirstSplitCall(calls [][]byte) (int, string) {
	for i, c := range calls {
		_, rest, st := c10SplitFrame(c)
		if st != 1 || len(rest) != 0 {
			h := c
			if len(h) > 48 {
				h = h[:48]
			}
			return i, fmt.Sprintf("%d bytes starting %s", len(c), hex.EncodeToString(h))
		}
	}
	return -1, ""
}

func c10CoqRun(r c10RunObs) string {
	return cTuple(c10CoqByteLists(c10DecodeHexList(r.Emitted)), c10CoqByteLists(c10DecodeHexList(r.Calls)), c10CoqByteLists(c10DecodeHexList(r.Expected)))
}

// first offset at which the wire stops being a sequence of frames (for the replay text only)
func c10FirstBadOffset(emitted [][]byte) (int, string) {
	var all []byte
	for _, e := range emitted {
		all = append(all, e...)
	}
	off := 0
	rest := all
	for len(rest) > 0 {
		_, r, st := c10SplitFrame(rest)
		if st != 1 {
			lo := off - 16
			if lo < 0 {
				lo = 0
			}
			hi := off + 64
			if hi > len(all) {
				hi = len(all)
			}
			return off, hex.EncodeToString(all[lo:hi])
		}
		off += len(rest) - len(r)
		rest = r
	}
	return -1, ""
}

func runC10(cfg *runCfg) error {
	if !c10RaceEnabled {
		return fmt.Errorf("the C10 harness must be built with -race (checks/C10.json \"race\": true)")
	}
	repo := os.Getenv("VERIF_REPO")
	if repo == "" {
		repo = "/repo"
	}
	m := &meta{Property: "C10", Distribution: map[string]interface{}{}, Families: map[string][]interface{}{}}
	cf := newCasesFile("C10", "SpecDecode WriteLock Lockset CheckC10")
	cf.defs = append(cf.defs, "From Coq Require Import String.\nOpen Scope string_scope.\nOpen Scope list_scope.\n")

	// ---------------- (b) access table from the source
	x, err := c10Extract(repo)
	if err != nil {
		return fmt.Errorf("translator: %w", err)
	}
	var rows []string
	for _, a := range x.accesses {
		rows = append(rows, a.coq())
		m.Families["facts"] = append(m.Families["facts"], a)
	}
	cf.def("c10_table", "list access", cList(rows))
	var pairs []string
	byField := map[string]int{}
	for i, a := range x.accesses {
		byField[a.Struct+"."+a.Field]++
		for j := i; j < len(x.accesses); j++ {
			b := x.accesses[j]
			if a.Struct != b.Struct || a.Field != b.Field {
				continue
			}
			if (a.Kind == "R" && b.Kind == "R") || (a.Kind == "A" && b.Kind == "A") {
				continue
			}
			pairs = append(pairs, fmt.Sprintf("(%s,%s)", cNat(i), cNat(j)))
			m.Families["lockset"] = append(m.Families["lockset"], map[string]interface{}{
				"what": "conflicting accesses to " + a.Struct + "." + a.Field + " that can run on two goroutines without a common lock (one side exclusive)",
				"a":    a, "b": b})
		}
	}
	cf.def("c10_pairs", "list (nat * nat)", cListInline(pairs))
	var shareRows []string
	for _, sh := range x.shares {
		shareRows = append(shareRows, "("+c10CoqString(sh.From)+","+c10CoqString(sh.To)+")")
		m.Families["shared_referent"] = append(m.Families["shared_referent"], map[string]interface{}{
			"what": "the map/slice/pointer held in " + sh.From + " is stored into " + sh.To + " of another lock-owning object: one referent, two lock objects",
			"site": sh})
	}
	cf.def("c10_shares", "list (string * string)", cListInline(shareRows))
	cf.result("V_shared_referent", "c10_share_violations c10_shares")
	cf.result("V_lockset", "c10_pair_violations c10_table c10_pairs")
	cf.result("V_facts", "c10_fact_violations c10_table")
	cf.result("M_lockset_decision", "c10_decision_mismatch c10_table c10_pairs")
	cf.result("M_coverage", "c10_coverage_gaps c10_table")
	m.Families["lockset_decision"] = []interface{}{"discipline_ok over ALL pairs of the table disagrees with the harness's enumeration of candidate pairs"}
	for _, r := range []string{"BaseClient.Transport.Write()", "BaseClient.sig", "BaseClient.connClosed", "BaseClient.handler", "BaseClient.connState", "BaseClient.err", "BaseClient.idLast", "BaseClient.stats",
		"signaller.chPubAck", "signaller.chPubRec", "signaller.chPubComp", "signaller.chSubAck", "signaller.chUnsubAck", "signaller.chPingResp",
		"RetryClient.cli", "RetryClient.taskQueue", "RetryClient.retryQueue", "RetryClient.chTask", "RetryClient.stats", "RetryClient.stopped", "RetryClient.subEstablished", "firstError.err", "RetryClient.chTask<-close()"} {
		m.Families["coverage"] = append(m.Families["coverage"], "the access table has no write to "+r+" (translator no longer sees the code the property is anchored in)")
	}
	facts := x.checkFacts()
	var factIdx []string
	for i, f := range facts {
		factIdx = append(factIdx, cNat(i))
		m.Families["layout"] = append(m.Families["layout"], f)
	}
	cf.result("M_layout", cListInline(factIdx))

	// ---------------- child: everything dynamic, under the race detector
	exe, err := os.Executable()
	if err != nil {
		return err
	}
	childJSON := filepath.Join(cfg.outDir, "c10_child.json")
	raceBase := filepath.Join(cfg.outDir, "c10_race")
	old, _ := filepath.Glob(raceBase + "*")
	for _, f := range old {
		os.Remove(f)
	}
	os.Remove(childJSON)
	cmd := exec.Command(exe, "C10child", "-tier", cfg.tier, "-seed", fmt.Sprint(cfg.seed), "-out", cfg.outDir, "-extra", childJSON)
	cmd.Env = append(os.Environ(), "GORACE=halt_on_error=0 exitcode=0 history_size=3 log_path="+raceBase)
	var stderr bytes.Buffer
	cmd.Stderr = &stderr
	cmd.Stdout = &stderr
	t0 := time.Now()
	if err := cmd.Start(); err != nil {
		return err
	}
	waitCh := make(chan error, 1)
	go func() { waitCh <- cmd.Wait() }()
	limit := 5 * time.Minute
	if cfg.tier == "thorough" {
		limit = 40 * time.Minute
	}
	var childErr error
	select {
	case childErr = <-waitCh:
	case <-time.After(limit):
		_ = cmd.Process.Kill()
		<-waitCh
		childErr = fmt.Errorf("child timed out after %s", limit)
	}
	childWall := time.Since(t0)
	var co c10ChildOut
	if b, err := os.ReadFile(childJSON); err == nil {
		if err := json.Unmarshal(b, &co); err != nil {
			return fmt.Errorf("child output: %w", err)
		}
	} else {
		// the child died (a panic or a fatal error such as "concurrent map writes" in the library
		// is a finding; anything else is a broken harness)
		txt := stderr.String()
		if c10CrashInLibrary(txt) {
			m.ImplViolations = append(m.ImplViolations, map[string]interface{}{
				"what": "the stress child crashed inside the library", "output": c10Tail(txt, 6000)})
		} else {
			return fmt.Errorf("child failed (%v): %s", childErr, c10Tail(txt, 3000))
		}
	}

	// ---------------- (a) wire runs and probes
	var runRows, probeRows, stuckRows []string
	nPackets := 0
	for _, r := range co.Runs {
		runRows = append(runRows, c10CoqRun(r))
		off, ctxhex := c10FirstBadOffset(c10DecodeHexList(r.Emitted))
		d := map[string]interface{}{"run": r.Desc, "op_errors": r.OpErrors, "stuck": r.Stuck, "max_goroutines_inside_Write": r.MaxInFlight,
			"write_calls": len(r.Calls), "expected_packets": len(r.Expected)}
		if off >= 0 {
			d["wire_stops_framing_at_offset"] = off
			d["wire_hex_around"] = ctxhex
		}
		m.Families["wire"] = append(m.Families["wire"], d)
		m.Families["model"] = append(m.Families["model"], d)
		nPackets += len(r.Calls)
		if r.Stuck {
			m.ImplViolations = append(m.ImplViolations, map[string]interface{}{"what": "wire run did not finish (stuck)", "run": r.Desc, "op_errors": r.OpErrors})
		}
	}
	for _, p := range co.Probes {
		probeRows = append(probeRows, cTuple(cNat(p.MaxInFlight), c10CoqRun(p.c10RunObs)))
		stuckRows = append(stuckRows, cBool(!p.Blocked && !p.Entered))
		off, ctxhex := c10FirstBadOffset(c10DecodeHexList(p.Emitted))
		d := map[string]interface{}{"probe": p.Desc, "contender_entered_Write_while_held": p.Entered, "contender_seen_blocked_on_muWrite": p.Blocked,
			"max_goroutines_inside_Write": p.MaxInFlight, "op_errors": p.OpErrors, "wire": strings.Join(p.Emitted, " ")}
		if off >= 0 {
			d["wire_stops_framing_at_offset"] = off
			d["wire_hex_around"] = ctxhex
		}
		m.Families["overlap"] = append(m.Families["overlap"], d)
		m.Families["probe_blocked"] = append(m.Families["probe_blocked"], d)
		nPackets += len(p.Calls)
	}
	var bigRows []string
	for _, r := range co.BigRuns {
		bigRows = append(bigRows, c10CoqBigRun(r))
		calls := c10DecodeHexList(r.Calls)
		off, ctxhex := c10FirstBadOffset(c10DecodeHexList(r.Emitted))
		ci, cdesc := c10FirstSplitCall(calls)
		d := map[string]interface{}{"run": r.Desc, "op_errors": r.OpErrors, "stuck": r.Stuck, "write_calls": len(r.Calls), "expected_packets": len(r.Expected)}
		if off >= 0 {
			d["wire_stops_framing_at_offset"] = off
			d["wire_hex_around"] = ctxhex
		}
		if ci >= 0 {
			d["first_Write_call_that_is_not_one_whole_packet"] = ci
			d["that_call"] = cdesc
		}
		var lens []int
		for _, c := range calls {
			lens = append(lens, len(c))
		}
		d["write_call_lengths"] = lens
		m.Families["bigwire"] = append(m.Families["bigwire"], d)
		m.Families["big_one_write"] = append(m.Families["big_one_write"], d)
		nPackets += len(r.Calls)
		if r.Stuck {
			m.ImplViolations = append(m.ImplViolations, map[string]interface{}{"what": "large-packet run did not finish (stuck)", "run": r.Desc, "op_errors": r.OpErrors})
		}
	}
	for i, r := range co.Runs {
		if ci, cdesc := c10FirstSplitCall(c10DecodeHexList(r.Calls)); ci >= 0 {
			if d, ok := m.Families["wire"][i].(map[string]interface{}); ok {
				d["first_Write_call_that_is_not_one_whole_packet"] = ci
				d["that_call"] = cdesc
			}
		}
	}
	m.Families["one_write"] = m.Families["wire"]
	cf.def("c10_runs", "list c10_run", cList(runRows))
	cf.result("V_wire", "c10_wire_violations c10_runs")
	cf.result("V_one_write", "c10_call_violations c10_runs")
	cf.def("c10_big_runs", "list c10_big_run", cList(bigRows))
	cf.result("V_bigwire", "c10_big_wire_violations c10_big_runs")
	cf.result("V_big_one_write", "c10_big_call_violations c10_big_runs")
	cf.result("M_model", "c10_model_mismatches 150%nat c10_runs")
	var trialRows []string
	for i, t := range co.Trials {
		cs := make([]string, len(t.Codes))
		for j, c := range t.Codes {
			cs[j] = fmt.Sprint(c)
		}
		trialRows = append(trialRows, cListInline(cs))
		m.Families["disconnect"] = append(m.Families["disconnect"], map[string]interface{}{
			"trial": i, "what": "Disconnect racing producers on one RetryClient: every call must return nil or ErrClosedClient and must not panic",
			"calls": t.Calls, "codes_0nil_1closed_2other_3panic": t.Codes, "detail": t.Detail})
	}
	var twoRows []string
	for i, cs := range co.TwoConn {
		xs := make([]string, len(cs))
		bad := 0
		for j, c := range cs {
			xs[j] = fmt.Sprint(c)
			if c != 1 {
				bad++
			}
		}
		twoRows = append(twoRows, cListInline(xs))
		note := ""
		if i < len(co.TwoNotes) {
			note = co.TwoNotes[i]
		}
		m.Families["handover"] = append(m.Families["handover"], map[string]interface{}{
			"trial": i, "what": "two live connections of one RetryClient session (SetClient(cli2)+Connect while cli1's reader still receives QoS 2 traffic): every inbound QoS 2 message must reach the handler exactly once",
			"messages": len(cs), "messages_not_handed_over_exactly_once": bad, "note": note})
		if cs == nil {
			m.ImplViolations = append(m.ImplViolations, map[string]interface{}{"what": "two-connection trial could not run", "note": note})
		}
	}
	cf.def("c10_two_conn", "list (list N)", cListInline(twoRows))
	cf.result("V_handover", "c10_handover_violations c10_two_conn")
	cf.def("c10_trials", "list (list N)", cListInline(trialRows))
	cf.result("V_disconnect", "c10_trial_violations c10_trials")
	cf.def("c10_probes", "list c10_probe", cList(probeRows))
	cf.result("V_overlap", "c10_probe_violations c10_probes")
	cf.def("c10_probe_unseen", "list bool", cListInline(stuckRows))
	cf.result("M_probe_blocked", "indices_where (fun b : bool => b) c10_probe_unseen")

	// ---------------- (c) race reports
	races, err := c10ParseRaceLogs(raceBase + "*")
	if err != nil {
		return err
	}
	seen := map[string]bool{}
	harnessOnly := 0
	for _, r := range races {
		if !r.Library {
			harnessOnly++
			fmt.Fprintln(os.Stderr, "race report without a library frame (harness bug?):\n"+c10Tail(r.Text, 1500))
			continue
		}
		if seen[r.Key] {
			continue
		}
		seen[r.Key] = true
		m.ImplViolations = append(m.ImplViolations, map[string]interface{}{
			"what": "data race reported by the Go race detector", "accesses": r.Key, "report": c10Tail(r.Text, 5000)})
	}
	if harnessOnly > 0 {
		return fmt.Errorf("%d race report(s) concern only the harness's own code", harnessOnly)
	}

	// ---------------- evidence
	m.Evaluations = len(x.accesses) + len(pairs) + len(co.Runs) + len(co.Probes) + len(co.BigRuns) + len(co.Trials) + len(co.TwoConn)
	m.DistinctNontrivial = len(pairs) + len(co.Probes) + len(co.Runs)
	m.Rule = "a candidate pair = two table rows on one field, not both reads, not both atomic; a probe = one (holder, contender) combination of writers; a wire run = one concurrent session with >= 8 goroutines and inbound traffic"
	roles := map[string]int{}
	for _, a := range x.accesses {
		for _, r := range a.Roles {
			roles[r]++
		}
	}
	m.Distribution = map[string]interface{}{
		"access_table_rows": len(x.accesses), "candidate_pairs": len(pairs), "rows_per_field": byField, "rows_per_role": roles,
		"translator_warnings": x.warnings, "wire_runs": len(co.Runs), "overlap_probes": len(co.Probes), "large_packet_runs": len(co.BigRuns), "disconnect_trials": len(co.Trials), "two_connection_trials": len(co.TwoConn), "shared_referent_sites": len(x.shares),
		"packets_written_in_wire_runs_and_probes": nPackets, "race_exploration": co.Stress, "race_reports_total": len(races),
		"race_reports_library_distinct": len(seen), "child_wall_s": childWall.Seconds(), "stuck_notes": co.StuckNotes,
		"tier": cfg.tier, "seed": cfg.seed,
	}
	for i, a := range x.accesses {
		if i%37 == 0 && len(m.Samples) < 4 {
			m.Samples = append(m.Samples, a)
		}
	}
	if len(co.Probes) > 2 {
		m.Samples = append(m.Samples, map[string]interface{}{"probe": co.Probes[2].Desc, "blocked": co.Probes[2].Blocked, "max_in_write": co.Probes[2].MaxInFlight})
	}
	if err := cf.write(cfg.outDir); err != nil {
		return err
	}
	return m.write(cfg.outDir)
}

// c10CrashInLibrary: the child died of a panic / fatal error whose innermost non-runtime frame is
// library code (a crash inside the harness itself is a machinery error, not a finding).
func c10CrashInLibrary(txt string) bool {
	i := strings.Index(txt, "panic:")
	if j := strings.Index(txt, "fatal error:"); j >= 0 && (i < 0 || j < i) {
		i = j
	}
	if i < 0 {
		return false
	}
	rest := txt[i:]
	k := strings.Index(rest, "\ngoroutine ")
	if k < 0 {
		return false
	}
	for _, l := range strings.Split(rest[k+1:], "\n")[1:] {
		if l == "" {
			break
		}
		if strings.HasPrefix(l, "\t") || strings.HasPrefix(l, "panic(") || strings.HasPrefix(l, "runtime.") || strings.HasPrefix(l, "sync.") || strings.HasPrefix(l, "internal/") {
			continue
		}
		return strings.HasPrefix(l, "github.com/at-wat/mqtt-go.")
	}
	return false
}

func c10Tail(s string, n int) string {
	if len(s) <= n {
		return s
	}
	return s[:n/2] + "\n…\n" + s[len(s)-n/2:]
}
