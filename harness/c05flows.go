package main

// C05, multi-packet families:
//   inseq : sequences of inbound PUBLISH (QoS 0/1/2) / PUBREL with other packets arriving between a
//           QoS 2 PUBLISH and its PUBREL; what the handler receives is compared, field by field,
//           with what the independent decoder reads from the encoded stream (V_inseq) and with the
//           serve-loop model (M_inseq).
//   retry : requests interrupted on a real BaseClient (write error / peer closes / context
//           cancelled), resumed through ErrorWithRetry.Retry on a FRESH connected BaseClient
//           (twice for the retry of a retry); every packet handed to the transport on every
//           connection is decoded by the independent decoder inside Coq (V_retry) and compared
//           with the encoder model (M_retry).

import (
	"context"
	"errors"
	"fmt"
	"math/rand"
	"strings"
	"time"

	mqtt "github.com/at-wat/mqtt-go"
)

// ---------------------------------------------------------------- inbound sequences

type c05InPkt struct {
	kind  string // "pub", "rel", "ack", "suback", "ping"
	msg   inMsg
	id    uint16
	hdr   byte
	codes int
}

func (p c05InPkt) bytes() []byte {
	switch p.kind {
	case "pub":
		return encPublish(p.msg)
	case "rel":
		return encID(0x62, p.id)
	case "ack":
		return encID(p.hdr, p.id)
	case "suback":
		body := []byte{byte(p.id >> 8), byte(p.id)}
		for i := 0; i < p.codes; i++ {
			body = append(body, []byte{0, 1, 2, 0x80}[(i+int(p.id))%4])
		}
		return encFrame(0x90, body)
	}
	return []byte{0xD0, 0}
}

func (p c05InPkt) desc() string {
	switch p.kind {
	case "pub":
		f := ""
		if p.msg.Retain {
			f += ",retain"
		}
		if p.msg.Dup {
			f += ",dup"
		}
		return fmt.Sprintf("PUBLISH(q%d,id%d,topic=%q,payload=%d bytes %x%s)", p.msg.QoS, p.msg.ID, p.msg.Topic, len(p.msg.Payload), c05Head(p.msg.Payload), f)
	case "rel":
		return fmt.Sprintf("PUBREL(%d)", p.id)
	case "ack":
		return fmt.Sprintf("%s(%d)", map[byte]string{0x40: "PUBACK", 0x50: "PUBREC", 0x70: "PUBCOMP", 0xB0: "UNSUBACK"}[p.hdr], p.id)
	case "suback":
		return fmt.Sprintf("SUBACK(%d,%d codes)", p.id, p.codes)
	}
	return "PINGRESP"
}

func c05Hex(b []byte) string {
	if len(b) > 48 {
		return fmt.Sprintf("%x...(%d bytes)", b[:48], len(b))
	}
	return fmt.Sprintf("%x", b)
}

func c05Head(b []byte) []byte {
	if len(b) > 6 {
		return b[:6]
	}
	return b
}

// c05Z prints a byte string as a Coq expression of type list N in which every run of at least 8
// bytes following one of the generators' patterns is written compactly (CheckC05.v):
// "ap3 b n" = b, b+3, b+6, ... (c05Fill payloads), "ap1 b n" = b, b+1, ... (c05RandPayload),
// "az k n" = letters 'a'+k, 'a'+k+1, ... cycling through the alphabet (long strings of c05RandStr).
// Evaluating a literal costs coqc about 30 us per number, so this is what keeps the quick tier quick.
func c05Z(b []byte) string {
	var segs []string
	lit := 0 // start of the pending literal segment
	flush := func(to int) {
		if to > lit {
			segs = append(segs, cBytes(b[lit:to]))
		}
	}
	isAZ := func(x byte) bool { return x >= 'a' && x <= 'z' }
	for i := 0; i < len(b); {
		best, name := i+1, ""
		for _, pat := range []string{"ap3", "ap1", "az"} {
			j := i + 1
			for j < len(b) {
				ok := false
				switch pat {
				case "ap3":
					ok = b[j] == b[j-1]+3
				case "ap1":
					ok = b[j] == b[j-1]+1
				default:
					ok = isAZ(b[j-1]) && isAZ(b[j]) && b[j] == 'a'+(b[j-1]-'a'+1)%26
				}
				if !ok {
					break
				}
				j++
			}
			if j > best {
				best, name = j, pat
			}
		}
		if best-i >= 8 {
			flush(i)
			start := int(b[i])
			if name == "az" {
				start -= 'a'
			}
			segs = append(segs, fmt.Sprintf("%s %d %d", name, start, best-i))
			lit = best
		}
		i = best
	}
	flush(len(b))
	switch len(segs) {
	case 0:
		return "[]"
	case 1:
		if segs[0][0] == '[' {
			return segs[0]
		}
		return "(" + segs[0] + ")"
	}
	return "(" + strings.Join(segs, " ++ ") + ")"
}

func c05Msg(topic []byte, id uint16, qos byte, retain, dup bool, payload []byte) string {
	return fmt.Sprintf("{| m_topic := %s; m_id := %d; m_qos := %d; m_retain := %s; m_dup := %s; m_payload := %s |}",
		c05Z(topic), id, qos, cBool(retain), cBool(dup), c05Z(payload))
}

func c05ZMsg(m *mqtt.Message) string {
	return c05Msg([]byte(m.Topic), m.ID, byte(m.QoS), m.Retain, m.Dup, m.Payload)
}

// payload bytes that differ from packet to packet, so that foreign bytes are visible
func c05Fill(n, seq int) []byte {
	b := make([]byte, n)
	for i := range b {
		b[i] = byte(seq*37 + i*3 + 1)
	}
	return b
}

// A = QoS 2 PUBLISH, then k packets of one kind (shorter / equal / longer body than A), then PUBREL(A).
func c05SeqSystematic() [][]c05InPkt {
	var out [][]c05InPkt
	// body of A: 2+3 (topic) + 2 (id) + 12 = 19 bytes
	for k := 1; k <= 4; k++ {
		for kind := 0; kind < 7; kind++ {
			sizes := []int{0, 1, 2}
			if kind >= 4 {
				sizes = []int{0}
			}
			for _, sz := range sizes {
				a := c05InPkt{kind: "pub", msg: inMsg{Topic: []byte("t/A"), QoS: 2, ID: 10, Retain: k%2 == 0, Dup: kind%2 == 1, Payload: c05Fill(12, 0)}}
				seq := []c05InPkt{a}
				var rels []c05InPkt
				for j := 1; j <= k; j++ {
					switch kind {
					case 0:
						seq = append(seq, c05InPkt{kind: "pub", msg: inMsg{Topic: []byte("t/B"), QoS: 0, Retain: j%2 == 0, Payload: c05Fill([]int{5, 14, 30}[sz], j)}})
					case 1:
						seq = append(seq, c05InPkt{kind: "pub", msg: inMsg{Topic: []byte("t/B"), QoS: 1, ID: uint16(20 + j), Dup: j%2 == 0, Payload: c05Fill([]int{3, 12, 28}[sz], j)}})
					case 2:
						seq = append(seq, c05InPkt{kind: "pub", msg: inMsg{Topic: []byte("t/B"), QoS: 2, ID: uint16(30 + j), Payload: c05Fill([]int{3, 12, 28}[sz], j)}})
						rels = append(rels, c05InPkt{kind: "rel", id: uint16(30 + j)})
					case 3:
						seq = append(seq, c05InPkt{kind: "suback", id: uint16(99 + j), codes: []int{8, 17, 40}[sz]})
					case 4:
						seq = append(seq, c05InPkt{kind: "ack", hdr: []byte{0x40, 0x50, 0x70, 0xB0}[j%4], id: uint16(77 + j)})
					case 5:
						seq = append(seq, c05InPkt{kind: "ping"})
					default:
						seq = append(seq, c05InPkt{kind: "rel", id: uint16(500 + j)})
					}
				}
				seq = append(seq, c05InPkt{kind: "rel", id: 10})
				seq = append(seq, rels...)
				out = append(out, seq)
			}
		}
	}
	return out
}

var c05Topics = []string{"a", "t/1", "sensor/+/temp", "é", "日本/語", "x y", "\u0001", "\U0001F600", "a/b/c/d/e/f", "t/0123456789/0123456789/0123456789"}

// random sequence in which every QoS 2 message is released after 1-4 other packets arrived
func c05SeqRandom(r *rand.Rand) []c05InPkt {
	n := 5 + r.Intn(9)
	type pend struct {
		id   uint16
		wait int
	}
	var pending []pend
	var out []c05InPkt
	nextID := uint16(1 + r.Intn(60000))
	base := []int{0, 1, 4, 9, 16, 33, 120, 130}[r.Intn(8)]
	sameTopic := r.Intn(2) == 0
	topic0 := c05Topics[r.Intn(len(c05Topics))]
	topic := func() []byte {
		if sameTopic {
			return []byte(topic0)
		}
		return []byte(c05Topics[r.Intn(len(c05Topics))])
	}
	plen := func() int {
		switch r.Intn(4) {
		case 0:
			return base
		case 1:
			if d := base - 1 - r.Intn(4); d > 0 {
				return d
			}
			return 0
		case 2:
			return base + 1 + r.Intn(4)
		}
		return r.Intn(40)
	}
	for len(out) < n || len(pending) > 0 {
		due := -1
		for i, p := range pending {
			if p.wait <= 0 {
				due = i
				break
			}
		}
		if due >= 0 {
			id := pending[due].id
			pending = append(pending[:due], pending[due+1:]...)
			out = append(out, c05InPkt{kind: "rel", id: id})
			if r.Intn(15) == 0 {
				out = append(out, c05InPkt{kind: "rel", id: id}) // repeated PUBREL: nothing to release
			}
			continue
		}
		seq := len(out) + 1
		x := r.Intn(20)
		if len(out) >= n && (x >= 8 && x < 13 || x == 19) {
			x = r.Intn(8) // draining: no new QoS 2 exchanges
		}
		newQ2 := false
		var pkt c05InPkt
		switch {
		case x < 4:
			pkt = c05InPkt{kind: "pub", msg: inMsg{Topic: topic(), QoS: 0, Retain: r.Intn(2) == 0, Dup: r.Intn(6) == 0, Payload: c05Fill(plen(), seq)}}
		case x < 8:
			pkt = c05InPkt{kind: "pub", msg: inMsg{Topic: topic(), QoS: 1, ID: uint16(r.Intn(65536)), Retain: r.Intn(2) == 0, Dup: r.Intn(3) == 0, Payload: c05Fill(plen(), seq)}}
		case x < 13 || x == 19:
			id := nextID
			nextID++
			if nextID == 0 {
				nextID = 1
			}
			if len(pending) > 0 && r.Intn(12) == 0 {
				id = pending[r.Intn(len(pending))].id // identifier of an open exchange: the newer copy replaces the older
			} else {
				newQ2 = true
			}
			pkt = c05InPkt{kind: "pub", msg: inMsg{Topic: topic(), QoS: 2, ID: id, Retain: r.Intn(2) == 0, Dup: r.Intn(3) == 0, Payload: c05Fill(plen(), seq)}}
		case x < 15:
			pkt = c05InPkt{kind: "ack", hdr: []byte{0x40, 0x50, 0x70, 0xB0}[r.Intn(4)], id: uint16(r.Intn(65536))}
		case x < 17:
			pkt = c05InPkt{kind: "suback", id: uint16(r.Intn(65536)), codes: r.Intn(25) + base/4}
		case x < 18:
			pkt = c05InPkt{kind: "ping"}
		default:
			pkt = c05InPkt{kind: "rel", id: uint16(r.Intn(65536))}
			for _, p := range pending {
				if p.id == pkt.id {
					pkt.id++
				}
			}
		}
		out = append(out, pkt)
		for i := range pending {
			pending[i].wait--
		}
		if newQ2 {
			pending = append(pending, pend{id: pkt.msg.ID, wait: 1 + r.Intn(4)})
		}
	}
	return out
}

// c05RunSeq feeds the packets as one byte stream to a connected BaseClient and returns the reader
// goroutine's timeline (hand-overs as snapshots taken inside the handler, acknowledgement writes).
func c05RunSeq(pkts []c05InPkt) (stream []byte, coq []string, desc []string, stuck bool, err error) {
	for _, p := range pkts {
		stream = append(stream, p.bytes()...)
	}
	s, err := newSession(true, nil)
	if err != nil {
		c05F.add("inseq", fmt.Sprintf("session could not be established: %v", err), nil)
		return stream, nil, nil, false, nil
	}
	s.conn.send(stream)
	s.conn.finish()
	if !s.waitDone(20 * time.Second) {
		s.cli.Close()
		stuck = true
	}
	for _, e := range s.snapshot() {
		switch e.Kind {
		case "hand":
			coq = append(coq, "Hand "+c05ZMsg(e.Msg))
			desc = append(desc, fmt.Sprintf("hand(q%d,id%d,topic=%q,payload=%d bytes %x)", e.Msg.QoS, e.Msg.ID, e.Msg.Topic, len(e.Msg.Payload), c05Head(e.Msg.Payload)))
		case "write":
			id := 99999 // never an identifier: an unexpected write cannot match
			name := fmt.Sprintf("unexpected-write(%x)", e.Pkt)
			con := "WPubAck"
			if len(e.Pkt) == 4 && e.Pkt[1] == 2 {
				switch e.Pkt[0] {
				case 0x40:
					id, name = int(e.Pkt[2])<<8|int(e.Pkt[3]), "PUBACK"
				case 0x50:
					id, name, con = int(e.Pkt[2])<<8|int(e.Pkt[3]), "PUBREC", "WPubRec"
				case 0x70:
					id, name, con = int(e.Pkt[2])<<8|int(e.Pkt[3]), "PUBCOMP", "WPubComp"
				}
			}
			coq = append(coq, fmt.Sprintf("%s %d", con, id))
			desc = append(desc, fmt.Sprintf("%s(%d)", name, id))
		}
	}
	return stream, coq, desc, stuck, nil
}

func c05Inseq(cfg *runCfg, r *rand.Rand, cf *casesFile, m *meta, dist map[string]int, scale int) (int, error) {
	var seqs [][]c05InPkt
	if cfg.tier != "search" {
		seqs = c05SeqSystematic()
	}
	dist["inbound_sequences_systematic"] = len(seqs)
	nRand := 140 * scale
	for i := 0; i < nRand; i++ {
		seqs = append(seqs, c05SeqRandom(r))
	}
	dist["inbound_sequences_random"] = nRand
	var cases []string
	nInterleaved := 0
	for _, pkts := range seqs {
		if c05F.tooMany("inseq") {
			break
		}
		stream, coq, desc, stuck, err := c05RunSeq(pkts)
		if err != nil {
			return 0, err
		}
		var pd []string
		open := map[uint16]bool{}
		inter := false
		for _, p := range pkts {
			pd = append(pd, p.desc())
			dist["inseq_"+p.kind]++
			if p.kind == "rel" {
				delete(open, p.id)
			} else if len(open) > 0 {
				inter = true
			}
			if p.kind == "pub" && p.msg.QoS == 2 {
				open[p.msg.ID] = true
			}
		}
		if inter {
			nInterleaved++
		}
		fc := map[string]interface{}{"broker_sends": pd, "reader_timeline": desc}
		if stuck {
			m.ImplViolations = append(m.ImplViolations, map[string]interface{}{"what": "reader did not finish the inbound stream within 20 s", "case": fc})
		}
		cases = append(cases, cTuple(c05Z(stream), cListInline(coq)))
		m.Families["inseq"] = append(m.Families["inseq"], fc)
		if len(m.Families["inseq"]) == 2 {
			m.Samples = append(m.Samples, fc)
		}
	}
	dist["inbound_sequences_with_packets_between_qos2_publish_and_pubrel"] = nInterleaved
	cf.def("inseq_cases", "list (list N * list in_event)", cList(cases))
	cf.result("V_inseq", "c05_inseq_violations inseq_cases")
	cf.result("M_inseq", "c05_inseq_mismatches inseq_cases")
	return len(cases), nil
}

// ---------------------------------------------------------------- retry handles

// c05AckBytes: what a conforming broker answers to a client packet (granting the requested QoS).
func c05AckBytes(pkt []byte) []byte {
	i := 1
	for i < len(pkt) && pkt[i]&0x80 != 0 {
		i++
	}
	i++
	switch pkt[0] & 0xF0 {
	case 0x30:
		qos := (pkt[0] >> 1) & 3
		if qos == 0 {
			return nil
		}
		tl := int(pkt[i])<<8 | int(pkt[i+1])
		id := pkt[i+2+tl : i+4+tl]
		if qos == 1 {
			return []byte{0x40, 2, id[0], id[1]}
		}
		return []byte{0x50, 2, id[0], id[1]}
	case 0x60:
		return []byte{0x70, 2, pkt[2], pkt[3]}
	case 0x80:
		id := pkt[i : i+2]
		body := pkt[i+2:]
		var codes []byte
		for len(body) > 0 {
			l := int(body[0])<<8 | int(body[1])
			codes = append(codes, body[2+l])
			body = body[3+l:]
		}
		return encFrame(0x90, append([]byte{id[0], id[1]}, codes...))
	case 0xA0:
		return []byte{0xB0, 2, pkt[i], pkt[i+1]}
	case 0xC0:
		return []byte{0xD0, 0}
	}
	return nil
}

// where and how an attempt on one connection is interrupted
type c05Cut struct {
	kind int // 0 = not interrupted, 1 = Transport.Write fails, 2 = the peer closes, 3 = the context is cancelled
	at   int // index of the client's packet (CONNECT not counted) at which it happens
}

func (c c05Cut) code() int {
	switch c.kind {
	case 0:
		return 0
	case 1:
		return 1 + 2*c.at
	}
	return 2 + 2*c.at
}

func (c c05Cut) String() string {
	if c.kind == 0 {
		return "completes"
	}
	return fmt.Sprintf("%s at client packet #%d", []string{"", "write error", "peer closes without answering", "context cancelled"}[c.kind], c.at)
}

type c05RConn struct {
	conn   *memConn
	cli    *mqtt.BaseClient
	ctx    context.Context
	cancel context.CancelFunc
}

// a FRESH connected BaseClient whose peer answers like a broker up to the cut
func c05RetryConn(cut c05Cut) (*c05RConn, error) {
	rc := &c05RConn{}
	rc.ctx, rc.cancel = ctxTimeout(30 * time.Second)
	n := -1
	rc.conn = newMemConn(1, func(c *memConn, pkt []byte) error {
		if pkt[0]&0xF0 == 0x10 {
			c.send(connackOK)
			return nil
		}
		n++
		if cut.kind != 0 && n == cut.at {
			switch cut.kind {
			case 1:
				return errCut
			case 2:
				c.finish()
			case 3:
				rc.cancel()
			}
			return nil
		}
		if cut.kind != 0 && n > cut.at {
			return nil
		}
		if ack := c05AckBytes(pkt); ack != nil {
			c.send(ack)
		}
		return nil
	})
	rc.cli = &mqtt.BaseClient{Transport: rc.conn}
	ctx, cancel := ctxTimeout(60 * time.Second)
	defer cancel()
	if _, err := rc.cli.Connect(ctx, "cid"); err != nil {
		rc.cancel()
		return nil, err
	}
	return rc, nil
}

func (rc *c05RConn) closeAndCollect() [][]byte {
	rc.cancel()
	rc.cli.Close()
	select {
	case <-rc.cli.Done():
	case <-time.After(20 * time.Second):
	}
	rc.conn.mu.Lock()
	defer rc.conn.mu.Unlock()
	var out [][]byte
	for _, w := range rc.conn.writes {
		out = append(out, append([]byte{}, w...))
	}
	return out
}

type c05Op struct {
	kind   string // "pub", "sub", "unsub"
	msg    *mqtt.Message
	subs   []mqtt.Subscription
	topics []string
	// round 9: when setID, the 32-bit identifier counter of every connection's BaseClient is put
	// to idLast right after Connect (hook VerifSetIDLast), so the next identifier taken is idLast+1
	setID  bool
	idLast uint32
}

func (o *c05Op) start(ctx context.Context, cli *mqtt.BaseClient) error {
	switch o.kind {
	case "pub":
		return cli.Publish(ctx, o.msg)
	case "sub":
		_, err := cli.Subscribe(ctx, append([]mqtt.Subscription{}, o.subs...)...)
		return err
	}
	return cli.Unsubscribe(ctx, o.topics...)
}

// c05RetryRun runs the request on the first connection and the returned retry handle on a fresh
// connection per further entry of cuts. Returns the packets handed to each transport.
func c05RetryRun(op *c05Op, cuts []c05Cut) (conns [][][]byte, problem string, err error) {
	var handle mqtt.ErrorWithRetry
	for k, cut := range cuts {
		rc, err := c05RetryConn(cut)
		if err != nil {
			return conns, fmt.Sprintf("connection %d could not be established: %v", k+1, err), nil
		}
		if op.setID {
			rc.cli.VerifSetIDLast(op.idLast)
		}
		var e error
		done := make(chan struct{})
		go func() {
			defer close(done)
			if k == 0 {
				e = op.start(rc.ctx, rc.cli)
			} else {
				e = handle.Retry(rc.ctx, rc.cli)
			}
		}()
		select {
		case <-done:
		case <-time.After(90 * time.Second):
			rc.closeAndCollect()
			return conns, fmt.Sprintf("attempt %d did not return within 90 s", k+1), nil
		}
		conns = append(conns, rc.closeAndCollect())
		if cut.kind == 0 {
			if e != nil {
				return conns, fmt.Sprintf("attempt %d was not interrupted but failed: %v", k+1, e), nil
			}
			continue
		}
		var h mqtt.ErrorWithRetry
		if e == nil || !errors.As(e, &h) {
			return conns, fmt.Sprintf("attempt %d (%v) returned %v, which carries no retry handle", k+1, cut, e), nil
		}
		handle = h
	}
	return conns, "", nil
}

// every interruption script: first attempt interrupted, retry completes or is interrupted again
func c05RetryScripts(qos2 bool) [][]c05Cut {
	var out [][]c05Cut
	ats := []int{0}
	if qos2 {
		ats = []int{0, 1}
	}
	for k1 := 1; k1 <= 3; k1++ {
		for _, a1 := range ats {
			first := c05Cut{k1, a1}
			out = append(out, []c05Cut{first, {}})
			ats2 := ats
			if a1 == 1 {
				ats2 = []int{0} // resumed after PUBREC: the PUBREL is the first packet of the retry
			}
			for k2 := 1; k2 <= 3; k2++ {
				for _, a2 := range ats2 {
					out = append(out, []c05Cut{first, {k2, a2}, {}})
				}
			}
		}
	}
	return out
}

// longer random chain of interruptions (thorough / search tiers)
func c05RetryChain(r *rand.Rand, qos2 bool) []c05Cut {
	var out []c05Cut
	afterRec := false
	for i, n := 0, 1+r.Intn(4); i < n; i++ {
		c := c05Cut{kind: 1 + r.Intn(3)}
		if qos2 && !afterRec && r.Intn(2) == 0 {
			c.at = 1
			afterRec = true
		}
		out = append(out, c)
	}
	return append(out, c05Cut{})
}

func c05RetryPayload(r *rand.Rand) []byte {
	switch x := r.Intn(10); {
	case x < 4:
		b := make([]byte, r.Intn(12))
		for i := range b {
			b[i] = byte(r.Intn(256))
		}
		return b
	case x < 8:
		return c05Fill([]int{20, 100, 118, 119, 120, 121, 122, 126, 127, 128, 200, 300}[r.Intn(12)], r.Intn(256))
	}
	return nil
}

func c05NonEmptyStr(r *rand.Rand) []byte {
	for {
		if s := c05RandStr(r); len(s) > 0 {
			return s
		}
	}
}

func c05Retry(cfg *runCfg, r *rand.Rand, cf *casesFile, m *meta, dist map[string]int, scale int) (int, error) {
	type job struct {
		kind string
		qos  byte
		cuts []c05Cut
		ctr  *uint32 // identifier counter before the request (nil = as seeded by Connect)
	}
	var jobs []job
	rounds := 2
	if cfg.tier == "search" {
		rounds = 1
	}
	for round := 0; round < rounds; round++ {
		for _, s := range c05RetryScripts(false) {
			jobs = append(jobs, job{"pub", 1, s, nil}, job{"sub", 0, s, nil}, job{"unsub", 0, s, nil})
		}
		for _, s := range c05RetryScripts(true) {
			jobs = append(jobs, job{"pub", 2, s, nil})
		}
	}
	if cfg.tier != "quick" {
		for i := 0; i < 60*scale; i++ {
			switch r.Intn(5) {
			case 0:
				jobs = append(jobs, job{"pub", 1, c05RetryChain(r, false), nil})
			case 1:
				jobs = append(jobs, job{"sub", 0, c05RetryChain(r, false), nil})
			case 2:
				jobs = append(jobs, job{"unsub", 0, c05RetryChain(r, false), nil})
			default:
				jobs = append(jobs, job{"pub", 2, c05RetryChain(r, true), nil})
			}
		}
	}
	// round 9: the identifier counter is a uint32 that is never reduced; place it just below every
	// kind of multiple of 65536 (first wrap, second, third, the last before and the uint32 overflow)
	// and issue each kind of request, completing at once and interrupted once
	for _, v := range []uint32{0xFFFE, 0xFFFF, 0x1FFFE, 0x1FFFF, 0x2FFFF, 0xFFFEFFFF, 0xFFFFFFFE, 0xFFFFFFFF} {
		v := v
		for _, cuts := range [][]c05Cut{{{}}, {{1, 0}, {}}} {
			jobs = append(jobs, job{"pub", 1, cuts, &v}, job{"pub", 2, cuts, &v}, job{"sub", 0, cuts, &v}, job{"unsub", 0, cuts, &v})
		}
	}
	var cases []string
	problems := 0
	for _, j := range jobs {
		if problems >= 2 {
			// attempts that do not complete wait for their context (30 s each); two recorded
			// violations are enough, the remaining scripts are skipped
			dist["retry_scripts_skipped_after_violations"]++
			continue
		}
		op := &c05Op{kind: j.kind}
		var opCoq func() string
		given := 0
		fc := map[string]interface{}{}
		if j.ctr != nil {
			op.setID, op.idLast = true, *j.ctr
			fc["identifier_counter_before"] = fmt.Sprintf("BaseClient.idLast = 0x%X on every connection (VerifSetIDLast after Connect)", *j.ctr)
			dist["retry_counter_boundary"]++
		}
		switch j.kind {
		case "pub":
			op.msg = &mqtt.Message{Topic: c05Strings[r.Intn(len(c05Strings))], Payload: c05RetryPayload(r), QoS: mqtt.QoS(j.qos), Retain: r.Intn(2) == 0, Dup: r.Intn(4) == 0}
			if j.ctr == nil && r.Intn(3) == 0 {
				op.msg.ID = uint16([]int{1, 255, 256, 65535, 1 + r.Intn(65535)}[r.Intn(5)])
			}
			given = int(op.msg.ID)
			topic, payload, retain := op.msg.Topic, append([]byte{}, op.msg.Payload...), op.msg.Retain
			opCoq = func() string {
				return "RPub " + c05Msg([]byte(topic), op.msg.ID, j.qos, retain, false, payload)
			}
			fc["request"] = fmt.Sprintf("Publish(topic=%q, payload=%s, QoS%d, retain=%v, id=%d)", topic, c05Hex(payload), j.qos, retain, given)
			dist[fmt.Sprintf("retry_publish_q%d", j.qos)]++
		case "sub":
			n := 1 + r.Intn(4)
			var cs []string
			for i := 0; i < n; i++ {
				t, q := c05NonEmptyStr(r), byte(r.Intn(3))
				op.subs = append(op.subs, mqtt.Subscription{Topic: string(t), QoS: mqtt.QoS(q)})
				cs = append(cs, cTuple(c05Z(t), fmt.Sprint(q)))
			}
			opCoq = func() string { return "RSub " + cListInline(cs) }
			fc["request"] = fmt.Sprintf("Subscribe(%v)", op.subs)
			dist["retry_subscribe"]++
		default:
			n := 1 + r.Intn(4)
			var ts []string
			for i := 0; i < n; i++ {
				t := c05NonEmptyStr(r)
				op.topics = append(op.topics, string(t))
				ts = append(ts, c05Z(t))
			}
			opCoq = func() string { return "RUnsub " + cListInline(ts) }
			fc["request"] = fmt.Sprintf("Unsubscribe(%q)", op.topics)
			dist["retry_unsubscribe"]++
		}
		conns, problem, err := c05RetryRun(op, j.cuts)
		if err != nil {
			return 0, err
		}
		var codes, script, cc, wire []string
		for _, c := range j.cuts {
			codes = append(codes, fmt.Sprint(c.code()))
			script = append(script, c.String())
		}
		for _, c := range conns {
			var ws, hx []string
			for _, w := range c {
				ws = append(ws, c05Z(w))
				hx = append(hx, c05Hex(w))
			}
			cc = append(cc, cListInline(ws))
			wire = append(wire, fmt.Sprint(hx))
		}
		fc["attempts"] = script
		fc["written_per_connection"] = wire
		if problem != "" {
			problems++
			fc["problem"] = problem
			m.ImplViolations = append(m.ImplViolations, map[string]interface{}{"what": problem, "case": fc})
		}
		if len(j.cuts) > 2 {
			dist["retry_of_a_retry"]++
		}
		cases = append(cases, cTuple("("+opCoq()+")", fmt.Sprint(given), cListInline(codes), cListInline(cc)))
		m.Families["retry"] = append(m.Families["retry"], fc)
		if len(m.Families["retry"]) == 40 {
			m.Samples = append(m.Samples, fc)
		}
	}
	cf.def("retry_cases", "list (rop * N * list N * list (list (list N)))", cList(cases))
	cf.result("V_retry", "c05_retry_violations retry_cases")
	cf.result("M_retry", "c05_retry_mismatches retry_cases")
	return len(cases), nil
}

// ---------------------------------------------------------------- long length-prefixed fields

var c05LongLens = []int{65534, 65535, 65536, 65537, 70000, 131072, 131073}

// c05AZ: n letters, the alphabet from letter k on, cyclically (printed by c05Z as "az k n")
func c05AZ(k, n int) []byte {
	b := make([]byte, n)
	for i := range b {
		b[i] = byte('a' + (k+i)%26)
	}
	return b
}

// c05Guard runs f; a panic of the library (e.g. "string length overflow") is returned, not propagated.
func c05Guard(f func() error) (err error, panicked interface{}) {
	defer func() {
		if r := recover(); r != nil {
			panicked = r
		}
	}()
	return f(), nil
}

func c05Outcome(err error, panicked interface{}) string {
	switch {
	case panicked != nil:
		return fmt.Sprintf("panic: %v", panicked)
	case err != nil:
		s := err.Error()
		if len(s) > 120 {
			s = s[:120]
		}
		return "error: " + s
	}
	return "nil"
}

func c05WaitClosed(cli *mqtt.BaseClient) {
	cli.Close()
	select {
	case <-cli.Done():
	case <-time.After(20 * time.Second):
	}
}

// Connect with the given options; every packet handed to the transport, and how the call ended.
func c05ConnectLong(c c05Conn) (writes [][]byte, outcome string) {
	conn := newMemConn(1, nil)
	conn.onWrite = func(mc *memConn, pkt []byte) error {
		if pkt[0]&0xF0 == 0x10 {
			mc.send(connackOK)
		}
		return nil
	}
	cli := &mqtt.BaseClient{Transport: conn}
	opts := []mqtt.ConnectOption{mqtt.WithKeepAlive(uint16(c.KeepAlive)), mqtt.WithCleanSession(c.Clean)}
	if len(c.User) > 0 || len(c.Pass) > 0 {
		opts = append(opts, mqtt.WithUserNamePassword(string(c.User), string(c.Pass)))
	}
	if c.Will != nil {
		opts = append(opts, mqtt.WithWill(&mqtt.Message{Topic: string(c.Will.Topic), Payload: c.Will.Payload, QoS: mqtt.QoS(c.Will.QoS), Retain: c.Will.Retain}))
	}
	ctx, cancel := ctxTimeout(20 * time.Second)
	defer cancel()
	err, pan := c05Guard(func() error {
		_, err := cli.Connect(ctx, string(c.ClientID), opts...)
		return err
	})
	c05WaitClosed(cli)
	conn.mu.Lock()
	defer conn.mu.Unlock()
	for _, w := range conn.writes {
		writes = append(writes, append([]byte{}, w...))
	}
	return writes, c05Outcome(err, pan)
}

// a request on a connected session whose peer acknowledges; nSubs = number of SUBACK codes to grant
func c05SessionLong(nSubs int, f func(ctx context.Context, cli *mqtt.BaseClient) error) (writes [][]byte, outcome string, err error) {
	s, err := newSession(false, func(s *session, pkt []byte) {
		switch pkt[0] & 0xF0 {
		case 0x80, 0xA0:
			// the identifier follows the remaining length; the list is not parsed (it may be malformed)
			i := 1
			for i < len(pkt) && pkt[i]&0x80 != 0 {
				i++
			}
			i++
			if i+2 > len(pkt) {
				return
			}
			if pkt[0]&0xF0 == 0xA0 {
				s.conn.send([]byte{0xB0, 2, pkt[i], pkt[i+1]})
				return
			}
			s.conn.send(encFrame(0x90, append([]byte{pkt[i], pkt[i+1]}, make([]byte, nSubs)...)))
		default:
			func() {
				defer func() { _ = recover() }()
				if ack := c05AckBytes(pkt); ack != nil {
					s.conn.send(ack)
				}
			}()
		}
	})
	if err != nil {
		c05F.add("long", fmt.Sprintf("session could not be established: %v", err), nil)
		return nil, "error: no session", nil
	}
	ctx, cancel := ctxTimeout(20 * time.Second)
	defer cancel()
	e, pan := c05Guard(func() error { return f(ctx, s.cli) })
	for _, ev := range s.snapshot() {
		if ev.Kind == "write" {
			writes = append(writes, ev.Pkt)
		}
	}
	c05WaitClosed(s.cli)
	return writes, c05Outcome(e, pan), nil
}

func c05Long(cfg *runCfg, r *rand.Rand, cf *casesFile, m *meta, dist map[string]int) (int, error) {
	var cases []string
	slow := 0
	add := func(req string, desc string, writes [][]byte, outcome string) {
		var ws, hx []string
		for _, w := range writes {
			ws = append(ws, c05Z(w))
			hx = append(hx, c05Hex(w))
		}
		if strings.Contains(outcome, "context") {
			slow++
		}
		cases = append(cases, cTuple("("+req+")", cBool(outcome != "nil"), cListInline(ws)))
		fc := map[string]interface{}{"request": desc, "outcome": outcome, "written": hx}
		m.Families["long"] = append(m.Families["long"], fc)
		if len(m.Families["long"]) == 9 {
			m.Samples = append(m.Samples, fc)
		}
	}
	// CONNECT fields
	for fi, field := range []string{"client id", "will topic", "will payload", "user name", "password"} {
		for _, L := range c05LongLens {
			if slow >= 3 {
				continue
			}
			long := c05AZ(r.Intn(26), L)
			c := c05Conn{Level: 4, KeepAlive: 60, Clean: fi%2 == 0, ClientID: []byte("cid")}
			switch field {
			case "client id":
				c.ClientID = long
				c.User = []byte("u")
			case "will topic":
				c.Will = &inMsg{Topic: long, Payload: []byte{1, 2, 3}, QoS: byte(L % 3), Retain: L%2 == 0}
			case "will payload":
				c.Will = &inMsg{Topic: []byte("w/t"), Payload: long, QoS: byte(L % 3), Retain: L%2 == 1}
				c.User, c.Pass = []byte("user"), []byte("pw")
			case "user name":
				c.User, c.Pass = long, []byte("pw")
			default:
				c.User, c.Pass = []byte("user"), long
			}
			writes, outcome := c05ConnectLong(c)
			add("LConn "+c.coq(), fmt.Sprintf("Connect with a %s of %d bytes", field, L), writes, outcome)
			dist["long_connect_fields"]++
		}
	}
	// SUBSCRIBE / UNSUBSCRIBE: the long filter at every position
	for _, shape := range [][2]int{{1, 0}, {3, 0}, {3, 1}, {3, 2}} {
		for _, L := range c05LongLens {
			if slow >= 3 {
				continue
			}
			n, pos := shape[0], shape[1]
			var subs []mqtt.Subscription
			var topics []string
			var cs, ts []string
			for i := 0; i < n; i++ {
				t := []byte([]string{"a/+", "b/#", "c"}[i])
				if i == pos {
					t = c05AZ(r.Intn(26), L)
				}
				q := byte((i + pos + L) % 3)
				subs = append(subs, mqtt.Subscription{Topic: string(t), QoS: mqtt.QoS(q)})
				topics = append(topics, string(t))
				cs = append(cs, cTuple(c05Z(t), fmt.Sprint(q)))
				ts = append(ts, c05Z(t))
			}
			writes, outcome, err := c05SessionLong(n, func(ctx context.Context, cli *mqtt.BaseClient) error {
				_, err := cli.Subscribe(ctx, append([]mqtt.Subscription{}, subs...)...)
				return err
			})
			if err != nil {
				return 0, err
			}
			add("LSub "+cListInline(cs), fmt.Sprintf("Subscribe to %d filters, filter #%d of %d bytes", n, pos, L), writes, outcome)
			writes, outcome, err = c05SessionLong(n, func(ctx context.Context, cli *mqtt.BaseClient) error {
				return cli.Unsubscribe(ctx, topics...)
			})
			if err != nil {
				return 0, err
			}
			add("LUnsub "+cListInline(ts), fmt.Sprintf("Unsubscribe from %d filters, filter #%d of %d bytes", n, pos, L), writes, outcome)
			dist["long_subscribe_unsubscribe_filters"] += 2
		}
	}
	// PUBLISH topic
	for li, L := range c05LongLens {
		qoss := []byte{byte(li % 3)}
		if L == 65535 || L == 65536 {
			qoss = []byte{0, 1, 2}
		}
		for _, qos := range qoss {
			if slow >= 3 {
				continue
			}
			msg := &mqtt.Message{Topic: string(c05AZ(r.Intn(26), L)), Payload: []byte{7, 8, 9}, QoS: mqtt.QoS(qos), Retain: L%2 == 0}
			writes, outcome, err := c05SessionLong(0, func(ctx context.Context, cli *mqtt.BaseClient) error {
				return cli.Publish(ctx, msg)
			})
			if err != nil {
				return 0, err
			}
			add("LPub "+c05Msg([]byte(msg.Topic), msg.ID, qos, msg.Retain, false, msg.Payload), fmt.Sprintf("Publish QoS%d with a topic of %d bytes", qos, L), writes, outcome)
			dist["long_publish_topics"]++
		}
	}
	cf.def("long_cases", "list (lreq * bool * list (list N))", cList(cases))
	cf.result("V_long", "c05_long_violations long_cases")
	cf.result("M_long", "c05_long_mismatches long_cases")
	return len(cases), nil
}
