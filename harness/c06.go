package main

import (
	"bufio"
	"encoding/hex"
	"encoding/json"
	"fmt"
	"io"
	"math/rand"
	"os"
	"os/exec"
	"strings"
	"syscall"
	"time"

	mqtt "github.com/at-wat/mqtt-go"
)

func init() {
	register("C06", runC06)
	register("C06child", runC06Child)
}

// ---------- parser level (hook VerifParse, panics recovered in-process) ----------

func c06ParseObs(typ, flag byte, body []byte) (coq string, desc string, panicked bool) {
	res := mqtt.VerifParse(typ<<4, flag, body)
	switch {
	case res.Panicked != nil:
		return "PO_panic", fmt.Sprintf("panic: %v", res.Panicked), true
	case res.Err != nil:
		c := cPerr(errClass(res.Err))
		if c == "" {
			return "PO_other", "error " + errClass(res.Err), false
		}
		return "PO_err " + c, "error " + errClass(res.Err), false
	}
	switch res.Kind {
	case "connack":
		return fmt.Sprintf("PO_connack %s %d", cBool(res.Flag), res.Code), "connack", false
	case "publish":
		return "PO_publish " + cLibMsg(res.Message), fmt.Sprintf("publish %+v", *res.Message), false
	case "id":
		return fmt.Sprintf("PO_id %d", res.ID), fmt.Sprintf("id %d", res.ID), false
	case "suback":
		return fmt.Sprintf("PO_suback %d %s", res.ID, cBytes(res.Codes)), fmt.Sprintf("suback %d %x", res.ID, res.Codes), false
	case "pingresp":
		return "PO_pingresp", "pingresp", false
	}
	return "PO_other", "unknown kind " + res.Kind, false
}

// ---------- stream level (child process: a panic in the reader goroutine kills the process) ----------

type c06StreamObs struct {
	Survived bool     `json:"survived"`
	Hang     bool     `json:"hang"`
	MaxRead  int      `json:"max_read"`
	Err      string   `json:"err"`
	States   []string `json:"states"`
	Done     bool     `json:"done"`
	Events   []string `json:"events"` // Coq terms
	Desc     []string `json:"desc"`
	Crash    string   `json:"crash,omitempty"`
}

func c06RunStream(handler bool, mpl int, stream []byte) c06StreamObs {
	sessMaxPayload = mpl
	s, err := newSession(handler, nil)
	if err != nil {
		return c06StreamObs{Crash: "connect: " + err.Error()}
	}
	s.conn.send(stream)
	s.conn.finish()
	o := c06StreamObs{Survived: true}
	if !s.waitDone(20 * time.Second) {
		o.Hang = true
		return o
	}
	o.Done = true
	o.MaxRead = s.conn.maxReadLen()
	o.Err = errClass(s.cli.Err())
	s.mu.Lock()
	o.States = append([]string{}, s.states...)
	s.mu.Unlock()
	for _, e := range s.snapshot() {
		switch e.Kind {
		case "hand":
			o.Events = append(o.Events, "Hand "+cLibMsg(e.Msg))
			o.Desc = append(o.Desc, fmt.Sprintf("hand(q%d,id%d,topic=%x,payload=%x)", e.Msg.QoS, e.Msg.ID, e.Msg.Topic, e.Msg.Payload))
		case "write":
			id := 0
			if len(e.Pkt) >= 4 {
				id = int(e.Pkt[2])<<8 | int(e.Pkt[3])
			}
			switch e.Pkt[0] {
			case 0x40:
				o.Events = append(o.Events, fmt.Sprintf("WPubAck %d", id))
			case 0x50:
				o.Events = append(o.Events, fmt.Sprintf("WPubRec %d", id))
			case 0x70:
				o.Events = append(o.Events, fmt.Sprintf("WPubComp %d", id))
			default:
				o.Events = append(o.Events, "WPubAck 99999")
			}
			o.Desc = append(o.Desc, fmt.Sprintf("write(%x)", e.Pkt))
		}
	}
	return o
}

func runC06Child(cfg *runCfg) error {
	// bound the address space: an absurd allocation must kill this child, not the machine
	lim := &syscall.Rlimit{Cur: 6 << 30, Max: 6 << 30}
	_ = syscall.Setrlimit(syscall.RLIMIT_AS, lim)
	in := bufio.NewReaderSize(os.Stdin, 1<<20)
	out := bufio.NewWriter(os.Stdout)
	for {
		line, err := in.ReadString('\n')
		line = strings.TrimSpace(line)
		if strings.HasPrefix(line, "{") {
			var sc c06Scenario
			if jerr := json.Unmarshal([]byte(line), &sc); jerr != nil {
				return jerr
			}
			fmt.Fprintf(os.Stderr, "CASE %s\n", line[:min(len(line), 200)])
			var o interface{}
			switch sc.Mode {
			case "exit":
				o = c06RunExit(sc.Handler, sc.Mpl, sc.WithConnack, sc.Stream)
			case "burst":
				o = c06RunStreamBurst(sc.Handler, sc.Mpl, sc.Stream)
			case "conc":
				o = c06RunConc(sc.Workers, sc.Budget)
			case "mux":
				o = c06RunMux(sc.Cfg, sc.Stream)
			case "alloc":
				o = c06RunAlloc(sc.BodyLen)
			case "resub":
				o = c06RunResub(sc.Ops)
			default:
				o = c06RunInflight(&sc)
			}
			b, _ := json.Marshal(o)
			out.Write(b)
			out.WriteByte('\n')
			out.Flush()
		} else if line != "" {
			parts := strings.SplitN(line, " ", 2)
			stream, _ := hex.DecodeString(strings.TrimPrefix(parts[1], "x"))
			fmt.Fprintf(os.Stderr, "CASE %s\n", line[:min(len(line), 80)])
			hm := strings.SplitN(parts[0], ",", 2)
			mpl := 0
			if len(hm) == 2 {
				fmt.Sscan(hm[1], &mpl)
			}
			o := c06RunStream(hm[0] == "1", mpl, stream)
			b, _ := json.Marshal(o)
			out.Write(b)
			out.WriteByte('\n')
			out.Flush()
		}
		if err != nil {
			return nil
		}
	}
}

type c06Child struct {
	cmd    *exec.Cmd
	stdin  io.WriteCloser
	stdout *bufio.Reader
	stderr *strings.Builder
}

func c06Spawn() (*c06Child, error) {
	cmd := exec.Command(os.Args[0], "C06child")
	stdin, err := cmd.StdinPipe()
	if err != nil {
		return nil, err
	}
	stdout, err := cmd.StdoutPipe()
	if err != nil {
		return nil, err
	}
	sb := &strings.Builder{}
	cmd.Stderr = sb
	if err := cmd.Start(); err != nil {
		return nil, err
	}
	return &c06Child{cmd: cmd, stdin: stdin, stdout: bufio.NewReaderSize(stdout, 1<<20), stderr: sb}, nil
}

func (c *c06Child) run(handler bool, mpl int, stream []byte) (c06StreamObs, bool) {
	h := "0"
	if handler {
		h = "1"
	}
	if _, err := fmt.Fprintf(c.stdin, "%s,%d x%s\n", h, mpl, hex.EncodeToString(stream)); err != nil {
		return c06StreamObs{}, false
	}
	line, err := c.stdout.ReadString('\n')
	if err != nil {
		return c06StreamObs{}, false
	}
	var o c06StreamObs
	if json.Unmarshal([]byte(line), &o) != nil {
		return c06StreamObs{}, false
	}
	return o, true
}

// runJSON sends a scenario and decodes the child's answer into out
func (c *c06Child) runJSON(sc *c06Scenario, out interface{}) bool {
	b, _ := json.Marshal(sc)
	if _, err := fmt.Fprintf(c.stdin, "%s\n", b); err != nil {
		return false
	}
	line, err := c.stdout.ReadString('\n')
	if err != nil {
		return false
	}
	return json.Unmarshal([]byte(line), out) == nil
}

func (c *c06Child) runInflight(sc *c06Scenario) (c06InflightObs, bool) {
	b, _ := json.Marshal(sc)
	if _, err := fmt.Fprintf(c.stdin, "%s\n", b); err != nil {
		return c06InflightObs{}, false
	}
	line, err := c.stdout.ReadString('\n')
	if err != nil {
		return c06InflightObs{}, false
	}
	var o c06InflightObs
	if json.Unmarshal([]byte(line), &o) != nil {
		return c06InflightObs{}, false
	}
	return o, true
}

func (c *c06Child) kill() string {
	c.stdin.Close()
	done := make(chan struct{})
	go func() { c.cmd.Wait(); close(done) }()
	select {
	case <-done:
	case <-time.After(3 * time.Second):
		c.cmd.Process.Kill()
		<-done
	}
	s := c.stderr.String()
	// the interesting part of a Go crash is its first lines
	if i := strings.Index(s, "panic:"); i >= 0 {
		s = s[i:]
	} else if i := strings.Index(s, "fatal error:"); i >= 0 {
		s = s[i:]
	}
	if len(s) > 400 {
		s = s[:400]
	}
	return s
}

// ---------- generators ----------

// c06Q2Streams: an inbound QoS 2 PUBLISH with a small payload of distinct bytes, then 1-4 further
// small packets (PUBLISH QoS 0/1/2 with other payloads of the same, a smaller and a larger size,
// stray acknowledgements, PINGRESP with and without a body, CONNACK again), then its PUBREL —
// as a complete well-formed stream and as the well-formed prefix of a malformed packet. The
// message must be handed over at the PUBREL with the bytes it was sent with.
func c06Q2Streams(r *rand.Rand, nRandom int) (out [][]byte, labels []string) {
	between := func(kind int, n int, seed byte) []byte {
		pl := make([]byte, n)
		for i := range pl {
			pl[i] = seed ^ byte(0x55+i*3)
		}
		switch kind {
		case 0:
			return encPublish(inMsg{Topic: []byte("x"), QoS: 0, Payload: pl})
		case 1:
			return encPublish(inMsg{Topic: []byte("other/topic"), QoS: 1, ID: 300, Payload: pl})
		case 2:
			return encPublish(inMsg{Topic: []byte("q"), QoS: 2, ID: 301, Payload: pl})
		case 3:
			return encID(0x40, 9)
		case 4:
			return encFrame(0x90, append([]byte{0, 9}, pl...))
		case 5:
			return encID(0xB0, 9)
		case 6:
			return []byte{0xD0, 0}
		case 7:
			return encFrame(0xD0, pl)
		case 8:
			return []byte{0x20, 2, 0, 0}
		case 9:
			return encID(0x62, 302) // PUBREL of an identifier that is not open
		case 10:
			return encID(0x50, 9)
		default:
			return encID(0x70, 9)
		}
	}
	stream := func(psize int, tlen int, mids [][]byte, bad []byte, tail bool) []byte {
		pl := make([]byte, psize)
		for i := range pl {
			pl[i] = byte(0xA0 + i)
		}
		topic := []byte("exactly/once/topic")[:tlen]
		s := encPublish(inMsg{Topic: topic, QoS: 2, ID: 7, Payload: pl})
		for _, m := range mids {
			s = append(s, m...)
		}
		s = append(s, encID(0x62, 7)...)
		if tail {
			s = append(s, encPublish(inMsg{Topic: []byte("after"), QoS: 0, Payload: []byte{0xEE}})...)
		}
		return append(s, bad...)
	}
	// every kind of packet in between x payload size of the parked message x smaller/same/larger
	for _, psize := range []int{1, 4, 20} {
		for kind := 0; kind < 12; kind++ {
			for _, n := range []int{psize - 1, psize, psize + 9} {
				if n < 0 || (kind != 0 && kind != 1 && kind != 2 && kind != 4 && kind != 7 && n != psize) {
					continue
				}
				mid := between(kind, n, byte(kind*16+n))
				out = append(out, stream(psize, 5, [][]byte{mid}, nil, false))
				labels = append(labels, "q2-parked:complete")
				out = append(out, stream(psize, 5, [][]byte{mid}, []byte{0xF0, 0}, false))
				labels = append(labels, "q2-parked:then-malformed")
			}
		}
	}
	// nothing in between: the PUBREL itself is the next packet
	out = append(out, stream(20, 1, nil, nil, true), stream(2, 1, nil, []byte{0x90, 0}, false))
	labels = append(labels, "q2-parked:complete", "q2-parked:then-malformed")
	for i := 0; i < nRandom; i++ {
		var mids [][]byte
		for k := 1 + r.Intn(4); k > 0; k-- {
			mids = append(mids, between(r.Intn(12), r.Intn(30), byte(r.Intn(256))))
		}
		var bad []byte
		lab := "q2-parked:complete"
		if r.Intn(2) == 0 {
			bad, _ = c06BadPacket(r)
			lab = "q2-parked:then-malformed"
		}
		out = append(out, stream(1+r.Intn(24), 1+r.Intn(18), mids, bad, r.Intn(2) == 0))
		labels = append(labels, lab)
	}
	return out, labels
}

// c06Frags: pieces of a topic — ASCII, complete multi-byte characters, and every way UTF-8 can
// be ill-formed (stray continuation byte, truncated lead, overlong forms, surrogate, F8..FF).
var c06Frags = [][]byte{
	[]byte("a"), []byte("/"),
	{0xC3, 0xA9},             // é
	{0xE2, 0x82, 0xAC},       // €
	{0xF0, 0x9F, 0x98, 0x80}, // 4-byte character
	{0xFF}, {0x80}, {0xBF},
	{0xC3}, {0xE2, 0x82}, {0xF0, 0x9F, 0x98}, // truncated sequences
	{0xC0, 0x80}, {0xE0, 0x80, 0x80}, {0xF0, 0x80, 0x80, 0x80}, // overlong forms of U+0000
	{0xC1, 0xBF},             // overlong ASCII
	{0xED, 0xA0, 0x80},       // surrogate
	{0xF4, 0x90, 0x80, 0x80}, // above U+10FFFF
	{0xF8, 0x88, 0x80, 0x80, 0x80},
}

// c06NulTopics: topics mixing multi-byte / ill-formed UTF-8 with the byte 00 at every position:
// before, after, between two fragments, inside a sequence (after each of its bytes), as the last
// byte; first the three examples of seeded change C06-4.
func c06NulTopics() [][]byte {
	out := [][]byte{[]byte("\u00e9\x00"), []byte("caf\u00e9/\x00/x"), []byte("\xff\x00")}
	cat := func(parts ...[]byte) []byte {
		var b []byte
		for _, p := range parts {
			b = append(b, p...)
		}
		return b
	}
	nul := []byte{0}
	for _, f := range c06Frags {
		out = append(out, cat(nul, f), cat(f, nul), cat(f, nul, f), cat([]byte("t/"), f, nul), cat(f, []byte("x"), nul, []byte("y")))
		for k := 1; k < len(f); k++ {
			out = append(out, cat(f[:k], nul, f[k:])) // 00 inside the sequence
		}
	}
	for _, f := range c06Frags {
		for _, g := range c06Frags {
			out = append(out, cat(f, nul, g), cat(f, g, nul))
		}
	}
	return out
}

// c06HighTopics: the same fragments without any 00 (accepted; ill-formed parts arrive as U+FFFD)
func c06HighTopics() [][]byte {
	var out [][]byte
	for _, f := range c06Frags {
		out = append(out, append([]byte{}, f...), append(append([]byte("t/"), f...), 'x'))
	}
	return out
}

// c06Payload: n bytes, distinct per call (a counter byte pattern), never all equal
func c06Payload(r *rand.Rand, n int) []byte {
	p := make([]byte, n)
	b := byte(r.Intn(256))
	for i := range p {
		p[i] = b + byte(i*7)
	}
	return p
}

func c06GoodPacket(r *rand.Rand) []byte {
	id := uint16(1 + r.Intn(3))
	sizes := []int{0, 1, 2, 3, 5, 9, 17, 40}
	switch r.Intn(9) {
	case 0:
		return encPublish(inMsg{Topic: []byte("t/a"), QoS: 0, Payload: c06Payload(r, sizes[1+r.Intn(7)])})
	case 1:
		return encPublish(inMsg{Topic: []byte("é"), QoS: 1, ID: id, Payload: c06Payload(r, sizes[r.Intn(8)]), Dup: r.Intn(2) == 0})
	case 2:
		return encPublish(inMsg{Topic: []byte("q2"), QoS: 2, ID: id, Retain: true, Payload: c06Payload(r, sizes[r.Intn(8)])})
	case 3:
		return encID(0x62, id)
	case 4:
		return encID(0x40, id) // unsolicited acknowledgements are ignored
	case 5:
		return encFrame(0x90, []byte{0, byte(id), 0, 1, 2})
	case 6:
		return []byte{0xD0, 0}
	case 7:
		return encID(0xB0, id)
	default:
		return []byte{0x20, 2, 0, 0}
	}
}

func c06BadPacket(r *rand.Rand) ([]byte, string) {
	switch r.Intn(14) {
	case 0:
		return []byte{0x90, 0}, "suback-empty"
	case 1:
		return []byte{0x90, 1, 0}, "suback-1byte"
	case 2:
		return []byte{byte(0x40 + 0x10*r.Intn(4)), byte(r.Intn(2))}, "id-packet-short"
	case 3:
		return []byte{0x36, 5, 0, 1, 'a', 0, 1}, "publish-qos3"
	case 4:
		return []byte{byte([]int{0x00, 0x10, 0x80, 0xA0, 0xC0, 0xE0, 0xF0}[r.Intn(7)]) | byte(r.Intn(16)), 0}, "forbidden-type"
	case 5:
		return []byte{byte(0x40+0x10*r.Intn(4)) | byte(1+r.Intn(15)), 2, 0, 1}, "illegal-flags"
	case 6:
		return []byte{0x30, 4, 0, 9, 'a', 'b'}, "topic-longer-than-body"
	case 7:
		if r.Intn(2) == 0 {
			ts := c06NulTopics()
			return encPublish(inMsg{Topic: ts[r.Intn(len(ts))], QoS: 0, Payload: []byte{1}}), "nul-in-topic"
		}
		return []byte{0x30, 5, 0, 3, 'a', 0, 'b'}, "nul-in-topic"
	case 8:
		return []byte{0x20, byte([]int{0, 1, 3}[r.Intn(3)]), 0, 0, 0}[:2+[]int{0, 1, 3}[r.Intn(3)]], "connack-length"
	case 9:
		return []byte{0x30, 0x80, 0x80, 0x80, 0x80, 0x01, 0, 0}, "length-5-bytes"
	case 10:
		return []byte{0x30, 0xFF, 0xFF, 0xFF, 0xFF, 0xFF, 0xFF, 0xFF, 0xFF, 0xFF, 0x7F}, "length-10-bytes"
	case 11:
		return []byte{0x32, 4, 0, 1, 'a', 7}, "publish-q1-half-id"
	case 12:
		return []byte{0x30, 1, 0}, "publish-1byte"
	default:
		return []byte{0xD1, 0}, "pingresp-flags"
	}
}

func runC06(cfg *runCfg) error {
	r := rand.New(rand.NewSource(cfg.seed))
	cf := newCasesFile("C06", "Codec", "Inbound", "Parse", "ParseSpec", "ParsePending", "ParseExit", "ParseResub", "ParseMux", "CheckC06")
	m := &meta{Property: "C06", Distribution: map[string]interface{}{}, Families: map[string][]interface{}{}}
	dist := map[string]int{}

	// ---- parse: every (type, flag) with every body over a 5-byte alphabet up to length L, plus random ----
	L := 2
	nRandParse := 1500
	switch cfg.tier {
	case "thorough":
		L = 3
		nRandParse = 20000
	case "search":
		nRandParse = 6000
	}
	alpha := []byte{0, 1, 2, 0x80, 0xFF}
	var bodies [][]byte
	var gen func(p []byte)
	gen = func(p []byte) {
		bodies = append(bodies, append([]byte{}, p...))
		if len(p) == L {
			return
		}
		for _, a := range alpha {
			gen(append(p, a))
		}
	}
	gen(nil)
	var parseCases []string
	nPanic := 0
	addParse := func(typ, flag byte, body []byte) {
		coq, desc, panicked := c06ParseObs(typ, flag, body)
		if panicked {
			nPanic++
		}
		parseCases = append(parseCases, cTuple(fmt.Sprint(typ), fmt.Sprint(flag), cBytes(body), coq))
		m.Families["parse"] = append(m.Families["parse"], map[string]interface{}{"type": typ, "flag": flag, "body": fmt.Sprintf("%x", body), "result": desc})
		dist["parse_"+strings.Fields(desc)[0]]++
	}
	for _, typ := range []byte{2, 3, 4, 5, 6, 7, 9, 11, 13} {
		for flag := byte(0); flag < 16; flag++ {
			if typ != 3 && flag > 3 {
				continue
			}
			for _, b := range bodies {
				addParse(typ, flag, b)
			}
		}
	}
	nEnumParse := len(parseCases)
	for i := 0; i < nRandParse; i++ {
		typ := []byte{2, 3, 3, 3, 3, 4, 5, 6, 7, 9, 9, 11, 13}[r.Intn(13)]
		flag := byte(r.Intn(16))
		if r.Intn(2) == 0 {
			flag = []byte{0, 2, 0, 4, 1, 8, 10, 13}[r.Intn(8)]
		}
		var body []byte
		if typ == 3 && r.Intn(4) > 0 {
			// structured PUBLISH body with hostile topic bytes
			tl := r.Intn(8)
			topic := make([]byte, tl)
			for j := range topic {
				topic[j] = []byte{0, 'a', 0xC3, 0xA9, 0xED, 0xA0, 0x80, 0xF0, 0x9F, 0x98, 0x80, 0xC0, 0xFF, '/'}[r.Intn(14)]
			}
			decl := tl
			if r.Intn(5) == 0 {
				decl = tl + r.Intn(4) - 1
				if decl < 0 {
					decl = 0
				}
			}
			body = append([]byte{byte(decl >> 8), byte(decl)}, topic...)
			for k := r.Intn(5); k > 0; k-- {
				body = append(body, byte(r.Intn(256)))
			}
		} else {
			body = make([]byte, r.Intn(7))
			for j := range body {
				body[j] = byte(r.Intn(256))
			}
		}
		addParse(typ, flag, body)
	}
	// PUBLISH bodies whose topic mixes multi-byte / ill-formed UTF-8 with U+0000 at every position
	nulTopics := c06NulTopics()
	nNulParse := 0
	for i, t := range append(append([][]byte{}, nulTopics...), c06HighTopics()...) {
		fl := []byte{0, 2, 4, 1, 11, 13}[i%6]
		body := encStr(t)
		if fl&6 != 0 {
			body = append(body, 0, byte(1+i%200))
		}
		if i%3 == 0 {
			body = append(body, 'p', 0, 0xC3)
		}
		addParse(3, fl, body)
		nNulParse++
	}
	cf.def("parse_cases", "list (N * N * list N * parse_obs)", cList(parseCases))
	cf.result("V_parse", "c06_parse_violations parse_cases")
	cf.result("M_parse", "c06_parse_mismatches parse_cases")

	// ---- stream: whole byte streams into a connected client, in a child process ----
	type sc struct {
		handler bool
		stream  []byte
		label   string
	}
	var scs []sc
	nStream := 350
	switch cfg.tier {
	case "thorough":
		nStream = 4000
	case "search":
		nStream = 1200
	}
	// corpus of the repaired defects first
	scs = append(scs,
		sc{true, []byte{0x90, 0x00}, "corpus:suback-empty"},
		sc{true, []byte{0x90, 0x01, 0x00}, "corpus:suback-1byte"},
		sc{true, []byte{0x30, 0x80, 0x80, 0x80, 0x80, 0x01}, "corpus:length-5-bytes"},
		sc{true, []byte{0x30, 0xFF, 0xFF, 0xFF, 0xFF, 0xFF, 0xFF, 0xFF, 0xFF, 0xFF, 0x7F}, "corpus:length-10-bytes"},
		sc{true, []byte{0x30, 0xFF, 0xFF, 0xFF, 0x7F, 0x00}, "corpus:max-length-truncated"},
		sc{true, []byte{0x30, 0xFF, 0xFF, 0xFF, 0xFF, 0x7F}, "corpus:length-5-bytes-max"},
	)
	// a good PUBLISH, then a PUBLISH whose topic has U+0000 somewhere among multi-byte / ill-formed
	// UTF-8, then another good one: only the first may be delivered, the link must end with an error
	good1 := encPublish(inMsg{Topic: []byte("caf\u00e9"), QoS: 0, Payload: []byte{1}})
	good2 := encPublish(inMsg{Topic: []byte("after"), QoS: 0, Payload: []byte{2}})
	nNulStream := 0
	for i, t := range nulTopics {
		// quick tier: the examples, every single-fragment position, and a seed-dependent sample of the pairs
		if cfg.tier == "quick" && i >= 3+len(c06Frags)*5+30 && r.Intn(8) != 0 {
			continue
		}
		q := byte(i % 3)
		bad := encPublish(inMsg{Topic: t, QoS: q, ID: uint16(5 + i%7), Payload: []byte{byte(i)}})
		s := append(append(append([]byte{}, good1...), bad...), good2...)
		scs = append(scs, sc{i%5 != 4, s, "nul-in-topic-utf8"})
		nNulStream++
	}
	for i, t := range c06HighTopics() {
		s := append(append([]byte{}, encPublish(inMsg{Topic: t, QoS: byte(i % 2), ID: 9, Payload: []byte{7}})...), good2...)
		scs = append(scs, sc{true, s, "high-bytes-no-nul"})
	}
	// malformed packets with large bodies into clients with MaxPayloadLen set
	bigMpl := map[int]int{}
	bigCoq := map[int]string{}
	bigDesc := map[int]string{}
	bigs := c06BigStreams(cfg.tier)
	for _, b := range bigs {
		bigMpl[len(scs)] = b.mpl
		bigCoq[len(scs)] = b.coq
		bigDesc[len(scs)] = b.desc
		scs = append(scs, sc{false, b.stream, b.label})
	}
	nQ2Rand := 40
	if cfg.tier != "quick" {
		nQ2Rand = 600
	}
	q2s, q2l := c06Q2Streams(r, nQ2Rand)
	for i, s := range q2s {
		scs = append(scs, sc{i%9 != 8, s, q2l[i]})
	}
	for i := 0; i < nStream; i++ {
		var s []byte
		label := ""
		k := r.Intn(5)
		for j := 0; j < k; j++ {
			s = append(s, c06GoodPacket(r)...)
		}
		switch x := r.Intn(10); {
		case x < 5:
			b, l := c06BadPacket(r)
			s = append(s, b...)
			label = l
			for j := r.Intn(3); j > 0; j-- {
				s = append(s, c06GoodPacket(r)...)
			}
		case x < 7:
			// truncate a good stream at a random byte
			s = append(s, c06GoodPacket(r)...)
			if len(s) > 0 {
				s = s[:r.Intn(len(s))]
			}
			label = "truncated"
		case x < 8:
			// single byte mutation
			s = append(s, c06GoodPacket(r)...)
			if len(s) > 0 {
				s[r.Intn(len(s))] = byte(r.Intn(256))
			}
			label = "mutated"
		case x < 9:
			n := r.Intn(12)
			for j := 0; j < n; j++ {
				s = append(s, byte(r.Intn(256)))
			}
			// keep random lengths modest: at most three continuation bytes unless hostile on purpose
			label = "random"
		default:
			label = "all-good"
		}
		scs = append(scs, sc{r.Intn(4) > 0, s, label})
	}
	child, err := c06Spawn()
	if err != nil {
		return err
	}
	var streamCases []string
	nCrash := 0
	// the placement "in the same burst as CONNACK", the caller of Connect held until the link is down
	burstIdx := map[int]bool{}
	addBurst := func(h bool, s []byte, label string) {
		burstIdx[len(scs)] = true
		scs = append(scs, sc{h, s, "burst:" + label})
	}
	addBurst(true, nil, "peer-closes")
	addBurst(true, []byte{0xF0, 0}, "reserved-type")
	addBurst(true, []byte{0x90, 0}, "suback-empty")
	addBurst(true, append(append([]byte{}, good1...), encPublish(inMsg{Topic: []byte("é\x00"), QoS: 0, Payload: []byte{1}})...), "good+nul-in-topic")
	addBurst(false, []byte{0x30, 0x80, 0x80, 0x80, 0x80, 0x01}, "length-5-bytes")
	addBurst(true, q2s[0], "q2-parked")
	addBurst(true, q2s[1], "q2-parked+malformed")
	nBurst := 40
	if cfg.tier != "quick" {
		nBurst = 400
	}
	for i := 0; i < nBurst; i++ {
		var s []byte
		for k := r.Intn(3); k > 0; k-- {
			s = append(s, c06GoodPacket(r)...)
		}
		label := "all-good"
		if r.Intn(4) > 0 {
			b, l := c06BadPacket(r)
			s = append(s, b...)
			label = l
		}
		addBurst(r.Intn(4) > 0, s, label)
	}
	mplDim := []int{0, 1, 100, 65536}
	for i, c := range scs {
		// MaxPayloadLen is a session dimension: it limits outbound messages and must not influence
		// what serve() does with inbound bytes
		mpl := mplDim[i%4]
		streamCoq, streamDesc := "", ""
		if v, ok := bigMpl[i]; ok {
			mpl, streamCoq, streamDesc = v, bigCoq[i], bigDesc[i]
		} else {
			streamCoq, streamDesc = cBytes(c.stream), fmt.Sprintf("%x", c.stream)
		}
		var o c06StreamObs
		var ok bool
		if burstIdx[i] {
			ok = child.runJSON(&c06Scenario{Mode: "burst", Handler: c.handler, Mpl: mpl, Stream: c.stream}, &o)
			if ok && strings.HasPrefix(o.Crash, "connect:") {
				return fmt.Errorf("burst scenario could not connect: %s", o.Crash)
			}
		} else {
			o, ok = child.run(c.handler, mpl, c.stream)
		}
		if !ok {
			crash := child.kill()
			nCrash++
			o = c06StreamObs{Survived: false, Crash: crash}
			child, err = c06Spawn()
			if err != nil {
				return err
			}
		}
		errc := "None"
		if p := cPerr(o.Err); p != "" {
			errc = "(Some " + p + ")"
		}
		closedOK := len(o.States) == 2 && o.States[0] == "Active:nil" && o.States[1] == "Closed:"+o.Err
		if burstIdx[i] {
			// the link ended before the caller of Connect could report Active
			closedOK = closedOK || (len(o.States) == 1 && o.States[0] == "Closed:"+o.Err)
		}
		streamCases = append(streamCases, cTuple(cBool(c.handler), streamCoq, cBool(o.Survived && !o.Hang), fmt.Sprint(o.MaxRead), errc, cBool(closedOK && o.Done), cListInline(o.Events)))
		dist["stream_"+c.label]++
		dist["stream_end_"+o.Err]++
		dist[fmt.Sprintf("stream_max_payload_len_%d", mpl)]++
		fc := map[string]interface{}{"handler": c.handler, "max_payload_len": mpl, "stream": streamDesc, "kind": c.label, "survived": o.Survived, "hang": o.Hang, "max_read": o.MaxRead, "err": o.Err, "states": o.States, "timeline": o.Desc, "crash": o.Crash}
		m.Families["stream"] = append(m.Families["stream"], fc)
		if len(m.Samples) < 4 && strings.HasPrefix(c.label, "corpus") == false && len(o.Desc) > 0 && c.label != "all-good" {
			m.Samples = append(m.Samples, fc)
		}
	}
	child.kill()
	cf.def("stream_cases", "list (bool * list N * bool * N * option perr * bool * list in_event)", cList(streamCases))
	cf.result("V_stream", "c06_stream_violations stream_cases")
	cf.result("M_stream", "c06_stream_mismatches stream_cases")

	// ---- hostile acknowledgements for requests in flight, in a child process ----
	child, err = c06Spawn()
	if err != nil {
		return err
	}
	var inflightCases []string
	nInflight := 0
	for _, sc := range c06InflightScenarios(r, cfg.tier) {
		o, ok := child.runInflight(sc)
		if !ok {
			crash := child.kill()
			nCrash++
			canon := []byte{}
			for _, p := range sc.Burst {
				canon = append(canon, p.render(c06CanonID)...)
			}
			o = c06InflightObs{Survived: false, Crash: crash, Canon: canon}
			child, err = c06Spawn()
			if err != nil {
				return err
			}
		}
		if strings.HasPrefix(o.Crash, "connect:") {
			return fmt.Errorf("inflight scenario could not connect: %s", o.Crash)
		}
		errc := "None"
		if p := cPerr(o.Err); p != "" {
			errc = "(Some " + p + ")"
		}
		closedOK := len(o.States) == 2 && o.States[0] == "Active:nil" && o.States[1] == "Closed:"+o.Err && o.Err != "nil"
		var reqs []string
		var reqDesc []string
		for _, rq := range sc.Reqs {
			reqs = append(reqs, c06ReqCoq(rq))
			reqDesc = append(reqDesc, fmt.Sprintf("%s%x", rq.Kind, rq.QoS))
		}
		var rels []string
		for _, j := range o.Rels {
			rels = append(rels, cNat(j))
		}
		var labels []string
		for _, p := range sc.Burst {
			labels = append(labels, p.Label)
		}
		alive := o.Survived && len(o.Stuck) == 0
		inflightCases = append(inflightCases, cTuple(cBool(sc.Handler), cListInline(reqs), cBytes(o.Canon), cBool(alive), errc,
			cBool(closedOK && o.Done), cListInline(o.Events), cListInline(o.Results), cListInline(rels)))
		kind := strings.SplitN(sc.Label, ":", 2)[0]
		dist["inflight_"+kind]++
		dist["inflight_end_"+o.Err]++
		for _, rd := range o.ResDesc {
			dist["inflight_call_"+strings.Fields(rd)[0]]++
		}
		fc := map[string]interface{}{"requests_in_flight": reqDesc, "answer": labels, "answer_bytes_ids_renamed": fmt.Sprintf("%x", o.Canon),
			"answer_bytes_sent": fmt.Sprintf("%x", o.Wire), "handler": sc.Handler, "kind": sc.Label, "survived": o.Survived, "stuck": o.Stuck,
			"err": o.Err, "states": o.States, "call_results": o.ResDesc, "pubrel_by": o.Rels, "timeline": o.Desc, "crash": o.Crash}
		m.Families["inflight"] = append(m.Families["inflight"], fc)
		if sc.Label == "random" && nInflight%40 == 0 && len(m.Samples) < 6 {
			m.Samples = append(m.Samples, fc)
		}
		nInflight++
	}
	child.kill()
	cf.def("inflight_cases", "list inflight_case", cList(inflightCases))
	cf.result("V_inflight", "c06_inflight_violations inflight_cases")
	cf.result("M_inflight", "c06_inflight_mismatches inflight_cases")

	// ---- the end of the link on a transport whose Close() blocks ----
	child, err = c06Spawn()
	if err != nil {
		return err
	}
	var exitStreams []sc
	exitStreams = append(exitStreams,
		sc{true, nil, "peer-closes"},
		sc{true, []byte{0xF0, 0}, "reserved-type"},
		sc{true, append(append([]byte{}, good1...), 0x90, 0), "good+suback-empty"},
		sc{true, append(append([]byte{}, good1...), encPublish(inMsg{Topic: []byte("é\x00"), QoS: 0, Payload: []byte{1}})...), "good+nul-in-topic"},
		sc{false, []byte{0x30, 0x80, 0x80, 0x80, 0x80, 0x01}, "length-5-bytes"},
		sc{true, append(append([]byte{}, good1...), good2[:len(good2)-2]...), "good+truncated"},
	)
	nExit := 40
	if cfg.tier != "quick" {
		nExit = 400
	}
	for i := 0; i < nExit; i++ {
		var s []byte
		for k := r.Intn(3); k > 0; k-- {
			s = append(s, c06GoodPacket(r)...)
		}
		label := "all-good"
		if r.Intn(4) > 0 {
			b, l := c06BadPacket(r)
			s = append(s, b...)
			label = l
		}
		exitStreams = append(exitStreams, sc{r.Intn(4) > 0, s, label})
	}
	perrOpt := func(class string) (string, bool) {
		if class == "nil" || class == "" {
			return "None", true
		}
		if p := cPerr(class); p != "" {
			return "(Some " + p + ")", true
		}
		return "None", false
	}
	closedReported := func(states []string) (string, bool) {
		for _, st := range states {
			if strings.HasPrefix(st, "Closed:") {
				v, ok := perrOpt(strings.TrimPrefix(st, "Closed:"))
				return "(Some " + v + ")", ok
			}
		}
		return "None", true
	}
	exitCoq := map[int]string{}
	exitMpl := map[int]int{}
	for i, b := range bigs {
		if i%7 == 0 || (cfg.tier != "quick" && i%2 == 0) {
			exitMpl[len(exitStreams)] = b.mpl
			exitCoq[len(exitStreams)] = b.coq
			exitStreams = append(exitStreams, sc{false, b.stream, b.label})
		}
	}
	exitBurst := map[int]bool{}
	for i, n := 0, len(exitStreams); i < n; i++ {
		if i < 6 || i%4 == 0 {
			exitBurst[len(exitStreams)] = true
			exitStreams = append(exitStreams, sc{exitStreams[i].handler, exitStreams[i].stream, "burst:" + exitStreams[i].label})
			if v, ok := exitMpl[i]; ok {
				exitMpl[len(exitStreams)-1] = v
				exitCoq[len(exitStreams)-1] = exitCoq[i]
			}
		}
	}
	var exitCases []string
	for i, c := range exitStreams {
		mpl := mplDim[i%4]
		streamCoq := cBytes(c.stream)
		streamDesc := fmt.Sprintf("%x", c.stream)
		if v, ok := exitMpl[i]; ok {
			mpl, streamCoq = v, exitCoq[i]
			streamDesc = fmt.Sprintf("%x... (%d bytes)", c.stream[:40], len(c.stream))
		}
		var o c06ExitObs
		if !child.runJSON(&c06Scenario{Mode: "exit", Handler: c.handler, Mpl: mpl, WithConnack: exitBurst[i], Stream: c.stream}, &o) {
			crash := child.kill()
			nCrash++
			o = c06ExitObs{Survived: false, Crash: crash}
			child, err = c06Spawn()
			if err != nil {
				return err
			}
		}
		if strings.HasPrefix(o.Crash, "connect:") {
			return fmt.Errorf("exit scenario could not connect: %s", o.Crash)
		}
		e1, ok1 := perrOpt(o.ErrAtEntry)
		e2, ok2 := perrOpt(o.ErrAtDone)
		rep, ok3 := closedReported(o.StatesAtDone)
		alive := o.Survived && len(o.Stuck) == 0 && ok1 && ok2 && ok3
		exitCases = append(exitCases, cTuple(cBool(c.handler), streamCoq, cBool(alive), cBool(o.DoneAtEntry), cBool(o.DoneWhileHeld), e1, e2, rep))
		dist["exit_"+c.label]++
		m.Families["exit"] = append(m.Families["exit"], map[string]interface{}{"transport": "Close() blocks until released", "stream_in_the_same_burst_as_connack": exitBurst[i], "handler": c.handler, "max_payload_len": mpl,
			"stream": streamDesc, "kind": c.label, "observation": o})
	}
	child.kill()
	cf.def("exit_cases", "list exit_case", cList(exitCases))
	cf.result("V_exit", "c06_exit_violations exit_cases")
	cf.result("M_exit", "c06_exit_mismatches exit_cases")

	// ---- bytes allocated for one big packet that really arrives ----
	child, err = c06Spawn()
	if err != nil {
		return err
	}
	allocSizes := []int{144 << 20}
	if cfg.tier != "quick" {
		allocSizes = []int{1 << 20, 70 << 20, 129 << 20, 144 << 20, 268435455}
	}
	var allocCases []string
	for _, n := range allocSizes {
		var o c06AllocObs
		if !child.runJSON(&c06Scenario{Mode: "alloc", BodyLen: n}, &o) {
			crash := child.kill()
			nCrash++
			o = c06AllocObs{Survived: false, Crash: crash, BodyLen: n, Header: append([]byte{0x30}, encVarint(n)...)}
			child, err = c06Spawn()
			if err != nil {
				return err
			}
		}
		if strings.HasPrefix(o.Crash, "connect:") {
			return fmt.Errorf("alloc scenario could not connect: %s", o.Crash)
		}
		ok := o.Survived && o.Intact && o.Stuck == "" && o.Err == "EOF"
		allocCases = append(allocCases, cTuple(cBytes(o.Header), fmt.Sprint(n), cBool(ok), fmt.Sprint(o.Delta)))
		dist[fmt.Sprintf("alloc_body_%d", n)]++
		m.Families["alloc"] = append(m.Families["alloc"], map[string]interface{}{"packet": fmt.Sprintf("PUBLISH QoS 0, topic ZZ, body of %d bytes 5A really delivered", n),
			"header_hex": fmt.Sprintf("%x", o.Header), "observation": o, "bound": 268435455 + 1048576})
	}
	child.kill()
	cf.def("alloc_cases", "list alloc_case", cList(allocCases))
	cf.result("V_alloc", "c06_alloc_violations alloc_cases")
	cf.result("M_alloc", "c06_alloc_mismatches alloc_cases")
	// ---- concurrent stress: requests of every kind while acknowledgements of every kind arrive ----
	child, err = c06Spawn()
	if err != nil {
		return err
	}
	concBudget := 2000
	if cfg.tier == "thorough" {
		concBudget = 10000
	}
	var concCases []string
	for _, workers := range []int{6} {
		var o c06ConcObs
		if !child.runJSON(&c06Scenario{Mode: "conc", Workers: workers, Budget: concBudget}, &o) {
			crash := child.kill()
			nCrash++
			o = c06ConcObs{Survived: false, Crash: crash}
			child, err = c06Spawn()
			if err != nil {
				return err
			}
		}
		if strings.HasPrefix(o.Crash, "connect:") {
			return fmt.Errorf("conc scenario could not connect: %s", o.Crash)
		}
		errc, okc := perrOpt(o.Err)
		closedOK := len(o.States) == 2 && o.States[0] == "Active:nil" && o.States[1] == "Closed:"+o.Err && o.Err != "nil"
		alive := o.Survived && len(o.Stuck) == 0 && okc
		concCases = append(concCases, cTuple(cBool(alive), errc, cBool(closedOK && o.Done)))
		m.Distribution["conc_requests_returned"] = o.Requests
		m.Distribution["conc_acks_sent"] = o.Solicited + o.Unsolicited
		m.Families["conc"] = append(m.Families["conc"], map[string]interface{}{"scenario": fmt.Sprintf("%d goroutines issue Publish QoS 0/1/2, Subscribe, Unsubscribe in a loop for %d ms on one connected BaseClient; for every packet written the broker answers the solicited acknowledgement and 6 unsolicited acknowledgements of every kind", workers, concBudget),
			"observation": o})
	}
	child.kill()
	cf.def("conc_cases", "list conc_case", cList(concCases))
	cf.result("V_conc", "c06_conc_violations conc_cases")
	cf.result("M_conc", "c06_conc_mismatches conc_cases")

	// ---- streams into a client whose handler is a ServeMux / nested ServeMux / ServeAsync ----
	child, err = c06Spawn()
	if err != nil {
		return err
	}
	var muxCases []string
	for _, msc := range c06MuxScenarios(r, cfg.tier) {
		var o c06MuxObs
		if !child.runJSON(&c06Scenario{Mode: "mux", Cfg: msc.cfg, Stream: msc.stream}, &o) {
			crash := child.kill()
			nCrash++
			o = c06MuxObs{Survived: false, Crash: crash}
			child, err = c06Spawn()
			if err != nil {
				return err
			}
		}
		if strings.HasPrefix(o.Crash, "connect:") {
			return fmt.Errorf("mux scenario could not connect: %s", o.Crash)
		}
		tree, async := c06MuxTree(msc.cfg)
		errc, okc := perrOpt(o.Err)
		closedOK := len(o.States) == 2 && o.States[0] == "Active:nil" && o.States[1] == "Closed:"+o.Err && o.Err != "nil"
		alive := o.Survived && len(o.Stuck) == 0 && okc
		muxCases = append(muxCases, cTuple(cBool(async), "("+c06MuxCoq(tree)+")", cBytes(msc.stream), cBool(alive), errc, cBool(closedOK && o.Done), cListInline(o.Deliveries)))
		dist[fmt.Sprintf("mux_handler_%d", msc.cfg)]++
		sd := fmt.Sprintf("%x", msc.stream)
		if len(sd) > 400 {
			sd = sd[:400] + fmt.Sprintf("... (%d bytes)", len(msc.stream))
		}
		m.Families["mux"] = append(m.Families["mux"], map[string]interface{}{"handler": []string{"ServeMux{sensor/#,+/temp,#,a/+,$SYS/#,/,a/,+}", "ServeMux{sensor/#, n/# -> ServeMux{n/+/x,+/a/#,#}, +/+}", "ServeAsync{ServeMux{sensor/#,+/temp,#,a/+,$SYS/#,/,a/,+}}"}[msc.cfg],
			"stream": sd, "kind": msc.label, "observation": map[string]interface{}{"survived": o.Survived, "stuck": o.Stuck, "err": o.Err, "states": o.States, "deliveries": o.Desc, "crash": o.Crash}})
	}
	child.kill()
	cf.def("mux_cases", "list mux_case", cList(muxCases))
	cf.result("V_mux", "c06_mux_violations mux_cases")
	cf.result("M_mux", "c06_mux_mismatches mux_cases")

	// ---- hostile SUBACK codes, link loss, re-subscription through a RetryClient ----
	child, err = c06Spawn()
	if err != nil {
		return err
	}
	var resubCases []string
	for _, ops := range c06ResubScenarios(r, cfg.tier) {
		var o c06ResubObs
		if !child.runJSON(&c06Scenario{Mode: "resub", Ops: ops}, &o) {
			crash := child.kill()
			nCrash++
			o = c06ResubObs{Survived: false, Crash: crash}
			child, err = c06Spawn()
			if err != nil {
				return err
			}
		}
		if strings.HasPrefix(o.Crash, "connect:") {
			return fmt.Errorf("resub scenario could not connect: %s", o.Crash)
		}
		opsCoq, opsDesc := c06RsOpsCoq(ops)
		e1, ok1 := perrOpt(o.Err1)
		e2, ok2 := perrOpt(o.Err2)
		alive := o.Survived && len(o.Stuck) == 0 && ok1 && ok2
		resubCases = append(resubCases, cTuple(opsCoq, cBool(alive), e1, cListInline(o.Wire2Coq), cBool(o.PingErr == "nil"), e2))
		dist["resub_scenarios"]++
		if !o.Survived {
			dist["resub_crashes"]++
		}
		m.Families["resub"] = append(m.Families["resub"], map[string]interface{}{"client": "RetryClient, SetClient by hand; link lost after the first connection; second connection without session present: Resubscribe, Retry, Ping",
			"application_and_first_broker": opsDesc, "observation": o})
	}
	child.kill()
	cf.def("resub_cases", "list resub_case", cList(resubCases))
	cf.result("V_resub", "c06_resub_violations resub_cases")
	cf.result("M_resub", "c06_resub_mismatches resub_cases")

	for k, v := range dist {
		m.Distribution[k] = v
	}
	m.Distribution["parse_nul_utf8_topics"] = nNulParse
	m.Distribution["stream_nul_utf8_topics"] = nNulStream
	m.Distribution["parse_enumerated"] = nEnumParse
	m.Distribution["parse_random"] = nRandParse
	m.Distribution["parse_panics"] = nPanic
	m.Distribution["stream_crashes"] = nCrash
	m.Evaluations = len(parseCases) + len(streamCases) + len(inflightCases) + len(exitCases) + len(allocCases) + len(resubCases) + len(muxCases) + len(concCases)
	m.DistinctNontrivial = nEnumParse + nNulParse + len(streamCases) - dist["stream_all-good"] + len(inflightCases) + len(exitCases) + len(allocCases) + len(resubCases) + len(muxCases) + len(concCases)
	m.Rule = fmt.Sprintf("parsers: every (type, flag) x every body over {00,01,02,80,FF} up to length %d through the hook VerifParse (panics recovered), plus %d random/structured bodies, plus %d PUBLISH bodies whose topic mixes multi-byte / ill-formed UTF-8 fragments with the byte 00 at every position (and the same fragments without 00); streams: corpus of the repaired defects, good PUBLISH + PUBLISH with such a topic + good PUBLISH, an inbound QoS 2 PUBLISH (payload of 1/4/20 distinct bytes) + 1-4 further small packets of 12 kinds (PUBLISH QoS 0/1/2 with smaller/equal/larger payloads, stray acknowledgements, PINGRESP, CONNACK) + its PUBREL, complete and as prefix of a malformed packet, then good packets followed by a malformed packet of 14 kinds / truncation / one-byte mutation / random bytes, fed to a connected BaseClient in a child process with a 6 GiB address-space limit (a crash is attributed to the exact stream); in flight: 1-3 blocking calls (Subscribe with 1-4 filters, Unsubscribe, Publish QoS 1/2, Ping) on a connected BaseClient in a child process, the peer answers with hostile acknowledgements carrying their identifiers (SUBACK with 0/n-1/n+1/n+5/255 codes, failure and illegal codes, flags, short and long bodies, duplicates, other kinds, CONNACK again, truncation), enumerated per request kind plus random combinations; exit: streams (peer closes, malformed kinds, truncation) into a client whose transport blocks in Close() until released, with Done(), Err() and the callback log sampled inside Close(), while it is held, and right after Done() is seen closed; alloc: one QoS 0 PUBLISH whose body (144 MiB; thorough also 1, 70, 129 MiB and 268,435,455 bytes) is generated into the buffers the reader passes to Read, runtime.MemStats.TotalAlloc difference around it; resub: a RetryClient subscribes 1-3 times with 1-3 filters, the broker answers with return codes from {00,01,02,80,03,7F,FF} (every requested QoS x every code for one filter, random combinations, a wrong number of codes for the last Subscribe), the link is lost, SetClient + Connect without session present + Resubscribe + Retry + Ping on a second connection, all in a child process; mux: PUBLISH packets with boundary topic names (empty, /, //, leading/trailing /, $-topics, filter strings, long, ill-formed UTF-8) into a client whose handler is a ServeMux, a nested ServeMux or ServeAsync{ServeMux}, in a child process; MaxPayloadLen of the client is a session dimension (0, 1, 100, 65536) of the stream and exit families, with every malformed kind also sent with a body above MaxPayloadLen+65539 (just above, 200 KiB; thorough 1 MiB); a second placement of stream and exit cases: in the same burst as CONNACK with the caller of Connect held until the link is down; conc: 6 goroutines issuing requests of every kind for a fixed budget (2 s, thorough 10 s) while solicited and unsolicited acknowledgements of every kind arrive, in a child process. distinct_nontrivial = enumerated parser inputs (distinct by construction) + streams that are not all-good + in-flight scenarios", L, nRandParse, nNulParse)
	m.Exhaustive = true
	if err := cf.write(cfg.outDir); err != nil {
		return err
	}
	return m.write(cfg.outDir)
}
