package main

func init() {
	register("C01", runC01)
	rsExtra["C01"] = rsFineFamily
}

func runC01(cfg *runCfg) error {
	n := 350
	depth := 1
	if cfg.tier == "thorough" {
		n, depth = 3000, 2
	}
	if cfg.tier == "search" {
		n = 1200
	}
	var enum []*rsScenario
	for wi, w := range rsWorkloads {
		if cfg.tier == "quick" && wi%2 == 1 {
			continue
		}
		for _, c := range [][3]bool{{false, false, false}, {true, true, false}} {
			d := depth
			if cfg.tier == "thorough" && rsPacketsBound(w.Ops) <= 3 {
				d = 3 // every placement of three consecutive faults for the small workloads
			}
			rsEnumerate(w, d, c[0], c[1], c[2], func(sc *rsScenario) { enum = append(enum, sc) })
		}
	}
	fams := []rsFamily{
		{"corpus", rsCorpus()},
		{"enum", enum},
		{"random", rsRandomFamily(cfg.seed, n, [5]int{1, 3, 3, 2, 1}, false, false)},
	}
	rule := "corpus of the section-6 histories; fixed workloads x every placement of closing faults (write fails / lost after write / ack lost) on every packet; random scenarios of 1-4 connections with requests before the first connection, while connecting, while connected and during outages, refused CONNACK, closed-before-CONNACK and dial failures, one fault per connection; non-trivial = distinct scenario in which at least one request needing an acknowledgement was transmitted more than once or queued during an outage"
	return rsRunProperty(cfg, "C01", "c01_ok", fams, rule, func(sc *rsScenario, o *rsObs) bool {
		return len(sc.Faults) > 0 && len(o.Wire) > 1
	})
}
