// Command harness drives the real mqtt-go client (built from the repository's current
// working tree, build tag "verif") and records observations as Coq case files.
package main

import (
	"flag"
	"fmt"
	"os"
	"sort"
)

type runCfg struct {
	tier   string
	seed   int64
	outDir string
	replay string
	extra  string
}

type propRunner func(cfg *runCfg) error

var runners = map[string]propRunner{}

func register(id string, r propRunner) { runners[id] = r }

func main() {
	if len(os.Args) < 2 {
		fmt.Fprintln(os.Stderr, "usage: harness <property> [-tier quick|thorough] [-seed N] [-out dir]")
		os.Exit(2)
	}
	id := os.Args[1]
	fs := flag.NewFlagSet("harness", flag.ExitOnError)
	cfg := &runCfg{}
	fs.StringVar(&cfg.tier, "tier", "quick", "quick|thorough|search")
	fs.Int64Var(&cfg.seed, "seed", 1, "PRNG seed")
	fs.StringVar(&cfg.outDir, "out", ".", "output directory")
	fs.StringVar(&cfg.replay, "replay", "", "replay file")
	fs.StringVar(&cfg.extra, "extra", "", "property specific argument")
	fs.Parse(os.Args[2:])
	if id == "list" {
		var ids []string
		for k := range runners {
			ids = append(ids, k)
		}
		sort.Strings(ids)
		for _, k := range ids {
			fmt.Println(k)
		}
		return
	}
	r, ok := runners[id]
	if !ok {
		fmt.Fprintf(os.Stderr, "unknown property %s\n", id)
		os.Exit(2)
	}
	if err := os.MkdirAll(cfg.outDir, 0o755); err != nil {
		fmt.Fprintln(os.Stderr, err)
		os.Exit(2)
	}
	if err := r(cfg); err != nil {
		fmt.Fprintln(os.Stderr, "harness error:", err)
		os.Exit(2)
	}
}
