package main

// C10 (b): translator from the Go source of package mqtt to an access table.
//
// Walks every non-test file of $VERIF_REPO (except verif_hooks.go) with go/parser + go/types
// (standard library only; std imports are type-checked from source, third-party imports are
// stubbed) and emits, for every read/write of a field of a tracked struct, one record
//   (struct, field, function, read|write|atomic, locks held (same receiver), roles, flags, position).
//
// What is syntactic / trusted here (see notes/C10.md):
//   * locks are recognised by the patterns  x.mu.Lock() / x.mu.RLock() / x.mu.Unlock() /
//     x.mu.RUnlock() / defer x.mu.[R]Unlock()  and tracked per function body in statement
//     order; at control-flow joins the INTERSECTION of the lock sets is kept, branches ending
//     in return/continue/break/goto/panic do not flow to the join (early-unlock pattern);
//   * a lock protects an access only if both are written with the same receiver expression
//     (c.mu protects c.handler, sig.mu protects sig.chPubAck, never c.sig.x);
//   * locks held by a caller are NOT credited to the callee (fewer locks = more alarms);
//   * closures are attributed to the enclosing function and start with no lock held, except
//     the literals of `go` statements and the arguments of pushTask, which are separate units
//     with the role of the goroutine that runs them;
//   * roles propagate along the static call graph (interface calls go to every method of that
//     name); a unit no role reaches gets the role "Other" (concurrent with everything).

import (
	"fmt"
	"go/ast"
	"go/build"
	"go/importer"
	"go/parser"
	"go/token"
	"go/types"
	"os"
	"path/filepath"
	"sort"
	"strings"
)

type c10Lock struct {
	Field string `json:"lock"`
	Excl  bool   `json:"exclusive"`
}

type c10Access struct {
	Struct   string    `json:"struct"`
	Field    string    `json:"field"`
	Fn       string    `json:"function"`
	Kind     string    `json:"kind"` // R, W, A (sync/atomic)
	Locks    []c10Lock `json:"locks"`
	Roles    []string  `json:"roles"`
	AfterSig bool      `json:"after_signaller_check"`
	Pos      string    `json:"pos"`
	Base     string    `json:"receiver_expr"`
	unit     *c10Unit
}

// c10Share: a map/slice/pointer held in a field of a lock-owning struct is stored into a field of
// (another object of) a lock-owning struct: the same referent is then reachable under two
// different lock objects, which the table (locks identified by struct and field name) cannot see.
type c10Share struct {
	From string `json:"from"` // struct.field whose referent is shared
	To   string `json:"to"`   // struct.field that receives it
	Fn   string `json:"function"`
	Pos  string `json:"pos"`
	How  string `json:"how"`
}

type c10Unit struct {
	name    string
	roots   map[string]bool // roles given directly
	roles   map[string]bool
	callees map[string]bool // unit names
	ifaceCalls map[string]bool // method names called through interfaces
}

// ---- hand-written facts about the source layout (checked as far as possible, see c10CheckFacts) ----

// role of the goroutine started by the k-th `go func(){…}()` of a function (nesting by "/").
var c10GoRoles = map[string]string{
	"BaseClient.Connect/go1":          "Reader",    // serve loop + exit path (connect.go)
	"RetryClient.SetClient/go1":       "Task",      // the task goroutine (retryclient.go)
	"reconnectClient.Connect/go1":     "Reconn",    // the reconnect loop (reconnclient.go)
}

// goroutines recognised by what they run rather than by position: the keep-alive goroutine of a
// connection is the literal that calls KeepAlive(…); every other undeclared goroutine (e.g. the
// watcher that aborts a handshake on Disconnect) runs as Other. All of these are multi-instance.
func c10RoleByBody(fl *ast.FuncLit) string {
	role := ""
	ast.Inspect(fl.Body, func(n ast.Node) bool {
		if c, ok := n.(*ast.CallExpr); ok {
			if id, ok := c.Fun.(*ast.Ident); ok && id.Name == "KeepAlive" {
				role = "KeepAlive"
			}
		}
		return true
	})
	return role
}


// functions whose function-literal arguments run on the task goroutine
var c10TaskSinks = map[string]bool{"pushTask": true}

// unexported types whose (exported-looking) methods are only callable from library code
var c10InternalTypes = map[string]bool{"signaller": true, "firstError": true}

// structs tracked in addition to every struct that has a sync.Mutex / sync.RWMutex field
var c10ExtraTracked = map[string]bool{"reconnectClient": true, "ReconnectOptions": true, "ServeMux": true, "ServeAsync": true}

type c10Extractor struct {
	fset     *token.FileSet
	info     *types.Info
	pkg      *types.Package
	tracked  map[string]bool
	units    map[string]*c10Unit
	declUnit map[types.Object]string // *types.Func -> unit name
	methodsByName map[string][]string
	accesses []*c10Access
	warnings []string
	goSeen   map[string]bool
	shares   []c10Share // reference-typed data of one lock owner stored into another lock owner
}

type c10Importer struct {
	src   types.Importer
	stubs map[string]*types.Package
}

func (f *c10Importer) Import(path string) (*types.Package, error) {
	first := strings.Split(path, "/")[0]
	if !strings.Contains(first, ".") {
		if p, err := f.src.Import(path); err == nil {
			return p, nil
		}
	}
	if s, ok := f.stubs[path]; ok {
		return s, nil
	}
	parts := strings.Split(path, "/")
	s := types.NewPackage(path, parts[len(parts)-1])
	s.MarkComplete()
	f.stubs[path] = s
	return s, nil
}

func c10Extract(dir string) (*c10Extractor, error) {
	fset := token.NewFileSet()
	build.Default.CgoEnabled = false
	ents, err := os.ReadDir(dir)
	if err != nil {
		return nil, err
	}
	var files []*ast.File
	for _, e := range ents {
		n := e.Name()
		if e.IsDir() || !strings.HasSuffix(n, ".go") || strings.HasSuffix(n, "_test.go") || n == "verif_hooks.go" {
			continue
		}
		f, err := parser.ParseFile(fset, filepath.Join(dir, n), nil, 0)
		if err != nil {
			return nil, err
		}
		if f.Name.Name != "mqtt" {
			continue
		}
		files = append(files, f)
	}
	if len(files) == 0 {
		return nil, fmt.Errorf("no source files of package mqtt in %s", dir)
	}
	info := &types.Info{
		Selections: map[*ast.SelectorExpr]*types.Selection{},
		Types:      map[ast.Expr]types.TypeAndValue{},
		Uses:       map[*ast.Ident]types.Object{},
		Defs:       map[*ast.Ident]types.Object{},
	}
	x := &c10Extractor{fset: fset, info: info, tracked: map[string]bool{}, units: map[string]*c10Unit{},
		declUnit: map[types.Object]string{}, methodsByName: map[string][]string{}, goSeen: map[string]bool{}}
	conf := types.Config{
		Importer: &c10Importer{src: importer.ForCompiler(fset, "source", nil), stubs: map[string]*types.Package{}},
		Error:    func(err error) { x.warnings = append(x.warnings, "type: "+err.Error()) },
	}
	pkg, _ := conf.Check("mqtt", fset, files, info)
	if pkg == nil {
		return nil, fmt.Errorf("type checking produced no package")
	}
	x.pkg = pkg
	// tracked structs
	for _, name := range pkg.Scope().Names() {
		tn, ok := pkg.Scope().Lookup(name).(*types.TypeName)
		if !ok {
			continue
		}
		st, ok := tn.Type().Underlying().(*types.Struct)
		if !ok {
			continue
		}
		if c10ExtraTracked[name] {
			x.tracked[name] = true
		}
		for i := 0; i < st.NumFields(); i++ {
			if c10IsSyncType(st.Field(i).Type()) {
				x.tracked[name] = true
			}
		}
	}
	// units for declarations
	var decls []*ast.FuncDecl
	for _, f := range files {
		for _, d := range f.Decls {
			fd, ok := d.(*ast.FuncDecl)
			if !ok || fd.Body == nil {
				continue
			}
			name := c10DeclName(fd)
			u := x.unit(name)
			if obj := info.Defs[fd.Name]; obj != nil {
				x.declUnit[obj] = name
			}
			if fd.Recv != nil {
				x.methodsByName[fd.Name.Name] = append(x.methodsByName[fd.Name.Name], name)
			}
			if c10IsUserEntry(fd) {
				u.roots["User"] = true
			}
			decls = append(decls, fd)
		}
	}
	sort.Slice(decls, func(i, j int) bool { return c10DeclName(decls[i]) < c10DeclName(decls[j]) })
	for _, fd := range decls {
		w := &c10Walker{x: x, unit: x.units[c10DeclName(fd)], path: c10DeclName(fd), sig: map[string]bool{}, reassigned: c10Reassigned(info, fd.Body)}
		w.aliases = c10ChanAliases(info, fd.Body, w.reassigned)
		w.refAliases = c10RefAliases(info, fd.Body, w.reassigned)
		w.block(fd.Body.List, c10Held{})
	}
	x.propagate()
	return x, nil
}

func (x *c10Extractor) unit(name string) *c10Unit {
	u := x.units[name]
	if u == nil {
		u = &c10Unit{name: name, roots: map[string]bool{}, roles: map[string]bool{}, callees: map[string]bool{}, ifaceCalls: map[string]bool{}}
		x.units[name] = u
	}
	return u
}

func c10DeclName(fd *ast.FuncDecl) string {
	if fd.Recv == nil || len(fd.Recv.List) == 0 {
		return fd.Name.Name
	}
	t := fd.Recv.List[0].Type
	if s, ok := t.(*ast.StarExpr); ok {
		t = s.X
	}
	if id, ok := t.(*ast.Ident); ok {
		return id.Name + "." + fd.Name.Name
	}
	return "?." + fd.Name.Name
}

func c10IsUserEntry(fd *ast.FuncDecl) bool {
	if !ast.IsExported(fd.Name.Name) {
		return false
	}
	if fd.Recv == nil {
		return true
	}
	recv := strings.Split(c10DeclName(fd), ".")[0]
	return !c10InternalTypes[recv]
}

func c10IsSyncType(t types.Type) bool {
	if p, ok := t.(*types.Pointer); ok {
		t = p.Elem()
	}
	n, ok := t.(*types.Named)
	if !ok || n.Obj().Pkg() == nil {
		return false
	}
	return n.Obj().Pkg().Path() == "sync"
}

// variables (receivers, locals) assigned more than once in a function: locks taken through them are not trusted
func c10Reassigned(info *types.Info, body *ast.BlockStmt) map[types.Object]bool {
	count := map[types.Object]int{}
	ast.Inspect(body, func(n ast.Node) bool {
		if s, ok := n.(*ast.AssignStmt); ok {
			for _, l := range s.Lhs {
				if id, ok := l.(*ast.Ident); ok {
					obj := info.Defs[id]
					if obj == nil {
						obj = info.Uses[id]
					}
					if obj != nil {
						count[obj]++
					}
				}
			}
		}
		return true
	})
	out := map[types.Object]bool{}
	for k, v := range count {
		if v > 1 {
			out[k] = true
		}
	}
	return out
}

func c10RootIdent(e ast.Expr) *ast.Ident {
	for {
		switch x := e.(type) {
		case *ast.Ident:
			return x
		case *ast.SelectorExpr:
			e = x.X
		case *ast.IndexExpr:
			e = x.X
		case *ast.ParenExpr:
			e = x.X
		case *ast.StarExpr:
			e = x.X
		default:
			return nil
		}
	}
}

// ---- role propagation ----

func (x *c10Extractor) propagate() {
	for _, u := range x.units {
		for m := range u.ifaceCalls {
			for _, t := range x.methodsByName[m] {
				u.callees[t] = true
			}
		}
		for r := range u.roots {
			u.roles[r] = true
		}
	}
	for changed := true; changed; {
		changed = false
		for _, u := range x.units {
			for c := range u.callees {
				cu := x.units[c]
				if cu == nil {
					continue
				}
				for r := range u.roles {
					if !cu.roles[r] {
						cu.roles[r] = true
						changed = true
					}
				}
			}
		}
	}
	// the send/close pseudo-field matters only for channels that are both sent on and closed
	kinds := map[string]map[string]bool{}
	for _, a := range x.accesses {
		if strings.HasSuffix(a.Field, "<-close()") {
			k := a.Struct + "." + a.Field
			if kinds[k] == nil {
				kinds[k] = map[string]bool{}
			}
			kinds[k][a.Kind] = true
		}
	}
	var kept []*c10Access
	for _, a := range x.accesses {
		if strings.HasSuffix(a.Field, "<-close()") {
			if k := kinds[a.Struct+"."+a.Field]; !(k["R"] && k["W"]) {
				continue
			}
		}
		kept = append(kept, a)
	}
	x.accesses = kept
	for _, a := range x.accesses {
		var rs []string
		for r := range a.unit.roles {
			rs = append(rs, r)
		}
		if len(rs) == 0 {
			rs = []string{"Other"}
		}
		sort.Strings(rs)
		a.Roles = rs
	}
	sort.SliceStable(x.accesses, func(i, j int) bool {
		a, b := x.accesses[i], x.accesses[j]
		if a.Struct != b.Struct {
			return a.Struct < b.Struct
		}
		if a.Field != b.Field {
			return a.Field < b.Field
		}
		return false
	})
}

// ---- walking one unit ----

type c10Held map[string]bool // "base\x00lockfield" -> exclusive?

func (h c10Held) clone() c10Held {
	o := c10Held{}
	for k, v := range h {
		o[k] = v
	}
	return o
}

func c10Meet(a, b c10Held) c10Held {
	o := c10Held{}
	for k, v := range a {
		if w, ok := b[k]; ok {
			o[k] = v && w
		}
	}
	return o
}

type c10Walker struct {
	x          *c10Extractor
	unit       *c10Unit
	path       string // for numbering go statements
	goCount    int
	sig        map[string]bool // receivers for which X.signaller() was called earlier in this unit
	reassigned map[types.Object]bool
	dry        int
	deferLocks c10Held // locks whose unlock has been deferred so far in this unit
	aliases    map[types.Object]*ast.SelectorExpr // locals that are single-assignment copies of a channel field
	refAliases map[types.Object]*ast.SelectorExpr // … of a map/slice/pointer field
}

func (w *c10Walker) block(list []ast.Stmt, h c10Held) (c10Held, bool) {
	term := false
	for _, s := range list {
		h, term = w.stmt(s, h)
	}
	return h, term
}

func c10IsPanic(e ast.Expr) bool {
	c, ok := e.(*ast.CallExpr)
	if !ok {
		return false
	}
	id, ok := c.Fun.(*ast.Ident)
	return ok && id.Name == "panic"
}

// stmt returns the locks held afterwards and whether control cannot fall through.
func (w *c10Walker) stmt(s ast.Stmt, h c10Held) (c10Held, bool) {
	switch s := s.(type) {
	case nil:
		return h, false
	case *ast.ExprStmt:
		if base, lock, op, ok := w.lockOp(s.X); ok {
			key := base + "\x00" + lock
			h = h.clone()
			switch op {
			case "Lock":
				h[key] = true
			case "RLock":
				h[key] = false
			default:
				delete(h, key)
			}
			return h, false
		}
		w.expr(s.X, false, h)
		return h, c10IsPanic(s.X)
	case *ast.DeferStmt:
		if base, lock, op, ok := w.lockOp(s.Call); ok && (op == "Unlock" || op == "RUnlock") {
			// held until the function returns; calls deferred AFTER this one run before the unlock
			key := base + "\x00" + lock
			if excl, held := h[key]; held {
				if w.deferLocks == nil {
					w.deferLocks = c10Held{}
				}
				w.deferLocks[key] = excl
			}
			return h, false
		}
		if fl, ok := s.Call.Fun.(*ast.FuncLit); ok {
			for _, a := range s.Call.Args {
				w.expr(a, false, h)
			}
			w.funcLit(fl)
			return h, false
		}
		// runs at return, in LIFO order: only locks whose unlock was deferred earlier are still held
		w.expr(s.Call, false, w.deferLocks.clone())
		return h, false
	case *ast.GoStmt:
		w.goCount++
		name := fmt.Sprintf("%s/go%d", w.path, w.goCount)
		for _, a := range s.Call.Args {
			w.expr(a, false, h)
		}
		role := c10GoRoles[name]
		declared := role != ""
		if fl, ok := s.Call.Fun.(*ast.FuncLit); ok && role == "" {
			role = c10RoleByBody(fl)
			declared = role != ""
		}
		if role == "" {
			role = "Other"
		}
		w.x.goSeen[name] = declared
		if fl, ok := s.Call.Fun.(*ast.FuncLit); ok {
			w.rootLit(fl, name, role)
		} else {
			// go f(x): f's receiver expression is evaluated here, f runs elsewhere
			if sel, ok := s.Call.Fun.(*ast.SelectorExpr); ok {
				w.expr(sel.X, false, h)
			}
			for _, c := range w.calleeUnits(s.Call.Fun) {
				w.x.unit(c).roots[role] = true
			}
		}
		return h, false
	case *ast.AssignStmt:
		if len(s.Lhs) == len(s.Rhs) {
			for i, l := range s.Lhs {
				lsel, ok := l.(*ast.SelectorExpr)
				if !ok {
					continue
				}
				ls := w.x.info.Selections[lsel]
				if ls == nil || ls.Kind() != types.FieldVal {
					continue
				}
				towner, own := w.x.lockOwner(ls.Recv())
				if !own {
					continue
				}
				if from, base, ok := w.sharedRef(s.Rhs[i]); ok && base != types.ExprString(lsel.X) {
					w.noteShare(from, towner+"."+lsel.Sel.Name, "assignment", lsel.Pos())
				}
			}
		}
		for _, r := range s.Rhs {
			w.expr(r, false, h)
		}
		for _, l := range s.Lhs {
			if s.Tok != token.ASSIGN && s.Tok != token.DEFINE {
				w.expr(l, false, h) // op= reads as well
			}
			w.expr(l, true, h)
		}
		return h, false
	case *ast.IncDecStmt:
		w.expr(s.X, false, h)
		w.expr(s.X, true, h)
		return h, false
	case *ast.SendStmt:
		w.chanOp(s.Chan, "R", s.Arrow, h)
		w.expr(s.Chan, false, h)
		w.expr(s.Value, false, h)
		return h, false
	case *ast.ReturnStmt:
		for _, r := range s.Results {
			w.expr(r, false, h)
		}
		return h, true
	case *ast.BranchStmt:
		return h, s.Tok != token.FALLTHROUGH
	case *ast.BlockStmt:
		return w.block(s.List, h)
	case *ast.LabeledStmt:
		return w.stmt(s.Stmt, h)
	case *ast.DeclStmt:
		if gd, ok := s.Decl.(*ast.GenDecl); ok {
			for _, sp := range gd.Specs {
				if vs, ok := sp.(*ast.ValueSpec); ok {
					for _, v := range vs.Values {
						w.expr(v, false, h)
					}
				}
			}
		}
		return h, false
	case *ast.IfStmt:
		if s.Init != nil {
			h, _ = w.stmt(s.Init, h)
		}
		w.expr(s.Cond, false, h)
		var outs []c10Held
		ht, tt := w.block(s.Body.List, h)
		if !tt {
			outs = append(outs, ht)
		}
		if s.Else != nil {
			he, te := w.stmt(s.Else, h)
			if !te {
				outs = append(outs, he)
			}
		} else {
			outs = append(outs, h)
		}
		return c10Join(outs, h)
	case *ast.ForStmt:
		if s.Init != nil {
			h, _ = w.stmt(s.Init, h)
		}
		entry := w.loopEntry(func(e c10Held) c10Held {
			if s.Cond != nil {
				w.expr(s.Cond, false, e)
			}
			o, _ := w.block(s.Body.List, e)
			if s.Post != nil {
				o, _ = w.stmt(s.Post, o)
			}
			return o
		}, h)
		return entry, false
	case *ast.RangeStmt:
		w.expr(s.X, false, h)
		entry := w.loopEntry(func(e c10Held) c10Held {
			if s.Key != nil {
				w.expr(s.Key, true, e)
			}
			if s.Value != nil {
				w.expr(s.Value, true, e)
			}
			o, _ := w.block(s.Body.List, e)
			return o
		}, h)
		return entry, false
	case *ast.SwitchStmt:
		if s.Init != nil {
			h, _ = w.stmt(s.Init, h)
		}
		if s.Tag != nil {
			w.expr(s.Tag, false, h)
		}
		return w.clauses(s.Body.List, h, false)
	case *ast.TypeSwitchStmt:
		if s.Init != nil {
			h, _ = w.stmt(s.Init, h)
		}
		h, _ = w.stmt(s.Assign, h)
		return w.clauses(s.Body.List, h, false)
	case *ast.SelectStmt:
		return w.clauses(s.Body.List, h, true)
	case *ast.EmptyStmt:
		return h, false
	}
	w.x.warnings = append(w.x.warnings, fmt.Sprintf("unhandled statement %T at %s", s, w.x.fset.Position(s.Pos())))
	return h, false
}

func c10Join(outs []c10Held, dflt c10Held) (c10Held, bool) {
	if len(outs) == 0 {
		return dflt, true
	}
	o := outs[0]
	for _, p := range outs[1:] {
		o = c10Meet(o, p)
	}
	return o, false
}

func (w *c10Walker) clauses(list []ast.Stmt, h c10Held, isSelect bool) (c10Held, bool) {
	var outs []c10Held
	hasDefault := false
	for _, c := range list {
		switch c := c.(type) {
		case *ast.CaseClause:
			if c.List == nil {
				hasDefault = true
			}
			for _, e := range c.List {
				w.expr(e, false, h)
			}
			o, t := w.block(c.Body, h)
			if !t {
				outs = append(outs, o)
			}
		case *ast.CommClause:
			hc := h
			if c.Comm == nil {
				hasDefault = true
			} else {
				hc, _ = w.stmt(c.Comm, h)
			}
			o, t := w.block(c.Body, hc)
			if !t {
				outs = append(outs, o)
			}
		}
	}
	if !hasDefault && !isSelect {
		outs = append(outs, h)
	}
	// break inside a clause leaves the switch/select with the clause's locks: approximated by
	// also joining with the entry state when some clause ended in a branch statement
	return c10Join(outs, h)
}

// loopEntry walks a loop body twice: once dry to learn what is still held at the back edge,
// then for real with the locks held on every entry (first entry and back edge).
func (w *c10Walker) loopEntry(body func(c10Held) c10Held, h c10Held) c10Held {
	w.dry++
	gc := w.goCount
	sigSave := map[string]bool{}
	for k, v := range w.sig {
		sigSave[k] = v
	}
	out := body(h)
	w.dry--
	w.goCount = gc
	w.sig = sigSave
	entry := c10Meet(h, out)
	out2 := body(entry)
	return c10Meet(entry, out2)
}

// lockOp recognises  <base>.<lockfield>.(Lock|RLock|Unlock|RUnlock)()
func (w *c10Walker) lockOp(e ast.Expr) (base, lock, op string, ok bool) {
	c, isCall := e.(*ast.CallExpr)
	if !isCall || len(c.Args) != 0 {
		return
	}
	sel, isSel := c.Fun.(*ast.SelectorExpr)
	if !isSel {
		return
	}
	switch sel.Sel.Name {
	case "Lock", "RLock", "Unlock", "RUnlock":
	default:
		return
	}
	if id, isId := sel.X.(*ast.Ident); isId {
		if v, isVar := w.x.info.Uses[id].(*types.Var); isVar && v.Pkg() == w.x.pkg && v.Parent() == w.x.pkg.Scope() && c10IsSyncType(v.Type()) {
			return "$pkg", id.Name, sel.Sel.Name, true
		}
		return
	}
	inner, isSel2 := sel.X.(*ast.SelectorExpr)
	if !isSel2 {
		return
	}
	tv, has := w.x.info.Types[inner]
	if !has || !c10IsSyncType(tv.Type) {
		return
	}
	return types.ExprString(inner.X), inner.Sel.Name, sel.Sel.Name, true
}

func (w *c10Walker) rootLit(fl *ast.FuncLit, name, role string) {
	u := w.x.unit(name)
	u.roots[role] = true
	// the goroutine/task also calls what its body calls; the creator does not "call" it
	nw := &c10Walker{x: w.x, unit: u, path: name, sig: map[string]bool{}, reassigned: w.reassigned, dry: w.dry, aliases: w.aliases, refAliases: w.refAliases}
	for k, v := range w.sig {
		nw.sig[k] = v // a signaller() check before the go statement also precedes the goroutine
	}
	nw.block(fl.Body.List, c10Held{})
}

// funcLit: a closure that is neither a goroutine nor a task: same unit, no lock credited.
func (w *c10Walker) funcLit(fl *ast.FuncLit) {
	w.block(fl.Body.List, c10Held{})
}

func (w *c10Walker) calleeUnits(fun ast.Expr) []string {
	var id *ast.Ident
	switch f := fun.(type) {
	case *ast.Ident:
		id = f
	case *ast.SelectorExpr:
		id = f.Sel
	default:
		return nil
	}
	obj := w.x.info.Uses[id]
	fn, ok := obj.(*types.Func)
	if !ok {
		return nil
	}
	if name, ok := w.x.declUnit[fn]; ok {
		return []string{name}
	}
	if sig, ok := fn.Type().(*types.Signature); ok && sig.Recv() != nil {
		if _, isIface := sig.Recv().Type().Underlying().(*types.Interface); isIface {
			return w.x.methodsByName[fn.Name()]
		}
	}
	return nil
}

func (w *c10Walker) record(sel *ast.SelectorExpr, owner, kind string, h c10Held) {
	if w.dry > 0 {
		return
	}
	base := types.ExprString(sel.X)
	a := &c10Access{Struct: owner, Field: sel.Sel.Name, Fn: w.unit.name, Kind: kind, Base: base, unit: w.unit,
		Pos: c10Pos(w.x.fset, sel.Sel.Pos()), AfterSig: w.sig[base], Locks: []c10Lock{}}
	trusted := true
	if id := c10RootIdent(sel.X); id != nil {
		if obj := w.x.info.Uses[id]; obj != nil && w.reassigned[obj] {
			trusted = false
		}
	} else {
		trusted = false
	}
	if trusted {
		var ks []string
		for k := range h {
			ks = append(ks, k)
		}
		sort.Strings(ks)
		for _, k := range ks {
			p := strings.SplitN(k, "\x00", 2)
			if p[0] == base {
				a.Locks = append(a.Locks, c10Lock{Field: p[1], Excl: h[k]})
			}
		}
	}
	w.x.accesses = append(w.x.accesses, a)
}


// lockOwner: named struct types of the package that have a sync.Mutex / sync.RWMutex field
func (x *c10Extractor) lockOwner(t types.Type) (string, bool) {
	if p, ok := t.Underlying().(*types.Pointer); ok {
		t = p.Elem()
	}
	n, ok := t.(*types.Named)
	if !ok || n.Obj().Pkg() != x.pkg {
		return "", false
	}
	st, ok := n.Underlying().(*types.Struct)
	if !ok {
		return "", false
	}
	for i := 0; i < st.NumFields(); i++ {
		if c10IsSyncType(st.Field(i).Type()) {
			return n.Obj().Name(), true
		}
	}
	return "", false
}

// sharedRef: is e (directly, or through a single-assignment local copy) a field of a lock-owning
// struct whose value is a map, a slice, or a pointer to something that has no lock of its own?
// Channels and pointers to lock owners may be shared freely (they synchronise themselves).
func (w *c10Walker) sharedRef(e ast.Expr) (from string, base string, ok bool) {
	var sel *ast.SelectorExpr
	switch v := e.(type) {
	case *ast.SelectorExpr:
		sel = v
	case *ast.Ident:
		if obj := w.x.info.Uses[v]; obj != nil {
			sel = w.refAliases[obj]
		}
	case *ast.ParenExpr:
		return w.sharedRef(v.X)
	}
	if sel == nil {
		return "", "", false
	}
	s := w.x.info.Selections[sel]
	if s == nil || s.Kind() != types.FieldVal {
		return "", "", false
	}
	owner, isOwner := w.x.lockOwner(s.Recv())
	if !isOwner {
		return "", "", false
	}
	switch t := s.Type().Underlying().(type) {
	case *types.Map, *types.Slice:
	case *types.Pointer:
		if _, own := w.x.lockOwner(t); own {
			return "", "", false
		}
	default:
		return "", "", false
	}
	return owner + "." + sel.Sel.Name, types.ExprString(sel.X), true
}

func (w *c10Walker) noteShare(from, to, how string, pos token.Pos) {
	if w.dry > 0 {
		return
	}
	w.x.shares = append(w.x.shares, c10Share{From: from, To: to, Fn: w.unit.name, Pos: c10Pos(w.x.fset, pos), How: how})
}

// c10RefAliases: locals assigned exactly once from a field selector of map/slice/pointer type
func c10RefAliases(info *types.Info, body *ast.BlockStmt, reassigned map[types.Object]bool) map[types.Object]*ast.SelectorExpr {
	out := map[types.Object]*ast.SelectorExpr{}
	ast.Inspect(body, func(n ast.Node) bool {
		s, ok := n.(*ast.AssignStmt)
		if !ok || len(s.Lhs) != len(s.Rhs) {
			return true
		}
		for i, l := range s.Lhs {
			id, ok := l.(*ast.Ident)
			if !ok {
				continue
			}
			sel, ok := s.Rhs[i].(*ast.SelectorExpr)
			if !ok {
				continue
			}
			tv, has := info.Types[sel]
			if !has {
				continue
			}
			switch tv.Type.Underlying().(type) {
			case *types.Map, *types.Slice, *types.Pointer:
			default:
				continue
			}
			obj := info.Defs[id]
			if obj == nil {
				obj = info.Uses[id]
			}
			if obj != nil && !reassigned[obj] {
				out[obj] = sel
			}
		}
		return true
	})
	return out
}

// c10ChanAliases: locals assigned exactly once from a channel-typed field selector (chTask := c.chTask)
func c10ChanAliases(info *types.Info, body *ast.BlockStmt, reassigned map[types.Object]bool) map[types.Object]*ast.SelectorExpr {
	out := map[types.Object]*ast.SelectorExpr{}
	ast.Inspect(body, func(n ast.Node) bool {
		s, ok := n.(*ast.AssignStmt)
		if !ok || len(s.Lhs) != len(s.Rhs) {
			return true
		}
		for i, l := range s.Lhs {
			id, ok := l.(*ast.Ident)
			if !ok {
				continue
			}
			sel, ok := s.Rhs[i].(*ast.SelectorExpr)
			if !ok {
				continue
			}
			tv, has := info.Types[sel]
			if !has {
				continue
			}
			if _, isChan := tv.Type.Underlying().(*types.Chan); !isChan {
				continue
			}
			obj := info.Defs[id]
			if obj == nil {
				obj = info.Uses[id]
			}
			if obj != nil && !reassigned[obj] {
				out[obj] = sel
			}
		}
		return true
	})
	return out
}

// pkgVar: the package-level variable of package mqtt an identifier refers to (nil otherwise)
func (w *c10Walker) pkgVar(id *ast.Ident) *types.Var {
	v, ok := w.x.info.Uses[id].(*types.Var)
	if !ok || v.Pkg() != w.x.pkg || v.Parent() != w.x.pkg.Scope() {
		return nil
	}
	return v
}

// recordRaw records an access that is not a plain field selection: package-level state
// (struct "$pkg") and the send/close pseudo-field of a channel field.
func (w *c10Walker) recordRaw(owner, field, kind, base string, trusted bool, pos token.Pos, h c10Held) {
	if w.dry > 0 || (w.unit.name == "init" && owner == "$pkg") {
		return // package init functions run before main: ordered before everything
	}
	a := &c10Access{Struct: owner, Field: field, Fn: w.unit.name, Kind: kind, Base: base, unit: w.unit,
		Pos: c10Pos(w.x.fset, pos), AfterSig: w.sig[base], Locks: []c10Lock{}}
	if trusted {
		var ks []string
		for k := range h {
			ks = append(ks, k)
		}
		sort.Strings(ks)
		for _, k := range ks {
			p := strings.SplitN(k, "\x00", 2)
			if p[0] == base {
				a.Locks = append(a.Locks, c10Lock{Field: p[1], Excl: h[k]})
			}
		}
	}
	w.x.accesses = append(w.x.accesses, a)
}

// chanOp: send (kind R) or close (kind W) on a channel that is a tracked field, directly or
// through a single-assignment local copy. Channel operations synchronise among themselves, but
// a send racing a close is a data race (and a "send on closed channel" panic): the race
// detector's model, send = read, close = write of the channel.
func (w *c10Walker) chanOp(ch ast.Expr, kind string, pos token.Pos, h c10Held) {
	var sel *ast.SelectorExpr
	switch e := ch.(type) {
	case *ast.SelectorExpr:
		sel = e
	case *ast.Ident:
		if obj := w.x.info.Uses[e]; obj != nil {
			sel = w.aliases[obj]
		}
	}
	if sel == nil {
		return
	}
	owner, _ := w.fieldOwner(sel)
	if owner == "" {
		return
	}
	trusted := false
	if id := c10RootIdent(sel.X); id != nil {
		if obj := w.x.info.Uses[id]; obj != nil && !w.reassigned[obj] {
			trusted = true
		}
	}
	w.recordRaw(owner, sel.Sel.Name+"<-close()", kind, types.ExprString(sel.X), trusted, pos, h)
}

func c10Pos(fset *token.FileSet, p token.Pos) string {
	ps := fset.Position(p)
	return fmt.Sprintf("%s:%d:%d", filepath.Base(ps.Filename), ps.Line, ps.Column)
}

// fieldOwner: the tracked struct in which the selected field is declared ("" if not tracked / not a field).
func (w *c10Walker) fieldOwner(sel *ast.SelectorExpr) (owner string, fieldType types.Type) {
	s := w.x.info.Selections[sel]
	if s == nil || s.Kind() != types.FieldVal {
		return "", nil
	}
	t := s.Recv()
	idx := s.Index()
	for k, i := range idx {
		if p, ok := t.Underlying().(*types.Pointer); ok {
			t = p.Elem()
		}
		named, _ := t.(*types.Named)
		st, ok := t.Underlying().(*types.Struct)
		if !ok {
			return "", nil
		}
		f := st.Field(i)
		if k == len(idx)-1 {
			if named == nil || named.Obj().Pkg() != w.x.pkg || !w.x.tracked[named.Obj().Name()] {
				return "", f.Type()
			}
			return named.Obj().Name(), f.Type()
		}
		t = f.Type()
	}
	return "", nil
}

func c10IsAtomicCall(info *types.Info, c *ast.CallExpr) bool {
	sel, ok := c.Fun.(*ast.SelectorExpr)
	if !ok {
		return false
	}
	id, ok := sel.X.(*ast.Ident)
	if !ok {
		return false
	}
	pn, ok := info.Uses[id].(*types.PkgName)
	return ok && pn.Imported().Path() == "sync/atomic"
}

// expr walks an expression; write = the expression is being stored into (or its referent mutated).
func (w *c10Walker) expr(e ast.Expr, write bool, h c10Held) {
	switch e := e.(type) {
	case nil:
	case *ast.SelectorExpr:
		owner, ft := w.fieldOwner(e)
		if ft != nil && c10IsSyncType(ft) {
			w.expr(e.X, false, h)
			return
		}
		if owner != "" {
			k := "R"
			if write {
				k = "W"
			}
			w.record(e, owner, k, h)
		}
		// writing x.f.g where f is a struct VALUE mutates x.f; through a pointer it only reads x.f
		inner := false
		if write && ft != nil {
			if tv, ok := w.x.info.Types[e.X]; ok {
				if _, isPtr := tv.Type.Underlying().(*types.Pointer); !isPtr {
					if _, isSel := e.X.(*ast.SelectorExpr); isSel {
						inner = true
					}
				}
			}
		}
		w.expr(e.X, inner, h)
	case *ast.Ident:
		if v := w.pkgVar(e); v != nil && !c10IsSyncType(v.Type()) {
			k := "R"
			if write {
				k = "W"
			}
			w.recordRaw("$pkg", v.Name(), k, "$pkg", true, e.Pos(), h)
		}
	case *ast.BasicLit:
	case *ast.ParenExpr:
		w.expr(e.X, write, h)
	case *ast.StarExpr:
		w.expr(e.X, write, h)
	case *ast.IndexExpr:
		w.expr(e.X, write, h) // element store mutates the map/slice the field refers to
		w.expr(e.Index, false, h)
	case *ast.SliceExpr:
		w.expr(e.X, write, h)
		w.expr(e.Low, false, h)
		w.expr(e.High, false, h)
		w.expr(e.Max, false, h)
	case *ast.UnaryExpr:
		if e.Op == token.AND {
			w.expr(e.X, true, h) // address taken: assume it is written through
			return
		}
		w.expr(e.X, false, h)
	case *ast.BinaryExpr:
		w.expr(e.X, false, h)
		w.expr(e.Y, false, h)
	case *ast.KeyValueExpr:
		w.expr(e.Value, false, h)
	case *ast.CompositeLit:
		if tv, ok := w.x.info.Types[e]; ok {
			if towner, own := w.x.lockOwner(tv.Type); own {
				for _, el := range e.Elts {
					if kv, ok := el.(*ast.KeyValueExpr); ok {
						if from, _, ok := w.sharedRef(kv.Value); ok {
							key := types.ExprString(kv.Key)
							w.noteShare(from, towner+"."+key, "struct literal", kv.Pos())
						}
					}
				}
			}
		}
		for _, el := range e.Elts {
			w.expr(el, false, h)
		}
	case *ast.TypeAssertExpr:
		w.expr(e.X, false, h)
	case *ast.FuncLit:
		w.funcLit(e)
	case *ast.CallExpr:
		w.call(e, h)
	case *ast.ArrayType, *ast.MapType, *ast.ChanType, *ast.FuncType, *ast.InterfaceType, *ast.StructType, *ast.Ellipsis:
	default:
		w.x.warnings = append(w.x.warnings, fmt.Sprintf("unhandled expression %T at %s", e, w.x.fset.Position(e.Pos())))
	}
}

func (w *c10Walker) call(c *ast.CallExpr, h c10Held) {
	// conversions and builtins
	if id, ok := c.Fun.(*ast.Ident); ok {
		switch id.Name {
		case "close":
			if len(c.Args) == 1 {
				w.chanOp(c.Args[0], "W", c.Pos(), h)
			}
		case "delete":
			if len(c.Args) == 2 {
				w.expr(c.Args[0], false, h)
				w.expr(c.Args[0], true, h)
				w.expr(c.Args[1], false, h)
				return
			}
		}
	}
	if c10IsAtomicCall(w.x.info, c) {
		for _, a := range c.Args {
			if u, ok := a.(*ast.UnaryExpr); ok && u.Op == token.AND {
				if sel, ok := u.X.(*ast.SelectorExpr); ok {
					if owner, _ := w.fieldOwner(sel); owner != "" {
						w.record(sel, owner, "A", h)
						w.expr(sel.X, false, h)
						continue
					}
				}
			}
			w.expr(a, false, h)
		}
		return
	}
	// task sinks: literals passed to pushTask run on the task goroutine
	sinkName := ""
	switch f := c.Fun.(type) {
	case *ast.SelectorExpr:
		sinkName = f.Sel.Name
		// X.signaller() publishes the init-once fields of X to this unit
		if f.Sel.Name == "signaller" && w.dry == 0 {
			w.sig[types.ExprString(f.X)] = true
		}
		// calling the transport's Write is a write on the pseudo-field Transport.Write()
		if f.Sel.Name == "Write" {
			if in, ok := f.X.(*ast.SelectorExpr); ok && in.Sel.Name == "Transport" {
				if owner, _ := w.fieldOwner(in); owner != "" {
					w.recordPseudo(in, owner, "Transport.Write()", h)
				}
			}
		}
	case *ast.Ident:
		sinkName = f.Name
	}
	for _, u := range w.calleeUnits(c.Fun) {
		w.unit.callees[u] = true
	}
	if sel, ok := c.Fun.(*ast.SelectorExpr); ok {
		if s := w.x.info.Selections[sel]; s != nil && s.Kind() == types.MethodVal {
			if _, isIface := s.Recv().Underlying().(*types.Interface); isIface {
				w.unit.ifaceCalls[sel.Sel.Name] = true
			}
		}
	}
	if sel, ok := c.Fun.(*ast.SelectorExpr); ok {
		if id, ok := sel.X.(*ast.Ident); ok {
			if v := w.pkgVar(id); v != nil && !c10IsSyncType(v.Type()) {
				if _, isIface := v.Type().Underlying().(*types.Interface); !isIface {
					if s := w.x.info.Selections[sel]; s != nil && s.Kind() == types.MethodVal {
						// e.g. a package-level *rand.Rand: its methods mutate shared state
						w.recordRaw("$pkg", v.Name(), "W", "$pkg", true, sel.Sel.Pos(), h)
					}
				}
			}
		}
	}
	w.expr(c.Fun, false, h)
	taskN := 0
	for _, a := range c.Args {
		if fl, ok := a.(*ast.FuncLit); ok && c10TaskSinks[sinkName] {
			taskN++
			w.rootLit(fl, fmt.Sprintf("%s/task%d", w.path, taskN), "Task")
			continue
		}
		w.expr(a, false, h)
	}
}

func (w *c10Walker) recordPseudo(sel *ast.SelectorExpr, owner, field string, h c10Held) {
	if w.dry > 0 {
		return
	}
	n := len(w.x.accesses)
	w.record(sel, owner, "W", h)
	if len(w.x.accesses) > n {
		w.x.accesses[len(w.x.accesses)-1].Field = field
	}
}

// ---- checks of the hand-written layout facts against the source ----

func (x *c10Extractor) checkFacts() []string {
	var bad []string
	for name := range c10GoRoles {
		if _, seen := x.goSeen[name]; !seen {
			bad = append(bad, "declared goroutine "+name+" not found in the source")
		}
	}
	for name, declared := range x.goSeen {
		// an undeclared goroutine is not an error: it runs as role Other (many instances,
		// concurrent with everything), which can only add alarms
		if !declared && !strings.HasPrefix(name, "ServeAsync.Serve/") {
			x.warnings = append(x.warnings, "goroutine "+name+" has no declared role (treated as Other)")
		}
	}
	for t := range c10InternalTypes {
		if ast.IsExported(t) {
			bad = append(bad, "internal type "+t+" is exported")
		}
	}
	sort.Strings(bad)
	return bad
}

// ---- Coq printing ----

func c10CoqString(s string) string { return "\"" + strings.ReplaceAll(s, "\"", "\"\"") + "\"" }

func c10CoqRole(r string) string {
	switch r {
	case "User", "Reader", "Task", "Reconn", "KeepAlive":
		return "R" + r
	}
	return "ROther"
}

func (a *c10Access) coq() string {
	var ls, rs []string
	for _, l := range a.Locks {
		ls = append(ls, "("+c10CoqString(l.Field)+","+cBool(l.Excl)+")")
	}
	for _, r := range a.Roles {
		rs = append(rs, c10CoqRole(r))
	}
	k := map[string]string{"R": "KRead", "W": "KWrite", "A": "KAtomic"}[a.Kind]
	return fmt.Sprintf("mkAcc %s %s %s %s %s %s %s", c10CoqString(a.Struct), c10CoqString(a.Field), c10CoqString(a.Fn), k,
		cListInline(ls), cListInline(rs), cBool(a.AfterSig))
}
