package main

// C09 — reconnect lifecycle. Drives the real ReconnectClient (NewReconnectClient + a gated
// in-memory Dialer handing out BaseClients over memConn) through outcome scripts, with a
// Disconnect call / a context cancellation injected at a chosen iteration and phase, and records
// the event trace (dials, transports opened/closed, first packet of every connection, stop events,
// Disconnect returning) plus monotonic time between each failure point and the next dial.
// The traces are compared with the model (Reconnect.v) and judged by the property predicates
// inside Coq (CheckC09.v).

import (
	"context"
	"errors"
	"fmt"
	"math/rand"
	"os"
	"sort"
	"strconv"
	"strings"
	"sync"
	"time"

	mqtt "github.com/at-wat/mqtt-go"
)

func init() { register("C09", runC09) }

// ---------- scenario description ----------

const (
	c09DialErr = iota
	c09Refused
	c09NoConnack
	c09PeerClosed
	c09EndPeer
	c09EndProto
	c09EndKeepAlive
	c09EndGraceful
	c09WriteFail // transport dead at CONNECT: Transport.Write returns an error
	c09EndRetry  // connected, healthy; a request gets no acknowledgement within ResponseTimeout: the RetryClient closes the client
)

const (
	c09PDial = iota
	c09PConnect
	c09PConnected
	c09PWait
)

var c09PhaseName = []string{"PDial", "PConnect", "PConnected", "PWait"}

type c09Out struct {
	Kind int
	Code byte // CONNACK return code for c09Refused
}

func (o c09Out) connected() bool {
	return (o.Kind >= c09EndPeer && o.Kind <= c09EndGraceful) || o.Kind == c09EndRetry
}
func (o c09Out) dialOK() bool { return o.Kind != c09DialErr }

func (o c09Out) coq() string {
	switch o.Kind {
	case c09DialErr:
		return "ODialErr"
	case c09Refused:
		return fmt.Sprintf("OConnFail (CRefused %d)", o.Code)
	case c09NoConnack:
		return "OConnFail CNoConnack"
	case c09PeerClosed:
		return "OConnFail CPeerClosed"
	case c09WriteFail:
		return "OConnFail CWriteFail"
	case c09EndRetry:
		return "OConnected ERetryClose"
	case c09EndPeer:
		return "OConnected EPeerClose"
	case c09EndProto:
		return "OConnected EProtoErr"
	case c09EndKeepAlive:
		return "OConnected EKeepAlive"
	}
	return "OConnected EGraceful"
}

func (o c09Out) desc() string {
	switch o.Kind {
	case c09DialErr:
		return "dial-error"
	case c09Refused:
		return fmt.Sprintf("connack-refused(%d)", o.Code)
	case c09NoConnack:
		return "no-connack-until-timeout"
	case c09PeerClosed:
		return "peer-closes-during-connect"
	case c09WriteFail:
		return "write-of-CONNECT-fails(transport-dead)"
	case c09EndRetry:
		return "connected-then-request-unacknowledged(retry-client-closes)"
	case c09EndPeer:
		return "connected-then-peer-close"
	case c09EndProto:
		return "connected-then-malformed-packet"
	case c09EndKeepAlive:
		return "connected-then-silent-peer(keep-alive)"
	}
	return "connected-then-graceful-end"
}

type c09Stop struct {
	Iter  int
	Phase int
}

type c09Scn struct {
	Script []c09Out
	Disc   *c09Stop
	Cancel *c09Stop
	Post   bool
	Base   time.Duration
	Max    time.Duration
	Preset int
	UB     bool // upper bounds of the waits are also checked (serial family)
	// NoTimeout: no connect timeout is configured (ReconnectOptions.Timeout stays 0) although the
	// script withholds a CONNACK: only a Disconnect / an effective cancellation ends that handshake.
	NoTimeout bool
	// Race: Disconnect lands before the CONNACK of a handshake that the peer accepts. Disconnect
	// cancels the handshake (reconnclient.go:92-100) while the CONNACK is being delivered; Go's
	// select takes either. The harness makes both ready and records which one won: that is the
	// oracle's outcome of this iteration (accepted, or ended without CONNACK).
	Race bool
	// IgnoreCtx: the Dialer does not observe its context while a dial is in progress (like the shipped
	// NoContextDialer): a dial during which the Connect context is cancelled still succeeds.
	IgnoreCtx bool
}

// timeout: WithTimeout is passed (needed for "no CONNACK until the timeout" and for keep-alive)
func (s *c09Scn) timeout() bool {
	return !s.NoTimeout && (s.has(c09NoConnack) || s.has(c09EndKeepAlive))
}

func (s *c09Scn) desc() map[string]interface{} {
	var sc []string
	for _, o := range s.Script {
		sc = append(sc, o.desc())
	}
	d := map[string]interface{}{"script": sc, "base_ms": s.Base.Milliseconds(), "max_ms": s.Max.Milliseconds(),
		"connect_preset": s.Preset, "connect_timeout_configured": s.timeout()}
	if s.Disc != nil {
		d["disconnect_at"] = fmt.Sprintf("iteration %d, %s", s.Disc.Iter, c09PhaseName[s.Disc.Phase])
	}
	if s.Cancel != nil {
		d["cancel_at"] = fmt.Sprintf("iteration %d, %s", s.Cancel.Iter, c09PhaseName[s.Cancel.Phase])
	}
	if s.Post {
		d["disconnect_after_exit"] = true
	}
	if s.IgnoreCtx {
		d["dialer_ignores_its_context"] = true
	}
	return d
}

func (s *c09Scn) coq() string {
	var sc []string
	for _, o := range s.Script {
		sc = append(sc, o.coq())
	}
	disc, cancel := "None", "None"
	if s.Disc != nil {
		disc = fmt.Sprintf("(Some (%d%%nat, %s, true))", s.Disc.Iter, c09PhaseName[s.Disc.Phase])
	}
	if s.Cancel != nil {
		cancel = fmt.Sprintf("(Some (%d%%nat, %s))", s.Cancel.Iter, c09PhaseName[s.Cancel.Phase])
	}
	return fmt.Sprintf("(mkScenario %s %s %s %s)", cListInline(sc), disc, cancel, cBool(s.Post))
}

func (s *c09Scn) key() string {
	return s.coq() + fmt.Sprint(s.Base, s.Max, s.Preset, s.UB, s.NoTimeout, s.IgnoreCtx)
}

// spec of the waits on the Go side (only used to place a stop inside a wait and to size
// observation windows; the judgement is made in Coq)
func (s *c09Scn) specWait(i int) time.Duration {
	j := 0
	for n := 0; n <= i && n < len(s.Script); n++ {
		if s.Script[n].connected() {
			j = 0
		}
		if n == i {
			break
		}
		j++
	}
	w := s.Base
	for x := 0; x < j; x++ {
		w *= 2
		if w > s.Max {
			w = s.Max
		}
	}
	return w
}

func (s *c09Scn) has(kind int) bool {
	for _, o := range s.Script {
		if o.Kind == kind {
			return true
		}
	}
	return false
}

// ---------- CONNECT presets (client id + options), with their Coq rendering ----------

type c09Preset struct {
	cid  string
	opts []mqtt.ConnectOption
	coq  string
}

const c09NPresets = 10

func c09Presets() []c09Preset {
	will := &mqtt.Message{Topic: "will/t", Payload: []byte("gone"), QoS: mqtt.QoS1, Retain: true}
	mk := func(level int, clean bool, ka int, cid, user, pass, will string) string {
		return fmt.Sprintf("{| c_level := %d; c_clean := %s; c_keepalive := %d; c_client_id := %s; c_user := %s; c_pass := %s; c_will := %s |}",
			level, cBool(clean), ka, cStr(cid), cStr(user), cStr(pass), will)
	}
	return []c09Preset{
		{"c09", nil, mk(4, false, 0, "c09", "", "", "None")},
		{"reconn/1", []mqtt.ConnectOption{mqtt.WithCleanSession(true), mqtt.WithKeepAlive(30)},
			mk(4, true, 30, "reconn/1", "", "", "None")},
		{"u", []mqtt.ConnectOption{mqtt.WithUserNamePassword("user", "pw"), mqtt.WithWill(will)},
			mk(4, false, 0, "u", "user", "pw",
				fmt.Sprintf("(Some {| w_topic := %s; w_payload := %s; w_qos := 1; w_retain := true |})", cStr("will/t"), cStr("gone")))},
		{"", []mqtt.ConnectOption{mqtt.WithCleanSession(true), mqtt.WithKeepAlive(600), mqtt.WithProtocolLevel(mqtt.ProtocolLevel3)},
			mk(3, true, 600, "", "", "", "None")},
		// odd client ids; the CONNECT of every connection is compared with the caller's arguments
		{"", nil, mk(4, false, 0, "", "", "", "None")}, // empty id without CleanSession
		{"", []mqtt.ConnectOption{mqtt.WithCleanSession(true)}, mk(4, true, 0, "", "", "", "None")},
		{"x", nil, mk(4, false, 0, "x", "", "", "None")},
		{"abcdefghijklmnopqrstuvw", nil, mk(4, false, 0, "abcdefghijklmnopqrstuvw", "", "", "None")}, // 23 characters
		{"a-client-identifier-longer-than-23-characters", []mqtt.ConnectOption{mqtt.WithCleanSession(true)},
			mk(4, true, 0, "a-client-identifier-longer-than-23-characters", "", "", "None")},
		{"клиент-é-客", []mqtt.ConnectOption{mqtt.WithUserNamePassword("ü", "")}, mk(4, false, 0, "клиент-é-客", "ü", "", "None")},
	}
}

// ---------- one run ----------

type c09Ev struct {
	Kind string // dial open pkt close stop-disc stop-cancel ret panic stuck
	K    int
	Pkt  []byte
}

type c09Conn struct {
	*memConn
	run    *c09Run
	iter   int
	k      int
	once   sync.Once
	closed chan struct{} // first Close call
}

func (c *c09Conn) Close() error {
	c.once.Do(func() {
		c.run.logEv(c09Ev{Kind: "close", K: c.k})
		close(c.closed)
		c.run.failurePoint(c.iter)
	})
	return c.memConn.Close()
}

type c09Cli struct {
	cli     *mqtt.BaseClient
	conn    *c09Conn
	disconn chan struct{} // ConnState reported StateDisconnected
	dOnce   sync.Once
	aOnce   sync.Once
}

type c09Run struct {
	scn    *c09Scn
	cli    mqtt.ReconnectClient
	rc     *mqtt.RetryClient
	cancel context.CancelFunc

	mu        sync.Mutex
	log       []c09Ev
	nDial     int
	nOpen     int
	dialT     []time.Time
	refT      map[int]time.Time
	stopT     map[string]time.Time // when a stop was known to have landed
	clis      []*c09Cli
	silent    map[int]bool
	active    map[int]bool // ConnState reported StateActive: Connect on transport k was accepted
	ackLeft   map[int]int  // transport k: requests still to be acknowledged before the broker goes silent (-1: all)
	discAsked bool         // the harness has started a ReconnectClient.Disconnect call
	unasked   int          // DISCONNECT packets written although the application had not called Disconnect
	nWrites   map[int]int
	notes     []string

	discOnce sync.Once
	discDone chan struct{}
	fpOnce   map[int]bool
}

var errC09Dial = errors.New("c09: scripted dial error")
var errC09End = errors.New("c09: script exhausted")
var errC09Write = errors.New("c09: transport dead, write fails")

func (r *c09Run) logEv(e c09Ev) {
	r.mu.Lock()
	r.log = append(r.log, e)
	r.mu.Unlock()
}

func (r *c09Run) note(s string) {
	r.mu.Lock()
	r.notes = append(r.notes, s)
	r.mu.Unlock()
}

func (r *c09Run) lands(st *c09Stop, i, ph int) bool {
	return st != nil && st.Iter == i && st.Phase == ph
}

func (r *c09Run) doCancel() {
	r.cancel()
	r.mu.Lock()
	r.stopT["stop-cancel"] = time.Now()
	r.mu.Unlock()
	r.logEv(c09Ev{Kind: "stop-cancel"})
}

// landDisconnect calls ReconnectClient.Disconnect on its own goroutine and returns once the call
// has visibly landed (RetryClient refuses new tasks: that happens after close(c.disconnected)),
// or the call has finished / panicked, or 5 s have passed.
func (r *c09Run) landDisconnect() {
	r.discOnce.Do(func() {
		r.mu.Lock()
		r.discAsked = true
		r.mu.Unlock()
		finished := make(chan struct{})
		logged := make(chan struct{})
		go func() {
			defer close(r.discDone)
			res := "ret"
			func() {
				defer func() {
					if p := recover(); p != nil {
						res = "panic"
						r.note(fmt.Sprint("Disconnect panicked: ", p))
					}
				}()
				ctx, cancel := ctxTimeout(5 * time.Second)
				defer cancel()
				err := r.cli.Disconnect(ctx)
				if ctx.Err() != nil {
					res = "stuck"
					r.note(fmt.Sprint("Disconnect did not return within 5 s: ", err))
				}
			}()
			close(finished)
			<-logged
			r.logEv(c09Ev{Kind: res})
		}()
		deadline := time.Now().Add(5 * time.Second)
	poll:
		for {
			if err := r.rc.VerifBarrier(make(chan struct{})); err == mqtt.ErrClosedClient {
				break
			}
			select {
			case <-finished:
				break poll
			default:
			}
			if time.Now().After(deadline) {
				r.note("Disconnect did not land within 5 s")
				break
			}
			time.Sleep(200 * time.Microsecond)
		}
		r.mu.Lock()
		r.stopT["stop-disc"] = time.Now()
		r.mu.Unlock()
		r.logEv(c09Ev{Kind: "stop-disc"})
		close(logged)
	})
}

func (r *c09Run) discCalled() bool {
	select {
	case <-r.discDone:
		return true
	default:
	}
	r.mu.Lock()
	defer r.mu.Unlock()
	for _, e := range r.log {
		if e.Kind == "stop-disc" {
			return true
		}
	}
	return false
}

// successBefore: some iteration <= i of the script is an established connection
func (r *c09Run) successUpTo(i int) bool {
	for n := 0; n <= i && n < len(r.scn.Script); n++ {
		if r.scn.Script[n].connected() {
			return true
		}
	}
	return false
}

func (r *c09Run) settle() time.Duration { return r.scn.Max + r.scn.Max/2 + 20*time.Millisecond }

// failurePoint: iteration i has reached the point after which the loop goes to its wait select
// (dial error about to be returned / first Close of the transport). Never blocks.
func (r *c09Run) failurePoint(i int) {
	now := time.Now()
	r.mu.Lock()
	if r.fpOnce[i] {
		r.mu.Unlock()
		return
	}
	r.fpOnce[i] = true
	r.refT[i] = now
	r.mu.Unlock()
	s := r.scn
	if i < len(s.Script)-1 {
		// nothing stops the client before its last scripted iteration: a dial must follow this end
		go func() {
			deadline := time.Now().Add(s.specWait(i) + 5*time.Second)
			for time.Now().Before(deadline) {
				r.mu.Lock()
				n := r.nDial
				r.mu.Unlock()
				if n > i+1 || r.discCalled() {
					return
				}
				time.Sleep(2 * time.Millisecond)
			}
			r.logEv(c09Ev{Kind: "no-redial"})
			r.note(fmt.Sprintf("no dial within wait + 5 s after iteration %d ended", i))
			r.landDisconnect()
		}()
	}
	go func() {
		slept := false
		nap := func() {
			if !slept {
				time.Sleep(s.specWait(i) / 4)
				slept = true
			}
		}
		if r.lands(s.Cancel, i, c09PWait) {
			nap()
			r.doCancel()
		}
		if r.lands(s.Disc, i, c09PWait) {
			nap()
			r.landDisconnect()
			return
		}
		if !s.Post || i >= len(s.Script) {
			return
		}
		// the loop is expected to exit here without a Disconnect: watch for further dials during
		// an observation window, then call Disconnect to see that it returns
		cancelled := s.Cancel != nil && (s.Cancel.Iter < i || (s.Cancel.Iter == i)) && !r.successUpTo(i)
		graceful := s.Script[i].Kind == c09EndGraceful && !(s.Disc != nil && s.Disc.Iter <= i)
		if cancelled || graceful {
			time.Sleep(r.settle())
			r.landDisconnect()
		}
	}()
}

func (r *c09Run) onActive(i int, c *c09Cli) {
	s := r.scn
	if r.lands(s.Cancel, i, c09PConnected) {
		r.doCancel()
	}
	if r.lands(s.Disc, i, c09PConnected) {
		r.landDisconnect()
		return
	}
	if r.discCalled() {
		return
	}
	switch s.Script[i].Kind {
	case c09EndPeer:
		c.conn.finish()
	case c09EndProto:
		c.conn.send([]byte{0xF0, 0x00})
	case c09EndKeepAlive:
		r.mu.Lock()
		r.silent[c.conn.k] = true
		r.mu.Unlock()
	case c09EndGraceful:
		ctx, cancel := ctxTimeout(5 * time.Second)
		defer cancel()
		if err := c.cli.Disconnect(ctx); err != nil {
			r.note(fmt.Sprint("BaseClient.Disconnect: ", err))
		}
	case c09EndRetry:
		// the connection stays healthy; the application issues requests through the reconnecting
		// client, the broker acknowledges the first few and is silent on the next one
		acked := i % 3
		r.mu.Lock()
		r.ackLeft[c.conn.k] = acked
		r.mu.Unlock()
		ctx := context.Background()
		for q := 0; q <= acked; q++ {
			var err error
			switch (i + q + len(s.Script)) % 3 {
			case 0:
				err = r.cli.Publish(ctx, &mqtt.Message{Topic: "c09/q1", QoS: mqtt.QoS1, Payload: []byte{byte(i), byte(q)}})
			case 1:
				err = r.cli.Publish(ctx, &mqtt.Message{Topic: "c09/q2", QoS: mqtt.QoS2, Payload: []byte{byte(i), byte(q)}})
			default:
				_, err = r.cli.Subscribe(ctx, mqtt.Subscription{Topic: "c09/sub", QoS: mqtt.QoS1})
			}
			if err != nil {
				r.note(fmt.Sprint("request: ", err))
			}
		}
	}
}

// c09Ack answers a request packet as a conforming broker would (nil: no answer to this packet type).
func c09Ack(pkt []byte) []byte {
	// skip the fixed header
	p := 1
	for p < len(pkt) && pkt[p]&0x80 != 0 {
		p++
	}
	p++
	body := pkt[min(p, len(pkt)):]
	switch pkt[0] & 0xF0 {
	case 0x30: // PUBLISH
		qos := (pkt[0] >> 1) & 3
		if qos == 0 || len(body) < 2 {
			return nil
		}
		tl := int(body[0])<<8 | int(body[1])
		if len(body) < 2+tl+2 {
			return nil
		}
		id := body[2+tl : 2+tl+2]
		if qos == 1 {
			return []byte{0x40, 2, id[0], id[1]}
		}
		return []byte{0x50, 2, id[0], id[1]}
	case 0x60: // PUBREL
		if len(body) >= 2 {
			return []byte{0x70, 2, body[0], body[1]}
		}
	case 0x80: // SUBSCRIBE, one filter
		if len(body) >= 2 {
			return []byte{0x90, 3, body[0], body[1], 1}
		}
	case 0xA0: // UNSUBSCRIBE
		if len(body) >= 2 {
			return []byte{0xB0, 2, body[0], body[1]}
		}
	}
	return nil
}

func (r *c09Run) dial(ctx context.Context) (*mqtt.BaseClient, error) {
	now := time.Now()
	r.mu.Lock()
	i := r.nDial
	r.nDial++
	r.dialT = append(r.dialT, now)
	// the Dialer honours its context, as net.Dialer based ones do: a finished context fails the dial
	dead := ctx.Err() != nil
	if dead {
		r.log = append(r.log, c09Ev{Kind: "dial-dead"})
	} else {
		r.log = append(r.log, c09Ev{Kind: "dial"})
	}
	var last *c09Cli
	if len(r.clis) > 0 {
		last = r.clis[len(r.clis)-1]
	}
	r.mu.Unlock()
	s := r.scn
	if i >= len(s.Script) {
		// more dials than the script foresees: end the scenario
		go r.landDisconnect()
		return nil, errC09End
	}
	if dead {
		r.failurePoint(i)
		return nil, ctx.Err()
	}
	if r.lands(s.Cancel, i, c09PDial) {
		r.doCancel()
	}
	if r.lands(s.Disc, i, c09PDial) {
		r.landDisconnect()
		if last != nil {
			// schedule "task first": the queued Disconnect task is executed on the previous client
			select {
			case <-last.disconn:
			case <-time.After(5 * time.Second):
				r.note("Disconnect task did not run on the previous client within 5 s")
			}
		}
	}
	o := s.Script[i]
	if err := ctx.Err(); err != nil && !s.IgnoreCtx {
		// the context ended while the dial was in progress
		r.failurePoint(i)
		return nil, err
	}
	if !o.dialOK() {
		r.failurePoint(i)
		return nil, errC09Dial
	}
	r.mu.Lock()
	k := r.nOpen
	r.nOpen++
	r.mu.Unlock()
	c := &c09Cli{disconn: make(chan struct{})}
	conn := &c09Conn{run: r, iter: i, k: k, closed: make(chan struct{})}
	conn.memConn = newMemConn(k, func(mc *memConn, pkt []byte) error { return r.onWrite(i, c, pkt) })
	c.conn = conn
	c.cli = &mqtt.BaseClient{Transport: conn}
	c.cli.ConnState = func(st mqtt.ConnState, err error) {
		switch st {
		case mqtt.StateActive:
			c.aOnce.Do(func() {
				r.mu.Lock()
				r.active[k] = true
				r.mu.Unlock()
				go r.onActive(i, c)
			})
		case mqtt.StateDisconnected:
			c.dOnce.Do(func() { close(c.disconn) })
		}
	}
	r.mu.Lock()
	r.clis = append(r.clis, c)
	r.log = append(r.log, c09Ev{Kind: "open", K: k})
	r.mu.Unlock()
	return c.cli, nil
}

func (r *c09Run) onWrite(i int, c *c09Cli, pkt []byte) error {
	k := c.conn.k
	typ := pkt[0] & 0xF0
	r.mu.Lock()
	n := r.nWrites[k]
	r.nWrites[k]++
	silent := r.silent[k]
	if n == 0 || typ == 0x10 {
		r.log = append(r.log, c09Ev{Kind: "pkt", K: k, Pkt: append([]byte{}, pkt...)})
	}
	r.mu.Unlock()
	s := r.scn
	switch {
	case typ == 0x10 && n == 0:
		if r.lands(s.Cancel, i, c09PConnect) {
			r.doCancel()
		}
		if r.lands(s.Disc, i, c09PConnect) {
			r.landDisconnect()
		}
		o := s.Script[i]
		switch o.Kind {
		case c09Refused:
			c.conn.send([]byte{0x20, 2, 0, o.Code})
		case c09NoConnack:
		case c09PeerClosed:
			c.conn.finish()
		case c09WriteFail:
			// nothing was written (io.Writer contract); the transport stays open until the client closes it
			return errC09Write
		default:
			c.conn.send(connackOK)
			if s.Race && r.discCalled() {
				// let the reader take the CONNACK before Write returns, so that both the CONNACK and the
				// cancelled context are ready when Connect reaches its select
				deadline := time.Now().Add(time.Second)
				for time.Now().Before(deadline) {
					c.conn.memConn.mu.Lock()
					n := len(c.conn.memConn.in)
					c.conn.memConn.mu.Unlock()
					if n == 0 {
						break
					}
					time.Sleep(100 * time.Microsecond)
				}
				time.Sleep(500 * time.Microsecond)
			}
		}
	case typ == 0xC0:
		if !silent {
			c.conn.send([]byte{0xD0, 0})
		}
	case typ == 0xE0:
		r.mu.Lock()
		asked := r.discAsked
		r.mu.Unlock()
		if !asked && s.Script[i].Kind != c09EndGraceful {
			r.mu.Lock()
			r.unasked++
			r.mu.Unlock()
			r.note(fmt.Sprintf("DISCONNECT written on transport %d although the application had not called Disconnect", k))
		}
	default:
		if ack := c09Ack(pkt); ack != nil {
			r.mu.Lock()
			left, limited := r.ackLeft[k]
			if limited && left > 0 && typ != 0x60 {
				r.ackLeft[k] = left - 1
			}
			r.mu.Unlock()
			// PUBREL of an already acknowledged exchange is always answered
			if !limited || left > 0 || typ == 0x60 {
				c.conn.send(ack)
			}
		}
	}
	return nil
}

type c09Obs struct {
	lastAccepted bool // Connect on the last transport handed out was accepted
	unasked      int
	refT         map[int]time.Time
	stopT        map[string]time.Time
	log          []c09Ev
	elapsed      []int64 // ns between the failure point of iteration i-1 and the i-th dial (i >= 1); -1 unknown
	notes        []string
	hung         bool
}

var c09StressSpin = func() int {
	if v, err := strconv.Atoi(os.Getenv("C09_STRESS_SPIN")); err == nil && v > 0 {
		return v
	}
	return 4000
}()
var c09Sink int

const c09Timeout = 400 * time.Millisecond
const c09RespTimeout = 300 * time.Millisecond // RetryClient.ResponseTimeout in scenarios with an unacknowledged request // WithTimeout when the script needs CONNACK / PINGRESP timeouts
const c09Ping = 20 * time.Millisecond

func c09Exec(s *c09Scn, presets []c09Preset) *c09Obs {
	r := &c09Run{scn: s, refT: map[int]time.Time{}, stopT: map[string]time.Time{}, silent: map[int]bool{}, active: map[int]bool{}, ackLeft: map[int]int{}, nWrites: map[int]int{},
		discDone: make(chan struct{}), fpOnce: map[int]bool{}}
	r.rc = &mqtt.RetryClient{}
	if s.has(c09EndRetry) {
		r.rc.ResponseTimeout = c09RespTimeout
	}
	ropts := []mqtt.ReconnectOption{mqtt.WithRetryClient(r.rc), mqtt.WithReconnectWait(s.Base, s.Max)}
	if s.timeout() {
		ropts = append(ropts, mqtt.WithTimeout(c09Timeout))
	}
	if s.has(c09EndKeepAlive) {
		ropts = append(ropts, mqtt.WithPingInterval(c09Ping))
	}
	cli, err := mqtt.NewReconnectClient(mqtt.DialerFunc(r.dial), ropts...)
	if err != nil {
		return &c09Obs{notes: []string{"NewReconnectClient: " + err.Error()}, hung: true}
	}
	r.cli = cli
	ctx, cancel := context.WithCancel(context.Background())
	r.cancel = cancel
	p := presets[s.Preset]
	go func() {
		defer func() {
			if x := recover(); x != nil {
				r.note(fmt.Sprint("Connect panicked: ", x))
			}
		}()
		cli.Connect(ctx, p.cid, p.opts...)
	}()
	o := &c09Obs{}
	select {
	case <-r.discDone:
	case <-time.After(30 * time.Second):
		// nothing ended the scenario: force the end, report
		r.note("scenario did not end within 30 s")
		o.hung = true
		go r.landDisconnect()
		select {
		case <-r.discDone:
		case <-time.After(10 * time.Second):
		}
	}
	// observation window: no dial may follow; the last transport gets time to be closed
	time.Sleep(r.settle())
	deadline := time.Now().Add(2 * time.Second)
	for time.Now().Before(deadline) {
		r.mu.Lock()
		var last *c09Cli
		if len(r.clis) > 0 {
			last = r.clis[len(r.clis)-1]
		}
		r.mu.Unlock()
		if last == nil {
			break
		}
		select {
		case <-last.conn.closed:
			deadline = time.Now()
		default:
			time.Sleep(2 * time.Millisecond)
		}
	}
	cancel()
	r.mu.Lock()
	o.log = append([]c09Ev{}, r.log...)
	o.lastAccepted = r.nOpen > 0 && r.active[r.nOpen-1]
	o.unasked = r.unasked
	o.refT, o.stopT = map[int]time.Time{}, map[string]time.Time{}
	for k, v := range r.refT {
		o.refT[k] = v
	}
	for k, v := range r.stopT {
		o.stopT[k] = v
	}
	o.notes = append(o.notes, r.notes...)
	for i := 1; i < len(r.dialT); i++ {
		if t, ok := r.refT[i-1]; ok {
			o.elapsed = append(o.elapsed, int64(r.dialT[i].Sub(t)))
		} else {
			o.elapsed = append(o.elapsed, -1)
		}
	}
	r.mu.Unlock()
	return o
}

// late: a stop planned inside the wait of iteration i landed only after the next dial had begun
// (the harness goroutine was starved); such a run says nothing and is repeated.
func (o *c09Obs) lateStop(s *c09Scn) bool {
	check := func(st *c09Stop, kind string) bool {
		if st == nil || st.Phase != c09PWait {
			return false
		}
		// the redial timer is started after the failure point: it cannot fire before refT + wait. A
		// stop known to have landed before that moment landed inside the wait (or before it, which
		// is the same to the select); later than that, the timer may have fired first or together
		// with it, and Go's select may take either.
		if ref, ok := o.refT[st.Iter]; ok {
			if t, ok := o.stopT[kind]; ok && !t.Before(ref.Add(s.specWait(st.Iter))) {
				return true
			}
		}
		d := 0
		for _, e := range o.log {
			if e.Kind == "dial" {
				d++
			}
			if e.Kind == kind {
				return d > st.Iter+1
			}
		}
		return false
	}
	return check(s.Disc, "stop-disc") || check(s.Cancel, "stop-cancel")
}

func (o *c09Obs) coq() string {
	var ev []string
	for _, e := range o.log {
		switch e.Kind {
		case "dial":
			ev = append(ev, "ODial")
		case "dial-dead":
			ev = append(ev, "ODialDead")
		case "open":
			ev = append(ev, fmt.Sprintf("OOpen %d", e.K))
		case "pkt":
			ev = append(ev, fmt.Sprintf("OPkt %d %s", e.K, cBytes(e.Pkt)))
		case "close":
			ev = append(ev, fmt.Sprintf("OClose %d", e.K))
		case "stop-disc":
			ev = append(ev, "OStop SDisconnect")
		case "stop-cancel":
			ev = append(ev, "OStop SCancel")
		case "ret":
			ev = append(ev, "ORet")
		case "panic":
			ev = append(ev, "OPanic")
		case "stuck":
			ev = append(ev, "OStuck")
		case "no-redial":
			ev = append(ev, "ONoRedial")
		}
	}
	return cListInline(ev)
}

func (o *c09Obs) desc() []string {
	var ev []string
	for _, e := range o.log {
		switch e.Kind {
		case "open", "close":
			ev = append(ev, fmt.Sprintf("%s(%d)", e.Kind, e.K))
		case "pkt":
			ev = append(ev, fmt.Sprintf("pkt(%d,%x)", e.K, e.Pkt))
		default:
			ev = append(ev, e.Kind)
		}
	}
	return ev
}

func (o *c09Obs) elapsedCoq() string {
	var xs []string
	for _, e := range o.elapsed {
		xs = append(xs, fmt.Sprintf("(%d)%%Z", e))
	}
	return cListInline(xs)
}

// ---------- scenario generation ----------

func c09Alphabet(full bool) []c09Out {
	a := []c09Out{{Kind: c09DialErr}, {Kind: c09Refused, Code: 5}, {Kind: c09PeerClosed}, {Kind: c09EndPeer}, {Kind: c09EndProto}}
	if full {
		a = append(a, c09Out{Kind: c09NoConnack}, c09Out{Kind: c09EndKeepAlive}, c09Out{Kind: c09WriteFail}, c09Out{Kind: c09EndRetry})
	}
	return a
}

// stops compatible with the last iteration of a script
func c09Placements(script []c09Out) []int {
	last := script[len(script)-1]
	ph := []int{c09PDial}
	if last.dialOK() {
		ph = append(ph, c09PConnect)
	}
	if last.connected() {
		ph = append(ph, c09PConnected)
	}
	if last.Kind != c09EndGraceful {
		ph = append(ph, c09PWait)
	}
	return ph
}

func c09Timing(s *c09Scn) {
	s.Base, s.Max = 20*time.Millisecond, 70*time.Millisecond // max deliberately not base*2^n
	if (s.Disc != nil && s.Disc.Phase == c09PWait) || (s.Cancel != nil && s.Cancel.Phase == c09PWait) {
		// a stop has to land inside a wait: longer waits
		s.Base, s.Max = 100*time.Millisecond, 350*time.Millisecond
	}
}

func c09Scripts(alpha []c09Out, n int) [][]c09Out {
	if n == 0 {
		return [][]c09Out{nil}
	}
	var out [][]c09Out
	for _, p := range c09Scripts(alpha, n-1) {
		for _, a := range alpha {
			out = append(out, append(append([]c09Out{}, p...), a))
		}
	}
	return out
}

// c09Stopped builds the scenarios "script, then a stop at its last iteration".
func c09Stopped(script []c09Out, refusedCode *int) []*c09Scn {
	var out []*c09Scn
	sc := append([]c09Out{}, script...)
	for i := range sc {
		if sc[i].Kind == c09Refused {
			sc[i].Code = byte(1 + *refusedCode%5)
			*refusedCode++
		}
	}
	n := len(sc) - 1
	success := false
	for _, o := range sc[:n] {
		if o.connected() {
			success = true
		}
	}
	// a CONNACK withheld with no connect timeout configured: possible where the stop itself ends the handshake
	noTimeoutOK := sc[n].Kind == c09NoConnack
	for _, o := range sc[:n] {
		if o.Kind == c09NoConnack || o.Kind == c09EndKeepAlive {
			noTimeoutOK = false
		}
	}
	for _, ph := range c09Placements(sc) {
		early := ph == c09PDial || ph == c09PConnect
		if early && sc[n].connected() {
			// Disconnect cancels the handshake (reconnclient.go:92-100) while the CONNACK is arriving:
			// either may win; the model takes the winner from the oracle, the harness observes it
			out = append(out, &c09Scn{Script: sc, Disc: &c09Stop{n, ph}, Race: true})
		} else {
			out = append(out, &c09Scn{Script: sc, Disc: &c09Stop{n, ph}})
			if early && noTimeoutOK {
				out = append(out, &c09Scn{Script: sc, Disc: &c09Stop{n, ph}, NoTimeout: true})
			}
		}
		// cancellation: effective only before the first success, and (to stay deterministic) not
		// while a connect that is going to be accepted is in flight
		switch {
		case ph == c09PConnected:
			// no effect (ctx was replaced): the connection then ends as scripted; finish with a Disconnect in the wait
			if sc[n].Kind != c09EndGraceful {
				out = append(out, &c09Scn{Script: append(append([]c09Out{}, sc...), c09Out{Kind: c09DialErr}),
					Cancel: &c09Stop{n, ph}, Disc: &c09Stop{n + 1, c09PWait}})
			}
		case sc[n].connected() && ph != c09PWait:
			// a cancellation racing with an accepted CONNACK: either select branch may win; not generated
		case sc[n].Kind == c09EndGraceful:
		case success || sc[n].connected():
			// after the first success a cancellation is ignored: the loop goes on; stop it one iteration later
			out = append(out, &c09Scn{Script: append(append([]c09Out{}, sc...), c09Out{Kind: c09DialErr}),
				Cancel: &c09Stop{n, ph}, Disc: &c09Stop{n + 1, c09PDial}})
		case ph == c09PDial && sc[n].dialOK():
			// a Dialer that honours its context fails a dial during which the context is cancelled
			// (generated with the outcome "dial error"); one that ignores it (NoContextDialer) hands
			// out a live client although the handshake context is already done
			out = append(out, &c09Scn{Script: sc, Cancel: &c09Stop{n, ph}, Post: true, IgnoreCtx: true})
			if noTimeoutOK {
				out = append(out, &c09Scn{Script: sc, Cancel: &c09Stop{n, ph}, Post: true, IgnoreCtx: true, NoTimeout: true})
			}
		default:
			out = append(out, &c09Scn{Script: sc, Cancel: &c09Stop{n, ph}, Post: true})
			if early && noTimeoutOK {
				out = append(out, &c09Scn{Script: sc, Cancel: &c09Stop{n, ph}, Post: true, NoTimeout: true})
			}
		}
	}
	if sc[n].Kind == c09EndGraceful {
		out = append(out, &c09Scn{Script: sc, Post: true})
	}
	return out
}

func c09Generate(tier string, seed int64) (serial []*c09Scn, par []*c09Scn) {
	rnd := rand.New(rand.NewSource(seed))
	ms := time.Millisecond
	fails := func(n int) []c09Out {
		var s []c09Out
		for i := 0; i < n; i++ {
			switch i % 4 {
			case 0:
				s = append(s, c09Out{Kind: c09DialErr})
			case 1:
				s = append(s, c09Out{Kind: c09Refused, Code: byte(1 + i%5)})
			case 2:
				s = append(s, c09Out{Kind: c09WriteFail})
			default:
				s = append(s, c09Out{Kind: c09PeerClosed})
			}
		}
		return s
	}
	// serial family with upper bounds: the cap, and the reset after a success
	serial = append(serial,
		&c09Scn{Script: fails(8), Disc: &c09Stop{7, c09PDial}, Base: 10 * ms, Max: 40 * ms, UB: true, Preset: 1},
		&c09Scn{Script: append(append(fails(5), c09Out{Kind: c09EndPeer}), c09Out{Kind: c09DialErr}, c09Out{Kind: c09DialErr}),
			Disc: &c09Stop{7, c09PDial}, Base: 20 * ms, Max: 640 * ms, UB: true, Preset: 2},
	)
	code := int(seed)
	eligible := 0
	add := func(ss []*c09Scn) {
		for _, s := range ss {
			if s.Cancel == nil {
				// the usual "defer cancel()": the context given to Connect ends right after Connect has
				// returned (first success), the script goes on with losses and redials
				for j, o := range s.Script[:len(s.Script)-1] {
					if o.connected() {
						if o.Kind != c09EndGraceful {
							eligible++
							if eligible%2 == 0 {
								s.Cancel = &c09Stop{j, c09PConnected}
							}
						}
						break
					}
				}
			}
			if s.Base == 0 {
				c09Timing(s)
			}
			s.Preset = len(par) % c09NPresets
			if s.NoTimeout {
				// presets without a keep-alive option: Timeout defaults to PingInterval = KeepAlive seconds
				np := []int{0, 2, 4, 5, 6, 7, 8, 9}
				s.Preset = np[len(par)%len(np)]
			}
			par = append(par, s)
		}
	}
	full := c09Alphabet(true)
	small := c09Alphabet(false)
	graceful := c09Out{Kind: c09EndGraceful}
	enum := func(alpha []c09Out, n int) {
		for _, pre := range c09Scripts(alpha, n-1) {
			for _, last := range append(append([]c09Out{}, alpha...), graceful) {
				add(c09Stopped(append(append([]c09Out{}, pre...), last), &code))
			}
		}
	}
	sample := func(alpha []c09Out, n, count int) {
		for c := 0; c < count; c++ {
			var sc []c09Out
			for i := 0; i < n-1; i++ {
				sc = append(sc, alpha[rnd.Intn(len(alpha))])
			}
			lasts := append(append([]c09Out{}, alpha...), graceful)
			sc = append(sc, lasts[rnd.Intn(len(lasts))])
			all := c09Stopped(sc, &code)
			add([]*c09Scn{all[rnd.Intn(len(all))]})
		}
	}
	switch tier {
	case "quick":
		enum(full, 1)
		enum(full, 2)
		sample(small, 3, 80)
		sample(full, 3, 40)
		sample(small, 4, 40)
		sample(full, 5, 12)
	case "search":
		enum(full, 1)
		sample(full, 2, 150)
		sample(full, 3, 150)
		sample(small, 4, 100)
		sample(full, 6, 20)
	default:
		enum(full, 1)
		enum(full, 2)
		enum(full, 3)
		enum(small, 4)
		sample(full, 4, 1500)
		sample(full, 5, 800)
		sample(full, 6, 400)
		sample(small, 8, 200)
	}
	// back-off only: long runs of failures with varied base/max (including base > max)
	for c, bm := range [][2]time.Duration{{20 * ms, 80 * ms}, {30 * ms, 30 * ms}, {50 * ms, 20 * ms}, {15 * ms, 100 * ms}} {
		n := 5
		s := &c09Scn{Script: fails(n), Disc: &c09Stop{n - 1, c09PDial}, Base: bm[0], Max: bm[1], Preset: c % 4}
		par = append(par, s)
		s2 := &c09Scn{Script: append(append(fails(3), c09Out{Kind: c09EndPeer}), fails(3)...), Disc: &c09Stop{6, c09PConnect},
			Base: bm[0], Max: bm[1], Preset: (c + 1) % 4}
		par = append(par, s2)
	}
	return serial, par
}

// ---------- driver ----------

func runC09(cfg *runCfg) error {
	presets := c09Presets()
	serial, par := c09Generate(cfg.tier, cfg.seed)
	type res struct {
		s   *c09Scn
		o   *c09Obs
		try int
	}
	var results []res
	runOne := func(s *c09Scn) res {
		var o *c09Obs
		try := 0
		for try = 1; try <= 3; try++ {
			o = c09Exec(s, presets)
			if !o.lateStop(s) {
				break
			}
		}
		return res{s, o, try}
	}
	// serial family: upper bounds, repeated up to three times before a late wake-up is believed
	const ubSlack = 250 * time.Millisecond
	for _, s := range serial {
		var best res
		for try := 1; try <= 3; try++ {
			best = runOne(s)
			ok := true
			for i, e := range best.o.elapsed {
				if e < 0 || time.Duration(e) > s.specWait(i)+ubSlack {
					ok = false
				}
			}
			if ok {
				break
			}
		}
		results = append(results, best)
	}
	workers := 96
	if cfg.tier == "thorough" {
		workers = 256
	}
	// stress family, concurrently with the scenarios
	stressBudget, stressClients := 2500*time.Millisecond, 2
	if cfg.tier == "thorough" {
		stressBudget, stressClients = 20*time.Second, 4
	}
	stressRes := make([]c09StressRes, stressClients)
	var swg sync.WaitGroup
	for i := 0; i < stressClients; i++ {
		swg.Add(1)
		go func(i int) {
			defer swg.Done()
			stressRes[i] = c09Stress(stressBudget, i%2 == 1)
		}(i)
	}
	out := make([]res, len(par))
	var wg sync.WaitGroup
	idx := make(chan int)
	for w := 0; w < workers; w++ {
		wg.Add(1)
		go func() {
			defer wg.Done()
			for i := range idx {
				out[i] = runOne(par[i])
			}
		}()
	}
	for i := range par {
		idx <- i
	}
	close(idx)
	wg.Wait()
	swg.Wait()
	results = append(results, out...)
	var stressCases []string
	stressCycles := 0

	cf := newCasesFile("C09", "Codec", "Reconnect", "CheckC09")
	m := &meta{Property: "C09", Distribution: map[string]interface{}{}, Families: map[string][]interface{}{}}
	for i, p := range presets {
		cf.def(fmt.Sprintf("conn%d", i), "connect", p.coq)
	}
	var cases []string
	distinct := map[string]bool{}
	nontrivial := 0
	outKinds := map[string]int{}
	stopKinds := map[string]int{}
	lens := map[string]int{}
	retried, hung := 0, 0
	unaskedTotal := 0
	raceAccepted, raceAborted := 0, 0
	dropped := 0
	for _, r := range results {
		s, o := r.s, r.o
		if o.lateStop(s) {
			// three attempts, each time the stop reached the client only after the wait had ended
			// (starved machine): the run shows nothing about the phase it was meant for
			dropped++
			continue
		}
		es := s // the scenario as it really went: the winner of a handshake race is the oracle's outcome
		winner := ""
		if s.Race {
			winner = "CONNACK (accepted)"
			if !o.lastAccepted {
				winner = "Disconnect (handshake aborted, no CONNACK taken)"
				cp := *s
				cp.Script = append([]c09Out{}, s.Script...)
				cp.Script[len(cp.Script)-1] = c09Out{Kind: c09NoConnack}
				es = &cp
				raceAborted++
			} else {
				raceAccepted++
			}
		}
		cases = append(cases, fmt.Sprintf("(mkCase (mkConfig (%d)%%Z (%d)%%Z conn%d true %s true) %s %s %s %s)",
			int64(s.Base), int64(s.Max), s.Preset, cBool(s.timeout()), es.coq(), o.coq(), o.elapsedCoq(), cBool(s.UB)))
		d := es.desc()
		if winner != "" {
			d["handshake_race_won_by"] = winner
		}
		d["observed"] = o.desc()
		d["elapsed_ms_before_each_redial"] = func() []float64 {
			var x []float64
			for _, e := range o.elapsed {
				x = append(x, float64(e)/1e6)
			}
			return x
		}()
		if len(o.notes) > 0 {
			d["notes"] = o.notes
		}
		for _, fam := range []string{"trace", "backoff", "one_transport", "connect", "stop", "dialctx", "redial", "waitub"} {
			m.Families[fam] = append(m.Families[fam], d)
		}
		for _, x := range s.Script {
			outKinds[strings.SplitN(x.desc(), "(", 2)[0]]++
		}
		if s.Disc != nil {
			stopKinds["disconnect@"+c09PhaseName[s.Disc.Phase]]++
		}
		if s.Cancel != nil {
			stopKinds["cancel@"+c09PhaseName[s.Cancel.Phase]]++
		}
		if s.Post {
			stopKinds["disconnect-after-exit"]++
		}
		if s.NoTimeout {
			stopKinds["connack-withheld-without-connect-timeout"]++
		}
		if s.IgnoreCtx {
			stopKinds["cancel-during-a-dial-that-still-succeeds(dialer-ignores-ctx)"]++
		}
		lens[fmt.Sprint(len(s.Script))]++
		if r.try > 1 {
			retried++
		}
		unaskedTotal += o.unasked
		if o.hung {
			hung++
			m.ImplViolations = append(m.ImplViolations, map[string]interface{}{"what": "scenario did not end (loop kept running / Disconnect never returned)", "scenario": d})
		}
		if !distinct[s.key()] {
			distinct[s.key()] = true
			if len(s.Script) >= 2 {
				nontrivial++
			}
		}
		if len(m.Samples) < 4 && len(s.Script) >= 3 && s.Disc != nil && s.Disc.Phase != c09PWait {
			m.Samples = append(m.Samples, d)
		}
	}
	for _, sr := range stressRes {
		stressCases = append(stressCases, fmt.Sprintf("(%d%%nat, %s)", sr.cycles, cBool(sr.exited)))
		stressCycles += sr.cycles
		m.Families["redial_stress"] = append(m.Families["redial_stress"], map[string]interface{}{
			"what":             "accept every connection, then end it unexpectedly (EOF or malformed packet), back-off 1us/10us; the client must redial after every end",
			"cycles_completed": sr.cycles, "stopped_redialling_by_itself": sr.exited, "notes": sr.notes})
	}
	m.Distribution["stress_accept_then_drop_cycles"] = stressCycles
	cf.def("cases", "list c09_case", cList(cases))
	cf.result("V_backoff", "c09_backoff_violations cases")
	cf.result("V_one_transport", "c09_one_transport_violations cases")
	cf.result("V_connect", "c09_connect_violations cases")
	cf.result("V_stop", "c09_stop_violations cases")
	cf.result("V_dialctx", "c09_dialctx_violations cases")
	cf.result("V_redial", "c09_redial_violations cases")
	cf.def("stress_cases", "list (nat * bool)", cListInline(stressCases))
	cf.result("V_redial_stress", "c09_stress_violations stress_cases")
	cf.result("M_trace", "c09_trace_mismatches cases")
	cf.result("M_waitub", "c09_waitub_mismatches cases")
	m.Evaluations = len(cases)
	m.DistinctNontrivial = nontrivial
	m.Rule = "outcome scripts over {dial error, CONNACK refused 1-5, no CONNACK until WithTimeout, peer closes during connect, connected then peer close / malformed packet / silent peer (keep-alive) / graceful end} run on a real ReconnectClient over an in-memory gated Dialer, each ended by a Disconnect or a context cancellation landing in a chosen phase (dialling, connecting, connected, waiting to redial) of its last iteration, or by a graceful end followed by Disconnect; exhaustive up to the length given in the distribution, sampled beyond; non-trivial = distinct scenario with at least one redial"
	keys := func(mm map[string]int) map[string]int { return mm }
	m.Distribution["outcome_kinds"] = keys(outKinds)
	m.Distribution["stops"] = keys(stopKinds)
	m.Distribution["script_lengths"] = keys(lens)
	m.Distribution["scenarios_repeated_because_a_stop_landed_late"] = retried
	m.Distribution["serial_upper_bound_scenarios"] = len(serial)
	m.Distribution["disconnect_packets_the_application_never_asked_for"] = unaskedTotal
	m.Distribution["scenarios_dropped_after_three_late_stops"] = dropped
	m.Distribution["handshake_race_disconnect_vs_connack"] = map[string]int{"connack_won": raceAccepted, "disconnect_won": raceAborted}
	var ls []string
	for k := range lens {
		ls = append(ls, k)
	}
	sort.Strings(ls)
	m.Distribution["exhaustive_up_to_length"] = map[string]int{"quick": 2, "search": 1, "thorough": 3}[cfg.tier]
	m.Exhaustive = true
	if err := cf.write(cfg.outDir); err != nil {
		return err
	}
	return m.write(cfg.outDir)
}

// ---------- stress family: thousands of accept-then-drop cycles with the smallest back-off ----------

type c09StressRes struct {
	cycles int
	exited bool // no dial followed an unexpected end of a connection for 5 s: the loop has exited by itself
	notes  []string
}

// c09Stress: every dial succeeds, every CONNECT is accepted, every connection is then ended
// unexpectedly by the peer (EOF, or a malformed packet when proto is set). The client must redial
// after every such end. Sampling: it looks for interleavings of the reader goroutine and the
// reconnect loop in which an unexpected end is taken for a graceful one.
func c09Stress(budget time.Duration, proto bool) c09StressRes {
	var mu sync.Mutex
	dials := 0
	lastDial := time.Now()
	stop := false
	dialer := mqtt.DialerFunc(func(ctx context.Context) (*mqtt.BaseClient, error) {
		mu.Lock()
		dials++
		n := dials
		lastDial = time.Now()
		stopped := stop
		mu.Unlock()
		var conn *memConn
		conn = newMemConn(n, func(c *memConn, pkt []byte) error {
			if pkt[0]&0xF0 == 0x10 {
				c.send(connackOK)
			}
			return nil
		})
		cli := &mqtt.BaseClient{Transport: conn}
		cli.ConnState = func(st mqtt.ConnState, err error) {
			if st == mqtt.StateActive && !stopped {
				// the moment of the drop is swept over a few microseconds around the moment at which the
				// reconnect loop reaches its select, cycle after cycle
				x := uint32(n)*2654435761 + 12345
				x ^= x << 13
				x ^= x >> 17
				x ^= x << 5
				spin := int(x % uint32(c09StressSpin))
				drop := func() {
					for k := 0; k < spin; k++ {
						c09Sink++
					}
					if proto && n%2 == 0 {
						conn.send([]byte{0xF0, 0x00})
					} else {
						conn.finish()
					}
				}
				if n%3 == 0 {
					drop() // on the goroutine that is inside Connect
				} else {
					go drop()
				}
			}
		}
		return cli, nil
	})
	res := c09StressRes{}
	cli, err := mqtt.NewReconnectClient(dialer, mqtt.WithReconnectWait(time.Microsecond, 10*time.Microsecond))
	if err != nil {
		res.notes = append(res.notes, err.Error())
		return res
	}
	ctx, cancel := ctxTimeout(10 * time.Second)
	if _, err := cli.Connect(ctx, "c09-stress"); err != nil {
		cancel()
		res.notes = append(res.notes, "Connect: "+err.Error())
		res.exited = true
		return res
	}
	cancel() // the caller's context ends after the first success, as with "defer cancel()"
	end := time.Now().Add(budget)
	for {
		time.Sleep(5 * time.Millisecond)
		mu.Lock()
		idle := time.Since(lastDial)
		mu.Unlock()
		if idle > 5*time.Second {
			res.exited = true
			res.notes = append(res.notes, "no dial for 5 s after the last connection ended although Disconnect was not called")
			break
		}
		// the budget is over; a client that has been silent for a while is watched until it dials
		// again or the 5 s are reached
		if time.Now().After(end) && idle < 500*time.Millisecond {
			break
		}
	}
	mu.Lock()
	stop = true // connections made from now on stay up, so that Disconnect finds a quiet client
	res.cycles = dials
	mu.Unlock()
	dctx, dcancel := ctxTimeout(5 * time.Second)
	defer dcancel()
	func() {
		defer func() {
			if p := recover(); p != nil {
				res.notes = append(res.notes, fmt.Sprint("Disconnect panicked: ", p))
			}
		}()
		if err := cli.Disconnect(dctx); err != nil && dctx.Err() != nil {
			res.notes = append(res.notes, "Disconnect did not return within 5 s")
		}
	}()
	return res
}
