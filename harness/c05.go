package main

import (
	"context"
	"fmt"
	"math/rand"
	"sort"
	"time"
	"unicode/utf8"

	mqtt "github.com/at-wat/mqtt-go"
)

func init() { register("C05", runC05) }

// autoAck answers every request the way a conforming broker does (granting the requested QoS).
func autoAck(s *session, pkt []byte) {
	if ack := c05AckBytes(pkt); ack != nil {
		s.conn.send(ack)
	}
}

var c05Strings = []string{"", "a", "t/1", "sensor/+/temp", "#", "é", "日本/語", "x y", "\u0001", "\U0001F600", "a/b/c/d/e/f"}

func c05RandStr(r *rand.Rand) []byte {
	switch x := r.Intn(20); {
	case x < 12:
		return []byte(c05Strings[r.Intn(len(c05Strings))])
	case x < 15:
		// long strings: the alphabet from a random letter on, cyclically (printed compactly by c05Z)
		n := []int{126, 127, 128, 129, 255, 256, 300}[r.Intn(7)]
		b := make([]byte, n)
		k := r.Intn(26)
		for i := range b {
			b[i] = byte('a' + (k+i)%26)
		}
		return b
	case x < 17:
		// arbitrary bytes (the encoder does not validate UTF-8)
		b := make([]byte, r.Intn(6))
		for i := range b {
			b[i] = byte(r.Intn(256))
		}
		return b
	default:
		b := make([]byte, 1+r.Intn(40))
		for i := range b {
			b[i] = byte('0' + r.Intn(10))
		}
		return b
	}
}

func c05RandPayload(r *rand.Rand) []byte {
	switch x := r.Intn(10); {
	case x < 5:
		b := make([]byte, r.Intn(12))
		for i := range b {
			b[i] = byte(r.Intn(256))
		}
		return b
	case x < 8:
		n := []int{100, 115, 118, 119, 120, 121, 122, 125, 126, 127, 128, 129, 200}[r.Intn(13)]
		b := make([]byte, n)
		for i := range b {
			b[i] = byte(i)
		}
		return b
	default:
		return nil
	}
}

type c05Conn struct {
	Level, KeepAlive int
	Clean            bool
	ClientID         []byte
	User, Pass       []byte
	Will             *inMsg
}

func (c c05Conn) coq() string {
	will := "None"
	if c.Will != nil {
		will = fmt.Sprintf("(Some {| w_topic := %s; w_payload := %s; w_qos := %d; w_retain := %s |})",
			c05Z(c.Will.Topic), c05Z(c.Will.Payload), c.Will.QoS, cBool(c.Will.Retain))
	}
	return fmt.Sprintf("{| c_level := %d; c_clean := %s; c_keepalive := %d; c_client_id := %s; c_user := %s; c_pass := %s; c_will := %s |}",
		c.Level, cBool(c.Clean), c.KeepAlive, c05Z(c.ClientID), c05Z(c.User), c05Z(c.Pass), will)
}

// first packet written by Connect with the given options
func c05Connect(c c05Conn) ([]byte, error) {
	var first []byte
	conn := newMemConn(1, nil)
	conn.onWrite = func(mc *memConn, pkt []byte) error {
		if first == nil {
			first = pkt
			mc.send(connackOK)
		}
		return nil
	}
	cli := &mqtt.BaseClient{Transport: conn}
	var opts []mqtt.ConnectOption
	opts = append(opts, mqtt.WithKeepAlive(uint16(c.KeepAlive)), mqtt.WithCleanSession(c.Clean))
	if c.Level != 4 {
		opts = append(opts, mqtt.WithProtocolLevel(mqtt.ProtocolLevel(c.Level)))
	}
	if len(c.User) > 0 || len(c.Pass) > 0 {
		opts = append(opts, mqtt.WithUserNamePassword(string(c.User), string(c.Pass)))
	}
	if c.Will != nil {
		opts = append(opts, mqtt.WithWill(&mqtt.Message{Topic: string(c.Will.Topic), Payload: c.Will.Payload, QoS: mqtt.QoS(c.Will.QoS), Retain: c.Will.Retain}))
	}
	ctx, cancel := ctxTimeout(5 * time.Second)
	defer cancel()
	_, err := cli.Connect(ctx, string(c.ClientID), opts...)
	c05CloseWait(cli)
	return first, err
}

func validNoNul(b []byte) bool {
	if !utf8.Valid(b) {
		return false
	}
	for _, x := range b {
		if x == 0 {
			return false
		}
	}
	return true
}

// c05Fails turns every failure of the implementation to behave inside a scenario (a session that cannot be
// established, a request that is not answered, a reader that does not finish) into an observation
// attributed to that scenario (meta.ImplViolations, treated as V) instead of a harness abort. After a few
// of them in one family the rest of the family is skipped: each costs a timeout.
type c05Fails struct {
	m *meta
	n map[string]int
}

var c05F *c05Fails

func (f *c05Fails) add(family, what string, c interface{}) {
	f.n[family]++
	f.m.ImplViolations = append(f.m.ImplViolations, map[string]interface{}{"family": family, "what": what, "case": c})
}

func (f *c05Fails) tooMany(family string) bool { return f.n[family] >= 3 }

func c05CloseWait(cli *mqtt.BaseClient) {
	cli.Close()
	select {
	case <-cli.Done():
	case <-time.After(20 * time.Second):
	}
}

func runC05(cfg *runCfg) error {
	r := rand.New(rand.NewSource(cfg.seed))
	cf := newCasesFile("C05", "Codec", "SpecDecode", "Inbound", "Parse", "C05Flows", "CheckC05")
	m := &meta{Property: "C05", Distribution: map[string]interface{}{}, Families: map[string][]interface{}{}}
	c05F = &c05Fails{m: m, n: map[string]int{}}
	scale := 1
	if cfg.tier != "quick" {
		scale = 8
	}
	dist := map[string]int{}

	// ---------- conn ----------
	var connCases []string
	for i := 0; i < 100*scale; i++ {
		c := c05Conn{Level: 4, KeepAlive: []int{0, 1, 60, 255, 256, 65535}[r.Intn(6)], Clean: r.Intn(2) == 0, ClientID: c05RandStr(r)}
		if r.Intn(8) == 0 {
			c.Level = 3
		}
		switch r.Intn(5) {
		case 0:
			c.User = c05RandStr(r)
		case 1:
			c.User, c.Pass = c05RandStr(r), c05RandStr(r)
		case 2:
			if r.Intn(4) == 0 {
				c.Pass = c05RandStr(r) // password without user name: outside the theorem's hypothesis
			}
		}
		if r.Intn(2) == 0 {
			c.Will = &inMsg{Topic: c05RandStr(r), Payload: c05RandPayload(r), QoS: byte(r.Intn(3)), Retain: r.Intn(2) == 0}
		}
		obs, err := c05Connect(c)
		if err != nil {
			c05F.add("conn", fmt.Sprintf("Connect failed: %v", err), fmt.Sprintf("%+v", c))
			if c05F.tooMany("conn") {
				break
			}
			continue
		}
		connCases = append(connCases, cTuple(c.coq(), c05Z(obs)))
		dist["connect"]++
		if c.Will != nil {
			dist["connect_with_will"]++
		}
		if len(c.Pass) > 0 && len(c.User) == 0 {
			dist["connect_password_without_user"]++
		}
		fc := map[string]interface{}{"options": fmt.Sprintf("%+v", c), "bytes": fmt.Sprintf("%x", obs)}
		m.Families["conn"] = append(m.Families["conn"], fc)
		if i == 0 {
			m.Samples = append(m.Samples, fc)
		}
	}
	cf.def("conn_cases", "list (connect * list N)", cList(connCases))
	cf.result("V_conn", "c05_conn_violations conn_cases")
	cf.result("M_conn", "c05_conn_mismatches conn_cases")

	// ---------- pub ----------
	var pubCases []string
	// every MaxPayloadLen boundary (len = max-1, max, max+1, max+2) first, then random messages
	type pubBound struct{ max, n int }
	var bounds []pubBound
	for _, mx := range []int{1, 120, 128} {
		for d := -1; d <= 2; d++ {
			bounds = append(bounds, pubBound{mx, mx + d})
		}
	}
	pubTimeouts := 0
	for i := 0; i < len(bounds)+180*scale; i++ {
		max := []int{0, 0, 120, 1, 128}[r.Intn(5)]
		s, err := newSession(false, autoAck)
		if err != nil {
			c05F.add("pub", fmt.Sprintf("session could not be established: %v", err), nil)
			if c05F.tooMany("pub") {
				break
			}
			continue
		}
		qos := byte(r.Intn(3))
		if r.Intn(12) == 0 {
			qos = byte(3 + r.Intn(253))
		}
		msg := &mqtt.Message{Topic: string(c05RandStr(r)), Payload: c05RandPayload(r), QoS: mqtt.QoS(qos), Retain: r.Intn(2) == 0, Dup: r.Intn(4) == 0}
		if r.Intn(3) == 0 {
			msg.ID = uint16([]int{1, 255, 256, 65535, r.Intn(65536)}[r.Intn(5)])
		}
		if i < len(bounds) {
			max, msg.QoS, qos = bounds[i].max, mqtt.QoS(i%3), byte(i%3)
			msg.Payload = c05Fill(bounds[i].n, i)
		}
		s.cli.MaxPayloadLen = max
		reqID := msg.ID
		// a publish that is never acknowledged (possible only if the library mis-encodes an identifier) is
		// a violation already; after three of them the remaining cases do not wait as long
		d := 5 * time.Second
		if pubTimeouts >= 3 {
			d = 300 * time.Millisecond
		}
		ctx, cancel := ctxTimeout(d)
		perr := s.cli.Publish(ctx, msg)
		if ctx.Err() != nil {
			pubTimeouts++
		}
		cancel()
		evs := s.snapshot()
		var w [][]byte
		for _, e := range evs {
			if e.Kind == "write" {
				w = append(w, e.Pkt)
			}
		}
		c05CloseWait(s.cli)
		wireID := reqID
		if qos >= 1 && qos <= 2 && len(w) > 0 {
			wireID = msg.ID // filled in by the library when it was zero
		}
		class := errClass(perr)
		code := map[string]int{"nil": 0, "PayloadLenExceeded": 1, "InvalidQoS": 2}[class]
		if _, ok := map[string]int{"nil": 0, "PayloadLenExceeded": 1, "InvalidQoS": 2}[class]; !ok {
			code = 9
		}
		var ws []string
		for _, p := range w {
			ws = append(ws, c05Z(p))
		}
		pubCases = append(pubCases, cTuple(fmt.Sprint(max), c05Msg([]byte(msg.Topic), wireID, qos, msg.Retain, false, msg.Payload),
			cBool(reqID != 0), fmt.Sprint(code), cListInline(ws)))
		dist[fmt.Sprintf("publish_q%d", min(int(qos), 3))]++
		if code != 0 {
			dist["publish_rejected"]++
		}
		fc := map[string]interface{}{"max_payload": max, "topic": msg.Topic, "payload_len": len(msg.Payload), "qos": qos, "retain": msg.Retain, "requested_id": reqID, "result": class, "writes": fmt.Sprintf("%x", w)}
		m.Families["pub"] = append(m.Families["pub"], fc)
		if i == 0 {
			m.Samples = append(m.Samples, fc)
		}
	}
	cf.def("pub_cases", "list (N * message * bool * N * list (list N))", cList(pubCases))
	cf.result("V_pub", "c05_pub_violations pub_cases")
	cf.result("M_pub", "c05_pub_mismatches pub_cases")

	// ---------- sub / unsub ----------
	var subCases, unsubCases []string
	for i := 0; i < 80*scale; i++ {
		if c05F.tooMany("sub") {
			break
		}
		s, err := newSession(false, autoAck)
		if err != nil {
			c05F.add("sub", fmt.Sprintf("session could not be established: %v", err), nil)
			continue
		}
		n := 1 + r.Intn(5)
		var subs []mqtt.Subscription
		var topics []string
		var cs, ts []string
		for j := 0; j < n; j++ {
			t := c05RandStr(r)
			if j > 0 && r.Intn(4) == 0 {
				t = []byte(subs[r.Intn(j)].Topic)
			}
			q := byte(r.Intn(3))
			subs = append(subs, mqtt.Subscription{Topic: string(t), QoS: mqtt.QoS(q)})
			topics = append(topics, string(t))
			cs = append(cs, cTuple(c05Z(t), fmt.Sprint(q)))
			ts = append(ts, c05Z(t))
		}
		ctx, cancel := ctxTimeout(5 * time.Second)
		_, e1 := s.cli.Subscribe(ctx, append([]mqtt.Subscription{}, subs...)...)
		e2 := s.cli.Unsubscribe(ctx, topics...)
		cancel()
		var w [][]byte
		for _, e := range s.snapshot() {
			if e.Kind == "write" {
				w = append(w, e.Pkt)
			}
		}
		c05CloseWait(s.cli)
		if e1 != nil || e2 != nil || len(w) != 2 {
			c05F.add("sub", fmt.Sprintf("Subscribe returned %v, Unsubscribe returned %v, %d packets written (acknowledging broker)", e1, e2, len(w)), fmt.Sprintf("%v", subs))
			continue
		}
		subCases = append(subCases, cTuple(cListInline(cs), c05Z(w[0])))
		unsubCases = append(unsubCases, cTuple(cListInline(ts), c05Z(w[1])))
		dist["subscribe"]++
		dist["unsubscribe"]++
		if n > 1 {
			dist["subscribe_multi_filter"]++
		}
		fc := map[string]interface{}{"subs": fmt.Sprintf("%v", subs), "bytes": fmt.Sprintf("%x", w[0])}
		m.Families["sub"] = append(m.Families["sub"], fc)
		m.Families["unsub"] = append(m.Families["unsub"], map[string]interface{}{"topics": topics, "bytes": fmt.Sprintf("%x", w[1])})
		if i == 0 {
			m.Samples = append(m.Samples, fc)
		}
	}
	cf.def("sub_cases", "list (list (str * N) * list N)", cList(subCases))
	cf.def("unsub_cases", "list (list str * list N)", cList(unsubCases))
	cf.result("V_sub", "c05_sub_violations sub_cases")
	cf.result("V_unsub", "c05_unsub_violations unsub_cases")

	// ---------- small packets: PINGREQ, DISCONNECT, and the reader's acknowledgements ----------
	var smallCases []string
	for i := 0; i < 30*scale; i++ {
		if c05F.tooMany("small") {
			break
		}
		s, err := newSession(true, autoAck)
		if err != nil {
			c05F.add("small", fmt.Sprintf("session could not be established: %v", err), nil)
			continue
		}
		id1 := uint16([]int{1, 255, 256, 65535, r.Intn(65536)}[r.Intn(5)])
		id2 := uint16(1 + r.Intn(65535))
		s.conn.send(encPublish(inMsg{Topic: []byte("t"), QoS: 1, ID: id1, Payload: []byte{1}}))
		s.conn.send(encPublish(inMsg{Topic: []byte("t"), QoS: 2, ID: id2, Payload: []byte{2}}))
		s.conn.send(encID(0x62, id2))
		ctx, cancel := ctxTimeout(5 * time.Second)
		smallCase := map[string]interface{}{"broker_sends": fmt.Sprintf("PUBLISH(q1,id%d) PUBLISH(q2,id%d) PUBREL(%d), then answers PINGREQ", id1, id2, id2)}
		if err := s.cli.Ping(ctx); err != nil {
			c05F.add("small", fmt.Sprintf("Ping behind three inbound packets failed: %v", err), smallCase)
		}
		// the PINGRESP is behind the three inbound packets: all acknowledgements are written by now
		if err := s.cli.Disconnect(ctx); err != nil {
			c05F.add("small", fmt.Sprintf("Disconnect failed: %v", err), smallCase)
		}
		cancel()
		c05CloseWait(s.cli)
		var w []string
		for _, e := range s.snapshot() {
			if e.Kind == "write" {
				w = append(w, cBytes(e.Pkt))
			}
		}
		smallCases = append(smallCases, cTuple(fmt.Sprint(id1), fmt.Sprint(id2), cListInline(w)))
		dist["small_packet_sessions"]++
		m.Families["small"] = append(m.Families["small"], map[string]interface{}{"id1": id1, "id2": id2, "writes": w})
	}
	cf.def("small_cases", "list (N * N * list (list N))", cList(smallCases))
	cf.result("V_small", "c05_small_violations small_cases")

	// ---------- remaining length codec ----------
	var lenCases []string
	lens := []int{}
	for _, b := range []int{0, 127, 128, 16383, 16384, 2097151, 2097152, 268435455} {
		for d := -3; d <= 3; d++ {
			if b+d >= 0 {
				lens = append(lens, b+d)
			}
		}
	}
	lens = append(lens, 268435456, 1<<31, 1<<40)
	for i := 0; i < 300*scale; i++ {
		lens = append(lens, int(r.Int63n(1<<uint(1+r.Intn(28)))))
	}
	for _, n := range lens {
		b, panicked := mqtt.VerifRemainingLength(n)
		lenCases = append(lenCases, cTuple(fmt.Sprint(n), cOpt(!panicked, cBytes(b))))
		m.Families["len"] = append(m.Families["len"], map[string]interface{}{"n": n, "bytes": fmt.Sprintf("%x", b), "panicked": panicked})
	}
	dist["remaining_length_values"] = len(lens)
	cf.def("len_cases", "list (N * option (list N))", cList(lenCases))
	cf.result("V_len", "c05_len_violations len_cases")

	// ---------- big payloads: header prefix + total length ----------
	var bigCases []string
	bigs := []int{100, 16383 - 20, 16384, 2097151 - 7, 2097152, 3000000}
	if cfg.tier != "quick" {
		bigs = append(bigs, 268435455-9, 268435455-8, 268435455-7, 268435455)
	}
	for _, n := range bigs {
		for _, qos := range []byte{0, 1} {
			var rec interface{}
			s, err := newSession(false, autoAck)
			if err != nil {
				c05F.add("big", fmt.Sprintf("session could not be established: %v", err), nil)
				continue
			}
			msg := &mqtt.Message{Topic: "big", Payload: make([]byte, n), QoS: mqtt.QoS(qos), ID: 7}
			ctx, cancel := ctxTimeout(60 * time.Second)
			func() {
				defer func() { rec = recover() }()
				_ = s.cli.Publish(ctx, msg)
			}()
			cancel()
			s.conn.mu.Lock()
			var prefix []byte
			total := 0
			if len(s.conn.writes) > 1 {
				prefix = s.conn.writes[1]
				total = s.conn.wlens[1]
			}
			s.conn.mu.Unlock()
			c05CloseWait(s.cli)
			if len(prefix) > 16 {
				prefix = prefix[:16]
			}
			bigCases = append(bigCases, cTuple(fmt.Sprint(n), fmt.Sprint(qos), cBool(rec != nil), cBytes(prefix), fmt.Sprint(total)))
			dist["big_publish"]++
			m.Families["big"] = append(m.Families["big"], map[string]interface{}{"payload_len": n, "qos": qos, "panicked": rec != nil, "prefix": fmt.Sprintf("%x", prefix), "total": total})
		}
	}
	cf.def("big_cases", "list (N * N * bool * list N * N)", cList(bigCases))
	cf.result("V_big", "c05_big_violations big_cases")

	// ---------- inbound PUBLISH: delivered with exactly the encoded topic, payload and flags ----------
	var inCases []string
	nValid := 0
	for i := 0; i < 160*scale; i++ {
		im := inMsg{Topic: c05RandStr(r), Payload: c05RandPayload(r), QoS: byte(r.Intn(3)), Retain: r.Intn(2) == 0, Dup: r.Intn(2) == 0}
		if im.QoS > 0 {
			im.ID = uint16([]int{0, 1, 255, 256, 65535, r.Intn(65536)}[r.Intn(6)])
		}
		if r.Intn(5) == 0 {
			im.Topic = append(im.Topic, []byte{0xE6, 0x97, 0xA5, 0xF0, 0x9F, 0x98, 0x80}...)
		}
		if c05F.tooMany("inpub") {
			break
		}
		s, err := newSession(true, autoAck)
		if err != nil {
			c05F.add("inpub", fmt.Sprintf("session could not be established: %v", err), nil)
			continue
		}
		s.conn.send(encPublish(im))
		if im.QoS == 2 {
			s.conn.send(encID(0x62, im.ID))
		}
		s.conn.finish()
		if !s.waitDone(20 * time.Second) {
			c05F.add("inpub", "the reader did not finish within 20 s after the peer closed", fmt.Sprintf("%+v", im))
			s.cli.Close()
		}
		var got *mqtt.Message
		for _, e := range s.snapshot() {
			if e.Kind == "hand" {
				got = e.Msg
			}
		}
		valid := validNoNul(im.Topic)
		if valid {
			nValid++
		}
		obs := "None"
		if got != nil {
			obs = "(Some " + c05ZMsg(got) + ")"
		}
		inCases = append(inCases, cTuple(c05Msg(im.Topic, im.ID, im.QoS, im.Retain, im.Dup, im.Payload), cBool(valid), obs))
		dist["inbound_publish"]++
		m.Families["inpub"] = append(m.Families["inpub"], map[string]interface{}{"sent": fmt.Sprintf("%+v", im), "valid_utf8_no_nul": valid, "delivered": fmt.Sprintf("%+v", got)})
	}
	dist["inbound_publish_valid_utf8"] = nValid
	cf.def("inpub_cases", "list (message * bool * option message)", cList(inCases))
	cf.result("V_inpub", "c05_inpub_violations inpub_cases")
	cf.result("M_inpub", "c05_inpub_mismatches inpub_cases")

	// ---------- inbound length decoding around every boundary ----------
	var inbigCases []string
	inbigs := []int{0, 1, 120, 121, 122, 123, 16376, 16377, 16378, 16379, 2097144, 2097145, 2097146, 2097147, 2097148, 3000000}
	if cfg.tier != "quick" {
		inbigs = append(inbigs, 20000000, 268435455-5)
	}
	for _, n := range inbigs {
		s, err := newSession(true, nil)
		if err != nil {
			c05F.add("inbig", fmt.Sprintf("session could not be established: %v", err), nil)
			continue
		}
		pkt := encPublish(inMsg{Topic: []byte("big"), QoS: 0, Payload: make([]byte, n)})
		s.conn.send(pkt)
		s.conn.finish()
		if !s.waitDone(60 * time.Second) {
			c05F.add("inbig", "the reader did not finish within 60 s after the peer closed", fmt.Sprintf("QoS 0 PUBLISH with %d payload bytes", n))
			s.cli.Close()
		}
		got := -1
		for _, e := range s.snapshot() {
			if e.Kind == "hand" {
				got = len(e.Msg.Payload)
			}
		}
		hdr := pkt[:8]
		inbigCases = append(inbigCases, cTuple(cBytes(hdr), fmt.Sprint(n), fmt.Sprint(got+1)))
		dist["big_inbound"]++
		m.Families["inbig"] = append(m.Families["inbig"], map[string]interface{}{"payload_len": n, "header": fmt.Sprintf("%x", hdr), "delivered_payload_len": got})
	}
	cf.def("inbig_cases", "list (list N * N * N)", cList(inbigCases))
	cf.result("V_inbig", "c05_inbig_violations inbig_cases")

	// ---------- inbound sequences and retry handles (c05flows.go) ----------
	nInseq, err := c05Inseq(cfg, r, cf, m, dist, scale)
	if err != nil {
		return err
	}
	nRetry, err := c05Retry(cfg, r, cf, m, dist, scale)
	if err != nil {
		return err
	}

	nLong, err := c05Long(cfg, r, cf, m, dist)
	if err != nil {
		return err
	}

	nResub, err := c05Resub(cfg, cf, m, dist)
	if err != nil {
		return err
	}
	nInread, err := c05Inread(cfg, r, cf, m, dist, scale)
	if err != nil {
		return err
	}
	nParked, err := c05Parked(cfg, r, cf, m, dist, scale)
	if err != nil {
		return err
	}
	nTrunc, err := c05Intrunc(cfg, r, cf, m, dist)
	if err != nil {
		return err
	}

	total := 0
	keys := []string{}
	for k, v := range dist {
		m.Distribution[k] = v
		keys = append(keys, k)
	}
	sort.Strings(keys)
	total = len(connCases) + len(pubCases) + len(subCases) + len(unsubCases) + len(smallCases) + len(lenCases) + len(bigCases) + len(inCases) + len(inbigCases) + nInseq + nRetry + nLong + nResub + nInread + nParked + nTrunc
	m.Evaluations = total
	m.DistinctNontrivial = len(connCases) + len(pubCases) + len(subCases) + len(inCases) - dist["publish_rejected"] + nInseq + nRetry + nLong + nLong
	m.Rule = "public API only: Connect with random option combinations (will, credentials, levels, keep-alive), Publish (all QoS/retain/ids, MaxPayloadLen boundaries, invalid QoS), Subscribe/Unsubscribe lists, Ping/Disconnect and the reader's acknowledgements on an in-memory transport; bytes written are compared with the model and decoded by the independent decoder inside Coq; remainingLength at every boundary +-3 and random values; payload lengths across the 1/2/3/4-byte boundaries as header prefix + total length; inbound PUBLISH delivered through the real serve loop; inbound sequences (60 systematic: a QoS 2 PUBLISH, 1-4 packets of one kind with shorter/equal/longer bodies, its PUBREL; random: PUBLISH of all QoS, stray acknowledgements, SUBACKs, PINGRESPs, every QoS 2 message released after 1-4 other packets) fed as one byte stream, the handler's snapshots compared with the independent decoder's reading of the stream; retry handles: QoS 1/2 Publish, Subscribe, Unsubscribe interrupted by a write error / the peer closing / context cancellation at every point of the exchange, the returned ErrorWithRetry retried on a fresh connected BaseClient (and interrupted once more: retry of a retry), every packet handed to every transport decoded inside Coq. length-prefixed fields of 65,534 / 65,535 / 65,536 / 65,537 / 70,000 / 131,072 / 131,073 bytes in every position (CONNECT client id, will topic, will payload, user name, password; every SUBSCRIBE / UNSUBSCRIBE filter position; PUBLISH topic): either rejected (error or recovered panic) with nothing written, or the written packet decodes to the request. re-subscription: Subscribe/Unsubscribe histories through a RetryClient whose broker grants min(requested, cap) (last scenarios: 0x80), connection cut, fresh BaseClient via SetClient, Connect without session, Resubscribe+Retry, once or twice; every packet after the CONNECT of the later connections decoded. inbound streams delivered in chosen Read segments (several packets in one Read, one packet per Read, boundaries inside fixed headers, random) on a segment transport; messages published through a RetryClient while its retry queue is not empty (during the outage / before Retry()), every field set, compared with the application's request. large inbound PUBLISH (remaining length 65,537 / 100,000 / 300,000) cut by the end of the stream after 1 byte, at 64 KiB, at len-1, and complete ones of 65,535 / 65,536 / 65,537 / 300,000; SUBSCRIBE/UNSUBSCRIBE histories through a RetryClient incl. unsubscribing filters it never subscribed, on fresh and resumed sessions, the wire compared with the requests in order. distinct_nontrivial = connect + accepted publish + subscribe + inbound cases + inbound sequences + retry scripts + long-field cases + re-subscription scenarios + read-segment cases + parked-publish scenarios (randomly generated, duplicates not removed: counted conservatively as generated minus rejected)"
	_ = context.Background
	if err := cf.write(cfg.outDir); err != nil {
		return err
	}
	return m.write(cfg.outDir)
}

func min(a, b int) int {
	if a < b {
		return a
	}
	return b
}
