package main

// C20 — generators: scripted schedules (the scenarios of the seeded changes and of DESIGN §7),
// random schedules, and the directed nesting scenarios with ServeAsync registered directly in a
// ServeMux and a ServeMux directly behind a ServeAsync.

import (
	"fmt"
	"math/rand"
	"runtime"
	"sort"
	"strings"
	"sync"
	"time"

	mqtt "github.com/at-wat/mqtt-go"
)

func init() { register("C20", runC20) }

// Serve is a public API: any Go string is a legal topic, valid UTF-8 or not. Contents are compared as
// BYTE strings everywhere (Go side: ==, never after a rune round trip; Coq side: lists of bytes).
var c20Topics = []string{"a/b", "a/c", "a", "x/y", "a/b/c", "é/b",
	"\xff/b",                  // a byte that never occurs in UTF-8
	"a/\x80",                  // lone continuation byte
	"a/\xe6\x97",              // truncated 3-byte sequence
	"\xed\xa0\x80/b",          // encoded surrogate
	"a/\xc0\x80",              // overlong NUL
	"a\x00b/c",                // embedded NUL
	"\xf4\x90\x80\x80/\xfe\xff", // beyond U+10FFFF, BOM-like bytes
	"a/" + c20Long,            // very long
	""}
var c20Long = strings.Repeat("long-level-\xe6\x97\xa5-\xff-", 12)
var c20VeryLong = strings.Repeat("very-long-level-\xe6\x97\xa5-\xff-\x00-", 100)
var c20Filters = []string{"a/#", "a/+", "#", "x/y", "+/b", "a/b", "+/+", "a", "a/b/#", "é/+",
	"\xff/+", "a/\x80", "+/\xe6\x97", "\xed\xa0\x80/#", "a\x00b/+", "a/\xc0\x80"}

func c20RandContent(r *rand.Rand) c20Content {
	c := c20Content{Topic: c20Topics[r.Intn(len(c20Topics)-1)], ID: uint16(r.Intn(65536)), QoS: byte(r.Intn(3)),
		Retain: r.Intn(2) == 0, Dup: r.Intn(2) == 0}
	n := r.Intn(6)
	if r.Intn(8) == 0 {
		n = 0
	}
	if r.Intn(40) == 0 {
		n = 40 + r.Intn(30) // long (a really long one is in the scripted scenario: every write makes a new content to transmit)
	}
	c.Payload = make([]byte, n)
	for i := range c.Payload {
		c.Payload[i] = byte(1 + r.Intn(255))
	}
	if n > 0 && r.Intn(4) == 0 {
		// invalid UTF-8 and NUL in the payload as well
		bad := [][]byte{{0xff}, {0x80}, {0xe6, 0x97}, {0xed, 0xa0, 0x80}, {0xc0, 0x80}, {0}}[r.Intn(6)]
		copy(c.Payload, bad)
	}
	return c
}

func c20RandBytes(r *rand.Rand, n int) []byte {
	b := make([]byte, n)
	for i := range b {
		b[i] = byte(1 + r.Intn(255))
	}
	return b
}

// one random mutator operation on a message that currently looks like m
func c20RandOp(r *rand.Rand, m *mqtt.Message) []*c20Op {
	ln, cp := len(m.Payload), cap(m.Payload)
	switch x := r.Intn(20); {
	case x < 3:
		return []*c20Op{{Kind: "topic", S: c20Topics[r.Intn(len(c20Topics))]}}
	case x < 4:
		return []*c20Op{{Kind: "id", N: r.Intn(65536)}}
	case x < 5:
		return []*c20Op{{Kind: "qos", N: r.Intn(3)}}
	case x < 6:
		return []*c20Op{{Kind: "retain", B: r.Intn(2) == 0}}
	case x < 7:
		return []*c20Op{{Kind: "dup", B: r.Intn(2) == 0}}
	case x < 10:
		return []*c20Op{{Kind: "write", I: r.Intn(ln + 2), V: byte(r.Intn(256))}}
	case x < 11: // overwrite every payload byte
		var ops []*c20Op
		for i := 0; i < ln; i++ {
			ops = append(ops, &c20Op{Kind: "write", I: i, V: byte(0xE0 + i)})
		}
		if len(ops) == 0 {
			ops = append(ops, &c20Op{Kind: "dup", B: true})
		}
		return ops
	case x < 15: // append: within the spare capacity if there is some, else past it
		n := 1 + r.Intn(3)
		if cp > ln && r.Intn(4) > 0 {
			n = 1 + r.Intn(cp-ln)
		}
		return []*c20Op{{Kind: "append", Bs: c20RandBytes(r, n)}}
	case x < 18:
		lo := r.Intn(cp + 1)
		hi := lo + r.Intn(cp-lo+2)
		if r.Intn(3) == 0 {
			lo = 0
			hi = cp // expose the whole spare capacity
		}
		return []*c20Op{{Kind: "reslice", I: lo, Hi: hi}}
	default:
		return []*c20Op{{Kind: "newpayload", Bs: c20RandBytes(r, r.Intn(4)), Extra: r.Intn(3)}}
	}
}

// everything at once: what the seeded demos call "scribble over everything"
func c20Scribble(m *mqtt.Message, topic string) []*c20Op {
	ops := []*c20Op{{Kind: "topic", S: topic}, {Kind: "id", N: 0xFFFF}, {Kind: "qos", N: 2},
		{Kind: "retain", B: !m.Retain}, {Kind: "dup", B: !m.Dup}}
	for i := range m.Payload {
		ops = append(ops, &c20Op{Kind: "write", I: i, V: 0xEE})
	}
	ops = append(ops, &c20Op{Kind: "append", Bs: []byte{0xAA}})
	return ops
}

func c20Muts(ops []*c20Op) []*c20Item {
	var its []*c20Item
	for _, o := range ops {
		its = append(its, &c20Item{kind: "mut", op: o})
	}
	return its
}

// c20RandWraps turns some registrations into user types built on ServeMux / ServeAsync by embedding
// (or, as a control, by a named field), at varied positions among the ordinary handlers.
func c20RandWraps(r *rand.Rand, regs [][]c20Reg) ([][]c20Reg, map[int]c20Wrap) {
	wraps := map[int]c20Wrap{}
	if r.Intn(5) < 2 {
		return regs, wraps
	}
	hid := 0
	for _, rs := range regs {
		hid += len(rs)
	}
	byValue := map[int]bool{}
	n := 1 + r.Intn(3)
	for k := 0; k < n; k++ {
		i := r.Intn(len(regs))
		var w c20Wrap
		if i+1 < len(regs) && r.Intn(3) > 0 {
			w = c20Wrap{Kind: []string{"embedmux", "embedmuxptr", "fieldmux"}[r.Intn(3)], Inner: i + 1 + r.Intn(len(regs)-i-1)}
			if w.Kind == "embedmux" {
				if byValue[w.Inner] {
					w.Kind = "embedmuxptr"
				}
				byValue[w.Inner] = true
			}
		} else {
			w = c20Wrap{Kind: []string{"embedasync", "embedasyncptr"}[r.Intn(2)], Inner: r.Intn(2)}
		}
		f := []string{"#", "a/#", "+/+", "a/+", "+/b"}[r.Intn(5)]
		pos := r.Intn(len(regs[i]) + 1)
		if r.Intn(3) == 0 {
			pos = 0
		}
		rs := append([]c20Reg{}, regs[i][:pos]...)
		rs = append(rs, c20Reg{f, hid})
		regs[i] = append(rs, regs[i][pos:]...)
		wraps[hid] = w
		hid++
	}
	return regs, wraps
}

func c20RandRegs(r *rand.Rand) [][]c20Reg {
	nm := 1 + r.Intn(3)
	regs := make([][]c20Reg, nm)
	hid := 0
	for i := range regs {
		k := 2 + r.Intn(4)
		for j := 0; j < k; j++ {
			f := c20Filters[r.Intn(len(c20Filters))]
			if j < 2 && r.Intn(2) == 0 {
				f = []string{"#", "a/#", "+/+"}[r.Intn(3)]
			}
			regs[i] = append(regs[i], c20Reg{f, hid})
			hid++
		}
	}
	return regs
}

// a random schedule, decided online from what the implementation did so far
func c20Random(r *rand.Rand, x *c20Exec, maxSteps int) {
	x.preroll(64 + r.Intn(8))
	x.doNew(c20RandContent(r), r.Intn(4), r.Intn(4) == 0)
	callers, asyncs := 1, 0
	for len(x.steps) < maxSteps && !x.aborted {
		var actors []*c20Agent
		for _, a := range x.agents {
			if x.canAct(a) {
				actors = append(actors, a)
			}
		}
		var nexts []*c20Frame
		for _, f := range x.frames {
			if x.canNext(f) {
				nexts = append(nexts, f)
			}
		}
		var pend []*c20Agent
		for _, a := range x.agents {
			if a.gate != nil && !a.started {
				pend = append(pend, a)
			}
		}
		var rets []*c20Agent
		for _, a := range x.agents {
			if x.canReturn(a) {
				rets = append(rets, a)
			}
		}
		switch k := r.Intn(24); {
		case k >= 20 && len(rets) > 0:
			x.doReturn(rets[r.Intn(len(rets))])
		case k >= 20 && len(pend) > 0:
			x.doRun(pend[r.Intn(len(pend))])
		case k < 1 && callers < 3:
			x.doNew(c20RandContent(r), r.Intn(4), false)
			callers++
		case k < 5 && len(nexts) > 0:
			x.doNext(nexts[r.Intn(len(nexts))])
		case k < 7 && len(pend) > 0:
			x.doRun(pend[r.Intn(len(pend))])
		case len(actors) > 0:
			a := actors[r.Intn(len(actors))]
			if r.Intn(3) > 0 { // prefer the most recently created holders: siblings and forwarders
				a = actors[len(actors)-1-r.Intn((len(actors)+1)/2)]
			}
			var items []*c20Item
			if a.wrap != nil && a.live && !a.acted && r.Intn(4) > 0 {
				// a wrapper's overriding Serve: edit what it received (strip a prefix, decode in place,
				// clear a flag), then call the Serve of what it embeds
				a.acted = true
				ops := []*c20Op{{Kind: "topic", S: c20Topics[r.Intn(len(c20Topics))]}, {Kind: "retain", B: !a.ptr.Retain}}
				for i := range a.ptr.Payload {
					ops = append(ops, &c20Op{Kind: "write", I: i, V: a.ptr.Payload[i] ^ 0x5A})
				}
				if r.Intn(2) == 0 {
					ops = append(ops, c20RandOp(r, a.ptr)...)
				}
				items = c20Muts(ops)
				if d := x.delegateItem(a); d != nil {
					if d.kind == "async" {
						asyncs++
					}
					items = append(items, d)
				}
				x.doBurst(a, items)
				continue
			}
			if r.Intn(2) == 0 {
				items = append(items, c20Muts(c20RandOp(r, a.ptr))...)
			}
			if asyncs < 6 && r.Intn(3) == 0 {
				it := &c20Item{kind: "async", hid: 100 + asyncs}
				if j := r.Intn(2); r.Intn(2) == 0 && x.canShared(j) {
					it.shared, it.hid = j+1, 200+j // a long-lived ServeAsync value, used for several dispatches
				}
				items = append(items, it)
				asyncs++
				// the dispatcher goes on mutating its message right after Serve returned
				if r.Intn(4) > 0 {
					items = append(items, c20Muts(c20RandOp(r, a.ptr))...)
					if r.Intn(2) == 0 {
						items = append(items, c20Muts(c20Scribble(a.ptr, c20Topics[r.Intn(len(c20Topics))]))...)
					}
				}
			}
			if len(x.frames) < 4 && r.Intn(3) == 0 {
				items = append(items, &c20Item{kind: "mux", mi: r.Intn(len(x.muxes))})
			}
			if len(items) == 0 {
				items = c20Muts(c20RandOp(r, a.ptr))
			}
			x.doBurst(a, items)
		}
	}
	x.drain(func(n int) int { return r.Intn(n) })
}

// ---- scripted scenarios ----

func c20Agt(x *c20Exec, i int) *c20Agent {
	if i < len(x.agents) {
		return x.agents[i]
	}
	x.fail("harness script: agent %d does not exist (a handler was not entered)", i)
	return &c20Agent{}
}

func c20Frm(x *c20Exec, i int) *c20Frame {
	if i < len(x.frames) {
		return x.frames[i]
	}
	x.fail("harness script: activation %d does not exist", i)
	return &c20Frame{done: true}
}

var c20Scripts = []struct {
	name string
	regs [][]c20Reg
	run  func(x *c20Exec)
}{
	{"siblings: first handler scribbles over everything, later ones (and a filter matching only the scribbled topic) observe",
		[][]c20Reg{{{"a/#", 0}, {"a/+", 1}, {"x/y", 2}, {"#", 3}}},
		func(x *c20Exec) {
			x.doNew(c20Content{Topic: "a/b", ID: 0x1234, QoS: 1, Retain: true, Dup: true, Payload: []byte{1, 2, 3}}, 0, false)
			x.doBurst(c20Agt(x, 0), []*c20Item{{kind: "mux", mi: 0}})
			x.doBurst(c20Agt(x, 1), c20Muts(c20Scribble(c20Agt(x, 1).ptrOr(), "x/y")))
			x.doNext(c20Frm(x, 0))
			x.doNext(c20Frm(x, 0))
			x.doNext(c20Frm(x, 0))
		}},
	{"payload with spare capacity: handler appends within capacity, reslices to full capacity, writes; sibling and caller observe",
		[][]c20Reg{{{"#", 0}, {"#", 1}}},
		func(x *c20Exec) {
			x.doNew(c20Content{Topic: "t", ID: 1, QoS: 0, Payload: []byte{1, 2, 3}}, 4, false)
			x.doBurst(c20Agt(x, 0), []*c20Item{{kind: "mux", mi: 0}})
			h := c20Agt(x, 1)
			x.doBurst(h, c20Muts([]*c20Op{{Kind: "append", Bs: []byte{9, 9}}, {Kind: "reslice", I: 0, Hi: 64}, {Kind: "reslice", I: 0, Hi: 3},
				{Kind: "write", I: 0, V: 7}, {Kind: "append", Bs: []byte{5, 5, 5, 5, 5, 5, 5, 5, 5}}}))
			x.doNext(c20Frm(x, 0))
			x.doBurst(c20Agt(x, 2), c20Muts([]*c20Op{{Kind: "write", I: 2, V: 8}, {Kind: "append", Bs: []byte{6}}}))
			x.doNext(c20Frm(x, 0))
			x.doBurst(c20Agt(x, 0), c20Muts([]*c20Op{{Kind: "append", Bs: []byte{4, 4}}, {Kind: "reslice", I: 1, Hi: 7}}))
		}},
	{"forwarder: a ServeMux handler hands its copy to a ServeAsync and then redacts it in place; the asynchronous handler runs later",
		[][]c20Reg{{{"a/#", 0}}},
		func(x *c20Exec) {
			x.doNew(c20Content{Topic: "a/b", ID: 7, QoS: 1, Retain: true, Dup: true, Payload: []byte{0x10, 0x5A, 0xA5}}, 0, false)
			x.doBurst(c20Agt(x, 0), []*c20Item{{kind: "mux", mi: 0}})
			h := c20Agt(x, 1)
			items := []*c20Item{{kind: "async", hid: 100}}
			items = append(items, c20Muts([]*c20Op{{Kind: "topic", S: "redacted"}, {Kind: "id", N: 0}, {Kind: "qos", N: 0},
				{Kind: "retain", B: false}, {Kind: "dup", B: false}, {Kind: "write", I: 0, V: 0}, {Kind: "write", I: 1, V: 0}, {Kind: "write", I: 2, V: 0}})...)
			x.doBurst(h, items)
			x.doNext(c20Frm(x, 0))
			x.doRun(c20Agt(x, 2))
		}},
	{"caller reuses one Message and one buffer for successive asynchronous dispatches; goroutines run in reverse order",
		[][]c20Reg{{{"#", 0}}},
		func(x *c20Exec) {
			x.doNew(c20Content{Topic: "t/0", ID: 1, QoS: 0, Payload: []byte{0, 0}}, 2, false)
			for i := 1; i <= 3; i++ {
				items := []*c20Item{{kind: "async", hid: 100 + i}}
				items = append(items, c20Muts([]*c20Op{{Kind: "topic", S: fmt.Sprintf("t/%d", i)}, {Kind: "id", N: i + 1}, {Kind: "qos", N: i % 3},
					{Kind: "retain", B: i%2 == 0}, {Kind: "dup", B: i%2 == 1}, {Kind: "write", I: 0, V: byte(i)}, {Kind: "write", I: 1, V: byte(0xF0 + i)},
					{Kind: "append", Bs: []byte{byte(i)}}, {Kind: "reslice", I: 0, Hi: 2}})...)
				x.doBurst(c20Agt(x, 0), items)
			}
			x.doRun(c20Agt(x, 3))
			x.doRun(c20Agt(x, 2))
			x.doRun(c20Agt(x, 1))
		}},
	{"retained pointer: the handler of the first message keeps its pointer and mutates it while a later message is being served; asynchronous handler dispatches into a ServeMux",
		[][]c20Reg{{{"a/#", 0}, {"#", 1}}, {{"#", 2}, {"a/b", 3}}},
		func(x *c20Exec) {
			x.doNew(c20Content{Topic: "a/b", ID: 1, QoS: 1, Payload: []byte{1, 1, 1}}, 3, false)
			x.doBurst(c20Agt(x, 0), []*c20Item{{kind: "mux", mi: 0}})         // agent1 = h0 of message 1
			x.doNext(c20Frm(x, 0))                                           // h0 returns (keeps pointer), agent2 = h1
			x.doNext(c20Frm(x, 0))                                           // Serve returns
			x.doBurst(c20Agt(x, 0), c20Muts([]*c20Op{{Kind: "topic", S: "a/c"}, {Kind: "write", I: 0, V: 2}, {Kind: "append", Bs: []byte{2}}})) // second message in the same struct
			x.doBurst(c20Agt(x, 0), []*c20Item{{kind: "mux", mi: 0}})         // agent3 = h0 of message 2
			x.doBurst(c20Agt(x, 1), c20Muts(c20Scribble(c20Agt(x, 1).ptrOr(), "x/y"))) // retained pointer of message 1
			x.doBurst(c20Agt(x, 2), c20Muts([]*c20Op{{Kind: "reslice", I: 0, Hi: 6}, {Kind: "write", I: 4, V: 9}}))
			x.doBurst(c20Agt(x, 3), []*c20Item{{kind: "async", hid: 100}, {kind: "mut", op: &c20Op{Kind: "topic", S: "gone"}}}) // agent4 pending
			x.doNext(c20Frm(x, 1))                                           // agent5 = h1 of message 2
			x.doRun(c20Agt(x, 4))
			x.doBurst(c20Agt(x, 4), []*c20Item{{kind: "mux", mi: 1}})         // ServeMux behind the asynchronous handler
			x.doBurst(c20Agt(x, 6), c20Muts(c20Scribble(c20Agt(x, 6).ptrOr(), "zzz")))
			x.doNext(c20Frm(x, 2))
		}},
}

func init() {
	c20Scripts = append(c20Scripts, struct {
		name string
		regs [][]c20Reg
		run  func(x *c20Exec)
	}{"copy outlives the handler: asynchronous handlers return and keep their pointers; later messages pass through the same and another ServeAsync and a ServeMux; retained holders re-read and re-write; a further message is dispatched and its handler enters after that",
		[][]c20Reg{{{"#", 0}, {"t/+", 1}}},
		func(x *c20Exec) {
			caller := func(i int, items ...*c20Item) {
				ops := []*c20Op{{Kind: "topic", S: fmt.Sprintf("t/%d", i)}, {Kind: "id", N: 100 + i}, {Kind: "qos", N: i % 3},
					{Kind: "retain", B: i%2 == 0}, {Kind: "dup", B: i%2 == 1}, {Kind: "write", I: 0, V: byte(0x10 * i)}, {Kind: "write", I: 2, V: byte(i)}}
				x.doBurst(c20Agt(x, 0), append(c20Muts(ops), items...))
			}
			x.doNew(c20Content{Topic: "t/0", ID: 100, QoS: 1, Retain: true, Payload: []byte{1, 2, 3}}, 1, false)
			caller(1, &c20Item{kind: "async", hid: 200, shared: 1}) // agent1
			x.doRun(c20Agt(x, 1))
			x.doBurst(c20Agt(x, 1), c20Muts([]*c20Op{{Kind: "write", I: 1, V: 0xB1}, {Kind: "dup", B: false}}))
			x.doReturn(c20Agt(x, 1))                                 // keeps the pointer
			caller(2, &c20Item{kind: "async", hid: 200, shared: 1}) // agent2: same ServeAsync value
			x.doRun(c20Agt(x, 2))
			x.doBurst(c20Agt(x, 2), c20Muts([]*c20Op{{Kind: "append", Bs: []byte{0xC2}}, {Kind: "topic", S: "kept/2"}}))
			x.doReturn(c20Agt(x, 2))
			caller(3, &c20Item{kind: "async", hid: 201, shared: 2}) // agent3: another long-lived value
			x.doRun(c20Agt(x, 3))
			caller(4, &c20Item{kind: "async", hid: 100}) // agent4: a fresh value, not run yet
			x.doBurst(c20Agt(x, 1), c20Muts(c20Scribble(c20Agt(x, 1).ptrOr(), "kept/1"))) // retained holder re-writes
			x.doRun(c20Agt(x, 4))
			x.doReturn(c20Agt(x, 3))
			x.doReturn(c20Agt(x, 4))
			caller(5, &c20Item{kind: "mux", mi: 0}) // agent5 = h0 (a ServeMux in between)
			x.doNext(c20Frm(x, 0))                  // agent6 = h1
			x.doNext(c20Frm(x, 0))
			caller(6, &c20Item{kind: "async", hid: 200, shared: 1}) // agent7: a further message, not run yet
			for _, k := range []int{1, 2, 3, 4, 5} {              // every retained holder re-reads (snapshot) and re-writes
				x.doBurst(c20Agt(x, k), c20Muts([]*c20Op{{Kind: "topic", S: fmt.Sprintf("late/%d", k)}, {Kind: "write", I: 0, V: byte(0xF0 + k)}, {Kind: "id", N: k}, {Kind: "append", Bs: []byte{byte(k)}}}))
			}
			x.doRun(c20Agt(x, 7))
			x.doReturn(c20Agt(x, 7))
			caller(7, &c20Item{kind: "async", hid: 201, shared: 2}) // agent8
			x.doBurst(c20Agt(x, 7), c20Muts(c20Scribble(c20Agt(x, 7).ptrOr(), "late/7")))
			x.doRun(c20Agt(x, 8))
		}})
}

// scenarios with user types built on ServeMux / ServeAsync registered among ordinary handlers.
// Policy: every handler scribbles over what it received once; a wrapper edits topic, payload and
// flags and then calls the Serve of what it embeds; then it returns and the loop goes on.
func init() {
	c20Scripts = append(c20Scripts, struct {
		name string
		regs [][]c20Reg
		run  func(x *c20Exec)
	}{"topics and payloads that are not UTF-8 (0xff, lone continuation, truncated sequence, encoded surrogate, overlong, NUL), very long and empty, through ServeMux, a nested ServeMux with the same filter bytes, and ServeAsync",
		[][]c20Reg{{{"#", 0}, {"\xff/+", 1}, {"+/\x80", 2}, {"\xed\xa0\x80/#", 3}}, {{"\xff/+", 4}, {"+/\x80", 5}, {"#", 6}}},
		func(x *c20Exec) {
			x.doNew(c20Content{Topic: "\xff/\x80", ID: 1, QoS: 1, Retain: true, Payload: append([]byte{0xff, 0xc0, 0x80, 0, 0xed, 0xa0, 0x80}, []byte(c20VeryLong[:1500])...)}, 1, false)
			for i, t := range []string{"\xff/\x80", "\xed\xa0\x80/a\x00b", "a/" + c20VeryLong, "", "\xff/\xe6\x97"} {
				a0 := c20Agt(x, 0)
				x.doBurst(a0, []*c20Item{{kind: "mut", op: &c20Op{Kind: "topic", S: t}}, {kind: "async", hid: 100 + i}, {kind: "mux", mi: 0}})
				fr := c20Frm(x, len(x.frames)-1)
				// the first handler entered forwards its copy into the second mux (same filter bytes)
				if fr.cur != nil {
					x.doBurst(fr.cur, []*c20Item{{kind: "mux", mi: 1}})
				}
				x.drain(func(n int) int { return 0 })
			}
		}})
}

var c20WrapScripts = []struct {
	name  string
	regs  [][]c20Reg
	wraps map[int]c20Wrap
	msg   c20Content
}{
	{"sub-router embedding ServeMux (value) in the middle, decoder embedding ServeAsync (value) first, named-field control last",
		[][]c20Reg{{{"#", 0}, {"a/#", 1}, {"a/#", 2}, {"a/+", 3}, {"x/y", 4}, {"#", 5}, {"#", 6}}, {{"#", 7}, {"b", 8}}, {{"#", 9}}},
		map[int]c20Wrap{0: {"embedasync", 0}, 2: {"embedmux", 1}, 6: {"fieldmux", 2}},
		c20Content{Topic: "a/b", ID: 0x1234, QoS: 1, Retain: true, Dup: true, Payload: []byte{1, 2, 3}}},
	{"pointer embedding: *ServeMux wrapper first, *ServeAsync wrapper in the middle, ServeMux (value) wrapper last",
		[][]c20Reg{{{"+/+", 0}, {"a/b", 1}, {"#", 2}, {"a/+", 3}, {"#", 4}}, {{"#", 5}}, {{"a/#", 6}, {"#", 7}}},
		map[int]c20Wrap{0: {"embedmuxptr", 1}, 2: {"embedasyncptr", 1}, 4: {"embedmux", 2}},
		c20Content{Topic: "a/b", ID: 9, QoS: 2, Retain: false, Dup: false, Payload: []byte{0xAA, 0xBB}}},
}

func c20WrapPolicy(x *c20Exec, msg c20Content) {
	x.doNew(msg, 2, false)
	x.doBurst(c20Agt(x, 0), []*c20Item{{kind: "mux", mi: 0}})
	for !x.aborted {
		var fr *c20Frame
		for i := len(x.frames) - 1; i >= 0; i-- {
			if x.canNext(x.frames[i]) {
				fr = x.frames[i]
				break
			}
		}
		if fr == nil {
			break
		}
		cur := fr.cur
		if cur.acted {
			x.doNext(fr)
			continue
		}
		cur.acted = true
		if cur.wrap == nil {
			x.doBurst(cur, c20Muts(c20Scribble(cur.ptr, "scribbled/"+fmt.Sprint(cur.id))))
			continue
		}
		ops := []*c20Op{{Kind: "topic", S: "b"}, {Kind: "retain", B: !cur.ptr.Retain}, {Kind: "dup", B: !cur.ptr.Dup}}
		for i := range cur.ptr.Payload {
			ops = append(ops, &c20Op{Kind: "write", I: i, V: cur.ptr.Payload[i] ^ 0x5A})
		}
		items := c20Muts(ops)
		if d := x.delegateItem(cur); d != nil {
			items = append(items, d)
		}
		x.doBurst(cur, items)
	}
	x.doBurst(c20Agt(x, 0), c20Muts([]*c20Op{{Kind: "append", Bs: []byte{7}}})) // the caller reads and goes on with its message
}

func (a *c20Agent) ptrOr() *mqtt.Message {
	if a.ptr != nil {
		return a.ptr
	}
	return &mqtt.Message{}
}

// ---- directed nesting scenarios, no model schedule: (registrations, dispatched, seen on entry, caller afterwards) ----

type c20Nest struct {
	Name   string
	Regs   []c20Reg
	Disp   c20Content
	Seen   []c20Content
	After  c20Content
	Stuck  string
}

func (n c20Nest) coq() string {
	var regs, seen []string
	for _, rg := range n.Regs {
		regs = append(regs, fmt.Sprintf("RReg %s %d", c20Num([]byte(rg.Filter)), rg.Hid))
	}
	for _, s := range n.Seen {
		seen = append(seen, s.coq())
	}
	return cTuple(cListInline(regs), n.Disp.coq(), cListInline(seen), n.After.coq())
}

type c20Seen struct {
	mu   sync.Mutex
	seen map[int]c20Content
	done chan int
}

func (s *c20Seen) handler(hid int, gate chan struct{}) mqtt.Handler {
	return mqtt.HandlerFunc(func(m *mqtt.Message) {
		if gate != nil {
			select {
			case <-gate:
			case <-time.After(4 * c20Wait):
			}
		}
		c := c20Snap(m)
		for _, o := range c20Scribble(m, "scribbled") {
			o.apply(m)
		}
		m.Payload = m.Payload[:cap(m.Payload)]
		for i := range m.Payload {
			m.Payload[i] = 0x77
		}
		s.mu.Lock()
		s.seen[hid] = c
		s.mu.Unlock()
		s.done <- hid
	})
}

func c20CallerMutate(m *mqtt.Message) {
	for _, o := range c20Scribble(m, "caller/changed") {
		o.apply(m)
	}
}

// c20NestRun: shape 0 = ServeAsync values registered directly in a ServeMux;
// shape 1 = a ServeMux directly behind a ServeAsync; shape 2 = mux -> ServeAsync{mux}.
func c20NestRun(r *rand.Rand, shape int) []c20Nest {
	d := c20RandContent(r)
	extra := r.Intn(4)
	var regs []c20Reg
	k := 1 + r.Intn(4)
	for j := 0; j < k; j++ {
		regs = append(regs, c20Reg{c20Filters[r.Intn(len(c20Filters))], j})
	}
	regs = append(regs, c20Reg{"#", k}) // catch-all, registered last: its entry tells that Serve has gone through the list
	s := &c20Seen{seen: map[int]c20Content{}, done: make(chan int, 64)}
	gate := make(chan struct{})
	inner := &mqtt.ServeMux{}
	for _, rg := range regs {
		var h mqtt.Handler
		if shape == 0 {
			h = &mqtt.ServeAsync{Handler: s.handler(rg.Hid, gate)}
		} else {
			h = s.handler(rg.Hid, nil)
		}
		if err := inner.Handle(rg.Filter, h); err != nil {
			return []c20Nest{{Name: "nest", Stuck: "harness: filter rejected " + rg.Filter}}
		}
	}
	m := &mqtt.Message{Topic: d.Topic, ID: d.ID, QoS: mqtt.QoS(d.QoS), Retain: d.Retain, Dup: d.Dup, Payload: make([]byte, len(d.Payload), len(d.Payload)+extra)}
	copy(m.Payload, d.Payload)
	n1 := c20Nest{Regs: regs, Disp: d}
	var top mqtt.Handler
	switch shape {
	case 0:
		n1.Name = "ServeAsync registered directly in a ServeMux; caller mutates after Serve returned; goroutines released afterwards"
		top = inner
	case 1:
		n1.Name = "ServeMux directly behind a ServeAsync; caller mutates right after Serve returned"
		top = &mqtt.ServeAsync{Handler: inner}
	default:
		n1.Name = "ServeMux -> ServeAsync{ServeMux}; caller mutates right after Serve returned"
		outer := &mqtt.ServeMux{}
		outer.Handle("#", &mqtt.ServeAsync{Handler: inner})
		top = outer
	}
	top.Serve(m)
	if shape == 0 {
		n1.After = c20Snap(m) // synchronous part is over: the caller's message as the caller sees it now
	}
	c20CallerMutate(m)
	mine := c20Snap(m)
	if shape != 0 {
		n1.After = d // (the caller's own change is checked by the second case)
	}
	close(gate)
	// every matching registration signals once; '#' (registered last) always matches
	cnt := 0
	for _, rg := range regs {
		if c20Match(rg.Filter, d.Topic) {
			cnt++
		}
	}
	deadline := time.After(c20Wait)
wait:
	for n := 0; n < cnt; {
		select {
		case <-s.done:
			n++
		case <-deadline:
			n1.Stuck = "stuck: handlers behind the nested ServeMux/ServeAsync were not all invoked"
			break wait
		}
	}
	s.mu.Lock()
	var hids []int
	for h := range s.seen {
		hids = append(hids, h)
	}
	sort.Ints(hids)
	for _, h := range hids {
		n1.Seen = append(n1.Seen, s.seen[h])
	}
	s.mu.Unlock()
	n2 := c20Nest{Name: n1.Name + " — caller's own later content", Regs: nil, Disp: mine, Seen: []c20Content{mine}, After: c20Snap(m)}
	return []c20Nest{n1, n2}
}

// MQTT 4.7 matching, harness-side, only to know how many asynchronous handlers to wait for
func c20Match(filter, topic string) bool {
	mux := &mqtt.ServeMux{}
	hit := false
	if mux.Handle(filter, mqtt.HandlerFunc(func(*mqtt.Message) { hit = true })) != nil {
		return false
	}
	mux.Serve(&mqtt.Message{Topic: topic})
	return hit
}

// ---- runner ----

func runC20(cfg *runCfg) error {
	r := rand.New(rand.NewSource(cfg.seed))
	cf := newCasesFile("C20", "Filter", "Clone", "CheckC20")
	m := &meta{Property: "C20", Distribution: map[string]interface{}{}, Families: map[string][]interface{}{}}
	procs := runtime.GOMAXPROCS(0)
	defer runtime.GOMAXPROCS(procs)

	c20Tab, c20TabOrder = map[string]int{}, nil
	flushTab := func() {
		for i, t := range c20TabOrder {
			cf.def(fmt.Sprintf("k%d", c20Tab[t]), "content", t)
			_ = i
		}
		c20TabOrder = nil
	}
	var cases []string
	stat := map[string]int{}
	distinct := map[string]bool{}
	nontrivialCases, nontrivialEntries, steps := 0, 0, 0
	finishCase := func(x *c20Exec, name string) {
		x.finish()
		s := x.coqCase()
		cases = append(cases, s)
		d := x.describe()
		d["scenario"] = name
		m.Families["sched"] = append(m.Families["sched"], d)
		if x.stuck != "" {
			m.ImplViolations = append(m.ImplViolations, map[string]interface{}{"what": x.stuck, "case": d})
		}
		for k, v := range x.stat {
			stat[k] += v
		}
		steps += len(x.steps)
		if !distinct[s] {
			distinct[s] = true
			if x.nontrivial > 0 {
				nontrivialCases++
			}
		}
		nontrivialEntries += x.nontrivial
		if len(m.Samples) < 3 && x.nontrivial > 0 && len(x.steps) < 14 {
			m.Samples = append(m.Samples, d)
		}
	}
	// scripted scenarios, once with a single P (a goroutine started by ServeAsync cannot run before
	// its creator blocks) and once with all of them
	for _, p := range []int{1, procs} {
		runtime.GOMAXPROCS(p)
		for _, sc := range c20Scripts {
			x, err := newC20Exec(sc.regs, nil)
			if err != nil {
				return err
			}
			sc.run(x)
			x.drain(func(n int) int { return 0 })
			finishCase(x, sc.name)
		}
		for _, sc := range c20WrapScripts {
			x, err := newC20Exec(sc.regs, sc.wraps)
			if err != nil {
				return err
			}
			c20WrapPolicy(x, sc.msg)
			x.drain(func(n int) int { return 0 })
			finishCase(x, sc.name)
		}
	}
	nRand, maxSteps := 350, 26
	switch cfg.tier {
	case "thorough":
		nRand, maxSteps = 5000, 40
	case "search":
		nRand, maxSteps = 1500, 34
	}
	for i := 0; i < nRand; i++ {
		if i%2 == 0 {
			runtime.GOMAXPROCS(1)
		} else {
			runtime.GOMAXPROCS(procs)
		}
		x, err := newC20Exec(c20RandWraps(r, c20RandRegs(r)))
		if err != nil {
			return err
		}
		c20Random(r, x, 6+r.Intn(maxSteps))
		finishCase(x, "random")
	}
	runtime.GOMAXPROCS(procs)
	flushTab()
	cf.def("sched_cases", "list c20_case", cList(cases))
	cf.result("V_sched", "c20_entry_violations sched_cases")
	cf.result("V_schediso", "c20_isolation_violations sched_cases")
	cf.result("M_sched", "c20_model_mismatches sched_cases")
	// the three results speak about the same cases
	m.Families["schediso"] = m.Families["sched"]

	// directed nesting scenarios
	nNest := 60
	if cfg.tier != "quick" {
		nNest = 600
	}
	var ncases []string
	for i := 0; i < nNest; i++ {
		if i%2 == 0 {
			runtime.GOMAXPROCS(1)
		} else {
			runtime.GOMAXPROCS(procs)
		}
		for _, n := range c20NestRun(r, i%3) {
			ncases = append(ncases, n.coq())
			var seen []string
			for _, s := range n.Seen {
				seen = append(seen, s.String())
			}
			d := map[string]interface{}{"scenario": n.Name, "dispatched": n.Disp.String(), "seen_on_entry": seen, "caller_afterwards": n.After.String(), "stuck": n.Stuck}
			m.Families["nest"] = append(m.Families["nest"], d)
			if n.Stuck != "" {
				m.ImplViolations = append(m.ImplViolations, map[string]interface{}{"what": n.Stuck, "case": d})
			}
		}
	}
	runtime.GOMAXPROCS(procs)
	flushTab()
	cf.def("nest_cases", "list c20_nest_case", cList(ncases))
	cf.result("V_nest", "c20_nest_violations nest_cases")
	cf.result("M_nest", "c20_nest_mismatches nest_cases")

	// saturation family
	ns := []int{1, 100, 1023, 1024, 1025, 5000}
	if cfg.tier != "quick" {
		ns = []int{1, 100, 1023, 1024, 1025, 1026, 2048, 5000, 20000, 50000}
	}
	var scases []string
	for i, n := range ns {
		for v := 0; v < 2; v++ {
			nvals := 1
			if v == 1 {
				nvals = 2 + r.Intn(7)
			}
			for t := 0; t < 2; t++ {
				parkShape := (i + v + t) % 3
				targetShape := t
				if t == 0 && parkShape == 0 && v == 0 {
					targetShape = 2
				}
				for _, o := range c20SatRun(r, n, nvals, parkShape, targetShape, 2) {
					scases = append(scases, o.coq())
					d := o.describe()
					m.Families["sat"] = append(m.Families["sat"], d)
					if o.Stuck != "" {
						m.ImplViolations = append(m.ImplViolations, map[string]interface{}{"what": o.Stuck, "case": d})
					}
				}
			}
		}
	}
	flushTab()
	cf.def("sat_cases", "list c20_sat_case", cList(scases))
	cf.result("V_sat", "c20_sat_violations sat_cases")
	cf.result("M_sat", "c20_sat_mismatches sat_cases")
	m.Distribution["saturation_cases"] = len(scases)
	m.Distribution["saturation_parked_handlers"] = ns

	m.Evaluations = len(cases) + len(ncases) + len(scases)
	m.DistinctNontrivial = nontrivialCases
	m.Rule = "a schedule case is non-trivial when at least one handler was entered after a holder of the dispatched original or of a sibling copy of the same dispatch had already mutated its message " +
		"(earlier sibling handler wrote before the later one was entered; dispatcher wrote after ServeAsync.Serve returned and before the goroutine ran); distinct by the full (registrations, schedule, observations) text"
	for k, v := range stat {
		m.Distribution[k] = v
	}
	m.Distribution["schedule_cases"] = len(cases)
	m.Distribution["schedule_steps"] = steps
	m.Distribution["entries_after_a_relevant_mutation"] = nontrivialEntries
	m.Distribution["nest_cases"] = len(ncases)
	m.Distribution["scripted_scenarios"] = 2 * (len(c20Scripts) + len(c20WrapScripts))
	if err := cf.write(cfg.outDir); err != nil {
		return err
	}
	return m.write(cfg.outDir)
}
