package main

// C15, second part: two families added in round 3.
//
//   wrapc  the 16-bit / 32-bit wrap-around of the identifier counter UNDER CONTENTION: thousands of
//          short trials, counter placed 0..3g steps below a wrap, g goroutines released together by a
//          spin barrier, each taking a handful of identifiers. Path A: Publish on a never-connected
//          client (identifier taken, then ErrNotConnected; the counter is the only shared thing).
//          Path B: QoS 1 Publish with an already cancelled context on a connected client whose peer
//          never answers (the requests stay outstanding). A deliberately non-atomic control counter
//          bumped by every goroutine tells in how many trials the goroutines really overlapped.
//   retry  the identifier through RetryClient: connections are cut at a chosen PUBLISH attempt,
//          messages (with and without caller-provided identifiers) are submitted during the outage
//          and therefore stored as copies behind the pending retry, new connections with other
//          counter values retransmit them; every PUBLISH attempt seen by the scripted peers (also
//          those on an already dead connection) is compared with the model run_retry (Ids.v).

import (
	"context"
	"fmt"
	"math/rand"
	"runtime"
	"sort"
	"sync"
	"sync/atomic"
	"time"

	mqtt "github.com/at-wat/mqtt-go"
)

// ---------- family wrapc ----------

type c15WrapTrial struct {
	ids      []uint16
	fin      uint32
	overlap  bool
	notTaken bool // path A not applicable: no identifier is assigned before the connection check
}

// one trial as the worker goroutines see it
type c15WrapJob struct {
	cli     *mqtt.BaseClient
	ctx     context.Context
	qos     mqtt.QoS
	g, per  int
	res     [][]uint16
	arrived int32
	done    int32
	ctl     uint32
}

// c15WrapPool: worker goroutines that live through the whole family and spin between trials, so
// that they sit on different processors when a trial starts (goroutines created per trial tend to
// run one after the other on the creator's processor: no overlap at all).
type c15WrapPool struct {
	cur  atomic.Pointer[c15WrapJob]
	stop atomic.Bool
	wg   sync.WaitGroup
}

func c15NewWrapPool(n int) *c15WrapPool {
	p := &c15WrapPool{}
	for k := 0; k < n; k++ {
		p.wg.Add(1)
		go p.worker(k)
	}
	return p
}

func (p *c15WrapPool) worker(k int) {
	defer p.wg.Done()
	var last *c15WrapJob
	for i := 0; ; i++ {
		j := p.cur.Load()
		if j == last {
			if p.stop.Load() {
				return
			}
			if i%512 == 511 {
				runtime.Gosched()
			}
			continue
		}
		last = j
		if k >= j.g {
			continue
		}
		out := make([]uint16, 0, j.per)
		msgs := make([]mqtt.Message, j.per)
		for i := range msgs {
			msgs[i] = mqtt.Message{Topic: "w", QoS: j.qos, Payload: []byte{1}}
		}
		// rendezvous: everybody spins until the last participant has arrived
		atomic.AddInt32(&j.arrived, 1)
		for n := 0; atomic.LoadInt32(&j.arrived) < int32(j.g); n++ {
			if n%4096 == 4095 {
				runtime.Gosched()
			}
		}
		v := atomic.LoadUint32(&j.ctl) + 1 // control: deliberately not atomic as a whole
		atomic.StoreUint32(&j.ctl, v)
		for i := range msgs {
			_ = j.cli.Publish(j.ctx, &msgs[i])
			out = append(out, msgs[i].ID)
		}
		j.res[k] = out
		atomic.AddInt32(&j.done, 1)
	}
}

func (p *c15WrapPool) close() {
	p.stop.Store(true)
	p.wg.Wait()
}

func (p *c15WrapPool) run(s uint32, g, per int, pathB bool) (*c15WrapTrial, error) {
	var cli *mqtt.BaseClient
	var inbound func([]byte)
	ctx := context.Background()
	qos := mqtt.QoS0
	if pathB {
		w, err := c15NewWorld(false)
		if err != nil {
			return nil, err
		}
		w.sink = true
		defer w.close()
		cli = w.s.cli
		if s%2 == 1 {
			inbound = w.s.conn.send
		}
		c, cancel := context.WithCancel(ctx)
		cancel() // Publish takes the identifier, registers, writes, and returns at once
		ctx = c
		qos = mqtt.QoS1
	} else {
		cli = &mqtt.BaseClient{}
	}
	cli.VerifSetIDLast(s)
	j := &c15WrapJob{cli: cli, ctx: ctx, qos: qos, g: g, per: per, res: make([][]uint16, g)}
	if pathB && inbound != nil {
		// inbound packets race with the workers: identifiers at the top of the range and around the counter
		inbound(c15In{Q: 1, ID: 0xFFFF - uint16(g)}.bytes())
		inbound(c15In{Q: 2, ID: uint16(s) + uint16(g)}.bytes())
	}
	p.cur.Store(j)
	deadline := time.Now().Add(c15WaitDur())
	for n := 0; atomic.LoadInt32(&j.done) < int32(g); n++ {
		runtime.Gosched()
		if n%1024 == 1023 && time.Now().After(deadline) {
			atomic.AddInt32(&c15Expired, 1)
			return nil, fmt.Errorf("wrapc: a trial did not finish (start %d, %d goroutines)", s, g)
		}
	}
	t := &c15WrapTrial{fin: cli.VerifIDLast(), overlap: int(atomic.LoadUint32(&j.ctl)) != g}
	for _, r := range j.res {
		t.ids = append(t.ids, r...)
	}
	sort.Slice(t.ids, func(a, b int) bool { return t.ids[a] < t.ids[b] })
	if !pathB && t.fin == s {
		all0 := true
		for _, id := range t.ids {
			if id != 0 {
				all0 = false
			}
		}
		t.notTaken = all0
	}
	return t, nil
}

func c15Wrapc(o *c15Out, r *rand.Rand, tier string) error {
	// per goroutine count: at most nA path-A trials and nB path-B trials, and at most budget of
	// wall time (the trials need all their goroutines on a processor at the same moment: on a
	// loaded machine they are slow, and the number actually run is reported)
	nA, nB, capCases, budget := 4000, 400, 900, 1500*time.Millisecond
	switch tier {
	case "thorough":
		nA, nB, capCases, budget = 150000, 10000, 2500, 15*time.Second
	case "search":
		nA, nB, capCases, budget = 20000, 2000, 900, 6*time.Second
	}
	wraps := []uint32{0xFFFF, 0x1FFFF, 0xFFFFFFFF, uint32(r.Intn(65535)+1)<<16 | 0xFFFF}
	gs := []int{2, 4, 8, 12}
	seen := map[string]int{}
	var counts []int
	trials, overlap, suspicious, dropped := 0, 0, 0, 0
	pathAOff := false
	for _, g := range gs {
		pool := c15NewWrapPool(g)
		t0 := time.Now()
		for i := 0; i < nA+nB; i++ {
			if i%64 == 63 && time.Since(t0) > budget {
				break
			}
			pathB := i%10 == 9 || pathAOff
			if pathAOff && i%8 != 0 {
				continue // path A is not available: do path B at its own (lower) rate
			}
			per := 6
			k := r.Intn(3*g + 1)
			s := wraps[r.Intn(len(wraps))] - uint32(k)
			t, err := pool.run(s, g, per, pathB)
			if err != nil {
				pool.close()
				return err
			}
			if t.notTaken {
				pathAOff = true
				continue
			}
			trials++
			if t.overlap {
				overlap++
			}
			bad := false
			for j, id := range t.ids {
				if id == 0 || (j > 0 && t.ids[j-1] == id) {
					bad = true
				}
			}
			n := g * per
			coq := cTuple(cN(uint64(s)), cN(uint64(n)), cBool(pathB), c15CoqRuns(c15Runs(t.ids)), cN(uint64(t.fin)))
			if idx, ok := seen[coq]; ok {
				counts[idx]++
				continue
			}
			if bad {
				suspicious++
				if suspicious > 40 {
					continue
				}
			} else if len(seen)-suspicious >= capCases {
				dropped++
				continue
			}
			seen[coq] = len(o.wrapc)
			counts = append(counts, 1)
			o.wrapc = append(o.wrapc, coq)
			path := "never-connected client, QoS0 Publish (identifier taken, then ErrNotConnected)"
			if pathB {
				path = "connected client, QoS1 Publish with cancelled context, peer silent (requests stay outstanding)"
			}
			runs := c15Runs(t.ids)
			o.m.Families["wrapc"] = append(o.m.Families["wrapc"], map[string]interface{}{
				"start_counter": s, "goroutines": g, "identifiers_each": per, "path": path,
				"identifiers_sorted_as_runs(first,length)": runs[:c15Min(len(runs), 12)], "counter_afterwards": t.fin})
			o.requests += n
		}
		pool.close()
	}
	for i, c := range counts {
		o.m.Families["wrapc"][i].(map[string]interface{})["trials_with_this_outcome"] = c
	}
	o.nontrivN += len(o.wrapc)
	o.m.Distribution["wrapc"] = map[string]interface{}{
		"trials": trials, "trials_with_overlap_proved_by_control_counter": overlap,
		"distinct_outcomes_sent_to_coq": len(o.wrapc), "distinct_outcomes_not_sent(cap)": dropped,
		"trials_with_zero_or_duplicate": suspicious, "path_A_available": !pathAOff,
		"wraps": wraps, "goroutines": gs, "identifiers_each": 6, "steps_below_wrap": "0..3*goroutines"}
	return nil
}

// ---------- family retry ----------

type c15XOp struct {
	Conn       bool
	Tag        int
	QoS        byte
	Given      uint16
	S          uint32
	Cut        int
	WriteFails bool // how the cut shows: the write itself fails, or it is accepted and the link is lost
}

func (x c15XOp) coq() string {
	if x.Conn {
		return fmt.Sprintf("XConn %d %d%%nat", x.S, x.Cut)
	}
	return fmt.Sprintf("XPub %d %d %d", x.Tag, x.QoS, x.Given)
}

func (x c15XOp) desc() string {
	if x.Conn {
		c := "never cut"
		if x.Cut > 0 {
			c = fmt.Sprintf("cut at PUBLISH attempt %d", x.Cut)
			if x.WriteFails {
				c += " (write fails)"
			}
		}
		return fmt.Sprintf("connect(counter=%d, %s)+Retry", x.S, c)
	}
	if x.Given != 0 {
		return fmt.Sprintf("publish#%d(q%d,id=%d)", x.Tag, x.QoS, x.Given)
	}
	return fmt.Sprintf("publish#%d(q%d)", x.Tag, x.QoS)
}

type c15RConn struct {
	mu       sync.Mutex
	no       int
	attempts int
	cutAt    int
	fails    bool
	dead     bool
	cutCh    chan struct{}
	mc       *memConn
}

type c15Attempt struct{ conn, tag, id int }

func c15RunRetry(o *c15Out, ops []c15XOp) error {
	if c15GiveUp() {
		o.skipped++
		return nil
	}
	rc := &mqtt.RetryClient{}
	var mu sync.Mutex
	var wire []c15Attempt
	var notes []string
	note := func(s string) {
		mu.Lock()
		if len(notes) < 10 {
			notes = append(notes, s)
		}
		mu.Unlock()
	}
	ctx, cancel := ctxTimeout(5 * time.Minute)
	defer cancel()
	var cur *c15RConn
	connNo := 0
	stuck := ""
	newConn := func(op c15XOp) *c15RConn {
		connNo++
		cs := &c15RConn{no: connNo, cutAt: op.Cut, fails: op.WriteFails, cutCh: make(chan struct{})}
		cs.mc = newMemConn(connNo, func(c *memConn, pkt []byte) error {
			typ := pkt[0] >> 4
			_, used := c15Varint(pkt[1:])
			body := pkt[1+used:]
			switch typ {
			case 1:
				c.send(connackOK)
			case 3:
				qos := (pkt[0] >> 1) & 3
				if len(body) < 2 {
					note("short PUBLISH")
					return nil
				}
				tl := int(body[0])<<8 | int(body[1])
				if len(body) < 4+tl || qos == 0 {
					note("PUBLISH without identifier")
					return nil
				}
				tag := 0
				fmt.Sscanf(string(body[2:2+tl]), "t%d", &tag)
				id := int(body[2+tl])<<8 | int(body[3+tl])
				mu.Lock()
				wire = append(wire, c15Attempt{cs.no, tag, id})
				mu.Unlock()
				cs.mu.Lock()
				if cs.dead || c.isClosed() {
					cs.mu.Unlock()
					return nil // an attempt on a dead connection: memConn reports the failure
				}
				cs.attempts++
				if cs.cutAt != 0 && cs.attempts == cs.cutAt {
					cs.dead = true
					cs.mu.Unlock()
					c.Close()
					close(cs.cutCh)
					if cs.fails {
						return errCut
					}
					return nil
				}
				cs.mu.Unlock()
				if qos == 1 {
					c.send(encID(0x40, uint16(id)))
				} else {
					c.send(encID(0x50, uint16(id)))
				}
			case 6:
				if len(body) >= 2 && !c.isClosed() {
					c.send(encID(0x70, uint16(body[0])<<8|uint16(body[1])))
				}
			}
			return nil
		})
		return cs
	}
	// wait until everything submitted so far has been processed, or the connection was cut (the
	// task goroutine then waits for the next connection and the remaining tasks stay queued)
	settle := func() {
		if cur == nil || stuck != "" {
			return
		}
		cur.mu.Lock()
		dead := cur.dead
		cur.mu.Unlock()
		if dead {
			return
		}
		b := make(chan struct{})
		if err := rc.VerifBarrier(b); err != nil {
			stuck = "barrier: " + err.Error()
			return
		}
		select {
		case <-b:
		case <-cur.cutCh:
		case <-time.After(c15WaitDur()):
			atomic.AddInt32(&c15Expired, 1)
			stuck = "tasks not processed and connection not cut"
		}
	}
	for _, op := range ops {
		if stuck != "" {
			break
		}
		if op.Conn {
			if cur != nil {
				cur.mc.Close()
			}
			cs := newConn(op)
			cli := &mqtt.BaseClient{Transport: cs.mc}
			rc.SetClient(ctx, cli)
			if _, err := rc.Connect(ctx, "cid"); err != nil {
				stuck = "connect: " + err.Error()
				break
			}
			// pending publishes only queue copies while the retry queue is non-empty, and the first
			// connection has nothing pending: no identifier is taken before the counter is placed
			cli.VerifSetIDLast(op.S)
			cur = cs
			rc.Retry(ctx)
			settle()
			continue
		}
		m := &mqtt.Message{Topic: fmt.Sprintf("t%d", op.Tag), QoS: mqtt.QoS(op.QoS), ID: op.Given, Payload: []byte{byte(op.Tag)}}
		if err := rc.Publish(ctx, m); err != nil {
			stuck = "publish: " + err.Error()
			break
		}
		settle()
	}
	// end of the scenario: stop the task goroutine
	dctx, dcancel := ctxTimeout(c15WaitDur())
	_ = rc.Disconnect(dctx)
	dcancel()
	if cur != nil {
		cur.mc.Close()
	}
	mu.Lock()
	obs := append([]c15Attempt{}, wire...)
	mu.Unlock()
	var cops, dops, cobs, dobs []string
	for _, op := range ops {
		cops = append(cops, op.coq())
		dops = append(dops, op.desc())
	}
	for _, a := range obs {
		cobs = append(cobs, fmt.Sprintf("(%d,%d,%d)", a.conn, a.tag, a.id))
		dobs = append(dobs, fmt.Sprintf("conn%d:PUBLISH#%d id=%d", a.conn, a.tag, a.id))
	}
	if stuck != "" {
		o.violation("stuck", map[string]interface{}{"operations": dops, "what": stuck})
	}
	for _, n := range notes {
		o.violation("anomaly", n)
	}
	o.retry = append(o.retry, cTuple(cListInline(cops), cListInline(cobs)))
	c := map[string]interface{}{"operations": dops, "publish_attempts_seen_by_the_peers": dobs}
	o.m.Families["retry"] = append(o.m.Families["retry"], c)
	o.requests += len(obs)
	if len(obs) >= 4 {
		o.nontriv[fmt.Sprint("retry", dops)] = true
	}
	if len(o.m.Samples) < 8 && len(obs) >= 4 && len(obs) <= 9 && o.retrySamples < 2 {
		o.retrySamples++
		o.m.Samples = append(o.m.Samples, c)
	}
	return nil
}

func c15GenRetry(r *rand.Rand) []c15XOp {
	tag := 0
	pub := func() c15XOp {
		tag++
		op := c15XOp{Tag: tag, QoS: byte(1 + r.Intn(2))}
		if r.Intn(2) == 0 {
			op.Given = uint16(40000 + 7*tag)
		}
		return op
	}
	conn := func(maxCut int) c15XOp {
		op := c15XOp{Conn: true, S: c15PickStart(r), WriteFails: r.Intn(2) == 0}
		if maxCut > 0 {
			op.Cut = r.Intn(maxCut + 1)
		}
		return op
	}
	ops := []c15XOp{conn(3)}
	if ops[0].Cut == 0 && r.Intn(3) > 0 {
		ops[0].Cut = 1 + r.Intn(2)
	}
	for phase := 0; phase < 1+r.Intn(3); phase++ {
		for i := 0; i < 1+r.Intn(5); i++ {
			ops = append(ops, pub())
		}
		ops = append(ops, conn(4))
	}
	for i := 0; i < r.Intn(3); i++ {
		ops = append(ops, pub())
	}
	ops = append(ops, conn(0))
	for i := 0; i < r.Intn(3); i++ {
		ops = append(ops, pub())
	}
	return ops
}

func c15Retry(o *c15Out, r *rand.Rand, tier string) error {
	n := 80
	switch tier {
	case "thorough":
		n = 1000
	case "search":
		n = 200
	}
	// the shape of the round-3 seeded change: A is interrupted, B (QoS1) and C (QoS2) with the
	// caller's identifiers are submitted during the outage, a second cut hits B's first transmission
	for _, s := range [][3]uint32{{100, 0x100, 1000}, {0xFFFE, 0xFFFFFFFE, 0xFFFF}, {30000, 41000, 0x1FFFF}} {
		for _, wf := range []bool{false, true} {
			ops := []c15XOp{
				{Conn: true, S: s[0], Cut: 1, WriteFails: wf},
				{Tag: 1, QoS: 1},
				{Tag: 2, QoS: 1, Given: 0x1234},
				{Tag: 3, QoS: 2, Given: 0xBEEF},
				{Tag: 4, QoS: 2},
				{Conn: true, S: s[1], Cut: 2, WriteFails: !wf},
				{Tag: 5, QoS: 1, Given: 0x4321},
				{Conn: true, S: s[2], Cut: 0},
				{Tag: 6, QoS: 1, Given: 7},
			}
			if err := c15RunRetry(o, ops); err != nil {
				return err
			}
		}
	}
	for i := 0; i < n; i++ {
		if err := c15RunRetry(o, c15GenRetry(r)); err != nil {
			return err
		}
	}
	return nil
}

// ---------- family handle (round 4): a retry handle run on another client ----------

// c15RunHandle: request rq is issued on client A (counter a) and interrupted before its
// acknowledgement (the connection is cut, or the caller's context is cancelled); client B (counter
// b) goes through history hB (some requests stay outstanding); then the ErrorWithRetry's handle is
// run on B. Observed: what B puts on the wire, the retransmission included.
func c15RunHandle(o *c15Out, a uint32, rq c15Req, cut bool, b uint32, hB []c15Ev) error {
	if c15GiveUp() {
		o.skipped++
		return nil
	}
	ctx, cancel := ctxTimeout(5 * time.Minute)
	defer cancel()
	wA, err := c15NewWorld(false)
	if err != nil {
		return err
	}
	defer wA.close()
	wA.s.cli.VerifSetIDLast(a)
	recA := wA.newRec(0, 9999, rq)
	wA.start(ctx, recA)
	stuck := ""
	if !wA.waitWrote(recA) {
		stuck = "the request never reached the wire of client A"
	}
	var handle mqtt.ErrorWithRetry
	if stuck == "" {
		if cut {
			wA.s.conn.Close()
		} else {
			recA.cancel()
		}
		if !wA.waitDone(recA) {
			stuck = "the interrupted request did not return on client A"
		} else if h, ok := recA.err.(mqtt.ErrorWithRetry); ok {
			handle = h
		} else {
			stuck = fmt.Sprintf("the interrupted request returned no retry handle: %v", recA.err)
		}
	}
	wB, err := c15NewWorld(false)
	if err != nil {
		return err
	}
	defer wB.close()
	wB.s.cli.VerifSetIDLast(b)
	var recs []*c15Rec
	var obs, desc, hin []string
	if stuck == "" {
		recs, obs, desc, hin, stuck = c15Exec(o, wB, ctx, hB)
	}
	hreq := rq
	if rq.Kind == 'p' {
		hreq.Given = recA.obsID() // the message keeps the identifier it got on A
	}
	if stuck == "" {
		recH := wB.newRec(0, 9999, hreq) // same topic as on A: the peer of B recognises the retransmission
		go func() { recH.done <- handle.Retry(ctx, wB.s.cli) }()
		if !wB.waitWrote(recH) {
			stuck = "the retransmission never reached the wire of client B"
		} else {
			obs = append(obs, recH.coqIssue())
			desc = append(desc, fmt.Sprintf("retry of A's %s->%d", rq.desc(), recH.obsID()))
			// acknowledge the retransmission and whatever is still outstanding on B
			wB.ack(recH)
			if !wB.waitDone(recH) {
				stuck = fmt.Sprintf("the retransmission (identifier %d on the wire of B) did not complete after its acknowledgement", recH.id)
			}
			for _, rec := range recs {
				if stuck != "" {
					break
				}
				if rec.req.tracked() && !rec.finished {
					wB.ack(rec)
					if !wB.waitDone(rec) {
						stuck = fmt.Sprintf("request %s of B (identifier %d) did not complete after its acknowledgement", rec.tag, rec.id)
					}
				}
			}
		}
	}
	how := "context cancelled"
	if cut {
		how = "connection cut"
	}
	c := map[string]interface{}{"client_A_counter": a, "request_on_A": rq.desc(), "identifier_on_A": recA.obsID(),
		"interrupted_by": how, "client_B_counter": b, "history_on_B": c15Descs(hB), "observed_on_B": desc}
	if stuck != "" {
		o.violation("stuck", map[string]interface{}{"scenario": c, "what": stuck})
	}
	for _, an := range append(append([]string{}, wA.anomaly...), wB.anomaly...) {
		o.violation("anomaly", an)
	}
	o.handle = append(o.handle, cTuple(cN(uint64(a)), "("+rq.coq()+")", cN(uint64(b)), cListInline(hin), cListInline(obs)))
	o.m.Families["handle"] = append(o.m.Families["handle"], c)
	o.requests += len(recs) + 2
	o.kinds["retry_handle_"+rq.desc0()]++
	o.nontriv[fmt.Sprint("handle", a, rq.desc(), cut, b, c15Descs(hB))] = true
	if o.handleSamples < 1 && len(recs) >= 2 && len(recs) <= 5 {
		o.handleSamples++
		o.m.Samples = append(o.m.Samples, c)
	}
	return nil
}

func c15Handle(o *c15Out, r *rand.Rand, tier string) error {
	n := 60
	switch tier {
	case "thorough":
		n = 600
	case "search":
		n = 150
	}
	two := []c15Ev{{Req: c15Req{Kind: 'p', QoS: 1}}, {Req: c15Req{Kind: 'p', QoS: 1}}}
	// the shape of the round-4 seeded change: both counters equal, B holds the two identifiers A's
	// counter would produce next
	for _, s := range []uint32{100, 0xFFFD, 0xFFFFFFFE} {
		for _, rq := range []c15Req{{Kind: 's'}, {Kind: 'u'}, {Kind: 'p', QoS: 1}, {Kind: 'p', QoS: 2, Given: 0x1234}} {
			for _, cut := range []bool{false, true} {
				b := s
				if rq.Kind == 'p' {
					// a retransmitted publish keeps its identifier: the application must not have the
					// same identifier in use on B (environment assumption), so B's counter is elsewhere
					b = s + 1000
				}
				if err := c15RunHandle(o, s, rq, cut, b, two); err != nil {
					return err
				}
			}
		}
	}
	for i := 0; i < n; i++ {
		a := c15PickStart(r)
		b := a
		switch r.Intn(5) {
		case 0:
			b = a + uint32(r.Intn(4))
		case 1:
			b = a - uint32(r.Intn(3))
		case 2:
			b = c15PickStart(r)
		}
		rq := c15RandReq(r)
		for !rq.tracked() {
			rq = c15RandReq(r)
		}
		if rq.Kind == 'p' && r.Intn(3) == 0 {
			rq.Given = uint16(30000 + r.Intn(1000))
		}
		if rq.Kind == 'p' {
			idA := rq.Given
			if idA == 0 {
				idA = c15Nth(a, 1)
			}
			for c15Pos(b, idA) < 100 { // keep the identifier the message carries out of B's way
				b += 1000
			}
		}
		hB := c15GenHistory(r, b, 2+r.Intn(8), []int{0, 0, 20}[r.Intn(3)], 0, 0)
		if err := c15RunHandle(o, a, rq, r.Intn(2) == 0, b, hB); err != nil {
			return err
		}
	}
	return nil
}

// ---------- family fault (round 5): a rejected write while other callers hold later identifiers ----------

var errC15Rejected = fmt.Errorf("memconn: this frame is rejected (the connection stays usable)")

var c15FaultOff int32 // the interleaving could not be realised once: the family switches itself off

func c15PktTag(pkt []byte) string {
	typ := pkt[0] >> 4
	_, used := c15Varint(pkt[1:])
	body := pkt[1+used:]
	off := 0
	if typ == 8 || typ == 10 {
		off = 2
	} else if typ != 3 {
		return ""
	}
	if len(body) < off+2 {
		return ""
	}
	tl := int(body[off])<<8 | int(body[off+1])
	if len(body) < off+2+tl {
		return ""
	}
	return string(body[off+2 : off+2+tl])
}

// c15NewFaultWorld: like c15NewWorld, but Transport.Write of the packet whose topic is faultTag is
// held (on the writer's goroutine, i.e. under the client's write lock) until gate is closed and then
// fails with a non-fatal error: nothing is sent, the connection stays open.
func c15NewFaultWorld(faultTag string) (*c15World, chan struct{}, chan struct{}, error) {
	w := &c15World{byTag: map[string]*c15Rec{}, cycleHit: make(chan struct{})}
	held := make(chan struct{})
	gate := make(chan struct{})
	var once sync.Once
	s := &session{}
	s.conn = newMemConn(1, func(c *memConn, pkt []byte) error {
		if pkt[0]&0xF0 == 0x10 {
			c.send(connackOK)
			return nil
		}
		w.onPkt(s, pkt) // records the identifier and signals that the request reached Transport.Write
		if c15PktTag(pkt) == faultTag {
			fail := false
			once.Do(func() { fail = true })
			if fail {
				close(held)
				select {
				case <-gate:
				case <-time.After(c15Wait):
				}
				return errC15Rejected
			}
		}
		return nil
	})
	s.cli = &mqtt.BaseClient{Transport: s.conn}
	ctx, cancel := ctxTimeout(c15Wait)
	defer cancel()
	if _, err := s.cli.Connect(ctx, "cid"); err != nil {
		return nil, nil, nil, err
	}
	w.s = s
	w.handleInbound()
	return w, held, gate, nil
}

// c15RunFault: prelude requests (stay outstanding), then the faulty request B whose write is held;
// while it is held the concurrent callers C take their identifiers one after the other (each start
// is followed by a wait until the counter has moved) and queue up behind the write lock; the gate
// opens, B's write fails, the C's go out; then the requests D one after the other, optionally B's
// retry handle on the same client; finally everything is acknowledged.
func c15RunFault(o *c15Out, s uint32, prelude []c15Req, faulty c15Req, conc, after []c15Req, runHandle bool, inbound []c15In) error {
	if c15GiveUp() || atomic.LoadInt32(&c15FaultOff) != 0 {
		o.skipped++
		return nil
	}
	faultIdx := len(prelude)
	faultTag := fmt.Sprintf("c0/r%d", faultIdx)
	w, held, gate, err := c15NewFaultWorld(faultTag)
	if err != nil {
		return err
	}
	defer w.close()
	cli := w.s.cli
	cli.VerifSetIDLast(s)
	ctx, cancel := ctxTimeout(5 * time.Minute)
	defer cancel()
	var recs []*c15Rec
	var hin, obs, desc []string
	stuck := ""
	issue := func(rq c15Req) *c15Rec {
		rec := w.newRec(0, len(recs), rq)
		recs = append(recs, rec)
		hin = append(hin, "HReq ("+rq.coq()+")")
		w.start(ctx, rec)
		return rec
	}
	seen := func(rec *c15Rec, what string) {
		obs = append(obs, rec.coqIssue())
		desc = append(desc, fmt.Sprintf("%s%s->%d", what, rec.req.desc(), rec.obsID()))
		o.kinds[rec.req.desc0()]++
	}
	ended := func(j int, what string) {
		hin = append(hin, fmt.Sprintf("HAck %d", j))
		obs = append(obs, fmt.Sprintf("OAck %d", j))
		desc = append(desc, fmt.Sprintf("%s#%d", what, j))
	}
	seq := func(rq c15Req, what string) bool {
		rec := issue(rq)
		if !w.waitWrote(rec) {
			stuck = fmt.Sprintf("request %s (%s) never reached the wire", rec.tag, rq.desc())
			return false
		}
		if !rq.tracked() && !w.waitDone(rec) {
			stuck = "a QoS 0 publish did not return"
			return false
		}
		seen(rec, what)
		return true
	}
	gateOpen := false
	openGate := func() {
		if !gateOpen {
			gateOpen = true
			close(gate)
		}
	}
	defer openGate()
	for _, rq := range prelude {
		if !seq(rq, "") {
			break
		}
	}
	var recB *c15Rec
	var recC []*c15Rec
	notRealised := false
	if stuck == "" {
		recB = issue(faulty)
		select {
		case <-held:
			seen(recB, "held:")
		case <-time.After(c15WaitDur()):
			atomic.AddInt32(&c15Expired, 1)
			stuck = "the faulty request never reached Transport.Write"
		}
	}
	if stuck == "" {
		for _, rq := range conc {
			before := cli.VerifIDLast()
			rec := issue(rq)
			recC = append(recC, rec)
			// the caller takes its identifier and then waits for the write lock that B holds. Its
			// identifier is settled when the counter has moved AND does not stand on a zero low half:
			// at the wrap newID needs two increments (the first yields 0, newID recurses), and a caller
			// started between the two would overtake it — legal (the order in which concurrent callers
			// obtain identifiers is not fixed by the property), but the history sent to Coq names the
			// callers in the order they are started
			t0 := time.Now()
			settled := func() bool {
				v := cli.VerifIDLast()
				return v != before && uint16(v) != 0
			}
			for n := 0; !settled(); n++ {
				runtime.Gosched()
				if n%256 == 255 && time.Since(t0) > 10*time.Second {
					notRealised = true
					break
				}
			}
			if notRealised {
				break
			}
		}
	}
	openGate()
	if notRealised {
		// identifiers are not taken ahead of the write lock (any more): the interleaving this family is
		// about does not exist in this tree; not a violation
		atomic.StoreInt32(&c15FaultOff, 1)
		o.faultNotRealised++
		return nil
	}
	if stuck == "" {
		if !w.waitDone(recB) {
			stuck = "the request whose write was rejected did not return"
		} else if recB.err == nil {
			stuck = "the request whose write was rejected returned no error"
		}
	}
	if stuck == "" {
		for _, rec := range recC {
			if !w.waitWrote(rec) {
				stuck = fmt.Sprintf("request %s never reached the wire after the write lock was released", rec.tag)
				break
			}
			if !rec.req.tracked() && !w.waitDone(rec) {
				stuck = "a QoS 0 publish did not return"
				break
			}
			seen(rec, "behind the lock:")
		}
	}
	if stuck == "" {
		ended(faultIdx, "write rejected")
		// inbound packets once the write lock is free again (the reader needs it for its answers)
		for _, in := range inbound {
			hin = append(hin, in.coq("HIn"))
			if !w.inbound(in) {
				stuck = "the client did not get past " + in.desc()
				break
			}
			desc = append(desc, in.desc())
			o.kinds["inbound"]++
		}
	}
	if stuck == "" {
		for _, rq := range after {
			if !seq(rq, "") {
				break
			}
		}
	}
	if stuck == "" && runHandle {
		if h, ok := recB.err.(mqtt.ErrorWithRetry); ok {
			hreq := faulty
			if faulty.Kind == 'p' {
				hreq.Given = recB.obsID()
			}
			rec := w.newRec(0, len(recs), hreq)
			rec.tag = recB.tag // the handle re-sends the same topic
			recs = append(recs, rec)
			hin = append(hin, "HReq ("+hreq.coq()+")")
			// the first record under this topic is done with: hand the topic to the retransmission
			w.mu.Lock()
			w.byTag[recB.tag] = rec
			w.mu.Unlock()
			go func() { rec.done <- h.Retry(ctx, cli) }()
			if !w.waitWrote(rec) {
				stuck = "the retransmission never reached the wire"
			} else {
				seen(rec, "retry handle:")
			}
		}
	}
	if stuck == "" {
		for j, rec := range recs {
			if j == faultIdx || !rec.req.tracked() || rec.finished {
				continue
			}
			w.ack(rec)
			if !w.waitDone(rec) {
				stuck = fmt.Sprintf("request %s (%s, identifier %d on the wire) did not complete after its acknowledgement", rec.tag, rec.req.desc(), rec.id)
				break
			}
			ended(j, "ack")
		}
	}
	fin := cli.VerifIDLast()
	c := map[string]interface{}{"start_counter": s, "outstanding_before": c15ReqDescs(prelude), "write_held_then_rejected": faulty.desc(),
		"callers_taking_identifiers_meanwhile": c15ReqDescs(conc), "requests_afterwards": c15ReqDescs(after),
		"retry_handle_run_on_same_client": runHandle, "observed": desc, "counter_afterwards": fin}
	if stuck != "" {
		o.violation("stuck", map[string]interface{}{"scenario": c, "what": stuck})
	}
	for _, an := range w.anomaly {
		o.violation("anomaly", an)
	}
	o.fault = append(o.fault, cTuple(cN(uint64(s)), cListInline(hin), cListInline(obs), cN(uint64(fin))))
	o.m.Families["fault"] = append(o.m.Families["fault"], c)
	o.requests += len(recs)
	o.starts[c15StartClass(s)]++
	if len(conc) > 0 && len(after) > 0 {
		o.nontriv[fmt.Sprint("fault", s, c15ReqDescs(prelude), faulty.desc(), c15ReqDescs(conc), c15ReqDescs(after), runHandle)] = true
	}
	if o.faultSamples < 1 && len(conc) >= 1 && len(after) >= 1 && len(recs) <= 7 {
		o.faultSamples++
		o.m.Samples = append(o.m.Samples, c)
	}
	return nil
}

func c15ReqDescs(rs []c15Req) []string {
	out := []string{}
	for _, r := range rs {
		out = append(out, r.desc())
	}
	return out
}

func c15Fault(o *c15Out, r *rand.Rand, tier string) error {
	n := 60
	switch tier {
	case "thorough":
		n = 800
	case "search":
		n = 200
	}
	sub, unsub, p1, p2 := c15Req{Kind: 's'}, c15Req{Kind: 'u'}, c15Req{Kind: 'p', QoS: 1}, c15Req{Kind: 'p', QoS: 2}
	// the shape of the round-5 seeded change, for every kind of faulty packet, at ordinary and
	// wrap-around counters
	for _, s := range []uint32{100, 0xFFFD, 0xFFFE, 0xFFFF, 0xFFFFFFFD, 0xFFFFFFFF} {
		for _, f := range []c15Req{sub, unsub, p1, p2} {
			if err := c15RunFault(o, s, nil, f, []c15Req{sub}, []c15Req{unsub, p1}, false, nil); err != nil {
				return err
			}
		}
		if err := c15RunFault(o, s, []c15Req{p1}, sub, []c15Req{p1, unsub}, []c15Req{p2, sub}, true, nil); err != nil {
			return err
		}
		// with inbound packets carrying the identifiers of the requests just sent
		if err := c15RunFault(o, s, []c15Req{p1, sub}, unsub, []c15Req{p1, sub}, []c15Req{p2, sub, p1}, false,
			[]c15In{{Q: 1, ID: c15Nth(s, 1)}, {Q: 2, ID: c15Nth(s, 4)}, {Q: 3, ID: 0xFFFF}}); err != nil {
			return err
		}
	}
	auto := func() c15Req {
		rq := c15RandReq(r)
		rq.Given = 0
		return rq
	}
	list := func(lo, hi int) []c15Req {
		var out []c15Req
		for i := lo + r.Intn(hi-lo+1); i > 0; i-- {
			out = append(out, auto())
		}
		return out
	}
	for i := 0; i < n; i++ {
		f := auto()
		for !f.tracked() {
			f = auto()
		}
		st := c15PickStart(r)
		var ins []c15In
		if r.Intn(2) == 0 {
			for k := r.Intn(4); k > 0; k-- {
				in := c15In{Q: byte(r.Intn(4)), ID: c15Nth(st, 1+r.Intn(6))}
				if r.Intn(3) == 0 {
					in.ID = uint16(0xFFFF - r.Intn(3))
				}
				ins = append(ins, in)
			}
		}
		if err := c15RunFault(o, st, list(0, 3), f, list(0, 3), list(0, 4), r.Intn(2) == 0, ins); err != nil {
			return err
		}
	}
	return nil
}
