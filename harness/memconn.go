package main

import (
	"errors"
	"fmt"
	"io"
	"strings"
	"sync"
	"time"

	mqtt "github.com/at-wat/mqtt-go"
)

// memConn is an in-memory Transport. Write hands the packet to onWrite synchronously (the
// client writes exactly one whole packet per Write call), so the wire log is a deterministic
// function of what the client does; there is no peer goroutine and no sleeping.
type memConn struct {
	n       int
	mu      sync.Mutex
	cond    *sync.Cond
	in      []byte
	closed  bool // closed locally or cut by the peer: writes fail, reads fail
	eof     bool // the peer finished sending: reads return io.EOF once drained
	onWrite func(c *memConn, pkt []byte) error
	maxRead int
	reads   int
	writes  [][]byte
	wlens   []int
	closes  int
	// additions (opt-in; the defaults keep the earlier behaviour)
	waiting       int   // readers blocked in Read with nothing queued
	localClosed   bool  // closed through Close() (the library), not through cut() (the peer)
	localCloseErr error // if set: what Read returns after a local Close (default io.EOF)
}

var errClosedConn = errors.New("memconn: use of closed connection")
var errCut = errors.New("memconn: connection cut")

func newMemConn(n int, onWrite func(c *memConn, pkt []byte) error) *memConn {
	c := &memConn{n: n, onWrite: onWrite}
	c.cond = sync.NewCond(&c.mu)
	return c
}

func (c *memConn) Read(p []byte) (int, error) {
	c.mu.Lock()
	defer c.mu.Unlock()
	c.reads++
	if len(p) > c.maxRead {
		c.maxRead = len(p)
	}
	for len(c.in) == 0 && !c.closed && !c.eof {
		c.waiting++
		c.cond.Broadcast() // wake waitReaderIdle
		c.cond.Wait()
		c.waiting--
	}
	if len(c.in) == 0 {
		if c.eof {
			return 0, io.EOF
		}
		if c.localClosed && c.localCloseErr != nil {
			return 0, c.localCloseErr // closed by the client itself (net.Pipe: io.ErrClosedPipe)
		}
		return 0, io.EOF // a cut connection reads as EOF, like a peer reset seen by the reader
	}
	n := copy(p, c.in)
	c.in = c.in[n:]
	return n, nil
}

func (c *memConn) Write(p []byte) (int, error) {
	c.mu.Lock()
	closed := c.closed
	var pkt []byte
	if len(p) > 1<<20 {
		// very large packets are logged as a prefix; the full length is kept aside
		pkt = append([]byte{}, p[:64]...)
	} else {
		pkt = append([]byte{}, p...)
	}
	c.writes = append(c.writes, pkt)
	c.wlens = append(c.wlens, len(p))
	c.mu.Unlock()
	if closed {
		if c.onWrite != nil {
			// let the scenario log the attempt on a dead connection
			_ = c.onWrite(c, pkt)
		}
		return 0, errClosedConn
	}
	if c.onWrite != nil {
		if err := c.onWrite(c, pkt); err != nil {
			return 0, err
		}
	}
	return len(p), nil
}

func (c *memConn) Close() error {
	c.mu.Lock()
	if !c.closed {
		c.localClosed = true // Close is what the library calls; the peer side uses cut()
	}
	c.closed = true
	c.closes++
	c.cond.Broadcast()
	c.mu.Unlock()
	return nil
}

// cut: the peer ends the connection; the reader sees io.EOF, later writes fail.
func (c *memConn) cut() {
	c.mu.Lock()
	c.closed = true
	c.closes++
	c.cond.Broadcast()
	c.mu.Unlock()
}

// waitReaderIdle blocks until everything queued for the client has been read and the reader is
// blocked in Read again (or the connection is closed), at most for d. Called from onWrite it makes
// the peer a zero-delay broker: the answer is consumed by the client's reader before Write returns.
func (c *memConn) waitReaderIdle(d time.Duration) bool {
	deadline := time.Now().Add(d)
	c.mu.Lock()
	defer c.mu.Unlock()
	for !(c.closed || (len(c.in) == 0 && c.waiting > 0)) {
		if time.Now().After(deadline) {
			return false
		}
		// cond has no timed wait: poll with a short sleep outside the lock
		c.mu.Unlock()
		time.Sleep(20 * time.Microsecond)
		c.mu.Lock()
	}
	return true
}

func (c *memConn) isClosed() bool {
	c.mu.Lock()
	defer c.mu.Unlock()
	return c.closed
}

// send queues bytes for the client to read.
func (c *memConn) send(b []byte) {
	c.mu.Lock()
	c.in = append(c.in, b...)
	c.cond.Broadcast()
	c.mu.Unlock()
}

// finish: the peer has nothing more to send; the reader sees io.EOF after draining.
func (c *memConn) finish() {
	c.mu.Lock()
	c.eof = true
	c.cond.Broadcast()
	c.mu.Unlock()
}

func (c *memConn) maxReadLen() int {
	c.mu.Lock()
	defer c.mu.Unlock()
	return c.maxRead
}

// ---------- packet encoding on the harness side (independent of the library) ----------

func encVarint(n int) []byte {
	var out []byte
	for {
		b := byte(n % 128)
		n /= 128
		if n > 0 {
			out = append(out, b|0x80)
		} else {
			out = append(out, b)
			return out
		}
	}
}

func encFrame(h byte, body []byte) []byte {
	out := []byte{h}
	out = append(out, encVarint(len(body))...)
	return append(out, body...)
}

func encStr(s []byte) []byte {
	return append([]byte{byte(len(s) >> 8), byte(len(s))}, s...)
}

type inMsg struct {
	Topic   []byte
	ID      uint16
	QoS     byte
	Retain  bool
	Dup     bool
	Payload []byte
}

func encPublish(m inMsg) []byte {
	h := byte(0x30) | m.QoS<<1
	if m.Retain {
		h |= 1
	}
	if m.Dup {
		h |= 8
	}
	body := encStr(m.Topic)
	if m.QoS > 0 {
		body = append(body, byte(m.ID>>8), byte(m.ID))
	}
	body = append(body, m.Payload...)
	return encFrame(h, body)
}

func encID(h byte, id uint16) []byte { return []byte{h, 2, byte(id >> 8), byte(id)} }

var connackOK = []byte{0x20, 2, 0, 0}

// ---------- a connected BaseClient with one totally ordered event log ----------

type sessEvent struct {
	Kind string // "hand", "write"
	Msg  *mqtt.Message
	Pkt  []byte
}

type session struct {
	conn   *memConn
	cli    *mqtt.BaseClient
	mu     sync.Mutex
	events []sessEvent
	states []string
}

// sessMaxPayload: MaxPayloadLen of the BaseClient of new sessions (a limit for OUTBOUND publishes only).
var sessMaxPayload = 0

// sessReentrant: handlers of sessions call back into their own client (Handle, Err, Done).
var sessReentrant = true

// newSession connects a BaseClient over a memConn whose peer answers CONNECT with an
// accepting CONNACK; every later write is logged. onPkt (optional) sees every later packet.
func newSession(handler bool, onPkt func(s *session, pkt []byte)) (*session, error) {
	s := &session{}
	s.conn = newMemConn(1, func(c *memConn, pkt []byte) error {
		if pkt[0]&0xF0 == 0x10 {
			c.send(connackOK)
			return nil
		}
		s.mu.Lock()
		s.events = append(s.events, sessEvent{Kind: "write", Pkt: pkt})
		s.mu.Unlock()
		if onPkt != nil {
			onPkt(s, pkt)
		}
		return nil
	})
	s.cli = &mqtt.BaseClient{Transport: s.conn, MaxPayloadLen: sessMaxPayload}
	s.cli.ConnState = func(st mqtt.ConnState, err error) {
		s.mu.Lock()
		s.states = append(s.states, fmt.Sprintf("%s:%s", st, errClass(err)))
		s.mu.Unlock()
	}
	if handler {
		var h mqtt.Handler
		h = mqtt.HandlerFunc(func(m *mqtt.Message) {
			cp := *m
			cp.Payload = append([]byte{}, m.Payload...)
			s.mu.Lock()
			s.events = append(s.events, sessEvent{Kind: "hand", Msg: &cp})
			s.mu.Unlock()
			// The handler owns the message it was handed ("Ownership of the message is now transferred to
			// the receiver", serve.go): whatever it does with it, and whatever it calls on its own client,
			// must not change what the library does next.
			m.ID ^= 0x5A5A
			m.Topic = "scribbled"
			m.QoS = mqtt.QoS0
			m.Dup = !m.Dup
			m.Retain = !m.Retain
			for i := range m.Payload {
				m.Payload[i] ^= 0xFF
			}
			if sessReentrant {
				s.cli.Handle(h) // re-register itself: takes the client lock
				_ = s.cli.Err()
				_ = s.cli.Done()
			}
		})
		s.cli.Handle(h)
	}
	ctx, cancel := ctxTimeout(5 * time.Second)
	defer cancel()
	if _, err := s.cli.Connect(ctx, "cid"); err != nil {
		return nil, err
	}
	return s, nil
}

func (s *session) waitDone(d time.Duration) bool {
	select {
	case <-s.cli.Done():
		return true
	case <-time.After(d):
		return false
	}
}

func (s *session) snapshot() []sessEvent {
	s.mu.Lock()
	defer s.mu.Unlock()
	return append([]sessEvent{}, s.events...)
}

// errClass maps an error to a small enum compared with the model.
func errClass(err error) string {
	switch {
	case err == nil:
		return "nil"
	case err == io.EOF:
		return "EOF"
	case errors.Is(err, io.ErrUnexpectedEOF):
		return "UnexpectedEOF"
	case errors.Is(err, mqtt.ErrInvalidPacketLength):
		return "InvalidPacketLength"
	case errors.Is(err, mqtt.ErrInvalidRune):
		return "InvalidRune"
	case errors.Is(err, mqtt.ErrInvalidPacket):
		return "InvalidPacket"
	case errors.Is(err, mqtt.ErrInvalidSubAck):
		return "InvalidSubAck"
	case errors.Is(err, mqtt.ErrClosedTransport):
		return "ClosedTransport"
	case errors.Is(err, mqtt.ErrNotConnected):
		return "NotConnected"
	case errors.Is(err, mqtt.ErrPayloadLenExceeded):
		return "PayloadLenExceeded"
	case errors.Is(err, mqtt.ErrInvalidQoS):
		return "InvalidQoS"
	case errors.Is(err, errClosedConn):
		return "ConnClosed"
	case errors.Is(err, errCut):
		return "Cut"
	}
	if strings.Contains(err.Error(), "context") {
		return "Context"
	}
	return "other:" + err.Error()
}

func cPerr(class string) string {
	switch class {
	case "EOF":
		return "EEOF"
	case "UnexpectedEOF":
		return "EUnexpectedEOF"
	case "InvalidPacket":
		return "EInvalidPacket"
	case "InvalidPacketLength":
		return "EInvalidPacketLength"
	case "InvalidRune":
		return "EInvalidRune"
	}
	return ""
}

func cMsg(topic []byte, id uint16, qos byte, retain, dup bool, payload []byte) string {
	return fmt.Sprintf("{| m_topic := %s; m_id := %d; m_qos := %d; m_retain := %s; m_dup := %s; m_payload := %s |}",
		cBytes(topic), id, qos, cBool(retain), cBool(dup), cBytes(payload))
}

func cLibMsg(m *mqtt.Message) string {
	return cMsg([]byte(m.Topic), m.ID, byte(m.QoS), m.Retain, m.Dup, m.Payload)
}
