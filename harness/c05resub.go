package main

// C05, family "resub": what a RetryClient puts on the wire when it re-subscribes after a reconnection.
// The application subscribes / unsubscribes through a RetryClient whose broker GRANTS LESS than was asked
// (min(requested, cap), in the last scenarios also the failure code 0x80); the connection is cut, a fresh
// BaseClient is installed with SetClient, Connect reports no session, Resubscribe (+Retry) run. Every
// packet after the CONNECT of every later connection must be a SUBSCRIBE asking exactly what the
// application asked LAST for each filter (V_resub, judged on spec_decode's reading inside Coq) and must be,
// byte for byte, the model's encoding of the remembered requests in order (M_resub).
// The scenarios run in a child process: a panic on the RetryClient's task goroutine (e.g. "invalid QoS"
// when a granted 0x80 is requested again) would otherwise kill the harness instead of being reported.

import (
	"bufio"
	"encoding/json"
	"fmt"
	"math/rand"
	"os"
	"os/exec"
	"strings"
	"time"

	mqtt "github.com/at-wat/mqtt-go"
)

func init() { register("C05resub", runC05ResubChild) }

type c05RsSub struct {
	T string
	Q byte
}

type c05RsOp struct {
	Subs  []c05RsSub // subscribe if non-empty
	Unsub []string
}

type c05RsScenario struct {
	Ops  []c05RsOp
	Caps []int           // per connection: the broker grants min(requested, cap); len = 1 + reconnections
	Fail map[string]bool // filters for which every broker answers 0x80
	// Resume: the (only) CONNACK reports a present session, as for a client that resumes a persistent
	// session in which filters may be subscribed that this RetryClient object never asked for
	Resume bool
}

func (sc *c05RsScenario) describe() map[string]interface{} {
	var ops []string
	for _, o := range sc.Ops {
		if len(o.Subs) > 0 {
			var ss []string
			for _, s := range o.Subs {
				ss = append(ss, fmt.Sprintf("%s:%d", s.T, s.Q))
			}
			ops = append(ops, "Subscribe("+strings.Join(ss, ",")+")")
		} else {
			ops = append(ops, "Unsubscribe("+strings.Join(o.Unsub, ",")+")")
		}
	}
	var fails []string
	for _, t := range []string{"a", "b", "c/+", "d/#", "e"} {
		if sc.Fail[t] {
			fails = append(fails, t)
		}
	}
	return map[string]interface{}{"application": ops, "session_present": sc.Resume, "broker_grants_min_requested_and_cap_per_connection": sc.Caps, "broker_answers_0x80_for": fails}
}

var c05RsTopics = []string{"a", "b", "c/+", "d/#", "e"}

func c05ResubScenarios(seed int64, tier string) []*c05RsScenario {
	r := rand.New(rand.NewSource(seed*7919 + 5))
	S := func(subs ...c05RsSub) c05RsOp { return c05RsOp{Subs: subs} }
	U := func(ts ...string) c05RsOp { return c05RsOp{Unsub: ts} }
	var out []*c05RsScenario
	if tier != "search" {
		hist := [][]c05RsOp{
			{S(c05RsSub{"a", 2}, c05RsSub{"b", 1})},
			{S(c05RsSub{"a", 2}), S(c05RsSub{"a", 1})},
			{S(c05RsSub{"a", 2}, c05RsSub{"b", 2}, c05RsSub{"c/+", 1}), U("b")},
			{S(c05RsSub{"a", 1}), S(c05RsSub{"b", 2}), S(c05RsSub{"a", 2})},
		}
		for _, h := range hist {
			for cap1 := 0; cap1 <= 2; cap1++ {
				out = append(out, &c05RsScenario{Ops: h, Caps: []int{cap1, 2}})
				out = append(out, &c05RsScenario{Ops: h, Caps: []int{cap1, (cap1 + 1) % 3, 2}})
			}
		}
	}
	if tier != "search" {
		// UNSUBSCRIBE of filters this RetryClient never subscribed (alone, mixed with known ones, repeated),
		// on a fresh and on a resumed session; one connection only
		unk := [][]c05RsOp{
			{U("never/subscribed")},
			{S(c05RsSub{"a", 1}), U("a", "b")},
			{S(c05RsSub{"a", 2}), U("a"), U("a")},
			{U("a"), S(c05RsSub{"a", 2}, c05RsSub{"c/+", 0}), U("b", "a", "d/#")},
			{S(c05RsSub{"b", 1}), U("a", "b", "c/+"), U("b", "e")},
		}
		for _, h := range unk {
			out = append(out, &c05RsScenario{Ops: h, Caps: []int{2}})
			out = append(out, &c05RsScenario{Ops: h, Caps: []int{2}, Resume: true})
		}
	}
	nRand := 40
	if tier == "thorough" {
		nRand = 400
	}
	gen := func(fail bool) *c05RsScenario {
		sc := &c05RsScenario{Fail: map[string]bool{}}
		for i, n := 0, 1+r.Intn(5); i < n; i++ {
			if i > 0 && r.Intn(4) == 0 {
				var ts []string
				for j, k := 0, 1+r.Intn(2); j < k; j++ {
					ts = append(ts, c05RsTopics[r.Intn(len(c05RsTopics))])
				}
				sc.Ops = append(sc.Ops, U(ts...))
				continue
			}
			var subs []c05RsSub
			for j, k := 0, 1+r.Intn(3); j < k; j++ {
				subs = append(subs, c05RsSub{c05RsTopics[r.Intn(len(c05RsTopics))], byte(r.Intn(3))})
			}
			sc.Ops = append(sc.Ops, S(subs...))
		}
		for k, n := 0, 2+r.Intn(2); k < n; k++ {
			sc.Caps = append(sc.Caps, r.Intn(3))
		}
		if fail {
			for _, t := range c05RsTopics {
				if r.Intn(3) == 0 {
					sc.Fail[t] = true
				}
			}
			sc.Fail[sc.firstTopic()] = true
		}
		return sc
	}
	for i := 0; i < nRand; i++ {
		out = append(out, gen(false))
	}
	// scenarios with refused filters last: if the library re-requests a granted 0x80 its encoder panics
	// on the task goroutine and the child process dies
	for i := 0; i < 12; i++ {
		out = append(out, gen(true))
	}
	return out
}

func (sc *c05RsScenario) firstTopic() string {
	for _, o := range sc.Ops {
		if len(o.Subs) > 0 {
			return o.Subs[0].T
		}
	}
	return "a"
}

// filters and requested QoS of a SUBSCRIBE, as far as it can be walked
func c05WalkSubscribe(pkt []byte) (id []byte, topics []string, qos []byte) {
	i := 1
	for i < len(pkt) && pkt[i]&0x80 != 0 {
		i++
	}
	i++
	if i+2 > len(pkt) {
		return nil, nil, nil
	}
	id = pkt[i : i+2]
	body := pkt[i+2:]
	for len(body) >= 3 {
		l := int(body[0])<<8 | int(body[1])
		if 2+l+1 > len(body) {
			break
		}
		topics = append(topics, string(body[2:2+l]))
		qos = append(qos, body[2+l])
		body = body[3+l:]
	}
	return id, topics, qos
}

type c05RsResult struct {
	Index   int                    `json:"index"`
	Start   bool                   `json:"start,omitempty"`
	Coq     string                 `json:"coq,omitempty"`
	CoqReq  string                 `json:"coqreq,omitempty"`
	Desc    map[string]interface{} `json:"desc,omitempty"`
	Problem string                 `json:"problem,omitempty"`
}

func c05ResubRun(sc *c05RsScenario) (coq, coqReq string, desc map[string]interface{}, problem string, err error) {
	desc = sc.describe()
	rc := &mqtt.RetryClient{}
	var granted [][]byte // conn 1: codes per SUBSCRIBE, in order
	var later [][][]byte // packets after the CONNECT on connections 2..
	var laterDesc []string
	var firstPkts [][]byte // requests on connection 1
	for k := range sc.Caps {
		k := k
		var pkts [][]byte
		conn := newMemConn(k+1, func(c *memConn, pkt []byte) error {
			if pkt[0]&0xF0 == 0x10 {
				if sc.Resume {
					c.send([]byte{0x20, 2, 1, 0}) // session present
				} else {
					c.send(connackOK) // no session present
				}
				return nil
			}
			if k > 0 {
				pkts = append(pkts, append([]byte{}, pkt...))
			} else {
				firstPkts = append(firstPkts, append([]byte{}, pkt...))
			}
			switch pkt[0] & 0xF0 {
			case 0x80:
				id, topics, qos := c05WalkSubscribe(pkt)
				if id == nil {
					return nil
				}
				var codes []byte
				for i, t := range topics {
					code := qos[i]
					if int(code) > sc.Caps[k] {
						code = byte(sc.Caps[k])
					}
					if sc.Fail[t] {
						code = 0x80
					}
					codes = append(codes, code)
				}
				if k == 0 {
					granted = append(granted, codes)
				}
				c.send(encFrame(0x90, append([]byte{id[0], id[1]}, codes...)))
			case 0xA0:
				if ack := c05AckBytes(pkt); ack != nil {
					c.send(ack)
				}
			}
			return nil
		})
		cli := &mqtt.BaseClient{Transport: conn}
		ctx, cancel := ctxTimeout(60 * time.Second)
		rc.SetClient(ctx, cli)
		if _, e := rc.Connect(ctx, "cid"); e != nil {
			cancel()
			problem = fmt.Sprintf("Connect on connection %d failed: %v", k+1, e)
			break
		}
		if k == 0 {
			for _, o := range sc.Ops {
				if len(o.Subs) > 0 {
					var subs []mqtt.Subscription
					for _, s := range o.Subs {
						subs = append(subs, mqtt.Subscription{Topic: s.T, QoS: mqtt.QoS(s.Q)})
					}
					if _, e := rc.Subscribe(ctx, subs...); e != nil {
						problem = fmt.Sprintf("RetryClient.Subscribe returned %v", e)
					}
				} else if e := rc.Unsubscribe(ctx, o.Unsub...); e != nil {
					problem = fmt.Sprintf("RetryClient.Unsubscribe returned %v", e)
				}
			}
		} else {
			rc.Resubscribe(ctx)
			rc.Retry(ctx)
		}
		ch := make(chan struct{})
		if e := rc.VerifBarrier(ch); e != nil {
			cancel()
			problem = fmt.Sprintf("the RetryClient refused a task on connection %d: %v", k+1, e)
			break
		}
		select {
		case <-ch:
		case <-time.After(30 * time.Second):
			problem = fmt.Sprintf("the RetryClient did not finish its tasks on connection %d within 30 s", k+1)
		}
		cancel()
		// the peer goes away; the next connection is a fresh BaseClient
		conn.finish()
		select {
		case <-cli.Done():
		case <-time.After(20 * time.Second):
			cli.Close()
		}
		if k > 0 {
			conn.mu.Lock()
			later = append(later, pkts)
			conn.mu.Unlock()
			var d []string
			for _, p := range pkts {
				if _, topics, qos := c05WalkSubscribe(p); p[0] == 0x82 && len(topics) > 0 {
					var ss []string
					for i, t := range topics {
						ss = append(ss, fmt.Sprintf("%s:%d", t, qos[i]))
					}
					d = append(d, "SUBSCRIBE("+strings.Join(ss, ",")+")")
				} else {
					d = append(d, fmt.Sprintf("%x", p))
				}
			}
			laterDesc = append(laterDesc, strings.Join(d, " "))
		}
		if problem != "" {
			break
		}
	}
	// Coq literal
	var ops []string
	gi := 0
	for _, o := range sc.Ops {
		if len(o.Subs) > 0 {
			var ss []string
			for _, s := range o.Subs {
				ss = append(ss, cTuple(cStr(s.T), fmt.Sprint(s.Q)))
			}
			codes := "[]"
			if gi < len(granted) {
				codes = cBytes(granted[gi])
			}
			gi++
			ops = append(ops, cTuple("SSub "+cListInline(ss), codes))
		} else {
			var ts []string
			for _, t := range o.Unsub {
				ts = append(ts, cStr(t))
			}
			ops = append(ops, cTuple("SUnsub "+cListInline(ts), "[]"))
		}
	}
	var opsOnly, firstWs, firstHx []string
	for _, o := range sc.Ops {
		if len(o.Subs) > 0 {
			var ss []string
			for _, s := range o.Subs {
				ss = append(ss, cTuple(cStr(s.T), fmt.Sprint(s.Q)))
			}
			opsOnly = append(opsOnly, "SSub "+cListInline(ss))
		} else {
			var ts []string
			for _, t := range o.Unsub {
				ts = append(ts, cStr(t))
			}
			opsOnly = append(opsOnly, "SUnsub "+cListInline(ts))
		}
	}
	for _, w := range firstPkts {
		firstWs = append(firstWs, cBytes(w))
		firstHx = append(firstHx, fmt.Sprintf("%x", w))
	}
	coqReq = cTuple(cListInline(opsOnly), cListInline(firstWs))
	desc["written_after_connect_on_connection_1"] = firstHx
	var cs []string
	for _, c := range later {
		var ws []string
		for _, w := range c {
			ws = append(ws, cBytes(w))
		}
		cs = append(cs, cListInline(ws))
	}
	var gd []string
	for _, g := range granted {
		gd = append(gd, fmt.Sprintf("%x", g))
	}
	desc["granted_on_connection_1"] = gd
	desc["written_after_connect_on_later_connections"] = laterDesc
	if len(sc.Caps) > 1 {
		coq = cTuple(cListInline(ops), cListInline(cs))
	}
	return coq, coqReq, desc, problem, nil
}

// child: runs every scenario, one JSON line before and one after each
func runC05ResubChild(cfg *runCfg) error {
	w := bufio.NewWriter(os.Stdout)
	enc := json.NewEncoder(w)
	problems := 0
	for i, sc := range c05ResubScenarios(cfg.seed, cfg.tier) {
		enc.Encode(c05RsResult{Index: i, Start: true})
		w.Flush()
		coq, coqReq, desc, problem, err := c05ResubRun(sc)
		if err != nil {
			return err
		}
		enc.Encode(c05RsResult{Index: i, Coq: coq, CoqReq: coqReq, Desc: desc, Problem: problem})
		w.Flush()
		if problem != "" {
			if problems++; problems >= 2 {
				break
			}
		}
	}
	return nil
}

// parent
func c05Resub(cfg *runCfg, cf *casesFile, m *meta, dist map[string]int) (int, error) {
	scs := c05ResubScenarios(cfg.seed, cfg.tier)
	cmd := exec.Command(os.Args[0], "C05resub", "-tier", cfg.tier, "-seed", fmt.Sprint(cfg.seed), "-out", cfg.outDir)
	var stderr strings.Builder
	cmd.Stderr = &stderr
	out, err := cmd.StdoutPipe()
	if err != nil {
		return 0, err
	}
	if err := cmd.Start(); err != nil {
		return 0, err
	}
	var cases, reqCases []string
	started := -1
	finished := -1
	rd := bufio.NewReaderSize(out, 1<<20)
	for {
		line, e := rd.ReadBytes('\n')
		if len(line) > 0 {
			var res c05RsResult
			if json.Unmarshal(line, &res) == nil {
				if res.Start {
					started = res.Index
				} else {
					finished = res.Index
					if res.CoqReq != "" {
						reqCases = append(reqCases, res.CoqReq)
						m.Families["rcreq"] = append(m.Families["rcreq"], res.Desc)
					}
					if res.Coq == "" {
						if res.Problem != "" {
							m.ImplViolations = append(m.ImplViolations, map[string]interface{}{"what": res.Problem, "case": res.Desc})
						}
						continue
					}
					cases = append(cases, res.Coq)
					m.Families["resub"] = append(m.Families["resub"], res.Desc)
					if len(m.Families["resub"]) == 1 {
						m.Samples = append(m.Samples, res.Desc)
					}
					if res.Problem != "" {
						m.ImplViolations = append(m.ImplViolations, map[string]interface{}{"what": res.Problem, "case": res.Desc})
					}
				}
			}
		}
		if e != nil {
			break
		}
	}
	werr := cmd.Wait()
	if werr != nil {
		msg := stderr.String()
		if exit, ok := werr.(*exec.ExitError); ok && exit.ExitCode() == 2 && strings.Contains(msg, "harness error:") && !strings.Contains(msg, "goroutine ") {
			return 0, fmt.Errorf("resub child: %s", msg)
		}
		if len(msg) > 1500 {
			msg = msg[:1500]
		}
		var sc map[string]interface{}
		if started > finished && started < len(scs) {
			sc = scs[started].describe()
		}
		m.ImplViolations = append(m.ImplViolations, map[string]interface{}{
			"what": "the process running the RetryClient died (a panic on the library's task goroutine): " + msg, "case": sc})
	}
	dist["resubscription_scenarios"] = len(cases)
	dist["resubscription_scenarios_generated"] = len(scs)
	cf.def("resub_cases", "list (list (sop * list N) * list (list (list N)))", cList(cases))
	cf.result("V_resub", "c05_resub_violations resub_cases")
	cf.result("M_resub", "c05_resub_mismatches resub_cases")
	dist["retryclient_request_histories"] = len(reqCases)
	cf.def("rcreq_cases", "list (list sop * list (list N))", cList(reqCases))
	cf.result("V_rcreq", "c05_rcreq_violations rcreq_cases")
	cf.result("M_rcreq", "c05_rcreq_mismatches rcreq_cases")
	return len(cases) + len(reqCases), nil
}
