package main

// C20 — handlers behind ServeMux / ServeAsync get private copies of the message.
//
// This file: the executor. It runs a schedule of atomic steps (the labels of Clone.v) on the
// real ServeMux / ServeAsync through the public API only. Every participant ("agent": a caller
// holding a message it built, or one handler invocation holding the *Message it received) is a
// goroutine obeying commands from the single scheduling goroutine; control is handed around with
// channels, never with sleeps. Every wait has a timeout whose expiry is recorded as "stuck".

import (
	"fmt"
	"math/big"
	"runtime"
	"strings"
	"sync"
	"time"

	mqtt "github.com/at-wat/mqtt-go"
)

const c20Wait = 15 * time.Second

// ---- contents ----

type c20Content struct {
	Topic   string
	ID      uint16
	QoS     byte
	Retain  bool
	Dup     bool
	Payload []byte
}

func c20Snap(m *mqtt.Message) c20Content {
	return c20Content{Topic: m.Topic, ID: m.ID, QoS: byte(m.QoS), Retain: m.Retain, Dup: m.Dup,
		Payload: append([]byte{}, m.Payload...)}
}

func (c c20Content) eq(d c20Content) bool {
	return c.Topic == d.Topic && c.ID == d.ID && c.QoS == d.QoS && c.Retain == d.Retain && c.Dup == d.Dup &&
		string(c.Payload) == string(d.Payload)
}

// c20Num encodes a byte string as one number (CheckC20.dec): little-endian base 256, leading 1 as end marker.
func c20Num(b []byte) string {
	n := big.NewInt(1)
	for i := len(b) - 1; i >= 0; i-- {
		n.Lsh(n, 8)
		n.Or(n, big.NewInt(int64(b[i])))
	}
	// hexadecimal: Coq converts decimal literals in quadratic time (14 s for 2,400 digits)
	return "0x" + n.Text(16)
}

func (c c20Content) coq() string {
	fl := 0
	if c.Retain {
		fl |= 1
	}
	if c.Dup {
		fl |= 2
	}
	t := fmt.Sprintf("RC %s %d %d %d %s", c20Num([]byte(c.Topic)), c.ID, c.QoS, fl, c20Num(c.Payload))
	if c20Tab == nil {
		return "(" + t + ")"
	}
	// repeated contents are named once per cases file (Coq's parsing cost is per syntax node)
	k, ok := c20Tab[t]
	if !ok {
		k = len(c20Tab)
		c20Tab[t] = k
		c20TabOrder = append(c20TabOrder, t)
	}
	return fmt.Sprintf("k%d", k)
}

var c20Tab map[string]int
var c20TabOrder []string

func (c c20Content) String() string {
	f := ""
	if c.Retain {
		f += "R"
	}
	if c.Dup {
		f += "D"
	}
	return fmt.Sprintf("{%q id%d q%d %s payload=%x}", c.Topic, c.ID, c.QoS, f, c.Payload)
}

// ---- mutator operations (Clone.op) ----

type c20Op struct {
	Kind  string // topic id qos retain dup write append reslice newpayload
	S     string
	N     int
	B     bool
	I, Hi int
	V     byte
	Bs    []byte
	Extra int // append: spare capacity observed if it reallocated; newpayload: chosen
}

// apply performs the (guarded) operation exactly as Clone.hop describes it.
func (o *c20Op) apply(m *mqtt.Message) {
	switch o.Kind {
	case "topic":
		m.Topic = o.S
	case "id":
		m.ID = uint16(o.N)
	case "qos":
		m.QoS = mqtt.QoS(o.N)
	case "retain":
		m.Retain = o.B
	case "dup":
		m.Dup = o.B
	case "write":
		if o.I < len(m.Payload) {
			m.Payload[o.I] = o.V
		}
	case "append":
		inPlace := len(m.Payload)+len(o.Bs) <= cap(m.Payload)
		m.Payload = append(m.Payload, o.Bs...)
		o.Extra = 0
		if !inPlace {
			o.Extra = cap(m.Payload) - len(m.Payload)
		}
	case "reslice":
		if o.I <= o.Hi && o.Hi <= cap(m.Payload) {
			m.Payload = m.Payload[o.I:o.Hi]
		}
	case "newpayload":
		p := make([]byte, len(o.Bs), len(o.Bs)+o.Extra)
		copy(p, o.Bs)
		m.Payload = p
	}
}

func (o *c20Op) coq() string {
	switch o.Kind {
	case "topic":
		return "RTopic " + c20Num([]byte(o.S))
	case "id":
		return fmt.Sprintf("OSetId %d", o.N)
	case "qos":
		return fmt.Sprintf("OSetQos %d", o.N)
	case "retain":
		return "OSetRetain " + cBool(o.B)
	case "dup":
		return "OSetDup " + cBool(o.B)
	case "write":
		return fmt.Sprintf("RWrite %d %d", o.I, o.V)
	case "append":
		return fmt.Sprintf("RAppend %s %d", c20Num(o.Bs), o.Extra)
	case "reslice":
		return fmt.Sprintf("RReslice %d %d", o.I, o.Hi)
	case "newpayload":
		return fmt.Sprintf("RNewPl %s %d", c20Num(o.Bs), o.Extra)
	}
	return "OSetDup false"
}

func (o *c20Op) String() string {
	switch o.Kind {
	case "topic":
		return fmt.Sprintf("Topic=%q", o.S)
	case "id", "qos":
		return fmt.Sprintf("%s=%d", o.Kind, o.N)
	case "retain", "dup":
		return fmt.Sprintf("%s=%v", o.Kind, o.B)
	case "write":
		return fmt.Sprintf("Payload[%d]=%#x", o.I, o.V)
	case "append":
		return fmt.Sprintf("append(%x)", o.Bs)
	case "reslice":
		return fmt.Sprintf("Payload[%d:%d]", o.I, o.Hi)
	case "newpayload":
		return fmt.Sprintf("Payload=make(%d,%d)%x", len(o.Bs), len(o.Bs)+o.Extra, o.Bs)
	}
	return "?"
}

// ---- steps (Clone.label) as executed ----

type c20Step struct {
	Kind  string // new mut muxbegin muxnext async run
	A     int    // agent / frame / pending agent
	B     int    // mux index / handler id
	Extra int
	C     c20Content
	Op    *c20Op
}

func (s *c20Step) coq() string {
	switch s.Kind {
	case "new":
		return fmt.Sprintf("RNew %s %d", s.C.coq(), s.Extra)
	case "mut":
		return fmt.Sprintf("RMut %d (%s)", s.A, s.Op.coq())
	case "muxbegin":
		return fmt.Sprintf("RBegin %d %d", s.A, s.B)
	case "muxnext":
		return fmt.Sprintf("RNext %d %d", s.A, s.Extra)
	case "async":
		return fmt.Sprintf("RAsync %d %d %d", s.A, s.B, s.Extra)
	case "run":
		return fmt.Sprintf("RRun %d", s.A)
	case "return":
		return fmt.Sprintf("RReturn %d", s.A)
	}
	return "RRun 99999"
}

func (s *c20Step) String() string {
	switch s.Kind {
	case "new":
		return fmt.Sprintf("new%v+cap%d", s.C, s.Extra)
	case "mut":
		return fmt.Sprintf("agent%d:%v", s.A, s.Op)
	case "muxbegin":
		return fmt.Sprintf("agent%d:mux%d.Serve", s.A, s.B)
	case "muxnext":
		return fmt.Sprintf("frame%d:next", s.A)
	case "async":
		return fmt.Sprintf("agent%d:ServeAsync{h%d}.Serve", s.A, s.B)
	case "run":
		return fmt.Sprintf("goroutine-of-agent%d:runs", s.A)
	case "return":
		return fmt.Sprintf("agent%d:handler returns, keeps the pointer", s.A)
	}
	return "?"
}

type c20Event struct {
	Entry  bool
	D      int
	A      int // dispatcher (dispatch) / new agent (entry)
	Hid    int
	C      c20Content
}

func (e c20Event) coq() string {
	if e.Entry {
		return fmt.Sprintf("REntry %d %d %d %s", e.D, e.Hid, e.A, e.C.coq())
	}
	return fmt.Sprintf("RDisp %d %d %s", e.D, e.A, e.C.coq())
}

func (e c20Event) String() string {
	if e.Entry {
		return fmt.Sprintf("entry(d%d,h%d,agent%d)%v", e.D, e.Hid, e.A, e.C)
	}
	return fmt.Sprintf("dispatch(d%d,by agent%d)%v", e.D, e.A, e.C)
}

type c20Delta struct {
	K int
	C c20Content
}

// ---- executor ----

type c20Reg struct {
	Filter string
	Hid    int
}

// c20Wrap says that the handler registered under a handler id is not a closure but a user type
// built on the library's handler types. Its overriding Serve is the ordinary agent handler (reports
// the entry, then obeys commands: mutate, delegate to what it embeds, return).
//   embedmux / embedmuxptr     struct embedding mqtt.ServeMux / *mqtt.ServeMux (mux number Inner)
//   embedasync / embedasyncptr struct embedding mqtt.ServeAsync / *mqtt.ServeAsync (long-lived value Inner)
//   fieldmux                   struct holding *mqtt.ServeMux in a named field (control)
type c20Wrap struct {
	Kind  string
	Inner int
}

type c20EmbedMux struct {
	mqtt.ServeMux
	serve func(*mqtt.Message)
}

func (w *c20EmbedMux) Serve(m *mqtt.Message) { w.serve(m) }

type c20EmbedMuxPtr struct {
	*mqtt.ServeMux
	serve func(*mqtt.Message)
}

func (w c20EmbedMuxPtr) Serve(m *mqtt.Message) { w.serve(m) }

type c20EmbedAsync struct {
	mqtt.ServeAsync
	serve func(*mqtt.Message)
}

func (w *c20EmbedAsync) Serve(m *mqtt.Message) { w.serve(m) }

type c20EmbedAsyncPtr struct {
	*mqtt.ServeAsync
	serve func(*mqtt.Message)
}

func (w *c20EmbedAsyncPtr) Serve(m *mqtt.Message) { w.serve(m) }

type c20FieldMux struct {
	mux   *mqtt.ServeMux
	serve func(*mqtt.Message)
}

func (w *c20FieldMux) Serve(m *mqtt.Message) { w.serve(m) }

type c20Item struct {
	kind  string // mut async mux
	op    *c20Op
	hid   int
	mi    int
	shared int      // async: index of a long-lived ServeAsync value + 1 (0 = a fresh value)
	via    *mqtt.ServeAsync // async: the (embedded copy of the) long-lived value to call, if not x.shared[shared-1]
	pa    *c20Agent // async: the pre-allocated pending agent
	snap  c20Content
	after []*c20Content // visible contents after the item (not for mux)
}

type c20Cmd struct {
	kind  string // burst return quit
	items []*c20Item
}

type c20Ev struct {
	kind  string // done entered served
	agent *c20Agent
	frame *c20Frame
	hid   int
	snap  c20Content
	extra int
}

type c20Agent struct {
	id      int
	ptr     *mqtt.Message
	cmd     chan c20Cmd
	started bool
	live    bool // inside its handler call (mux handler that has not returned)
	busy    int  // open ServeMux.Serve calls made by this agent
	frame   *c20Frame
	gate    chan struct{}
	disp    int
	hid     int
	stepIdx int
	shared  int // long-lived ServeAsync value + 1 it was dispatched through (0 = fresh value)
	wrap    *c20Wrap         // the handler is a user type built on ServeMux / ServeAsync
	via     *mqtt.ServeAsync // ... and this is the ServeAsync it embeds by value
	acted   bool
	// bookkeeping for "nontrivial"
	ofDisp int
}

type c20Frame struct {
	id    int
	disp  int
	agent *c20Agent
	cur   *c20Agent
	done  bool
}

type c20Exec struct {
	regs     [][]c20Reg
	wraps    map[int]c20Wrap
	muxes    []*mqtt.ServeMux
	shared   []*mqtt.ServeAsync // long-lived ServeAsync values used for several dispatches
	sharedQ  []chan *c20Agent
	agents   []*c20Agent
	frames   []*c20Frame
	evCh     chan c20Ev
	log      []c20Event
	steps    []*c20Step
	deltas   [][]c20Delta
	prev     []*c20Content
	nd       int
	stuck    string
	curFrame *c20Frame
	aborted  bool
	hold     chan struct{}
	wg       sync.WaitGroup
	// statistics
	touched    map[int]bool // dispatch -> somebody holding the original or a copy mutated since
	nontrivial int          // entries that happened after such a mutation
	stat       map[string]int
}

func newC20Exec(regs [][]c20Reg, wraps map[int]c20Wrap) (*c20Exec, error) {
	x := &c20Exec{regs: regs, wraps: wraps, evCh: make(chan c20Ev), touched: map[int]bool{}, stat: map[string]int{}}
	// long-lived ServeAsync values
	var sharedH []mqtt.Handler
	for j := 0; j < 2; j++ {
		q := make(chan *c20Agent, 16)
		x.sharedQ = append(x.sharedQ, q)
		h := mqtt.HandlerFunc(func(m *mqtt.Message) {
			// at most one invocation of a long-lived value is un-entered at any time (canShared)
			select {
			case pa := <-q:
				x.asyncHandler(pa, m)
			case <-time.After(c20Wait):
			}
		})
		sharedH = append(sharedH, h)
		x.shared = append(x.shared, &mqtt.ServeAsync{Handler: h})
	}
	// ServeMux values; one that a wrapper embeds by value lives inside that wrapper
	x.muxes = make([]*mqtt.ServeMux, len(regs))
	handlers := map[int]mqtt.Handler{}
	for _, rs := range regs {
		for _, rg := range rs {
			hid := rg.Hid
			w, ok := wraps[hid]
			if !ok {
				handlers[hid] = mqtt.HandlerFunc(func(m *mqtt.Message) { x.muxHandler(hid, nil, nil, m) })
				continue
			}
			wc := w
			switch w.Kind {
			case "embedmux":
				e := &c20EmbedMux{}
				e.serve = func(m *mqtt.Message) { x.muxHandler(hid, &wc, nil, m) }
				if w.Inner >= len(regs) || x.muxes[w.Inner] != nil {
					return nil, fmt.Errorf("harness: mux %d embedded twice", w.Inner)
				}
				x.muxes[w.Inner] = &e.ServeMux
				handlers[hid] = e
			case "embedasync":
				e := &c20EmbedAsync{ServeAsync: mqtt.ServeAsync{Handler: sharedH[w.Inner]}}
				e.serve = func(m *mqtt.Message) { x.muxHandler(hid, &wc, &e.ServeAsync, m) }
				handlers[hid] = e
			}
		}
	}
	for i := range x.muxes {
		if x.muxes[i] == nil {
			x.muxes[i] = &mqtt.ServeMux{}
		}
	}
	for _, rs := range regs {
		for _, rg := range rs {
			hid := rg.Hid
			w, ok := wraps[hid]
			if !ok {
				continue
			}
			wc := w
			switch w.Kind {
			case "embedmuxptr":
				handlers[hid] = c20EmbedMuxPtr{ServeMux: x.muxes[w.Inner], serve: func(m *mqtt.Message) { x.muxHandler(hid, &wc, nil, m) }}
			case "embedasyncptr":
				handlers[hid] = &c20EmbedAsyncPtr{ServeAsync: x.shared[w.Inner], serve: func(m *mqtt.Message) { x.muxHandler(hid, &wc, nil, m) }}
			case "fieldmux":
				handlers[hid] = &c20FieldMux{mux: x.muxes[w.Inner], serve: func(m *mqtt.Message) { x.muxHandler(hid, &wc, nil, m) }}
			}
		}
	}
	for i, rs := range regs {
		for _, rg := range rs {
			h := handlers[rg.Hid]
			if h == nil {
				return nil, fmt.Errorf("harness: no handler for h%d", rg.Hid)
			}
			if err := x.muxes[i].Handle(rg.Filter, h); err != nil {
				return nil, fmt.Errorf("filter %q rejected: %v", rg.Filter, err)
			}
		}
	}
	return x, nil
}

// visible contents of all agents; only called while every other participant is parked
func (x *c20Exec) snapshotAll() []*c20Content {
	out := make([]*c20Content, len(x.agents))
	for i, a := range x.agents {
		if a.started && a.ptr != nil {
			c := c20Snap(a.ptr)
			out[i] = &c
		}
	}
	return out
}

func (x *c20Exec) pushDelta(after []*c20Content) {
	var d []c20Delta
	for k, c := range after {
		if c == nil {
			continue
		}
		if k < len(x.prev) && x.prev[k] != nil && x.prev[k].eq(*c) {
			continue
		}
		d = append(d, c20Delta{k, *c})
	}
	x.deltas = append(x.deltas, d)
	x.prev = after
}

func (x *c20Exec) wait() (c20Ev, bool) {
	select {
	case ev := <-x.evCh:
		return ev, true
	case <-time.After(c20Wait):
		return c20Ev{}, false
	}
}

func (x *c20Exec) fail(format string, a ...interface{}) {
	if x.stuck == "" {
		x.stuck = fmt.Sprintf(format, a...)
	}
	x.aborted = true
}

func (x *c20Exec) send(ev c20Ev) {
	select {
	case x.evCh <- ev:
	case <-time.After(c20Wait):
	}
}

// a handler registered in a ServeMux: runs on the goroutine that called Serve
func (x *c20Exec) muxHandler(hid int, wrap *c20Wrap, via *mqtt.ServeAsync, m *mqtt.Message) {
	if x.aborted {
		return
	}
	ag := &c20Agent{ptr: m, cmd: make(chan c20Cmd), frame: x.curFrame, wrap: wrap, via: via}
	x.send(c20Ev{kind: "entered", agent: ag, frame: x.curFrame, hid: hid, snap: c20Snap(m), extra: cap(m.Payload) - len(m.Payload)})
	x.agentLoop(ag, true)
}

// the handler behind a ServeAsync: runs on the goroutine ServeAsync started
func (x *c20Exec) asyncHandler(pa *c20Agent, m *mqtt.Message) {
	defer x.wg.Done()
	select {
	case <-pa.gate:
	case <-time.After(4 * c20Wait):
		return
	}
	if x.aborted {
		return
	}
	pa.ptr = m
	x.send(c20Ev{kind: "entered", agent: pa, hid: pa.hid, snap: c20Snap(m), extra: cap(m.Payload) - len(m.Payload)})
	x.agentLoop(pa, true)
}

func (x *c20Exec) agentLoop(ag *c20Agent, inHandler bool) {
	for {
		var c c20Cmd
		select {
		case c = <-ag.cmd:
		case <-time.After(4 * c20Wait):
			return
		}
		switch c.kind {
		case "quit":
			return
		case "return":
			if inHandler {
				x.wg.Add(1)
				go func() { defer x.wg.Done(); x.agentLoop(ag, false) }()
			}
			return
		case "burst":
			served := false
			for _, it := range c.items {
				switch it.kind {
				case "mut":
					it.op.apply(ag.ptr)
					it.after = x.snapshotAll()
				case "async":
					it.snap = c20Snap(ag.ptr)
					pa := it.pa
					if it.via != nil {
						it.via.Serve(ag.ptr)
					} else if it.shared > 0 {
						x.shared[it.shared-1].Serve(ag.ptr)
					} else {
						(&mqtt.ServeAsync{Handler: mqtt.HandlerFunc(func(m *mqtt.Message) { x.asyncHandler(pa, m) })}).Serve(ag.ptr)
					}
					it.after = x.snapshotAll()
				case "mux":
					it.snap = c20Snap(ag.ptr)
					fr := x.curFrame
					x.muxes[it.mi].Serve(ag.ptr)
					x.send(c20Ev{kind: "served", frame: fr})
					served = true
				}
			}
			if !served {
				x.send(c20Ev{kind: "done", agent: ag})
			}
		}
	}
}

func (x *c20Exec) canAct(a *c20Agent) bool { return a.started && a.busy == 0 }

// delegateItem: the wrapper handler a calls the Serve of what it embeds (nil if it is no wrapper or may not now)
func (x *c20Exec) delegateItem(a *c20Agent) *c20Item {
	if a.wrap == nil || !a.live {
		return nil
	}
	switch a.wrap.Kind {
	case "embedmux", "embedmuxptr", "fieldmux":
		if len(x.frames) >= 6 {
			return nil
		}
		return &c20Item{kind: "mux", mi: a.wrap.Inner}
	default:
		j := a.wrap.Inner
		if !x.canShared(j) {
			return nil
		}
		return &c20Item{kind: "async", hid: 200 + j, shared: j + 1, via: a.via}
	}
}

// doNew: somebody builds a message
func (x *c20Exec) doNew(c c20Content, extra int, nilPayload bool) {
	m := &mqtt.Message{Topic: c.Topic, ID: c.ID, QoS: mqtt.QoS(c.QoS), Retain: c.Retain, Dup: c.Dup}
	if !(nilPayload && len(c.Payload) == 0 && extra == 0) {
		m.Payload = make([]byte, len(c.Payload), len(c.Payload)+extra)
		copy(m.Payload, c.Payload)
	}
	ag := &c20Agent{id: len(x.agents), ptr: m, cmd: make(chan c20Cmd), started: true, ofDisp: -1}
	x.agents = append(x.agents, ag)
	x.wg.Add(1)
	go func() { defer x.wg.Done(); x.agentLoop(ag, false) }()
	x.steps = append(x.steps, &c20Step{Kind: "new", C: c, Extra: extra})
	x.pushDelta(x.snapshotAll())
	x.stat["new"]++
}

func (x *c20Exec) noteMutation(a *c20Agent) {
	// the agent holds the original of the dispatches it made and the copy of the dispatch it serves
	if a.ofDisp >= 0 {
		x.touched[a.ofDisp] = true
	}
	for _, e := range x.log {
		if !e.Entry && e.A == a.id {
			x.touched[e.D] = true
		}
	}
}

// doBurst: agent a executes the items without yielding in between
func (x *c20Exec) doBurst(a *c20Agent, items []*c20Item) {
	if x.aborted || !x.canAct(a) {
		return
	}
	var fr *c20Frame
	for i, it := range items {
		switch it.kind {
		case "async":
			if it.shared > 0 && !x.canShared(it.shared-1) {
				x.fail("harness: two un-entered invocations of one long-lived ServeAsync value")
				return
			}
			pa := &c20Agent{id: len(x.agents), cmd: make(chan c20Cmd), gate: make(chan struct{}), hid: it.hid, ofDisp: -1, shared: it.shared}
			x.agents = append(x.agents, pa)
			it.pa = pa
			x.wg.Add(1)
			if it.shared > 0 {
				x.sharedQ[it.shared-1] <- pa
				x.stat["async_through_long_lived_value"]++
			}
		case "mux":
			if i != len(items)-1 {
				x.fail("harness: mux dispatch must end a burst")
				return
			}
			fr = &c20Frame{id: len(x.frames), agent: a}
			x.curFrame = fr
		}
	}
	select {
	case a.cmd <- c20Cmd{kind: "burst", items: items}:
	case <-time.After(c20Wait):
		x.fail("agent %d does not take commands", a.id)
		return
	}
	ev, ok := x.wait()
	if !ok {
		x.fail("stuck: agent %d did not finish %d operations (Serve did not return / handler not entered)", a.id, len(items))
		return
	}
	for _, it := range items {
		switch it.kind {
		case "mut":
			x.steps = append(x.steps, &c20Step{Kind: "mut", A: a.id, Op: it.op})
			x.pushDelta(it.after)
			x.noteMutation(a)
			x.stat["op_"+it.op.Kind]++
			if !a.live && (a.frame != nil || a.gate != nil) {
				x.stat["mut_through_retained_pointer"]++
			}
		case "async":
			it.pa.disp = x.nd
			it.pa.ofDisp = x.nd
			it.pa.stepIdx = len(x.steps)
			x.log = append(x.log, c20Event{D: x.nd, A: a.id, C: it.snap})
			x.steps = append(x.steps, &c20Step{Kind: "async", A: a.id, B: it.hid})
			x.pushDelta(it.after)
			x.nd++
			x.stat["async"]++
		case "mux":
			fr.disp = x.nd
			x.frames = append(x.frames, fr)
			x.log = append(x.log, c20Event{D: x.nd, A: a.id, C: it.snap})
			x.steps = append(x.steps, &c20Step{Kind: "muxbegin", A: a.id, B: it.mi})
			x.deltas = append(x.deltas, nil)
			x.nd++
			a.busy++
			x.stat["muxbegin"]++
			if a.frame != nil || a.gate != nil {
				x.stat["nested_dispatch"]++
			}
		}
	}
	if fr != nil {
		x.muxEvent(fr, ev)
	} else if ev.kind != "done" || ev.agent != a {
		x.fail("unexpected event %q while agent %d was operating", ev.kind, a.id)
	}
}

// the outcome of one loop iteration of ServeMux.Serve
func (x *c20Exec) muxEvent(fr *c20Frame, ev c20Ev) {
	switch {
	case ev.kind == "entered" && ev.frame == fr && ev.agent.gate == nil:
		ag := ev.agent
		ag.id = len(x.agents)
		ag.started, ag.live = true, true
		ag.ofDisp = fr.disp
		x.agents = append(x.agents, ag)
		fr.cur = ag
		if x.touched[fr.disp] {
			x.nontrivial++
		}
		x.log = append(x.log, c20Event{Entry: true, D: fr.disp, A: ag.id, Hid: ev.hid, C: ev.snap})
		x.steps = append(x.steps, &c20Step{Kind: "muxnext", A: fr.id, Extra: ev.extra})
		x.pushDelta(x.snapshotAll())
		x.stat["mux_entries"]++
		if ag.wrap != nil {
			x.stat["entries_of_"+ag.wrap.Kind+"_wrapper"]++
		}
	case ev.kind == "served" && ev.frame == fr:
		fr.done, fr.cur = true, nil
		fr.agent.busy--
		x.steps = append(x.steps, &c20Step{Kind: "muxnext", A: fr.id})
		x.pushDelta(x.snapshotAll())
	default:
		x.fail("unexpected event %q while ServeMux.Serve of dispatch %d was looping", ev.kind, fr.disp)
	}
}

func (x *c20Exec) canNext(fr *c20Frame) bool {
	return !fr.done && fr.cur != nil && fr.cur.live && fr.cur.busy == 0
}

// doNext: the current handler of the activation returns; the loop goes on
func (x *c20Exec) doNext(fr *c20Frame) {
	if x.aborted || !x.canNext(fr) {
		return
	}
	x.curFrame = fr
	cur := fr.cur
	select {
	case cur.cmd <- c20Cmd{kind: "return"}:
	case <-time.After(c20Wait):
		x.fail("handler agent %d does not take commands", cur.id)
		return
	}
	cur.live = false
	ev, ok := x.wait()
	if !ok {
		x.fail("stuck: ServeMux.Serve of dispatch %d neither entered a handler nor returned", fr.disp)
		return
	}
	x.muxEvent(fr, ev)
}

// doRun: the goroutine of an asynchronous invocation gets to run its handler
func (x *c20Exec) doRun(pa *c20Agent) {
	if x.aborted || pa.started || pa.gate == nil {
		return
	}
	close(pa.gate)
	ev, ok := x.wait()
	if !ok {
		x.fail("stuck: the handler behind ServeAsync (dispatch %d) was never invoked", pa.disp)
		return
	}
	if ev.kind != "entered" || ev.agent != pa {
		x.fail("unexpected event %q while waiting for the asynchronous handler of dispatch %d", ev.kind, pa.disp)
		return
	}
	pa.started, pa.live = true, true
	if x.touched[pa.disp] {
		x.nontrivial++
	}
	x.steps[pa.stepIdx].Extra = ev.extra
	x.log = append(x.log, c20Event{Entry: true, D: pa.disp, A: pa.id, Hid: pa.hid, C: ev.snap})
	x.steps = append(x.steps, &c20Step{Kind: "run", A: pa.id})
	x.pushDelta(x.snapshotAll())
	x.stat["async_entries"]++
}

// a long-lived ServeAsync value may be used again once its previous invocation has been entered
func (x *c20Exec) canShared(j int) bool {
	for _, a := range x.agents {
		if a.shared == j+1 && !a.started {
			return false
		}
	}
	return true
}

func (x *c20Exec) canReturn(a *c20Agent) bool {
	return a.gate != nil && a.started && a.live && a.busy == 0
}

// doReturn: the handler behind a ServeAsync returns; the holder keeps the pointer (from now on a
// goroutine of its own obeys the commands). Nothing is observable at the return itself.
func (x *c20Exec) doReturn(pa *c20Agent) {
	if x.aborted || !x.canReturn(pa) {
		return
	}
	select {
	case pa.cmd <- c20Cmd{kind: "return"}:
	case <-time.After(c20Wait):
		x.fail("handler agent %d does not take commands", pa.id)
		return
	}
	pa.live = false
	// let the goroutine that ServeAsync started run to its end (not a wait for anything the
	// verdict depends on: whatever it does after the handler returned must not matter)
	for i := 0; i < 64; i++ {
		runtime.Gosched()
	}
	x.steps = append(x.steps, &c20Step{Kind: "return", A: pa.id})
	x.pushDelta(x.snapshotAll())
	x.stat["async_handler_returns_keeping_pointer"]++
}

// drain: let every open Serve finish and every goroutine run
func (x *c20Exec) drain(pick func(n int) int) {
	for !x.aborted {
		var fs []*c20Frame
		for _, f := range x.frames {
			if x.canNext(f) {
				fs = append(fs, f)
			}
		}
		var ps []*c20Agent
		for _, a := range x.agents {
			if a.gate != nil && !a.started {
				ps = append(ps, a)
			}
		}
		n := len(fs) + len(ps)
		if n == 0 {
			break
		}
		k := pick(n)
		if k < len(fs) {
			x.doNext(fs[k])
		} else {
			x.doRun(ps[k-len(fs)])
		}
	}
	for _, f := range x.frames {
		if !f.done && !x.aborted {
			x.fail("harness: activation %d left open", f.id)
		}
	}
}

// preroll: n asynchronous dispatches of a dummy message whose handlers stay parked until the case
// is over. Harmless for the library as it is; if an implementation recycles message storage through
// some pool, this takes whatever earlier cases left there out of circulation, so that recycling,
// if any, happens among the holders of this case, where it is observed.
func (x *c20Exec) preroll(n int) {
	x.hold = make(chan struct{})
	hold := x.hold
	m := &mqtt.Message{Topic: "preroll", Payload: []byte{0}}
	for i := 0; i < n; i++ {
		x.wg.Add(1)
		(&mqtt.ServeAsync{Handler: mqtt.HandlerFunc(func(*mqtt.Message) {
			defer x.wg.Done()
			select {
			case <-hold:
			case <-time.After(4 * c20Wait):
			}
		})}).Serve(m)
	}
}

// finish: stop all participants
func (x *c20Exec) finish() {
	if x.hold != nil {
		close(x.hold)
	}
	x.aborted = x.aborted || x.stuck != ""
	abort := x.aborted
	x.aborted = true // handlers entered from now on return at once
	for _, a := range x.agents {
		if a.gate != nil && !a.started {
			close(a.gate)
			continue
		}
		if a.started || a.gate == nil {
			select {
			case a.cmd <- c20Cmd{kind: "quit"}:
			case <-time.After(time.Second / 2):
			}
		}
	}
	if !abort {
		ch := make(chan struct{})
		go func() { x.wg.Wait(); close(ch) }()
		select {
		case <-ch:
		case <-time.After(c20Wait):
			if x.stuck == "" {
				x.stuck = "participants did not terminate"
			}
		}
	}
}

func (x *c20Exec) coqCase() string {
	var regs, steps, log, deltas []string
	for _, rs := range x.regs {
		var l []string
		for _, rg := range rs {
			l = append(l, fmt.Sprintf("RReg %s %d", c20Num([]byte(rg.Filter)), rg.Hid))
		}
		regs = append(regs, cListInline(l))
	}
	for _, s := range x.steps {
		steps = append(steps, s.coq())
	}
	for _, e := range x.log {
		log = append(log, e.coq())
	}
	for _, d := range x.deltas {
		var l []string
		for _, kc := range d {
			l = append(l, fmt.Sprintf("RD %d %s", kc.K, kc.C.coq()))
		}
		deltas = append(deltas, cListInline(l))
	}
	return cTuple(cListInline(regs), cListInline(steps), cListInline(log), cListInline(deltas))
}

func (x *c20Exec) describe() map[string]interface{} {
	var regs []string
	for i, rs := range x.regs {
		var l []string
		for _, rg := range rs {
			if w, ok := x.wraps[rg.Hid]; ok {
				l = append(l, fmt.Sprintf("%q->h%d(%s %d)", rg.Filter, rg.Hid, w.Kind, w.Inner))
				continue
			}
			l = append(l, fmt.Sprintf("%q->h%d", rg.Filter, rg.Hid))
		}
		regs = append(regs, fmt.Sprintf("mux%d[%s]", i, strings.Join(l, " ")))
	}
	var steps, log []string
	for i, s := range x.steps {
		d := ""
		if i < len(x.deltas) {
			for _, kc := range x.deltas[i] {
				d += fmt.Sprintf(" agent%d:=%v", kc.K, kc.C)
			}
		}
		steps = append(steps, s.String()+" =>"+d)
	}
	for _, e := range x.log {
		log = append(log, e.String())
	}
	return map[string]interface{}{"registrations": regs, "steps_and_changes": steps, "log": log, "stuck": x.stuck}
}
