//go:build !race

package main

const c10RaceEnabled = false
