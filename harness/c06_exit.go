package main

// C06, two families that need their own transport (both run in the child process):
//
//   exit  — the end of the link on a transport whose Close() blocks until the harness releases it
//           (TLS and websocket transports do not close instantly): when Done() is closed, Err()
//           must already be non-nil and the Closed callback already delivered; Done() must not be
//           closed while Transport.Close() is still in progress. Sampling is done at exact program
//           points: inside Close() on the library's goroutine, and while Close() is held.
//
//   alloc — one big PUBLISH whose body REALLY arrives (generated on the fly by the transport's
//           Read, nothing of that size is held by the harness): runtime.MemStats.TotalAlloc around
//           it (cumulative, independent of GC timing) must stay within the protocol's maximum
//           packet size plus a small slack.

import (
	"fmt"
	"io"
	"runtime"
	"sync"
	"time"

	mqtt "github.com/at-wat/mqtt-go"
)

// ---------- exit ----------

type c06GateConn struct {
	*memConn
	once    sync.Once
	entered chan struct{}
	release chan struct{}
	atEntry func()
}

func (g *c06GateConn) Close() error {
	g.once.Do(func() {
		g.atEntry() // runs on the goroutine that called Close: exact program point
		close(g.entered)
		<-g.release
	})
	return g.memConn.Close()
}

type c06ExitObs struct {
	Survived      bool     `json:"survived"`
	Stuck         []string `json:"stuck"`
	DoneAtEntry   bool     `json:"done_at_close_entry"`
	ErrAtEntry    string   `json:"err_at_close_entry"`
	StatesAtEntry []string `json:"states_at_close_entry"`
	DoneWhileHeld bool     `json:"done_while_close_held"`
	ErrAtDone     string   `json:"err_when_done_seen"`
	StatesAtDone  []string `json:"states_when_done_seen"`
	ErrFinal      string   `json:"err_final"`
	StatesFinal   []string `json:"states_final"`
	Crash         string   `json:"crash,omitempty"`
}

func isClosedChan(ch <-chan struct{}) bool {
	select {
	case <-ch:
		return true
	default:
		return false
	}
}

func c06RunExit(handler bool, mpl int, burst bool, stream []byte) c06ExitObs {
	o := c06ExitObs{Survived: true}
	var mu sync.Mutex
	var states []string
	snap := func() []string {
		mu.Lock()
		defer mu.Unlock()
		return append([]string{}, states...)
	}
	inner := newMemConn(1, func(c *memConn, pkt []byte) error {
		if pkt[0]&0xF0 == 0x10 {
			if burst {
				// the stream arrives in the same burst as CONNACK
				c.send(append(append([]byte{}, connackOK...), stream...))
				c.finish()
			} else {
				c.send(connackOK)
			}
		}
		return nil
	})
	g := &c06GateConn{memConn: inner, entered: make(chan struct{}), release: make(chan struct{})}
	cli := &mqtt.BaseClient{Transport: g, MaxPayloadLen: mpl}
	closedCb := make(chan struct{})
	var closedOnce sync.Once
	cli.ConnState = func(st mqtt.ConnState, err error) {
		mu.Lock()
		states = append(states, fmt.Sprintf("%s:%s", st, errClass(err)))
		mu.Unlock()
		if st == mqtt.StateClosed {
			closedOnce.Do(func() { close(closedCb) })
		}
	}
	if handler {
		cli.Handle(mqtt.HandlerFunc(func(m *mqtt.Message) {}))
	}
	g.atEntry = func() {
		o.DoneAtEntry = isClosedChan(cli.Done())
		o.ErrAtEntry = errClass(cli.Err())
		o.StatesAtEntry = snap()
	}
	if burst {
		// the caller of Connect is held after its CONNECT write until the link is down
		hold := newC06HoldCtx()
		connRes := make(chan error, 1)
		go func() {
			_, err := cli.Connect(hold, "cid")
			connRes <- err
		}()
		defer func() {
			close(hold.release)
			select {
			case <-connRes:
			case <-time.After(5 * time.Second):
			}
		}()
		select {
		case <-hold.entered:
		case <-time.After(5 * time.Second):
			close(g.release)
			return c06ExitObs{Crash: "connect: the caller of Connect did not reach its select"}
		}
	} else {
		ctx, cancel := ctxTimeout(5 * time.Second)
		defer cancel()
		if _, err := cli.Connect(ctx, "cid"); err != nil {
			close(g.release)
			return c06ExitObs{Crash: "connect: " + err.Error()}
		}
		inner.send(stream)
		inner.finish()
	}
	select {
	case <-g.entered:
		// Close() is in progress and held
		if isClosedChan(cli.Done()) {
			o.DoneWhileHeld = true
			o.ErrAtDone = errClass(cli.Err())
			o.StatesAtDone = snap()
		}
	case <-time.After(5 * time.Second):
		o.Stuck = append(o.Stuck, "Transport.Close not called within 5 s after the stream ended")
	}
	close(g.release)
	select {
	case <-cli.Done():
		if !o.DoneWhileHeld {
			o.ErrAtDone = errClass(cli.Err())
			o.StatesAtDone = snap()
		}
	case <-time.After(5 * time.Second):
		o.Stuck = append(o.Stuck, "Done not closed within 5 s after Close returned")
	}
	// the final sample is taken after the Closed callback (with the unchanged order it was delivered
	// before Done; it is the last thing that can still be outstanding otherwise)
	select {
	case <-closedCb:
	case <-time.After(5 * time.Second):
		o.Stuck = append(o.Stuck, "Closed callback not delivered within 5 s after Done")
	}
	o.ErrFinal = errClass(cli.Err())
	o.StatesFinal = snap()
	return o
}

// ---------- alloc ----------

// c06GenConn: CONNECT is answered with CONNACK; after start() the reader is served a header and
// then fill bytes generated directly into the buffer it passes to Read; then EOF.
type c06GenConn struct {
	mu      sync.Mutex
	cond    *sync.Cond
	in      []byte
	fill    int
	started bool
	closed  bool
}

func (c *c06GenConn) Read(p []byte) (int, error) {
	c.mu.Lock()
	defer c.mu.Unlock()
	for len(c.in) == 0 && !c.started && !c.closed {
		c.cond.Wait()
	}
	if len(c.in) > 0 {
		n := copy(p, c.in)
		c.in = c.in[n:]
		return n, nil
	}
	if c.closed || c.fill == 0 {
		return 0, io.EOF
	}
	n := len(p)
	if n > c.fill {
		n = c.fill
	}
	for i := 0; i < n; i++ {
		p[i] = 0x5A
	}
	c.fill -= n
	return n, nil
}

func (c *c06GenConn) Write(p []byte) (int, error) {
	if len(p) > 0 && p[0]&0xF0 == 0x10 {
		c.mu.Lock()
		c.in = append(c.in, connackOK...)
		c.cond.Broadcast()
		c.mu.Unlock()
	}
	return len(p), nil
}

func (c *c06GenConn) Close() error {
	c.mu.Lock()
	c.closed = true
	c.cond.Broadcast()
	c.mu.Unlock()
	return nil
}

type c06AllocObs struct {
	Survived  bool   `json:"survived"`
	Header    []byte `json:"header"`
	BodyLen   int    `json:"body_len"`
	Delivered int    `json:"delivered_payload_len"`
	Intact    bool   `json:"intact"`
	Delta     uint64 `json:"total_alloc_delta"`
	Err       string `json:"err"`
	Stuck     string `json:"stuck,omitempty"`
	Crash     string `json:"crash,omitempty"`
}

func c06RunAlloc(bodyLen int) c06AllocObs {
	o := c06AllocObs{Survived: true, BodyLen: bodyLen}
	c := &c06GenConn{}
	c.cond = sync.NewCond(&c.mu)
	cli := &mqtt.BaseClient{Transport: c}
	delivered, intact := -1, false
	cli.Handle(mqtt.HandlerFunc(func(m *mqtt.Message) {
		// the handler discards the message: it looks at it without copying
		delivered = len(m.Payload)
		intact = m.Topic == "ZZ"
		for _, b := range m.Payload {
			if b != 0x5A {
				intact = false
				break
			}
		}
	}))
	ctx, cancel := ctxTimeout(5 * time.Second)
	defer cancel()
	if _, err := cli.Connect(ctx, "cid"); err != nil {
		return c06AllocObs{Crash: "connect: " + err.Error()}
	}
	// QoS 0 PUBLISH, topic "ZZ" (5A 5A): the whole body after the length prefix 00 02 is fill
	o.Header = append([]byte{0x30}, encVarint(bodyLen)...)
	runtime.GC()
	var m0, m1 runtime.MemStats
	runtime.ReadMemStats(&m0)
	c.mu.Lock()
	c.in = append(append(c.in, o.Header...), 0, 2)
	c.fill = bodyLen - 2
	c.started = true
	c.cond.Broadcast()
	c.mu.Unlock()
	select {
	case <-cli.Done():
	case <-time.After(120 * time.Second):
		o.Stuck = "link did not end within 120 s"
	}
	runtime.ReadMemStats(&m1)
	o.Delta = m1.TotalAlloc - m0.TotalAlloc
	o.Delivered = delivered
	o.Intact = intact && delivered == bodyLen-4
	o.Err = errClass(cli.Err())
	runtime.GC()
	return o
}

// ---------- malformed packets with LARGE bodies, for clients with MaxPayloadLen set ----------

type c06Big struct {
	stream []byte
	coq    string // compact Coq expression: literals ++ repeat 90 n ++ ...
	label  string
	mpl    int
	desc   string
}

// c06BigPacket: header byte h, body = head ++ n fill bytes 5A; optional good packets before / after
func c06BigPacket(h byte, head []byte, n int, before, after []byte) ([]byte, string) {
	total := len(head) + n
	front := append(append(append([]byte{}, before...), h), encVarint(total)...)
	front = append(front, head...)
	s := append([]byte{}, front...)
	for i := 0; i < n; i++ {
		s = append(s, 0x5A)
	}
	s = append(s, after...)
	coq := fmt.Sprintf("(%s ++ repeat 90 (N.to_nat %d) ++ %s)", cBytes(front), n, cBytes(after))
	return s, coq
}

// every malformed kind of ParseSpec that can have a large body, with a body just above the limit
// MaxPayloadLen+65539 (and 200 KiB / 1 MiB in the thorough tier), preceded and followed by a good
// packet; plus a well-formed large QoS 1 PUBLISH (MaxPayloadLen limits OUTBOUND messages only).
func c06BigStreams(tier string) []c06Big {
	type kind struct {
		label string
		h     byte
		head  []byte
	}
	kinds := []kind{
		{"big:reserved-type-0", 0x00, nil},
		{"big:reserved-type-15", 0xF0, nil},
		{"big:subscribe-from-broker", 0x82, []byte{0, 1}},
		{"big:publish-qos3", 0x36, []byte{0, 1, 'a', 0, 1}},
		{"big:puback-flags-f", 0x4F, []byte{0, 1}},
		{"big:suback-flags-1", 0x91, []byte{0, 1}},
		{"big:connack-long", 0x20, []byte{0, 0}},
		{"big:nul-in-topic", 0x30, []byte{0, 3, 'a', 0, 'b'}},
		{"big:pingresp-flags", 0xD1, nil},
		{"big:pubrel-flags-0", 0x60, []byte{0, 1}},
	}
	good := encPublish(inMsg{Topic: []byte("g"), QoS: 1, ID: 3, Payload: []byte{1}})
	var out []c06Big
	add := func(k kind, mpl, n int) {
		s, coq := c06BigPacket(k.h, k.head, n, good, good)
		out = append(out, c06Big{s, coq, k.label, mpl, fmt.Sprintf("good PUBLISH, then header %02x with a body of %d bytes (%x + fill 5A), then good PUBLISH", k.h, len(k.head)+n, k.head)})
	}
	for i, k := range kinds {
		add(k, 1, 65560) // limit 65540
		if tier != "quick" || i%5 == 0 {
			add(k, 100, 65700)
		}
		if tier != "quick" || i%5 == 2 {
			add(k, 65536, 200<<10)
		}
		if tier == "thorough" {
			add(k, 1, 200<<10)
			add(k, 100, 1<<20)
			add(k, 0, 65560)
		}
	}
	// well-formed and large: must be processed normally whatever MaxPayloadLen says
	wf := kind{"big:wellformed-publish-q1", 0x32, []byte{0, 1, 'w', 0, 9}}
	add(wf, 1, 65560)
	add(wf, 0, 65560)
	return out
}
