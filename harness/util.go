package main

import (
	"context"
	"time"
)

func ctxTimeout(d time.Duration) (context.Context, context.CancelFunc) {
	return context.WithTimeout(context.Background(), d)
}
