package main

func init() {
	register("C08", runC08)
	rsExtra["C08"] = rsFineFamilyC08
}

func runC08(cfg *runCfg) error {
	n := 350
	depth := 1
	if cfg.tier == "thorough" {
		n, depth = 3000, 2
	}
	if cfg.tier == "search" {
		n = 1200
	}
	var enum []*rsScenario
	for wi, w := range rsWorkloads {
		if wi < 4 {
			continue
		}
		_ = wi
		for _, c := range [][3]bool{{false, true, false}, {false, false, true}, {true, false, false}} {
			rsEnumerate(w, depth, c[0], c[1], c[2], func(sc *rsScenario) { enum = append(enum, sc) })
		}
	}
	fams := []rsFamily{
		{"corpus", rsCorpus()},
		{"enum", enum},
		{"random", rsRandomFamily(cfg.seed, n, [5]int{0, 2, 1, 5, 3}, false, false)},
	}
	rule := "the F4/F5 histories; subscribe/unsubscribe workloads (repeated filters, changed QoS, multi-filter calls with duplicates, absent unsubscribes) x every placement of closing faults, session lost / kept / AlwaysResubscribe; random subscribe-heavy scenarios of 1-4 connections interleaved with publishes; judged: broker table at the end equals the net effect of the calls, re-subscriptions only name filters the application subscribed and never occur on the first connection; non-trivial = distinct scenario with a subscribe call and a reconnect"
	return rsRunProperty(cfg, "C08", "c08_ok'", fams, rule, func(sc *rsScenario, o *rsObs) bool {
		return len(sc.Phases) > 1 && len(o.Subs)+len(o.SubEst) > 0
	})
}
